(** C18, part B: acquisition.  GF(2)-linearity of the register operations (sweeps over 512 x 512), the
    synchronize() step as a function of (register, sync_count), first-lock time of the difference register
    (sweep over 512 x 18) and its lifting to the record for every phase, every counter and every history content. *)
From Coq Require Import NArith ZArith List Bool Arith Lia ZifyBool ZifyNat ZifyN.
From M17 Require Import Bits ConstsPrbs ImplPRBS SpecPRBS LemmasPRBS_A.
Import ListNotations.
Local Open Scope N_scope.

Lemma taps_lin_sweep : below 9 (fun a => below 9 (fun b => eqb (taps (N.lxor a b)) (xorb (taps a) (taps b)))) = true.
Proof. vm_cast_no_check (eq_refl true). Qed.
Lemma shift_lin_sweep :
  below 9 (fun a => below 9 (fun b =>
    (shift_in (N.lxor a b) false =? N.lxor (shift_in a false) (shift_in b false)) &&
    (shift_in (N.lxor a b) false =? N.lxor (shift_in a true) (shift_in b true)) &&
    (shift_in (N.lxor a b) true =? N.lxor (shift_in a true) (shift_in b false)) &&
    (shift_in (N.lxor a b) true =? N.lxor (shift_in a false) (shift_in b true)))) = true.
Proof. vm_cast_no_check (eq_refl true). Qed.

Lemma taps_lin a b : a < 512 -> b < 512 -> taps (N.lxor a b) = xorb (taps a) (taps b).
Proof. intros Ha Hb. pose proof (below_spec 9 _ taps_lin_sweep a ltac:(rewrite pow9; exact Ha)) as K. cbv beta in K.
  pose proof (below_spec 9 _ K b ltac:(rewrite pow9; exact Hb)) as K2. cbv beta in K2. apply eqb_prop in K2. exact K2. Qed.

Lemma shift_lin a b x y : a < 512 -> b < 512 ->
  N.lxor (shift_in a x) (shift_in b y) = shift_in (N.lxor a b) (xorb x y).
Proof. intros Ha Hb. pose proof (below_spec 9 _ shift_lin_sweep a ltac:(rewrite pow9; exact Ha)) as K. cbv beta in K.
  pose proof (below_spec 9 _ K b ltac:(rewrite pow9; exact Hb)) as K2. cbv beta in K2.
  apply andb_prop in K2. destruct K2 as [K2 K4]. apply andb_prop in K2. destruct K2 as [K2 K3].
  apply andb_prop in K2. destruct K2 as [K1 K2].
  apply N.eqb_eq in K1. apply N.eqb_eq in K2. apply N.eqb_eq in K3. apply N.eqb_eq in K4.
  destruct x, y; cbn [xorb]; symmetry; assumption. Qed.

Lemma lfsr_lin a b : a < 512 -> b < 512 -> lfsr (N.lxor a b) = N.lxor (lfsr a) (lfsr b).
Proof. intros Ha Hb. unfold lfsr. rewrite (shift_lin a b _ _ Ha Hb), (taps_lin a b Ha Hb). reflexivity. Qed.

Lemma lxor_lt_512 a b : a < 512 -> b < 512 -> N.lxor a b < 512.
Proof. change 512 with (2 ^ 9). apply lxor_lt_pow2. Qed.

(** * synchronize() as a function of the register and sync_count *)
Definition sync_step (d c : N) (e : bool) : N * N * bool :=
  let d' := shift_in d e in
  if xorb e (taps d) then (d', 0, false)
  else let c' := w_sync (c + 1) in
       if c' =? ConstsPrbs.prbs_LOCK_COUNT then (d', 0, true) else (d', c', false).

Definition locked_at (s : N) (v : prbs) : prbs :=
  mkPRBS s true 0 (w_bits (bit_count v + ConstsPrbs.prbs_LOCK_COUNT)) (err_count v) zero_history 0 0.

Lemma validate_unsynced v e : synced v = false ->
  prbs_validate v e =
  (match sync_step (state v) (sync_count v) e with
   | (d', c', lk) => if lk then locked_at d' v
                     else mkPRBS d' false c' (bit_count v) (err_count v) (history v) (hist_count v) (hist_pos v)
   end, xorb e (taps (state v))).
Proof. intros H. unfold prbs_validate, prbs_synchronize, sync_step, locked_at. rewrite H. cbn [negb].
  destruct (xorb e (taps (state v))); [reflexivity|].
  destruct (w_sync (sync_count v + 1) =? ConstsPrbs.prbs_LOCK_COUNT); reflexivity. Qed.

Lemma sync_step_lin r g c : r < 512 -> g < 512 ->
  sync_step (N.lxor r g) c false =
  (let '(r', c', lk) := sync_step r c (taps g) in (N.lxor r' (lfsr g), c', lk)).
Proof. intros Hr Hg. unfold sync_step. rewrite (taps_lin r g Hr Hg). cbn [xorb].
  assert (E : shift_in (N.lxor r g) false = N.lxor (shift_in r (taps g)) (lfsr g)).
  { unfold lfsr. rewrite (shift_lin r g _ _ Hr Hg). rewrite xorb_nilpotent. reflexivity. }
  rewrite E. rewrite (xorb_comm (taps g) (taps r)).
  destruct (xorb (taps r) (taps g)); [reflexivity|].
  destruct (w_sync (c + 1) =? ConstsPrbs.prbs_LOCK_COUNT); reflexivity. Qed.

(** first lock of the difference register [d] = validator register xor generator register, fed the error-free
    sequence (difference input 0): Some (time, difference at that moment) *)
Fixpoint first_lock (n : nat) (d c : N) : option (nat * N) :=
  match n with
  | O => None
  | S n' =>
      match sync_step d c false with
      | (d', c', lk) =>
          if lk then Some (1%nat, d')
          else match first_lock n' d' c' with Some (t, dl) => Some (S t, dl) | None => None end
      end
  end.

Definition lock_ok (d c : N) : bool :=
  (17 <? c) ||
  match first_lock 27 d c with
  | Some (t, dl) => Nat.leb t 27 && ((9 <? c) || (dl =? 0))
  | None => false
  end.
Lemma lock_sweep : below 9 (fun d => below 5 (fun c => lock_ok d c)) = true.
Proof. vm_cast_no_check (eq_refl true). Qed.

Lemma first_lock_any d c : d < 512 -> c <= 17 ->
  exists t dl, first_lock 27 d c = Some (t, dl) /\ (t <= 27)%nat /\ (c <= 9 -> dl = 0).
Proof. intros Hd Hc. pose proof (below_spec 9 _ lock_sweep d ltac:(rewrite pow9; exact Hd)) as K. cbv beta in K.
  pose proof (below_spec 5 _ K c ltac:(change (2 ^ N.of_nat 5) with 32; lia)) as K2. cbv beta in K2. unfold lock_ok in K2.
  apply orb_true_iff in K2. destruct K2 as [K2|K2]; [lia|].
  destruct (first_lock 27 d c) as [[t dl]|]; [|discriminate]. exists t, dl.
  apply andb_prop in K2. destruct K2 as [T Z]. apply Nat.leb_le in T. split; [reflexivity|]. split; [exact T|].
  intros C9. apply orb_true_iff in Z. destruct Z as [Z|Z]; [lia|]. apply N.eqb_eq in Z. exact Z. Qed.

Global Opaque first_lock.

Lemma first_lock_S n d c : first_lock (S n) d c =
  match sync_step d c false with
  | (d', c', lk) => if lk then Some (1%nat, d')
                    else match first_lock n d' c' with Some (t, dl) => Some (S t, dl) | None => None end
  end.
Proof. Transparent first_lock. reflexivity. Opaque first_lock. Qed.
Lemma first_lock_0 d c : first_lock 0 d c = None.
Proof. Transparent first_lock. reflexivity. Opaque first_lock. Qed.

Lemma run_cons v b bs : run v (b :: bs) = run (fst (prbs_validate v b)) bs.
Proof. reflexivity. Qed.
Lemma run_app v a b : run v (a ++ b) = run (run v a) b.
Proof. unfold run. apply fold_left_app. Qed.

Lemma validate_state_lt w b : state (fst (prbs_validate w b)) < 512.
Proof. unfold prbs_validate, prbs_synchronize, prbs_generate, prbs_count_errors.
  destruct (synced w); cbn [negb]; repeat match goal with |- context [if ?b then _ else _] => destruct b end;
    cbn [fst state]; apply shift_in_lt. Qed.
Lemma run_state_lt bits : forall v, state v < 512 -> state (run v bits) < 512.
Proof. induction bits as [|b bits IH]; intros v H; [exact H|]. rewrite run_cons. apply IH. apply validate_state_lt. Qed.

(** lifting: the record, any phase g, any counters and history content *)
Lemma lock_lift : forall n v g t dl, synced v = false -> state v < 512 -> g < 512 ->
  first_lock n (N.lxor (state v) g) (sync_count v) = Some (t, dl) ->
  run v (gen_bits g t) = locked_at (N.lxor dl (gen_state g t)) v
  /\ (forall m, (m < t)%nat -> synced (run v (gen_bits g m)) = false) /\ (1 <= t)%nat.
Proof. induction n as [|n IH]; intros v g t dl Hs Hv Hg F; [rewrite first_lock_0 in F; discriminate|].
  rewrite first_lock_S, (sync_step_lin _ _ _ Hv Hg) in F.
  pose proof (validate_unsynced v (taps g) Hs) as V.
  destruct (sync_step (state v) (sync_count v) (taps g)) as [[r' c'] lk] eqn:E.
  assert (Hr' : r' < 512).
  { unfold sync_step in E. destruct (xorb _ _); [|destruct (_ =? _)]; injection E as <- _ _; apply shift_in_lt. }
  destruct lk.
  - injection F as <- <-. cbn [gen_bits gen_state]. rewrite run_cons, V. cbn [fst run fold_left].
    rewrite N.lxor_assoc, N.lxor_nilpotent, N.lxor_0_r. split; [reflexivity|]. split; [|lia].
    intros m Hm. assert (m = 0%nat) by lia. subst. exact Hs.
  - set (v1 := mkPRBS r' false c' (bit_count v) (err_count v) (history v) (hist_count v) (hist_pos v)) in *.
    destruct (first_lock n (N.lxor r' (lfsr g)) c') as [[t' dl']|] eqn:F'; [|discriminate].
    injection F as <- <-.
    destruct (IH v1 (lfsr g) t' dl' eq_refl Hr' (lfsr_lt g) F') as [A [B C]].
    cbn [gen_bits gen_state]. rewrite run_cons, V. cbn [fst]. split; [exact A|]. split; [|lia].
    intros m Hm. destruct m as [|m]; [exact Hs|]. cbn [gen_bits]. rewrite run_cons, V. cbn [fst]. apply B. lia. Qed.

(** lock within 27 bits, register equal to the generator's, from every unsynced state with sync_count <= 9 *)
Lemma lock_within_27_lemma v g : synced v = false -> state v < 512 -> sync_count v <= 9 -> g < 512 ->
  exists t, (1 <= t <= 27)%nat /\
    run v (gen_bits g t) = locked_at (gen_state g t) v /\
    (forall m, (m < t)%nat -> synced (run v (gen_bits g m)) = false).
Proof. intros Hs Hv Hc Hg.
  destruct (first_lock_any (N.lxor (state v) g) (sync_count v) (lxor_lt_512 _ _ Hv Hg) ltac:(lia)) as [t [dl [F [T Z]]]].
  destruct (lock_lift 27 v g t dl Hs Hv Hg F) as [A [B C]]. rewrite (Z Hc), N.lxor_0_l in A.
  exists t. split; [lia|]. split; [exact A|exact B]. Qed.

(** from every unsynced state (sync_count <= 17) the flag is raised within 27 bits - possibly on a wrong register *)
Lemma sync_flag_within_27_lemma v g : synced v = false -> state v < 512 -> sync_count v <= 17 -> g < 512 ->
  exists t dl, (1 <= t <= 27)%nat /\ dl < 512 /\
    run v (gen_bits g t) = locked_at (N.lxor dl (gen_state g t)) v /\
    (forall m, (m < t)%nat -> synced (run v (gen_bits g m)) = false) /\
    (sync_count v <= 9 -> dl = 0).
Proof. intros Hs Hv Hc Hg.
  destruct (first_lock_any (N.lxor (state v) g) (sync_count v) (lxor_lt_512 _ _ Hv Hg) Hc) as [t [dl [F [T Z]]]].
  destruct (lock_lift 27 v g t dl Hs Hv Hg F) as [A [B C]].
  exists t, dl. split; [lia|]. split.
  - pose proof (run_state_lt (gen_bits g t) v Hv) as S.
    rewrite A in S. cbn [locked_at state] in S.
    replace dl with (N.lxor (N.lxor dl (gen_state g t)) (gen_state g t))
      by (rewrite N.lxor_assoc, N.lxor_nilpotent, N.lxor_0_r; reflexivity).
    apply lxor_lt_512; [exact S | apply gen_state_lt; exact Hg].
  - split; [exact A|]. split; [exact B|exact Z]. Qed.

(** the statement for every sync_count <= 17 is false: a validator that has just seen 17 matching bits on another
    (here the all-zero) stream raises the flag on the first matching bit, with a register that is not the generator's *)
Definition false_lock_state : prbs := mkPRBS 0 false 17 0 0 zero_history 0 0.
Lemma false_lock_witness :
  synced false_lock_state = false /\ sync_count false_lock_state <= 17 /\ state false_lock_state < 512 /\
  let v' := run false_lock_state (gen_bits 1 1) in
  synced v' = true /\ state v' <> gen_state 1 1.
Proof. vm_compute. repeat split; try discriminate; try reflexivity. Qed.

(** that state is reachable through the API alone: reset(), then 26 zero bits *)
Lemma false_lock_state_reachable h :
  run (prbs_reset (prbs_new h)) (repeat false 26) = false_lock_state.
Proof. vm_compute. reflexivity. Qed.
