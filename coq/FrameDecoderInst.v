(** The frame decoder model instantiated with the mirrors of the real pipeline stages, and the stage facts
    that the Section proofs (LemmasFD_*.v) need, discharged from the C02 / C04 / C10 / C11 developments. *)
From Coq Require Import NArith ZArith List Bool Lia.
From M17 Require Import Bits ImplCRC ConstsCrc ImplFrameDecoder SpecFrames
  ImplRandom ImplInterleave ImplPuncture ImplViterbi ImplGolay
  SpecPuncture LemmasPuncture LemmasVit_DP LemmasVit_Loop LemmasVit_ML LemmasVit_Tables ConstsFramedecoder LemmasFD_Consts.
Import ListNotations.

Definition W_dec : nat := ConstsFramedecoder.viterbi_llr.        (* Viterbi<..., 4> *)

Definition fd_matrix (g : geometry) : list N :=
  match g with GLsf => ImplPuncture.P1 | GStream => ImplPuncture.P2 | GPacket => ImplPuncture.P3 | GBert => ImplPuncture.P2 end.

Definition fd_derandomize (f : list Z) : list Z := derandomize_soft f.
Definition fd_deinterleave (f : list Z) : list Z := deinterleave 0%Z f.
Definition fd_depuncture (g : geometry) (inp prev : list Z) : list Z := fst (depuncture (fd_matrix g) (g_in g) inp prev).
Definition bit_of (n : N) : bool := negb (N.eqb n 0).
Definition fd_viterbi (g : geometry) (sc : scratch) (inp : list Z) (prev : list bool) : (list bool * Z) * scratch :=
  let '((o, c), sc') := ImplViterbi.decode W_dec (g_in g) (g_out g) sc (map b2n prev) inp in ((map bit_of o, c), sc').
Definition fd_golay (w : N) : option N := golay_decode w.

Definition fd_state := ImplFrameDecoder.dstate scratch.
Definition fd_step : fd_state -> sync -> list Z -> bool -> ImplFrameDecoder.outcome scratch :=
  ImplFrameDecoder.step scratch fd_derandomize fd_deinterleave fd_depuncture fd_viterbi fd_golay.
Definition fd_run := ImplFrameDecoder.run scratch fd_derandomize fd_deinterleave fd_depuncture fd_viterbi fd_golay.
Definition fd_reset : fd_state -> fd_state := ImplFrameDecoder.reset scratch.

(** a freshly constructed decoder: state_ = LSF, lich_segments = 0; the buffers are uninitialised in the C++ -
    the theorems quantify over their content, the extracted model starts from zeros *)
Definition fd_hidden0 : ImplFrameDecoder.hidden scratch := ImplFrameDecoder.mkhid scratch (repeat 0%Z 488) (repeat false 240) (repeat 0%N 26) scratch0.
Definition fd_init : fd_state := ImplFrameDecoder.mkst scratch MLsf 0%N (repeat 0%N 30) fd_hidden0.
Definition fd_mode (s : fd_state) : mode := ImplFrameDecoder.d_mode scratch s.
Definition fd_seg (s : fd_state) : N := ImplFrameDecoder.d_seg scratch s.
Definition fd_lsf (s : fd_state) : list N := ImplFrameDecoder.d_lsf scratch s.

(* ------------------------------------------------------------------ stage facts *)
Lemma fd_matrix_nonempty g : (0 < length (fd_matrix g))%nat.
Proof. destruct g; vm_compute; lia. Qed.

Lemma fd_depuncture_indep g inp prev prev' :
  length prev = g_in g -> length prev' = g_in g -> fd_depuncture g inp prev = fd_depuncture g inp prev'.
Proof. intros L L'. unfold fd_depuncture. f_equal.
  apply depuncture_history_free_thm; [apply fd_matrix_nonempty | exact L | exact L']. Qed.

Lemma fd_depuncture_len g inp prev : length prev = g_in g -> length (fd_depuncture g inp prev) = g_in g.
Proof. intros L. unfold fd_depuncture.
  rewrite (depuncture_spec (fd_matrix g) (g_in g) inp prev (fd_matrix_nonempty g) L). cbn [fst].
  rewrite spread_length. unfold mask. apply mask_from_length. Qed.

Lemma W_dec_ok : (2 <= W_dec <= 6)%nat. Proof. vm_compute. lia. Qed.
Lemma g_in_ok g : (g_in g / 2 <= 244)%nat /\ (g_out g <= g_in g / 2)%nat.
Proof. destruct g; vm_compute; lia. Qed.

Lemma decode_out_length sc out0 r g : wf_scratch sc -> length out0 = g_out g ->
  length (fst (fst (ImplViterbi.decode W_dec (g_in g) (g_out g) sc out0 r))) = g_out g.
Proof. intros Hsc Hout0. destruct (g_in_ok g) as [HIN HOUT].
  destruct (decode_is_dp source_tiebreak W_dec (g_in g) (g_out g) sc out0 r W_dec_ok
              ltac:(rewrite history_size_val; exact HIN) HOUT Hsc Hout0) as [E _].
  unfold ImplViterbi.decode. rewrite E. unfold dp_result. cbn [fst]. rewrite map_length, firstn_length.
  rewrite traceR_length, rev_length, forward_hist_length, costs_of_length. cbn [length]. lia. Qed.

Lemma fd_viterbi_indep g vs vs' inp prev prev' : wf_scratch vs -> wf_scratch vs' ->
  length inp = g_in g -> length prev = g_out g -> length prev' = g_out g ->
  fst (fd_viterbi g vs inp prev) = fst (fd_viterbi g vs' inp prev').
Proof. intros K K' Li Lp Lp'. unfold fd_viterbi. destruct (g_in_ok g) as [HIN HOUT].
  destruct (decode_is_viterbi_decode W_dec (g_in g) (g_out g) vs (map b2n prev) inp W_dec_ok HIN HOUT K
              ltac:(rewrite map_length; exact Lp)) as [E _].
  destruct (decode_is_viterbi_decode W_dec (g_in g) (g_out g) vs' (map b2n prev') inp W_dec_ok HIN HOUT K'
              ltac:(rewrite map_length; exact Lp')) as [E' _].
  destruct (ImplViterbi.decode W_dec (g_in g) (g_out g) vs (map b2n prev) inp) as [[o c] s1].
  destruct (ImplViterbi.decode W_dec (g_in g) (g_out g) vs' (map b2n prev') inp) as [[o' c'] s1'].
  cbn [fst] in *. assert (H : (o, c) = (o', c')) by congruence. injection H as -> ->. reflexivity. Qed.

Lemma fd_viterbi_len g vs inp prev : wf_scratch vs -> length inp = g_in g -> length prev = g_out g ->
  length (fst (fst (fd_viterbi g vs inp prev))) = g_out g /\ wf_scratch (snd (fd_viterbi g vs inp prev)).
Proof. intros K Li Lp. unfold fd_viterbi. destruct (g_in_ok g) as [HIN HOUT].
  pose proof (decode_out_length vs (map b2n prev) inp g K ltac:(rewrite map_length; exact Lp)) as L.
  destruct (decode_is_viterbi_decode W_dec (g_in g) (g_out g) vs (map b2n prev) inp W_dec_ok HIN HOUT K
              ltac:(rewrite map_length; exact Lp)) as [_ F].
  destruct (ImplViterbi.decode W_dec (g_in g) (g_out g) vs (map b2n prev) inp) as [[o c] s1].
  cbn [fst snd] in *. rewrite map_length. split; assumption. Qed.

Lemma scratch0_ok : wf_scratch scratch0. Proof. repeat split. Qed.
