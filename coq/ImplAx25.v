(** Mirror of include/m17cxx/ax25_frame.h: ax25_frame::parse and its helpers, and write().

    A std::string is a [list N] of bytes.  Every member access that can leave the string
    goes through the checked accessors of Checked.v:
      operator[]           -> [str_at]      (pos == size() yields NUL, beyond is Oob)
      substr / erase(pos)  -> [substr] / [erase_from]   (pos > size() throws std::out_of_range: [Throw])
      assign(first, last)  -> [range]       (an invalid iterator range is Oob)
    The address constants are regenerated from the header (ConstsApp).  No proofs here. *)
From Coq Require Import NArith Arith Bool String List.
From M17 Require Import Checked ConstsApp.
Import ListNotations.
Local Open Scope N_scope.

(* enum frame_type {UNDEFINED, INFORMATION, SUPERVISORY, UNNUMBERED} *)
Definition UNDEFINED : N := 0.
Definition INFORMATION : N := 1.
Definition SUPERVISORY : N := 2.
Definition UNNUMBERED : N := 3.

Record ax25 : Type := {
  ax_dest : list N;
  ax_source : list N;
  ax_repeaters : list (list N);
  ax_type : N;
  ax_info : list N;
  ax_fcs : N;
  ax_pid : option N
}.

(* the constructor's initialiser list: empty strings, UNDEFINED, fcs_(-1), no pid *)
Definition ax25_default : ax25 :=
  {| ax_dest := []; ax_source := []; ax_repeaters := []; ax_type := UNDEFINED; ax_info := []; ax_fcs := 0xFFFF; ax_pid := None |}.

(* for (i != result.size()) result[i] = uint8_t(result[i]) >> 1;   -- the index is the loop bound itself *)
Definition removeAddressExtensionBit (address : list N) : list N :=
  map (fun c => N.shiftr (N.land c 255) 1) address.

Definition getSSID (address : list N) : res N :=
  c <- str_at "getSSID: address[6]" address ax_ssid_idx ;;
  Ok (N.land c ax_ssid_mask).

Definition appendSSID (address : list N) (ssid : N) : list N :=
  if ssid =? 0 then address else address ++ [45] ++ show_dec ssid.      (* '-' + std::to_string(ssid) *)

(* returns the rewritten address and "more addresses follow" *)
Definition fixup_address (address : list N) : res (list N * bool) :=
  c <- str_at "fixup_address: address[ADDRESS_LENGTH - 1]" address (ax_ADDRESS_LENGTH - 1) ;;
  let result := N.land c ax_ext_mask =? 0 in
  let a1 := removeAddressExtensionBit address in
  ssid <- getSSID a1 ;;
  let pos := match find_first 32 a1 with Some p => p | None => ax_call_len end in
  a2 <- erase_from "fixup_address: address.erase(pos)" a1 pos ;;
  Ok (appendSSID a2 ssid, result).

Definition parse_type (frame : list N) (pos : nat) : res N :=
  c <- str_at "parse_type: frame[pos]" frame pos ;;
  Ok (match N.land c 3 with
      | 0 => INFORMATION
      | 1 => SUPERVISORY
      | 2 => INFORMATION
      | _ => UNNUMBERED
      end).

(* 16-bit bit reversal of the little-endian FCS *)
Definition parse_fcs (frame : list N) : res N :=
  if (length frame <? ax_fcs_back)%nat then Oob "parse_fcs: frame.size() - 2 wraps" else
  let checksum_pos := (length frame - ax_fcs_back)%nat in
  hi <- str_at "parse_fcs: frame[checksum_pos + 1]" frame (checksum_pos + 1) ;;
  lo <- str_at "parse_fcs: frame[checksum_pos]" frame checksum_pos ;;
  let tmp := N.lor (N.shiftl (N.land hi 255) 8) (N.land lo 255) in
  Ok (fold_left (fun checksum i => N.land (N.lor (N.shiftl checksum 1) (if N.testbit tmp (N.of_nat i) then 1 else 0)) 0xFFFF)
                (seq 0 16) 0).

Definition parse_destination (frame : list N) : res (list N) :=
  substr "parse_destination: substr" frame ax_DEST_ADDRESS_POS ax_ADDRESS_LENGTH.
Definition parse_source (frame : list N) : res (list N) :=
  substr "parse_source: substr" frame ax_SRC_ADDRESS_POS ax_ADDRESS_LENGTH.

(* (index + ADDRESS_LENGTH) < frame.length() *)
Definition rep_guard (index : nat) (frame : list N) : bool :=
  if ax_rep_guard_strict then (index + ax_ADDRESS_LENGTH <? length frame)%nat
  else (index + ax_ADDRESS_LENGTH <=? length frame)%nat.

(* while (more) { substr; index += 7; more = fixup_address(repeater) and guard; push_back }  -- explicit fuel *)
Fixpoint rep_loop (fuel : nat) (frame : list N) (index : nat) (acc : list (list N)) : res (list (list N)) :=
  match fuel with
  | O => Diverge
  | S f =>
    r <- substr "parse_repeaters: substr" frame index ax_ADDRESS_LENGTH ;;
    let index' := (index + ax_ADDRESS_LENGTH)%nat in
    fx <- fixup_address r ;;
    let more := snd fx && rep_guard index' frame in
    let acc' := acc ++ [fst fx] in
    if more then rep_loop f frame index' acc' else Ok acc'
  end.

Definition parse_repeaters (frame : list N) : res (list (list N)) :=
  if rep_guard ax_FIRST_REPEATER_POS frame then rep_loop (S (length frame)) frame ax_FIRST_REPEATER_POS [] else Ok [].

Definition parse (frame : list N) : res ax25 :=
  if (length frame <? ax_min_len)%nat then Ok ax25_default else
  fcs <- parse_fcs frame ;;
  d0 <- parse_destination frame ;;
  fd <- fixup_address d0 ;;
  s0 <- parse_source frame ;;
  fs <- fixup_address s0 ;;
  reps <- (if snd fs then parse_repeaters frame else Ok []) ;;
  let index := (ax_ADDRESS_LENGTH * (length reps + ax_addr_count_base))%nat in
  let partial := {| ax_dest := fst fd; ax_source := fst fs; ax_repeaters := reps; ax_type := UNDEFINED;
                    ax_info := []; ax_fcs := fcs; ax_pid := None |} in
  if (length frame <? index + ax_ctl_guard)%nat then Ok partial else
  ty <- parse_type frame index ;;
  _raw <- str_at "parse: frame[index++] (raw_type_)" frame index ;;
  let index1 := S index in
  pi <- (if ty =? UNNUMBERED
         then p <- str_at "parse: frame[index++] (pid_)" frame index1 ;; Ok (Some (N.land p 255), S index1)
         else Ok (None, index1)) ;;
  info <- range "parse: info_.assign(frame.begin() + index, frame.end() - 2)" frame (snd pi) (length frame - ax_fcs_len) ;;
  Ok {| ax_dest := fst fd; ax_source := fst fs; ax_repeaters := reps; ax_type := ty;
        ax_info := info; ax_fcs := fcs; ax_pid := fst pi |}.

(** write(os, frame): the text, and whether it leaves the stream in hexadecimal mode (setbase(16) is never undone) *)
Definition write_text (f : ax25) : list N * bool :=
  (str "Dest: " ++ ax_dest f ++ [10] ++ str "Source: " ++ ax_source f ++ [10]
   ++ (match ax_repeaters f with
       | [] => []
       | reps => str "Via: " ++ flat_map (fun r => r ++ [32]) reps ++ [10]
       end)
   ++ (match ax_pid f with
       | Some p => str "PID: " ++ show_hex p ++ [10]
       | None => []
       end)
   ++ str "Info: " ++ [10] ++ ax_info f ++ [10],
   match ax_pid f with Some _ => true | None => false end).
