(** BaseIirFilter (direct form II with the shift loop) realises the difference equation
      y_n = Σ_{i<N, i<=n} b_i x_{n-i}  -  Σ_{1<=i<N, i<=n} a_i y_{n-i}. *)
From Coq Require Import Arith List Lia Ring Ring_theory Bool.
From M17 Require Import ImplDSP SpecDSP LemmasDSP_Sum.
Import ListNotations.

Section Iir.
Variable R : Type.
Variables (r0 r1 : R) (radd rmul rsub : R -> R -> R) (ropp : R -> R).
Hypothesis Rth : ring_theory r0 r1 radd rmul rsub ropp (@eq R).
Add Ring Rring : Rth.
Notation "0" := r0.
Notation "1" := r1.
Infix "+" := radd.
Infix "*" := rmul.
Infix "-" := rsub.
Notation rsum := (rsum R r0 radd).
Notation conv_at := (conv_at R r0 radd rmul).
Notation feedback_at := (feedback_at R r0 radd rmul).
Notation iir_step := (iir_step R r0 radd rmul rsub).
Notation iir_run := (iir_run R r0 radd rmul rsub).
Notation run_iir := (run_iir R r0 radd rmul rsub).
Notation iir_init := (iir_init R r0).
Notation ago := (ago r0).
Notation rsum_ext := (LemmasDSP_Sum.rsum_ext R r0 radd).
Notation rsum_S := (LemmasDSP_Sum.rsum_S R r0 radd).
Notation rsum_zero := (LemmasDSP_Sum.rsum_zero R r0 r1 radd rmul rsub ropp Rth).
Notation rsum_shift := (LemmasDSP_Sum.rsum_shift R r0 r1 radd rmul rsub ropp Rth).
Notation fold_acc_rsum := (LemmasDSP_Sum.fold_acc_rsum R r0 r1 radd rmul rsub ropp Rth).
Notation conv_at_ext := (LemmasDSP_Sum.conv_at_ext R r0 radd rmul).
Notation conv_conv_comm := (LemmasDSP_Sum.conv_conv_comm R r0 r1 radd rmul rsub ropp Rth).

(** the shift loop  for (i = m; i != 0; i--) h[i] = h[i-1] *)
Definition shift_loop (m : nat) (h : list R) : list R :=
  fold_left (fun h i => set_nth i (nth (i - 1)%nat h 0) h) (rev (seq 1 m)) h.

Lemma shift_loop_spec : forall m h, m < length h ->
  length (shift_loop m h) = length h /\
  forall d, nth d (shift_loop m h) 0 = if (1 <=? d) && (d <=? m) then nth (d - 1)%nat h 0 else nth d h 0.
Proof.
  induction m; intros h Hm.
  - split; [reflexivity|]. intros d. unfold shift_loop. cbn [seq rev fold_left].
    destruct (Nat.leb_spec 1 d), (Nat.leb_spec d 0); simpl; try lia; reflexivity.
  - unfold shift_loop. rewrite rev_seq_S. cbn [fold_left]. replace (1 + m - 1)%nat with m by lia.
    fold (shift_loop m (set_nth (1 + m) (nth m h 0) h)).
    destruct (IHm (set_nth (1 + m) (nth m h 0) h)) as [L H]; [rewrite set_nth_length; lia|].
    split; [rewrite L, set_nth_length; reflexivity|].
    intros d. rewrite H. rewrite !nth_set_nth by lia.
    destruct (Nat.leb_spec 1 d), (Nat.leb_spec d m), (Nat.leb_spec d (S m)),
             (Nat.eqb_spec (d - 1) (1 + m)), (Nat.eqb_spec d (1 + m)); simpl; try lia; try reflexivity.
    subst d. f_equal. lia.
Qed.

(** the feedback loop  for (i = 1; i != N; i++) h[0] -= a[i] * h[i] *)
Definition fb_loop (a : list R) (m : nat) (h : list R) : list R :=
  fold_left (fun h i => set_nth 0 (nth 0%nat h 0 - nth i a 0 * nth i h 0) h) (seq 1 m) h.

Lemma fb_loop_spec a : forall m h, 0 < length h ->
  length (fb_loop a m h) = length h /\
  nth 0%nat (fb_loop a m h) 0 = nth 0%nat h 0 - rsum (fun i => nth (S i) a 0 * nth (S i) h 0) m /\
  forall d, 0 < d -> nth d (fb_loop a m h) 0 = nth d h 0.
Proof.
  induction m; intros h Hh.
  - split; [reflexivity|]. split; [unfold fb_loop, SpecDSP.rsum; simpl; ring|]. reflexivity.
  - unfold fb_loop. rewrite seq_S, fold_left_app. fold (fb_loop a m h). cbn [fold_left Nat.add].
    destruct (IHm h Hh) as (L & H0 & Hd).
    split; [rewrite set_nth_length; exact L|]. split.
    + rewrite nth_set_nth_eq by lia. rewrite H0, Hd by lia. rewrite rsum_S. ring.
    + intros d D. rewrite nth_set_nth_neq by lia. apply Hd. exact D.
Qed.

(** kernel of the recursion with a_0 replaced by 1 (the C++ never reads denominator_[0]) *)
Definition a1 (a : list R) : list R := match a with [] => [] | _ :: t => 1 :: t end.

Lemma a1_length a : length (a1 a) = length a.
Proof. destruct a; reflexivity. Qed.

Lemma nth_a1_S a i : nth (S i) (a1 a) 0 = nth (S i) a 0.
Proof. destruct a; reflexivity. Qed.

Lemma nth_a1_0 a : 0 < length a -> nth 0%nat (a1 a) 0 = 1.
Proof. destruct a; simpl; intros; [lia|reflexivity]. Qed.

(** conv_at k (ws ++ [w]) |ws|  in terms of the history *)
Lemma conv_at_snoc k ws w :
  conv_at k (ws ++ [w]) (length ws) = rsum (fun i => nth i k 0 * ago (ws ++ [w]) i) (length k).
Proof.
  unfold SpecDSP.conv_at. apply rsum_ext. intros i _. unfold LemmasDSP_Sum.ago.
  rewrite app_length. cbn [length]. replace (length ws + 1 - 1 - i)%nat with (length ws - i)%nat by lia.
  destruct (Nat.ltb_spec i (length ws + 1)%nat), (Nat.leb_spec i (length ws)); try lia; ring.
Qed.

(** one call of operator(): ws = the values history_[0] took so far (the direct-form-II state sequence) *)
Lemma iir_step_spec b a ws hist x : 0 < length b -> length a = length b -> length hist = length b ->
  (forall d, d < length b -> nth d hist 0 = ago ws d) ->
  let r := iir_step b a hist x in
  let w := nth 0%nat (fst r) 0 in
  length (fst r) = length b /\
  (forall d, d < length b -> nth d (fst r) 0 = ago (ws ++ [w]) d) /\
  x = conv_at (a1 a) (ws ++ [w]) (length ws) /\
  snd r = conv_at b (ws ++ [w]) (length ws).
Proof.
  intros HN La Lh H. unfold ImplDSP.iir_step. cbv zeta. cbn [fst snd].
  fold (shift_loop (length b - 1) hist).
  destruct (shift_loop_spec (length b - 1) hist) as [L1 S1]; [lia|].
  set (h1 := shift_loop (length b - 1) hist) in *.
  set (h2 := set_nth 0 x h1).
  assert (L2 : length h2 = length b) by (unfold h2; rewrite set_nth_length; lia).
  fold (fb_loop a (length b - 1) h2).
  destruct (fb_loop_spec a (length b - 1) h2) as (L3 & F0 & Fd); [lia|].
  set (h3 := fb_loop a (length b - 1) h2) in *.
  set (w := nth 0%nat h3 0) in *.
  assert (Hd : forall d, d < length b -> nth d h3 0 = ago (ws ++ [w]) d).
  { intros d D. destruct d; [rewrite ago_snoc_0; reflexivity|].
    rewrite ago_snoc_S, Fd by lia. unfold h2. rewrite nth_set_nth_neq by lia. rewrite S1.
    destruct (Nat.leb_spec 1 (S d)), (Nat.leb_spec (S d) (length b - 1)); cbn [andb]; try lia.
    replace (S d - 1)%nat with d by lia. apply H. lia. }
  split; [lia|]. split; [exact Hd|]. split.
  - (* x = w + Σ_{i>=1} a_i w_{n-i} *)
    rewrite conv_at_snoc, a1_length, La.
    replace (length b) with (S (length b - 1)) at 1 by lia.
    rewrite rsum_shift, nth_a1_0, ago_snoc_0 by lia.
    assert (E : nth 0%nat h2 0 = x) by (unfold h2; apply nth_set_nth_eq; lia).
    rewrite E in F0.
    rewrite (rsum_ext (fun i => nth (S i) (a1 a) 0 * ago (ws ++ [w]) (S i)) (fun i => nth (S i) a 0 * nth (S i) h2 0)).
    + fold w in F0. rewrite F0. ring.
    + intros i Hi. rewrite nth_a1_S, <- Hd, Fd by lia. reflexivity.
  - rewrite fold_acc_rsum, conv_at_snoc.
    rewrite (rsum_ext (fun i => nth i b 0 * nth i h3 0) (fun i => nth i b 0 * ago (ws ++ [w]) i)); [ring|].
    intros i Hi. rewrite Hd by lia. reflexivity.
Qed.

(** the state sequence produced by a run *)
Fixpoint iir_trace (b a : list R) (hist : list R) (xs : list R) : list R :=
  match xs with
  | [] => []
  | x :: t => let h1 := fst (iir_step b a hist x) in nth 0%nat h1 0 :: iir_trace b a h1 t
  end.

Lemma iir_trace_length b a : forall xs hist, length (iir_trace b a hist xs) = length xs.
Proof. induction xs; intros; simpl; auto. Qed.

Lemma iir_run_length b a : forall xs hist, length (snd (iir_run b a hist xs)) = length xs.
Proof.
  induction xs; intros; [reflexivity|]. cbn [ImplDSP.iir_run].
  destruct (iir_step b a hist a0) as [h1 y]. specialize (IHxs h1).
  destruct (iir_run b a h1 xs). simpl in *. congruence.
Qed.

Lemma iir_run_spec b a : 0 < length b -> length a = length b ->
  forall xs ws hist, length hist = length b -> (forall d, d < length b -> nth d hist 0 = ago ws d) ->
  let ws' := ws ++ iir_trace b a hist xs in
  forall m, m < length xs ->
    nth m xs 0 = conv_at (a1 a) ws' (length ws + m)%nat /\
    nth m (snd (iir_run b a hist xs)) 0 = conv_at b ws' (length ws + m)%nat.
Proof.
  intros HN La. induction xs; intros ws hist Lh H ws' m Hm; [simpl in Hm; lia|].
  unfold ws'. cbn [iir_trace ImplDSP.iir_run].
  pose proof (iir_step_spec b a ws hist a0 HN La Lh H) as S. cbv zeta in S.
  destruct (iir_step b a hist a0) as [h1 y]. cbn [fst snd] in *.
  destruct S as (L1 & H1 & X & Y).
  set (w := nth 0%nat h1 0) in *.
  specialize (IHxs (ws ++ [w]) h1 L1 H1). cbv zeta in IHxs.
  destruct (iir_run b a h1 xs) as [h2 ys]. cbn [snd] in *.
  replace (ws ++ w :: iir_trace b a h1 xs) with ((ws ++ [w]) ++ iir_trace b a h1 xs) by (rewrite <- app_assoc; reflexivity).
  destruct m.
  - cbn [nth]. rewrite Nat.add_0_r, X, Y. split; apply conv_at_ext; intros k Hk;
      symmetry; apply app_nth1; rewrite app_length; simpl; lia.
  - cbn [nth]. simpl in Hm. destruct (IHxs m) as [A B]; [lia|].
    rewrite app_length in A, B. cbn [length] in A, B.
    replace (length ws + S m)%nat with (length ws + 1 + m)%nat by lia. split; assumption.
Qed.

Lemma conv_a1_split a ys n : 0 < length a ->
  conv_at (a1 a) ys n = nth n ys 0 + feedback_at a ys n.
Proof.
  intros Ha. unfold SpecDSP.conv_at, SpecDSP.feedback_at. rewrite a1_length.
  replace (length a) with (S (length a - 1)) by lia.
  rewrite !rsum_shift. change (0 <=? n) with true. change (1 <=? 0) with false. cbn [andb].
  rewrite nth_a1_0, Nat.sub_0_r by lia.
  rewrite (rsum_ext (fun i => if S i <=? n then nth (S i) (a1 a) 0 * nth (n - S i)%nat ys 0 else 0)
                    (fun i => if (1 <=? S i) && (S i <=? n) then nth (S i) a 0 * nth (n - S i)%nat ys 0 else 0)).
  - ring.
  - intros i _. rewrite nth_a1_S. reflexivity.
Qed.

Lemma conv_split a ys n : 0 < length a ->
  conv_at a ys n = nth 0%nat a 0 * nth n ys 0 + feedback_at a ys n.
Proof.
  intros Ha. unfold SpecDSP.conv_at, SpecDSP.feedback_at.
  replace (length a) with (S (length a - 1)) by lia.
  rewrite !rsum_shift. change (0 <=? n) with true. change (1 <=? 0) with false. cbn [andb].
  rewrite Nat.sub_0_r.
  rewrite (rsum_ext (fun i => if S i <=? n then nth (S i) a 0 * nth (n - S i)%nat ys 0 else 0)
                    (fun i => if (1 <=? S i) && (S i <=? n) then nth (S i) a 0 * nth (n - S i)%nat ys 0 else 0)).
  - ring.
  - intros i _. reflexivity.
Qed.

(** the difference equation, for every input sequence and every n *)
Lemma iir_is_difference_equation_lemma b a xs n : 0 < length b -> length a = length b -> n < length xs ->
  nth n (run_iir b a xs) 0 = conv_at b xs n - feedback_at a (run_iir b a xs) n.
Proof.
  intros HN La Hn. unfold ImplDSP.run_iir.
  assert (H0 : forall d, d < length b -> nth d (iir_init (length b)) 0 = ago [] d).
  { intros. rewrite ago_nil. apply nth_repeat_any. }
  pose proof (iir_run_spec b a HN La xs [] (iir_init (length b)) (repeat_length _ _) H0) as S.
  cbv zeta in S. cbn [app length Nat.add] in S.
  set (ys := snd (iir_run b a (iir_init (length b)) xs)) in *.
  set (ws := iir_trace b a (iir_init (length b)) xs) in *.
  (* a1 * ys = a1 * (b * ws) = b * (a1 * ws) = b * xs *)
  assert (E : conv_at (a1 a) ys n = conv_at b xs n).
  { apply (conv_conv_comm b (a1 a) ws ys xs n).
    - intros m Hm. apply S. lia.
    - intros m Hm. apply S. lia. }
  rewrite conv_a1_split in E by lia. rewrite <- E. ring.
Qed.

(** standard form  Σ_i a_i y_{n-i} = Σ_i b_i x_{n-i}  when a_0 = 1 *)
Lemma iir_standard_form_lemma b a xs n : 0 < length b -> length a = length b -> n < length xs ->
  nth 0%nat a 0 = 1 ->
  conv_at a (run_iir b a xs) n = conv_at b xs n.
Proof.
  intros HN La Hn A0. rewrite conv_split, A0 by lia.
  rewrite (iir_is_difference_equation_lemma b a xs n HN La Hn) at 1. ring.
Qed.

Lemma run_iir_length b a xs : length (run_iir b a xs) = length xs.
Proof. apply iir_run_length. Qed.

End Iir.
