(** C13, part F: BaseFirFilter's ring buffer is a 150-tap convolution over everything the filter instance
    has been fed; symbols_to_baseband<N> renders a block of symbols through the instance selected by its key. *)
From Coq Require Import NArith ZArith List Bool Lia Arith.
From M17 Require Import Bits SpecM17 ImplMod ConstsMod LemmasMod_B.
Import ListNotations.
Local Open Scope Z_scope.

Notation taps := rrc_taps_num.
Notation NT := 150%nat.

Lemma taps_length : length taps = NT /\ rrc_ntaps = NT.
Proof. split; reflexivity. Qed.

(** ** dot products *)
Lemma dot_comm a : forall b, dot a b = dot b a.
Proof. induction a as [|x a IH]; intros [|y b]; cbn; try reflexivity. rewrite IH. lia. Qed.

Lemma dot_zeros a : forall n, dot a (repeat 0 n) = 0.
Proof. induction a as [|x a IH]; intros [|n]; cbn; try reflexivity. rewrite IH. lia. Qed.

Lemma dot_nil_r a : dot a [] = 0.
Proof. destruct a; reflexivity. Qed.

(** only the first |a| elements of the other operand matter, and missing ones count as zero *)
Lemma dot_firstn_pad a : forall P m, (length a <= m)%nat -> dot a (firstn (length a) (P ++ repeat 0 m)) = dot a P.
Proof. induction a as [|x a IH]; intros P m H; [reflexivity|].
  destruct P as [|p P].
  - cbn [app]. rewrite dot_nil_r. destruct m as [|m]; [cbn in H; lia|].
    cbn [length firstn repeat dot]. rewrite <- (app_nil_l (repeat 0 m)), IH by (cbn in H; lia). rewrite dot_nil_r. lia.
  - cbn [length app firstn dot]. rewrite IH by (cbn in H; lia). reflexivity. Qed.

(** ** the ring buffer walked backwards *)
Definition dec (i : nat) : nat := if Nat.eqb i 0 then (NT - 1)%nat else (i - 1)%nat.
Definition inc (i : nat) : nat := if Nat.eqb (S i) NT then 0%nat else S i.

(** indices read by the summation loop started at [idx]: dec idx, dec (dec idx), ... *)
Fixpoint widx (idx m : nat) : list nat :=
  match m with
  | O => []
  | S m' => let i' := dec idx in i' :: widx i' m'
  end.

(** the last NT inputs, newest first *)
Definition reg_of (f : fir) : list Z := map (fun j => nth j (history f) 0) (widx (pos f) NT).
Definition fir_inv (f : fir) : Prop := length (history f) = NT /\ (pos f < NT)%nat.

Lemma skipn_cons_nth {A} (d : A) l : forall a, (a < length l)%nat -> skipn a l = nth a l d :: skipn (S a) l.
Proof. induction l as [|x l IH]; intros [|a] H; cbn in *; try lia; [reflexivity|]. apply IH. lia. Qed.

(** the summation loop *)
Lemma sum_loop (h : list Z) m : forall a idx r, (a + m <= length taps)%nat ->
  snd (fold_left (fun (st : nat * Z) i =>
                    let (index, result) := st in
                    let index := if Nat.eqb index 0 then (rrc_ntaps - 1)%nat else (index - 1)%nat in
                    (index, result + nth index h 0 * nth i taps 0)) (seq a m) (idx, r))
  = r + dot (map (fun j => nth j h 0) (widx idx m)) (firstn m (skipn a taps)).
Proof. induction m as [|m IH]; intros a idx r H; [cbn; lia|].
  cbn [seq fold_left widx map]. change (rrc_ntaps - 1)%nat with (NT - 1)%nat. fold (dec idx).
  rewrite IH by lia. rewrite (skipn_cons_nth 0 taps a) by lia. cbn [firstn dot]. lia. Qed.

Lemma dec_inc p : (p < NT)%nat -> dec (inc p) = p.
Proof. intros H. unfold inc, dec. destruct (Nat.eqb_spec (S p) NT) as [E|E]; cbn; lia. Qed.

Lemma inc_lt p : (p < NT)%nat -> (inc p < NT)%nat.
Proof. intros H. unfold inc. destruct (Nat.eqb_spec (S p) NT); lia. Qed.

Lemma widx_snoc m : forall idx, exists z, widx idx (S m) = widx idx m ++ [z].
Proof. induction m as [|m IH]; intros idx; [exists (dec idx); reflexivity|].
  destruct (IH (dec idx)) as [z E]. exists z. change (widx idx (S (S m))) with (dec idx :: widx (dec idx) (S m)).
  rewrite E. reflexivity. Qed.

(** the other 149 cells read after the newest one are not the cell just written *)
Lemma widx_avoids : forallb (fun p => forallb (fun j => negb (Nat.eqb j p)) (widx p 149)) (seq 0 NT) = true.
Proof. vm_compute. reflexivity. Qed.

Lemma nth_set_nth_same {A} (x d : A) l : forall i, (i < length l)%nat -> nth i (set_nth i x l) d = x.
Proof. induction l as [|y l IH]; intros [|i] H; cbn in *; try lia; [reflexivity|]. apply IH. lia. Qed.
Lemma nth_set_nth_other {A} (x d : A) l : forall i j, i <> j -> nth j (set_nth i x l) d = nth j l d.
Proof. induction l as [|y l IH]; intros [|i] [|j] H; cbn; try reflexivity; try lia. apply IH. lia. Qed.

Opaque widx.

(** one call of operator(): the register shifts, the result is the dot product with the taps *)
Lemma fir_apply_ok f x : fir_inv f ->
  fir_inv (fst (fir_apply f x)) /\
  reg_of (fst (fir_apply f x)) = x :: removelast (reg_of f) /\
  snd (fir_apply f x) = dot taps (reg_of (fst (fir_apply f x))).
Proof. intros [Hh Hp]. unfold fir_apply.
  change (if Nat.eqb (S (pos f)) rrc_ntaps then 0%nat else S (pos f)) with (inc (pos f)).
  pose proof (sum_loop (set_nth (pos f) x (history f)) NT 0 (inc (pos f)) 0 ltac:(cbn; lia)) as L.
  change (seq 0 rrc_ntaps) with (seq 0 NT).
  destruct (fold_left _ (seq 0 NT) (inc (pos f), 0)) as [ix res]. cbn [snd fst] in *.
  assert (R : reg_of (mk_fir (set_nth (pos f) x (history f)) (inc (pos f))) = x :: removelast (reg_of f)).
  { unfold reg_of. cbn [history pos].
    Transparent widx. change (widx (inc (pos f)) NT) with (dec (inc (pos f)) :: widx (dec (inc (pos f))) 149). Opaque widx.
    rewrite dec_inc by exact Hp. cbn [map]. rewrite nth_set_nth_same by lia. f_equal.
    destruct (widx_snoc 149 (pos f)) as [z E]. rewrite E, map_app. cbn [map]. rewrite removelast_last.
    apply map_ext_in. intros j Hj. apply nth_set_nth_other.
    pose proof (proj1 (forallb_forall _ _) widx_avoids (pos f) ltac:(apply in_seq; lia)) as A.
    pose proof (proj1 (forallb_forall _ _) A j Hj) as B. apply negb_true_iff, Nat.eqb_neq in B. lia. }
  repeat split.
  - cbn [history]. rewrite set_nth_length. exact Hh.
  - cbn [pos]. apply inc_lt. exact Hp.
  - exact R.
  - rewrite L. change (firstn NT (skipn 0 taps)) with taps. rewrite dot_comm. rewrite Z.add_0_l. reflexivity. Qed.

(** ** a filter instance and everything it has been fed *)
Definition fir_rel (f : fir) (past : list Z) : Prop := fir_inv f /\ reg_of f = firstn NT (past ++ repeat 0 NT).

Lemma fir_new_rel : fir_rel fir_new [].
Proof. split; [split; [reflexivity | cbn; lia] | vm_compute; reflexivity]. Qed.

Lemma removelast_firstn {A} (l : list A) n : (S n <= length l)%nat -> removelast (firstn (S n) l) = firstn n l.
Proof. revert l. induction n as [|n IH]; intros [|x l] H; cbn in H; try lia.
  - destruct l; reflexivity.
  - change (firstn (S (S n)) (x :: l)) with (x :: firstn (S n) l).
    destruct l as [|y l]; [cbn in H; lia|]. cbn [firstn removelast] in *.
    f_equal. cbn [length] in H. specialize (IH (y :: l) ltac:(cbn [length]; lia)). cbn [firstn] in IH. exact IH. Qed.

Lemma fir_step_rel f past x : fir_rel f past ->
  fir_rel (fst (fir_apply f x)) (x :: past) /\ snd (fir_apply f x) = dot taps (x :: past).
Proof. intros [Hi Hr]. destruct (fir_apply_ok f x Hi) as [Hi' [Hr' Hy]].
  assert (R : reg_of (fst (fir_apply f x)) = firstn NT ((x :: past) ++ repeat 0 NT)).
  { rewrite Hr', Hr. cbn [app]. change (firstn NT (x :: past ++ repeat 0 NT)) with (x :: firstn 149 (past ++ repeat 0 NT)).
    f_equal. apply removelast_firstn. rewrite app_length, repeat_length. lia. }
  split; [split; assumption|]. rewrite Hy, R.
  exact (dot_firstn_pad taps (x :: past) NT ltac:(cbn; lia)). Qed.

(** the loop `for (auto& b : baseband) b = rrc(b) * scale * sign` *)
Definition gain (invert : bool) : Z := baseband_scale * (if invert then invert_factor else noninvert_factor).
Definition trunc (invert : bool) (num : Z) : Z := trunc_scaled rrc_den_log2 (gain invert) num.

Lemma to_int16_trunc (invert : bool) (y : Z) :
  to_int16 (y * baseband_scale * (if invert then invert_factor else noninvert_factor)) = trunc invert y.
Proof. unfold to_int16, trunc, trunc_scaled, gain. f_equal. lia. Qed.

Lemma ideal_from_cons past x us :
  ideal_response_from taps past (x :: us) = dot taps (x :: past) :: ideal_response_from taps (x :: past) us.
Proof. reflexivity. Qed.

Lemma ideal_from_nil past : ideal_response_from taps past [] = [].
Proof. reflexivity. Qed.

Definition shape_body (invert : bool) (st : fir * list Z) (b : Z) : fir * list Z :=
  let (rrc, out) := st in
  let (rrc', y) := fir_apply rrc b in
  (rrc', out ++ [to_int16 (y * baseband_scale * (if invert then invert_factor else noninvert_factor))]).

Opaque fir_apply to_int16 trunc dot ideal_response_from.

Lemma shape_body_ok (invert : bool) f past out x : fir_rel f past ->
  exists f', shape_body invert (f, out) x = (f', out ++ [trunc invert (dot taps (x :: past))]) /\ fir_rel f' (x :: past).
Proof. intros H. destruct (fir_step_rel f past x H) as [H' Y]. unfold shape_body.
  destruct (fir_apply f x) as [f' y]. cbn [fst snd] in *. exists f'. rewrite to_int16_trunc, Y. split; [reflexivity | exact H']. Qed.

Lemma fold_left_cons {A B} (g : A -> B -> A) x l a : fold_left g (x :: l) a = fold_left g l (g a x).
Proof. reflexivity. Qed.

Lemma shape_loop (invert : bool) (us : list Z) : forall f past out, fir_rel f past ->
  fir_rel (fst (fold_left (shape_body invert) us (f, out))) (rev us ++ past) /\
  snd (fold_left (shape_body invert) us (f, out)) = out ++ map (trunc invert) (ideal_response_from taps past us).
Proof. induction us as [|x us IH]; intros f past out H.
- split; [exact H|]. cbn [fold_left snd]. rewrite ideal_from_nil. cbn [map]. rewrite app_nil_r. reflexivity.
- rewrite fold_left_cons. destruct (shape_body_ok invert f past out x H) as [f' [E H']]. rewrite E.
  destruct (IH f' (x :: past) (out ++ [trunc invert (dot taps (x :: past))]) H') as [R O].
  split.
  + cbn [rev]. rewrite <- app_assoc. exact R.
  + rewrite O. rewrite ideal_from_cons. cbn [map]. rewrite <- app_assoc. reflexivity. Qed.

(** ** the static filter objects *)
Lemma filter_get_set_same k f fs : filter_get k (filter_set k f fs) = f.
Proof. induction fs as [|[k' g] fs IH]; cbn.
- rewrite Nat.eqb_refl. reflexivity.
- destruct (Nat.eqb_spec k' k) as [E|E]; cbn; [rewrite E, Nat.eqb_refl; reflexivity|].
  destruct (Nat.eqb_spec k' k); [contradiction | exact IH]. Qed.
Lemma filter_get_set_other k k2 f fs : k2 <> k -> filter_get k2 (filter_set k f fs) = filter_get k2 fs.
Proof. intros H. induction fs as [|[k' g] fs IH]; cbn.
- destruct (Nat.eqb_spec k k2); [congruence | reflexivity].
- destruct (Nat.eqb_spec k' k) as [E|E]; cbn.
  + subst. destruct (Nat.eqb_spec k k2); [congruence | reflexivity].
  + destruct (Nat.eqb_spec k' k2); [reflexivity | exact IH]. Qed.

(** [pasts key] = everything the filter with that key has been fed, newest first *)
Definition filters_rel (fs : filters) (pasts : nat -> list Z) : Prop := forall k, fir_rel (filter_get k fs) (pasts k).

Lemma filters_rel_init : filters_rel [] (fun _ => []).
Proof. intros k. exact fir_new_rel. Qed.

Definition feed (pasts : nat -> list Z) (key : nat) (us : list Z) : nat -> list Z :=
  fun k => if Nat.eqb k key then rev us ++ pasts key else pasts k.

Lemma symbols_to_baseband_ok (per invert : bool) N fs pasts symbols : filters_rel fs pasts ->
  let key := filter_key per N in
  let us := upsample samples_per_symbol (firstn N symbols) in
  filters_rel (fst (symbols_to_baseband per invert N fs symbols)) (feed pasts key us) /\
  snd (symbols_to_baseband per invert N fs symbols) = map (trunc invert) (ideal_response_from taps (pasts key) us).
Proof. intros H key us. unfold symbols_to_baseband. fold key. change (flat_map _ (firstn N symbols)) with us.
  change (fold_left _ us (filter_get key fs, [])) with (fold_left (shape_body invert) us (filter_get key fs, [])).
  destruct (shape_loop invert us (filter_get key fs) (pasts key) [] (H key)) as [R O].
  destruct (fold_left (shape_body invert) us (filter_get key fs, [])) as [rrc out]. cbn [fst snd] in *.
  split; [|exact O]. intros k. unfold feed. destruct (Nat.eqb_spec k key) as [->|E].
  - rewrite filter_get_set_same. exact R.
  - rewrite filter_get_set_other by exact E. apply H. Qed.

(** ** output calls as symbol blocks *)
Definition call_block (c : out_call) : nat * list Z :=
  match c with
  | OutPreamble => ((preamble_len * 4)%nat, bytes_to_symbols (repeat preamble_byte preamble_len))
  | OutFrame sw frame => (frame_symbols, bytes_to_symbols sw ++ bits_to_symbols frame)
  | OutEot => (eot_symbols, let s := bytes_to_symbols eot_sync in s ++ repeat eot_fill_symbol (eot_symbols - length s))
  end.

Lemma render_call_block (per invert : bool) fs c :
  render_baseband_call per invert fs c = symbols_to_baseband per invert (fst (call_block c)) fs (snd (call_block c)).
Proof. destruct c; reflexivity. Qed.

(** abstract rendering: per call, the ideal response of the selected instance continued from its own past *)
Definition abs_step (per invert : bool) (st : (nat -> list Z) * list Z) (c : out_call) : (nat -> list Z) * list Z :=
  let (pasts, out) := st in
  let (N, symbols) := call_block c in
  let key := filter_key per N in
  let us := upsample samples_per_symbol (firstn N symbols) in
  (feed pasts key us, out ++ map (trunc invert) (ideal_response_from taps (pasts key) us)).

Lemma render_sim (per invert : bool) calls : forall fs pasts out, filters_rel fs pasts ->
  snd (fold_left (fun (st : filters * list Z) c =>
                    let (fs, out) := st in
                    let (fs', y) := render_baseband_call per invert fs c in (fs', out ++ y)) calls (fs, out))
  = snd (fold_left (abs_step per invert) calls (pasts, out)).
Proof. induction calls as [|c calls IH]; intros fs pasts out H; [reflexivity|].
  cbn [fold_left]. rewrite render_call_block. unfold abs_step at 2.
  destruct (call_block c) as [N symbols]. cbn [fst snd].
  destruct (symbols_to_baseband_ok per invert N fs pasts symbols H) as [R O]. cbv zeta in R, O.
  destruct (symbols_to_baseband per invert N fs symbols) as [fs' y]. cbn [fst snd] in *.
  rewrite O. apply IH. exact R. Qed.

Lemma render_baseband_abs (per invert : bool) calls :
  render_baseband per invert calls = snd (fold_left (abs_step per invert) calls (fun _ => [], [])).
Proof. unfold render_baseband. apply render_sim. exact filters_rel_init. Qed.

(** ** the ideal response is causal and composes *)
Transparent ideal_response_from.
Lemma ideal_from_app u1 : forall past u2,
  ideal_response_from taps past (u1 ++ u2) = ideal_response_from taps past u1 ++ ideal_response_from taps (rev u1 ++ past) u2.
Proof. induction u1 as [|x u1 IH]; intros past u2; [reflexivity|].
  cbn [app ideal_response_from rev]. rewrite IH, <- app_assoc. reflexivity. Qed.

Lemma ideal_from_length u : forall past, length (ideal_response_from taps past u) = length u.
Proof. induction u as [|x u IH]; intros past; [reflexivity|]. cbn. rewrite IH. reflexivity. Qed.

Opaque ideal_response_from.
(** calls that all select the same instance: one continuous run over the concatenated blocks *)
Definition blocks (calls : list out_call) : list Z :=
  flat_map (fun c => upsample samples_per_symbol (firstn (fst (call_block c)) (snd (call_block c)))) calls.

Definition call_us (c : out_call) : list Z := upsample samples_per_symbol (firstn (fst (call_block c)) (snd (call_block c))).
Definition call_key (per : bool) (c : out_call) : nat := filter_key per (fst (call_block c)).

Lemma abs_step_eq (per invert : bool) pasts out c :
  abs_step per invert (pasts, out) c =
  (feed pasts (call_key per c) (call_us c),
   out ++ map (trunc invert) (ideal_response_from taps (pasts (call_key per c)) (call_us c))).
Proof. unfold abs_step, call_key, call_us. destruct (call_block c) as [N symbols]. reflexivity. Qed.

Lemma blocks_cons c calls : blocks (c :: calls) = call_us c ++ blocks calls.
Proof. reflexivity. Qed.

Lemma same_key_run (per invert : bool) key calls : forall pasts out,
  Forall (fun c => call_key per c = key) calls ->
  fst (fold_left (abs_step per invert) calls (pasts, out)) key = rev (blocks calls) ++ pasts key /\
  snd (fold_left (abs_step per invert) calls (pasts, out)) = out ++ map (trunc invert) (ideal_response_from taps (pasts key) (blocks calls)).
Proof. induction calls as [|c calls IH]; intros pasts out H.
- cbn [fold_left fst snd]. change (blocks []) with (@nil Z). rewrite ideal_from_nil. cbn [rev map app]. rewrite app_nil_r. split; reflexivity.
- inversion H as [|? ? Hc Hr]; subst. rewrite fold_left_cons, abs_step_eq.
  destruct (IH (feed pasts (call_key per c) (call_us c))
               (out ++ map (trunc invert) (ideal_response_from taps (pasts (call_key per c)) (call_us c))) Hr) as [P O].
  rewrite P, O. unfold feed. rewrite Nat.eqb_refl. rewrite blocks_cons. split.
  + rewrite rev_app_distr, <- app_assoc. reflexivity.
  + rewrite ideal_from_app, map_app, <- app_assoc. reflexivity. Qed.
