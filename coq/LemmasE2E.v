(** C20 end to end, at the level of the three models: the transmitter model (ImplMod.send_lsf, tied to SpecM17 by
    C13), the clean channel into the frame decoder model (C01, rt_lsf_m17mod) and m17-demod's handler model
    (ImplApp.handle_frame / dump_lsf, C20 lsf_report_lemma).  The only new mathematics is the AGREEMENT between the two
    independent formulations of the 30 LSF bytes: SpecM17.spec_lsf (transmitter side, C13/C01) and SpecApp.spec_lsf
    (receiver side, C20). *)
From Coq Require Import NArith ZArith Arith Bool String Lia List.
From M17 Require Bits SpecCRC SpecM17 ImplMod LemmasCRC_B LemmasMod_C LemmasMod_D
  ImplViterbi ImplFrameDecoder FrameDecoderInst LemmasFD_Inst LemmasRT_A LemmasRT_G.
From M17 Require Import Checked ConstsApp ImplApp LemmasApp SpecApp LemmasC20.
Import ListNotations.
Local Open Scope N_scope.

(** * 1. the two alphabets and character values *)

Lemma alphabets_agree : SpecM17.alphabet = str SpecApp.alphabet.
Proof. vm_compute. reflexivity. Qed.

Lemma index_from_find_first c : forall l i,
  SpecM17.index_from c l i = option_map (fun v => i + N.of_nat v) (find_first c l).
Proof. induction l as [|x l IH]; intros i; cbn [SpecM17.index_from find_first]; [reflexivity|].
  destruct (N.eqb x c).
  - cbn [option_map]. f_equal. lia.
  - rewrite IH. destruct (find_first c l) as [v|]; cbn [option_map]; [|reflexivity]. f_equal. lia. Qed.

Lemma char_value_agree c : SpecM17.char_value c = option_map N.of_nat (SpecApp.char_value c).
Proof. unfold SpecM17.char_value, SpecApp.char_value. rewrite alphabets_agree, index_from_find_first.
  destruct (find_first c (str alphabet)); reflexivity. Qed.

(** the digit of a character is the same number in both specifications - for EVERY character code *)
Lemma char_digit_agree c : SpecM17.char_digit c = value_of c.
Proof. unfold SpecM17.char_digit, value_of. rewrite char_value_agree.
  destruct (SpecApp.char_value c); reflexivity. Qed.

(** base-40 numbers: fold_right in SpecM17, structural recursion in SpecApp *)
Lemma base40_agree cs : SpecM17.base40 cs = call_number cs.
Proof. induction cs as [|c r IH]; [reflexivity|].
  unfold SpecM17.base40 in *. cbn [fold_right call_number]. rewrite IH, char_digit_agree. reflexivity. Qed.

(** * 2. big-endian bytes: shifts and masks in SpecM17, divisions in SpecApp; equal for every number *)

Lemma be_byte_div v k : N.land (N.shiftr v (8 * k)) 255 = (v / 256 ^ k) mod 256.
Proof. change 255 with (N.ones 8). rewrite N.land_ones, N.shiftr_div_pow2, N.pow_mul_r. reflexivity. Qed.

Lemma be_bytes6_agree v : SpecM17.be_bytes 6 v = be6 v.
Proof. unfold SpecM17.be_bytes, be6. cbn [seq map Nat.sub N.of_nat Pos.of_succ_nat Pos.succ].
  rewrite !be_byte_div. rewrite !N.div_div by discriminate.
  change (256 ^ 0) with 1. rewrite N.div_1_r. reflexivity. Qed.

Lemma be_bytes2_agree v : v < 65536 -> SpecM17.be_bytes 2 v = [v / 256; v mod 256].
Proof. intros H. unfold SpecM17.be_bytes. cbn [seq map Nat.sub N.of_nat Pos.of_succ_nat Pos.succ].
  rewrite !be_byte_div. change (256 ^ 0) with 1. change (256 ^ 1) with 256. rewrite N.div_1_r.
  f_equal. apply N.mod_small. apply N.div_lt_upper_bound; [discriminate | exact H]. Qed.

(** * 3. validity: the receiver-side notion (1..9 characters, no space) implies the transmitter-side one
         (0..9 characters of the alphabet); conversely a transmitter-side callsign that is non-empty and has no
         space is valid on the receiver side *)

Lemma in_alphabet_iff c : SpecM17.in_alphabet c = true <-> exists v, SpecApp.char_value c = Some v.
Proof. unfold SpecM17.in_alphabet. rewrite char_value_agree. destruct (SpecApp.char_value c) as [v|]; cbn [option_map].
  - split; [intros _; exists v; reflexivity | reflexivity].
  - split; [discriminate | intros (v & H); discriminate H]. Qed.

Lemma valid_char_in_alphabet c : valid_char c -> SpecM17.in_alphabet c = true.
Proof. intros (v & H). apply in_alphabet_iff. exists (S v). exact H. Qed.

Lemma valid_call_callsign cs : valid_call cs -> SpecM17.valid_callsign cs.
Proof. intros (L & F). split; [lia|]. apply forallb_forall. intros c Hc.
  apply valid_char_in_alphabet. rewrite Forall_forall in F. exact (F c Hc). Qed.

Lemma char_value_space c : SpecApp.char_value c = Some O -> c = 32.
Proof. unfold SpecApp.char_value. change (str alphabet) with (32 :: skipn 1 (str alphabet)). cbn [find_first].
  destruct (N.eqb_spec 32 c) as [E|E]; [intros _; symmetry; exact E|].
  destruct (find_first c (skipn 1 (str alphabet))); discriminate. Qed.

Lemma valid_callsign_call cs : SpecM17.valid_callsign cs -> cs <> [] -> ~ In 32 cs -> valid_call cs.
Proof. intros (L & F) Hn Hs. split.
  - destruct cs; [contradiction Hn; reflexivity | cbn [length] in *; lia].
  - apply Forall_forall. intros c Hc. rewrite forallb_forall in F. specialize (F c Hc).
    apply in_alphabet_iff in F. destruct F as ([|v] & Hv).
    + apply char_value_space in Hv. subst c. contradiction.
    + exists v. exact Hv. Qed.

(** the empty destination of m17-mod (no -D option) is the broadcast address *)
Definition dest_arg (dst : option (list N)) : list N := match dst with Some cs => cs | None => [] end.

Lemma dest_arg_valid dst : (match dst with Some cs => valid_call cs | None => True end) -> SpecM17.valid_callsign (dest_arg dst).
Proof. destruct dst as [cs|]; cbn [dest_arg]; [apply valid_call_callsign|]. intros _. split; [cbn; lia | reflexivity]. Qed.

(** * 4. addresses, TYPE, CRC and the 30 bytes *)

Lemma src_address_agree cs : SpecM17.spec_address cs = be6 (call_number cs).
Proof. unfold SpecM17.spec_address. rewrite be_bytes6_agree, base40_agree. reflexivity. Qed.

Lemma dst_address_agree dst : (match dst with Some cs => valid_call cs | None => True end) ->
  SpecM17.spec_dst_address (dest_arg dst) = SpecApp.spec_address dst.
Proof. destruct dst as [cs|]; cbn [dest_arg SpecApp.spec_address]; [|intros _; reflexivity].
  intros ((L & _) & _). destruct cs as [|c r]; [cbn in L; lia|].
  unfold SpecM17.spec_dst_address. apply src_address_agree. Qed.

Lemma type_agree can : SpecM17.lsf_type_stream_voice can = spec_type can.
Proof. reflexivity. Qed.

Lemma type_bytes_agree can : can < 16 ->
  SpecM17.be_bytes 2 (SpecM17.lsf_type_stream_voice can) = [spec_type can / 256; spec_type can mod 256].
Proof. intros H. rewrite type_agree. apply be_bytes2_agree. unfold spec_type. lia. Qed.

(** the CRC bytes the transmitter-side specification appends *)
Definition lsf_crc_bytes (dest src : list N) (can : N) : list N :=
  SpecCRC.crc_hi_lo (SpecCRC.m17_crc (SpecM17.spec_lsf_body dest src can)).

Lemma lsf_crc_bytes_ok dest src can : length (lsf_crc_bytes dest src can) = 2%nat /\ SpecApp.all_bytes (lsf_crc_bytes dest src can).
Proof. split; [reflexivity|]. unfold lsf_crc_bytes.
  apply (LemmasMod_C.crc_hi_lo_bytes (SpecCRC.m17_crc (SpecM17.spec_lsf_body dest src can))).
  Transparent SpecCRC.m17_crc. unfold SpecCRC.m17_crc, SpecCRC.crc_direct. Opaque SpecCRC.m17_crc.
  apply LemmasCRC_B.direct_bits_lt. reflexivity. Qed.

(** AGREEMENT: the transmitter-side LSF (SpecM17, used by C13 and C01) is the receiver-side LSF (SpecApp, used by C20)
    with an all-zero META field and the CRC of the first 28 bytes *)
Lemma spec_lsf_agree (dst : option (list N)) (src : list N) (can : N) :
  (match dst with Some cs => valid_call cs | None => True end) -> can < 16 ->
  SpecM17.spec_lsf (dest_arg dst) src can
  = SpecApp.spec_lsf dst src can (repeat 0 14) (lsf_crc_bytes (dest_arg dst) src can).
Proof. intros Hd Hc. unfold SpecM17.spec_lsf, SpecApp.spec_lsf, lsf_crc_bytes.
  set (crc := SpecCRC.crc_hi_lo _). clearbody crc. unfold SpecM17.spec_lsf_body.
  rewrite (dst_address_agree dst Hd), src_address_agree, (type_bytes_agree can Hc).
  rewrite <- !app_assoc. reflexivity. Qed.

(** * 5. composition *)

(** how m17-demod hands a frame-decoder callback to handle_frame: switch (frame.type) *)
Definition app_callback (cb : ImplFrameDecoder.callback) : ImplApp.callback :=
  match ImplFrameDecoder.cb_type cb with
  | ImplFrameDecoder.FLsf => CbLSF (ImplFrameDecoder.cb_bytes cb) (ImplFrameDecoder.cb_cost cb)
  | ImplFrameDecoder.FLich => CbLICH (ImplFrameDecoder.cb_cost cb)
  | ImplFrameDecoder.FStream => CbStream (ImplFrameDecoder.cb_bytes cb) (ImplFrameDecoder.cb_cost cb)
  | ImplFrameDecoder.FBasic => CbBasicPacket (ImplFrameDecoder.cb_bytes cb) (ImplFrameDecoder.cb_cost cb)
  | ImplFrameDecoder.FFull => CbFullPacket (ImplFrameDecoder.cb_bytes cb) (ImplFrameDecoder.cb_cost cb)
  | ImplFrameDecoder.FBert => CbBert (ImplFrameDecoder.cb_bytes cb) (ImplFrameDecoder.cb_cost cb)
  end.

Lemma observe_cbs (o : ImplFrameDecoder.outcome ImplViterbi.scratch) :
  ImplFrameDecoder.cbs_of ImplViterbi.scratch o = snd (LemmasFD_Inst.fd_observe o).
Proof. reflexivity. Qed.

Section E2E.
Variable cstate : Type.
Variable codec2_decode : cstate -> list N -> cstate * list Z.

Lemma run_app_single o (st st' : app cstate) cb out :
  handle_frame cstate codec2_decode o st cb = Ok (st', out) -> run_app cstate codec2_decode o st [cb] = Ok (st', [out]).
Proof. intros H. cbn [run_app]. rewrite H. reflexivity. Qed.

(** the handler on the transmitter-side LSF *)
Lemma report_of_tx_lsf (st : app cstate) nb dst src can cost :
  valid_call src -> (match dst with Some cs => valid_call cs | None => True end) -> can < 16 ->
  handle_frame cstate codec2_decode {| o_display_lsf := true; o_noise_blanker := nb |} st
    (CbLSF (SpecM17.spec_lsf (dest_arg dst) src can) cost)
  = Ok ({| a_packet := []; a_counter := 0; a_hex := false; a_prbs := a_prbs st; a_codec := a_codec st |},
        {| r_ret := true; r_err := spec_lsf_line dst src can (repeat 0 14) (lsf_crc_bytes (dest_arg dst) src can);
           r_out := []; r_c2 := [] |}).
Proof. intros Hs Hd Hc. cbn [handle_frame]. rewrite (spec_lsf_agree dst src can Hd Hc).
  destruct (lsf_crc_bytes_ok (dest_arg dst) src can) as (L2 & B2).
  apply lsf_report_lemma; try assumption; [apply repeat_length|].
  apply Forall_forall. intros x Hx. apply repeat_spec in Hx. subst x. reflexivity. Qed.

Lemma link_report_end_to_end (st : app cstate) (nb : bool) (dst : option (list N)) (src : list N) (can : N)
    (uninit : list bool) (s : FrameDecoderInst.fd_state) (m : list Z) (r : bool) :
  valid_call src -> (match dst with Some cs => valid_call cs | None => True end) -> can < 16 ->
  LemmasFD_Inst.fd_hid_ok s -> length m = 368%nat -> Forall (fun x => 1 <= x <= 7)%Z m ->
  let tx := ImplMod.send_lsf uninit can src (dest_arg dst) ImplMod.AUDIO in
  let crc := SpecCRC.crc_hi_lo (SpecCRC.m17_crc (SpecM17.spec_lsf_body (dest_arg dst) src can)) in
  exists (f : list bool) (c : Z),
    snd tx = [ImplMod.OutFrame SpecM17.sync_lsf f] /\
    fst tx = SpecApp.spec_lsf dst src can (repeat 0 14) crc /\
    LemmasFD_Inst.fd_observe (FrameDecoderInst.fd_step s ImplFrameDecoder.SLsf (LemmasRT_A.soft m f) r)
      = (ImplFrameDecoder.MStream, ImplFrameDecoder.ROk, Some c, [ImplFrameDecoder.mkcb ImplFrameDecoder.FLsf (fst tx) c]) /\
    (Forall (fun x => x = 7%Z) m -> c = 0%Z) /\
    run_app cstate codec2_decode {| o_display_lsf := true; o_noise_blanker := nb |} st
      (map app_callback (ImplFrameDecoder.cbs_of ImplViterbi.scratch
                           (FrameDecoderInst.fd_step s ImplFrameDecoder.SLsf (LemmasRT_A.soft m f) r)))
    = Ok ({| a_packet := []; a_counter := 0; a_hex := false; a_prbs := a_prbs st; a_codec := a_codec st |},
          [{| r_ret := true; r_err := spec_lsf_line dst src can (repeat 0 14) crc; r_out := []; r_c2 := [] |}]).
Proof. intros Hs Hd Hc Hh Lm Fm tx crc.
  pose proof (valid_call_callsign src Hs) as Vs. pose proof (dest_arg_valid dst Hd) as Vd.
  destruct (LemmasRT_G.rt_lsf_m17mod uninit can src (dest_arg dst) s m r Vs Vd Hc Hh Lm Fm)
    as (L & f & Htx & c & C0 & O & _).
  pose proof (LemmasMod_D.send_lsf_ok uninit can src (dest_arg dst) Vs Vd Hc) as Htx2.
  assert (EL : L = SpecM17.spec_lsf (dest_arg dst) src can).
  { rewrite Htx in Htx2. exact (f_equal fst Htx2). }
  subst tx. rewrite Htx. cbn [fst snd]. clear Htx Htx2.
  exists f, c. rewrite observe_cbs, O.
  set (o := FrameDecoderInst.fd_step _ _ _ _) in *. clearbody o. clear O. cbn [snd map]. subst L.
  split; [reflexivity|]. split; [exact (spec_lsf_agree dst src can Hd Hc)|]. split; [reflexivity|]. split; [exact C0|].
  apply run_app_single. exact (report_of_tx_lsf st nb dst src can c Hs Hd Hc). Qed.

End E2E.

(** * 6. the same as ONE function from the transmitter's arguments to the receiver's output *)

(** the frame handed to output_frame by send_lsf *)
Definition tx_frame (tx : list N * list ImplMod.out_call) : list bool :=
  match snd tx with [ImplMod.OutFrame _ f] => f | _ => [] end.

Section Pipeline.
Variable cstate : Type.
Variable codec2_decode : cstate -> list N -> cstate * list Z.

(** m17-mod's send_lsf -> soft bits of magnitudes [m] -> M17FrameDecoder (state [s], callback result [r]) ->
    handle_frame on every callback, with -l *)
Definition lsf_pipeline (nb : bool) (st : app cstate) (uninit : list bool) (s : FrameDecoderInst.fd_state) (m : list Z) (r : bool)
    (dst : option (list N)) (src : list N) (can : N) : res (app cstate * list (out)) :=
  let f := tx_frame (ImplMod.send_lsf uninit can src (dest_arg dst) ImplMod.AUDIO) in
  run_app cstate codec2_decode {| o_display_lsf := true; o_noise_blanker := nb |} st
    (map app_callback (ImplFrameDecoder.cbs_of ImplViterbi.scratch
                         (FrameDecoderInst.fd_step s ImplFrameDecoder.SLsf (LemmasRT_A.soft m f) r))).

Lemma link_report_pipeline (st : app cstate) (nb : bool) (dst : option (list N)) (src : list N) (can : N)
    (uninit : list bool) (s : FrameDecoderInst.fd_state) (m : list Z) (r : bool) :
  valid_call src -> (match dst with Some cs => valid_call cs | None => True end) -> can < 16 ->
  LemmasFD_Inst.fd_hid_ok s -> length m = 368%nat -> Forall (fun x => 1 <= x <= 7)%Z m ->
  lsf_pipeline nb st uninit s m r dst src can
  = Ok ({| a_packet := []; a_counter := 0; a_hex := false; a_prbs := a_prbs st; a_codec := a_codec st |},
        [{| r_ret := true;
            r_err := spec_lsf_line dst src can (repeat 0 14)
                       (SpecCRC.crc_hi_lo (SpecCRC.m17_crc (SpecM17.spec_lsf_body (dest_arg dst) src can)));
            r_out := []; r_c2 := [] |}]).
Proof. intros Hs Hd Hc Hh Lm Fm.
  destruct (link_report_end_to_end cstate codec2_decode st nb dst src can uninit s m r Hs Hd Hc Hh Lm Fm)
    as (f & c & Hf & _ & _ & _ & R).
  unfold lsf_pipeline, tx_frame. rewrite Hf. exact R. Qed.

End Pipeline.

(** a concrete run for the Examples: fresh decoder, full-confidence soft bits, codec2 never called *)
Definition lsf_pipeline_example (dst : option (list N)) (src : list N) (can : N) : res (app unit * list (out)) :=
  lsf_pipeline unit (fun c _ => (c, [])) false (app_init unit tt) [] FrameDecoderInst.fd_init (repeat 7%Z 368) true dst src can.
