(** C01 round trip, part B: agreement of the two formulations of puncturing and of the convolutional
    encoder (SpecM17 vs SpecPuncture / SpecConv), and what de-puncturing makes of a punctured clean frame:
    a vector that is [clean] for the code word and non-zero on every position the decoder's erasure mask keeps.
    Generic list facts. *)
From Coq Require Import NArith ZArith List Bool Lia Arith.
From M17 Require Import Bits ImplPuncture SpecPuncture LemmasPuncture SpecConv SpecM17 LemmasVit_Free LemmasRT_A.
Import ListNotations.
Local Open Scope Z_scope.

(* ------------------------------------------------------------------ puncturing: SpecM17 vs SpecPuncture *)
Definition nz (n : N) : bool := negb (N.eqb n 0).

Lemma nth_map_nz p k : (k < length p)%nat -> nth k (map nz p) true = nz (nth k p 0%N).
Proof. intros H. rewrite (nth_indep _ true (nz 0%N)) by (rewrite map_length; exact H). apply map_nth. Qed.

Lemma puncture_from_keep p : (0 < length p)%nat -> forall (c : list bool) i,
  puncture_from (map nz p) i c = keep (mask_from p i (length c)) c.
Proof. intros HP. induction c as [|b c IH]; intros i; [reflexivity|].
  cbn [length]. rewrite mask_from_S. cbn [puncture_from keep]. rewrite IH. rewrite map_length.
  rewrite nth_map_nz by (apply Nat.mod_upper_bound; lia).
  unfold p_at, nz. destruct (negb _); reflexivity. Qed.

Lemma spec_puncture_keep p c : (0 < length p)%nat -> spec_puncture (map nz p) c = keep (mask p (length c)) c.
Proof. intros HP. apply puncture_from_keep. exact HP. Qed.

Lemma P1_agree : SpecM17.P1 = map nz ImplPuncture.P1. Proof. reflexivity. Qed.
Lemma P2_agree : SpecM17.P2 = map nz ImplPuncture.P2. Proof. reflexivity. Qed.
Lemma P3_agree : SpecM17.P3 = map nz ImplPuncture.P3. Proof. reflexivity. Qed.

(* ------------------------------------------------------------------ convolutional encoder: SpecM17 vs SpecConv *)
Lemma conv_from_agree : forall w d1 d2 d3 d4,
  SpecM17.conv_from (d1, d2, d3, d4) w = SpecConv.conv_from d1 d2 d3 d4 w.
Proof. induction w as [|x w IH]; intros; [reflexivity|].
  cbn [SpecM17.conv_from SpecConv.conv_from conv_step app]. rewrite IH. reflexivity. Qed.

Lemma spec_conv_agree bits : spec_conv bits = conv (bits ++ repeat false 4).
Proof. unfold spec_conv, conv, conv_zero. apply conv_from_agree. Qed.

Lemma spec_conv_length bits : length (spec_conv bits) = (2 * (length bits + 4))%nat.
Proof. rewrite spec_conv_agree, conv_length, app_length, repeat_length. reflexivity. Qed.

(* ------------------------------------------------------------------ spread of a soft vector *)
(** the positions of [mk] that actually receive one of [n] available values *)
Fixpoint avail (mk : list bool) (n : nat) : list bool :=
  match mk with
  | [] => []
  | true :: mk' => match n with O => false :: avail mk' O | S k => true :: avail mk' k end
  | false :: mk' => false :: avail mk' n
  end.

Lemma spread_soft_clean L : forall mk (c : list bool) m, length mk = length c ->
  Forall (fun x => 1 <= x <= L) m -> clean L (spread 0 mk (soft m (keep mk c))) c.
Proof. unfold clean. induction mk as [|b mk IH]; intros [|y c] m Hl F; try discriminate; [constructor|].
  cbn [length] in Hl. destruct b; cbn [keep].
  - destruct m as [|x m].
    + rewrite soft_nil_l. cbn [spread]. constructor; [left; reflexivity|].
      specialize (IH c [] ltac:(lia) F). rewrite soft_nil_l in IH. exact IH.
    + rewrite soft_cons. cbn [spread]. inversion F as [|? ? Hx Fm]; subst. constructor.
      * right. destruct y; lia.
      * apply IH; [lia | exact Fm].
  - cbn [spread]. constructor; [left; reflexivity|]. apply IH; [lia | exact F]. Qed.

Lemma spread_soft_sub : forall mk (c : list bool) m, length mk = length c ->
  Forall (fun x => 1 <= x) m -> mask_sub (avail mk (length m)) (spread 0 mk (soft m (keep mk c))).
Proof. unfold mask_sub. induction mk as [|b mk IH]; intros [|y c] m Hl F; try discriminate; [constructor|].
  cbn [length] in Hl. destruct b; cbn [keep].
  - destruct m as [|x m].
    + rewrite soft_nil_l. cbn [spread length avail]. constructor; [discriminate|].
      specialize (IH c [] ltac:(lia) F). rewrite soft_nil_l in IH. exact IH.
    + rewrite soft_cons. cbn [spread length avail]. inversion F as [|? ? Hx Fm]; subst. constructor.
      * intros _. destruct y; lia.
      * apply IH; [lia | exact Fm].
  - cbn [spread avail]. constructor; [discriminate|]. apply IH; [lia | exact F]. Qed.

Lemma soft_abs L : 0 <= L -> forall m b, Forall (fun x => x = L) m -> Forall (fun x => Z.abs x = L) (soft m b).
Proof. intros HL. induction m as [|x m IH]; intros [|y b] F; try (rewrite ?soft_nil_r; apply Forall_nil).
  rewrite soft_cons. pose proof (Forall_inv F) as Hx. cbv beta in Hx.
  constructor; [destruct y; lia | apply IH; exact (Forall_inv_tail F)]. Qed.

Lemma spread_abs L : forall mk l, Forall (fun x => Z.abs x = L) l ->
  Forall (fun x => x = 0 \/ Z.abs x = L) (spread 0 mk l).
Proof. induction mk as [|b mk IH]; intros l F; [constructor|]. destruct b.
  - destruct l as [|x l]; cbn [spread].
    + constructor; [left; reflexivity | apply IH; constructor].
    + constructor; [right; exact (Forall_inv F) | apply IH; exact (Forall_inv_tail F)].
  - cbn [spread]. constructor; [left; reflexivity | apply IH; exact F]. Qed.

(** all three facts for one punctured clean frame *)
Lemma depunctured_clean p (c : list bool) m :
  (0 < length p)%nat -> Forall (fun x => 1 <= x <= 7) m ->
  let r := spread 0 (mask p (length c)) (soft m (spec_puncture (map nz p) c)) in
  clean 7 r c /\ mask_sub (avail (mask p (length c)) (length m)) r /\
  (Forall (fun x => x = 7) m -> forall x, In x r -> x = 0 \/ Z.abs x = 7).
Proof. intros HP F r. subst r. rewrite spec_puncture_keep by exact HP.
  assert (Lm : length (mask p (length c)) = length c) by (unfold mask; apply mask_from_length).
  split; [apply spread_soft_clean; assumption|]. split.
  - apply spread_soft_sub; [exact Lm|]. eapply Forall_impl; [|exact F]. cbv beta. intros; lia.
  - intros F7. apply Forall_forall. apply spread_abs. apply soft_abs; [lia | exact F7]. Qed.
