(** Extraction of the DSP models for the correspondence check: ExtrOcamlBasic only.
    Two instances of the ring-generic models: Z (dyadic-scaled integers; the fast path for long FIR runs)
    and Qc (canonical rationals; IIR and sliding DFT, whose values are not on a fixed denominator). *)
Require Extraction.
Require Import ExtrOcamlBasic.
From Coq Require Import ZArith NArith QArith Qcanon List.
From M17 Require Import ImplDSP SpecDSP ConstsTaps ConstsDsp.

(* Z instance *)
Definition c19_fir_init_z (n : nat) : fir_state Z := fir_init Z 0%Z n.
Definition c19_fir_reset_z : fir_state Z -> fir_state Z := fir_reset Z 0%Z.
Definition c19_fir_run_z : list Z -> fir_state Z -> list Z -> fir_state Z * list Z := fir_run Z 0%Z Z.add Z.mul.
Definition c19_spec_conv_at_z : list Z -> list Z -> nat -> Z := conv_at Z 0%Z Z.add Z.mul.
Definition c19_spec_convolve_z : list Z -> list Z -> list Z := zconvolve.
(* Qc instance *)
Definition c19_q (num : Z) (den : positive) : Qc := Q2Qc (Qmake num den).
Definition c19_qnum (x : Qc) : Z := Qnum (this x).
Definition c19_qden (x : Qc) : positive := Qden (this x).
Definition c19_iir_init_q (n : nat) : list Qc := iir_init Qc 0%Qc n.
Definition c19_iir_run_q : list Qc -> list Qc -> list Qc -> list Qc -> list Qc * list Qc := iir_run Qc 0%Qc Qcplus Qcmult Qcminus.
Definition c19_spec_iir_rhs_q (b a xs ys : list Qc) (n : nat) : Qc :=
  Qcminus (conv_at Qc 0%Qc Qcplus Qcmult b xs n) (feedback_at Qc 0%Qc Qcplus Qcmult a ys n).
Definition c19_sdft_init_q (n : nat) : sdft_state Qc := sdft_init Qc 0%Qc n.
Definition c19_sdft_run_q : nat -> Qc * Qc -> Qc -> sdft_state Qc -> list Qc -> sdft_state Qc * list (Qc * Qc) :=
  sdft_run Qc 0%Qc Qcplus Qcmult Qcminus.
Definition c19_nsdft_init_q (n k : nat) : nsdft_state Qc := nsdft_init Qc 0%Qc n k.
Definition c19_nsdft_run_q : nat -> list (Qc * Qc) -> nsdft_state Qc -> list Qc -> nsdft_state Qc * list (list (Qc * Qc)) :=
  nsdft_run Qc 0%Qc Qcplus Qcmult Qcminus.
Definition c19_spec_dft_bin_q : Qc * Qc -> list Qc -> Qc * Qc := dft_bin Qc 0%Qc 1%Qc Qcplus Qcmult Qcminus.
(* regenerated constants the driver selects by name *)
Definition c19_tables : list (list Z * N) :=
  (rx_double_mant, rx_double_exp) :: (rx_float_mant, rx_float_exp) :: (tx_mod_mant, tx_mod_exp) ::
  (tx_modulator_mant, tx_modulator_exp) :: nil.
Definition c19_iir_coefs : list ((list Z * N) * (list Z * N)) :=
  ((corr_b_double_mant, corr_b_double_exp), (corr_a_double_mant, corr_a_double_exp)) ::
  ((corr_b_float_mant, corr_b_float_exp), (corr_a_float_mant, corr_a_float_exp)) ::
  ((evm_b_mant, evm_b_exp), (evm_a_mant, evm_a_exp)) :: nil.
Definition c19_rho : list (list Z * N) := (sdft_rho_double_mant, sdft_rho_double_exp) :: (sdft_rho_float_mant, sdft_rho_float_exp) :: nil.
Extraction "c19_model.ml" c19_fir_init_z c19_fir_reset_z c19_fir_run_z c19_spec_conv_at_z c19_spec_convolve_z
  c19_q c19_qnum c19_qden c19_iir_init_q c19_iir_run_q c19_spec_iir_rhs_q c19_sdft_init_q c19_sdft_run_q
  c19_nsdft_init_q c19_nsdft_run_q c19_spec_dft_bin_q c19_tables c19_iir_coefs c19_rho.
