(** LemmasVit_DP — optimality of forward relaxation with back-pointers on a layered binary-input trellis
    (generic: any number of states, any state-transition functions with two predecessors per state, any additive
    branch costs per layer, any start penalties, any rule for choosing between equal candidates).

    [forward_lb]  : every path costs at least the metric of the state it ends in   (lower bound for every path)
    [forward_att] : the path reconstructed from the stored decisions attains it     (attainment by traceback)
    [dp_optimal]  : hence the traced-back path from the best end state is a global minimiser. *)
From Coq Require Import ZArith List Lia Bool Arith.
Import ListNotations.
Local Open Scope Z_scope.

Definition cost := nat -> bool -> Z.   (* branch cost of leaving state s with input bit b *)

Section LayeredDP.
Variable NS : nat.                       (* number of states *)
Variable nx : nat -> bool -> nat.        (* next state *)
Variable pv : nat -> bool -> nat.        (* the two predecessors of a state, selected by the stored decision *)
Variable inb : nat -> bool.              (* the input bit that leads into a state *)
Variable pick : nat -> Z -> Z -> bool.   (* decision at state s given the two candidate metrics: true = second *)
Hypothesis nx_lt : forall s b, (s < NS)%nat -> (nx s b < NS)%nat.
Hypothesis pv_lt : forall s d, (s < NS)%nat -> (pv s d < NS)%nat.
Hypothesis nx_pv : forall s d, (s < NS)%nat -> nx (pv s d) (inb s) = s.
Hypothesis pv_nx : forall s b, (s < NS)%nat -> exists d, pv (nx s b) d = s /\ inb (nx s b) = b.
Hypothesis pick_ok : forall s a0 a1, if pick s a0 a1 then a1 <= a0 else a0 <= a1.

Definition relax1 (old : list Z) (c : cost) (s' : nat) : Z * bool :=
  let b := inb s' in
  let a0 := nth (pv s' false) old 0 + c (pv s' false) b in
  let a1 := nth (pv s' true) old 0 + c (pv s' true) b in
  if pick s' a0 a1 then (a1, true) else (a0, false).
Definition relax (old : list Z) (c : cost) : list (Z * bool) := map (relax1 old c) (seq 0 NS).

Fixpoint forward (m : list Z) (cs : list cost) : list Z * list (list bool) :=
  match cs with
  | [] => (m, [])
  | c :: cs' => let r := relax m c in
                let '(m', h) := forward (map fst r) cs' in (m', map snd r :: h)
  end.

(* paths *)
Fixpoint run (s : nat) (bits : list bool) : nat := match bits with [] => s | b :: bs => run (nx s b) bs end.
Fixpoint pcost (s : nat) (bits : list bool) (cs : list cost) : Z :=
  match bits, cs with b :: bs, c :: cs' => c s b + pcost (nx s b) bs cs' | _, _ => 0 end.

Lemma relax_len m c : length (relax m c) = NS.
Proof. unfold relax. rewrite map_length, seq_length. reflexivity. Qed.

Lemma relax_nth_fst m c s : (s < NS)%nat -> nth s (map fst (relax m c)) 0 = fst (relax1 m c s).
Proof. intros. unfold relax. rewrite map_map.
  rewrite nth_indep with (d' := fst (relax1 m c 0%nat)) by (rewrite map_length, seq_length; lia).
  rewrite (map_nth (fun x => fst (relax1 m c x)) (seq 0 NS) 0%nat s). rewrite seq_nth by lia. reflexivity. Qed.

Lemma relax_nth_snd m c s : (s < NS)%nat -> nth s (map snd (relax m c)) false = snd (relax1 m c s).
Proof. intros. unfold relax. rewrite map_map.
  rewrite nth_indep with (d' := snd (relax1 m c 0%nat)) by (rewrite map_length, seq_length; lia).
  rewrite (map_nth (fun x => snd (relax1 m c x)) (seq 0 NS) 0%nat s). rewrite seq_nth by lia. reflexivity. Qed.

Lemma relax_lb m c s b : (s < NS)%nat -> nth (nx s b) (map fst (relax m c)) 0 <= nth s m 0 + c s b.
Proof. intros H. rewrite relax_nth_fst by (apply nx_lt; exact H).
  destruct (pv_nx s b H) as [d [Hd Hb]]. unfold relax1. rewrite Hb.
  set (a0 := nth (pv (nx s b) false) m 0 + c (pv (nx s b) false) b).
  set (a1 := nth (pv (nx s b) true) m 0 + c (pv (nx s b) true) b).
  assert (Hs : nth s m 0 + c s b = if d then a1 else a0) by (subst a0 a1; destruct d; rewrite Hd; reflexivity).
  rewrite Hs. pose proof (pick_ok (nx s b) a0 a1) as P.
  destruct (pick (nx s b) a0 a1); destruct d; cbn [fst]; lia. Qed.

Lemma run_lt : forall bits s, (s < NS)%nat -> (run s bits < NS)%nat.
Proof. induction bits as [|b bs IH]; intros s H; cbn [run]; [exact H|]. apply IH. apply nx_lt. exact H. Qed.

Theorem forward_lb : forall cs m s bits, length bits = length cs -> (s < NS)%nat ->
  nth (run s bits) (fst (forward m cs)) 0 <= nth s m 0 + pcost s bits cs.
Proof. induction cs as [|c cs IH]; intros m s bits Hl Hs.
- destruct bits; [|discriminate]. cbn. lia.
- destruct bits as [|b bs]; [discriminate|]. cbn [forward run pcost].
  destruct (forward (map fst (relax m c)) cs) as [m2 h] eqn:E. cbn [fst].
  specialize (IH (map fst (relax m c)) (nx s b) bs). rewrite E in IH. cbn [fst] in IH.
  assert (Hl' : length bs = length cs) by (cbn in Hl; lia).
  specialize (IH Hl' (nx_lt s b Hs)). pose proof (relax_lb m c s b Hs). lia. Qed.

Fixpoint traceR (hr : list (list bool)) (s : nat) (acc : list bool) : nat * list bool :=
  match hr with
  | [] => (s, acc)
  | d :: hr' => traceR hr' (pv s (nth s d false)) (inb s :: acc)
  end.

Lemma traceR_snoc a d0 : forall s acc,
  traceR (a ++ [d0]) s acc =
  let '(s1, bits) := traceR a s acc in (pv s1 (nth s1 d0 false), inb s1 :: bits).
Proof. induction a as [|d a IH]; intros s acc; cbn [app traceR]; [reflexivity | apply IH]. Qed.

Lemma traceR_acc : forall hr s acc, traceR hr s acc = (fst (traceR hr s []), snd (traceR hr s []) ++ acc).
Proof. induction hr as [|d hr IH]; intros s acc; cbn [traceR].
- reflexivity.
- rewrite IH. rewrite (IH _ [inb s]). cbn [fst snd]. rewrite <- app_assoc. reflexivity. Qed.

Lemma traceR_length : forall hr s acc, length (snd (traceR hr s acc)) = (length hr + length acc)%nat.
Proof. induction hr as [|d hr IH]; intros s acc; cbn [traceR]; [reflexivity|]. rewrite IH. cbn [length]. lia. Qed.

Lemma relax_att m c s : (s < NS)%nat ->
  let d := nth s (map snd (relax m c)) false in
  nth s (map fst (relax m c)) 0 = nth (pv s d) m 0 + c (pv s d) (inb s).
Proof. intros H d. subst d. rewrite relax_nth_fst, relax_nth_snd by assumption.
  unfold relax1. destruct (pick s _ _); cbn [fst snd]; reflexivity. Qed.

Lemma pcost_cons s b bs c cs : pcost s (b :: bs) (c :: cs) = c s b + pcost (nx s b) bs cs.
Proof. reflexivity. Qed.
Lemma run_cons s b bs : run s (b :: bs) = run (nx s b) bs.
Proof. reflexivity. Qed.

Lemma forward_cons m c cs :
  forward m (c :: cs) = (fst (forward (map fst (relax m c)) cs), map snd (relax m c) :: snd (forward (map fst (relax m c)) cs)).
Proof. cbn [forward]. destruct (forward (map fst (relax m c)) cs). reflexivity. Qed.

Lemma forward_snoc : forall cs m c,
  forward m (cs ++ [c]) =
  (map fst (relax (fst (forward m cs)) c), snd (forward m cs) ++ [map snd (relax (fst (forward m cs)) c)]).
Proof. induction cs as [|c0 cs IH]; intros m c.
- cbn [app]. rewrite forward_cons. reflexivity.
- cbn [app]. rewrite !forward_cons. rewrite IH. cbn [fst snd app]. reflexivity. Qed.

Lemma forward_hist_length : forall cs m, length (snd (forward m cs)) = length cs.
Proof. induction cs as [|c cs IH]; intros m; [reflexivity|]. rewrite forward_cons. cbn [snd length]. rewrite IH. reflexivity. Qed.

Lemma forward_metric_length : forall cs m, length m = NS -> length (fst (forward m cs)) = NS.
Proof. induction cs as [|c cs IH]; intros m H; [exact H|]. rewrite forward_cons. cbn [fst]. apply IH.
  rewrite map_length. apply relax_len. Qed.

Section Att.
Opaque relax.
Theorem forward_att : forall cs m s, (s < NS)%nat ->
  forall m2 h, forward m cs = (m2, h) ->
  forall s0 bits, traceR (rev h) s [] = (s0, bits) ->
  (s0 < NS)%nat /\ length bits = length cs /\ run s0 bits = s /\ nth s m2 0 = nth s0 m 0 + pcost s0 bits cs.
Proof. induction cs as [|c cs IH]; intros m s Hs m2 h Hf s0 bits Ht.
- cbn in Hf. inversion Hf; subst. cbn in Ht. inversion Ht; subst. cbn [length run pcost]. repeat split; auto. lia.
- rewrite forward_cons in Hf. injection Hf as Hm2 Hh. subst m2 h.
  cbn [rev] in Ht. rewrite traceR_snoc in Ht.
  destruct (traceR (rev (snd (forward (map fst (relax m c)) cs))) s []) as [s1 bits1] eqn:T. injection Ht as Hs0 Hb0. subst s0 bits.
  destruct (IH (map fst (relax m c)) s Hs _ _ (surjective_pairing _) _ _ T) as (H1 & Hl & Hr & Hm).
  pose proof (relax_att m c s1 H1) as A. cbn zeta in A.
  set (d := nth s1 (map snd (relax m c)) false) in *. clearbody d.
  repeat split.
  + apply pv_lt; assumption.
  + cbn [length]. lia.
  + rewrite run_cons, nx_pv by assumption. exact Hr.
  + rewrite pcost_cons, nx_pv by assumption. lia.
Qed.
End Att.

(** the path traced back from an end state of minimal metric is optimal among all paths from all start states *)
Theorem dp_optimal cs m s_best m2 h s0 bits :
  forward m cs = (m2, h) -> (s_best < NS)%nat ->
  (forall s, (s < NS)%nat -> nth s_best m2 0 <= nth s m2 0) ->
  traceR (rev h) s_best [] = (s0, bits) ->
  (s0 < NS)%nat /\ length bits = length cs /\ run s0 bits = s_best /\
  nth s_best m2 0 = nth s0 m 0 + pcost s0 bits cs /\
  forall s0' bits', (s0' < NS)%nat -> length bits' = length cs ->
    nth s0 m 0 + pcost s0 bits cs <= nth s0' m 0 + pcost s0' bits' cs.
Proof. intros Hf Hb Hmin Ht.
  destruct (forward_att cs m s_best Hb m2 h Hf s0 bits Ht) as (A & B & C & Hm).
  repeat split; try assumption.
  intros s0' bits' Hs' Hl.
  pose proof (forward_lb cs m s0' bits' Hl Hs') as L. rewrite Hf in L. cbn [fst] in L.
  pose proof (run_lt bits' s0' Hs') as R.
  specialize (Hmin _ R). lia. Qed.

(** metrics stay within bounds that grow by the largest branch cost per layer *)
Lemma relax_bounds m c lo hi cmax :
  (forall s, (s < NS)%nat -> lo <= nth s m 0 <= hi) ->
  (forall s b, (s < NS)%nat -> 0 <= c s b <= cmax) ->
  forall s, (s < NS)%nat -> lo <= nth s (map fst (relax m c)) 0 <= hi + cmax.
Proof. intros Hm Hc s Hs. pose proof (relax_att m c s Hs) as A. cbn zeta in A. rewrite A.
  set (d := nth s (map snd (relax m c)) false). pose proof (pv_lt s d Hs) as P.
  specialize (Hm _ P). specialize (Hc _ (inb s) P). lia. Qed.

Lemma pcost_bounds : forall cs bits s cmax, (s < NS)%nat ->
  Forall (fun c : cost => forall s b, (s < NS)%nat -> 0 <= c s b <= cmax) cs ->
  0 <= cmax -> 0 <= pcost s bits cs <= cmax * Z.of_nat (length cs).
Proof. induction cs as [|c cs IH]; intros bits s cmax Hs HF Hc.
- destruct bits; cbn; lia.
- destruct bits as [|b bs]; [cbn [pcost]; nia|]. rewrite pcost_cons. inversion HF; subst.
  specialize (IH bs (nx s b) cmax (nx_lt s b Hs) H2 Hc). specialize (H1 s b Hs).
  cbn [length]. rewrite Nat2Z.inj_succ. nia. Qed.

End LayeredDP.
