(** LemmasVit_Tables — the M17 trellis as an instance of LayeredDP, and computed facts about the tables that the model
    builds from the regenerated constants (ConstsViterbi): next/previous state tables are the shift-register maps,
    the cost table is +-L according to the specification's generator polynomials, for every width 2..6. *)
From Coq Require Import NArith ZArith List Lia Bool Arith.
From M17 Require Import Bits ConstsViterbi ImplViterbi SpecConv LemmasVit_DP.
Import ListNotations.
Local Open Scope Z_scope.

(** * the 16-state shift-register trellis (definitions nx16/pv16/inb16/out1/out2/st_of are in SpecConv.v) *)
Definition pick16 (tb : tiebreak) (s : nat) (a0 a1 : Z) : bool :=
  gt_tb (if inb16 s then tb_d1 tb else tb_d0 tb) a0 a1.

Lemma nx16_lt s b : (s < 16)%nat -> (nx16 s b < 16)%nat.
Proof. intros _. unfold nx16. apply Nat.mod_upper_bound. lia. Qed.
Lemma pv16_lt s d : (s < 16)%nat -> (pv16 s d < 16)%nat.
Proof. unfold pv16. intros. destruct d; pose proof (Nat.div_mod_eq s 2); lia. Qed.
Lemma nx16_pv16 s d : (s < 16)%nat -> nx16 (pv16 s d) (inb16 s) = s.
Proof. intros H. unfold nx16, pv16, inb16.
  do 16 (destruct s as [|s]; [destruct d; reflexivity|]). lia. Qed.
Lemma pv16_nx16 s b : (s < 16)%nat -> exists d, pv16 (nx16 s b) d = s /\ inb16 (nx16 s b) = b.
Proof. intros H. exists (Nat.leb 8 s). unfold nx16, pv16, inb16.
  do 16 (destruct s as [|s]; [destruct b; split; reflexivity|]). lia. Qed.
Lemma pick16_ok tb s a0 a1 : if pick16 tb s a0 a1 then a1 <= a0 else a0 <= a1.
Proof. unfold pick16, gt_tb. destruct (if inb16 s then tb_d1 tb else tb_d0 tb).
  - destruct (Z.geb_spec a0 a1); lia.
  - destruct (Z.gtb_spec a0 a1); lia. Qed.

(** the DP of LemmasVit_DP on this trellis *)
Notation relax1_16 tb := (relax1 pv16 inb16 (pick16 tb)).
Notation relax16 tb := (relax 16 pv16 inb16 (pick16 tb)).
Notation forward16 tb := (forward 16 pv16 inb16 (pick16 tb)).
Notation traceR16 := (traceR pv16 inb16).
Notation run16 := (run nx16).
Notation pcost16 := (pcost nx16).

Lemma st_of_lt d1 d2 d3 d4 : (st_of d1 d2 d3 d4 < 16)%nat.
Proof. destruct d1, d2, d3, d4; cbv; lia. Qed.
Lemma nx16_st_of d1 d2 d3 d4 b : nx16 (st_of d1 d2 d3 d4) b = st_of b d1 d2 d3.
Proof. destruct d1, d2, d3, d4, b; reflexivity. Qed.
Lemma out1_st_of d1 d2 d3 d4 b : out1 (st_of d1 d2 d3 d4) b = xorb b (xorb d3 d4).
Proof. destruct d1, d2, d3, d4, b; reflexivity. Qed.
Lemma out2_st_of d1 d2 d3 d4 b : out2 (st_of d1 d2 d3 d4) b = xorb b (xorb d1 (xorb d2 d4)).
Proof. destruct d1, d2, d3, d4, b; reflexivity. Qed.

(** the specification's generators are what convolve_bit computes with the regenerated polynomials on the
    encoder memory (state << 1 | input) *)
Lemma convolve_bit_is_spec d1 d2 d3 d4 b :
  let memory := N.of_nat (2 * st_of d1 d2 d3 d4 + b2nat b) in
  convolve_bit (nth 0 vit_polys 0%N) memory = b2n (xorb b (xorb d3 d4)) /\
  convolve_bit (nth 1 vit_polys 0%N) memory = b2n (xorb b (xorb d1 (xorb d2 d4))).
Proof. destruct d1, d2, d3, d4, b; split; reflexivity. Qed.

(** branch cost of leaving state [s] with input [b] when the two soft bits of the step are [s0], [s1] *)
Definition bcost (L s0 s1 : Z) : cost := fun s b => sdist L s0 (out1 s b) + sdist L s1 (out2 s b).

(** * sizes *)
Lemma NumStates_16 : NumStates = 16%nat. Proof. reflexivity. Qed.
Lemma HalfStates_8 : HalfStates = 8%nat. Proof. reflexivity. Qed.
Lemma MAX_METRIC_val : MAX_METRIC = 1073741823. Proof. reflexivity. Qed.
Lemma history_size_val : vit_history_size = 244%nat. Proof. reflexivity. Qed.

(** * tables, by evaluation *)
Definition next_ok (j : nat) : bool :=
  (nth 0 (nth j makeNextState []) 0 =? 2 * j)%nat && (nth 1 (nth j makeNextState []) 0 =? 2 * j + 1)%nat.
Lemma next_sweep : forallb next_ok (seq 0 8) = true.
Proof. vm_cast_no_check (eq_refl true). Qed.
Opaque makeNextState.
Lemma nextState_spec j : (j < 8)%nat ->
  nth 0 (nth j makeNextState []) 0%nat = (2 * j)%nat /\ nth 1 (nth j makeNextState []) 0%nat = (2 * j + 1)%nat.
Proof. intros H. pose proof (proj1 (forallb_forall _ _) next_sweep j) as S.
  assert (I : In j (seq 0 8)) by (apply in_seq; lia). specialize (S I). unfold next_ok in S.
  apply andb_prop in S. destruct S as [S0 S1]. apply Nat.eqb_eq in S0. apply Nat.eqb_eq in S1. split; [exact S0 | exact S1]. Qed.

Definition prev_ok (s : nat) : bool :=
  (nth 0 (nth s makePrevState []) 0 =? pv16 s false)%nat && (nth 1 (nth s makePrevState []) 0 =? pv16 s true)%nat.
Lemma prev_sweep : forallb prev_ok (seq 0 16) = true.
Proof. vm_cast_no_check (eq_refl true). Qed.
Opaque makePrevState pv16.
Lemma prevState_spec s (d : bool) : (s < 16)%nat ->
  nth (if d then 1 else 0)%nat (nth s makePrevState []) 0%nat = pv16 s d.
Proof. intros H. pose proof (proj1 (forallb_forall _ _) prev_sweep s) as S.
  assert (I : In s (seq 0 16)) by (apply in_seq; lia). specialize (S I). unfold prev_ok in S.
  apply andb_prop in S. destruct S as [S0 S1]. apply Nat.eqb_eq in S0. apply Nat.eqb_eq in S1. destruct d; [exact S1 | exact S0]. Qed.
Transparent pv16.

Definition sgn (b : bool) : Z := 2 * (if b then 1 else 0) - 1.
Definition cost_ok (W j : nat) : bool :=
  (nth 0 (nth j (makeCost W) []) 0 =? soft_limit W * sgn (out1 j false)) &&
  (nth 1 (nth j (makeCost W) []) 0 =? soft_limit W * sgn (out2 j false)) &&
  (llr_limit W =? soft_limit W) && (1 <=? soft_limit W) && (soft_limit W <=? 31) && Z.odd (soft_limit W).
Lemma cost_sweep : forallb (fun W => forallb (cost_ok W) (seq 0 8)) (seq 2 5) = true.
Proof. vm_cast_no_check (eq_refl true). Qed.
Opaque makeCost soft_limit llr_limit out1 out2.

Lemma cost_spec W j : (2 <= W <= 6)%nat -> (j < 8)%nat ->
  nth 0 (nth j (makeCost W) []) 0 = soft_limit W * sgn (out1 j false) /\
  nth 1 (nth j (makeCost W) []) 0 = soft_limit W * sgn (out2 j false).
Proof. intros HW Hj. pose proof (proj1 (forallb_forall _ _) cost_sweep W) as S.
  assert (I : In W (seq 2 5)) by (apply in_seq; lia). specialize (S I).
  pose proof (proj1 (forallb_forall _ _) S j) as S'.
  assert (I' : In j (seq 0 8)) by (apply in_seq; lia). specialize (S' I'). unfold cost_ok in S'.
  apply andb_prop in S'; destruct S' as [S' _]. apply andb_prop in S'; destruct S' as [S' _].
  apply andb_prop in S'; destruct S' as [S' _]. apply andb_prop in S'; destruct S' as [S' _].
  apply andb_prop in S'; destruct S' as [S0 S1].
  apply Z.eqb_eq in S0. apply Z.eqb_eq in S1. split; [exact S0 | exact S1]. Qed.

Lemma limit_spec W : (2 <= W <= 6)%nat ->
  llr_limit W = soft_limit W /\ 1 <= soft_limit W <= 31 /\ Z.odd (soft_limit W) = true.
Proof. intros HW. pose proof (proj1 (forallb_forall _ _) cost_sweep W) as S.
  assert (I : In W (seq 2 5)) by (apply in_seq; lia). specialize (S I).
  pose proof (proj1 (forallb_forall _ _) S 0%nat) as S'.
  assert (I' : In 0%nat (seq 0 8)) by (apply in_seq; lia). specialize (S' I'). unfold cost_ok in S'.
  apply andb_prop in S'; destruct S' as [S' S6]. apply andb_prop in S'; destruct S' as [S' S5].
  apply andb_prop in S'; destruct S' as [S' S4]. apply andb_prop in S'; destruct S' as [S' S3].
  apply Z.eqb_eq in S3. apply Z.leb_le in S4. apply Z.leb_le in S5.
  split; [exact S3 | split; [split; [exact S4 | exact S5] | exact S6]]. Qed.
Transparent out1 out2.

(** symmetry of the outputs that the butterfly relies on (both generators have taps at delay 0 and delay 4) *)
Lemma out_sym j : (j < 8)%nat ->
  out1 j true = negb (out1 j false) /\ out2 j true = negb (out2 j false) /\
  out1 (j + 8) false = negb (out1 j false) /\ out2 (j + 8) false = negb (out2 j false) /\
  out1 (j + 8) true = out1 j false /\ out2 (j + 8) true = out2 j false.
Proof. intros H. do 8 (destruct j as [|j]; [repeat split; reflexivity|]). lia. Qed.
