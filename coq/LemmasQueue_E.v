(** LemmasQueue_E — the linearization points recorded in the history form a legal run of the sequential
    specification SpecQueue ending in the abstraction of the current state. *)
From Coq Require Import ZArith List Bool Arith Lia.
From M17 Require Import ImplQueue SpecQueue ConstsQueue LemmasQueue_A LemmasQueue_B LemmasQueue_C LemmasQueue_D.
Import ListNotations.

Definition abs (c : config) : sq := mksq (items c) (negb (st_eqb (st c) OPEN)).

Section E.
Variable cap : nat.

Lemma legal_reach : forall c, reachable cap c -> legal cap (hist c) (abs c).
Proof.
  by_reach.
  - reflexivity.
  - intros c t l c' R IH S. unfold abs in IH.
    pose proof (inv_B_reach cap c R) as (L & Hlen & Hsz & Hcl).
    pose proof (L t) as Lt.
    assert (Hsz' : cs (pcs c t) = true -> mid (pcs c t) = false -> size_ c = length (items c)).
    { intros C Mi. apply Hsz. intros u. destruct (Nat.eq_dec u t) as [->|Ne]; auto. eapply others_not_mid; eauto. }
    assert (K : forall o p, pcs c t = Some (o, p) -> kind_ok o p /\ (forever o -> dl_of p = None))
      by (apply (pt_inv_reach cap c R)).
    pose proof (closing_reach cap c R) as Hcg.
    inv_step S;
      try (match goal with H : pcs c t = Some _ |- _ =>
             rewrite H in Lt, Hsz'; cbn [loc cs mid] in Lt, Hsz'; destruct (K _ _ H) as [Kd Fv]; cbn [kind_ok dl_of] in Kd, Fv end);
      try specialize (Hsz' eq_refl eq_refl);
      unfold abs; brk; unf; rel; cbn [legal]; try exact IH;
      try (repeat match goal with H : st_eqb _ _ = _ |- _ => rewrite H end; exact IH);
      try (destruct Lt as [_ Es]; rewrite Es in IH; exact IH);
      eexists; (split; [exact IH|]);
      repeat match goal with H : st_eqb (st c) _ = _ |- _ => rewrite ?H; revert H end; intros;
      norm_tests;
      try (match goal with H : true = true -> _ |- _ =>
             specialize (H eq_refl); apply reached_some in H; destruct H as (d0 & -> & Hd0) end);
      try (destruct o as [| | | |[]]; try discriminate Kd);
      try (destruct q);
      cbn [spec_step s_items s_closed qval negb]; rewrite ?negb_involutive;
      try (match goal with H : st c = _ |- _ => rewrite H end; cbn [st_eqb negb]);
      try (destruct Lt as [Lt1 Lt2]; rewrite ?Lt2; cbn [st_eqb negb]);
      try (repeat split; auto; try lia; try congruence; fail);
      try (split; [ intros Fv'; first [ specialize (Fv Fv'); discriminate | destruct Fv' ] | reflexivity ]; fail);
      try (match goal with H : (_ =? 0)%Z = true |- _ => apply Z.eqb_eq in H end; repeat split; auto; fail);
      try (eexists; split; [eassumption | reflexivity]; fail);
      try (unfold close_state; destruct (is_nil (items c)); reflexivity);
      try (rewrite Hsz'; destruct (items c); split; reflexivity);
      (split; [|reflexivity]).
    (* is_closed: CLOSED == state_ read under the mutex equals "closed and drained" *)
    destruct (st c) eqn:Es; cbn [st_eqb negb andb b2n]; try reflexivity.
    + destruct (Hcg eq_refl) as [Hne | (u & Hu)].
      * apply is_nil_false in Hne. now rewrite Hne.
      * exfalso. assert (u = t).
        { eapply cs_unique; eauto. - destruct (pcs c u) as [[? []]|]; cbn in *; congruence. - rewrite H; reflexivity. }
        subst u. rewrite H in Hu. discriminate.
    + rewrite (Hcl eq_refl). reflexivity.
Qed.
End E.
