(** Mirror of apps/m17-demod.cpp's frame handlers (handle_frame and everything below it),
    statement by statement, with every array / vector access checked (Checked.v) and the
    literal offsets, sizes and masks regenerated from the source (ConstsApp).

    State that the C++ keeps in globals is explicit: [current_packet], [packet_frame_counter],
    the PRBS9 validator [prbs], the base-field of std::cerr (write() of an AX.25 frame with a
    PID leaves it hexadecimal), and the opaque codec2 state.  The option flags display_lsf and
    noise_blanker are fixed per run ([opts]).

    codec2_decode is a Section variable: an arbitrary function from (state, 8 bytes) to
    (state, samples).  The model stores the samples in the 160-element [buf] and is Oob if the
    library wrote more than the buffer holds or if fewer than 160 samples back the 320-byte write.

    LinkSetupFrame::decode_callsign is modelled here as well (checked); the callsign round trip
    proper belongs to C17 (coq/ImplCallsign.v of another work package) - the overlap is deliberate
    so that this file stands alone.  No proofs here. *)
From Coq Require Import NArith ZArith Arith Bool String List.
From M17 Require Import Checked ConstsApp ImplAx25.
Import ListNotations.
Local Open Scope N_scope.

(** * LinkSetupFrame::decode_callsign *)

(* std::copy(callsign.rbegin(), callsign.rend(), p) on a little-endian uint64_t: the big-endian value *)
Definition call_value (callsign : list N) : res N :=
  bytes <- get_each "decode_callsign: callsign[i]" callsign (seq 0 call_bytes) ;;
  Ok (fold_left (fun acc b => acc * 256 + N.land b 255) bytes 0).

(* while (encoded && index != result.size() - 1) { result[index++] = callsign_map[encoded % 40]; encoded /= 40; }
   [k] = result.size() - 1 - index, so "index != size - 1" is "k <> 0" (when the bound is present in the source) *)
Fixpoint callsign_loop (k : nat) (fuel : nat) (encoded : N) (index : nat) (result : list N) : res (list N) :=
  if encoded =? 0 then Ok result else
  match fuel with
  | O => Diverge
  | S fuel' =>
    match k, callsign_loop_bounded with
    | O, true => Ok result
    | _, _ =>
      c <- get "decode_callsign: callsign_map[encoded % 40]" (str callsign_map ++ [0]) (N.to_nat (encoded mod callsign_base)) ;;
      result' <- set "decode_callsign: result[index++]" result index c ;;
      callsign_loop (pred k) fuel' (encoded / callsign_base) (S index) result'
    end
  end.

Definition decode_callsign (callsign : list N) : res (list N) :=
  if list_N_eqb callsign broadcast_address then Ok broadcast_call else
  encoded <- call_value callsign ;;
  callsign_loop (call_chars - 1) 64 encoded 0 (repeat 0 call_chars).

(* for (auto x : call) if (x) std::cerr << x; *)
Definition print_call (call : list N) : list N := filter (fun x => negb (x =? 0)) call.

(** * dump_type *)
Definition label (labels : list string) (i : N) : list N := str (nth (N.to_nat i) labels EmptyString).

Definition dump_type (type : N) : list N :=
  str ", "
  ++ (if negb (N.land type dt_stream_mask =? 0)
      then str "STR:" ++ label dt_str_labels (N.shiftr (N.land type dt_sub_mask) dt_sub_shift)
      else str "PKT:" ++ label dt_pkt_labels (N.shiftr (N.land type dt_sub_mask) dt_sub_shift))
  ++ str " CAN:" ++ pad_left dt_can_width dt_can_fill (show_dec (N.shiftr (N.land type dt_can_mask) dt_can_shift)).

(** * append_packet(result, in): packs the elements of [in] eight at a time as if they were bits
      (the caller passes the 30 *bytes* of the LSF; uint8_t arithmetic) *)
Fixpoint append_packet_loop (inp : list N) (out : N) (b : nat) (result : list N) : list N :=
  match inp with
  | [] => result
  | c :: r =>
    let out' := N.land (N.lor (N.shiftl out 1) c) 255 in
    if (S b =? ap_group)%nat then append_packet_loop r 0 0 (result ++ [out'])
    else append_packet_loop r out' (S b) result
  end.
Definition append_packet (result inp : list N) : list N := append_packet_loop inp 0 0 result.

(** * PRBS9 validator (Util.h), history accesses checked *)
Record prbs : Type := {
  p_state : N; p_synced : bool; p_sync_count : N; p_bit_count : N; p_err_count : N;
  p_history : list N; p_hist_count : Z; p_hist_pos : nat
}.
Definition prbs_init : prbs :=
  {| p_state := 1; p_synced := false; p_sync_count := 0; p_bit_count := 0; p_err_count := 0;
     p_history := repeat 0 prbs_history_bytes; p_hist_count := 0%Z; p_hist_pos := 0 |}.

Definition b2N (b : bool) : N := if b then 1 else 0.

Definition count_errors (p : prbs) (error : bool) : res prbs :=
  let idx := Nat.shiftr (p_hist_pos p) prbs_hist_shift in
  let bit := N.shiftl 1 (N.land (N.of_nat (p_hist_pos p)) prbs_hist_bitmask) in
  h <- get "PRBS9::count_errors: history[hist_pos >> 3]" (p_history p) idx ;;
  let hc := (p_hist_count p - (if (N.land h bit =? 0)%N then 0 else 1))%Z in
  let pos' := if (S (p_hist_pos p) =? prbs_hist_wrap)%nat then O else S (p_hist_pos p) in
  if error then
    hist <- set "PRBS9::count_errors: history[hist_pos >> 3] |=" (p_history p) idx (N.lor h bit) ;;
    let hc' := (hc + 1)%Z in
    Ok {| p_state := p_state p; p_synced := if (Z.of_N prbs_UNLOCK_COUNT <=? hc')%Z then false else p_synced p;
          p_sync_count := p_sync_count p; p_bit_count := p_bit_count p + 1; p_err_count := p_err_count p + 1;
          p_history := hist; p_hist_count := hc'; p_hist_pos := pos' |}
  else
    hist <- set "PRBS9::count_errors: history[hist_pos >> 3] &=" (p_history p) idx (N.land h (255 - bit)) ;;
    Ok {| p_state := p_state p; p_synced := p_synced p;
          p_sync_count := p_sync_count p; p_bit_count := p_bit_count p + 1; p_err_count := p_err_count p;
          p_history := hist; p_hist_count := hc; p_hist_pos := pos' |}.

Definition prbs_taps (state : N) : N := N.land (N.lxor (N.shiftr state prbs_TAP_1) (N.shiftr state prbs_TAP_2)) 1.

Definition prbs_validate (p : prbs) (bit : bool) : res prbs :=
  if negb (p_synced p) then
    (* synchronize(bit) *)
    let result := N.land (N.lxor (b2N bit) (N.lxor (N.shiftr (p_state p) prbs_TAP_1) (N.shiftr (p_state p) prbs_TAP_2))) 1 in
    let state' := N.land (N.lor (N.shiftl (p_state p) 1) (b2N bit)) prbs_MASK in
    if negb (result =? 0) then
      Ok {| p_state := state'; p_synced := false; p_sync_count := 0; p_bit_count := p_bit_count p; p_err_count := p_err_count p;
            p_history := p_history p; p_hist_count := p_hist_count p; p_hist_pos := p_hist_pos p |}
    else if p_sync_count p + 1 =? prbs_LOCK_COUNT then
      Ok {| p_state := state'; p_synced := true; p_sync_count := 0; p_bit_count := p_bit_count p + prbs_LOCK_COUNT;
            p_err_count := p_err_count p;
            p_history := map (fun _ => 0) (p_history p);       (* history.fill(0) *)
            p_hist_count := 0%Z; p_hist_pos := 0 |}
    else
      Ok {| p_state := state'; p_synced := false; p_sync_count := p_sync_count p + 1; p_bit_count := p_bit_count p;
            p_err_count := p_err_count p;
            p_history := p_history p; p_hist_count := p_hist_count p; p_hist_pos := p_hist_pos p |}
  else
    (* free running: result = bit ^ generate(); count_errors(result) *)
    let g := prbs_taps (p_state p) in
    let state' := N.land (N.lor (N.shiftl (p_state p) 1) g) prbs_MASK in
    count_errors {| p_state := state'; p_synced := p_synced p; p_sync_count := p_sync_count p; p_bit_count := p_bit_count p;
                    p_err_count := p_err_count p; p_history := p_history p; p_hist_count := p_hist_count p;
                    p_hist_pos := p_hist_pos p |}
                 (negb (N.lxor (b2N bit) g =? 0)).

(* for (i != nbits) { prbs.validate(b & 0x80); b <<= 1; }   with uint8_t b *)
Fixpoint validate_bits (nbits : nat) (p : prbs) (b : N) : res prbs :=
  match nbits with
  | O => Ok p
  | S n => p' <- prbs_validate p (negb (N.land b db_bit_mask =? 0)) ;;
           validate_bits n p' (N.land (N.shiftl b 1) 255)
  end.

Fixpoint decode_bert_bytes (bert : list N) (idxs : list nat) (p : prbs) : res prbs :=
  match idxs with
  | [] => Ok p
  | j :: r => b <- get "decode_bert: bert[j]" bert j ;;
              p' <- validate_bits db_bits_per_byte p (N.land b 255) ;;
              decode_bert_bytes bert r p'
  end.

Definition decode_bert_prbs (bert : list N) (p : prbs) : res prbs :=
  p1 <- decode_bert_bytes bert (seq 0 db_full_bytes) p ;;
  b <- get "decode_bert: bert[24]" bert db_tail_idx ;;
  validate_bits db_tail_bits p1 (N.land b 255).

(** * CRC of decode_packet: boost::crc_optimal<16, 0x1021, 0xFFFF, 0xFFFF, true, true> (reflected) *)
Definition reflect16 (x : N) : N :=
  fold_left (fun acc i => N.lor (N.shiftl acc 1) (b2N (N.testbit x (N.of_nat i)))) (seq 0 16) 0.
Definition crc_refl_byte (poly_r : N) (crc b : N) : N :=
  fold_left (fun c _ => if N.testbit c 0 then N.lxor (N.shiftr c 1) poly_r else N.shiftr c 1)
            (seq 0 8) (N.lxor crc (N.land b 255)).
Definition packet_checksum (bytes : list N) : N :=
  N.lxor (fold_left (crc_refl_byte (reflect16 dp_crc_poly)) bytes dp_crc_init) dp_crc_xorout.

Section App.
Variable cstate : Type.
(* codec2_decode(codec2, buf, bits): reads codec2_frame_bytes bytes, returns the samples it stored through buf *)
Variable codec2_decode : cstate -> list N -> cstate * list Z.

Record opts : Type := { o_display_lsf : bool; o_noise_blanker : bool }.

Record app : Type := {
  a_packet : list N;          (* std::vector<uint8_t> current_packet *)
  a_counter : N;              (* size_t packet_frame_counter *)
  a_hex : bool;               (* std::cerr is in std::hex mode *)
  a_prbs : prbs;
  a_codec : cstate
}.

Record out : Type := {
  r_ret : bool;               (* value handle_frame returns *)
  r_err : list N;             (* bytes written to std::cerr *)
  r_out : list N;             (* bytes written to std::cout *)
  r_c2 : list (list N)        (* the byte blocks handed to codec2_decode, in order *)
}.

Definition show_num (hex : bool) (n : N) : list N := if hex then show_hex n else show_dec n.

(** ** dump_lsf *)
Definition dump_lsf_text (lsf : list N) : res (list N) :=
  e1 <- range "dump_lsf: std::copy(lsf.begin() + 6, lsf.begin() + 12, ...)" lsf dl_src_lo dl_src_hi ;;
  src <- decode_callsign e1 ;;
  e2 <- range "dump_lsf: std::copy(lsf.begin(), lsf.begin() + 6, ...)" lsf 0 dl_dst_hi ;;
  dest <- decode_callsign e2 ;;
  t_hi <- get "dump_lsf: lsf[12]" lsf dl_type_hi_idx ;;
  t_lo <- get "dump_lsf: lsf[13]" lsf dl_type_lo_idx ;;
  let type := N.land (N.lor (N.shiftl (N.land t_hi 255) dl_type_shift) (N.land t_lo 255)) 0xFFFF in
  nonce <- get_each "dump_lsf: lsf[i] (NONCE)" lsf (seq dl_nonce_lo (dl_nonce_hi - dl_nonce_lo)) ;;
  c_hi <- get "dump_lsf: lsf[28]" lsf dl_crc_hi_idx ;;
  c_lo <- get "dump_lsf: lsf[29]" lsf dl_crc_lo_idx ;;
  let crc := N.land (N.lor (N.shiftl (N.land c_hi 255) 8) (N.land c_lo 255)) 0xFFFF in
  Ok ([10] ++ str "SRC: " ++ print_call src ++ str ", DEST: " ++ print_call dest ++ dump_type type
      ++ str ", NONCE: " ++ flat_map (fun b => pad_left dl_nonce_width 48 (show_hex (N.land b 255))) nonce
      ++ str ", CRC: " ++ pad_left dl_crc_width 48 (show_hex crc) ++ [10]).

Definition dump_lsf (o : opts) (st : app) (lsf : list N) : res (app * out) :=
  text <- (if o_display_lsf o then dump_lsf_text lsf else Ok []) ;;
  let hex := if o_display_lsf o then false else a_hex st in     (* ... << std::dec << std::endl *)
  (* current_packet.clear(); packet_frame_counter = 0; *)
  b <- get "dump_lsf: lsf[13] (type bit 0)" lsf dl_pkt_idx ;;
  pk <- (if N.land b dl_pkt_mask =? 0 then
           b' <- get "dump_lsf: lsf[13] (packet type)" lsf dl_ptype_idx ;;
           let packet_type := N.land (N.shiftr (N.land b' 255) dl_ptype_shift) dl_ptype_mask in
           Ok (if packet_type =? 1 then ([], [])                                   (* RAW: ignore LSF *)
               else if packet_type =? 2 then (append_packet [] lsf, [])             (* ENCAPSULATED *)
               else (append_packet [] lsf, str dl_reserved_msg ++ [10]))
         else Ok ([], [])) ;;
  Ok ({| a_packet := fst pk; a_counter := 0; a_hex := hex; a_prbs := a_prbs st; a_codec := a_codec st |},
      {| r_ret := true; r_err := text ++ snd pk; r_out := []; r_c2 := [] |}).

(** ** demodulate_audio *)
Definition store_buf (site : string) (samples : list Z) : res (list Z) :=
  if (da_buf_samples <? length samples)%nat then Oob site else Ok samples.

(* std::cout.write((const char* )buf.data(), 320): the first 320 bytes of the buffer's memory image *)
Definition write_buf (buf : list Z) : res (list N) :=
  range "demodulate_audio: cout.write(buf.data(), 320)" (flat_map le16 buf) 0 da_write_bytes.

Definition demodulate_audio (o : opts) (st : app) (audio : list N) (viterbi_cost : Z) : res (app * out) :=
  a0 <- get "demodulate_audio: audio[0]" audio da_eos_idx ;;
  let eos := (viterbi_cost <? da_eos_cost)%Z && negb (N.land a0 da_eos_mask =? 0) in
  let text := if eos && o_display_lsf o then [10] ++ str "EOS" ++ [10] else [] in
  if o_noise_blanker o && (da_blank_cost <? viterbi_cost)%Z then
    let buf := repeat 0%Z da_buf_samples in
    w1 <- write_buf buf ;;
    w2 <- write_buf buf ;;
    Ok (st, {| r_ret := negb eos; r_err := text; r_out := w1 ++ w2; r_c2 := [] |})
  else
    bits1 <- range "demodulate_audio: codec2_decode(audio.data() + 2)" audio da_off1 (da_off1 + codec2_frame_bytes) ;;
    let d1 := codec2_decode (a_codec st) bits1 in
    buf1 <- store_buf "codec2_decode wrote past buf[160]" (snd d1) ;;
    w1 <- write_buf buf1 ;;
    bits2 <- range "demodulate_audio: codec2_decode(audio.data() + 10)" audio da_off2 (da_off2 + codec2_frame_bytes) ;;
    let d2 := codec2_decode (fst d1) bits2 in
    buf2 <- store_buf "codec2_decode wrote past buf[160]" (snd d2) ;;
    w2 <- write_buf buf2 ;;
    Ok ({| a_packet := a_packet st; a_counter := a_counter st; a_hex := a_hex st; a_prbs := a_prbs st; a_codec := fst d2 |},
        {| r_ret := negb eos; r_err := text; r_out := w1 ++ w2; r_c2 := [bits1; bits2] |}).

(** ** decode_packet / decode_full_packet *)
(* for (i != n) current_packet.push_back(packet_segment[i]); *)
Definition seg_bytes (site : string) (seg : list N) (n : nat) : res (list N) := get_each site seg (seq 0 n).

Definition decode_packet (st : app) (seg : list N) : res (app * out) :=
  c <- get "decode_packet: packet_segment[25]" seg dp_ctl_idx ;;
  let field := N.shiftr (N.land c dp_cnt_mask) dp_cnt_shift in
  if negb (N.land c dp_eof_mask =? 0) then
    let packet_size := N.min field dp_size_clamp in
    bytes <- seg_bytes "decode_packet: packet_segment[i] (last frame)" seg (N.to_nat packet_size) ;;
    let cp := a_packet st ++ bytes in
    _f <- (if dp_uses_front then front "decode_packet: &current_packet.front() on an empty vector" cp else Ok 0) ;;
    let checksum := packet_checksum cp in
    if checksum =? dp_crc_residue then
      frame <- parse cp ;;
      let w := write_text frame in
      Ok ({| a_packet := cp; a_counter := a_counter st; a_hex := a_hex st || snd w; a_prbs := a_prbs st; a_codec := a_codec st |},
          {| r_ret := true; r_err := [10] ++ fst w; r_out := []; r_c2 := [] |})
    else
      Ok ({| a_packet := cp; a_counter := a_counter st; a_hex := false; a_prbs := a_prbs st; a_codec := a_codec st |},
          {| r_ret := false; r_err := [10] ++ str "Packet checksum error: " ++ show_hex checksum ++ [10]; r_out := []; r_c2 := [] |})
  else
    if negb (field =? a_counter st) then
      Ok (st, {| r_ret := false;
                 r_err := [10] ++ str "Packet frame sequence error. Got " ++ show_num (a_hex st) field
                          ++ str ", expected " ++ show_num (a_hex st) (a_counter st) ++ [10];
                 r_out := []; r_c2 := [] |})
    else
      bytes <- seg_bytes "decode_packet: packet_segment[i]" seg dp_full_bytes ;;
      Ok ({| a_packet := a_packet st ++ bytes; a_counter := a_counter st + 1; a_hex := a_hex st; a_prbs := a_prbs st; a_codec := a_codec st |},
          {| r_ret := true; r_err := []; r_out := []; r_c2 := [] |}).

(* not called by handle_frame in the current source (both packet types go to decode_packet); modelled because it is there *)
Definition decode_full_packet (st : app) (seg : list N) : res (app * out) :=
  c <- get "decode_full_packet: packet_segment[25]" seg dfp_ctl_idx ;;
  let field := N.shiftr (N.land c dfp_cnt_mask) dfp_cnt_shift in
  if negb (N.land c dfp_eof_mask =? 0) then
    let packet_size := N.min field dfp_size_clamp in
    bytes <- seg_bytes "decode_full_packet: packet_segment[i] (last frame)" seg (N.to_nat packet_size) ;;
    let cp := a_packet st ++ bytes in
    _f <- (if dfp_uses_front then front "decode_full_packet: &current_packet.front() on an empty vector" cp else Ok 0) ;;
    Ok ({| a_packet := cp; a_counter := a_counter st; a_hex := a_hex st; a_prbs := a_prbs st; a_codec := a_codec st |},
        {| r_ret := true; r_err := []; r_out := cp; r_c2 := [] |})
  else
    let st1 := {| a_packet := a_packet st; a_counter := a_counter st + 1; a_hex := a_hex st; a_prbs := a_prbs st; a_codec := a_codec st |} in
    if negb (field =? a_counter st) then      (* frame_number != packet_frame_counter++ *)
      Ok (st1, {| r_ret := false; r_err := str "Packet frame sequence error" ++ [10]; r_out := []; r_c2 := [] |})
    else
      bytes <- seg_bytes "decode_full_packet: packet_segment[i]" seg dfp_full_bytes ;;
      Ok ({| a_packet := a_packet st ++ bytes; a_counter := a_counter st + 1; a_hex := a_hex st; a_prbs := a_prbs st; a_codec := a_codec st |},
          {| r_ret := true; r_err := []; r_out := []; r_c2 := [] |}).

(** ** decode_bert *)
Definition decode_bert (st : app) (bert : list N) : res (app * out) :=
  p <- decode_bert_prbs bert (a_prbs st) ;;
  Ok ({| a_packet := a_packet st; a_counter := a_counter st; a_hex := a_hex st; a_prbs := p; a_codec := a_codec st |},
      {| r_ret := true; r_err := []; r_out := []; r_c2 := [] |}).

(** ** handle_frame: one callback from M17FrameDecoder *)
Inductive callback : Type :=
| CbLSF (lsf : list N) (cost : Z)
| CbLICH (cost : Z)
| CbStream (audio : list N) (cost : Z)
| CbBasicPacket (seg : list N) (cost : Z)
| CbFullPacket (seg : list N) (cost : Z)
| CbBert (bert : list N) (cost : Z).

Definition handle_frame (o : opts) (st : app) (cb : callback) : res (app * out) :=
  match cb with
  | CbLSF lsf _ => dump_lsf o st lsf
  | CbLICH _ => Ok (st, {| r_ret := true; r_err := [10] ++ str "LICH" ++ [10]; r_out := []; r_c2 := [] |})
  | CbStream audio cost => demodulate_audio o st audio cost
  | CbBasicPacket seg _ => if hf_basic_uses_full then decode_full_packet st seg else decode_packet st seg
  | CbFullPacket seg _ => if hf_full_uses_full then decode_full_packet st seg else decode_packet st seg
  | CbBert bert _ => decode_bert st bert
  end.

(** a whole history of callbacks; the outputs are collected in order *)
Fixpoint run_app (o : opts) (st : app) (cbs : list callback) : res (app * list out) :=
  match cbs with
  | [] => Ok (st, [])
  | cb :: r =>
    s1 <- handle_frame o st cb ;;
    s2 <- run_app o (fst s1) r ;;
    Ok (fst s2, snd s1 :: snd s2)
  end.

Definition app_init (c : cstate) : app :=
  {| a_packet := []; a_counter := 0; a_hex := false; a_prbs := prbs_init; a_codec := c |}.

(** the shape the frame decoder guarantees for each callback's buffer (std::array sizes) *)
Definition wf_callback (cb : callback) : Prop :=
  match cb with
  | CbLSF lsf _ => length lsf = lsf_bytes
  | CbLICH _ => True
  | CbStream audio _ => length audio = audio_bytes
  | CbBasicPacket seg _ | CbFullPacket seg _ => length seg = packet_bytes
  | CbBert bert _ => length bert = bert_bytes
  end.

Definition prbs_inv (p : prbs) : Prop :=
  length (p_history p) = prbs_history_bytes /\ (p_hist_pos p < prbs_hist_wrap)%nat.
Definition app_inv (st : app) : Prop := prbs_inv (a_prbs st).

End App.

Arguments a_packet {cstate}.
Arguments a_counter {cstate}.
Arguments a_hex {cstate}.
Arguments a_prbs {cstate}.
Arguments a_codec {cstate}.
