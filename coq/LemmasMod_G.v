(** C13, part G: the baseband output of the program against ONE continuous run of the filter over the
    specification's symbol sequence: holds through the last stream frame for the program as built, holds
    to the end iff the EOT block is rendered by the same filter object as the frames. *)
From Coq Require Import NArith ZArith List Bool Lia Arith.
From M17 Require Import Bits SpecCRC SpecM17 ImplCRC ImplMod ConstsMod
  LemmasMod_A LemmasMod_B LemmasMod_C LemmasMod_D LemmasMod_E LemmasMod_F.
Import ListNotations.

(** ** symbols *)
Lemma symbol_table_ok : forall b1 b0 : bool,
  bits_to_symbol (N.lor (N.shiftl (b2n b1) 1) (b2n b0)) = dibit_symbol b1 b0.
Proof. intros [|] [|]; reflexivity. Qed.

Definition ok_sym_byte (b : N) : bool :=
  let got := snd (iter_out 4 (fun b => (u8 (N.shiftl b 2), [bits_to_symbol (N.shiftr b 6)])) b) in
  let want := bits_symbols (byte_bits b) in
  forallb (fun p => Z.eqb (fst p) (snd p)) (combine got want) && Nat.eqb (length got) 4 && Nat.eqb (length want) 4.
Lemma sweep_sym_byte : below 8 ok_sym_byte = true.
Proof. vm_compute. reflexivity. Qed.

Lemma list4_eq (a b : list Z) : length a = 4%nat -> length b = 4%nat ->
  forallb (fun p => Z.eqb (fst p) (snd p)) (combine a b) = true -> a = b.
Proof. intros Ha Hb H.
  destruct a as [|a0 [|a1 [|a2 [|a3 [|? ?]]]]]; try discriminate Ha.
  destruct b as [|b0 [|b1 [|b2 [|b3 [|? ?]]]]]; try discriminate Hb.
  cbn in H. repeat (apply andb_prop in H; destruct H as [? H]).
  repeat match goal with E : Z.eqb _ _ = true |- _ => apply Z.eqb_eq in E end. subst. reflexivity. Qed.

Lemma bytes_symbols_cons b r : bytes_symbols (b :: r) = bits_symbols (byte_bits b) ++ bytes_symbols r.
Proof. reflexivity. Qed.

Lemma bytes_to_symbols_ok bytes : all_bytes bytes -> bytes_to_symbols bytes = bytes_symbols bytes.
Proof. induction bytes as [|b r IH]; intros H; [reflexivity|]. inversion H as [|? ? Hb Hr]; subst.
  unfold bytes_to_symbols in *. cbn [flat_map]. rewrite IH by exact Hr. rewrite bytes_symbols_cons. f_equal.
  assert (L : (b < 2 ^ N.of_nat 8)%N) by exact Hb.
  pose proof (below_spec 8 ok_sym_byte sweep_sym_byte b L) as K. unfold ok_sym_byte in K.
  apply andb_prop in K. destruct K as [K K3]. apply andb_prop in K. destruct K as [K1 K2].
  apply Nat.eqb_eq in K2, K3. apply list4_eq; assumption. Qed.

Lemma bytes_symbols_app a b : bytes_symbols (a ++ b) = bytes_symbols a ++ bytes_symbols b.
Proof. induction a as [|x a IH]; [reflexivity|]. cbn [app]. rewrite !bytes_symbols_cons, IH, app_assoc. reflexivity. Qed.

(** bits_to_symbols walks the array in pairs *)
Lemma bits_to_symbols_ok n : forall bits, length bits = (2 * n)%nat -> bits_to_symbols bits = bits_symbols bits.
Proof. unfold bits_to_symbols. induction n as [|n IH]; intros bits H.
- destruct bits; [reflexivity | discriminate].
- destruct bits as [|b1 [|b0 rest]]; try (cbn in H; lia).
  assert (Hr : length rest = (2 * n)%nat) by (cbn [length] in H; lia).
  replace (length (b1 :: b0 :: rest) / 2)%nat with (S n).
  2:{ cbn [length]. rewrite Hr. replace (S (S (2 * n))) with ((1 + n) * 2)%nat by lia. rewrite Nat.div_mul by lia. reflexivity. }
  cbn [seq map bits_symbols]. f_equal; [apply symbol_table_ok|].
  rewrite <- seq_shift, map_map. rewrite <- IH by exact Hr.
  replace (length rest / 2)%nat with n by (rewrite Hr, Nat.mul_comm, Nat.div_mul by lia; reflexivity).
  apply map_ext. intros k. replace (2 * S k)%nat with (2 + 2 * k)%nat by lia.
  replace (2 + 2 * k + 1)%nat with (2 + (2 * k + 1))%nat by lia. reflexivity. Qed.

(** bits -> bytes -> bits *)
Definition ok_rt (l : list bool) : bool := beq_bits (byte_bits (bits_N l)) l.
Lemma sweep_rt : all_lists 8 ok_rt = true.
Proof. vm_compute. reflexivity. Qed.

Lemma bytes_bits_bits_bytes n : forall frame, length frame = (8 * n)%nat -> bytes_bits (bits_bytes frame) = frame.
Proof. induction n as [|n IH]; intros frame H.
- destruct frame; [reflexivity | discriminate].
- destruct frame as [|a0 [|a1 [|a2 [|a3 [|a4 [|a5 [|a6 [|a7 rest]]]]]]]]; try (cbn in H; lia).
  unfold bits_bytes. rewrite groups_cons by (lia || discriminate). cbn [firstn skipn map].
  fold (bits_bytes rest). change (bytes_bits (?x :: ?r)) with (byte_bits x ++ bytes_bits r).
  rewrite IH by (cbn [length] in H; lia).
  pose proof (all_lists_spec 8 ok_rt sweep_rt [a0; a1; a2; a3; a4; a5; a6; a7] eq_refl) as K.
  apply beq_bits_eq in K. rewrite K. reflexivity. Qed.

(** ** the symbol block of each output call *)
Definition call_symbols (c : out_call) : list Z := firstn (fst (call_block c)) (snd (call_block c)).

Lemma call_us_symbols c : call_us c = upsample samples_per_symbol (call_symbols c).
Proof. reflexivity. Qed.

Lemma upsample_app sps a b : upsample sps (a ++ b) = upsample sps a ++ upsample sps b.
Proof. unfold upsample. apply flat_map_app. Qed.

Lemma blocks_symbols calls : blocks calls = upsample samples_per_symbol (flat_map call_symbols calls).
Proof. induction calls as [|c calls IH]; [reflexivity|]. rewrite blocks_cons, IH, call_us_symbols.
  cbn [flat_map]. rewrite upsample_app. reflexivity. Qed.

Lemma preamble_symbols : call_symbols OutPreamble = bytes_symbols preamble.
Proof. vm_compute. reflexivity. Qed.

Lemma eot_symbols_ok : call_symbols OutEot = bytes_symbols eot_marker ++ repeat 0%Z 40.
Proof. vm_compute. reflexivity. Qed.

Lemma bits_symbols_length n : forall bits, length bits = (2 * n)%nat -> length (bits_symbols bits) = n.
Proof. induction n as [|n IH]; intros bits H.
- destruct bits; [reflexivity | discriminate].
- destruct bits as [|b1 [|b0 rest]]; try (cbn in H; lia). cbn [bits_symbols length]. rewrite IH; [reflexivity|].
  cbn [length] in H. lia. Qed.

Lemma frame_symbols_ok sw frame : length sw = 2%nat -> all_bytes sw -> length frame = 368%nat ->
  call_symbols (OutFrame sw frame) = bytes_symbols (sw ++ bits_bytes frame) /\
  length (call_symbols (OutFrame sw frame)) = 192%nat.
Proof. intros Hs Hb Hf. unfold call_symbols, call_block. cbn [fst snd].
  rewrite bytes_to_symbols_ok by exact Hb. rewrite (bits_to_symbols_ok 184) by exact Hf.
  assert (L1 : length (bytes_symbols sw) = 8%nat).
  { unfold bytes_symbols. apply bits_symbols_length. rewrite bytes_bits_length, Hs. reflexivity. }
  assert (L2 : length (bits_symbols frame) = 184%nat) by (apply bits_symbols_length; exact Hf).
  change frame_symbols with 192%nat.
  rewrite firstn_all2 by (rewrite app_length, L1, L2; lia).
  split; [|rewrite app_length, L1, L2; reflexivity].
  rewrite bytes_symbols_app. f_equal. unfold bytes_symbols. rewrite (bytes_bits_bits_bytes 46) by exact Hf. reflexivity. Qed.

(** the stream frames *)
Lemma frame_calls_symbols lsf ps : forall k,
  flat_map call_symbols (frame_calls lsf k ps) = bytes_symbols (spec_stream_frames lsf k ps) /\
  length (flat_map call_symbols (frame_calls lsf k ps)) = (192 * length ps)%nat /\
  Forall (fun c => fst (call_block c) = frame_symbols) (frame_calls lsf k ps).
Proof. induction ps as [|p rest IH]; intros k; [repeat split; constructor|].
  cbn [frame_calls spec_stream_frames flat_map]. destruct (IH (k + 1)%N) as [E [L F]].
  destruct (frame_symbols_ok SpecM17.sync_stream
              (spec_stream_frame lsf (lich_index k) (fn_index k) p (match rest with [] => true | _ => false end)))
    as [E1 L1]; [reflexivity | repeat constructor; reflexivity | |].
  { unfold spec_stream_frame, spec_finish, spec_randomize, spec_interleave, xor_bits.
    rewrite map_length, combine_length, map_length. reflexivity. }
  split; [|split].
  - rewrite E, E1, !bytes_symbols_app. reflexivity.
  - rewrite app_length, L1, L. cbn [length]. lia.
  - constructor; [reflexivity | exact F]. Qed.

(** ** the program's calls *)
Section Program.
Variable uninit : list bool.
Variable cstate : Type.
Variable codec2_encode : cstate -> list Z -> cstate * list N.
Hypothesis codec_ok : forall cs a, length (snd (codec2_encode cs a)) = 8%nat /\ all_bytes (snd (codec2_encode cs a)).

Definition through_frames (lsf_frame_bits : list bool) (lsf : list N) (ps : list (list N)) : list out_call :=
  [OutPreamble; OutFrame SpecM17.sync_lsf lsf_frame_bits] ++ frame_calls lsf 0 ps.

Lemma through_frames_symbols F lsf ps : length F = 368%nat ->
  flat_map call_symbols (through_frames F lsf ps)
  = bytes_symbols (preamble ++ (SpecM17.sync_lsf ++ bits_bytes F) ++ spec_stream_frames lsf 0 ps) /\
  length (flat_map call_symbols (through_frames F lsf ps)) = (192 * (2 + length ps))%nat /\
  forall per, Forall (fun c => call_key per c = filter_key per frame_symbols) (through_frames F lsf ps).
Proof. intros HF. unfold through_frames. cbn [app flat_map].
  destruct (frame_calls_symbols lsf ps 0%N) as [E [L K]].
  destruct (frame_symbols_ok SpecM17.sync_lsf F) as [E1 L1]; [reflexivity | repeat constructor; reflexivity | exact HF |].
  split; [|split].
  - rewrite E, E1, preamble_symbols, !bytes_symbols_app. reflexivity.
  - rewrite !app_length, L1, L, preamble_symbols. change (length (bytes_symbols preamble)) with 192%nat. lia.
  - intros per. constructor; [reflexivity|]. constructor; [reflexivity|].
    apply Forall_forall. intros c Hc. unfold call_key. rewrite (proj1 (Forall_forall _ _) K c Hc). reflexivity. Qed.

Definition flush_symbols : list Z := repeat 0%Z 40.

(** all the symbols the program shapes *)
Lemma all_symbols F lsf ps : length F = 368%nat ->
  flat_map call_symbols (through_frames F lsf ps ++ [OutEot])
  = bytes_symbols (preamble ++ (SpecM17.sync_lsf ++ bits_bytes F) ++ spec_stream_frames lsf 0 ps ++ eot_marker) ++ flush_symbols.
Proof. intros HF. rewrite flat_map_app. destruct (through_frames_symbols F lsf ps HF) as [E _]. rewrite E.
  cbn [flat_map]. rewrite eot_symbols_ok, app_nil_r. rewrite !bytes_symbols_app, <- !app_assoc. reflexivity. Qed.

Definition spec_gain (invert : bool) : Z := if invert then (-7168)%Z else 7168%Z.
Lemma gain_ok invert : gain invert = spec_gain invert.
Proof. destruct invert; reflexivity. Qed.

Definition ideal (invert : bool) (symbols : list Z) : list Z :=
  spec_baseband rrc_taps_num rrc_den_log2 10 (spec_gain invert) symbols.

Lemma ideal_blocks invert calls :
  map (trunc invert) (ideal_response_from rrc_taps_num [] (blocks calls)) = ideal invert (flat_map call_symbols calls).
Proof. unfold ideal, spec_baseband, ideal_response. rewrite blocks_symbols.
  unfold trunc. rewrite gain_ok. reflexivity. Qed.

(** rendering [pre ++ [OutEot]] when every call of [pre] selects the instance [k0] *)
Lemma render_pre_eot (per invert : bool) pre k0 :
  Forall (fun c => call_key per c = k0) pre ->
  render_baseband per invert (pre ++ [OutEot]) =
  ideal invert (flat_map call_symbols pre) ++
  map (trunc invert)
      (ideal_response_from rrc_taps_num
         (if Nat.eqb (call_key per OutEot) k0 then rev (blocks pre) else []) (call_us OutEot)).
Proof. intros H. rewrite render_baseband_abs, fold_left_app.
  destruct (same_key_run per invert k0 pre (fun _ => []) [] H) as [P O].
  destruct (fold_left (abs_step per invert) pre (fun _ : nat => [], [])) as [pasts out] eqn:E. cbn [fst snd] in *.
  rewrite fold_left_cons, abs_step_eq. cbn [fold_left snd]. rewrite O. cbn [app]. rewrite ideal_blocks. f_equal.
  f_equal. f_equal.
  destruct (Nat.eqb_spec (call_key per OutEot) k0) as [K|K].
  - rewrite K, P, app_nil_r. reflexivity.
  - (* a key no call of [pre] selected: nothing was fed to it *)
    clear O P. revert pasts out E.
    assert (G : forall calls pasts0 out0 pasts out, Forall (fun c => call_key per c = k0) calls ->
              fold_left (abs_step per invert) calls (pasts0, out0) = (pasts, out) ->
              pasts (call_key per OutEot) = pasts0 (call_key per OutEot)).
    { induction calls as [|c calls IH]; intros pasts0 out0 pasts out Hc E.
      - cbn in E. inversion E; reflexivity.
      - inversion Hc as [|? ? Hk Hr]; subst. rewrite fold_left_cons, abs_step_eq in E.
        rewrite (IH _ _ _ _ Hr E). unfold feed. destruct (Nat.eqb_spec (call_key per OutEot) (call_key per c)); [congruence | reflexivity]. }
    intros pasts out E. rewrite (G pre _ _ _ _ H E). reflexivity. Qed.

Lemma ideal_length invert symbols : length (ideal invert symbols) = (10 * length symbols)%nat.
Proof. unfold ideal, spec_baseband, ideal_response. rewrite map_length, ideal_from_length.
  unfold upsample. induction symbols as [|s r IH]; [reflexivity|]. cbn [flat_map]. rewrite app_length, IH. cbn [length repeat Nat.sub]. lia. Qed.

Lemma ideal_app invert a b :
  ideal invert (a ++ b) = ideal invert a ++ map (trunc invert) (ideal_response_from rrc_taps_num (rev (upsample 10 a)) (upsample 10 b)).
Proof. unfold ideal, spec_baseband, ideal_response. rewrite upsample_app, ideal_from_app, map_app, app_nil_r.
  unfold trunc. rewrite gain_ok. reflexivity. Qed.

(** ** statements about the program *)
Variables (audio0 : list Z) (cs0 : cstate) (can : N) (src dest : list N) (samples : list Z).
Hypothesis Hsrc : valid_callsign src.
Hypothesis Hdest : valid_callsign dest.
Hypothesis Hcan : (can < 16)%N.
Hypothesis Haudio0 : length audio0 = 320%nat.

Notation payloads := (expected_payloads cstate codec2_encode (initial_audio mod_audio_zero_init audio0) cs0 samples).
Notation the_symbols := (spec_symbols dest src can payloads ++ flush_symbols).

Lemma run_mod_calls_shape :
  run_mod_calls uninit cstate codec2_encode audio0 cs0 can src dest samples =
  through_frames (spec_lsf_frame (spec_lsf dest src can)) (spec_lsf dest src can) payloads ++ [OutEot].
Proof. unfold run_mod_calls, run_mod_calls_gen. rewrite (mod_calls_ok uninit cstate codec2_encode codec_ok) by assumption.
  unfold through_frames. rewrite <- !app_assoc. reflexivity. Qed.

Lemma the_symbols_ok :
  flat_map call_symbols (through_frames (spec_lsf_frame (spec_lsf dest src can)) (spec_lsf dest src can) payloads ++ [OutEot])
  = the_symbols.
Proof. rewrite all_symbols by apply spec_lsf_frame_length. reflexivity. Qed.

(** the EOT block shares the filter object of the frames: one continuous run *)
Lemma baseband_continuous_shared (per invert : bool) :
  filter_key per eot_symbols = filter_key per frame_symbols ->
  run_mod_baseband_gen uninit cstate codec2_encode per invert audio0 cs0 can src dest samples = ideal invert the_symbols.
Proof. intros K. unfold run_mod_baseband_gen. rewrite run_mod_calls_shape.
  destruct (through_frames_symbols (spec_lsf_frame (spec_lsf dest src can)) (spec_lsf dest src can) payloads
              (spec_lsf_frame_length _)) as [E [L F]].
  rewrite (render_pre_eot per invert _ _ (F per)).
  change (call_key per OutEot) with (filter_key per eot_symbols). rewrite K, Nat.eqb_refl.
  rewrite <- the_symbols_ok, flat_map_app, ideal_app. f_equal.
  rewrite blocks_symbols. cbn [flat_map]. rewrite app_nil_r. reflexivity. Qed.

(** as built or not: continuity holds across every frame boundary up to the end of the last stream frame *)
Lemma baseband_through_last_frame (per invert : bool) :
  let y := run_mod_baseband_gen uninit cstate codec2_encode per invert audio0 cs0 can src dest samples in
  let n := (10 * (192 * (2 + length payloads)))%nat in
  firstn n y = firstn n (ideal invert the_symbols) /\ length y = length (ideal invert the_symbols) /\
  length y = (n + 480)%nat.
Proof. cbv zeta. unfold run_mod_baseband_gen. rewrite run_mod_calls_shape.
  destruct (through_frames_symbols (spec_lsf_frame (spec_lsf dest src can)) (spec_lsf dest src can) payloads
              (spec_lsf_frame_length _)) as [E [L F]].
  rewrite (render_pre_eot per invert _ _ (F per)).
  rewrite <- the_symbols_ok, flat_map_app, ideal_app.
  set (pre := flat_map call_symbols (through_frames (spec_lsf_frame (spec_lsf dest src can)) (spec_lsf dest src can) payloads)) in *.
  assert (Ln : length (ideal invert pre) = (10 * (192 * (2 + length payloads)))%nat) by (rewrite ideal_length, L; reflexivity).
  split; [|split].
  - rewrite <- Ln. rewrite !firstn_app, !Nat.sub_diag. cbn [firstn]. reflexivity.
  - rewrite !app_length, !map_length, !ideal_from_length. reflexivity.
  - rewrite app_length, Ln, map_length, ideal_from_length. reflexivity. Qed.
End Program.

(** ** the witness: with one filter object per instantiation the EOT block starts from a cold filter *)
Definition w_codec (cs : unit) (a : list Z) : unit * list N := (tt, repeat 0%N 8).
Definition w_baseband (per : bool) : list Z :=
  run_mod_baseband_gen [] unit w_codec per false (repeat 0%Z 320) tt 0 [65%N] [] [].
Definition w_ideal : list Z :=
  spec_baseband rrc_taps_num rrc_den_log2 10 7168
    (spec_symbols [] [65%N] 0 (expected_payloads unit w_codec (initial_audio mod_audio_zero_init (repeat 0%Z 320)) tt []) ++ repeat 0%Z 40).

Fixpoint zlist_eqb (a b : list Z) : bool :=
  match a, b with
  | [], [] => true
  | x :: a', y :: b' => Z.eqb x y && zlist_eqb a' b'
  | _, _ => false
  end.
Lemma zlist_eqb_refl a : zlist_eqb a a = true.
Proof. induction a; [reflexivity|]. cbn. rewrite Z.eqb_refl, IHa. reflexivity. Qed.

Lemma witness_differs : zlist_eqb (w_baseband true) w_ideal = false.
Proof. vm_compute. reflexivity. Qed.

Lemma witness_ne : w_baseband true <> w_ideal.
Proof. intros E. pose proof witness_differs as D. rewrite E, zlist_eqb_refl in D. discriminate. Qed.

Lemma w_codec_ok : forall cs a, length (snd (w_codec cs a)) = 8%nat /\ all_bytes (snd (w_codec cs a)).
Proof. intros. split; [reflexivity | repeat constructor]. Qed.

Lemma w_valid : valid_callsign [65%N] /\ valid_callsign [].
Proof. split; split; cbn; try lia; reflexivity. Qed.
