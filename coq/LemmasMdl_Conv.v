(** C14 lemmas, part 3: M17Modulator::conv_encode on packed bytes is the specification's convolutional
    encoder (rate 1/2, K = 5, four flush bits) on the bit list, for every byte string of up to 127 bytes.

    The loop state splits into a data-independent store ([byte_index], [result]) and a core
    ([bit_index], [tmp], [memory]) whose behaviour over one input byte / over the four flush bits is swept
    over all 32 x 256 (resp. 32) core states and lifted by induction over the bytes. *)
From Coq Require Import NArith ZArith List Bool Lia Arith.
From M17 Require Import Bits SpecM17 ConstsModulator ImplModulator LemmasMdl_Bits.
Import ListNotations.
Local Open Scope N_scope.

(** ** the core run, collecting the emitted bytes *)
Fixpoint core_run (site : nat) (core : conv_core) (xs : list N) : conv_core * list N :=
  match xs with
  | [] => (core, [])
  | x :: r =>
      let '(K, p1, p2, inc, lim) := conv_site site in
      let '(core', e) := conv_emit K p1 p2 inc lim core x in
      let '(core'', em) := core_run site core' r in
      (core'', (match e with Some t => [t] | None => [] end) ++ em)
  end.

Lemma core_run_app site xs : forall core ys,
  core_run site core (xs ++ ys) =
  let '(c1, e1) := core_run site core xs in let '(c2, e2) := core_run site c1 ys in (c2, e1 ++ e2).
Proof. induction xs as [|x r IH]; intros core ys.
- cbn [app core_run]. destruct (core_run site core ys). reflexivity.
- cbn [app core_run]. destruct (conv_site site) as [[[[K p1] p2] inc] lim].
  destruct (conv_emit K p1 p2 inc lim core x) as [core' e]. rewrite IH.
  destruct (core_run site core' r) as [c1 e1]. destruct (core_run site c1 ys) as [c2 e2].
  rewrite app_assoc. reflexivity. Qed.

Lemma u8_small x : x < 256 -> u8 x = x.
Proof. intros H. unfold u8. change 255 with (N.ones 8). rewrite N.land_ones. apply N.mod_small. exact H. Qed.

(** the store only appends: the whole fold writes the emitted bytes at consecutive positions *)
Lemma conv_bits_run site xs : forall core bi res,
  (N.to_nat bi + length (snd (core_run site core xs)) <= 255)%nat ->
  fold_left (conv_bit site) xs (core, bi, res) =
  (fst (core_run site core xs), bi + N.of_nat (length (snd (core_run site core xs))), copy_at res (N.to_nat bi) (snd (core_run site core xs))).
Proof. induction xs as [|x r IH]; intros core bi res H.
- cbn [fold_left core_run fst snd length copy_at]. rewrite N.add_0_r. reflexivity.
- cbn [fold_left]. unfold conv_bit at 2. cbn [core_run fst] in *.
  destruct (conv_site site) as [[[[K p1] p2] inc] lim].
  destruct (conv_emit K p1 p2 inc lim core x) as [core' e].
  destruct (core_run site core' r) as [core'' em] eqn:E. cbn [snd fst] in *.
  unfold conv_store. cbn [snd fst]. destruct e as [t|].
  + cbn [app length] in H. rewrite IH; rewrite E; cbn [fst snd].
    * rewrite u8_small by lia. cbn [app copy_at length]. f_equal; [f_equal; lia|].
      f_equal. lia.
    * rewrite u8_small by lia. lia.
  + cbn [app] in *. rewrite IH; rewrite E; cbn [fst snd]; [reflexivity | exact H]. Qed.

(** ** the data loop reads the bits of a byte, MSB first *)
Definition next_b (b : N) : N := u8 (N.shiftl b ConstsModulator.conv_byte_shift).
Definition top_bit (b : N) : N := N.shiftr (N.land b ConstsModulator.conv_msb_mask) ConstsModulator.conv_msb_shift.
Fixpoint byte_xs (n : nat) (b : N) : list N :=
  match n with O => [] | S n' => top_bit b :: byte_xs n' (next_b b) end.

Lemma data_bits_fold l : forall b full,
  snd (fold_left conv_data_bit l (b, full)) = fold_left (conv_bit 0) (byte_xs (length l) b) full.
Proof. induction l as [|i l IH]; intros b full; [reflexivity|].
  cbn [fold_left length byte_xs]. unfold conv_data_bit at 2. fold (top_bit b). fold (next_b b). apply IH. Qed.

Definition xs_ok (b : N) : bool :=
  let xs := byte_xs 8 b in let bits := byte_bits b in
  forallb (fun i => N.eqb (nth i xs 0) (b2n (nth i bits false))) (seq 0 8) && Nat.eqb (length xs) 8.
Lemma xs_sweep : below 8 xs_ok = true.
Proof. vm_cast_no_check (eq_refl true). Qed.

Lemma nth_ext8 {A} (a b : list A) d d' : length a = 8%nat -> length b = 8%nat ->
  (forall i, (i < 8)%nat -> nth i a d = nth i b d') -> a = b.
Proof. intros La Lb H. apply (nth_ext a b d d'); [lia|]. intros i Hi. apply H. lia. Qed.

Lemma byte_xs_bits b : b < 256 -> byte_xs 8 b = map b2n (byte_bits b).
Proof. intros Hb. pose proof (below_spec 8 xs_ok xs_sweep b Hb) as S. unfold xs_ok in S.
  apply andb_prop in S. destruct S as [S L]. apply Nat.eqb_eq in L. rewrite forallb_forall in S.
  apply (nth_ext8 _ _ 0 0 L); [rewrite map_length; apply byte_bits_length|].
  intros i Hi. change 0 with (b2n false) at 2. rewrite map_nth. apply N.eqb_eq. apply S. apply in_seq. lia. Qed.

Lemma conv_data_byte_bits full b : b < 256 ->
  conv_data_byte full b = fold_left (conv_bit 0) (map b2n (byte_bits b)) full.
Proof. intros Hb. unfold conv_data_byte. rewrite data_bits_fold. rewrite seq_length.
  change ConstsModulator.conv_bits_per_byte with 8%nat. rewrite byte_xs_bits by exact Hb. reflexivity. Qed.

Lemma conv_data_bytes_bits data : all_bytes data -> forall full,
  fold_left conv_data_byte data full = fold_left (conv_bit 0) (map b2n (bytes_bits data)) full.
Proof. induction 1 as [|b data Hb _ IH]; intros full; [reflexivity|].
  cbn [fold_left]. rewrite conv_data_byte_bits by exact Hb. rewrite IH.
  unfold bytes_bits. cbn [flat_map]. rewrite map_app, fold_left_app. reflexivity. Qed.

(** ** the specification's encoder with its final register *)
Fixpoint conv_run (d : conv_state) (bits : list bool) : conv_state * list bool :=
  match bits with
  | [] => (d, [])
  | x :: r => let '(d', o) := conv_step d x in let '(d'', os) := conv_run d' r in (d'', o ++ os)
  end.
Lemma conv_from_run bits : forall d, conv_from d bits = snd (conv_run d bits).
Proof. induction bits as [|x r IH]; intros d; [reflexivity|]. cbn [conv_from conv_run].
  destruct (conv_step d x) as [d' o]. rewrite IH. destruct (conv_run d' r). reflexivity. Qed.
Lemma conv_run_app a : forall d b,
  conv_run d (a ++ b) = let '(d1, o1) := conv_run d a in let '(d2, o2) := conv_run d1 b in (d2, o1 ++ o2).
Proof. induction a as [|x r IH]; intros d b.
- cbn [app conv_run]. destruct (conv_run d b). reflexivity.
- cbn [app conv_run]. destruct (conv_step d x) as [d' o]. rewrite IH.
  destruct (conv_run d' r) as [d1 o1]. destruct (conv_run d1 b) as [d2 o2]. rewrite app_assoc. reflexivity. Qed.

(** the four previous inputs are the four low bits of [memory] *)
Definition mem_abs (m : N) : conv_state := (N.testbit m 0, N.testbit m 1, N.testbit m 2, N.testbit m 3).
Definition state_eqb (a b : conv_state) : bool :=
  let '(a1, a2, a3, a4) := a in let '(b1, b2, b3, b4) := b in
  Bool.eqb a1 b1 && Bool.eqb a2 b2 && Bool.eqb a3 b3 && Bool.eqb a4 b4.
Lemma state_eqb_eq a b : state_eqb a b = true -> a = b.
Proof. destruct a as [[[a1 a2] a3] a4], b as [[[b1 b2] b3] b4]. unfold state_eqb. intros H.
  repeat (apply andb_prop in H; destruct H as [H ?]).
  repeat match goal with E : Bool.eqb _ _ = true |- _ => apply Bool.eqb_prop in E end. subst. reflexivity. Qed.

Definition run_ok (site : nat) (xs : list N) (bits : list bool) (nbytes : nat) (m : N) : bool :=
  let '((bi, tmp, m'), em) := core_run site (0, 0, m) xs in
  let '(d', os) := conv_run (mem_abs m) bits in
  (bi =? 0) && (tmp =? 0) && (m' <? 32) && state_eqb (mem_abs m') d' && bits_eqb (bytes_bits em) os
  && Nat.eqb (length em) nbytes && forallb (fun e => e <? 256) em.

Definition byte_ok2 (m b : N) : bool := run_ok 0 (map b2n (byte_bits b)) (byte_bits b) 2 m.
Lemma conv_byte_sweep : below 5 (fun m => below 8 (byte_ok2 m)) = true.
Proof. vm_cast_no_check (eq_refl true). Qed.
Lemma conv_flush_sweep : below 5 (run_ok 1 (repeat 0 ConstsModulator.conv_flush) (repeat false 4) 1) = true.
Proof. vm_cast_no_check (eq_refl true). Qed.

Lemma run_ok_elim site xs bits n m : run_ok site xs bits n m = true ->
  exists m' em, core_run site (0, 0, m) xs = ((0, 0, m'), em) /\ m' < 32 /\ length em = n /\ all_bytes em
                /\ conv_run (mem_abs m) bits = (mem_abs m', bytes_bits em).
Proof. unfold run_ok. destruct (core_run site (0, 0, m) xs) as [[[bi tmp] m'] em].
  destruct (conv_run (mem_abs m) bits) as [d' os]. intros H.
  repeat (apply andb_prop in H; destruct H as [H ?]).
  apply N.eqb_eq in H. repeat match goal with E : (_ =? _) = true |- _ => apply N.eqb_eq in E end.
  match goal with E : (_ <? _) = true |- _ => apply N.ltb_lt in E end.
  match goal with E : state_eqb _ _ = true |- _ => apply state_eqb_eq in E end.
  match goal with E : bits_eqb _ _ = true |- _ => apply bits_eqb_eq in E end.
  match goal with E : Nat.eqb _ _ = true |- _ => apply Nat.eqb_eq in E end.
  subst. exists m', em. repeat split; try assumption; try reflexivity.
  apply Forall_forall. intros e He. match goal with E : forallb _ _ = true |- _ => rewrite forallb_forall in E; apply E in He end.
  apply N.ltb_lt. exact He. Qed.

Lemma conv_byte_step m b : m < 32 -> b < 256 ->
  exists m' em, core_run 0 (0, 0, m) (map b2n (byte_bits b)) = ((0, 0, m'), em) /\ m' < 32 /\ length em = 2%nat /\ all_bytes em
                /\ conv_run (mem_abs m) (byte_bits b) = (mem_abs m', bytes_bits em).
Proof. intros Hm Hb. apply run_ok_elim.
  exact (below_spec 8 _ (below_spec 5 _ conv_byte_sweep m Hm) b Hb). Qed.

Lemma conv_flush_step m : m < 32 ->
  exists m' em, core_run 1 (0, 0, m) (repeat 0 ConstsModulator.conv_flush) = ((0, 0, m'), em) /\ m' < 32 /\ length em = 1%nat /\ all_bytes em
                /\ conv_run (mem_abs m) (repeat false 4) = (mem_abs m', bytes_bits em).
Proof. intros Hm. apply run_ok_elim. exact (below_spec 5 _ conv_flush_sweep m Hm). Qed.

Global Opaque core_run conv_emit.

Lemma conv_bytes_run data : all_bytes data -> forall m, m < 32 ->
  exists m' em, core_run 0 (0, 0, m) (map b2n (bytes_bits data)) = ((0, 0, m'), em) /\ m' < 32
                /\ length em = (2 * length data)%nat /\ all_bytes em
                /\ conv_run (mem_abs m) (bytes_bits data) = (mem_abs m', bytes_bits em).
Proof. induction 1 as [|b data Hb Hd IH]; intros m Hm.
- exists m, []. repeat split; try assumption; try constructor.
- destruct (conv_byte_step m b Hm Hb) as [m1 [em1 [R1 [L1 [N1 [A1 C1]]]]]].
  destruct (IH m1 L1) as [m2 [em2 [R2 [L2 [N2 [A2 C2]]]]]].
  exists m2, (em1 ++ em2). unfold bytes_bits in *. cbn [flat_map].
  rewrite map_app, core_run_app, R1, R2. rewrite conv_run_app, C1, C2.
  repeat split; try assumption.
  + rewrite app_length, N1, N2. cbn [length]. lia.
  + apply Forall_app. split; assumption.
  + rewrite flat_map_app. reflexivity. Qed.

Lemma fold_seq_repeat {A} (h : A -> N -> A) n : forall s a,
  fold_left (fun st (_ : nat) => h st 0) (seq s n) a = fold_left h (repeat 0 n) a.
Proof. induction n as [|n IH]; intros s a; [reflexivity|]. cbn [seq repeat fold_left]. apply IH. Qed.

(** ** conv_encode is the specification's encoder *)
Theorem conv_encode_spec result0 data : all_bytes data -> (length data <= 127)%nat ->
  length result0 = conv_out_len (length data) ->
  bytes_bits (conv_encode result0 data) = spec_conv (bytes_bits data)
  /\ all_bytes (conv_encode result0 data) /\ length (conv_encode result0 data) = conv_out_len (length data).
Proof. intros Hd Ln Lr. unfold conv_out_len in *. change ConstsModulator.conv_out_mul with 2%nat in *. change ConstsModulator.conv_out_add with 1%nat in *.
  destruct (conv_bytes_run data Hd 0 eq_refl) as [m1 [em1 [R1 [L1 [N1 [A1 C1]]]]]].
  destruct (conv_flush_step m1 L1) as [m2 [em2 [R2 [L2 [N2 [A2 C2]]]]]].
  unfold conv_encode. rewrite conv_data_bytes_bits by exact Hd.
  rewrite conv_bits_run; rewrite R1; cbn [fst snd]; [|lia].
  rewrite (fold_seq_repeat (conv_bit 1)).
 rewrite conv_bits_run; rewrite R2; cbn [fst snd]; [|lia].
  unfold conv_pad. cbn [N.eqb]. change (N.to_nat 0) with 0%nat.
  rewrite N.add_0_l, Nat2N.id.
  rewrite copy_at_two by lia.
  split; [|split; [apply Forall_app; split; assumption | rewrite app_length; lia]].
  unfold bytes_bits in *. rewrite flat_map_app. unfold spec_conv. rewrite conv_from_run.
  change conv_zero with (mem_abs 0). rewrite conv_run_app, C1, C2. reflexivity. Qed.
