(** C01 round trip, part H: the TYPE field of m17-mod's link setup frame puts the decoder into stream mode. *)
From Coq Require Import NArith ZArith List Bool Lia Arith.
From M17 Require Import Bits ImplUtilBits LemmasUtilBits SpecM17 ImplFrameDecoder LemmasRT_D.
Import ListNotations.
Local Open Scope N_scope.

Lemma sweep_type : below 4 (fun can => let b := nth 1 (be_bytes 2 (lsf_type_stream_voice can)) 0 in
                                        N.testbit b 0 && N.testbit b 2) = true.
Proof. vm_cast_no_check (eq_refl true). Qed.

Lemma spec_dst_address_length dst : length (spec_dst_address dst) = 6%nat.
Proof. destruct dst; [reflexivity | apply be_bytes_length]. Qed.

Lemma spec_lsf_byte13 dst src can : nth 13 (spec_lsf dst src can) 0 = nth 1 (be_bytes 2 (lsf_type_stream_voice can)) 0.
Proof. unfold spec_lsf, spec_lsf_body.
  pose proof (spec_dst_address_length dst) as LD. pose proof (be_bytes_length 6 (base40 src)) as LS.
  fold (spec_address src) in LS.
  pose proof (be_bytes_length 2 (lsf_type_stream_voice can)) as LT.
  set (D := spec_dst_address dst) in *. set (S := spec_address src) in *.
  set (T := be_bytes 2 (lsf_type_stream_voice can)) in *. clearbody D S T.
  do 6 (destruct D as [|? D]; [discriminate|]). destruct D; [|discriminate].
  do 6 (destruct S as [|? S]; [discriminate|]). destruct S; [|discriminate].
  do 2 (destruct T as [|? T]; [discriminate|]). destruct T; [|discriminate].
  reflexivity. Qed.

Lemma spec_lsf_enters_stream dst src can m0 : can < 16 ->
  update_state m0 (bytes_bits (spec_lsf dst src can)) = MStream.
Proof. intros Hc. pose proof (below_spec 4 _ sweep_type can Hc) as S. cbv zeta in S.
  apply andb_prop in S. destruct S as [S0 S2].
  unfold update_state, bit_at. rewrite !nth_bytes_bits.
  change (111 / 8)%nat with 13%nat. change (109 / 8)%nat with 13%nat.
  change (111 mod 8)%nat with 7%nat. change (109 mod 8)%nat with 5%nat.
  rewrite spec_lsf_byte13. rewrite !nth_byte_bits by lia.
  change (N.of_nat (7 - 7)) with 0. change (N.of_nat (7 - 5)) with 2. rewrite S0, S2. reflexivity. Qed.
