(** Gallina mirror of include/m17cxx/PolynomialInterleaver.h, statement by statement.
    [*_of F1 F2 K] is the template; the un-suffixed names are the frame decoder's
    instantiation (template arguments regenerated from the source on every run).
    Arrays are lists; [d] is the value the scratch buffer is filled with (0 in the C++).
    No proofs here. *)
From Coq Require Import NArith List Arith.
From M17 Require Import ImplUtilBits ConstsInterleave.
Import ListNotations.

Section Template.
Variables (F1 F2 K : N).

(** size_t index(size_t i) { return ((F1 * i) + (F2 * i * i)) % K; }
    size_t is 64 bits; for i < K = 368 the largest intermediate is 92*367^2 + 45*367 < 2^24, no wrap. *)
Definition il_index_of (i : nat) : nat :=
  let n := N.of_nat i in
  N.to_nat (((F1 * n) + (F2 * n * n)) mod K)%N.

Definition il_len : nat := N.to_nat K.

Section Elem.
Context {A : Type}.

(** void interleave(buffer_t& data):
      buffer_.fill(0); for (i = 0; i != K; ++i) buffer_[index(i)] = data[i]; copy buffer_ -> data *)
Definition interleave_of (d : A) (data : list A) : list A :=
  fold_left (fun buffer i => set_nth (il_index_of i) (nth i data d) buffer) (seq 0 il_len) (repeat d il_len).

(** void deinterleave(buffer_t& frame):
      buffer_.fill(0); for (i = 0; i != K; ++i) { idx = index(i); buffer_[i] = frame[idx]; } copy buffer_ -> frame *)
Definition deinterleave_of (d : A) (frame : list A) : list A :=
  fold_left (fun buffer i => set_nth i (nth (il_index_of i) frame d) buffer) (seq 0 il_len) (repeat d il_len).
End Elem.

(** void interleave(bytes_t& data):
      buffer.fill(0); for (i != K) assign_bit_index(buffer, index(i), get_bit_index(data, i)); copy *)
Definition interleave_bytes_of (data : list N) : list N :=
  fold_left (fun buffer i => assign_bit_index buffer (il_index_of i) (get_bit_index data i))
            (seq 0 il_len) (repeat 0%N (il_len / 8)).

(** void deinterleave(bytes_t& data):
      buffer.fill(0); for (i != K) assign_bit_index(buffer, i, get_bit_index(data, index(i))); copy *)
Definition deinterleave_bytes_of (data : list N) : list N :=
  fold_left (fun buffer i => assign_bit_index buffer i (get_bit_index data (il_index_of i)))
            (seq 0 il_len) (repeat 0%N (il_len / 8)).
End Template.

(** The frame decoder's PolynomialInterleaver<45, 92, 368> interleaver_ *)
Definition il_index : nat -> nat := il_index_of il_F1 il_F2 il_K.
Definition interleave {A : Type} (d : A) (l : list A) : list A := interleave_of il_F1 il_F2 il_K d l.
Definition deinterleave {A : Type} (d : A) (l : list A) : list A := deinterleave_of il_F1 il_F2 il_K d l.
Definition interleave_bytes : list N -> list N := interleave_bytes_of il_F1 il_F2 il_K.
Definition deinterleave_bytes : list N -> list N := deinterleave_bytes_of il_F1 il_F2 il_K.

(** the template arguments at site number [k]: 0 = the header's defaults, 1.. = ConstsInterleave.il_sites
    (decoder, modulator, m17-mod.cpp in source order); used by the correspondence check *)
Definition il_site (k : nat) : N * N * N := nth k (il_default :: il_sites) il_default.
