(** PRBS9 / BERT written from the specification (DESIGN.md Appendix A; ITU-T O.150 PRBS9 as M17 uses it):
    the sequence of x^9 + x^5 + 1, i.e. every bit is the xor of the bits five and nine places earlier, started from the
    register 000000001; and what a bit-error-rate meter has to report.  Independent of the C++. *)
From Coq Require Import NArith List Bool Arith.
Import ListNotations.

(** the last nine bits, oldest first *)
Definition window9 := list bool.

(** a_n = a_(n-9) xor a_(n-5) *)
Definition spec_next (w : window9) : bool := xorb (nth 0 w false) (nth 4 w false).

Fixpoint spec_seq (w : window9) (n : nat) : list bool :=
  match n with
  | O => []
  | S n' => let b := spec_next w in b :: spec_seq (tl w ++ [b]) n'
  end.

(** M17: the generator starts from the register value 1 *)
Definition m17_start : window9 := [false; false; false; false; false; false; false; false; true].
Definition m17_prbs (n : nat) : list bool := spec_seq m17_start n.

Definition period : nat := 511.
Definition ones_per_period : nat := 256.
Definition lock_bound : nat := 27.        (* 9 bits to fill the register + 18 consecutive good bits *)
Definition bert_frame_bits : nat := 197.

(** bit-error counting *)
Definition count_true (l : list bool) : nat := length (filter (fun b => b) l).
Definition lastn {A} (n : nat) (l : list A) : list A := skipn (length l - n) l.

(** errors among the most recent (at most) 128 checked bits *)
Definition window_len : nat := 128.
Definition unlock_threshold : nat := 25.

(** the error pattern [es], received after a window history [W] (oldest first), never shows 25 errors within 128 consecutive
    checked bits *)
Definition sparse_from (W es : list bool) : Prop :=
  forall k, (1 <= k <= length es)%nat -> (count_true (lastn window_len (W ++ firstn k es)) < unlock_threshold)%nat.
