(** C18 — PRBS9/BERT: maximal-length generator, lock within 27 bits, exact error count.
    Only the property theorems (each closed by [exact]) and their Print Assumptions.
    Models: ImplPRBS.v (mirror of struct PRBS9 in Util.h), SpecPRBS.v (the sequence of x^9+x^5+1; sparse error patterns).
    Vocabulary (LemmasPRBS_A/B/C/D):
      gen_state g n / gen_bits g n   register / output bits of n calls of generate() from register g   (c18_generate_n)
      run v bits                     the validator after validate() on each bit
      locked_at s v                  v right after synchronize() locked with register s: synced, sync_count 0,
                                     bit_count + 18, err_count unchanged, history zeroed, hist_count = hist_pos = 0
      window_of v                    the 128 error flags of the history, oldest first (rotation of the 16 bytes by hist_pos)
      consistent v g                 synced, register = g, 16 history bytes, hist_pos < 128, hist_count = popcount(window)
      sparse es                      no prefix of the error pattern es has 25 errors among its last (<=128) bits *)
From Coq Require Import NArith List Bool.
From M17 Require Import ImplFrameDecoder FrameDecoderInst LemmasFD_Inst LemmasBertChain.
From M17 Require Import Bits ConstsPrbs ImplPRBS SpecPRBS LemmasPRBS_A LemmasPRBS_B LemmasPRBS_C LemmasPRBS_D LemmasPRBS_E.
Import ListNotations.
Local Open Scope N_scope.

(** 0. generate() n times: the object keeps everything but the register *)
Theorem c18_generate_n : forall n v, generate_n v n = (set_state v (gen_state (state v) n), gen_bits (state v) n).
Proof. exact generate_n_eq. Qed.
Print Assumptions c18_generate_n.

(** 1. period 511: every non-zero register returns after 511 steps; from the reset register 1 not earlier; the output
       sequence has period 511 and no shorter one *)
Theorem c18_period_511 :
  (forall s, 0 < s < 512 -> gen_state s 511 = s) /\
  (forall k, (0 < k < 511)%nat -> gen_state 1 k <> 1) /\
  (forall s n, 0 < s < 512 -> gen_bit s (n + 511) = gen_bit s n) /\
  (forall p, (0 < p < 511)%nat -> exists n, gen_bit 1 (n + p) <> gen_bit 1 n).
Proof. exact period_511_lemma. Qed.
Print Assumptions c18_period_511.

(** 2. 256 ones per period, from every phase *)
Theorem c18_ones_256 : forall s, 0 < s < 512 -> count_true (gen_bits s 511) = 256%nat.
Proof. exact ones_256_lemma. Qed.
Print Assumptions c18_ones_256.

(** 3. maximal length: every non-zero register value occurs within one period from reset *)
Theorem c18_all_nonzero_states_visited : forall s, 0 < s < 512 -> exists k, (k < 511)%nat /\ gen_state 1 k = s.
Proof. exact all_nonzero_states_visited_lemma. Qed.
Print Assumptions c18_all_nonzero_states_visited.

(** 4. the register is the last nine outputs (oldest in bit 8), from any register after at least nine steps *)
Theorem c18_state_is_last_nine_outputs : forall s n, s < 512 -> (9 <= n)%nat ->
  gen_state s n = bits_N (lastn 9 (gen_bits s n)).
Proof. exact state_is_last_nine_outputs_lemma. Qed.
Print Assumptions c18_state_is_last_nine_outputs.

(** 5. the generator emits the specification's sequence a_n = a_(n-9) xor a_(n-5); a new or reset object starts it at
       the M17 start register *)
Theorem c18_generator_is_spec : forall n w, length w = 9%nat -> gen_bits (bits_N w) n = spec_seq w n.
Proof. exact generator_is_spec_lemma. Qed.
Print Assumptions c18_generator_is_spec.

Theorem c18_generator_from_reset : forall n h v,
  snd (generate_n (prbs_new h) n) = m17_prbs n /\ snd (generate_n (prbs_reset v) n) = m17_prbs n.
Proof. intros n h v. rewrite !generate_n_eq. split; exact (generator_is_spec_lemma n m17_start eq_refl). Qed.
Print Assumptions c18_generator_from_reset.

(** 6. lock_within_27.  From ANY validator state with synced = false, any 9-bit register, any counters, any history
       content, and sync_count <= 9 (in particular 0: a new object, after reset(), after an unlock), fed any phase g of the
       sequence: there is t <= 27 such that the validator is not synced before bit t and after bit t it is exactly
       [locked_at (generator register)]: synced, register = the generator's, bit_count + 18, err_count unchanged. *)
Theorem c18_lock_within_27 : forall v g, synced v = false -> state v < 512 -> sync_count v <= 9 -> g < 512 ->
  exists t, (1 <= t <= 27)%nat /\
    run v (gen_bits g t) = locked_at (gen_state g t) v /\
    (forall m, (m < t)%nat -> synced (run v (gen_bits g m)) = false).
Proof. exact lock_within_27_lemma. Qed.
Print Assumptions c18_lock_within_27.

(** 6'. for sync_count up to 17 the statement "... and then the register equals the generator's" is FALSE.
        Witness: register 0, sync_count 17 (reached through the API by reset() and 26 zero bits), phase 1:
        synced is raised by the first bit although the register is not the generator's.  *)
Theorem c18_lock_within_27_any_sync_count_refuted :
  exists v g, synced v = false /\ state v < 512 /\ sync_count v <= 17 /\ g < 512 /\
    (forall h, run (prbs_reset (prbs_new h)) (repeat false 26) = v) /\
    synced (run v (gen_bits g 1)) = true /\ state (run v (gen_bits g 1)) <> gen_state g 1.
Proof. exists false_lock_state, 1. destruct false_lock_witness as [A [B [C [D E]]]].
  split; [exact A|]. split; [exact C|]. split; [exact B|]. split; [reflexivity|].
  split; [exact false_lock_state_reachable|]. split; [exact D|exact E]. Qed.
Print Assumptions c18_lock_within_27_any_sync_count_refuted.

(** 6''. what does hold for every sync_count <= 17: the flag is raised within 27 bits, on a register that differs from the
         generator's by some dl (dl = 0 whenever sync_count <= 9) *)
Theorem c18_sync_flag_within_27 : forall v g, synced v = false -> state v < 512 -> sync_count v <= 17 -> g < 512 ->
  exists t dl, (1 <= t <= 27)%nat /\ dl < 512 /\
    run v (gen_bits g t) = locked_at (N.lxor dl (gen_state g t)) v /\
    (forall m, (m < t)%nat -> synced (run v (gen_bits g m)) = false) /\
    (sync_count v <= 9 -> dl = 0).
Proof. exact sync_flag_within_27_lemma. Qed.
Print Assumptions c18_sync_flag_within_27.

(** 6'''. and what happens to such a false lock, so that the statement for EVERY unsynced state (sync_count <= 17, any
          register, counters, history) is: within 27 + 70 + 27 = 124 error-free bits the validator is freshly and truly locked
          ([fresh_lock]: synced, register = generator's, sync_count 0, history zeroed, hist_count = hist_pos = 0), and it has
          counted either no error or exactly 25 spurious ones (the false lock free-runs on a wrong register, the mismatch is
          itself a phase of the m-sequence, fills the window with 25 errors within 70 bits and unlocks). *)
Theorem c18_true_lock_from_any_state : forall v g,
  synced v = false -> state v < 512 -> sync_count v <= 17 -> counters_wf v -> g < 512 ->
  exists n, (1 <= n <= 124)%nat /\
    let u := run v (gen_bits g n) in
    fresh_lock u (gen_state g n) /\ (err_count u = err_count v \/ err_count u = w_errs (err_count v + 25)).
Proof. exact true_lock_any_state. Qed.
Print Assumptions c18_true_lock_from_any_state.

(** GF(2)-linearity of the whole validator: fed phase g with error pattern es it behaves as the validator whose register
    is xor-ed with g, fed es itself (the all-zero reference); only the register differs, by the generator's register *)
Theorem c18_validator_linear : forall es v g, state v < 512 -> g < 512 ->
  run v (xor_bits (gen_bits g (length es)) es) =
  (let w := run (set_state v (N.lxor (state v) g)) es in set_state w (N.lxor (state w) (gen_state g (length es)))).
Proof. exact run_linear. Qed.
Print Assumptions c18_validator_linear.

(** 7. counts_exact, from any locked consistent state (so also in mid-stream), for received = sequence xor es, es of ANY
       length whose error density never reaches 25 in the 128-bit window: the state stays consistent (synced, register =
       generator's, hist_count = popcount(window) - hence the size_t decrement never wraps), the window is the last 128
       error flags, err_count and bit_count advance by the number of errors / of bits (uint32 arithmetic). *)
Theorem c18_counts_exact : forall es v g, consistent v g -> counters_wf v -> sparse_from (window_of v) es ->
  let v' := run v (xor_bits (gen_bits g (length es)) es) in
  consistent v' (gen_state g (length es)) /\
  window_of v' = lastn 128 (window_of v ++ es) /\
  err_count v' = w_errs (err_count v + N.of_nat (count_true es)) /\
  bit_count v' = w_bits (bit_count v + N.of_nat (length es)) /\
  sync_count v' = sync_count v.
Proof. exact counts_run. Qed.
Print Assumptions c18_counts_exact.

(** 7'. acquisition and counting together: from any unsynced state (sync_count <= 9) there is a lock time t <= 27, and for
        every error pattern es after lock that is sparse:  errors = err0 + |{i : r_i <> s_i}|, bits = bits0 + 18 + n,
        hist_count = errors among the last <= 128 bits, synced. *)
Theorem c18_lock_then_count : forall v g, synced v = false -> state v < 512 -> sync_count v <= 9 -> counters_wf v -> g < 512 ->
  exists t, (1 <= t <= 27)%nat /\
    (forall m, (m < t)%nat -> synced (run v (gen_bits g m)) = false) /\
    forall es, sparse es ->
      let n := length es in
      let v' := run v (xor_bits (gen_bits g (t + n)) (repeat false t ++ es)) in
      synced v' = true /\ state v' = gen_state g (t + n) /\
      err_count v' = w_errs (err_count v + N.of_nat (count_true es)) /\
      bit_count v' = w_bits (bit_count v + 18 + N.of_nat n) /\
      hist_count v' = N.of_nat (count_true (lastn 128 es)) /\ sync_count v' = 0.
Proof. exact lock_then_count. Qed.
Print Assumptions c18_lock_then_count.

(** 8. unlock_at_25 (tightness): the error that makes the window hold 25 errors clears synced; it is still counted *)
Theorem c18_unlock_at_25 : forall v g es, consistent v g -> counters_wf v -> sparse_from (window_of v) es ->
  (25 <= count_true (lastn 128 (window_of v ++ es ++ [true])))%nat ->
  let v' := run v (xor_bits (gen_bits g (length (es ++ [true]))) (es ++ [true])) in
  synced v' = false /\
  err_count v' = w_errs (err_count v + N.of_nat (count_true es) + 1) /\
  bit_count v' = w_bits (bit_count v + N.of_nat (length es) + 1) /\
  sync_count v' = 0 + sync_count v /\ state v' = gen_state g (length es + 1).
Proof. exact unlock_run. Qed.
Print Assumptions c18_unlock_at_25.

(** 9. bert_slices_relock: m17-mod puts consecutive 197-bit slices of the generator sequence into BERT frames and
       m17-demod feeds the 197 decoded bits of each frame to validate().  Feeding k >= 1 consecutive slices, starting
       at any phase, to any unsynced validator (sync_count <= 9): lock within 27 bits of the first slice, zero errors.
       (That the frame decoder returns the slice unchanged on a clean channel is C01's round-trip theorem; the
       combination is stated by the coordinator's frame-decoder model.) *)
Theorem c18_bert_slices_relock : forall v g k, synced v = false -> state v < 512 -> sync_count v <= 9 -> counters_wf v -> g < 512 ->
  (1 <= k)%nat ->
  exists t, (1 <= t <= 27)%nat /\
    (forall m, (m < t)%nat -> synced (run v (firstn m (bert_slices g 197 k))) = false) /\
    let v' := run v (bert_slices g 197 k) in
    synced v' = true /\ state v' = gen_state g (197 * k) /\ err_count v' = err_count v /\
    bit_count v' = w_bits (bit_count v + 18 + N.of_nat (197 * k - t)).
Proof. exact bert_slices_relock_lemma. Qed.
Print Assumptions c18_bert_slices_relock.

(** reset(): every member is assigned (read from the source), so a reset validator is exactly a new one with a zeroed window,
    whatever it held before - in particular a partial lock run (sync_count) does not survive - and it satisfies the hypotheses of
    c18_lock_within_27 / c18_lock_then_count / c18_bert_slices_relock. *)
Theorem c18_reset_is_fresh : forall v : prbs,
  prbs_reset v = mkPRBS 1 false 0 0 0 (repeat 0 16) 0 0 /\
  synced (prbs_reset v) = false /\ state (prbs_reset v) < 512 /\ sync_count (prbs_reset v) <= 9 /\
  bit_count (prbs_reset v) < 2 ^ 32 /\ err_count (prbs_reset v) < 2 ^ 32.
Proof. exact reset_is_fresh. Qed.
Print Assumptions c18_reset_is_fresh.

(** 10. every state reachable through the API (construction with any history content, reset(), generate(), validate() of
        any bit) has a 9-bit register, sync_count <= 17, hist_pos < 128 and 16 history bytes: so the hypotheses of 6'', 6'''
        cover every reachable unsynced state, and every history[hist_pos >> 3] access is inside the array *)
Theorem c18_reachable_invariant :
  (forall h, length h = 16%nat -> reach_inv (prbs_new h)) /\
  (forall v, reach_inv (prbs_reset v)) /\
  (forall v, reach_inv v -> reach_inv (fst (prbs_generate v))) /\
  (forall v b, reach_inv v -> reach_inv (fst (prbs_validate v b))) /\
  (forall v, reach_inv v -> (N.to_nat (N.shiftr (hist_pos v) 3) < length (history v))%nat).
Proof. split; [exact reach_inv_new|]. split; [exact reach_inv_reset|]. split; [exact reach_inv_generate|].
  split; [exact reach_inv_validate|exact reach_inv_index]. Qed.
Print Assumptions c18_reachable_invariant.

Theorem c18_bert_frame_bits : ConstsPrbs.bert_bits_mod = 197%nat /\ ConstsPrbs.bert_bits_demod = 197%nat /\ bert_frame_bits = 197%nat.
Proof. repeat split. Qed.
Print Assumptions c18_bert_frame_bits.

(** instances: the repository's own test (1000 bits, errors at 499 and 510: locked, 1000 bits, 2 errors);
    a sparse pattern with 24 errors in a row (hypothesis of 7 satisfiable at the threshold) and the 25th unlocking *)
Definition flip_at (l : list bool) (i : nat) : list bool := firstn i l ++ negb (nth i l false) :: skipn (S i) l.
(** 11. the last clause of the property: BERT frames built from the generator (any phase g; frame j carries the j-th 197-bit
        slice; any soft magnitudes 1..7), passed through the frame decoder (any decoder state, any buffer contents; uses
        C01's round trip), with the decoded 25 bytes fed to the validator the way m17-demod's decode_bert does (24 bytes
        MSB first, then the top five bits of the last byte), re-lock the validator within 27 bits with zero errors. *)
Theorem c18_bert_frames_relock : forall (g : N) (ms : list (list Z)) (s : fd_state) (v : prbs),
  fd_hid_ok s -> Forall mags_ok ms -> (1 <= length ms)%nat ->
  synced v = false -> state v < 512 -> sync_count v <= 9 -> counters_wf v -> g < 512 ->
  let fed := flat_map bert_fed_bits (bert_chain s (bert_frames g ms 0)) in
  let v' := ImplPRBS.run v fed in
  synced v' = true /\ err_count v' = err_count v /\ state v' = gen_state g (197 * length ms) /\
  exists t, (1 <= t <= 27)%nat /\ (forall n, (n < t)%nat -> synced (ImplPRBS.run v (firstn n fed)) = false).
Proof. exact bert_frames_relock. Qed.
Print Assumptions c18_bert_frames_relock.

Example c18_ex_repo_test :
  let v := run (prbs_new zero_history) (flip_at (flip_at (gen_bits 1 1000) 499) 510) in
  synced v = true /\ bit_count v = 1000 /\ err_count v = 2.
Proof. vm_compute. repeat split. Qed.
Example c18_ex_24_errors :
  let v := run (prbs_new zero_history) (gen_bits 1 18 ++ map negb (gen_bits (gen_state 1 18) 24)) in
  synced v = true /\ err_count v = 24 /\ hist_count v = 24 /\ bit_count v = 42.
Proof. vm_compute. repeat split. Qed.
Example c18_ex_25_errors :
  let v := run (prbs_new zero_history) (gen_bits 1 18 ++ map negb (gen_bits (gen_state 1 18) 25)) in
  synced v = false /\ err_count v = 25 /\ hist_count v = 25.
Proof. vm_compute. repeat split. Qed.
(* the false lock of 6': synced after one bit on a wrong register, 25 spurious errors, unlocked at bit 54, truly locked
   after 81 bits *)
Example c18_ex_false_lock_recovers :
  let f n := run false_lock_state (gen_bits 1 n) in
  synced (f 1%nat) = true /\ synced (f 53%nat) = true /\ synced (f 54%nat) = false /\ err_count (f 54%nat) = 25 /\
  synced (f 80%nat) = false /\ synced (f 81%nat) = true /\ state (f 81%nat) = gen_state 1 81 /\ err_count (f 81%nat) = 25 /\
  hist_count (f 81%nat) = 0.
Proof. vm_compute. repeat split. Qed.
(* from an INconsistent state (a history flag set while hist_count = 0 - not reachable through the API) the size_t
   decrement does wrap *)
Example c18_ex_wrap_from_inconsistent :
  hist_count (fst (prbs_validate (mkPRBS 1 true 0 0 0 (1 :: repeat 0 15) 0 0) (taps 1))) = 2 ^ 64 - 1.
Proof. vm_compute. reflexivity. Qed.
