(** Proofs about the randomizer models. *)
From Coq Require Import NArith ZArith List Bool Lia.
From Coq Require Import ZifyBool ZifyNat ZifyN.
From M17 Require Import Bits ImplUtilBits LemmasUtilBits ConstsRandomizer ImplRandom SpecRandom.
Import ListNotations.
Ltac Zify.zify_post_hook ::= Z.div_mod_to_equations.

(** * list plumbing *)
Lemma combine_map {A B C D} (g : A -> C) (h : B -> D) : forall a b,
  combine (map g a) (map h b) = map (fun p => (g (fst p), h (snd p))) (combine a b).
Proof. induction a as [|x a IH]; intros [|y b]; cbn [map combine]; try reflexivity. rewrite IH. reflexivity. Qed.

Lemma zip_with_length {A B C} (f : A -> B -> C) a b : length a = length b -> length (zip_with f a b) = length a.
Proof. intros H. unfold zip_with. rewrite map_length, combine_length. lia. Qed.

Lemma zip_with_map_r {A B C D} (f : A -> B -> C) (h : D -> B) a b :
  zip_with f a (map h b) = zip_with (fun x y => f x (h y)) a b.
Proof. unfold zip_with. rewrite <- (map_id a) at 1. rewrite combine_map, map_map. reflexivity. Qed.

Lemma zip_with_map_l {A B C D} (f : A -> B -> C) (g : D -> A) a b :
  zip_with f (map g a) b = zip_with (fun x y => f (g x) y) a b.
Proof. unfold zip_with. rewrite <- (map_id b) at 1. rewrite combine_map, map_map. reflexivity. Qed.

Lemma map_zip_with {A B C D} (f : A -> B -> C) (k : C -> D) a b :
  map k (zip_with f a b) = zip_with (fun x y => k (f x y)) a b.
Proof. unfold zip_with. rewrite map_map. reflexivity. Qed.

Lemma zip_with_ext {A B C} (f g : A -> B -> C) (P : A -> Prop) (Q : B -> Prop) : forall a b,
  Forall P a -> Forall Q b -> (forall x y, P x -> Q y -> f x y = g x y) -> zip_with f a b = zip_with g a b.
Proof. intros a b Ha Hb H. unfold zip_with. revert b Hb. induction Ha as [|x a Px Ha IH]; intros [|y b] Hb; try reflexivity.
  inversion Hb; subst. cbn [combine map fst snd]. rewrite H by assumption. f_equal. apply IH. assumption. Qed.

(** applying twice a step that undoes itself, against the same second array *)
Lemma zip_with_twice {A B} (f : A -> B -> A) (P : A -> Prop) (Q : B -> Prop) : forall a b,
  length a <= length b -> Forall P a -> Forall Q b -> (forall x y, P x -> Q y -> f (f x y) y = x) ->
  zip_with f (zip_with f a b) b = a.
Proof. intros a b Hl Ha Hb H. unfold zip_with. revert b Hl Hb. induction Ha as [|x a Px Ha IH]; intros [|y b] Hl Hb; try reflexivity;
  cbn [length] in Hl; try lia. inversion Hb; subst. cbn [combine map fst snd]. rewrite H by assumption. f_equal. apply IH; [lia|assumption]. Qed.

Lemma Forall_True {A} (l : list A) : Forall (fun _ => True) l.
Proof. induction l; constructor; auto. Qed.

(** * the constant *)
Lemma DC_is_spec : DC = dc_spec.
Proof. reflexivity. Qed.

Lemma rnd_sites_lemma : Forall (fun n => n = 368%N) rnd_soft_sites /\ Forall (fun n => n = 46%N) rnd_byte_sites.
Proof. split; repeat constructor. Qed.

(** the constructor's table is the specification's bit sequence with 1 -> -1, 0 -> +1 *)
Lemma dc_soft_is_spec : dc_soft = map (fun b : bool => if b then (-1)%Z else 1%Z) dc_bits.
Proof. vm_compute. reflexivity. Qed.

Lemma dc_soft_length : length dc_soft = 368.
Proof. reflexivity. Qed.

Lemma dc_bits_length : length dc_bits = 368.
Proof. reflexivity. Qed.

Lemma dc_soft_pm1 : Forall (fun d => d = 1%Z \/ d = (-1)%Z) dc_soft.
Proof. rewrite dc_soft_is_spec. apply Forall_forall. intros d Hd. apply in_map_iff in Hd. destruct Hd as [[|] [<- _]]; auto. Qed.

(** * soft variant *)
Lemma wrap8_id x : int8 x -> wrap8 x = x.
Proof. unfold int8, wrap8. lia. Qed.

Lemma wrap8_int8 x : int8 (wrap8 x).
Proof. unfold int8, wrap8. lia. Qed.

Lemma soft_step_twice x d : int8 x -> (d = 1 \/ d = -1)%Z -> wrap8 (wrap8 (x * d) * d) = x.
Proof. unfold int8, wrap8. intros Hx [-> | ->]; lia. Qed.

Lemma soft_rand_involutive_lemma s : length s = 368 -> Forall int8 s -> derandomize_soft (derandomize_soft s) = s.
Proof. intros Hl Hs. unfold derandomize_soft.
  apply (zip_with_twice (fun x d => wrap8 (x * d)) int8 (fun d => d = 1 \/ d = -1)%Z); [rewrite dc_soft_length; lia | exact Hs | exact dc_soft_pm1 |].
  intros x y Hx Hy. apply soft_step_twice; assumption. Qed.

Lemma soft_rand_is_spec_lemma s : Forall int8 s ->
  derandomize_soft s = map wrap8 (rand_soft_spec s).
Proof. intros Hs. unfold derandomize_soft, rand_soft_spec. rewrite dc_soft_is_spec, zip_with_map_r. unfold zip_with. rewrite map_map.
  apply map_ext. intros [x [|]]; cbn [fst snd]; f_equal; lia. Qed.

Lemma soft_rand_length s : length s = 368 -> length (derandomize_soft s) = 368.
Proof. intros H. unfold derandomize_soft. rewrite zip_with_length; [exact H | rewrite dc_soft_length; exact H]. Qed.

Lemma soft_rand_int8 s : Forall int8 (derandomize_soft s).
Proof. unfold derandomize_soft, zip_with. apply Forall_forall. intros y Hy. apply in_map_iff in Hy. destruct Hy as [p [<- _]]. apply wrap8_int8. Qed.

Lemma soft_rand_m128_lemma : derandomize_soft [(-128)%Z] = [(-128)%Z] /\ nth 0 dc_soft 0%Z = (-1)%Z.
Proof. split; reflexivity. Qed.

Lemma soft_rand_m128_frame : derandomize_soft (repeat (-128)%Z 368) = repeat (-128)%Z 368.
Proof. vm_compute. reflexivity. Qed.

(** * bit variant *)
Lemma bit_rand_is_spec_lemma l : randomize_bits l = zip_with (fun x (b : bool) => N.lxor x (b2n b)) l dc_bits.
Proof. unfold randomize_bits. rewrite dc_soft_is_spec, zip_with_map_r. unfold zip_with. apply map_ext. intros [x [|]]; reflexivity. Qed.

Lemma bit_rand_involutive_lemma l : length l = 368 -> randomize_bits (randomize_bits l) = l.
Proof. intros Hl. unfold randomize_bits.
  apply (zip_with_twice (fun x d => N.lxor x (if Z.eqb d (-1) then 1%N else 0%N)) (fun _ => True) (fun _ => True));
    [rewrite dc_soft_length; lia | apply Forall_True | apply Forall_True |].
  intros x y _ _. rewrite N.lxor_assoc, N.lxor_nilpotent, N.lxor_0_r. reflexivity. Qed.

Lemma bit_rand_length l : length l = 368 -> length (randomize_bits l) = 368.
Proof. intros H. unfold randomize_bits. rewrite zip_with_length; [exact H | rewrite dc_soft_length; exact H]. Qed.

(** xor with 0/1 keeps an int8_t inside int8_t (all 256 values) *)
Definition lxor1_check (n : N) : bool :=
  let x := (Z.of_N n - 128)%Z in ((-128 <=? Z.lxor x 1) && (Z.lxor x 1 <=? 127))%Z.
Lemma lxor1_sweep : below 8 lxor1_check = true.
Proof. vm_cast_no_check (eq_refl true). Qed.

Lemma lxor_bit_int8 x (c : bool) : int8 x -> int8 (Z.lxor x (if c then 1 else 0)).
Proof. intros Hx. destruct c; [|rewrite Z.lxor_0_r; exact Hx]. unfold int8 in *.
  pose proof (below_spec 8 _ lxor1_sweep (Z.to_N (x + 128)) ltac:(cbn; lia)) as H. unfold lxor1_check in H.
  rewrite Z2N.id in H by lia. replace (x + 128 - 128)%Z with x in H by lia. lia. Qed.

Lemma of_N_lxor a b : Z.of_N (N.lxor a b) = Z.lxor (Z.of_N a) (Z.of_N b).
Proof. destruct a, b; reflexivity. Qed.

(** the N-valued view is the int8_t statement on non-negative values *)
Lemma bit_rand_int8_agrees l : Forall (fun x => (x < 128)%N) l ->
  randomize_int8 (map Z.of_N l) = map Z.of_N (randomize_bits l).
Proof. intros H. unfold randomize_int8, randomize_bits. rewrite zip_with_map_l, map_zip_with.
  apply (zip_with_ext _ _ (fun x => (x < 128)%N) (fun _ => True)); [exact H | apply Forall_True |].
  intros x d Hx _. rewrite of_N_lxor.
  replace (Z.of_N (if (d =? -1)%Z then 1%N else 0%N)) with (if (d =? -1)%Z then 1%Z else 0%Z) by (destruct (d =? -1)%Z; reflexivity).
  apply wrap8_id. apply lxor_bit_int8. unfold int8. lia. Qed.

Lemma int8_rand_involutive_lemma s : length s = 368 -> Forall int8 s -> randomize_int8 (randomize_int8 s) = s.
Proof. intros Hl Hs. unfold randomize_int8.
  apply (zip_with_twice (fun x d => wrap8 (Z.lxor x (if Z.eqb d (-1) then 1 else 0))) int8 (fun _ => True))%Z;
    [rewrite dc_soft_length; lia | exact Hs | apply Forall_True |].
  intros x d Hx _. rewrite (wrap8_id _ (lxor_bit_int8 x _ Hx)).
  rewrite Z.lxor_assoc, Z.lxor_nilpotent, Z.lxor_0_r. apply wrap8_id. exact Hx. Qed.

(** * byte variant: the mask loop is a plain xor (all 2^16 pairs of bytes) *)
Definition byte_rand_check (v : N) : bool := N.eqb (byte_rand (N.shiftr v 8) (N.land v 255)) (N.lxor (N.land v 255) (N.shiftr v 8)).

Lemma byte_rand_sweep : below 16 byte_rand_check = true.
Proof. vm_cast_no_check (eq_refl true). Qed.

Opaque byte_rand.

Lemma byte_rand_is_xor x dc : (x < 256)%N -> (dc < 256)%N -> byte_rand dc x = N.lxor x dc.
Proof. intros Hx Hd. pose proof (below_spec 16 _ byte_rand_sweep (dc * 256 + x)%N ltac:(cbn; lia)) as H.
  unfold byte_rand_check in H. apply N.eqb_eq in H.
  assert (E1 : N.shiftr (dc * 256 + x) 8 = dc).
  { rewrite N.shiftr_div_pow2. change (2 ^ 8)%N with 256%N. rewrite N.div_add_l by discriminate. rewrite N.div_small by exact Hx. lia. }
  assert (E2 : N.land (dc * 256 + x) 255 = x).
  { change 255%N with (N.ones 8). rewrite N.land_ones. change (2 ^ 8)%N with 256%N.
    rewrite N.add_comm, N.mod_add by discriminate. apply N.mod_small. exact Hx. }
  rewrite E1, E2 in H. exact H. Qed.

Lemma DC_bytes : all_bytes DC.
Proof. unfold all_bytes, is_byte. apply Forall_forall. intros x Hx.
  assert (H : forallb (fun x => N.ltb x 256) DC = true) by reflexivity.
  rewrite forallb_forall in H. apply N.ltb_lt. apply H. exact Hx. Qed.

Lemma byte_rand_is_spec_lemma frame : all_bytes frame -> randomize_bytes frame = rand_bytes_spec frame.
Proof. intros H. unfold randomize_bytes, rand_bytes_spec, xor_bytes. rewrite <- DC_is_spec.
  apply (zip_with_ext _ (fun x y => N.lxor x y) is_byte is_byte); [exact H | exact DC_bytes |].
  intros x y Hx Hy. apply byte_rand_is_xor; assumption. Qed.

Lemma xor_bytes_all_bytes : forall a b, all_bytes a -> all_bytes b -> all_bytes (xor_bytes a b).
Proof. unfold all_bytes, xor_bytes. intros a b Ha. revert b. induction Ha as [|x a Hx Ha IH]; intros [|y b] Hb; cbn [combine map]; try constructor.
- inversion Hb; subst. cbn [fst snd]. unfold is_byte in *. change 256%N with (2 ^ 8)%N. apply lxor_lt_pow2; assumption.
- inversion Hb; subst. apply IH. assumption. Qed.

Lemma byte_rand_involutive_lemma frame : length frame = 46 -> all_bytes frame -> randomize_bytes (randomize_bytes frame) = frame.
Proof. intros Hl Hb. rewrite (byte_rand_is_spec_lemma frame Hb).
  rewrite byte_rand_is_spec_lemma by (apply xor_bytes_all_bytes; [exact Hb | rewrite <- DC_is_spec; exact DC_bytes]).
  unfold rand_bytes_spec, xor_bytes. fold (zip_with N.lxor frame dc_spec). fold (zip_with N.lxor (zip_with N.lxor frame dc_spec) dc_spec).
  apply (zip_with_twice N.lxor (fun _ => True) (fun _ => True)); [rewrite Hl; cbn; lia | apply Forall_True | apply Forall_True |].
  intros x y _ _. rewrite N.lxor_assoc, N.lxor_nilpotent, N.lxor_0_r. reflexivity. Qed.

Lemma byte_rand_length frame : length frame = 46 -> length (randomize_bytes frame) = 46.
Proof. intros H. unfold randomize_bytes. rewrite zip_with_length; [exact H | rewrite H; reflexivity]. Qed.

(** * the variants agree *)
Lemma variants_agree_soft_bits_lemma s :
  Forall (fun x => (-127 <= x <= 127)%Z /\ x <> 0%Z) s ->
  map hardN (derandomize_soft s) = randomize_bits (map hardN s).
Proof. intros H. unfold derandomize_soft, randomize_bits. rewrite map_zip_with, zip_with_map_l.
  apply (zip_with_ext _ _ (fun x => (-127 <= x <= 127)%Z /\ x <> 0%Z) (fun d => d = 1 \/ d = -1)%Z); [exact H | exact dc_soft_pm1 |].
  intros x d [Hx Hx0] [-> | ->]; unfold hardN, hard, wrap8; cbn [Z.eqb]; [rewrite N.lxor_0_r; f_equal; lia|].
  destruct (0 <? x)%Z eqn:E1; destruct (0 <? (x * -1 + 128) mod 256 - 128)%Z eqn:E2; cbn [b2n N.lxor]; try reflexivity; lia. Qed.

Lemma variants_agree_bytes_bits_lemma b : length b = 46 -> all_bytes b ->
  map b2n (bytes_bits (randomize_bytes b)) = randomize_bits (map b2n (bytes_bits b)).
Proof. intros Hl Hb. rewrite (byte_rand_is_spec_lemma b Hb). unfold rand_bytes_spec.
  rewrite bytes_bits_xor by (rewrite Hl; reflexivity). rewrite bit_rand_is_spec_lemma, zip_with_map_l.
  unfold xor_bits, dc_bits, zip_with. rewrite map_map. apply map_ext. intros [[|] [|]]; reflexivity. Qed.

Lemma bits_rand_is_spec_bool l : randomize_bits (map b2n l) = map b2n (rand_bits_spec l).
Proof. rewrite bit_rand_is_spec_lemma, zip_with_map_l. unfold rand_bits_spec, xor_bits, zip_with. rewrite map_map.
  apply map_ext. intros [[|] [|]]; reflexivity. Qed.
