(** C12 — bridge between the rational specification (SpecLLR: nearest level, 1e-6 guard on exact values)
    and the scaled-integer form used by the table checks (LemmasLLR_B.SignZ). *)
From Coq Require Import ZArith QArith Qabs Lia Lqa List Bool Floats.SpecFloat.
From M17 Require Import ImplLLR SpecLLR LemmasLLR_A LemmasLLR_B.
Import ListNotations.
Open Scope Q_scope.

(** * nearest level on the four decision regions *)
Ltac qle_cases :=
  repeat match goal with
  | |- context [Qle_bool ?a ?b] =>
    let E := fresh "E" in destruct (Qle_bool a b) eqn:E;
    [ apply Qle_bool_iff in E
    | assert (~ a <= b)%Q by (let H := fresh in intro H; apply Qle_bool_iff in H; congruence); clear E ]
  end.

Ltac qabs_cases :=
  repeat match goal with
  | H : context [Qabs ?x] |- _ => revert H; apply (Qabs_case x); intros
  end.

Lemma nearest_dibit_regions : forall q : Q,
  (q < -2 -> nearest_dibit q = (true, true)) /\
  (-2 < q -> q < 0 -> nearest_dibit q = (true, false)) /\
  (0 < q -> q < 2 -> nearest_dibit q = (false, false)) /\
  (2 < q -> nearest_dibit q = (false, true)).
Proof.
  intro q. unfold nearest_dibit, nearest_level, gray_levels, nearest_from, dist, inject_Z. cbn [fst snd].
  split; [|split; [|split]]; intros; qle_cases; cbn [fst snd]; try reflexivity; exfalso; qabs_cases; lra.
Qed.

(** * exact value = ord / 2^-emin *)
Section ValueBridge.
  Variables prec emax : Z.
  Hypothesis Hprec : (0 < prec)%Z.
  Hypothesis Hemax : (prec < emax)%Z.
  Let emin := SpecFloat.emin prec emax.
  (** S = 2^(-emin) as a positive number *)
  Variable Sp : positive.
  Hypothesis HSp : Zpos Sp = (2 ^ (- emin))%Z.

  Lemma emin_neg : (emin <= 0)%Z.
  Proof. unfold emin, SpecFloat.emin. lia. Qed.

  Lemma SF2Q_ord : forall x, valid_binary prec emax x = true -> sf_finite x = true ->
    SF2Q x == ord prec emax x # Sp.
  Proof.
    intros x V F. pose proof emin_neg as En.
    destruct x as [s|s| |s m e]; try discriminate; cbn [SF2Q ord].
    - reflexivity.
    - cbn [valid_binary] in V. destruct (bounded_facts prec emax m e V) as (A1 & _). fold emin in A1.
      fold emin. set (zm := cond_Zopp s (Zpos m)).
      assert (Ez : cond_Zopp s (Zpos m * 2 ^ (e - emin)) = (zm * 2 ^ (e - emin))%Z) by (unfold zm; destruct s; cbn [cond_Zopp]; lia).
      rewrite Ez. clear Ez.
      destruct e as [|p|p].
      + unfold Qeq, inject_Z. cbn [Qnum Qden]. rewrite HSp. replace (0 - emin)%Z with (- emin)%Z by lia. lia.
      + unfold Qeq, inject_Z. cbn [Qnum Qden]. rewrite HSp.
        replace (Zpos p - emin)%Z with (Zpos p + - emin)%Z by lia. rewrite Z.pow_add_r by lia. lia.
      + unfold Qeq. cbn [Qnum Qden]. rewrite HSp. rewrite Pos2Z.inj_pow.
        assert (2 ^ (- emin) = 2 ^ (Zneg p - emin) * 2 ^ Zpos p)%Z.
        { rewrite <- Z.pow_add_r by lia. f_equal. lia. }
        rewrite H. change (Zpos 2) with 2%Z. ring.
  Qed.

  Lemma far_bridge : forall (q : Q) (z b : Z), q == z # Sp ->
    (eps < Qabs (q - inject_Z b) <-> zfar (Zpos Sp) b z).
  Proof.
    intros q z b E. rewrite E. unfold zfar, EPSDEN, eps, Qlt, Qabs, Qminus, Qplus, Qopp, inject_Z. cbn [Qnum Qden].
    rewrite Pos.mul_1_r. replace (z * 1 + - b * Zpos Sp)%Z with (z - b * Zpos Sp)%Z by ring. lia.
  Qed.

  Lemma guard_bridge : forall (q : Q) (z : Z), q == z # Sp -> far_from_boundaries q -> zguard (Zpos Sp) z.
  Proof.
    intros q z E G. unfold zguard.
    repeat split; apply (far_bridge q z _ E); apply G; unfold boundaries; cbn [In]; auto.
  Qed.

  Lemma region_bridge : forall (q : Q) (z : Z), q == z # Sp -> zguard (Zpos Sp) z ->
    nearest_dibit q = zregion (Zpos Sp) z.
  Proof.
    intros q z E (G0 & G2 & Gm2). unfold zfar, EPSDEN in *.
    destruct (nearest_dibit_regions q) as (R1 & R2 & R3 & R4).
    assert (L : forall c : Z, (z < c * Zpos Sp)%Z -> q < inject_Z c).
    { intros c H. rewrite E. unfold Qlt, inject_Z. cbn [Qnum Qden]. lia. }
    assert (U : forall c : Z, (c * Zpos Sp < z)%Z -> inject_Z c < q).
    { intros c H. rewrite E. unfold Qlt, inject_Z. cbn [Qnum Qden]. lia. }
    unfold zregion.
    destruct (Z.ltb_spec z (-2 * Zpos Sp)).
    - apply R1. apply (L (-2)%Z). lia.
    - destruct (Z.ltb_spec z 0).
      + apply R2; [apply (U (-2)%Z) | apply (L 0%Z)]; lia.
      + destruct (Z.ltb_spec z (2 * Zpos Sp)).
        * apply R3; [apply (U 0%Z) | apply (L 2%Z)]; lia.
        * apply R4. apply (U 2%Z). lia.
  Qed.
End ValueBridge.

Lemma far_b_iff : forall q, far_from_boundariesb q = true <-> far_from_boundaries q.
Proof.
  intro q. unfold far_from_boundariesb, far_from_boundaries. rewrite forallb_forall.
  split; intros H b Hb; specialize (H b Hb).
  - apply negb_true_iff in H. apply Qnot_le_lt. intro K. apply Qle_bool_iff in K. congruence.
  - apply negb_true_iff. destruct (Qle_bool (Qabs (q - inject_Z b)) eps) eqn:K; [|reflexivity].
    apply Qle_bool_iff in K. exfalso. apply (Qlt_not_le _ _ H K).
Qed.

Lemma soft_dibit_unfold : forall v : Z * Z, soft_dibit v = ((0 <? fst v)%Z, (0 <? snd v)%Z).
Proof. reflexivity. Qed.
