(** Facts about [set_nth] and about the bit helpers of Util.h: on the MSB-first bit view
    [bytes_bits] of a byte array, get_bit_index reads position [index] and assign_bit_index
    writes position [index] and nothing else. *)
From Coq Require Import NArith List Arith Bool Lia.
From M17 Require Import Bits ImplUtilBits.
Import ListNotations.

(** * set_nth *)
Lemma set_nth_length {A} (x : A) : forall l n, length (set_nth n x l) = length l.
Proof. induction l as [|h t IH]; intros [|n]; cbn [set_nth length]; try reflexivity. rewrite IH. reflexivity. Qed.

Lemma nth_set_nth_eq {A} (x d : A) : forall l n, n < length l -> nth n (set_nth n x l) d = x.
Proof. induction l as [|h t IH]; intros [|n] H; cbn [length] in H; try lia; cbn [set_nth nth]; [reflexivity|]. apply IH. lia. Qed.

Lemma nth_set_nth_neq {A} (x d : A) : forall l n m, m <> n -> nth m (set_nth n x l) d = nth m l d.
Proof. induction l as [|h t IH]; intros [|n] [|m] H; cbn [set_nth nth]; try reflexivity; try lia. apply IH. lia. Qed.

Lemma set_nth_oob {A} (x : A) : forall l n, length l <= n -> set_nth n x l = l.
Proof. induction l as [|h t IH]; intros [|n] H; cbn [length] in H; cbn [set_nth]; try reflexivity; try lia. rewrite IH by lia. reflexivity. Qed.

Lemma nth_set_nth {A} (x d : A) l n m :
  nth m (set_nth n x l) d = if (m =? n) && (n <? length l) then x else nth m l d.
Proof. destruct (Nat.eqb_spec m n) as [->|Hne]; cbn [andb].
- destruct (Nat.ltb_spec n (length l)) as [Hlt|Hge]; [apply nth_set_nth_eq; exact Hlt | rewrite set_nth_oob by exact Hge; reflexivity].
- apply nth_set_nth_neq. exact Hne. Qed.

Lemma firstn_set_nth_le {A} (x : A) : forall l n k, k <= n -> firstn k (set_nth n x l) = firstn k l.
Proof. induction l as [|h t IH]; intros [|n] [|k] H; cbn [set_nth firstn]; try reflexivity; try lia. rewrite IH by lia. reflexivity. Qed.

Lemma firstn_S_set_nth {A} (x : A) : forall l n, n < length l -> firstn (S n) (set_nth n x l) = firstn n l ++ [x].
Proof. induction l as [|h t IH]; intros [|n] H; cbn [length] in H; try lia.
- reflexivity.
- cbn [set_nth]. rewrite !firstn_cons. rewrite IH by lia. reflexivity. Qed.

Lemma skipn_set_nth_gt {A} (x : A) : forall l n k, n < k -> skipn k (set_nth n x l) = skipn k l.
Proof. induction l as [|h t IH]; intros [|n] [|k] H; cbn [set_nth skipn]; try reflexivity; try lia. apply IH. lia. Qed.

Lemma set_nth_app_l {A} (x : A) : forall l1 l2 n, n < length l1 -> set_nth n x (l1 ++ l2) = set_nth n x l1 ++ l2.
Proof. induction l1 as [|h t IH]; intros l2 [|n] H; cbn [length] in H; try lia; cbn [app set_nth]; [reflexivity|]. rewrite IH by lia. reflexivity. Qed.

Lemma set_nth_app_r {A} (x : A) : forall l1 l2 n, length l1 <= n -> set_nth n x (l1 ++ l2) = l1 ++ set_nth (n - length l1) x l2.
Proof. induction l1 as [|h t IH]; intros l2 n H; cbn [length] in *.
- rewrite Nat.sub_0_r. reflexivity.
- destruct n as [|n]; [lia|]. cbn [app set_nth]. rewrite IH by lia. reflexivity. Qed.

(** * the bit view of a byte array *)
Lemma nth_byte_bits x k : k < 8 -> nth k (byte_bits x) false = N.testbit x (N.of_nat (7 - k)).
Proof. intros H. do 8 (destruct k as [|k]; [reflexivity|]). lia. Qed.

Lemma byte_bits_0 : byte_bits 0 = repeat false 8.
Proof. reflexivity. Qed.

Lemma nth_bytes_bits : forall l i, nth i (bytes_bits l) false = nth (i mod 8) (byte_bits (nth (i / 8) l 0%N)) false.
Proof. induction l as [|x l IH]; intros i.
- cbn [bytes_bits flat_map]. replace (nth (i / 8) [] 0%N) with 0%N by (destruct (i / 8); reflexivity).
  rewrite byte_bits_0, nth_repeat. destruct i; reflexivity.
- unfold bytes_bits in *. cbn [flat_map]. destruct (Nat.ltb_spec i 8) as [Hlt|Hge].
  + rewrite app_nth1 by (rewrite byte_bits_length; exact Hlt).
    rewrite Nat.mod_small, Nat.div_small by exact Hlt. reflexivity.
  + rewrite app_nth2 by (rewrite byte_bits_length; exact Hge). rewrite byte_bits_length, IH.
    replace i with ((i - 8) + 1 * 8) at 3 4 by lia.
    rewrite Nat.mod_add, Nat.div_add by lia. replace (((i - 8) / 8) + 1) with (S ((i - 8) / 8)) by lia. reflexivity.
Qed.

Lemma land_pow2 x b : N.land x (2 ^ b) = if N.testbit x b then (2 ^ b)%N else 0%N.
Proof. apply N.bits_inj. intro n. rewrite N.land_spec, N.pow2_bits_eqb.
  destruct (N.eqb_spec b n) as [->|Hne].
  - destruct (N.testbit x n); [rewrite N.pow2_bits_eqb, N.eqb_refl; reflexivity | rewrite N.bits_0; reflexivity].
  - rewrite andb_false_r. destruct (N.testbit x b); [rewrite N.pow2_bits_eqb | rewrite N.bits_0; reflexivity].
    symmetry. apply N.eqb_neq. exact Hne. Qed.

Lemma get_bit_testbit x b : negb (N.eqb (N.shiftr (N.land x (N.shiftl 1 b)) b) 0) = N.testbit x b.
Proof. rewrite N.shiftl_1_l, land_pow2. destruct (N.testbit x b).
- rewrite N.shiftr_div_pow2, N.div_same by (apply N.pow_nonzero; discriminate). reflexivity.
- rewrite N.shiftr_0_l. reflexivity. Qed.

(** get_bit_index reads bit [index] of the MSB-first bit view (out of range: false, as the zero default) *)
Lemma get_bit_index_spec input index : get_bit_index input index = nth index (bytes_bits input) false.
Proof. unfold get_bit_index, byte_index_of, bit_index_of. rewrite get_bit_testbit, nth_bytes_bits.
  rewrite nth_byte_bits by (apply Nat.mod_upper_bound; lia). reflexivity. Qed.

Lemma testbit_255 j : (j < 8)%N -> N.testbit 255 j = true.
Proof. intros H. change 255%N with (N.ones 8). apply N.ones_spec_low. exact H. Qed.

Lemma byte_bits_set x r : r < 8 ->
  byte_bits (to_u8 (N.lor x (N.shiftl 1 (N.of_nat (7 - r))))) = set_nth r true (byte_bits x).
Proof. intros H. apply nth_ext with (d := false) (d' := false); [rewrite set_nth_length, !byte_bits_length; reflexivity|].
  rewrite byte_bits_length. intros k Hk. rewrite nth_set_nth, byte_bits_length, !nth_byte_bits by exact Hk.
  unfold to_u8. rewrite N.land_spec, N.lor_spec, N.shiftl_1_l, N.pow2_bits_eqb, testbit_255, andb_true_r by lia.
  destruct (Nat.eqb_spec k r) as [->|Hne]; cbn [andb].
  - destruct (Nat.ltb_spec r 8); [|lia]. rewrite N.eqb_refl, orb_true_r. reflexivity.
  - replace (N.eqb _ _) with false; [apply orb_false_r|]. symmetry. apply N.eqb_neq. lia. Qed.

Lemma byte_bits_reset x r : r < 8 ->
  byte_bits (to_u8 (N.ldiff x (N.shiftl 1 (N.of_nat (7 - r))))) = set_nth r false (byte_bits x).
Proof. intros H. apply nth_ext with (d := false) (d' := false); [rewrite set_nth_length, !byte_bits_length; reflexivity|].
  rewrite byte_bits_length. intros k Hk. rewrite nth_set_nth, byte_bits_length, !nth_byte_bits by exact Hk.
  unfold to_u8. rewrite N.land_spec, N.ldiff_spec, N.shiftl_1_l, N.pow2_bits_eqb, testbit_255, andb_true_r by lia.
  destruct (Nat.eqb_spec k r) as [->|Hne]; cbn [andb].
  - destruct (Nat.ltb_spec r 8); [|lia]. rewrite N.eqb_refl. apply andb_false_r.
  - replace (N.eqb _ _) with false; [apply andb_true_r|]. symmetry. apply N.eqb_neq. lia. Qed.

(** replacing byte q by a byte whose bit view is that of the old byte with bit r set to v
    is writing v at bit 8q + r of the bit view *)
Lemma bytes_bits_set_nth y v r : forall buf q, q < length buf -> r < 8 ->
  byte_bits y = set_nth r v (byte_bits (nth q buf 0%N)) ->
  bytes_bits (set_nth q y buf) = set_nth (8 * q + r) v (bytes_bits buf).
Proof. induction buf as [|h t IH]; intros q Hq Hr Hy; cbn [length] in Hq; [lia|].
  unfold bytes_bits in *. destruct q as [|q]; cbn [set_nth flat_map nth] in *.
  - rewrite Hy. rewrite set_nth_app_l by (rewrite byte_bits_length; lia). reflexivity.
  - rewrite set_nth_app_r by (rewrite byte_bits_length; lia). rewrite byte_bits_length.
    replace (8 * S q + r - 8) with (8 * q + r) by lia. rewrite (IH q) by (lia || exact Hy). reflexivity. Qed.

(** assign_bit_index writes bit [index] of the bit view and nothing else *)
Lemma assign_bit_index_spec buf index v : index < 8 * length buf ->
  bytes_bits (assign_bit_index buf index v) = set_nth index v (bytes_bits buf).
Proof. intros H. pose proof (Nat.div_mod index 8 ltac:(lia)) as E. pose proof (Nat.mod_upper_bound index 8 ltac:(lia)) as Hr.
  assert (Hq : index / 8 < length buf) by (apply Nat.div_lt_upper_bound; lia).
  rewrite E at 2. unfold assign_bit_index, set_bit_index, reset_bit_index, byte_index_of, bit_index_of.
  destruct v; apply bytes_bits_set_nth; try assumption; [apply byte_bits_set | apply byte_bits_reset]; exact Hr. Qed.

Lemma assign_bit_index_length buf index v : length (assign_bit_index buf index v) = length buf.
Proof. unfold assign_bit_index, set_bit_index, reset_bit_index. destruct v; apply set_nth_length. Qed.

Lemma app_inj_length {A} : forall (a c b d : list A), length a = length c -> a ++ b = c ++ d -> a = c /\ b = d.
Proof. induction a as [|x a IH]; intros [|y c] b d Hl H; try discriminate; [split; [reflexivity|exact H]|].
  cbn [app] in H. injection H as -> H. cbn in Hl. destruct (IH c b d ltac:(lia) H) as [-> ->]. split; reflexivity. Qed.

(** two byte arrays of bytes (< 256) with the same bit view are equal *)
Lemma byte_bits_inj x y : (x < 256)%N -> (y < 256)%N -> byte_bits x = byte_bits y -> x = y.
Proof. intros Hx Hy H. apply N.bits_inj. intro n. destruct (N.ltb_spec n 8) as [Hn|Hn].
- assert (K : forall z, N.testbit z n = nth (7 - N.to_nat n) (byte_bits z) false).
  { intro z. rewrite nth_byte_bits by lia. f_equal. lia. }
  rewrite !K, H. reflexivity.
- assert (K : forall z, (z < 256)%N -> N.testbit z n = false).
  { intros z Hz. destruct (N.eq_dec z 0) as [->|Hz0]; [apply N.bits_0|]. apply N.bits_above_log2.
    assert (N.log2 z < 8)%N by (apply N.log2_lt_pow2; lia). lia. }
  rewrite !K by assumption. reflexivity. Qed.

Lemma bytes_bits_inj : forall a b, all_bytes a -> all_bytes b -> length a = length b -> bytes_bits a = bytes_bits b -> a = b.
Proof. induction a as [|x a IH]; intros [|y b] Ha Hb Hl H; try discriminate; [reflexivity|].
  inversion Ha; inversion Hb; subst. unfold bytes_bits in H. cbn [flat_map] in H.
  apply app_inj_length in H. 2: rewrite !byte_bits_length; reflexivity.
  destruct H as [E1 E2]. f_equal; [apply byte_bits_inj; assumption | apply IH; try assumption; cbn in Hl; lia]. Qed.
