(** C07 - the receive path performs no out-of-bounds access, no undefined conversion and no abort.
    This file holds only the property theorems (each closed by [exact]) and their Print Assumptions.
    Models: ImplApp.v (m17-demod's frame handlers), ImplAx25.v (ax25_frame), ImplRxIndex.v (framer, LICH, clock);
    every array / vector / string access in them goes through the checked accessors of Checked.v, whose failure
    results are [Oob site] (bounds), [Throw site] (uncaught C++ exception) and [Diverge] (loop fuel).
    "= Ok _" therefore says: none of them.  All literal offsets / sizes / masks come from gen/ConstsApp.v,
    regenerated from the C++ on every run.
    The index obligations of Viterbi (history index < 244), Golay (lookup never end()), depuncture and the
    callsign codec are proved in C02 / C04 / C11 / C17 and are not restated here. *)
From Coq Require Import NArith ZArith QArith Arith Bool String List.
From M17 Require Import ImplGolay LemmasGolay_D LemmasGolay_E ImplCallsign LemmasCallsign.
From M17 Require Import Checked LemmasChecked ConstsApp ImplAx25 LemmasAx25 ImplApp LemmasApp LemmasPacket ImplRxIndex LemmasRxIndex.
Import ListNotations.
Local Open Scope nat_scope.

(** 1. the application's frame handlers: for EVERY history of callbacks whose buffers have the sizes the frame
       decoder's std::arrays have (30-byte LSF, 18-byte stream payload, 26-byte packet segment, 25-byte BERT
       payload; any contents, any cost), from every state satisfying the PRBS-history invariant (in particular
       the initial one), with either setting of the option flags, the run is [Ok].
       codec2_decode is arbitrary except that it stores exactly 160 samples (the external library's contract). *)
Theorem c07_app_handlers_never_oob :
  forall (cstate : Type) (codec2_decode : cstate -> list N -> cstate * list Z),
    (forall c bits, length (snd (codec2_decode c bits)) = da_buf_samples) ->
  forall (o : opts) (cbs : list callback) (st : app cstate),
    Forall wf_callback cbs -> app_inv cstate st ->
    exists st' outs, run_app cstate codec2_decode o st cbs = Ok (st', outs) /\ app_inv cstate st'.
Proof. exact app_handlers_never_oob_lemma. Qed.
Print Assumptions c07_app_handlers_never_oob.

(** the same in the "<> Oob" form, from the initial state *)
Theorem c07_run_app_not_oob :
  forall (cstate : Type) (codec2_decode : cstate -> list N -> cstate * list Z),
    (forall c bits, length (snd (codec2_decode c bits)) = da_buf_samples) ->
  forall (o : opts) (c0 : cstate) (cbs : list callback), Forall wf_callback cbs ->
    (forall site, run_app cstate codec2_decode o (app_init cstate c0) cbs <> Oob site) /\
    (forall site, run_app cstate codec2_decode o (app_init cstate c0) cbs <> Throw site) /\
    run_app cstate codec2_decode o (app_init cstate c0) cbs <> Diverge.
Proof. exact run_app_not_oob_lemma. Qed.
Print Assumptions c07_run_app_not_oob.

(** decode_full_packet is not reachable from handle_frame in the current source; it is safe as well *)
Theorem c07_decode_full_packet_safe :
  forall (cstate : Type) (st : app cstate) (seg : list N), length seg = packet_bytes -> app_inv cstate st ->
    exists st' out, decode_full_packet cstate st seg = Ok (st', out) /\ app_inv cstate st'.
Proof. exact decode_full_packet_ok. Qed.
Print Assumptions c07_decode_full_packet_safe.

(** 2. ax25_frame::parse, for EVERY byte string: no operator[] / substr / erase / iterator range leaves its string,
       nothing throws (so nothing reaches std::terminate: neither decode_packet nor main catches), the repeater loop ends *)
Theorem c07_ax25_parse_safe : forall s : list N, exists f, parse s = Ok f.
Proof. exact parse_never_faults. Qed.
Print Assumptions c07_ax25_parse_safe.

(** 3. growth of current_packet.  Over arbitrary callback histories it is NOT bounded (DESIGN.md expected a bound):
       each last-frame segment appends up to 25 bytes and only an LSF callback clears the vector ... *)
Theorem c07_current_packet_unbounded :
  forall (cstate : Type) (codec2_decode : cstate -> list N -> cstate * list Z) (o : opts) (c0 : cstate) (n : nat),
  exists cbs st' outs, Forall wf_callback cbs /\
    run_app cstate codec2_decode o (app_init cstate c0) cbs = Ok (st', outs) /\ n <= length (a_packet st').
Proof. exact current_packet_unbounded_lemma. Qed.
Print Assumptions c07_current_packet_unbounded.

(** ... and it is bounded by 3 + 25 * 32 + 25 * e, e = number of last-frame (EOF) segments since the last LSF callback
       (3: append_packet packs the 30 LSF *bytes* as if they were bits; 32: the 5-bit counter stops acceptance).
       The real frame decoder returns to its LSF state after an EOF segment, i.e. delivers e <= 1: at most 828 bytes. *)
Theorem c07_current_packet_bounded_per_eof :
  forall (cstate : Type) (codec2_decode : cstate -> list N -> cstate * list Z) (o : opts) (c0 : cstate)
         (cbs : list callback) (st' : app cstate) (outs : list out),
    Forall wf_callback cbs -> run_app cstate codec2_decode o (app_init cstate c0) cbs = Ok (st', outs) ->
    length (a_packet st') <= 3 + 25 * 32 + 25 * fold_left eof_track cbs 0.
Proof. exact current_packet_bounded_lemma. Qed.
Print Assumptions c07_current_packet_bounded_per_eof.

(** 4. decode_lich: the fragment-number guard precedes the copy; a copy that happens has fragment number <= 5 and
       stays inside the 30-byte LSF buffer (uint8_t arithmetic of (lich[5] >> 5) & 7) *)
Theorem c07_lich_slot_le_5 : forall lich lsf : list N, length lich = lich_bytes -> length lsf = lsf_bytes ->
  exists r, lich_copy lich lsf = Ok r /\
    match r with
    | None => True
    | Some l => length l = lsf_bytes /\
                exists x, nth_error lich lich_fn_idx = Some x /\ (fragment_number x <= max_lich_fragment)%N /\
                          N.to_nat (fragment_number x) * lich_copy_stride + lich_copy_len <= lsf_bytes
    end.
Proof. exact lich_copy_ok. Qed.
Print Assumptions c07_lich_slot_le_5.

(** 5. M17Framer<368>::operator() in LLR mode: for EVERY history of symbols the two stores are inside the buffer,
       and index_ stays even and < 368 *)
Theorem c07_framer_index_lt_368 : forall symbols : list (Z * Z),
  exists f' n, framer_run framer_init symbols 0 = Ok (f', n) /\
               length (f_buffer f') = framer_size /\ Nat.even (f_index f') = true /\ f_index f' < framer_size.
Proof. exact framer_index_lemma. Qed.
Print Assumptions c07_framer_index_lt_368.

(** 6. unpack_lich: for EVERY 368-entry frame and EVERY behaviour of Golay24::decode, the reads buffer[i * 24 + j] and the walk of
       [index] over the 6-byte lich buffer (0,1 / 1,2 / 3,4 / 4,5) stay inside; on success index ends at 6 *)
Theorem c07_unpack_lich_indices_ok : forall (golay_decode : N -> option N) (buffer : list Z), length buffer = input_bits ->
  exists r, unpack_lich golay_decode buffer = Ok r /\
    match r with None => True | Some (l, index) => length l = lich_bytes /\ index = lich_bytes end.
Proof. exact unpack_lich_ok. Qed.
Print Assumptions c07_unpack_lich_indices_ok.

(** 7. ClockRecovery: sample_index_ = int8_t(round(e)), +10 if negative, -10 if >= 10.
       HYPOTHESIS (not proved, it is what the floating-point Kalman filter / fmod code is trusted for and what the
       sanitizer runs exercise): the estimate handed over is a finite number in [0, 10].  Then the conversion is
       defined and the index is in 0..9.  (Stated over the rationals; every finite float is one.) *)
Theorem c07_sample_index_in_range : forall e : Q, (0 <= e)%Q -> (e <= 10)%Q ->
  exists s, sample_index_of e = Some s /\ (0 <= s <= 9)%Z.
Proof. exact sample_index_in_range_lemma. Qed.
Print Assumptions c07_sample_index_in_range.

(** the widest interval for which the same conclusion holds, and what happens outside it *)
Theorem c07_sample_index_in_range_wide : forall e : Q, (-(21 # 2) < e)%Q -> (e < 39 # 2)%Q ->
  exists s, sample_index_of e = Some s /\ (0 <= s <= 9)%Z.
Proof. exact sample_index_wide. Qed.
Print Assumptions c07_sample_index_in_range_wide.

Theorem c07_sample_index_needs_the_hypothesis :
  sample_index_of (39 # 2) = Some 10%Z /\ sample_index_of (-(21 # 2)) = Some (-1)%Z /\ sample_index_of (200 # 1) = None.
Proof. exact sample_index_outside. Qed.
Print Assumptions c07_sample_index_needs_the_hypothesis.

(** ClockRecovery::update() (no sync word): csw = fmod(sample_estimate_ + clock_estimate_ * count_, 10), +10 if negative, -10 if >= 10,
    then the same post-processing.  In EXACT arithmetic the index is in 0..9 for every finite argument; the rounding of the float
    sum / fmod is modelled, not verified (a float csw is still in [0, 10], which is the hypothesis of c07_sample_index_in_range). *)
Theorem c07_sample_index_update_exact : forall x : Q, exists s, sample_index_update0 x = Some s /\ (0 <= s <= 9)%Z.
Proof. exact sample_index_update0_range. Qed.
Print Assumptions c07_sample_index_update_exact.

(** non-vacuity: a concrete history (an LSF of a RAW packet transmission, two packet segments, an EOF segment of
    length 0, a stream frame with the EOS bit, a BERT frame) runs to Ok with both flags set *)
Definition ex_codec (c : unit) (bits : list N) : unit * list Z := (tt, repeat 0%Z da_buf_samples).
Definition ex_history : list callback :=
  [CbLSF (repeat 0%N 13 ++ [2%N] ++ repeat 0%N 16) 0%Z;
   CbBasicPacket (repeat 65%N 25 ++ [0%N]) 3%Z; CbBasicPacket (repeat 66%N 25 ++ [4%N]) 3%Z;
   CbFullPacket (repeat 0%N 25 ++ [128%N]) 0%Z;
   CbLSF (repeat 0%N 30) 0%Z; CbBasicPacket (repeat 0%N 25 ++ [128%N]) 0%Z;
   CbStream ([128%N] ++ repeat 7%N 17) 12%Z; CbLICH 0%Z; CbBert (repeat 255%N 25) 0%Z].
(** Index obligations of the receive path that live in other properties' models, re-exported here so that C07's file lists
    every one of them (proved in C04 / C17; the Viterbi history index and the de-puncture loop bounds are part of the
    models of C02 / C11, whose theorems hold for every input of the stated sizes):
    - Golay24::decode: std::lower_bound never returns LUT.end() for a 24-bit word, so `it->a` is inside the table;
    - decode_callsign: for every address the digit loop terminates having written indices 0..9 only (result has 10 chars). *)
Theorem c07_golay_lookup_in_range : forall r : N, (r < 2 ^ 24)%N ->
  (ImplGolay.lower_bound ImplGolay.LUT (ImplGolay.syndrome (N.shiftr r 1)) < length ImplGolay.LUT)%nat /\ ImplGolay.decode r <> ImplGolay.DEnd.
Proof. exact lookup_never_end_lemma. Qed.
Print Assumptions c07_golay_lookup_in_range.

Theorem c07_callsign_decode_in_range : forall a : list N, exists r, ImplCallsign.decode_callsign a = Some r /\ length r = 10%nat.
Proof. exact decode_total_lemma. Qed.
Print Assumptions c07_callsign_decode_in_range.

Example c07_history_wellformed : Forall wf_callback ex_history.
Proof. repeat constructor. Qed.
Example c07_history_runs :
  is_okb (run_app unit ex_codec {| o_display_lsf := true; o_noise_blanker := true |} (app_init unit tt) ex_history) = true.
Proof. vm_compute. reflexivity. Qed.
Example c07_ax25_instance : is_okb (parse (repeat 130%N 40)) = true /\ is_okb (parse [1%N; 2%N]) = true.
Proof. vm_compute. split; reflexivity. Qed.
Example c07_clock_instance : sample_index_of (19 # 2) = Some 0%Z /\ sample_index_of (37 # 8) = Some 5%Z /\ sample_index_of 10 = Some 0%Z.
Proof. vm_compute. repeat split. Qed.
