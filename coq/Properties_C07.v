(** C07 - the receive path performs no out-of-bounds access, no undefined conversion and no abort.
    This file holds only the property theorems (each closed by [exact]) and their Print Assumptions.
    Models: ImplApp.v (m17-demod's frame handlers), ImplAx25.v (ax25_frame), ImplRxIndex.v (framer, LICH, clock),
    ImplCorrelator.v (Correlator, SyncWord, the demodulator's sample-index data flow; constants in gen/ConstsCorrelator.v);
    every array / vector / string access in them goes through the checked accessors of Checked.v, whose failure
    results are [Oob site] (bounds), [Throw site] (uncaught C++ exception) and [Diverge] (loop fuel).
    "= Ok _" therefore says: none of them.  All literal offsets / sizes / masks come from gen/ConstsApp.v,
    regenerated from the C++ on every run.
    The index obligations of Viterbi (history index < 244), Golay (lookup never end()), depuncture and the
    callsign codec are proved in C02 / C04 / C11 / C17 and are not restated here. *)
From Coq Require Import NArith ZArith QArith Arith Bool String List.
From M17 Require Import ImplGolay LemmasGolay_D LemmasGolay_E ImplCallsign LemmasCallsign.
From M17 Require Import Checked LemmasChecked ConstsApp ImplAx25 LemmasAx25 ImplApp LemmasApp LemmasPacket ImplRxIndex LemmasRxIndex.
From M17 Require Import ConstsCorrelator ImplCorrelator LemmasCorrelator.
Import ListNotations.
Local Open Scope nat_scope.

(** 1. the application's frame handlers: for EVERY history of callbacks whose buffers have the sizes the frame
       decoder's std::arrays have (30-byte LSF, 18-byte stream payload, 26-byte packet segment, 25-byte BERT
       payload; any contents, any cost), from every state satisfying the PRBS-history invariant (in particular
       the initial one), with either setting of the option flags, the run is [Ok].
       codec2_decode is arbitrary except that it stores exactly 160 samples (the external library's contract). *)
Theorem c07_app_handlers_never_oob :
  forall (cstate : Type) (codec2_decode : cstate -> list N -> cstate * list Z),
    (forall c bits, length (snd (codec2_decode c bits)) = da_buf_samples) ->
  forall (o : opts) (cbs : list callback) (st : app cstate),
    Forall wf_callback cbs -> app_inv cstate st ->
    exists st' outs, run_app cstate codec2_decode o st cbs = Ok (st', outs) /\ app_inv cstate st'.
Proof. exact app_handlers_never_oob_lemma. Qed.
Print Assumptions c07_app_handlers_never_oob.

(** the same in the "<> Oob" form, from the initial state *)
Theorem c07_run_app_not_oob :
  forall (cstate : Type) (codec2_decode : cstate -> list N -> cstate * list Z),
    (forall c bits, length (snd (codec2_decode c bits)) = da_buf_samples) ->
  forall (o : opts) (c0 : cstate) (cbs : list callback), Forall wf_callback cbs ->
    (forall site, run_app cstate codec2_decode o (app_init cstate c0) cbs <> Oob site) /\
    (forall site, run_app cstate codec2_decode o (app_init cstate c0) cbs <> Throw site) /\
    run_app cstate codec2_decode o (app_init cstate c0) cbs <> Diverge.
Proof. exact run_app_not_oob_lemma. Qed.
Print Assumptions c07_run_app_not_oob.

(** decode_full_packet is not reachable from handle_frame in the current source; it is safe as well *)
Theorem c07_decode_full_packet_safe :
  forall (cstate : Type) (st : app cstate) (seg : list N), length seg = packet_bytes -> app_inv cstate st ->
    exists st' out, decode_full_packet cstate st seg = Ok (st', out) /\ app_inv cstate st'.
Proof. exact decode_full_packet_ok. Qed.
Print Assumptions c07_decode_full_packet_safe.

(** 2. ax25_frame::parse, for EVERY byte string: no operator[] / substr / erase / iterator range leaves its string,
       nothing throws (so nothing reaches std::terminate: neither decode_packet nor main catches), the repeater loop ends *)
Theorem c07_ax25_parse_safe : forall s : list N, exists f, parse s = Ok f.
Proof. exact parse_never_faults. Qed.
Print Assumptions c07_ax25_parse_safe.

(** 3. growth of current_packet.  Over arbitrary callback histories it is NOT bounded (DESIGN.md expected a bound):
       each last-frame segment appends up to 25 bytes and only an LSF callback clears the vector ... *)
Theorem c07_current_packet_unbounded :
  forall (cstate : Type) (codec2_decode : cstate -> list N -> cstate * list Z) (o : opts) (c0 : cstate) (n : nat),
  exists cbs st' outs, Forall wf_callback cbs /\
    run_app cstate codec2_decode o (app_init cstate c0) cbs = Ok (st', outs) /\ n <= length (a_packet st').
Proof. exact current_packet_unbounded_lemma. Qed.
Print Assumptions c07_current_packet_unbounded.

(** ... and it is bounded by 3 + 25 * 32 + 25 * e, e = number of last-frame (EOF) segments since the last LSF callback
       (3: append_packet packs the 30 LSF *bytes* as if they were bits; 32: the 5-bit counter stops acceptance).
       The real frame decoder returns to its LSF state after an EOF segment, i.e. delivers e <= 1: at most 828 bytes. *)
Theorem c07_current_packet_bounded_per_eof :
  forall (cstate : Type) (codec2_decode : cstate -> list N -> cstate * list Z) (o : opts) (c0 : cstate)
         (cbs : list callback) (st' : app cstate) (outs : list out),
    Forall wf_callback cbs -> run_app cstate codec2_decode o (app_init cstate c0) cbs = Ok (st', outs) ->
    length (a_packet st') <= 3 + 25 * 32 + 25 * fold_left eof_track cbs 0.
Proof. exact current_packet_bounded_lemma. Qed.
Print Assumptions c07_current_packet_bounded_per_eof.

(** 4. decode_lich: the fragment-number guard precedes the copy; a copy that happens has fragment number <= 5 and
       stays inside the 30-byte LSF buffer (uint8_t arithmetic of (lich[5] >> 5) & 7) *)
Theorem c07_lich_slot_le_5 : forall lich lsf : list N, length lich = lich_bytes -> length lsf = lsf_bytes ->
  exists r, lich_copy lich lsf = Ok r /\
    match r with
    | None => True
    | Some l => length l = lsf_bytes /\
                exists x, nth_error lich lich_fn_idx = Some x /\ (fragment_number x <= max_lich_fragment)%N /\
                          N.to_nat (fragment_number x) * lich_copy_stride + lich_copy_len <= lsf_bytes
    end.
Proof. exact lich_copy_ok. Qed.
Print Assumptions c07_lich_slot_le_5.

(** 5. M17Framer<368>::operator() in LLR mode: for EVERY history of symbols the two stores are inside the buffer,
       and index_ stays even and < 368 *)
Theorem c07_framer_index_lt_368 : forall symbols : list (Z * Z),
  exists f' n, framer_run framer_init symbols 0 = Ok (f', n) /\
               length (f_buffer f') = framer_size /\ Nat.even (f_index f') = true /\ f_index f' < framer_size.
Proof. exact framer_index_lemma. Qed.
Print Assumptions c07_framer_index_lt_368.

(** 6. unpack_lich: for EVERY 368-entry frame and EVERY behaviour of Golay24::decode, the reads buffer[i * 24 + j] and the walk of
       [index] over the 6-byte lich buffer (0,1 / 1,2 / 3,4 / 4,5) stay inside; on success index ends at 6 *)
Theorem c07_unpack_lich_indices_ok : forall (golay_decode : N -> option N) (buffer : list Z), length buffer = input_bits ->
  exists r, unpack_lich golay_decode buffer = Ok r /\
    match r with None => True | Some (l, index) => length l = lich_bytes /\ index = lich_bytes end.
Proof. exact unpack_lich_ok. Qed.
Print Assumptions c07_unpack_lich_indices_ok.

(** 7. ClockRecovery: sample_index_ = int8_t(round(e)), +10 if negative, -10 if >= 10.
       HYPOTHESIS (not proved, it is what the floating-point Kalman filter / fmod code is trusted for and what the
       sanitizer runs exercise): the estimate handed over is a finite number in [0, 10].  Then the conversion is
       defined and the index is in 0..9.  (Stated over the rationals; every finite float is one.) *)
Theorem c07_sample_index_in_range : forall e : Q, (0 <= e)%Q -> (e <= 10)%Q ->
  exists s, sample_index_of e = Some s /\ (0 <= s <= 9)%Z.
Proof. exact sample_index_in_range_lemma. Qed.
Print Assumptions c07_sample_index_in_range.

(** the widest interval for which the same conclusion holds, and what happens outside it *)
Theorem c07_sample_index_in_range_wide : forall e : Q, (-(21 # 2) < e)%Q -> (e < 39 # 2)%Q ->
  exists s, sample_index_of e = Some s /\ (0 <= s <= 9)%Z.
Proof. exact sample_index_wide. Qed.
Print Assumptions c07_sample_index_in_range_wide.

Theorem c07_sample_index_needs_the_hypothesis :
  sample_index_of (39 # 2) = Some 10%Z /\ sample_index_of (-(21 # 2)) = Some (-1)%Z /\ sample_index_of (200 # 1) = None.
Proof. exact sample_index_outside. Qed.
Print Assumptions c07_sample_index_needs_the_hypothesis.

(** ClockRecovery::update() (no sync word): csw = fmod(sample_estimate_ + clock_estimate_ * count_, 10), +10 if negative, -10 if >= 10,
    then the same post-processing.  In EXACT arithmetic the index is in 0..9 for every finite argument; the rounding of the float
    sum / fmod is modelled, not verified (a float csw is still in [0, 10], which is the hypothesis of c07_sample_index_in_range). *)
Theorem c07_sample_index_update_exact : forall x : Q, exists s, sample_index_update0 x = Some s /\ (0 <= s <= 9)%Z.
Proof. exact sample_index_update0_range. Qed.
Print Assumptions c07_sample_index_update_exact.

(** non-vacuity: a concrete history (an LSF of a RAW packet transmission, two packet segments, an EOF segment of
    length 0, a stream frame with the EOS bit, a BERT frame) runs to Ok with both flags set *)
Definition ex_codec (c : unit) (bits : list N) : unit * list Z := (tt, repeat 0%Z da_buf_samples).
Definition ex_history : list callback :=
  [CbLSF (repeat 0%N 13 ++ [2%N] ++ repeat 0%N 16) 0%Z;
   CbBasicPacket (repeat 65%N 25 ++ [0%N]) 3%Z; CbBasicPacket (repeat 66%N 25 ++ [4%N]) 3%Z;
   CbFullPacket (repeat 0%N 25 ++ [128%N]) 0%Z;
   CbLSF (repeat 0%N 30) 0%Z; CbBasicPacket (repeat 0%N 25 ++ [128%N]) 0%Z;
   CbStream ([128%N] ++ repeat 7%N 17) 12%Z; CbLICH 0%Z; CbBert (repeat 255%N 25) 0%Z].
(** Index obligations of the receive path that live in other properties' models, re-exported here so that C07's file lists
    every one of them (proved in C04 / C17; the Viterbi history index and the de-puncture loop bounds are part of the
    models of C02 / C11, whose theorems hold for every input of the stated sizes):
    - Golay24::decode: std::lower_bound never returns LUT.end() for a 24-bit word, so `it->a` is inside the table;
    - decode_callsign: for every address the digit loop terminates having written indices 0..9 only (result has 10 chars). *)
Theorem c07_golay_lookup_in_range : forall r : N, (r < 2 ^ 24)%N ->
  (ImplGolay.lower_bound ImplGolay.LUT (ImplGolay.syndrome (N.shiftr r 1)) < length ImplGolay.LUT)%nat /\ ImplGolay.decode r <> ImplGolay.DEnd.
Proof. exact lookup_never_end_lemma. Qed.
Print Assumptions c07_golay_lookup_in_range.

Theorem c07_callsign_decode_in_range : forall a : list N, exists r, ImplCallsign.decode_callsign a = Some r /\ length r = 10%nat.
Proof. exact decode_total_lemma. Qed.
Print Assumptions c07_callsign_decode_in_range.

Example c07_history_wellformed : Forall wf_callback ex_history.
Proof. repeat constructor. Qed.
Example c07_history_runs :
  is_okb (run_app unit ex_codec {| o_display_lsf := true; o_noise_blanker := true |} (app_init unit tt) ex_history) = true.
Proof. vm_compute. reflexivity. Qed.
Example c07_ax25_instance : is_okb (parse (repeat 130%N 40)) = true /\ is_okb (parse [1%N; 2%N]) = true.
Proof. vm_compute. split; reflexivity. Qed.
Example c07_clock_instance : sample_index_of (19 # 2) = Some 0%Z /\ sample_index_of (37 # 8) = Some 5%Z /\ sample_index_of 10 = Some 0%Z.
Proof. vm_compute. repeat split. Qed.

(** 8. Correlator<FloatType> (Correlator.h).  Sample values are an arbitrary type V: only the index behaviour is modelled.
       buffer_ has corr_buffer_size = SYMBOLS * SAMPLES_PER_SYMBOL entries, tmp has corr_tmp_size entries (both read from the header).
    8a. for EVERY history of sample() calls from construction (any initial contents of buffer_ / tmp, which have no initialiser):
        no store leaves buffer_, the invariant buffer_pos_ < size /\ prev_buffer_pos_ < size holds,
        buffer_pos_ = (number of samples) mod size, and index() <= SAMPLES_PER_SYMBOL - 1 *)
Theorem c07_correlator_positions_in_range : forall (V : Type) (buffer tmp values : list V),
  length buffer = corr_buffer_size -> length tmp = corr_tmp_size ->
  exists c', corr_run (corr_init buffer tmp) values = Ok c' /\
    (length (c_buffer c') = corr_buffer_size /\ length (c_tmp c') = corr_tmp_size /\
     c_pos c' < corr_buffer_size /\ c_prev c' < corr_buffer_size) /\
    c_pos c' = length values mod corr_buffer_size /\ corr_index c' <= corr_sps - 1.
Proof. exact correlator_positions_lemma. Qed.
Print Assumptions c07_correlator_positions_in_range.

(** 8b. correlate(sync): under that invariant every read buffer_[pos] is inside, for a sync word of ANY length
        (the C++ passes SYMBOLS entries); one (sync[i], buffer_[pos]) pair per entry *)
Theorem c07_correlator_correlate_in_range : forall (V : Type) (c : correlator V) (sync : list Z),
  (length (c_buffer c) = corr_buffer_size /\ length (c_tmp c) = corr_tmp_size /\ c_pos c < corr_buffer_size /\ c_prev c < corr_buffer_size) ->
  exists xs, corr_correlate c sync = Ok xs /\ map fst xs = sync.
Proof. exact corr_correlate_ok. Qed.
Print Assumptions c07_correlator_correlate_in_range.

(** 8c. outer_symbol_levels(sample_index): the EXACT safe range is sample_index < buffer size (80):
        - below it, all reads buffer_[sample_index], buffer_[i] and all stores tmp[index++] are inside; the number of tmp entries written is
          the number of positions sample_index, +SAMPLES_PER_SYMBOL, ... below the buffer size (1 <= index <= tmp size), the object's
          buffer and positions are unchanged;
        - for sample_index < SAMPLES_PER_SYMBOL (what the demodulator passes, 8f) exactly SYMBOLS entries are written;
        - from the buffer size on (the parameter is a size_t; the demodulator's sample_index is a uint8_t, so 80..255 are representable)
          the very first read buffer_[sample_index] is out of bounds. *)
Theorem c07_correlator_outer_symbol_levels_range : forall (V : Type) (c : correlator V) (si : nat),
  (length (c_buffer c) = corr_buffer_size /\ length (c_tmp c) = corr_tmp_size /\ c_pos c < corr_buffer_size /\ c_prev c < corr_buffer_size) ->
  (si < corr_buffer_size ->
     exists c' xs index, corr_outer_symbol_levels c si = Ok (c', xs, index) /\
       (length (c_buffer c') = corr_buffer_size /\ length (c_tmp c') = corr_tmp_size /\ c_pos c' < corr_buffer_size /\ c_prev c' < corr_buffer_size) /\
       1 <= index <= corr_tmp_size /\ corr_buffer_size <= si + index * corr_sps < corr_buffer_size + corr_sps) /\
  (si < corr_sps -> exists c' xs, corr_outer_symbol_levels c si = Ok (c', xs, corr_symbols)) /\
  (corr_buffer_size <= si -> corr_outer_symbol_levels c si = Oob "Correlator::outer_symbol_levels: min_level = buffer_[sample_index]").
Proof. exact correlator_osl_range_lemma. Qed.
Print Assumptions c07_correlator_outer_symbol_levels_range.

(** 8d. apply(func, uint8_t index): in range for EVERY index (the loop reads nothing once i >= size) *)
Theorem c07_correlator_apply_in_range : forall (V : Type) (c : correlator V) (index : nat),
  (length (c_buffer c) = corr_buffer_size /\ length (c_tmp c) = corr_tmp_size /\ c_pos c < corr_buffer_size /\ c_prev c < corr_buffer_size) ->
  exists xs, corr_apply c index = Ok xs.
Proof. exact corr_apply_ok. Qed.
Print Assumptions c07_correlator_apply_in_range.

(** 8e. SyncWord<Correlator>: for EVERY history of (sample(); operator()) pairs from construction, every float decision being arbitrary
        (the value returned by triggered() and whether it is != 0 are inputs of each call; abs(f) > abs(peak) and peak > 0 are arbitrary
        functions): the reads of correlate(sync_word_) and the store samples_[correlator.index()] are inside, every value returned by
        operator() (= timing_index_, the demodulator's sync_index) is <= SAMPLES_PER_SYMBOL - 1. *)
Theorem c07_syncword_accesses_in_range : forall (V : Type) (zero : V) (abs_gt : V -> V -> bool) (is_pos : V -> bool)
  (word : list Z) (samples buffer tmp : list V) (calls : list (V * bool * V)),
  length samples = sw_samples_size -> length buffer = corr_buffer_size -> length tmp = corr_tmp_size ->
  exists s' c' ts, sw_run zero abs_gt is_pos (sw_init word samples) (corr_init buffer tmp) calls = Ok (s', c', ts) /\
    length (sw_samples s') = sw_samples_size /\ sw_timing s' <= corr_sps - 1 /\ Forall (fun t => t <= corr_sps - 1) ts.
Proof. exact syncword_lemma. Qed.
Print Assumptions c07_syncword_accesses_in_range.

(** one call with an arbitrary correlator index: the store is inside exactly for index < SAMPLES_PER_SYMBOL (samples_'s size),
    and find_peak's uint8_t walk over samples_ leaves timing_index_ <= SAMPLES_PER_SYMBOL - 1 *)
Theorem c07_syncword_store_range : forall (V : Type) (zero : V) (abs_gt : V -> V -> bool) (is_pos : V -> bool)
  (s : syncword V) (nonzero : bool) (value : V) (cindex : nat),
  length (sw_samples s) = sw_samples_size -> sw_timing s < sw_samples_size ->
  (cindex < sw_samples_size -> exists s' t, sw_step zero abs_gt is_pos s nonzero value cindex = Ok (s', t) /\
      length (sw_samples s') = sw_samples_size /\ t = sw_timing s' /\ t <= corr_sps - 1) /\
  (sw_samples_size <= cindex -> sw_step zero abs_gt is_pos s true value cindex = Oob "SyncWord::operator(): samples_[correlator.index()] = value").
Proof. exact syncword_store_range_lemma. Qed.
Print Assumptions c07_syncword_store_range.

(** 8f. M17Demodulator: where sample indices come from.  [demod_run] executes ANY sequence of the blocks of M17Demodulator.h that touch
        sample_index, sync_sample_index, ClockRecovery::sample_index_, the correlator or a sync word (the control state is not modelled:
        any order is allowed, which contains the real ones), and reports every index handed to Correlator::outer_symbol_levels ([UOsl]),
        every sample_index compared with correlator.index() ([UCompare]) and every sync_sample_index handed to ClockRecovery ([UClockArg]).
        HYPOTHESIS (the same as in c07_sample_index_in_range, and used through that theorem): each estimate that the floating-point
        Kalman / fmod code hands to int8_t(round(.)) is a finite number in [0, 10].
        Then nothing faults (no access outside an array, no undefined float -> int8_t conversion) and every such index is < SAMPLES_PER_SYMBOL. *)
Theorem c07_sample_index_sources_in_range : forall (V : Type) (zero : V) (abs_gt : V -> V -> bool) (is_pos : V -> bool)
  (buffer tmp s1 s2 s3 s4 : list V) (events : list (devent V)),
  length buffer = corr_buffer_size -> length tmp = corr_tmp_size ->
  length s1 = sw_samples_size -> length s2 = sw_samples_size -> length s3 = sw_samples_size -> length s4 = sw_samples_size ->
  Forall (event_estimate_ok (fun e => (0 <= e)%Q /\ (e <= 10)%Q)) events ->
  exists d' uses, demod_run zero abs_gt is_pos (demod_init buffer tmp s1 s2 s3 s4) events = Ok (d', uses) /\
    Forall (fun u => match u with UOsl i | UCompare i | UClockArg i => i < corr_sps end) uses /\
    d_sample_index d' < corr_sps /\ d_sync_sample_index d' < corr_sps /\ (0 <= d_clock_index d' <= samples_per_symbol - 1)%Z.
Proof. exact sample_index_sources_in_range. Qed.
Print Assumptions c07_sample_index_sources_in_range.

(** what the hypothesis of 8f is needed for (concrete run, V = Z, |f| > |p| and p > 0 as in the C++): with the estimate 19.5
    (c07_sample_index_needs_the_hypothesis: index 10) the demodulator's sample_index becomes 10 and IS handed to
    outer_symbol_levels - still inside the 80-entry buffer by 8c (7 tmp entries written), i.e. a wrong sampling point but no fault;
    with the estimate 200 the int8_t conversion itself is undefined. *)
Definition ex_abs_gt (a b : Z) : bool := (Z.abs b <? Z.abs a)%Z.
Definition ex_is_pos (a : Z) : bool := (0 <? a)%Z.
Definition ex_demod : demod Z :=
  demod_init (repeat 0%Z corr_buffer_size) (repeat 0%Z corr_tmp_size) (repeat 0%Z sw_samples_size) (repeat 0%Z sw_samples_size)
             (repeat 0%Z sw_samples_size) (repeat 0%Z sw_samples_size).
Definition ex_events (csw : Q) : list (devent Z) :=
  repeat (DSample 1%Z) 6 ++ [DFrame csw; DSyncTrack WLsf UNonzero true 5%Z; DSyncTrack WLsf UNonzero false 0%Z].
Example c07_sample_index_sources_instance :
  (exists d', demod_run 0%Z ex_abs_gt ex_is_pos ex_demod (ex_events (19 # 2)) = Ok (d', [UCompare 0; UOsl 0])) /\
  (exists d', demod_run 0%Z ex_abs_gt ex_is_pos ex_demod (ex_events (39 # 2)) = Ok (d', [UCompare 0; UOsl 10])) /\
  (exists site, demod_run 0%Z ex_abs_gt ex_is_pos ex_demod (ex_events (200 # 1)) = Oob site).
Proof. split; [|split]; vm_compute; eexists; reflexivity. Qed.
