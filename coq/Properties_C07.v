(** placeholder while the tie is being brought up *)
From Coq Require Import NArith List.
From M17 Require Import Checked ConstsApp ImplAx25 ImplApp ImplRxIndex.
Theorem c07_placeholder : True. Proof. exact I. Qed.
Print Assumptions c07_placeholder.
