(** C01 round trip, part E: one call of the instantiated frame decoder on the soft image of a specification frame
    (stream, link setup, packet, BERT), for every payload, magnitude vector and content of the hidden buffers. *)
From Coq Require Import NArith ZArith List Bool Lia Arith.
From M17 Require Import Bits ImplCRC ConstsCrc SpecM17 ImplRandom ImplInterleave ImplViterbi
  ImplFrameDecoder FrameDecoderInst LemmasFD_Hidden LemmasFD_Inst
  LemmasRT_A LemmasRT_B LemmasRT_C LemmasRT_D.
Import ListNotations.
Local Open Scope Z_scope.

Notation fd_decode_payload := (ImplFrameDecoder.decode_payload scratch fd_depuncture fd_viterbi).

Lemma same_visible_refl s : fd_same_visible s s.
Proof. repeat split. Qed.

Lemma fd_step_keeps_hid_ok s sw fr r : fd_hid_ok s -> fd_hid_ok (fd_st_of (fd_step s sw fr r)).
Proof. intros H. exact (proj1 (proj2 (proj2 (fd_step_hidden_indep s s sw fr r (same_visible_refl s) H H)))). Qed.

(** the decoder's front end on a specification frame body [y] (368 bits before interleaving) *)
Lemma fd_front m y : length m = 368%nat -> length y = 368%nat -> mags_ok m ->
  fd_deinterleave (fd_derandomize (soft m (spec_finish y))) = soft (deinterleave 0 m) y /\
  length (deinterleave 0 m) = 368%nat /\ mags_ok (deinterleave 0 m) /\
  (full_conf m -> full_conf (deinterleave 0 m)).
Proof. exact (rt_front m y). Qed.

Lemma skipn_app_exact {A} (a b : list A) : skipn (length a) (a ++ b) = b.
Proof. rewrite skipn_app, Nat.sub_diag, skipn_all. reflexivity. Qed.

Lemma skipn_Forall {A} (P : A -> Prop) n : forall l, Forall P l -> Forall P (skipn n l).
Proof. induction n as [|n IH]; intros l F; [exact F|]. destruct l; [exact F|]. apply IH. exact (Forall_inv_tail F). Qed.

(* ------------------------------------------------------------------ stream *)
Definition stream_bits (fn : N) (payload : list N) (eos : bool) : list bool := bytes_bits (fn_field fn eos ++ payload).

Lemma rt_stream (s : fd_state) (m : list Z) (lsf : list N) (n fn : N) (payload : list N) (eos r : bool) :
  fd_hid_ok s -> fd_mode s = MStream -> length m = 368%nat -> mags_ok m ->
  length lsf = 30%nat -> (n < 6)%N -> length payload = 16%nat -> all_bytes payload ->
  let o := fd_step s SStream (soft m (spec_stream_frame lsf n fn payload eos)) r in
  exists c : Z,
    fd_observe o = (MStream, ROk, Some c, [mkcb FStream (fn_field fn eos ++ payload) c]) /\
    (full_conf m -> c = 0) /\
    fd_seg (fd_st_of o) = fd_seg s /\ fd_lsf (fd_st_of o) = fd_lsf s /\ fd_hid_ok (fd_st_of o).
Proof. intros Hh Hm Lm F Ll Hn Lp Fp o.
  assert (Hok : fd_hid_ok (fd_st_of o)) by (apply fd_step_keeps_hid_ok; exact Hh).
  assert (Eo : exists c h', (full_conf m -> c = 0) /\
            o = (mkst scratch MStream (d_seg scratch s) (d_lsf scratch s) (set_ubuf scratch h' (fn_field fn eos ++ payload)),
                 ROk, Some c, [mkcb FStream (fn_field fn eos ++ payload) c])).
  { subst o. clear Hok. unfold fd_step, ImplFrameDecoder.step. unfold fd_mode in Hm. rewrite Hm.
    unfold spec_stream_frame.
    destruct (fn_field_ok fn eos) as [Ff Lf].
    set (bits := stream_bits fn payload eos).
    assert (Lb : length bits = ImplFrameDecoder.g_out GStream).
    { subst bits. unfold stream_bits. rewrite bytes_bits_length, app_length, Lf, Lp. reflexivity. }
    assert (Lpl : length (spec_stream_payload fn payload eos) = 272%nat) by exact (punctured_length GStream bits Lb).
    assert (Llich : length (spec_lich lsf n) = 96%nat) by (apply spec_lich_length; assumption).
    destruct (fd_front m (spec_lich lsf n ++ spec_stream_payload fn payload eos) Lm
                ltac:(rewrite app_length, Llich, Lpl; reflexivity) F) as (E & Lm' & F' & F7').
    rewrite E. set (m' := deinterleave 0 m) in *. clearbody m'.
    unfold ImplFrameDecoder.decode_stream. rewrite soft_skipn.
    replace (skipn 96 (spec_lich lsf n ++ spec_stream_payload fn payload eos)) with (spec_stream_payload fn payload eos)
      by (rewrite <- Llich; symmetry; apply skipn_app_exact).
    destruct (rt_payload GStream (d_hid scratch s) (skipn 96 m') bits Hh Lb
                ltac:(rewrite skipn_length, Lm'; reflexivity) (skipn_Forall _ 96 m' F')) as (c & h' & E2 & Hc).
    change (spec_stream_payload fn payload eos) with (spec_puncture (Pspec GStream) (spec_conv bits)).
    rewrite E2.
    assert (Eb : to_bytes bits = fn_field fn eos ++ payload).
    { subst bits. apply to_bytes_bytes_bits. apply Forall_app. split; assumption. }
    rewrite Eb. exists c, h'. rewrite Hm. split; [|reflexivity].
    intros F7. apply Hc. apply skipn_Forall. apply F7'. exact F7. }
  destruct Eo as (c & h' & Hc & Eo). clearbody o. subst o. exists c.
  split; [reflexivity|]. split; [exact Hc|]. split; [reflexivity|]. split; [reflexivity|]. exact Hok. Qed.

(* ------------------------------------------------------------------ link setup frame *)
Lemma rt_lsf (s : fd_state) (m : list Z) (L : list N) (r : bool) :
  fd_hid_ok s -> length m = 368%nat -> mags_ok m -> length L = 30%nat -> all_bytes L ->
  let o := fd_step s SLsf (soft m (spec_lsf_frame L)) r in
  exists c : Z, (full_conf m -> c = 0) /\ fd_hid_ok (fd_st_of o) /\
    (crc30 L = 0%N ->
       fd_observe o = (update_state MLsf (bytes_bits L), ROk, Some c, [mkcb FLsf L c]) /\
       fd_lsf (fd_st_of o) = L /\ fd_seg (fd_st_of o) = fd_seg s) /\
    (crc30 L <> 0%N ->
       fd_observe o = (MLsf, RFail, Some c, []) /\
       fd_lsf (fd_st_of o) = repeat 0%N 30 /\ fd_seg (fd_st_of o) = 0%N).
Proof. intros Hh Lm F LL FL o.
  assert (Hok : fd_hid_ok (fd_st_of o)) by (apply fd_step_keeps_hid_ok; exact Hh).
  assert (Eo : exists c h', (full_conf m -> c = 0) /\
            o = if (crc30 L =? 0)%N
                then (mkst scratch (update_state MLsf (bytes_bits L)) (d_seg scratch s) L h', ROk, Some c, [mkcb FLsf L c])
                else (mkst scratch MLsf 0%N (repeat 0%N 30) h', RFail, Some c, [])).
  { subst o. clear Hok. unfold fd_step, ImplFrameDecoder.step. unfold spec_lsf_frame.
    set (bits := bytes_bits L).
    assert (Lb : length bits = ImplFrameDecoder.g_out GLsf) by (subst bits; rewrite bytes_bits_length, LL; reflexivity).
    change (spec_puncture SpecM17.P1 (spec_conv bits)) with (spec_puncture (Pspec GLsf) (spec_conv bits)).
    destruct (fd_front m (spec_puncture (Pspec GLsf) (spec_conv bits)) Lm (punctured_length GLsf bits Lb) F)
      as (E & Lm' & F' & F7').
    rewrite E. set (m' := deinterleave 0 m) in *. clearbody m'.
    unfold ImplFrameDecoder.decode_lsf. cbn [with_mode d_hid d_mode d_seg d_lsf].
    destruct (rt_payload GLsf (d_hid scratch s) m' bits Hh Lb Lm' F') as (c & h' & E2 & Hc).
    rewrite E2.
    assert (Eb : to_bytes bits = L) by (subst bits; apply to_bytes_bytes_bits; exact FL).
    rewrite Eb. exists c, h'. split; [intros F7; apply Hc; apply F7'; exact F7|].
    destruct (crc30 L =? 0)%N; reflexivity. }
  destruct Eo as (c & h' & Hc & Eo). clearbody o. exists c. split; [exact Hc|]. split; [exact Hok|]. split.
  - intros Z0. apply N.eqb_eq in Z0. rewrite Z0 in Eo. subst o. repeat split; reflexivity.
  - intros NZ. apply N.eqb_neq in NZ. rewrite NZ in Eo. subst o. repeat split; reflexivity. Qed.

(* ------------------------------------------------------------------ packet *)
Lemma rt_packet (s : fd_state) (md : mode) (ty : ftype) (m : list Z) (data25 : list N) (eof : bool) (counter : N) (r : bool) :
  fd_hid_ok s -> fd_mode s = md -> (md = MBasic /\ ty = FBasic) \/ (md = MFull /\ ty = FFull) ->
  length m = 368%nat -> mags_ok m -> length data25 = 25%nat -> all_bytes data25 -> (counter < 32)%N ->
  let o := fd_step s SPacket (soft m (spec_packet_frame data25 eof counter)) r in
  exists c : Z, (full_conf m -> c = 0) /\ fd_hid_ok (fd_st_of o) /\
    fd_observe o = (if eof then MLsf else md,
                    if eof then (if r then ROk else RFail) else RPacketIncomplete,
                    Some c, [mkcb ty (data25 ++ [packet_last eof counter]) c]) /\
    fd_seg (fd_st_of o) = fd_seg s /\ fd_lsf (fd_st_of o) = fd_lsf s.
Proof. intros Hh Hm Hty Lm F Ld Fd Hc32 o.
  assert (Hok : fd_hid_ok (fd_st_of o)) by (apply fd_step_keeps_hid_ok; exact Hh).
  set (bytes := data25 ++ [packet_last eof counter]).
  assert (Eo : exists c h', (full_conf m -> c = 0) /\
            o = (mkst scratch (if eof then MLsf else md) (d_seg scratch s) (d_lsf scratch s) (set_ubuf scratch h' bytes),
                 if eof then (if r then ROk else RFail) else RPacketIncomplete, Some c, [mkcb ty bytes c])).
  { subst o. clear Hok. unfold fd_step, ImplFrameDecoder.step. unfold fd_mode in Hm. unfold spec_packet_frame.
    set (bits := packet_bits data25 eof counter).
    destruct (packet_bits_ok data25 eof counter Ld Fd Hc32) as [Lb Eb]. fold bits in Lb, Eb. fold bytes in Eb.
    change (firstn 200 (bytes_bits data25) ++ [eof] ++ N_bits 5 counter) with bits.
    change (spec_puncture SpecM17.P3 (spec_conv bits)) with (spec_puncture (Pspec GPacket) (spec_conv bits)).
    destruct (fd_front m (spec_puncture (Pspec GPacket) (spec_conv bits)) Lm (punctured_length GPacket bits Lb) F)
      as (E & Lm' & F' & F7').
    rewrite E. set (m' := deinterleave 0 m) in *. clearbody m'.
    destruct (rt_payload GPacket (d_hid scratch s) m' bits Hh Lb Lm' F') as (c & h' & E2 & Hc).
    rewrite Eb in E2.
    assert (E25 : nth 25 bytes 0%N = packet_last eof counter).
    { subst bytes. rewrite app_nth2 by (rewrite Ld; apply Nat.le_refl). rewrite Ld. reflexivity. }
    pose proof (proj2 (packet_tail_pack eof counter Hc32)) as Eland.
    exists c, h'. split; [intros F7; apply Hc; apply F7'; exact F7|].
    destruct Hty as [[-> ->]|[-> ->]]; rewrite Hm; unfold ImplFrameDecoder.decode_packet; rewrite E2, E25, Eland;
      destruct eof; cbn [negb]; rewrite ?Hm; reflexivity. }
  destruct Eo as (c & h' & Hc & Eo). clearbody o. subst o. exists c. split; [exact Hc|]. split; [exact Hok|].
  repeat split; reflexivity. Qed.

(* ------------------------------------------------------------------ BERT *)
Lemma rt_bert (s : fd_state) (m : list Z) (bits197 : list bool) (r : bool) :
  fd_hid_ok s -> length m = 368%nat -> mags_ok m -> length bits197 = 197%nat ->
  let o := fd_step s SBert (soft m (spec_bert_frame bits197)) r in
  exists c : Z, (full_conf m -> c = 0) /\ fd_hid_ok (fd_st_of o) /\
    fd_observe o = (MBert, ROk, Some c, [mkcb FBert (to_bytes bits197) c]) /\
    fd_seg (fd_st_of o) = fd_seg s /\ fd_lsf (fd_st_of o) = fd_lsf s.
Proof. intros Hh Lm F Lb o.
  assert (Hok : fd_hid_ok (fd_st_of o)) by (apply fd_step_keeps_hid_ok; exact Hh).
  assert (Eo : exists c h', (full_conf m -> c = 0) /\
            o = (mkst scratch MBert (d_seg scratch s) (d_lsf scratch s) (set_ubuf scratch h' (to_bytes bits197)),
                 ROk, Some c, [mkcb FBert (to_bytes bits197) c])).
  { subst o. clear Hok. unfold fd_step, ImplFrameDecoder.step. unfold spec_bert_frame.
    change (spec_puncture SpecM17.P2 (spec_conv bits197)) with (spec_puncture (Pspec GBert) (spec_conv bits197)).
    set (X := spec_puncture (Pspec GBert) (spec_conv bits197)).
    assert (LX : length X = 369%nat) by exact (punctured_length GBert bits197 Lb).
    destruct (fd_front m (firstn 368 X) Lm ltac:(rewrite firstn_length, LX; reflexivity) F) as (E & Lm' & F' & F7').
    rewrite E. set (m' := deinterleave 0 m) in *. clearbody m'.
    replace (soft m' (firstn 368 X)) with (soft m' X) by (rewrite <- Lm'; symmetry; apply soft_firstn_r).
    unfold ImplFrameDecoder.decode_bert. cbn [with_mode d_hid d_mode d_seg d_lsf].
    destruct (rt_payload GBert (d_hid scratch s) m' bits197 Hh Lb Lm' F') as (c & h' & E2 & Hc).
    subst X. rewrite E2. exists c, h'. split; [intros F7; apply Hc; apply F7'; exact F7 | reflexivity]. }
  destruct Eo as (c & h' & Hc & Eo). clearbody o. subst o. exists c. split; [exact Hc|]. split; [exact Hok|].
  repeat split; reflexivity. Qed.
