(** The M17 interleaver as the specification states it: a quadratic permutation polynomial
    over 368 positions.  Written from the specification text, independent of the code. *)
From Coq Require Import NArith List Arith.
Import ListNotations.

(** π(i) = (45 i + 92 i²) mod 368 *)
Definition pi (i : nat) : nat := (45 * i + 92 * i * i) mod 368.

(** the same formula on binary numbers (for evaluation; [pi] on unary numbers is only reasoned about) *)
Definition pi_N (i : N) : N := ((45 * i + 92 * i * i) mod 368)%N.

(** interleaving: the element at position i of the input appears at position π(i) of the output *)
Definition interleaved {A} (d : A) (input output : list A) : Prop :=
  length output = 368 /\ forall i, i < 368 -> nth (pi i) output d = nth i input d.

(** the table π(0) .. π(367), for the oracle of the correspondence check *)
Definition pi_table : list N := map (fun i => pi_N (N.of_nat i)) (seq 0 368).
