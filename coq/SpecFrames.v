(** The frame decoder's documented state machine (M17FrameDecoder.h:317-352 and the property text of
    C08), written without buffers: the state is (mode, LICH bitmap, LSF assembly buffer); payload
    decoding is an abstract function [dec] of the frame (geometry, 368/272 soft bits after
    de-randomizing and de-interleaving) - "the specification decoder".  LICH unpacking is an abstract
    function [lich_of] of the frame. *)
From Coq Require Import NArith ZArith List Bool.
From M17 Require Import Bits ImplFrameDecoder.
Import ListNotations.
Local Open Scope N_scope.

Section SM.
Variable prep : list Z -> list Z.                       (* de-randomize, then de-interleave *)
Variable dec : geometry -> list Z -> list bool * Z.    (* payload bits and cost for a geometry *)
Variable lich_of : list Z -> option (list N).          (* the 6 LICH bytes, if all four Golay words decode *)
Variable crc_ok : list N -> bool.                       (* M17 CRC of 30 bytes is zero *)

Record sm_state := mksm { sm_mode : mode; sm_seg : N; sm_lsf : list N }.
Definition sm_outcome := (sm_state * result * option Z * list callback)%type.

Definition type_mode (m : mode) (bits : list bool) : mode := update_state m bits.

Definition sm_lsf_frame (s : sm_state) (fr : list Z) : sm_outcome :=
  let '(bits, cost) := dec GLsf fr in
  let bytes := pack_bits bits in
  if crc_ok bytes then (mksm (type_mode MLsf bits) (sm_seg s) bytes, ROk, Some cost, [mkcb FLsf bytes cost])
  else (mksm MLsf 0 (repeat 0 30), RFail, Some cost, []).

Definition sm_lich_frame (s : sm_state) (fr : list Z) : sm_outcome :=
  match lich_of fr with
  | None => (s, RFail, Some 128%Z, [])     (* uncorrectable LICH: high cost, nothing collected *)
  | Some lich =>
    let n := N.land (N.shiftr (nth 5 lich 0) 5) 7 in
    let cb1 := mkcb FLich lich 0 in
    if 5 <? n then (s, RIncomplete, Some (-1)%Z, [cb1]) else
    let off := (N.to_nat n * 5)%nat in
    let lsf' := firstn off (sm_lsf s) ++ firstn 5 lich ++ skipn (off + 5) (sm_lsf s) in
    let seg' := N.land (N.lor (sm_seg s) (N.shiftl 1 n)) 0xFF in
    if negb (N.land seg' 0x3F =? 0x3F) then (mksm (sm_mode s) seg' lsf', RIncomplete, Some (-1)%Z, [cb1])
    else if crc_ok lsf' then (mksm MStream 0 lsf', ROk, Some 0%Z, [cb1; mkcb FLsf lsf' 0])
    else (mksm (sm_mode s) seg' lsf', RIncomplete, Some 128%Z, [cb1])
  end.

Definition sm_payload (s : sm_state) (g : geometry) (ty : ftype) (fr : list Z) : list N * Z * callback :=
  let '(bits, cost) := dec g fr in
  let bytes := pack_bits bits in (bytes, cost, mkcb ty bytes cost).

Definition sm_step (s : sm_state) (sw : sync) (frame : list Z) (cbret : bool) : sm_outcome :=
  let fr := prep frame in
  match sw with
  | SLsf => sm_lsf_frame (mksm MLsf (sm_seg s) (sm_lsf s)) fr          (* LSF sync always restarts link setup *)
  | SStream =>
    match sm_mode s with
    | MLsf => sm_lich_frame s fr                                        (* LICH collection while waiting *)
    | MStream => let '(_, cost, cb) := sm_payload s GStream FStream (skipn 96 fr) in (s, ROk, Some cost, [cb])
    | _ => (mksm MLsf (sm_seg s) (sm_lsf s), RFail, None, [])          (* not valid here: back to link setup *)
    end
  | SPacket =>
    match sm_mode s with
    | MBasic | MFull =>
      let ty := match sm_mode s with MBasic => FBasic | _ => FFull end in
      let '(bytes, cost, cb) := sm_payload s GPacket ty fr in
      if negb (N.land (nth 25 bytes 0) 0x80 =? 0)                       (* EOF bit ends the packet *)
      then (mksm MLsf (sm_seg s) (sm_lsf s), if cbret then ROk else RFail, Some cost, [cb])
      else (s, RPacketIncomplete, Some cost, [cb])
    | _ => (mksm MLsf (sm_seg s) (sm_lsf s), RFail, None, [])
    end
  | SBert =>                                                            (* BERT sync always decodes BERT *)
    let '(_, cost, cb) := sm_payload s GBert FBert fr in (mksm MBert (sm_seg s) (sm_lsf s), ROk, Some cost, [cb])
  end.

Definition sm_observe (o : sm_outcome) : mode * result * option Z * list callback :=
  (sm_mode (fst (fst (fst o))), snd (fst (fst o)), snd (fst o), snd o).

Fixpoint sm_run (s : sm_state) (h : list (sync * list Z * bool)) : list (mode * result * option Z * list callback) :=
  match h with
  | [] => []
  | (sw, fr, r) :: t => let o := sm_step s sw fr r in sm_observe o :: sm_run (fst (fst (fst o))) t
  end.
End SM.
