(** C14 lemmas, part 5: whole frames.  The packed-byte pipelines of send_link_setup and
    make_payload / send_audio_frame produce exactly the bytes of the specification's LSF frame / stream frame,
    for every LSF, payload and 16-bit frame-number field, independently of uninitialised memory. *)
From Coq Require Import NArith ZArith List Bool Lia Arith.
From M17 Require Import Bits SpecCRC SpecM17 ConstsModulator ImplModulator
  LemmasMdl_Bits LemmasMdl_Shuffle LemmasMdl_Conv LemmasMdl_Golay.
Import ListNotations.
Local Open Scope N_scope.

Lemma be_bytes2 v : be_bytes 2 v = [N.land (N.shiftr v 8) 0xFF; N.land v 0xFF].
Proof. unfold be_bytes. cbn [seq map Nat.sub N.of_nat N.mul]. rewrite N.shiftr_0_r. reflexivity. Qed.

Lemma land255_lt x : N.land x 0xFF < 256.
Proof. change 255 with (N.ones 8). rewrite N.land_ones. apply N.mod_upper_bound. discriminate. Qed.

Lemma be_bytes2_ok v : all_bytes (be_bytes 2 v).
Proof. rewrite be_bytes2. repeat constructor; apply land255_lt. Qed.

Lemma spec_finish_bytes frame : all_bytes frame -> length frame = 46%nat ->
  byte_randomize (interleave_bytes frame) = bits_bytes (spec_finish (bytes_bits frame)).
Proof. intros Hf Lf. destruct (interleave_bytes_spec frame Hf Lf) as [E1 [A1 L1]].
  destruct (byte_randomize_spec _ A1 L1) as [E2 [A2 L2]].
  rewrite <- (bits_bytes_bytes_bits _ A2). rewrite E2, E1. reflexivity. Qed.

Section Frames.
Variable junk : nat -> N.

(** ** LSF frame *)
Theorem lsf_frame_spec lsf : all_bytes lsf -> length lsf = 30%nat ->
  lsf_frame junk lsf = bits_bytes (spec_lsf_frame lsf).
Proof. intros Hl Ll. unfold lsf_frame. rewrite Ll.
  destruct (uninit_ok junk (conv_out_len 30)) as [U1 UL1].
  destruct (conv_encode_spec (uninit junk (conv_out_len 30)) lsf Hl) as [E1 [A1 L1]]; [lia | rewrite UL1, Ll; reflexivity|].
  rewrite Ll in L1. change (conv_out_len 30) with 61%nat in *.
  destruct (uninit_ok junk ConstsModulator.lsf_punctured_len) as [U2 UL2]. change ConstsModulator.lsf_punctured_len with 46%nat in *.
  change (matrix ConstsModulator.lsf_puncture_matrix) with make_p1.
  destruct (puncture_generic _ _ make_p1 SpecM17.P1 488 368 A1 U2) as [E2 [A2 [L2 _]]];
    [rewrite L1; reflexivity | rewrite UL2; reflexivity | exact puncture_idx_lsf |].
  rewrite UL2 in L2. rewrite spec_finish_bytes by assumption. rewrite E2, E1. reflexivity. Qed.

(** ** stream frame *)
Lemma message_bytes (d : list N) (a b : N) (payload : list N) : length d = 18%nat -> length payload = 16%nat ->
  copy_at (set_nth (set_nth d 0 a) 1 b) 2 payload = a :: b :: payload.
Proof. intros Ld Lp. destruct d as [|d0 [|d1 rest]]; try (cbn in Ld; lia). cbn [set_nth].
  pose proof (copy_at_spec payload [a; b] rest []) as E. rewrite !app_nil_r in E. cbn [length app] in E.
  apply E. cbn in Ld. lia. Qed.

Theorem make_payload_spec fnraw payload : all_bytes payload -> length payload = 16%nat ->
  bytes_bits (make_payload junk fnraw payload) = spec_puncture SpecM17.P2 (spec_conv (bytes_bits (be_bytes 2 fnraw ++ payload)))
  /\ all_bytes (make_payload junk fnraw payload) /\ length (make_payload junk fnraw payload) = 34%nat.
Proof. intros Hp Lp. unfold make_payload.
  destruct (uninit_ok junk ConstsModulator.payload_message_len) as [U0 UL0]. change ConstsModulator.payload_message_len with 18%nat in *.
  change ConstsModulator.payload_offset with 2%nat. rewrite message_bytes by assumption.
  assert (Ed : u8 (N.land (N.shiftr fnraw 8) 255) :: u8 (N.land fnraw 255) :: payload = be_bytes 2 fnraw ++ payload).
  { rewrite be_bytes2. rewrite !u8_small by apply land255_lt. reflexivity. }
  rewrite Ed. set (data := be_bytes 2 fnraw ++ payload).
  assert (Hd : all_bytes data) by (apply Forall_app; split; [apply be_bytes2_ok | exact Hp]).
  assert (Ld : length data = 18%nat) by (unfold data; rewrite app_length, be_bytes2, Lp; reflexivity).
  rewrite Ld. destruct (uninit_ok junk (conv_out_len 18)) as [U1 UL1].
  destruct (conv_encode_spec (uninit junk (conv_out_len 18)) data Hd) as [E1 [A1 L1]]; [lia | rewrite UL1, Ld; reflexivity|].
  rewrite Ld in L1. change (conv_out_len 18) with 37%nat in *.
  destruct (uninit_ok junk ConstsModulator.payload_len) as [U2 UL2]. change ConstsModulator.payload_len with 34%nat in *.
  change (matrix ConstsModulator.payload_puncture_matrix) with ImplModulator.P2.
  destruct (puncture_generic _ _ ImplModulator.P2 SpecM17.P2 296 272 A1 U2) as [E2 [A2 [L2 _]]];
    [rewrite L1; reflexivity | rewrite UL2; reflexivity | exact puncture_idx_stream |].
  rewrite UL2 in L2. rewrite E2, E1. repeat split; assumption. Qed.

Theorem send_audio_frame_spec lich data : all_bytes lich -> length lich = 12%nat -> all_bytes data -> length data = 34%nat ->
  send_audio_frame junk lich data = ConstsModulator.sync_stream ++ bits_bytes (spec_finish (bytes_bits lich ++ bytes_bits data)).
Proof. intros Hl Ll Hd Ld. unfold send_audio_frame, output_frame. f_equal.
  destruct (uninit_ok junk ConstsModulator.audio_frame_temp_len) as [U UL]. change ConstsModulator.audio_frame_temp_len with 46%nat in *.
  rewrite copy_at_two by (rewrite UL, Ll, Ld; reflexivity).
  rewrite spec_finish_bytes; [rewrite bytes_bits_app; reflexivity | apply Forall_app; split; assumption | rewrite app_length, Ll, Ld; reflexivity]. Qed.

(** ** the LICH table *)
Lemma chunk5 (lsf : list N) i : length lsf = 30%nat -> (i < 6)%nat ->
  exists s0 s1 s2 s3 s4, firstn 5 (skipn (i * 5) lsf) = [s0; s1; s2; s3; s4].
Proof. intros L Hi. assert (L5 : length (firstn 5 (skipn (i * 5) lsf)) = 5%nat) by (rewrite firstn_length, skipn_length; lia).
  destruct (firstn 5 (skipn (i * 5) lsf)) as [|s0 [|s1 [|s2 [|s3 [|s4 [|s5 r]]]]]]; try discriminate. eauto 6. Qed.

Lemma all_bytes_firstn n l : all_bytes l -> all_bytes (firstn n l).
Proof. intros H. apply Forall_forall. intros x Hx. unfold all_bytes in H. rewrite Forall_forall in H. apply H.
  rewrite <- (firstn_skipn n l). apply in_or_app. left. exact Hx. Qed.
Lemma all_bytes_skipn n l : all_bytes l -> all_bytes (skipn n l).
Proof. intros H. apply Forall_forall. intros x Hx. unfold all_bytes in H. rewrite Forall_forall in H. apply H.
  rewrite <- (firstn_skipn n l). apply in_or_app. right. exact Hx. Qed.

Theorem build_lich_spec lsf i : all_bytes lsf -> length lsf = 30%nat -> (i < 6)%nat ->
  bytes_bits (nth i (build_lich junk lsf) []) = spec_lich lsf (N.of_nat i)
  /\ all_bytes (nth i (build_lich junk lsf) []) /\ length (nth i (build_lich junk lsf) []) = 12%nat.
Proof. intros Hl Ll Hi. unfold build_lich. change ConstsModulator.lich_count with 6%nat. change ConstsModulator.lich_chunk_len with 5%nat.
  assert (E : nth i (map (fun i0 : nat => make_lich_segment junk (firstn 5 (skipn (i0 * 5) lsf)) (u8 (N.of_nat i0))) (seq 0 6)) []
              = make_lich_segment junk (firstn 5 (skipn (i * 5) lsf)) (u8 (N.of_nat i))).
  { destruct i as [|[|[|[|[|[|i]]]]]]; try lia; reflexivity. }
  rewrite E. clear E. rewrite u8_small by lia.
  destruct (chunk5 lsf i Ll Hi) as [s0 [s1 [s2 [s3 [s4 E5]]]]].
  assert (H5 : all_bytes [s0; s1; s2; s3; s4]) by (rewrite <- E5; apply all_bytes_firstn, all_bytes_skipn; exact Hl).
  unfold spec_lich, lich_chunk. rewrite Nat2N.id, (Nat.mul_comm 5 i), E5.
  apply make_lich_segment_spec; [exact H5 | lia]. Qed.

Lemma build_lich_length lsf : length (build_lich junk lsf) = 6%nat.
Proof. unfold build_lich. rewrite map_length, seq_length. reflexivity. Qed.

(** the stream frame for LICH fragment n of [lsf] and a 16-bit frame-number field [fnraw] *)
Theorem stream_frame_bytes lsf n fnraw payload : all_bytes lsf -> length lsf = 30%nat -> (n < 6)%nat ->
  all_bytes payload -> length payload = 16%nat ->
  send_audio_frame junk (nth n (build_lich junk lsf) []) (make_payload junk fnraw payload) =
  ConstsModulator.sync_stream ++ bits_bytes (spec_finish (spec_lich lsf (N.of_nat n) ++
                                            spec_puncture SpecM17.P2 (spec_conv (bytes_bits (be_bytes 2 fnraw ++ payload))))).
Proof. intros Hl Ll Hn Hp Lp. destruct (build_lich_spec lsf n Hl Ll Hn) as [E1 [A1 L1]].
  destruct (make_payload_spec fnraw payload Hp Lp) as [E2 [A2 L2]].
  rewrite send_audio_frame_spec by assumption. rewrite E1, E2. reflexivity. Qed.
End Frames.

(** ** the frame-number field *)
Lemma fn_sweep : below 15 (fun fn => (u16 (N.lor fn ConstsModulator.eos_mask) =? fn mod 32768 + 32768) && (fn mod 32768 + 0 =? fn)) = true.
Proof. vm_cast_no_check (eq_refl true). Qed.
Lemma fn_field_plain fn : fn < 32768 -> be_bytes 2 fn = fn_field fn false.
Proof. intros H. pose proof (below_spec 15 _ fn_sweep fn H) as S. apply andb_prop in S. destruct S as [_ S].
  apply N.eqb_eq in S. unfold fn_field. rewrite S. reflexivity. Qed.
Lemma fn_field_eos fn : fn < 32768 -> be_bytes 2 (u16 (N.lor fn ConstsModulator.eos_mask)) = fn_field fn true.
Proof. intros H. pose proof (below_spec 15 _ fn_sweep fn H) as S. apply andb_prop in S. destruct S as [S _].
  apply N.eqb_eq in S. unfold fn_field. rewrite S. reflexivity. Qed.
