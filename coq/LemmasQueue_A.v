(** LemmasQueue_A — induction principle over reachable configurations, the source audit facts the model is
    parameterised by, and mutual exclusion (the thread inside a critical section is the mutex owner). *)
From Coq Require Import ZArith List Bool Arith Lia.
From M17 Require Import ImplQueue SpecQueue ConstsQueue.
Import ListNotations.

(** facts regenerated from queue.h on every run: if a lock disappears from a method these stop being provable *)
Lemma locks_all : forall o, locks o = true.
Proof. intros [ | | | |[]]; reflexivity. Qed.
Lemma drain_assigns_all : forall o, drain_assigns o = true.
Proof. intros []; reflexivity. Qed.
Lemma put_no_deadline_ok : ConstsQueue.put_no_deadline = true. Proof. reflexivity. Qed.
Lemma get_no_deadline_ok : ConstsQueue.get_no_deadline = true. Proof. reflexivity. Qed.
(* put/get/get_until notify a waiter of the other side on every successful push/pop (regenerated source audit) *)
Lemma notify_one_ok : ConstsQueue.put_notify_one_unconditional = true /\ ConstsQueue.get_notify_one_unconditional = true /\
  ConstsQueue.get_until_notify_one_unconditional = true.
Proof. repeat split; reflexivity. Qed.

Lemma close_notify_all_ok : ConstsQueue.close_notify_all_full = true /\ ConstsQueue.close_notify_all_empty = true.
Proof. split; reflexivity. Qed.

Section A.
Variable cap : nat.

Lemma reach_init n0 : reachable cap (init n0).
Proof. exists n0, []. constructor. Qed.
Lemma reach_step c t l c' : reachable cap c -> step cap c t l c' -> reachable cap c'.
Proof. intros (n0 & ls & H) S. exists n0, (ls ++ [(t, l)]). econstructor; eauto. Qed.
Lemma reach_ind (P : config -> Prop) :
  (forall n0, P (init n0)) ->
  (forall c t l c', reachable cap c -> P c -> step cap c t l c' -> P c') ->
  forall c, reachable cap c -> P c.
Proof.
  intros Hi Hs c (n0 & ls & H). induction H.
  - apply Hi.
  - eapply Hs; eauto. exists n0, ls. assumption.
Qed.
Lemma steps_reach c ls c' : reachable cap c -> steps cap c ls c' -> reachable cap c'.
Proof. intros R H. induction H; auto. eapply reach_step; eauto. Qed.

(** inside the critical section = between the lock acquisition and the return, except while blocked in a wait *)
Definition cs (x : option (op * point)) : bool :=
  match x with
  | Some (_, p) => match p with XLock | PWaiting _ | PWoken _ | GWaiting _ | GWoken _ => false | _ => true end
  | None => false
  end.
Definition mutex_inv (c : config) : Prop := forall u, cs (pcs c u) = true <-> mutex c = Some u.

Lemma upd_same {A} (f : tid -> A) t x : upd f t x t = x.
Proof. unfold upd. now rewrite Nat.eqb_refl. Qed.
Lemma upd_other {A} (f : tid -> A) t x u : u <> t -> upd f t x u = f u.
Proof. unfold upd. intros H. apply Nat.eqb_neq in H. now rewrite H. Qed.
Lemma first_cs o : cs (Some (o, first o)) = true.
Proof. destruct o; reflexivity. Qed.
Lemma holds_true c t : mutex c = Some t -> holds c t = true.
Proof. unfold holds. intros ->. apply Nat.eqb_refl. Qed.
Lemma holds_iff c t : holds c t = true <-> mutex c = Some t.
Proof. unfold holds. destruct (mutex c); split; try discriminate; intros H.
  - apply Nat.eqb_eq in H. now subst. - injection H as ->. apply Nat.eqb_refl. Qed.

End A.

(** unfold the configuration updates *)
Ltac unf :=
  unfold fail, go, hpush, set_items, set_size, set_state, set_mutex, set_wfull, set_wempty, set_now, set_pcs,
         set_enq, set_deq in *; cbn [items size_ st mutex wfull wempty now pcs enq deq hist] in *.
(** split on every conditional of the goal/hypotheses *)
Ltac brk :=
  repeat match goal with
         | |- context [if ?b then _ else _] => destruct b eqn:?
         end.
Ltac inv_step S := inversion S; subst; clear S; unfold at_ in *.

Section A2.
Variable cap : nat.

Lemma mutex_inv_reach : forall c, reachable cap c -> mutex_inv c.
Proof.
  apply reach_ind.
  - intros n0 u. cbn. split; discriminate.
  - intros c t l c' _ IH S.
    assert (Hh : forall o p, pcs c t = Some (o, p) -> cs (Some (o, p)) = true -> holds c t = true).
    { intros o p E C. apply holds_true, IH. now rewrite E. }
    assert (Hr : forall o p, pcs c t = Some (o, p) -> cs (Some (o, p)) = true -> release c t = set_mutex c None).
    { intros o p E C. unfold release. now rewrite (Hh o p E C). }
    assert (Hm : forall o p, pcs c t = Some (o, p) -> cs (Some (o, p)) = true -> mutex c = Some t).
    { intros o p E C. apply IH. now rewrite E. }
    assert (Hn : forall o p, pcs c t = Some (o, p) -> cs (Some (o, p)) = false -> mutex c <> Some t).
    { intros o p E C M. apply IH in M. rewrite E in M. congruence. }
    inv_step S;
      try (match goal with H : locks _ = false |- _ => rewrite locks_all in H; discriminate end);
      try (match goal with H : pcs c t = Some (?o, ?p) |- _ =>
             (rewrite (Hr o p H eq_refl) || idtac);
             first [ pose proof (Hm o p H eq_refl) as HM | pose proof (Hn o p H eq_refl) as HM ] end);
      intros uu; brk; unf;
      (destruct (Nat.eq_dec uu t) as [->|Ne];
       [ pose proof (IH t) as IHt; rewrite ?upd_same | pose proof (IH uu) as IHu; rewrite ?(upd_other _ _ _ _ Ne) ]);
      rewrite ?first_cs;
      try match goal with H : pcs c t = _ |- _ => rewrite H in * end;
      cbn [cs] in *; intuition congruence.
Qed.
End A2.

Section A3.
Variable cap : nat.

(** every step that reads or writes queue_/size_/state_ is made by the owner of the mutex *)
Lemma race_free_lemma : forall c t l c',
  reachable cap c -> step cap c t l c' -> accesses_shared l -> mutex c = Some t.
Proof.
  intros c t l c' R S A. pose proof (mutex_inv_reach cap c R t) as M.
  inv_step S; try contradiction;
    try (match goal with H : pcs c t = _ |- _ => rewrite H in M end; apply M; reflexivity).
Qed.

Lemma held_flag_true : forall c t l c' h,
  reachable cap c -> step cap c t l c' -> held_flag l = Some h -> h = true.
Proof.
  intros c t l c' h R S F.
  assert (A : accesses_shared l) by (destruct l; cbn in F; try discriminate; exact I).
  pose proof (holds_true c t (race_free_lemma c t l c' R S A)) as Hh.
  inv_step S; cbn in F; try discriminate; try (injection F as <-; exact Hh).
  destruct (drain_assigns o); cbn in F; injection F as <-; exact Hh.
Qed.

(** in particular the mutex owner is unique and is the only thread inside a critical section *)
Lemma cs_unique : forall c t u, reachable cap c -> cs (pcs c t) = true -> cs (pcs c u) = true -> t = u.
Proof.
  intros c t u R A B. apply (mutex_inv_reach cap c R) in A. apply (mutex_inv_reach cap c R) in B. congruence.
Qed.
End A3.
