(** C12 — FloatType = double (binary64), the width the modem uses (ConstsLlr.llr_width_modem = 4):
    the finite facts about the 43-row table computed by [make_llr_map F64 4] (each closed by [vm_compute]; the table
    itself is recomputed inside Coq from the constants of the repository), and the clauses of the property for every
    [x : binary64] obtained from LemmasLLR_D. *)
From Coq Require Import ZArith QArith Lia List Bool Floats.SpecFloat.
From Flocq Require Import IEEE754.Binary IEEE754.Bits.
From M17 Require Import ConstsLlr ImplLLR SpecLLR LemmasLLR_A LemmasLLR_B LemmasLLR_C LemmasLLR_D.
Import ListNotations.
Open Scope Z_scope.

Definition tbl64 : list row := make_llr_map F64 llr_width_modem.
Definition Sp64 : positive := (2 ^ 1074)%positive.

(** exported: the soft demapper the modem uses, on Flocq's binary64 and on IEEE bit patterns *)
Definition llr4_double (x : binary64) : Z * Z := llr F64 llr_width_modem (B2SF 53 1024 x).
Definition llr4_double_bits (b : Z) : Z * Z := llr F64 llr_width_modem (sf_of_bits F64 b).
Definition B2Q64 (x : binary64) : Q := SF2Q (B2SF 53 1024 x).

Lemma Hprec64 : 0 < 53. Proof. reflexivity. Qed.
Lemma Hemax64 : 53 < 1024. Proof. reflexivity. Qed.
Lemma HSp64 : Zpos Sp64 = 2 ^ (- SpecFloat.emin 53 1024). Proof. vm_compute. reflexivity. Qed.

Lemma tbl64_rows : length tbl64 = 43%nat. Proof. vm_compute. reflexivity. Qed.

(** table_ok: the finite facts *)
Lemma C64_valid : chk_valid 53 1024 tbl64 = true. Proof. vm_compute. reflexivity. Qed.
Lemma C64_sorted : chk_sorted 53 1024 tbl64 = true. Proof. vm_compute. reflexivity. Qed.
Lemma C64_bounds : chk_bounds 53 1024 Sp64 = true. Proof. vm_compute. reflexivity. Qed.
Lemma C64_soft : chk_soft tbl64 llr_width_modem = true. Proof. vm_compute. reflexivity. Qed.
Lemma C64_sign : chk_sign 53 1024 tbl64 Sp64 = true. Proof. vm_compute. reflexivity. Qed.
Lemma C64_first : chk_first tbl64 = true. Proof. vm_compute. reflexivity. Qed.
Lemma C64_second_pos : chk_second_pos 53 1024 tbl64 = true. Proof. vm_compute. reflexivity. Qed.
Lemma C64_second_neg : chk_second_neg 53 1024 tbl64 = true. Proof. vm_compute. reflexivity. Qed.

Lemma valid_B2SF64 : forall x : binary64, SpecFloat.valid_binary 53 1024 (B2SF 53 1024 x) = true.
Proof. intros [s|s|s pl H|s m e H]; try reflexivity. exact H. Qed.

Definition fle64 (x y : binary64) : Prop := Bcompare 53 1024 x y = Some Lt \/ Bcompare 53 1024 x y = Some Eq.
Lemma fle64_sf_le : forall x y, fle64 x y -> sf_le (B2SF 53 1024 x) (B2SF 53 1024 y).
Proof.
  intros x y H. unfold fle64, Bcompare, BinarySingleNaN.Bcompare in H. rewrite !B2SF_B2BSN in H. exact H.
Qed.

Lemma soft_ok_prop64 : forall L v, soft_ok L v = true ->
  fst v <> 0 /\ - full_scale L <= fst v <= full_scale L /\ snd v <> 0 /\ - full_scale L <= snd v <= full_scale L.
Proof.
  intros L v H. unfold soft_ok in H.
  repeat match goal with H : _ && _ = true |- _ => apply andb_prop in H; destruct H end.
  repeat match goal with
         | H : negb _ = true |- _ => apply negb_true_iff in H; apply Z.eqb_neq in H
         | H : (_ <=? _) = true |- _ => apply Z.leb_le in H
         end.
  lia.
Qed.

Theorem llr64_nonzero_inrange : forall x : binary64,
  let v := llr4_double x in fst v <> 0 /\ -7 <= fst v <= 7 /\ snd v <> 0 /\ -7 <= snd v <= 7.
Proof.
  intro x. apply (soft_ok_prop64 llr_width_modem).
  exact (final_soft_ok 53 1024 Hprec64 Hemax64 tbl64 llr_width_modem Sp64 C64_valid C64_sorted C64_bounds C64_soft (B2SF 53 1024 x) (valid_B2SF64 x)).
Qed.

Lemma finite_sf64 : forall x : binary64, is_finite 53 1024 x = true -> sf_finite (B2SF 53 1024 x) = true.
Proof. intros [s|s|s pl H|s m e H]; simpl; auto. Qed.

Theorem llr64_sign : forall x : binary64, is_finite 53 1024 x = true -> far_from_boundaries (B2Q64 x) ->
  soft_dibit (llr4_double x) = nearest_dibit (B2Q64 x).
Proof.
  intros x F G.
  exact (final_sign 53 1024 Hprec64 Hemax64 tbl64 Sp64 HSp64 C64_valid C64_sorted C64_bounds C64_sign
                    (B2SF 53 1024 x) (valid_B2SF64 x) (finite_sf64 x F) G).
Qed.

Theorem llr64_first_antitone : forall x y : binary64, fle64 x y -> fst (llr4_double y) <= fst (llr4_double x).
Proof.
  intros x y H.
  exact (final_first_antitone 53 1024 Hprec64 Hemax64 tbl64 Sp64 C64_valid C64_sorted C64_bounds C64_first
                              (B2SF 53 1024 x) (B2SF 53 1024 y) (valid_B2SF64 x) (valid_B2SF64 y) (fle64_sf_le x y H)).
Qed.

Definition zero64 : binary64 := B754_zero 53 1024 false.

Theorem llr64_second_monotone_in_abs : forall x y : binary64,
  (fle64 zero64 x /\ fle64 x y) \/ (fle64 y x /\ fle64 x zero64) ->
  snd (llr4_double x) <= snd (llr4_double y).
Proof.
  intros x y [[H0 H]|[H H0]].
  - exact (final_second_pos 53 1024 Hprec64 Hemax64 tbl64 Sp64 HSp64 C64_valid C64_sorted C64_bounds C64_second_pos
                            (S754_zero false) (B2SF 53 1024 x) (B2SF 53 1024 y) (valid_B2SF64 x) (valid_B2SF64 y) (or_introl eq_refl)
                            (fle64_sf_le zero64 x H0) (fle64_sf_le x y H)).
  - exact (final_second_neg 53 1024 Hprec64 Hemax64 tbl64 Sp64 HSp64 C64_valid C64_sorted C64_bounds C64_second_neg
                            (S754_zero false) (B2SF 53 1024 x) (B2SF 53 1024 y) (valid_B2SF64 x) (valid_B2SF64 y) (or_introl eq_refl)
                            (fle64_sf_le y x H) (fle64_sf_le x zero64 H0)).
Qed.

(** ideal levels and the clamp bounds as binary64 data (mantissa, exponent; [bounded] by computation) *)
Definition f64 (s : bool) (m : positive) (e : Z) (H : SpecFloat.bounded 53 1024 m e = true) : binary64 := B754_finite 53 1024 s m e H.
Definition p1_64 : binary64 := f64 false 4503599627370496 (-52) eq_refl.    (* +1.0 *)
Definition m1_64 : binary64 := f64 true 4503599627370496 (-52) eq_refl.     (* -1.0 *)
Definition p3_64 : binary64 := f64 false 6755399441055744 (-51) eq_refl.   (* +3.0 *)
Definition m3_64 : binary64 := f64 true 6755399441055744 (-51) eq_refl.    (* -3.0 *)

Lemma p3_is_max : B2SF 53 1024 p3_64 = sf_conv F64 llr_max_value. Proof. vm_compute. reflexivity. Qed.
Lemma m3_is_min : B2SF 53 1024 m3_64 = sf_conv F64 llr_min_value. Proof. vm_compute. reflexivity. Qed.

Theorem llr64_levels :
  llr4_double p3_64 = (-7, 7) /\ llr4_double p1_64 = (-7, -7) /\ llr4_double m1_64 = (7, -7) /\ llr4_double m3_64 = (7, 7).
Proof. vm_compute. auto. Qed.

Theorem llr64_beyond : forall x : binary64,
  (fle64 p3_64 x -> llr4_double x = (-7, 7)) /\ (fle64 x m3_64 -> llr4_double x = (7, 7)).
Proof.
  intro x. split; intro H.
  - apply fle64_sf_le in H. rewrite p3_is_max in H.
    transitivity (llr_with tbl64 (Fmt 53 1024) (sf_conv (Fmt 53 1024) llr_max_value)).
    + exact (final_beyond_max 53 1024 Hprec64 Hemax64 tbl64 Sp64 C64_valid C64_sorted C64_bounds (B2SF 53 1024 x) (valid_B2SF64 x) H).
    + vm_compute. reflexivity.
  - apply fle64_sf_le in H. rewrite m3_is_min in H.
    transitivity (llr_with tbl64 (Fmt 53 1024) (sf_conv (Fmt 53 1024) llr_min_value)).
    + exact (final_beyond_min 53 1024 Hprec64 Hemax64 tbl64 Sp64 C64_valid C64_sorted C64_bounds (B2SF 53 1024 x) (valid_B2SF64 x) H).
    + vm_compute. reflexivity.
Qed.

Theorem llr64_nan_inf :
  (forall x : binary64, is_nan 53 1024 x = true -> llr4_double x = (7, 7)) /\
  llr4_double (B754_infinity 53 1024 false) = (-7, 7) /\
  llr4_double (B754_infinity 53 1024 true) = (7, 7).
Proof.
  split; [|split].
  - intros [s|s|s pl H|s m e H] Hn; try discriminate. vm_compute. reflexivity.
  - vm_compute. reflexivity.
  - vm_compute. reflexivity.
Qed.

(** the bit-pattern entry point agrees with the binary64 one *)
Lemma llr4_double_bits_spec : forall x : binary64, llr4_double x = llr F64 llr_width_modem (B2SF 53 1024 x).
Proof. reflexivity. Qed.
