(** CRC: transfer of the specification-side facts (LemmasCRC_B) to the C++ engine (LemmasCRC_A). *)
From Coq Require Import NArith List Bool Lia.
From M17 Require Import Bits ImplCRC SpecCRC ConstsCrc LemmasCRC_A LemmasCRC_B.
Import ListNotations.
Local Open Scope N_scope.

(* ---------- transfer of the specification-side facts (LemmasCRC_B) to the C++ engine ---------- *)


Lemma sites_forall : Forall (fun s => fst s = 0x5935 /\ snd s = 0xFFFF) ConstsCrc.crc_sites.
Proof. apply Forall_forall. intros s Hs. pose proof sites_ok as S. rewrite forallb_forall in S.
  apply S in Hs. apply andb_prop in Hs. destruct Hs as [A B]. apply N.eqb_eq in A. apply N.eqb_eq in B. split; assumption. Qed.

Lemma crc_bytes_of_eq bytes :
  crc_bytes_of P I bytes = [N.land (N.shiftr (crc_of P I bytes) 8) 0xFF; N.land (crc_of P I bytes) 0xFF].
Proof. exact eq_refl. Qed.

Lemma get_bytes_hi_lo bytes : crc_bytes_of P I bytes = crc_hi_lo (m17_crc bytes).
Proof. rewrite crc_bytes_of_eq, crc_impl_is_m17_lemma.
  assert (L : m17_crc bytes < 65536) by (apply direct_bits_lt; exact eq_refl).
  generalize dependent (m17_crc bytes). intros c L.
  unfold crc_hi_lo. f_equal.
  change 255 with (N.ones 8). rewrite N.land_ones. apply N.mod_small.
  rewrite N.shiftr_div_pow2. apply N.div_lt_upper_bound; [discriminate|]. exact L. Qed.

Lemma residue_zero_impl m : crc_of P I (m ++ crc_bytes_of P I m) = 0.
Proof. rewrite crc_impl_is_m17_lemma, get_bytes_hi_lo. apply residue_zero. Qed.

Lemma burst_detected_impl (m e : list N) (a b : nat) (w : list bool) :
  length m = length e -> bytes_bits e = repeat false a ++ w ++ repeat false b ->
  (length w <= 16)%nat -> existsb (fun x => x) w = true ->
  crc_of P I (xor_bytes m e) <> crc_of P I m.
Proof. intros L E Lw Ew. rewrite !crc_impl_is_m17_lemma. apply changes_if_crc0_nonzero; [exact L|].
  rewrite E. apply burst_nonzero; assumption. Qed.

Lemma single_detected_impl (m e : list N) (a b : nat) :
  length m = length e -> bytes_bits e = repeat false a ++ [true] ++ repeat false b ->
  crc_of P I (xor_bytes m e) <> crc_of P I m.
Proof. intros L E. apply (burst_detected_impl m e a b [true] L E); [cbn; lia | reflexivity]. Qed.

Lemma double_detected_impl (m e : list N) (a d b : nat) :
  length m = length e -> (d < 239)%nat ->
  bytes_bits e = repeat false a ++ [true] ++ repeat false d ++ [true] ++ repeat false b ->
  crc_of P I (xor_bytes m e) <> crc_of P I m.
Proof. intros L Hd E. rewrite !crc_impl_is_m17_lemma. apply changes_if_crc0_nonzero; [exact L|].
  rewrite E. apply double_nonzero. exact Hd. Qed.
