(** What the DSP primitives are *defined* to compute (written from the property statement / textbook
    definitions, independently of the code): finite sums over a commutative ring, the convolution sum,
    the IIR difference equation, the DFT bin of a window, the cascade of two filters, and the
    Nyquist (zero-ISI) criterion on an integer tap table. *)
From Coq Require Import Arith ZArith List Bool.
Import ListNotations.

(** Σ_{i<n} f i   and   w^k   in any structure with a zero/addition, one/multiplication *)
Fixpoint gsum {K : Type} (zero : K) (add : K -> K -> K) (f : nat -> K) (n : nat) : K :=
  match n with O => zero | S k => add (gsum zero add f k) (f k) end.
Fixpoint gpow {K : Type} (one : K) (mul : K -> K -> K) (w : K) (k : nat) : K :=
  match k with O => one | S j => mul w (gpow one mul w j) end.

Section Spec.
Variable R : Type.
Variables (r0 r1 : R) (radd rmul rsub : R -> R -> R).

(** Σ_{i<n} f i *)
Definition rsum (f : nat -> R) (n : nat) : R := gsum r0 radd f n.

(** the sequence x as a function of time, zero outside the list *)
Definition at_ (xs : list R) (n : nat) : R := nth n xs r0.

(** convolution sum at time n:  Σ_{i < N, i <= n} taps_i * x_{n-i}   (zero initial state) *)
Definition conv_at (taps xs : list R) (n : nat) : R :=
  rsum (fun i => if i <=? n then rmul (nth i taps r0) (nth (n - i) xs r0) else r0) (length taps).

(** the full discrete convolution of two finite sequences (length |a|+|b|-1): the cascade of two FIR filters *)
Definition convolve (a b : list R) : list R := map (conv_at a b) (seq 0 (length a + length b - 1)).

(** feedback part of the difference equation:  Σ_{1 <= i < N, i <= n} a_i * y_{n-i} *)
Definition feedback_at (a ys : list R) (n : nat) : R :=
  rsum (fun i => if (1 <=? i) && (i <=? n) then rmul (nth i a r0) (nth (n - i) ys r0) else r0) (length a).

(** pointwise operations on sequences (for linearity) *)
Definition seq_add (xs ys : list R) : list R := map (fun p => radd (fst p) (snd p)) (combine xs ys).
Definition seq_scale (k : R) (xs : list R) : list R := map (rmul k) xs.

(** complex numbers over the ring, as pairs *)
Definition cx : Type := (R * R)%type.
Definition cx0 : cx := (r0, r0).
Definition cx1 : cx := (r1, r0).
Definition cx_add (z w : cx) : cx := (radd (fst z) (fst w), radd (snd z) (snd w)).
Definition cx_mul (z w : cx) : cx :=
  (rsub (rmul (fst z) (fst w)) (rmul (snd z) (snd w)), radd (rmul (fst z) (snd w)) (rmul (snd z) (fst w))).
Definition cx_sub (z w : cx) : cx := (rsub (fst z) (fst w), rsub (snd z) (snd w)).
Definition cx_of_real (x : R) : cx := (x, r0).
Definition cx_conj (z : cx) : cx := (fst z, rsub r0 (snd z)).
(** squared magnitude |z|^2 (std::norm) *)
Definition cx_norm (z : cx) : R := radd (rmul (fst z) (fst z)) (rmul (snd z) (snd z)).
Definition cx_pow (w : cx) (k : nat) : cx := gpow cx1 cx_mul w k.
Definition cx_sum (f : nat -> cx) (n : nat) : cx := gsum cx0 cx_add f n.

(** DFT bin of the real window v with twiddle u:  Σ_{j < |v|} v_j * u^j
    (the textbook bin k of an N-point DFT is [dft_bin (exp(-2 pi i k/N)) v]) *)
Definition dft_bin (u : cx) (v : list R) : cx :=
  cx_sum (fun j => cx_mul (cx_of_real (nth j v r0)) (cx_pow u j)) (length v).

(** the last N samples up to and including time n (n >= N-1) *)
Definition window (N : nat) (xs : list R) (n : nat) : list R := firstn N (skipn (n + 1 - N) xs).
End Spec.

(** ** Integer tap tables: value_i = mant_i / 2^exp *)
Local Open Scope Z_scope.

Definition zconvolve (a b : list Z) : list Z := convolve Z 0 Z.add Z.mul a b.

(** m1/2^e1 = m2/2^e2 *)
Definition same_dyadic (e1 : N) (m1 : Z) (e2 : N) (m2 : Z) : Prop :=
  m1 * 2 ^ Z.of_N e2 = m2 * 2 ^ Z.of_N e1.
(** |m1/2^e1 - m2/2^e2| <= 2^-k * |m2/2^e2| *)
Definition within_rel (k : Z) (e1 : N) (m1 : Z) (e2 : N) (m2 : Z) : Prop :=
  Z.abs (m1 * 2 ^ Z.of_N e2 - m2 * 2 ^ Z.of_N e1) * 2 ^ k <= Z.abs (m2 * 2 ^ Z.of_N e1).

(** the table is symmetric about index p, zero beyond its mirror image, and p is its strict maximum *)
Definition symmetric_about (p : nat) (t : list Z) : Prop :=
  (p < length t)%nat /\
  (forall i, (i <= 2 * p)%nat -> nth i t 0 = nth (2 * p - i) t 0) /\
  (forall i, (2 * p < i)%nat -> nth i t 0 = 0) /\
  (forall i, i <> p -> nth i t 0 < nth p t 0).

(** Σ |c_i| over the symbol-spaced side taps (i ≡ p mod sps, i <> p) *)
Definition side_sum (sps p : nat) (c : list Z) : Z :=
  fold_right Z.add 0
    (map (fun i => if ((i mod sps =? p mod sps)%nat && negb (i =? p)%nat)%bool then Z.abs (nth i c 0) else 0) (seq 0 (length c))).

(** zero-ISI within tolerance: the main tap c_p is the positive maximum; every symbol-spaced side tap is
    below 0.5 % of it, and their absolute sum is below 2 % of it (normalisation by c_p done by cross-multiplying) *)
Definition nyquist_holds (sps p : nat) (c : list Z) : Prop :=
  (p < length c)%nat /\ 0 < nth p c 0 /\
  (forall i, (i < length c)%nat -> nth i c 0 <= nth p c 0) /\
  (forall i, (i < length c)%nat -> i <> p -> (i mod sps = p mod sps)%nat -> 1000 * Z.abs (nth i c 0) < 5 * nth p c 0) /\
  100 * side_sum sps p c < 2 * nth p c 0.
