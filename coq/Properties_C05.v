(** C05 — link setup is reported only if CRC-valid, and is rebuilt exactly from LICH.
    Model: ImplFrameDecoder.v (mirror of M17FrameDecoder.h) instantiated in FrameDecoderInst.v with the mirrors of
    the real pipeline stages.  Only property theorems here, each closed by [exact]. *)
From Coq Require Import NArith ZArith List Bool.
From M17 Require Import Bits ImplCRC ConstsCrc ImplFrameDecoder FrameDecoderInst ImplViterbi ImplGolay SpecGolay
  LemmasFD_LSF LemmasFD_Lich LemmasFD_Inst LemmasFD_Consts LemmasFD_Examples Properties_C09.
Import ListNotations.
Local Open Scope N_scope.

(** 1. Whatever state the decoder is in (mode, collected fragments, any buffer contents) and whatever frame arrives
       under whatever sync type: every LSF handed to the callback passes the M17 CRC ... *)
Theorem c05_lsf_callback_crc_ok : forall (s : fd_state) (sw : sync) (fr : list Z) (r : bool) (cb : callback),
  In cb (cbs_of scratch (fd_step s sw fr r)) -> cb_type cb = FLsf -> crc30 (cb_bytes cb) = 0.
Proof. exact fd_lsf_callback_crc_ok. Qed.
Print Assumptions c05_lsf_callback_crc_ok.

(** ... hence along every history of frames (valid, corrupted, fragments of different transmissions) *)
Theorem c05_lsf_callback_crc_ok_history : forall (h : list (sync * list Z * bool)) (s : fd_state) obs (cb : callback),
  In obs (fst (fd_run s h)) -> In cb (snd obs) -> cb_type cb = FLsf -> crc30 (cb_bytes cb) = 0.
Proof. exact fd_lsf_callback_crc_ok_history. Qed.
Print Assumptions c05_lsf_callback_crc_ok_history.

(** the decoder's CRC is the M17 CRC (C09), so "passes the CRC" means what the specification means *)
Theorem c05_crc30_is_m17 : forall l : list N, crc30 l = SpecCRC.crc_direct 0x5935 0xFFFF l.
Proof. exact c09_crc_impl_is_m17. Qed.
Print Assumptions c05_crc30_is_m17.

(** 2. Golay/LICH unpacking: if each of the four 24-bit words is a code word of a 12-bit value hit by at most three
       bit errors (any positions, the parity bit included), the six LICH bytes are those 48 bits, exactly. *)
Theorem c05_unpack_lich_corrects : forall (fr : list Z) (q0 q1 q2 q3 : list bool) (e0 e1 e2 e3 : N),
  length q0 = 12%nat -> length q1 = 12%nat -> length q2 = 12%nat -> length q3 = 12%nat ->
  e0 < 2 ^ 24 -> e1 < 2 ^ 24 -> e2 < 2 ^ 24 -> e3 < 2 ^ 24 ->
  weight e0 <= 3 -> weight e1 <= 3 -> weight e2 <= 3 -> weight e3 <= 3 ->
  codeword fr 0 = N.lxor (golay_encode24 (bits_N q0)) e0 -> codeword fr 1 = N.lxor (golay_encode24 (bits_N q1)) e1 ->
  codeword fr 2 = N.lxor (golay_encode24 (bits_N q2)) e2 -> codeword fr 3 = N.lxor (golay_encode24 (bits_N q3)) e3 ->
  unpack_lich fd_golay fr = (pack_bits (q0 ++ q1 ++ q2 ++ q3), true).
Proof. exact fd_unpack_lich_bits. Qed.
Print Assumptions c05_unpack_lich_corrects.

(** 3. One LICH-carrying frame in link-setup mode, given the six bytes its Golay words decode to:
       fragment numbers 6 and 7 change nothing that is collected; numbers 0..5 fill exactly that slot and set exactly
       that bit; when the bitmap is full and the buffer passes the CRC the LSF is reported exactly and stream mode entered. *)
Theorem c05_lich_fragment_step : forall (s : fd_state) (fr : list Z) (lich : list N),
  unpack_lich fd_golay fr = (lich, true) ->
  let n := frag_of lich in
  let o := decode_lich scratch fd_golay s fr in
  (5 < n ->
     d_mode scratch (st_of scratch o) = d_mode scratch s /\ d_seg scratch (st_of scratch o) = d_seg scratch s /\
     d_lsf scratch (st_of scratch o) = d_lsf scratch s /\
     res_of scratch o = RIncomplete /\ cbs_of scratch o = [mkcb FLich lich 0]) /\
  (n <= 5 ->
     let lsf' := put_slot (N.to_nat n) (firstn 5 lich) (d_lsf scratch s) in
     let seg' := seg_after (d_seg scratch s) n in
     if (N.land seg' 0x3F =? 0x3F) && (crc30 lsf' =? 0) then
       d_mode scratch (st_of scratch o) = MStream /\ d_seg scratch (st_of scratch o) = 0 /\ d_lsf scratch (st_of scratch o) = lsf' /\
       res_of scratch o = ROk /\ cost_of scratch o = Some 0%Z /\ cbs_of scratch o = [mkcb FLich lich 0; mkcb FLsf lsf' 0]
     else
       d_mode scratch (st_of scratch o) = d_mode scratch s /\ d_seg scratch (st_of scratch o) = seg' /\ d_lsf scratch (st_of scratch o) = lsf' /\
       res_of scratch o = RIncomplete /\ cbs_of scratch o = [mkcb FLich lich 0]).
Proof. exact (decode_lich_spec scratch fd_golay). Qed.
Print Assumptions c05_lich_fragment_step.

(** slot and bitmap arithmetic of the step above: exactly slot n / bit n change *)
Theorem c05_slot_update : forall (n : nat) (chunk lsf : list N), length lsf = 30%nat -> length chunk = 5%nat -> (n <= 5)%nat ->
  length (put_slot n chunk lsf) = 30%nat /\ slot n (put_slot n chunk lsf) = chunk /\
  forall k, (k <= 5)%nat -> k <> n -> slot k (put_slot n chunk lsf) = slot k lsf.
Proof. exact put_slot_spec. Qed.
Print Assumptions c05_slot_update.

Theorem c05_bitmap_update : forall seg n k : N, n <= 5 -> k <= 5 ->
  N.testbit (seg_after seg n) k = N.testbit seg k || (k =? n).
Proof. exact seg_after_bits. Qed.
Print Assumptions c05_bitmap_update.

(** 4. "As soon as the fragments held for all six positions come from the same LSF L (any order, repeats), L is reported
       bit-exact when the last of them arrives": if, counting the arriving fragment, all six bitmap bits are set and every
       slot holds the corresponding five bytes of a CRC-valid L, this call reports L, returns OK and enters stream mode. *)
Theorem c05_reassembly_exact : forall (s : fd_state) (fr : list Z) (lich L : list N),
  unpack_lich fd_golay fr = (lich, true) ->
  let n := frag_of lich in n <= 5 ->
  length (d_lsf scratch s) = 30%nat -> length lich = 6%nat -> length L = 30%nat -> crc30 L = 0 ->
  (forall k, k <= 5 -> k <> n -> N.testbit (d_seg scratch s) k = true) ->
  (forall k, (k <= 5)%nat -> k <> N.to_nat n -> slot k (d_lsf scratch s) = slot k L) ->
  firstn 5 lich = slot (N.to_nat n) L ->
  let o := decode_lich scratch fd_golay s fr in
  res_of scratch o = ROk /\ d_mode scratch (st_of scratch o) = MStream /\ cost_of scratch o = Some 0%Z /\
  cbs_of scratch o = [mkcb FLich lich 0; mkcb FLsf L 0] /\ d_seg scratch (st_of scratch o) = 0.
Proof. exact (reassembly_exact scratch fd_golay). Qed.
Print Assumptions c05_reassembly_exact.

(** the literals of M17FrameDecoder.h the model was written with are the ones in the source now *)
Theorem c05_decoder_constants : (ConstsFramedecoder.max_lich_fragment = 5 /\ ConstsFramedecoder.seg_mask = 63 /\
  ConstsFramedecoder.seg_full = 63 /\ ConstsFramedecoder.frag_shift = 5 /\ ConstsFramedecoder.frag_mask = 7) /\
  ConstsFramedecoder.frag_copy_len = 5%nat /\ ConstsFramedecoder.frag_stride = 5%nat.
Proof. exact fd_consts_c05. Qed.
Print Assumptions c05_decoder_constants.

(** non-vacuity: a real LSF, six clean fragments in the order 3,1,0,2,5,4 - evaluated on the model *)
Example c05_example_reassembly : fd_example_reassembly_ok = true.
Proof. vm_compute. reflexivity. Qed.

(* ====================================================================================================================
   5. HISTORY level (LemmasFD_History.v): LICH reassembly over an ARBITRARY list of stream-sync frames.
   Ghost state computed from the frames alone: [held k] (k <= 5) = the five bytes of the LAST frame so far whose four
   Golay words unpacked and whose fragment number is k.  [assemble h] = the 30 bytes held if all six positions are held;
   [complete h] = that, if it also passes the CRC. *)
From M17 Require Import LemmasFD_History LemmasFD_HistoryInst.

(** how one frame updates the ghost state: undecodable frames and fragment numbers 6, 7 do not touch it; a decodable
    fragment n <= 5 replaces position n only *)
Theorem c05_reassembly_history_ghost_update : forall (h : held_t) (fr : list Z) (lich : list N) (ok : bool),
  unpack_lich fd_golay fr = (lich, ok) ->
  (ok = false -> fd_held_upd h fr = h) /\
  (ok = true -> 5 < frag_of lich -> fd_held_upd h fr = h) /\
  (ok = true -> frag_of lich <= 5 ->
     fd_held_upd h fr = (fun k => if Nat.eqb k (N.to_nat (frag_of lich)) then Some (firstn 5 lich) else h k)).
Proof. exact fd_held_upd_cases. Qed.
Print Assumptions c05_reassembly_history_ghost_update.

Theorem c05_reassembly_history_ghost_defs :
  (forall frs, fd_held_after held0 frs = fold_left fd_held_upd frs (fun _ => None)) /\
  (forall h, assemble h = match h 0%nat, h 1%nat, h 2%nat, h 3%nat, h 4%nat, h 5%nat with
                          | Some c0, Some c1, Some c2, Some c3, Some c4, Some c5 => Some (c0 ++ c1 ++ c2 ++ c3 ++ c4 ++ c5)
                          | _, _, _, _, _, _ => None
                          end) /\
  (forall h, complete h = match assemble h with Some L => if crc30 L =? 0 then Some L else None | None => None end) /\
  (forall hs, fd_frames_of hs = map (fun x => fd_deinterleave (fd_derandomize (snd (fst x)))) hs) /\
  (forall hs, all_stream hs <-> Forall (fun x => fst (fst x) = SStream) hs).
Proof. exact (conj (fun _ => eq_refl) (conj (fun _ => eq_refl) (conj (fun _ => eq_refl) (conj (fun _ => eq_refl) (fun _ => iff_refl _))))). Qed.
Print Assumptions c05_reassembly_history_ghost_defs.

(** the invariant "waiting for link setup, tracking h": link-setup mode; buffer 30 bytes; for k <= 5 bit k of the bitmap is
    set iff position k is held, and slot k of the buffer then holds exactly those five bytes; what is held is not reportable *)
Theorem c05_reassembly_history_invariant_def : forall (h : held_t) (s : fd_state),
  fd_waiting h s <->
  (d_mode scratch s = MLsf /\
   (length (d_lsf scratch s) = 30%nat /\
    forall k, (k <= 5)%nat ->
      match h k with
      | Some c => N.testbit (d_seg scratch s) (N.of_nat k) = true /\ slot k (d_lsf scratch s) = c
      | None => N.testbit (d_seg scratch s) (N.of_nat k) = false
      end) /\
   complete h = None).
Proof. exact (fun _ _ => iff_refl _). Qed.
Print Assumptions c05_reassembly_history_invariant_def.

Theorem c05_reassembly_history_start : fd_waiting held0 fd_init /\ (forall s, fd_waiting held0 (fd_reset s)) /\
  forall s : fd_state, d_mode scratch s = MLsf /\ d_seg scratch s = 0 /\ length (d_lsf scratch s) = 30%nat <-> fd_fresh s.
Proof. exact (conj (fresh_waiting scratch _ fd_init_fresh)
               (conj (fun s => fresh_waiting scratch _ (fd_reset_fresh s)) (fun _ => iff_refl _))). Qed.
Print Assumptions c05_reassembly_history_start.

(** one stream-sync frame from ANY waiting state, EXACT: it reports iff - counting this frame - all six positions are held
    and their concatenation passes the CRC; the report is that concatenation; otherwise it keeps waiting and tracking *)
Theorem c05_reassembly_history_frame : forall (h : held_t) (s : fd_state) (fr : list Z) (lich : list N) (ok : bool),
  fd_waiting h s -> unpack_lich fd_golay fr = (lich, ok) ->
  let h' := fd_held_upd h fr in
  let o := decode_lich scratch fd_golay s fr in
  match ok, complete h' with
  | false, _ =>
      h' = h /\ res_of scratch o = RFail /\ cbs_of scratch o = [] /\ fd_waiting h' (st_of scratch o)
  | true, Some L =>
      res_of scratch o = ROk /\ d_mode scratch (st_of scratch o) = MStream /\ cost_of scratch o = Some 0%Z /\
      cbs_of scratch o = [mkcb FLich lich 0; mkcb FLsf L 0] /\ d_seg scratch (st_of scratch o) = 0 /\
      d_lsf scratch (st_of scratch o) = L
  | true, None =>
      res_of scratch o = RIncomplete /\ cbs_of scratch o = [mkcb FLich lich 0] /\ fd_waiting h' (st_of scratch o)
  end.
Proof. exact fd_lich_frame_exact. Qed.
Print Assumptions c05_reassembly_history_frame.

(** the invariant holds along EVERY history of stream-sync frames that leaves the decoder waiting, from any waiting state;
    every call so far returned INCOMPLETE or FAIL with at most the LICH callback *)
Theorem c05_reassembly_history_invariant : forall (hs : list (sync * list Z * bool)) (h : held_t) (s : fd_state),
  fd_waiting h s -> all_stream hs -> fd_mode (snd (fd_run s hs)) = MLsf ->
  fd_waiting (fd_held_after h (fd_frames_of hs)) (snd (fd_run s hs)) /\
  Forall (fun ob : observation =>
            fst (fst (fst ob)) = MLsf /\ (snd (fst (fst ob)) = RIncomplete \/ snd (fst (fst ob)) = RFail) /\
            forall cb, In cb (snd ob) -> cb_type cb = FLich) (fst (fd_run s hs)).
Proof. exact fd_lich_history_waiting. Qed.
Print Assumptions c05_reassembly_history_invariant.

(** THE HISTORY THEOREM: a fresh decoder (as constructed / after reset(): link-setup mode, bitmap 0), ANY list hs of
    stream-sync frames after which it is still waiting, then one more stream-sync frame fr - exact outcome from the frames *)
Theorem c05_reassembly_history_exact : forall (hs : list (sync * list Z * bool)) (s : fd_state) (fr : list Z) (r : bool)
    (lich : list N) (ok : bool),
  fd_fresh s -> all_stream hs -> fd_mode (snd (fd_run s hs)) = MLsf ->
  unpack_lich fd_golay (fd_prep fr) = (lich, ok) ->
  let h := fd_held_after held0 (fd_frames_of hs) in
  let h' := fd_held_after held0 (fd_frames_of hs ++ [fd_prep fr]) in
  let o := fd_step (snd (fd_run s hs)) SStream fr r in
  fd_waiting h (snd (fd_run s hs)) /\ Forall fd_quiet_ob (fst (fd_run s hs)) /\
  match ok, complete h' with
  | false, _ =>
      h' = h /\ res_of scratch o = RFail /\ cbs_of scratch o = [] /\ fd_waiting h' (st_of scratch o)
  | true, Some L =>
      res_of scratch o = ROk /\ d_mode scratch (st_of scratch o) = MStream /\ cost_of scratch o = Some 0%Z /\
      cbs_of scratch o = [mkcb FLich lich 0; mkcb FLsf L 0] /\ d_seg scratch (st_of scratch o) = 0 /\
      d_lsf scratch (st_of scratch o) = L
  | true, None =>
      res_of scratch o = RIncomplete /\ cbs_of scratch o = [mkcb FLich lich 0] /\ fd_waiting h' (st_of scratch o)
  end.
Proof. exact fd_lich_history_exact. Qed.
Print Assumptions c05_reassembly_history_exact.

(** both directions: OK is returned / an LSF callback is made exactly when the held fragments are complete and CRC-valid *)
Theorem c05_reassembly_history_iff : forall (hs : list (sync * list Z * bool)) (s : fd_state) (fr : list Z) (r : bool),
  fd_fresh s -> all_stream hs -> fd_mode (snd (fd_run s hs)) = MLsf ->
  let h' := fd_held_after held0 (fd_frames_of hs ++ [fd_prep fr]) in
  let o := fd_step (snd (fd_run s hs)) SStream fr r in
  (res_of scratch o = ROk <-> complete h' <> None) /\
  ((exists cb, In cb (cbs_of scratch o) /\ cb_type cb = FLsf) <-> complete h' <> None).
Proof. exact fd_lich_history_reports_iff. Qed.
Print Assumptions c05_reassembly_history_iff.

(** C05 in its own words: if, when fr arrives, the fragments held for the six positions are the six chunks of ONE CRC-valid
    L (received in any order, with repeats, interleaved with fragments of other LSFs overwritten since, with out-of-range
    fragment numbers and undecodable frames in between), L is reported bit-exact by that very call *)
Theorem c05_reassembly_history : forall (hs : list (sync * list Z * bool)) (s : fd_state) (fr : list Z) (r : bool) (L : list N),
  fd_fresh s -> all_stream hs -> fd_mode (snd (fd_run s hs)) = MLsf ->
  length L = 30%nat -> crc30 L = 0 ->
  (forall k, (k <= 5)%nat -> fd_held_after held0 (fd_frames_of hs ++ [fd_prep fr]) k = Some (slot k L)) ->
  let o := fd_step (snd (fd_run s hs)) SStream fr r in
  res_of scratch o = ROk /\ d_mode scratch (st_of scratch o) = MStream /\ cost_of scratch o = Some 0%Z /\
  cbs_of scratch o = [mkcb FLich (fst (unpack_lich fd_golay (fd_prep fr))) 0; mkcb FLsf L 0] /\
  d_seg scratch (st_of scratch o) = 0 /\ d_lsf scratch (st_of scratch o) = L.
Proof. exact fd_reassembly_history. Qed.
Print Assumptions c05_reassembly_history.

(** conversely, whatever is reported IS the concatenation of the six held fragments and passes the CRC: a mixture of
    fragments of different LSFs is reported only if that very mixture passes the CRC *)
Theorem c05_reassembly_history_report_is_held : forall (hs : list (sync * list Z * bool)) (s : fd_state) (fr : list Z) (r : bool)
    (cb : callback),
  fd_fresh s -> all_stream hs -> fd_mode (snd (fd_run s hs)) = MLsf ->
  In cb (cbs_of scratch (fd_step (snd (fd_run s hs)) SStream fr r)) -> cb_type cb = FLsf ->
  assemble (fd_held_after held0 (fd_frames_of hs ++ [fd_prep fr])) = Some (cb_bytes cb) /\ crc30 (cb_bytes cb) = 0.
Proof. exact fd_report_is_held. Qed.
Print Assumptions c05_reassembly_history_report_is_held.

(** non-vacuity: A3 A1 B0 garbage A2 #6 B5 A5 A4 A3 then A0 (A, B two real LSFs; after A4 the full mixture B0+A1..A5 fails
    the CRC and is not reported): all hypotheses of c05_reassembly_history hold, and the model reports A *)
Example c05_example_reassembly_history : fd_example_history_ok = true.
Proof. vm_compute. reflexivity. Qed.

Example c05_example_reassembly_history_applies :
  let o := fd_step (snd (fd_run fd_init ex_history)) SStream ex_last true in
  res_of scratch o = ROk /\ d_mode scratch (st_of scratch o) = MStream /\ cost_of scratch o = Some 0%Z /\
  cbs_of scratch o = [mkcb FLich (fst (unpack_lich fd_golay (fd_prep ex_last))) 0; mkcb FLsf ex_lsf 0] /\
  d_seg scratch (st_of scratch o) = 0 /\ d_lsf scratch (st_of scratch o) = ex_lsf.
Proof. exact fd_example_history_applies. Qed.
