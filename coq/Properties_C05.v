(** C05 — link setup is reported only if CRC-valid, and is rebuilt exactly from LICH.
    Model: ImplFrameDecoder.v (mirror of M17FrameDecoder.h) instantiated in FrameDecoderInst.v with the mirrors of
    the real pipeline stages.  Only property theorems here, each closed by [exact]. *)
From Coq Require Import NArith ZArith List Bool.
From M17 Require Import Bits ImplCRC ConstsCrc ImplFrameDecoder FrameDecoderInst ImplViterbi ImplGolay SpecGolay
  LemmasFD_LSF LemmasFD_Lich LemmasFD_Inst LemmasFD_Consts LemmasFD_Examples Properties_C09.
Import ListNotations.
Local Open Scope N_scope.

(** 1. Whatever state the decoder is in (mode, collected fragments, any buffer contents) and whatever frame arrives
       under whatever sync type: every LSF handed to the callback passes the M17 CRC ... *)
Theorem c05_lsf_callback_crc_ok : forall (s : fd_state) (sw : sync) (fr : list Z) (r : bool) (cb : callback),
  In cb (cbs_of scratch (fd_step s sw fr r)) -> cb_type cb = FLsf -> crc30 (cb_bytes cb) = 0.
Proof. exact fd_lsf_callback_crc_ok. Qed.
Print Assumptions c05_lsf_callback_crc_ok.

(** ... hence along every history of frames (valid, corrupted, fragments of different transmissions) *)
Theorem c05_lsf_callback_crc_ok_history : forall (h : list (sync * list Z * bool)) (s : fd_state) obs (cb : callback),
  In obs (fst (fd_run s h)) -> In cb (snd obs) -> cb_type cb = FLsf -> crc30 (cb_bytes cb) = 0.
Proof. exact fd_lsf_callback_crc_ok_history. Qed.
Print Assumptions c05_lsf_callback_crc_ok_history.

(** the decoder's CRC is the M17 CRC (C09), so "passes the CRC" means what the specification means *)
Theorem c05_crc30_is_m17 : forall l : list N, crc30 l = SpecCRC.crc_direct 0x5935 0xFFFF l.
Proof. exact c09_crc_impl_is_m17. Qed.
Print Assumptions c05_crc30_is_m17.

(** 2. Golay/LICH unpacking: if each of the four 24-bit words is a code word of a 12-bit value hit by at most three
       bit errors (any positions, the parity bit included), the six LICH bytes are those 48 bits, exactly. *)
Theorem c05_unpack_lich_corrects : forall (fr : list Z) (q0 q1 q2 q3 : list bool) (e0 e1 e2 e3 : N),
  length q0 = 12%nat -> length q1 = 12%nat -> length q2 = 12%nat -> length q3 = 12%nat ->
  e0 < 2 ^ 24 -> e1 < 2 ^ 24 -> e2 < 2 ^ 24 -> e3 < 2 ^ 24 ->
  weight e0 <= 3 -> weight e1 <= 3 -> weight e2 <= 3 -> weight e3 <= 3 ->
  codeword fr 0 = N.lxor (golay_encode24 (bits_N q0)) e0 -> codeword fr 1 = N.lxor (golay_encode24 (bits_N q1)) e1 ->
  codeword fr 2 = N.lxor (golay_encode24 (bits_N q2)) e2 -> codeword fr 3 = N.lxor (golay_encode24 (bits_N q3)) e3 ->
  unpack_lich fd_golay fr = (pack_bits (q0 ++ q1 ++ q2 ++ q3), true).
Proof. exact fd_unpack_lich_bits. Qed.
Print Assumptions c05_unpack_lich_corrects.

(** 3. One LICH-carrying frame in link-setup mode, given the six bytes its Golay words decode to:
       fragment numbers 6 and 7 change nothing that is collected; numbers 0..5 fill exactly that slot and set exactly
       that bit; when the bitmap is full and the buffer passes the CRC the LSF is reported exactly and stream mode entered. *)
Theorem c05_lich_fragment_step : forall (s : fd_state) (fr : list Z) (lich : list N),
  unpack_lich fd_golay fr = (lich, true) ->
  let n := frag_of lich in
  let o := decode_lich scratch fd_golay s fr in
  (5 < n ->
     d_mode scratch (st_of scratch o) = d_mode scratch s /\ d_seg scratch (st_of scratch o) = d_seg scratch s /\
     d_lsf scratch (st_of scratch o) = d_lsf scratch s /\
     res_of scratch o = RIncomplete /\ cbs_of scratch o = [mkcb FLich lich 0]) /\
  (n <= 5 ->
     let lsf' := put_slot (N.to_nat n) (firstn 5 lich) (d_lsf scratch s) in
     let seg' := seg_after (d_seg scratch s) n in
     if (N.land seg' 0x3F =? 0x3F) && (crc30 lsf' =? 0) then
       d_mode scratch (st_of scratch o) = MStream /\ d_seg scratch (st_of scratch o) = 0 /\ d_lsf scratch (st_of scratch o) = lsf' /\
       res_of scratch o = ROk /\ cost_of scratch o = Some 0%Z /\ cbs_of scratch o = [mkcb FLich lich 0; mkcb FLsf lsf' 0]
     else
       d_mode scratch (st_of scratch o) = d_mode scratch s /\ d_seg scratch (st_of scratch o) = seg' /\ d_lsf scratch (st_of scratch o) = lsf' /\
       res_of scratch o = RIncomplete /\ cbs_of scratch o = [mkcb FLich lich 0]).
Proof. exact (decode_lich_spec scratch fd_golay). Qed.
Print Assumptions c05_lich_fragment_step.

(** slot and bitmap arithmetic of the step above: exactly slot n / bit n change *)
Theorem c05_slot_update : forall (n : nat) (chunk lsf : list N), length lsf = 30%nat -> length chunk = 5%nat -> (n <= 5)%nat ->
  length (put_slot n chunk lsf) = 30%nat /\ slot n (put_slot n chunk lsf) = chunk /\
  forall k, (k <= 5)%nat -> k <> n -> slot k (put_slot n chunk lsf) = slot k lsf.
Proof. exact put_slot_spec. Qed.
Print Assumptions c05_slot_update.

Theorem c05_bitmap_update : forall seg n k : N, n <= 5 -> k <= 5 ->
  N.testbit (seg_after seg n) k = N.testbit seg k || (k =? n).
Proof. exact seg_after_bits. Qed.
Print Assumptions c05_bitmap_update.

(** 4. "As soon as the fragments held for all six positions come from the same LSF L (any order, repeats), L is reported
       bit-exact when the last of them arrives": if, counting the arriving fragment, all six bitmap bits are set and every
       slot holds the corresponding five bytes of a CRC-valid L, this call reports L, returns OK and enters stream mode. *)
Theorem c05_reassembly_exact : forall (s : fd_state) (fr : list Z) (lich L : list N),
  unpack_lich fd_golay fr = (lich, true) ->
  let n := frag_of lich in n <= 5 ->
  length (d_lsf scratch s) = 30%nat -> length lich = 6%nat -> length L = 30%nat -> crc30 L = 0 ->
  (forall k, k <= 5 -> k <> n -> N.testbit (d_seg scratch s) k = true) ->
  (forall k, (k <= 5)%nat -> k <> N.to_nat n -> slot k (d_lsf scratch s) = slot k L) ->
  firstn 5 lich = slot (N.to_nat n) L ->
  let o := decode_lich scratch fd_golay s fr in
  res_of scratch o = ROk /\ d_mode scratch (st_of scratch o) = MStream /\ cost_of scratch o = Some 0%Z /\
  cbs_of scratch o = [mkcb FLich lich 0; mkcb FLsf L 0] /\ d_seg scratch (st_of scratch o) = 0.
Proof. exact (reassembly_exact scratch fd_golay). Qed.
Print Assumptions c05_reassembly_exact.

(** the literals of M17FrameDecoder.h the model was written with are the ones in the source now *)
Theorem c05_decoder_constants : (ConstsFramedecoder.max_lich_fragment = 5 /\ ConstsFramedecoder.seg_mask = 63 /\
  ConstsFramedecoder.seg_full = 63 /\ ConstsFramedecoder.frag_shift = 5 /\ ConstsFramedecoder.frag_mask = 7) /\
  ConstsFramedecoder.frag_copy_len = 5%nat /\ ConstsFramedecoder.frag_stride = 5%nat.
Proof. exact fd_consts_c05. Qed.
Print Assumptions c05_decoder_constants.

(** non-vacuity: a real LSF, six clean fragments in the order 3,1,0,2,5,4 - evaluated on the model *)
Example c05_example_reassembly : fd_example_reassembly_ok = true.
Proof. vm_compute. reflexivity. Qed.
