(** Bounded reachability along observation sequences, and the measure argument used by the C06 liveness lemmas. *)
From Coq Require Import ZArith Bool List Lia ZifyBool.
From M17 Require Import ConstsDemod ImplDemodCtl SpecDemodCtl LemmasDemodCtl_Base.
Import ListNotations.
Local Open Scope Z_scope.

(** within the first [n] samples of [os] the run from [s] either reaches a state satisfying [Goal] or calls the frame decoder *)
Definition reach (n : nat) (Goal : st -> Prop) (s : st) (os : list obs) : Prop :=
  exists k, (k <= n)%nat /\ (k <= length os)%nat /\
            (Goal (final s (firstn k os)) \/ any_decode (events s (firstn k os)) = true).

Lemma reach_now n (Goal : st -> Prop) s os : Goal s -> reach n Goal s os.
Proof. intro G. exists 0%nat. cbn [firstn]. repeat split; try lia. left. exact G. Qed.

Lemma any_decode_cons ev evs : any_decode (ev :: evs) = (match decodes ev with [] => false | _ => true end) || any_decode evs.
Proof. reflexivity. Qed.

Lemma reach_step n (Goal : st -> Prop) s o os :
  (decodes (snd (step s o)) <> [] \/ reach n Goal (fst (step s o)) os) -> reach (S n) Goal s (o :: os).
Proof.
  intros [D|[k [Hk [Hl R]]]].
  - exists 1%nat. cbn [firstn length]. repeat split; try lia. right.
    rewrite events_cons, any_decode_cons. destruct (decodes (snd (step s o))); [congruence|reflexivity].
  - exists (S k). cbn [firstn length]. repeat split; try lia.
    rewrite final_cons, events_cons, any_decode_cons. destruct R as [R|R]; [left; exact R|right; rewrite R; apply orb_true_r].
Qed.

Lemma reach_weaken n m (Goal : st -> Prop) s os : (n <= m)%nat -> reach n Goal s os -> reach m Goal s os.
Proof. intros L [k [Hk R]]. exists k. split; [lia|exact R]. Qed.

Lemma reach_impl n (G1 G2 : st -> Prop) s os : (forall x, G1 x -> G2 x) -> reach n G1 s os -> reach n G2 s os.
Proof. intros I [k [Hk [Hl [R|R]]]]; exists k; repeat split; try assumption; [left; apply I; exact R|right; exact R]. Qed.

Lemma final_app : forall a b s, final s (a ++ b) = final (final s a) b.
Proof. induction a as [|o a IH]; intros b s; [reflexivity|]. cbn [app]. rewrite !final_cons. apply IH. Qed.
Lemma events_app : forall a b s, events s (a ++ b) = events s a ++ events (final s a) b.
Proof.
  induction a as [|o a IH]; intros b s; [reflexivity|]. cbn [app]. rewrite !events_cons, final_cons, IH. reflexivity.
Qed.
Lemma any_decode_app a b : any_decode (a ++ b) = any_decode a || any_decode b.
Proof. unfold any_decode. apply existsb_app. Qed.

(** the hypothesis of the liveness theorem is closed under taking suffixes (with the ghost flag recomputed) *)
Lemma live_good_run_skipn : forall k pf s os, live_good_run pf s os ->
  exists pf', live_good_run pf' (final s (firstn k os)) (skipn k os).
Proof.
  induction k as [|k IH]; intros pf s os G.
  - exists pf. exact G.
  - destruct os as [|o os]; [exists pf; exact G|].
    cbn [live_good_run] in G. destruct G as [G1 G2]. cbn [firstn skipn]. rewrite final_cons. apply (IH _ _ _ G2).
Qed.

Lemma firstn_add {A} (k j : nat) (l : list A) : firstn (k + j) l = firstn k l ++ firstn j (skipn k l).
Proof.
  revert l. induction k as [|k IH]; intro l; [reflexivity|]. destruct l as [|x l]; [destruct j; reflexivity|].
  cbn [Nat.add firstn skipn app]. rewrite IH. reflexivity.
Qed.

Lemma reach_trans n m (Q R : st -> Prop) s os pf :
  live_good_run pf s os ->
  reach n Q s os ->
  (forall s' pf' os', Q s' -> live_good_run pf' s' os' -> (length os - n <= length os')%nat -> reach m R s' os') ->
  reach (n + m) R s os.
Proof.
  intros G [k [Hk [Hl [HQ|HD]]]] Next.
  - destruct (live_good_run_skipn k pf s os G) as [pf' G'].
    assert (Hlen : (length os - n <= length (skipn k os))%nat) by (rewrite skipn_length; lia).
    destruct (Next _ pf' _ HQ G' Hlen) as [j [Hj [Hlj R']]].
    exists (k + j)%nat. rewrite firstn_add, final_app, events_app, any_decode_app.
    rewrite skipn_length in Hlj.
    repeat split; try lia. destruct R' as [R'|R']; [left; exact R'|right; rewrite R'; apply orb_true_r].
  - exists k. repeat split; try lia. right. exact HD.
Qed.

(** the measure argument *)
Section Measure.
  Variable Inv : st -> Prop.
  Variable Goal : st -> Prop.
  Variable M : bool -> st -> Z.
  Hypothesis M_pos : forall pf s, Inv s -> 1 <= M pf s.
  Hypothesis step_ok : forall pf s o, Inv s -> live_good pf s o = true ->
      decodes (snd (step s o)) <> [] \/ Goal (fst (step s o)) \/
      (Inv (fst (step s o)) /\ M (far_next s) (fst (step s o)) < M pf s).

  Lemma measure_reach : forall (n : nat) pf s os,
    M pf s <= Z.of_nat n -> Inv s -> (n <= length os)%nat -> live_good_run pf s os -> reach n Goal s os.
  Proof.
    induction n as [|n IH]; intros pf s os HM HI HL HG.
    - pose proof (M_pos pf s HI). lia.
    - destruct os as [|o os]; [cbn in HL; lia|].
      cbn [live_good_run] in HG. destruct HG as [G1 G2].
      apply reach_step.
      destruct (step_ok pf s o HI G1) as [D|[Gl|[I1 M1]]].
      + left. exact D.
      + right. apply reach_now. exact Gl.
      + right. apply (IH (far_next s)); try assumption; cbn [length] in HL; lia.
  Qed.
End Measure.
