(** Extraction of the Golay models for the correspondence check: ExtrOcamlBasic only. *)
Require Extraction.
Require Import ExtrOcamlBasic.
From Coq Require Import NArith List.
From M17 Require Import ConstsGolay ImplGolay ImplGolayFast SpecGolay.
Definition c04_encode23 := encode23.
Definition c04_encode24 := golay_encode24.
Definition c04_syndrome := syndrome.
Definition c04_parity := parity.
Definition c04_lut := LUT.
Definition c04_lookup (input : N) : nat := lower_bound LUT (syndrome (N.shiftr input golay_dec_in_shift)).
Definition c04_decode_with := decode_with.
Definition c04_decode := decode.
Definition c04_decode_fast := decode_fast.
Definition c04_spec_encode24 := spec_encode24.
Definition c04_spec_decode := spec_decode.
Definition c04_weight := weight.
Extraction "c04_model.ml" c04_encode23 c04_encode24 c04_syndrome c04_parity c04_lut c04_lookup c04_decode_with c04_decode c04_decode_fast
  c04_spec_encode24 c04_spec_decode c04_weight.
