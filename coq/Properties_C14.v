(** C14 — M17Modulator emits a complete, well-formed stream for every PTT/audio schedule.

    Model: ImplModulator.v (mirror of M17Modulator.h: [mstep] = one iteration of the modulate() loop on the
    result of audio_queue.get (a sample, or a 5 s timeout = silence); [PttOn]/[PttOff] = ptt_on()/ptt_off() taking
    effect on the atomic state_, enabled exactly where the C++ call proceeds instead of sleeping; [run] = any
    interleaving in which every item is enabled).  Codec2 is an arbitrary oracle with hidden state producing 8
    bytes per call.  Uninitialised arrays start from an arbitrary [junk].  Specification: SpecM17.v
    (bit-level M17 encoder) and SpecModulator.v (the stream of a session).  Output queue: ModelOutQueue.v.

    This file holds only the property theorems, each closed by [exact], their Print Assumptions, and
    Examples that exhibit the hypotheses on concrete instances. *)
From Coq Require Import NArith ZArith List Bool.
From M17 Require Import Bits SpecCRC SpecM17 ConstsModulator ImplModulator SpecModulator ModelOutQueue
  LemmasMdl_Bits LemmasMdl_SM LemmasMdl_Shape LemmasMdl_Queue LemmasMdl_Main LemmasMdl_Run.
Import ListNotations.
Local Open Scope N_scope.

(** 1. The link setup frame.  For every destination (0..9 characters, empty = broadcast) and source (1..9
    characters): the 30-byte LSF is the specification's LSF of a voice stream with channel access number 0
    (TYPE = 0x0005); DST precedes SRC; META is zero; the CRC checks; and the 48 bytes put on the queue are the
    LSF sync word followed by the specification's encoding (convolution, P1, interleaver, randomizer). *)
Theorem c14_lsf_is_spec : forall (junk : nat -> N) (dst src : list N), callsigns_ok dst src ->
  let lsf := build_lsf (encode_callsign dst) (encode_callsign src) in
  lsf = spec_lsf dst src 0
  /\ firstn 6 lsf = spec_dst_address dst /\ firstn 6 (skipn 6 lsf) = spec_address src
  /\ firstn 2 (skipn 12 lsf) = [0; 5] /\ firstn 14 (skipn 14 lsf) = repeat 0 14
  /\ m17_crc lsf = 0
  /\ send_link_setup junk (encode_callsign dst) (encode_callsign src) =
     (build_lich junk (spec_lsf dst src 0), sync_lsf ++ bits_bytes (spec_lsf_frame (spec_lsf dst src 0))).
Proof. exact lsf_is_spec. Qed.
Print Assumptions c14_lsf_is_spec.

(** 2. Stream frames.  For every 30-byte LSF, fragment number n < 6, frame number fn < 0x8000, 16-byte payload
    and either value of the EOS flag, the packed-byte pipeline make_payload (conv_encode, puncture_bytes P2) and
    send_audio_frame (LICH, byte interleaver, byte randomizer) puts the stream sync word followed by the
    bytes of the specification's bit-level encoding; the frame-number argument is fn, or fn | 0x8000 for EOS.
    No byte depends on uninitialised memory. *)
Theorem c14_frames_are_spec : forall (junk : nat -> N) (lsf : list N) (n : nat) (fn : N) (payload : list N) (eos : bool),
  all_bytes lsf -> length lsf = 30%nat -> (n < 6)%nat -> fn < 32768 -> all_bytes payload -> length payload = 16%nat ->
  send_audio_frame junk (nth n (build_lich junk lsf) []) (make_payload junk (fn_arg fn eos) payload) =
  sync_stream ++ bits_bytes (spec_stream_frame lsf (N.of_nat n) fn payload eos).
Proof. exact frames_are_spec. Qed.
Print Assumptions c14_frames_are_spec.

(** 3. LICH.  The table built in LINK_SETUP holds the six Golay-encoded fragments of the LSF; in a key-up the
    k-th frame carries fragment k mod 6 and frame number k mod 2^15, for every k, the last frame carries the EOS
    bit and no other does (explicit form of the specification's frame sequence). *)
Theorem c14_lich_cycles : forall (junk : nat -> N) (lsf : list N) (n : nat),
  all_bytes lsf -> length lsf = 30%nat -> (n < 6)%nat ->
  nth n (build_lich junk lsf) [] = bits_bytes (spec_lich lsf (N.of_nat n)) /\ length (build_lich junk lsf) = 6%nat.
Proof. exact lich_table. Qed.
Print Assumptions c14_lich_cycles.

Theorem c14_eos_on_last : forall (cstate : Type) (codec2_encode : cstate -> list Z -> cstate * list N) (dst src : list N)
  (c : cstate) (samples : list Z) (last : Z),
  exists ps p, snd (encode_frames cstate codec2_encode c (cut samples last)) = ps ++ [p]
  /\ length ps = (length samples / 320)%nat
  /\ snd (keyup_stream cstate codec2_encode dst src c samples last) =
     preamble ++ sync_lsf ++ bits_bytes (spec_lsf_frame (spec_lsf dst src 0)) ++ plain_frames (spec_lsf dst src 0) 0 ps
     ++ one_frame (spec_lsf dst src 0) (N.of_nat (length ps)) p true.
Proof. exact eos_on_last. Qed.
Print Assumptions c14_eos_on_last.

(** the EOS flag is bit 15 of the transmitted frame-number field *)
Theorem c14_eos_bit : forall (fn : N) (eos : bool), N.testbit (nth 0 (fn_field fn eos) 0) 7 = eos.
Proof. exact fn_field_top_bit. Qed.
Print Assumptions c14_eos_bit.

(** 4. The modulator always returns to IDLE: in every reachable state (any enabled schedule, any oracle, any
    callsigns) the mode is not INACTIVE, and releasing PTT where it is held plus at most three further loop
    iterations (each of which happens within 5 s even without audio) end in IDLE — so ptt_off();
    wait_until_idle() terminates. *)
Theorem c14_ends_idle : forall (junk : nat -> N) (cstate : Type) (codec2_encode : cstate -> list Z -> cstate * list N)
  (dest source : list N) (c0 : cstate) (sched : list item) (s' : mstate cstate) (out : list N),
  run junk cstate codec2_encode dest source (minit junk cstate c0) sched = Some (s', out) ->
  st_mode s' <> INACTIVE /\
  forall e1 e2 e3, exists s'' out', run junk cstate codec2_encode dest source s' (completion (st_mode s') e1 e2 e3) = Some (s'', out')
                                   /\ st_mode s'' = IDLE.
Proof. exact ends_idle. Qed.
Print Assumptions c14_ends_idle.

(** 5. The output queue (capacity 96) and a consumer of arbitrary speed.  ASSUMPTION, named: put() with the
    default timeout on a full open queue blocks ([policy = Blocks]; this is C16's forever_never_times_out,
    established separately on the queue model).  Then under every interleaving of puts and gets
    received ++ queued ++ not-yet-put is the put sequence, and once drained the consumer holds exactly the bytes
    put, in order. *)
Theorem c14_no_byte_lost : forall (policy : full_policy), policy = Blocks -> forall (bytes : list N) (trace : list actor),
  let st := qrun policy ConstsModulator.bitstream_queue_capacity bytes trace in
  delivered st ++ snd (fst st) ++ fst (fst st) = bytes /\ (drained st -> delivered st = bytes).
Proof. exact (no_byte_lost ConstsModulator.bitstream_queue_capacity). Qed.
Print Assumptions c14_no_byte_lost.

(** the source text of queue::put, as read by the translator on this run, tests for the default (maximum) timeout
    and then waits without a deadline; bitstream_queue_t has capacity 96 *)
Theorem c14_put_blocks_in_source :
  ConstsModulator.put_default_waits_without_deadline = true /\ ConstsModulator.bitstream_queue_capacity = 96%nat.
Proof. exact put_policy_in_source. Qed.
Print Assumptions c14_put_blocks_in_source.

(** no deadlock, and every step of a runnable thread reduces the remaining work (so any schedule that keeps
    running a runnable thread drains within 2 |bytes| steps) *)
Theorem c14_queue_progress : forall (policy : full_policy) (st : qstate), (length (snd (fst st)) <= ConstsModulator.bitstream_queue_capacity)%nat ->
  ~ drained st -> can_run policy ConstsModulator.bitstream_queue_capacity st Producer = true \/ can_run policy ConstsModulator.bitstream_queue_capacity st Consumer = true.
Proof. exact (fun policy st => progress ConstsModulator.bitstream_queue_capacity policy st (Nat.lt_0_succ 95)). Qed.
Print Assumptions c14_queue_progress.

Theorem c14_queue_productive : forall (policy : full_policy) (st : qstate) (a : actor),
  can_run policy ConstsModulator.bitstream_queue_capacity st a = true -> (work (qstep policy ConstsModulator.bitstream_queue_capacity st a) < work st)%nat.
Proof. exact (productive ConstsModulator.bitstream_queue_capacity). Qed.
Print Assumptions c14_queue_productive.

(** the assumption is necessary: with a put that returns false on a full queue (queue.h before 5bc9c51) 97
    puts in a row lose a byte *)
Theorem c14_bytes_lost_if_put_returns_false :
  let st := qrun ReturnsFalse 96 lossy_bytes lossy_trace in
  fst (fst st) = [] /\ snd (fst st) = [] /\ delivered st = map N.of_nat (seq 0 96) /\ delivered st <> lossy_bytes.
Proof. exact lossy_example. Qed.
Print Assumptions c14_bytes_lost_if_put_returns_false.

(** 6. The whole statement.  For every content of uninitialised memory, every Codec2 oracle (8 bytes per call),
    every pair of callsigns, every initial oracle state and EVERY schedule all of whose items are enabled when
    they occur: if the machine is IDLE at the end, the schedule is a sequence of complete key-ups followed by
    idle iterations, and the bytes put are, key-up after key-up,
        preamble ++ sync_lsf ++ LSF frame ++ stream frames 0, 1, 2, ... (LICH k mod 6, EOS on the last)
    with the Codec2 encodings of the consumed audio in order ([session_stream]); composed with 5, the consumer
    receives exactly these bytes once the queue is drained. *)
Theorem c14_modulator_stream_wellformed : forall (junk : nat -> N) (cstate : Type)
  (codec2_encode : cstate -> list Z -> cstate * list N), codec2_ok codec2_encode ->
  forall (dst src : list N), callsigns_ok dst src ->
  forall (c0 : cstate) (sched : list item) (s' : mstate cstate) (out : list N),
  run junk cstate codec2_encode (encode_callsign dst) (encode_callsign src) (minit junk cstate c0) sched = Some (s', out) ->
  st_mode s' = IDLE ->
  exists kus trailing, Forall keyup_ok kus /\ sched = session_items kus trailing
    /\ out = snd (session_stream cstate codec2_encode dst src c0 kus)
    /\ st_codec s' = fst (session_stream cstate codec2_encode dst src c0 kus).
Proof. exact stream_wellformed. Qed.
Print Assumptions c14_modulator_stream_wellformed.

(** 7. What the consumer sees: for every schedule as in 6 and every interleaving of the modulator's puts with the
    consumer's gets on the capacity-96 queue (hypothesis: put blocks), once the queue is drained the consumer
    holds exactly the specification's session stream - nothing lost, duplicated or reordered. *)
Theorem c14_consumer_receives_stream : forall (junk : nat -> N) (cstate : Type)
  (codec2_encode : cstate -> list Z -> cstate * list N), codec2_ok codec2_encode ->
  forall (dst src : list N), callsigns_ok dst src ->
  forall (c0 : cstate) (sched : list item) (s' : mstate cstate) (out : list N),
  run junk cstate codec2_encode (encode_callsign dst) (encode_callsign src) (minit junk cstate c0) sched = Some (s', out) ->
  st_mode s' = IDLE ->
  forall policy, policy = Blocks -> forall trace,
  drained (qrun policy ConstsModulator.bitstream_queue_capacity out trace) ->
  exists kus trailing, Forall keyup_ok kus /\ sched = session_items kus trailing
    /\ delivered (qrun policy ConstsModulator.bitstream_queue_capacity out trace) = snd (session_stream cstate codec2_encode dst src c0 kus).
Proof. exact consumer_receives_stream. Qed.
Print Assumptions c14_consumer_receives_stream.

(** conversely, every session of key-ups (any idle iterations, any number of samples while PTT is held, repeated
    key-ups, extra ptt_on() calls while active) is an enabled schedule, ends IDLE and emits [session_stream] *)
Theorem c14_every_session_runs : forall (junk : nat -> N) (cstate : Type)
  (codec2_encode : cstate -> list Z -> cstate * list N), codec2_ok codec2_encode ->
  forall (dst src : list N), callsigns_ok dst src ->
  forall (kus : list keyup) (trailing : list event) (c0 : cstate), Forall keyup_ok kus ->
  exists s', run junk cstate codec2_encode (encode_callsign dst) (encode_callsign src) (minit junk cstate c0) (session_items kus trailing)
             = Some (s', snd (session_stream cstate codec2_encode dst src c0 kus))
             /\ st_mode s' = IDLE.
Proof. exact structured_runs. Qed.
Print Assumptions c14_every_session_runs.

(** 8. Reconfiguration.  source()/dest() assign the encoded callsigns used by the next LINK_SETUP; called while the modulator is
    idle they split the schedule into segments ([ImplModulator.run_segments]: each segment runs with the pair configured before it,
    from the state - LICH segments, counters, audio buffer, Codec2 state - the previous segments left).  For every list of groups
    (callsign pair, key-ups, idle iterations) the bytes are, group after group, the specification's session stream for THAT
    group's pair: no LICH fragment, LSF byte or payload of an earlier configuration survives. *)
Theorem c14_reconfigured_sessions : forall (junk : nat -> N) (cstate : Type)
  (codec2_encode : cstate -> list Z -> cstate * list N), codec2_ok codec2_encode ->
  forall (groups : list group) (c0 : cstate), Forall group_ok groups ->
  exists s', run_segments junk cstate codec2_encode (minit junk cstate c0) (map seg_of groups)
             = Some (s', snd (configured_stream cstate codec2_encode c0 (map grp_of groups)))
             /\ st_mode s' = IDLE /\ st_codec s' = fst (configured_stream cstate codec2_encode c0 (map grp_of groups)).
Proof. exact configured_sessions_run. Qed.
Print Assumptions c14_reconfigured_sessions.

(** ** Examples: the hypotheses are satisfiable, and the two sides agree on a concrete session *)
From M17 Require Import LemmasMdl_Examples.
Example c14_example_oracle : codec2_ok ex_codec.
Proof. exact ex_codec_ok. Qed.
Example c14_example_callsigns : callsigns_ok ex_dst ex_src /\ callsigns_ok [] ex_src.
Proof. exact ex_calls_ok. Qed.
Example c14_example_keyups : forallb (fun ku => forallb (fun it => match it with PttOff => false | _ => true end) (ku_active ku)) ex_keyups = true.
Proof. vm_compute. reflexivity. Qed.
(** 2 key-ups, 7 frames of 48 bytes: preamble, LSF, 2 stream frames; preamble, LSF, 1 stream frame *)
Example c14_example_session : ex_check = true.
Proof. vm_compute. reflexivity. Qed.
