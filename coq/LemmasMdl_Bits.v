(** C14 lemmas, part 1: packed byte arrays seen as bit lists.
    [get_bit_index] reads bit [i] of [bytes_bits]; [assign_bit_index] is [set_nth] on [bytes_bits];
    list helpers ([set_nth], [copy_at]); round trip [bits_bytes (bytes_bits l) = l]. *)
From Coq Require Import NArith ZArith List Bool Lia Arith.
From M17 Require Import Bits SpecM17 ConstsModulator ImplModulator.
Import ListNotations.
Local Open Scope N_scope.

(** ** set_nth / copy_at *)
Lemma set_nth_length {A} (l : list A) : forall i v, length (set_nth l i v) = length l.
Proof. induction l as [|x l IH]; intros [|i] v; cbn [set_nth length]; try reflexivity. rewrite IH. reflexivity. Qed.

Lemma set_nth_app_l {A} (a b : list A) : forall i v, (i < length a)%nat -> set_nth (a ++ b) i v = set_nth a i v ++ b.
Proof. induction a as [|x a IH]; intros [|i] v H; cbn [length] in H; try lia; cbn [app set_nth]; [reflexivity|].
  rewrite IH by lia. reflexivity. Qed.

Lemma set_nth_app_r {A} (a b : list A) : forall i v, set_nth (a ++ b) (length a + i) v = a ++ set_nth b i v.
Proof. induction a as [|x a IH]; intros i v; [reflexivity|]. cbn [app length Nat.add set_nth]. rewrite IH. reflexivity. Qed.

Lemma set_nth_app_r' {A} (a b : list A) n i v : length a = n -> set_nth (a ++ b) (n + i) v = a ++ set_nth b i v.
Proof. intros <-. apply set_nth_app_r. Qed.

Lemma set_nth_map {A B} (f : A -> B) (l : list A) : forall i v, map f (set_nth l i v) = set_nth (map f l) i (f v).
Proof. induction l as [|x l IH]; intros [|i] v; cbn [set_nth map]; try reflexivity. rewrite IH. reflexivity. Qed.

Lemma nth_set_nth_eq {A} (l : list A) d : forall i v, (i < length l)%nat -> nth i (set_nth l i v) d = v.
Proof. induction l as [|x l IH]; intros [|i] v H; cbn [length] in H; try lia; cbn [set_nth nth]; [reflexivity|]. apply IH. lia. Qed.

Lemma set_nth_Forall {A} (P : A -> Prop) (l : list A) : forall i v, Forall P l -> P v -> Forall P (set_nth l i v).
Proof. induction l as [|x l IH]; intros [|i] v H Hv; cbn [set_nth]; try assumption.
  - inversion H; subst. constructor; assumption.
  - inversion H; subst. constructor; [assumption|]. apply IH; assumption. Qed.

Lemma firstn_app_exact {A} (a b : list A) n k : length a = n -> firstn (n + k) (a ++ b) = a ++ firstn k b.
Proof. intros <-. rewrite firstn_app. rewrite firstn_all2 by lia. f_equal. f_equal. lia. Qed.
Lemma skipn_app_exact {A} (a b : list A) n k : length a = n -> skipn (n + k) (a ++ b) = skipn k b.
Proof. intros <-. rewrite skipn_app. rewrite skipn_all2 by lia. cbn [app]. f_equal. lia. Qed.

(** writing a whole block: [copy_at dst pos src] replaces the elements pos .. pos+|src|-1 *)
Lemma copy_at_length {A} (src : list A) : forall dst pos, length (copy_at dst pos src) = length dst.
Proof. induction src as [|x r IH]; intros dst pos; [reflexivity|]. cbn [copy_at]. rewrite IH, set_nth_length. reflexivity. Qed.

Lemma copy_at_spec {A} (src : list A) : forall pre old post,
  length old = length src -> copy_at (pre ++ old ++ post) (length pre) src = pre ++ src ++ post.
Proof. induction src as [|x r IH]; intros pre old post H.
- destruct old; [reflexivity|discriminate].
- destruct old as [|o old]; [discriminate|]. cbn [copy_at].
  replace (length pre) with (length pre + 0)%nat at 1 by lia. rewrite set_nth_app_r. cbn [app set_nth].
  replace (pre ++ x :: old ++ post) with ((pre ++ [x]) ++ old ++ post) by (rewrite <- app_assoc; reflexivity).
  replace (S (length pre)) with (length (pre ++ [x])) by (rewrite app_length; cbn; lia).
  rewrite IH by (cbn in H; lia). rewrite <- app_assoc. reflexivity. Qed.

Lemma copy_at_full {A} (src dst : list A) : length dst = length src -> copy_at dst 0 src = src.
Proof. intros H. pose proof (copy_at_spec src [] dst [] H) as E. cbn [app length] in E. rewrite !app_nil_r in E. exact E. Qed.

Lemma copy_at_two {A} (a b dst : list A) : length dst = (length a + length b)%nat ->
  copy_at (copy_at dst 0 a) (length a) b = a ++ b.
Proof. intros H.
  rewrite <- (firstn_skipn (length a) dst).
  pose proof (copy_at_spec a [] (firstn (length a) dst) (skipn (length a) dst)) as E. cbn [app length] in E.
  rewrite E by (rewrite firstn_length; lia).
  pose proof (copy_at_spec b a (skipn (length a) dst) []) as E2. rewrite !app_nil_r in E2. apply E2.
  rewrite skipn_length. lia. Qed.

(** ** bits of a byte *)
Fixpoint bits_eqb (a b : list bool) : bool :=
  match a, b with
  | [], [] => true
  | x :: a', y :: b' => Bool.eqb x y && bits_eqb a' b'
  | _, _ => false
  end.
Lemma bits_eqb_eq a : forall b, bits_eqb a b = true -> a = b.
Proof. induction a as [|x a IH]; intros [|y b] H; try discriminate; [reflexivity|].
  cbn [bits_eqb] in H. apply andb_prop in H. destruct H as [E H]. apply Bool.eqb_prop in E. subst. f_equal. apply IH. exact H. Qed.

Definition byte_ok (b : N) : bool :=
  forallb (fun r => Bool.eqb (negb (N.eqb (N.shiftr (N.land b (N.shiftl 1 (N.of_nat (7 - r)))) (N.of_nat (7 - r))) 0)) (nth r (byte_bits b) false)
                    && bits_eqb (byte_bits (u8 (N.lor b (N.shiftl 1 (N.of_nat (7 - r)))))) (set_nth (byte_bits b) r true)
                    && bits_eqb (byte_bits (u8 (N.land b (N.lxor 0xFF (N.shiftl 1 (N.of_nat (7 - r))))))) (set_nth (byte_bits b) r false)
                    && (u8 (N.lor b (N.shiftl 1 (N.of_nat (7 - r)))) <? 256) && (u8 (N.land b (N.lxor 0xFF (N.shiftl 1 (N.of_nat (7 - r))))) <? 256))
          (seq 0 8)
  && (bits_N (byte_bits b) =? b).

Lemma byte_sweep : below 8 byte_ok = true.
Proof. vm_cast_no_check (eq_refl true). Qed.


Lemma byte_facts b r : b < 256 -> (r < 8)%nat ->
  negb (N.eqb (N.shiftr (N.land b (N.shiftl 1 (N.of_nat (7 - r)))) (N.of_nat (7 - r))) 0) = nth r (byte_bits b) false
  /\ byte_bits (u8 (N.lor b (N.shiftl 1 (N.of_nat (7 - r))))) = set_nth (byte_bits b) r true
  /\ byte_bits (u8 (N.land b (N.lxor 0xFF (N.shiftl 1 (N.of_nat (7 - r)))))) = set_nth (byte_bits b) r false
  /\ u8 (N.lor b (N.shiftl 1 (N.of_nat (7 - r)))) < 256 /\ u8 (N.land b (N.lxor 0xFF (N.shiftl 1 (N.of_nat (7 - r))))) < 256.
Proof. intros Hb Hr. pose proof (below_spec 8 byte_ok byte_sweep b Hb) as S. unfold byte_ok in S.
  apply andb_prop in S. destruct S as [S _]. rewrite forallb_forall in S.
  specialize (S r). assert (I : In r (seq 0 8)) by (apply in_seq; lia). apply S in I. clear S.
  repeat (apply andb_prop in I; destruct I as [I ?]).
  repeat split; try (apply N.ltb_lt; assumption); try (apply bits_eqb_eq; assumption).
  apply Bool.eqb_prop. assumption. Qed.

Lemma bits_N_byte_bits b : b < 256 -> bits_N (byte_bits b) = b.
Proof. intros Hb. pose proof (below_spec 8 byte_ok byte_sweep b Hb) as S. unfold byte_ok in S.
  apply andb_prop in S. destruct S as [_ S]. apply N.eqb_eq. exact S. Qed.

Lemma byte_bits_zero : byte_bits 0 = repeat false 8.
Proof. reflexivity. Qed.

(** ** position 8 q + r of [bytes_bits] *)
Lemma nth_bytes_bits l : forall q r, (r < 8)%nat -> nth (8 * q + r) (bytes_bits l) false = nth r (byte_bits (nth q l 0)) false.
Proof. induction l as [|x l IH]; intros q r Hr.
- destruct q; cbn [nth bytes_bits flat_map]; rewrite byte_bits_zero; destruct (8 * _ + r)%nat; cbn [nth];
    try (symmetry; apply nth_repeat); reflexivity.
- unfold bytes_bits in *. cbn [flat_map]. destruct q as [|q].
  + rewrite Nat.mul_0_r, Nat.add_0_l. cbn [nth]. rewrite app_nth1 by (rewrite byte_bits_length; exact Hr). reflexivity.
  + rewrite app_nth2 by (rewrite byte_bits_length; lia). rewrite byte_bits_length.
    replace (8 * S q + r - 8)%nat with (8 * q + r)%nat by lia. cbn [nth]. apply IH. exact Hr. Qed.

Lemma divmod8 q r : (r < 8)%nat -> ((8 * q + r) / 8 = q /\ (8 * q + r) mod 8 = r)%nat.
Proof. intros H. split.
- rewrite Nat.mul_comm, Nat.div_add_l by lia. rewrite Nat.div_small by lia. lia.
- rewrite Nat.add_comm, Nat.mul_comm, Nat.mod_add by lia. apply Nat.mod_small. lia. Qed.

Lemma index_split i : exists q r, (i = 8 * q + r /\ r < 8)%nat.
Proof. exists (i / 8)%nat, (i mod 8)%nat. split; [apply Nat.div_mod; lia | apply Nat.mod_upper_bound; lia]. Qed.

Lemma all_bytes_nth l q : all_bytes l -> nth q l 0 < 256.
Proof. intros H. destruct (Nat.lt_ge_cases q (length l)) as [L|L].
- unfold all_bytes in H. rewrite Forall_forall in H. apply H. apply nth_In. exact L.
- rewrite nth_overflow by exact L. reflexivity. Qed.

(** get_bit_index reads the bit list *)
Lemma get_bit_index_spec l i : all_bytes l -> get_bit_index l i = nth i (bytes_bits l) false.
Proof. intros Hl. destruct (index_split i) as [q [r [-> Hr]]]. unfold get_bit_index.
  destruct (divmod8 q r Hr) as [-> ->]. rewrite nth_bytes_bits by exact Hr.
  apply (byte_facts (nth q l 0) r); [apply all_bytes_nth; exact Hl | exact Hr]. Qed.

Lemma bytes_bits_set_nth l : forall q b, (q < length l)%nat ->
  bytes_bits (set_nth l q b) = firstn (8 * q) (bytes_bits l) ++ byte_bits b ++ skipn (8 * q + 8) (bytes_bits l).
Proof. induction l as [|x l IH]; intros q b H; [cbn in H; lia|]. unfold bytes_bits in *. destruct q as [|q].
- cbn [set_nth flat_map]. change (8 * 0)%nat with 0%nat. change (0 + 8)%nat with 8%nat. cbn [firstn app].
  rewrite skipn_app, byte_bits_length, Nat.sub_diag. rewrite skipn_all2 by (rewrite byte_bits_length; lia). reflexivity.
- cbn [set_nth flat_map]. rewrite IH by (cbn in H; lia).
  replace (8 * S q)%nat with (8 + 8 * q)%nat by lia.
  rewrite (firstn_app_exact (byte_bits x) _ 8 (8 * q)) by apply byte_bits_length.
  replace (8 + 8 * q + 8)%nat with (8 + (8 * q + 8))%nat by lia.
  rewrite (skipn_app_exact (byte_bits x) _ 8 (8 * q + 8)) by apply byte_bits_length.
  rewrite <- app_assoc. reflexivity. Qed.

Lemma set_nth_split {A} (l : list A) (d : A) : forall i v, (i < length l)%nat -> set_nth l i v = firstn i l ++ v :: skipn (S i) l.
Proof. induction l as [|x l IH]; intros [|i] v H; cbn [length] in H; try lia; [reflexivity|].
  cbn [set_nth firstn skipn app]. rewrite IH by lia. reflexivity. Qed.

Lemma bits_block l q : (q < length l)%nat ->
  bytes_bits l = firstn (8 * q) (bytes_bits l) ++ byte_bits (nth q l 0) ++ skipn (8 * q + 8) (bytes_bits l).
Proof. intros H. rewrite <- bytes_bits_set_nth by exact H. f_equal.
  rewrite (set_nth_split l 0) by exact H. rewrite <- (firstn_skipn q l) at 1. f_equal.
  clear -H. revert q H. induction l as [|x l IH]; intros [|q] H; cbn [length] in H; try lia; [reflexivity|].
  cbn [skipn nth]. apply IH. lia. Qed.

(** assign_bit_index writes the bit list *)
Lemma assign_bit_index_spec l i v : all_bytes l -> (i < 8 * length l)%nat ->
  bytes_bits (assign_bit_index l i v) = set_nth (bytes_bits l) i v
  /\ all_bytes (assign_bit_index l i v) /\ length (assign_bit_index l i v) = length l.
Proof. intros Hl Hi. destruct (index_split i) as [q [r [-> Hr]]].
  assert (Hq : (q < length l)%nat) by lia.
  pose proof (byte_facts (nth q l 0) r (all_bytes_nth l q Hl) Hr) as [_ [S1 [S0 [B1 B0]]]].
  unfold assign_bit_index, set_bit_index, reset_bit_index, bit_mask.
  destruct (divmod8 q r Hr) as [-> ->].
  assert (G : forall b, byte_bits b = set_nth (byte_bits (nth q l 0)) r v -> b < 256 ->
     bytes_bits (set_nth l q b) = set_nth (bytes_bits l) (8 * q + r) v /\ all_bytes (set_nth l q b) /\ length (set_nth l q b) = length l).
  { intros b Eb Lb. split; [|split; [apply set_nth_Forall; assumption | apply set_nth_length]].
    rewrite bytes_bits_set_nth by exact Hq. rewrite (bits_block l q Hq) at 3.
    assert (L8 : length (firstn (8 * q) (bytes_bits l)) = (8 * q)%nat).
    { rewrite firstn_length, bytes_bits_length. lia. }
    rewrite (set_nth_app_r' _ _ (8 * q)%nat r v L8). f_equal.
    rewrite set_nth_app_l by (rewrite byte_bits_length; exact Hr). rewrite Eb. reflexivity. }
  destruct v; apply G; assumption. Qed.

(** ** bits -> bytes -> bits *)
Lemma groups8_bytes_bits l : groups 8 (bytes_bits l) = map byte_bits l.
Proof. unfold groups. assert (G : forall f, (length (bytes_bits l) <= f)%nat -> groups_fuel f 8 (bytes_bits l) = map byte_bits l).
  { induction l as [|x l IH]; intros f Hf.
    - destruct f; reflexivity.
    - unfold bytes_bits in *. cbn [flat_map] in *. rewrite app_length, byte_bits_length in Hf.
      destruct f as [|f]; [lia|].
      change (byte_bits x ++ flat_map byte_bits l) with ((N.testbit x (N.of_nat (7 - 0)) :: tl (byte_bits x)) ++ flat_map byte_bits l).
      cbn [groups_fuel app]. change (N.testbit x (N.of_nat (7 - 0)) :: tl (byte_bits x) ++ flat_map byte_bits l) with (byte_bits x ++ flat_map byte_bits l).
      rewrite firstn_app, byte_bits_length, Nat.sub_diag, firstn_O, app_nil_r.
      rewrite firstn_all2 by (rewrite byte_bits_length; lia).
      rewrite skipn_app, byte_bits_length, Nat.sub_diag. rewrite skipn_all2 by (rewrite byte_bits_length; lia).
      cbn [app skipn map]. f_equal. apply IH. lia. }
  apply G. lia. Qed.

Lemma bits_bytes_bytes_bits l : all_bytes l -> bits_bytes (bytes_bits l) = l.
Proof. intros H. unfold bits_bytes. rewrite groups8_bytes_bits, map_map.
  induction H as [|x l Hx _ IH]; [reflexivity|]. cbn [map]. rewrite bits_N_byte_bits by exact Hx. f_equal. exact IH. Qed.

Lemma all_bytes_app a b : all_bytes a -> all_bytes b -> all_bytes (a ++ b).
Proof. apply Forall_app_intro || (intros; apply Forall_app; split; assumption). Qed.
