(** LemmasVit_Free — consequences of maximum likelihood: a word that is strictly closer than every word with a different
    payload is the one returned; the computed free distance [dfree] bounds from below the kept weight of every code
    word whose input has a one among its first OUT bits; hence error correction up to half that distance and
    exact decoding of clean (possibly weak, possibly erased) code words. *)
From Coq Require Import NArith ZArith List Lia Bool Arith.
From M17 Require Import Bits ConstsViterbi ImplViterbi SpecConv ViterbiGeom
  LemmasVit_DP LemmasVit_Tables LemmasVit_Step LemmasVit_Loop LemmasVit_ML.
Import ListNotations.
Local Open Scope Z_scope.

(** * linearity of the encoder *)
Lemma conv_from_length : forall w d1 d2 d3 d4, length (conv_from d1 d2 d3 d4 w) = (2 * length w)%nat.
Proof. induction w as [|b w IH]; intros; cbn [conv_from length]; [reflexivity|]. rewrite IH. lia. Qed.
Lemma conv_length w : length (conv w) = (2 * length w)%nat.
Proof. apply conv_from_length. Qed.

Lemma conv_from_xor : forall w w' d1 d2 d3 d4 e1 e2 e3 e4, length w = length w' ->
  conv_from (xorb d1 e1) (xorb d2 e2) (xorb d3 e3) (xorb d4 e4) (xor_bits w w') =
  xor_bits (conv_from d1 d2 d3 d4 w) (conv_from e1 e2 e3 e4 w').
Proof. induction w as [|b w IH]; intros [|b' w'] d1 d2 d3 d4 e1 e2 e3 e4 H; try discriminate; [reflexivity|].
  unfold xor_bits in *. cbn [combine map fst snd conv_from]. rewrite IH by (cbn in H; lia).
  f_equal; [|f_equal].
  - destruct b, b', d3, d4, e3, e4; reflexivity.
  - destruct b, b', d1, d2, d4, e1, e2, e4; reflexivity. Qed.

Lemma conv_xor w w' : length w = length w' -> conv (xor_bits w w') = xor_bits (conv w) (conv w').
Proof. intros H. apply (conv_from_xor w w' false false false false false false false false H). Qed.

Lemma xor_bits_length a b : length a = length b -> length (xor_bits a b) = length a.
Proof. intros H. unfold xor_bits. rewrite map_length, combine_length. lia. Qed.

(** two words with different first OUT bits differ somewhere in them *)
Lemma firstn_differ : forall OUT w w', length w = length w' ->
  existsb (fun x => x) (firstn OUT (xor_bits w w')) = false -> firstn OUT w = firstn OUT w'.
Proof. induction OUT as [|o IH]; intros w w' H E; [reflexivity|].
  destruct w as [|b w], w' as [|b' w']; try discriminate; [reflexivity|].
  unfold xor_bits in *. cbn [combine map fst snd firstn existsb] in *.
  apply orb_false_iff in E. destruct E as [E1 E2]. f_equal.
  - destruct b, b'; try reflexivity; discriminate.
  - apply IH; [cbn in H; lia | exact E2]. Qed.

(** * the kept weight of a code word as a path cost *)
Lemma pcost_mweight : forall d d1 d2 d3 d4 mask, length mask = (2 * length d)%nat ->
  pcost16 (st_of d1 d2 d3 d4) d (wcosts mask) = mweight mask (conv_from d1 d2 d3 d4 d).
Proof. induction d as [|b d IH]; intros d1 d2 d3 d4 mask Hm.
- destruct mask; [reflexivity | discriminate].
- destruct mask as [|m0 [|m1 mask']]; cbn [length] in Hm; try lia.
  cbn [wcosts conv_from mweight]. rewrite pcost_cons, nx16_st_of, IH by lia.
  unfold wcost. rewrite out1_st_of, out2_st_of. lia. Qed.

Lemma wcosts_length : forall n mask, length mask = (2 * n)%nat -> length (wcosts mask) = n.
Proof. induction n as [|n IH]; intros mask H.
- destruct mask; [reflexivity | discriminate].
- destruct mask as [|m0 [|m1 mask']]; cbn [length] in H; try lia. cbn [wcosts length]. rewrite IH by lia. reflexivity. Qed.

Lemma wcosts_nonneg mask : Forall (fun c : cost => forall s b, 0 <= c s b) (wcosts mask).
Proof. assert (G : forall n mask, (length mask <= n)%nat -> Forall (fun c : cost => forall s b, 0 <= c s b) (wcosts mask)).
  { induction n as [|n IH]; intros m H.
    - destruct m; [constructor | cbn in H; lia].
    - destruct m as [|m0 [|m1 m']]; cbn [wcosts]; try constructor.
      + intros s b. unfold wcost. destruct (m0 && out1 s b), (m1 && out2 s b); lia.
      + apply IH. cbn [length] in H. lia. }
  apply (G (length mask)). lia. Qed.

(** * the backward pass is a lower bound for every path *)
Lemma bstep_nth c B s : (s < 16)%nat ->
  nth s (bstep c B) 0 = Z.min (c s false + nth (nx16 s false) B 0) (c s true + nth (nx16 s true) B 0).
Proof. intros H. unfold bstep.
  set (f := fun s => Z.min (c s false + nth (nx16 s false) B 0) (c s true + nth (nx16 s true) B 0)).
  change (nth s (map f (seq 0 16)) 0 = f s).
  rewrite nth_indep with (d' := f 0%nat) by (rewrite map_length, seq_length; lia).
  rewrite (map_nth f). rewrite seq_nth by lia. reflexivity. Qed.

Lemma back_lb : forall cs OUT s d, (s < 16)%nat -> length d = length cs ->
  nth s (fst (dfree_aux cs OUT)) 0 <= pcost16 s d cs.
Proof. induction cs as [|c cs IH]; intros OUT s d Hs Hl.
- destruct d; [|discriminate]. cbn [dfree_aux fst pcost].
  rewrite nth_repeat. lia.
- destruct d as [|b d]; [discriminate|]. cbn [dfree_aux fst]. rewrite pcost_cons, bstep_nth by exact Hs.
  specialize (IH (pred OUT) (nx16 s b) d (nx16_lt s b Hs) ltac:(cbn in Hl; lia)).
  destruct b; lia. Qed.

Lemma dfree_aux_lb : forall cs OUT d, length d = length cs ->
  Forall (fun c : cost => forall s b, 0 <= c s b) cs ->
  existsb (fun x => x) (firstn OUT d) = true ->
  exists x, snd (dfree_aux cs OUT) = Some x /\ x <= pcost16 0%nat d cs.
Proof. induction cs as [|c cs IH]; intros OUT d Hl Hnn Hex.
- destruct d; [|discriminate]. destruct OUT; discriminate.
- destruct d as [|b d]; [discriminate|]. destruct OUT as [|o]; [discriminate|].
  inversion Hnn as [|? ? Hc Hcs]; subst.
  cbn [dfree_aux snd pred]. rewrite pcost_cons. cbn [firstn existsb] in Hex.
  destruct b.
  + change (nx16 0 true) with 1%nat.
    assert (H1 : (1 < 16)%nat) by lia. assert (Hl' : length d = length cs) by (cbn in Hl; lia).
    pose proof (back_lb cs o 1%nat d H1 Hl') as B.
    eexists. split; [reflexivity|]. destruct (snd (dfree_aux cs o)); lia.
  + cbn [orb] in Hex. change (nx16 0 false) with 0%nat.
    assert (Hl' : length d = length cs) by (cbn in Hl; lia).
    destruct (IH o d Hl' Hcs Hex) as (x & E & Hx). rewrite E.
    eexists. split; [reflexivity|]. specialize (Hc 0%nat false). lia. Qed.

(** every input word with a one among its first OUT bits has kept code weight at least [dfree mask OUT] *)
Lemma dfree_lb mask OUT d : length mask = (2 * length d)%nat ->
  existsb (fun x => x) (firstn OUT d) = true -> dfree mask OUT <= mweight mask (conv d).
Proof. intros Hm Hex. unfold dfree, conv. rewrite <- (pcost_mweight d false false false false mask Hm).
  destruct (dfree_aux_lb (wcosts mask) OUT d ltac:(rewrite (wcosts_length (length d)); [reflexivity | exact Hm])
              (wcosts_nonneg mask) Hex) as (x & E & Hx).
  rewrite E. exact Hx. Qed.

(** * the backward pass is attained: [dfree] is the minimum, not just a lower bound *)
Lemma back_att : forall cs OUT s, (s < 16)%nat ->
  exists d, length d = length cs /\ pcost16 s d cs = nth s (fst (dfree_aux cs OUT)) 0.
Proof. induction cs as [|c cs IH]; intros OUT s Hs.
- exists []. split; [reflexivity|]. cbn [dfree_aux fst pcost]. rewrite nth_repeat. reflexivity.
- cbn [dfree_aux fst]. rewrite bstep_nth by exact Hs.
  set (B' := fst (dfree_aux cs (pred OUT))).
  destruct (Z.le_ge_cases (c s false + nth (nx16 s false) B' 0) (c s true + nth (nx16 s true) B' 0)) as [Hle|Hge].
  + destruct (IH (pred OUT) (nx16 s false) (nx16_lt s false Hs)) as (d & Ld & Pd).
    exists (false :: d). split; [cbn [length]; lia|]. rewrite pcost_cons, Pd. fold B'. rewrite Z.min_l by exact Hle. reflexivity.
  + destruct (IH (pred OUT) (nx16 s true) (nx16_lt s true Hs)) as (d & Ld & Pd).
    exists (true :: d). split; [cbn [length]; lia|]. rewrite pcost_cons, Pd. fold B'. rewrite Z.min_r by lia. reflexivity.
Qed.

Lemma dfree_aux_att : forall cs OUT x,
  Forall (fun c : cost => c 0%nat false = 0) cs ->
  snd (dfree_aux cs OUT) = Some x ->
  exists d, length d = length cs /\ existsb (fun b => b) (firstn OUT d) = true /\ pcost16 0%nat d cs = x.
Proof. induction cs as [|c cs IH]; intros OUT x Hz Hx.
- cbn in Hx. discriminate.
- inversion Hz as [|? ? Hc Hcs]; subst. destruct OUT as [|o]; [cbn in Hx; discriminate|].
  cbn [dfree_aux snd pred] in Hx.
  assert (H1 : (1 < 16)%nat) by lia.
  destruct (back_att cs o 1%nat H1) as (d1 & Ld1 & Pd1).
  assert (Cand : exists d, length d = length (c :: cs) /\ existsb (fun b => b) (firstn (S o) d) = true /\
                           pcost16 0%nat d (c :: cs) = c 0%nat true + nth 1 (fst (dfree_aux cs o)) 0).
  { exists (true :: d1). split; [cbn [length]; lia|]. split; [reflexivity|].
    rewrite pcost_cons. change (nx16 0 true) with 1%nat. rewrite Pd1. reflexivity. }
  destruct (snd (dfree_aux cs o)) as [y|] eqn:E.
  + injection Hx as Hx.
    destruct (Z.le_ge_cases (c 0%nat true + nth 1 (fst (dfree_aux cs o)) 0) y) as [Hle|Hge].
    * rewrite Z.min_l in Hx by exact Hle. subst x. exact Cand.
    * rewrite Z.min_r in Hx by lia. subst x.
      destruct (IH o y Hcs E) as (d & Ld & Ed & Pd).
      exists (false :: d). split; [cbn [length]; lia|]. split; [cbn [firstn existsb orb]; exact Ed|].
      rewrite pcost_cons. change (nx16 0 false) with 0%nat. rewrite Pd, Hc. lia.
  + injection Hx as Hx. subst x. exact Cand.
Qed.

Lemma wcosts_zero mask : Forall (fun c : cost => c 0%nat false = 0) (wcosts mask).
Proof. assert (G : forall n mask, (length mask <= n)%nat -> Forall (fun c : cost => c 0%nat false = 0) (wcosts mask)).
  { induction n as [|n IH]; intros m H.
    - destruct m; [constructor | cbn in H; lia].
    - destruct m as [|m0 [|m1 m']]; cbn [wcosts]; try constructor.
      + unfold wcost. change (out1 0 false) with false. change (out2 0 false) with false. rewrite !andb_false_r. reflexivity.
      + apply IH. cbn [length] in H. lia. }
  apply (G (length mask)). lia. Qed.

(** [dfree mask OUT] is attained by an input word with a one among its first OUT bits *)
Lemma dfree_attained mask OUT n : length mask = (2 * n)%nat -> (1 <= OUT)%nat -> (1 <= n)%nat ->
  exists d, length d = n /\ existsb (fun b => b) (firstn OUT d) = true /\ mweight mask (conv d) = dfree mask OUT.
Proof. intros Hm HO Hn. unfold dfree.
  destruct (snd (dfree_aux (wcosts mask) OUT)) as [x|] eqn:E.
  - destruct (dfree_aux_att (wcosts mask) OUT x (wcosts_zero mask) E) as (d & Ld & Ed & Pd).
    rewrite (wcosts_length n) in Ld by exact Hm.
    exists d. split; [exact Ld|]. split; [exact Ed|].
    unfold conv. rewrite <- (pcost_mweight d false false false false mask) by lia. exact Pd.
  - exfalso. destruct mask as [|m0 [|m1 mask']]; cbn [length] in Hm; try lia.
    destruct OUT as [|o]; [lia|]. cbn in E. discriminate.
Qed.

(** * a word strictly closer than every word with another payload is the one returned *)
Lemma closer_returned tb W IN OUT k sc out0 r w :
  (2 <= W <= 6)%nat -> Nat.even IN = true -> (IN / 2 <= 244)%nat -> (OUT <= IN / 2)%nat -> (k <= OUT)%nat ->
  wf_scratch sc -> length out0 = OUT -> length r = IN -> Forall int8 r -> length w = (IN / 2)%nat ->
  (forall w', length w' = (IN / 2)%nat -> firstn k w' <> firstn k w ->
      dist (soft_limit W) r (conv w) < dist (soft_limit W) r (conv w')) ->
  firstn k (fst (fst (decode_gen tb W IN OUT sc out0 r))) = map b2n (firstn k w).
Proof. intros HW Hev HIN HOUT Hk Hsc Hout0 Hlen Hr Hw Hcl.
  destruct (fst (decode_gen tb W IN OUT sc out0 r)) as [out cost] eqn:E.
  destruct (viterbi_ml_gen tb W IN OUT sc out0 r out cost HW Hev HIN HOUT Hsc Hout0 Hlen Hr E) as [(ws & L1 & L2 & L3 & _) _].
  cbn [fst]. rewrite <- L2.
  assert (F : firstn k (map b2n (firstn OUT ws)) = map b2n (firstn k ws)).
  { rewrite <- firstn_map. rewrite firstn_firstn. replace (Nat.min k OUT) with k by lia. apply firstn_map. }
  rewrite F.
  destruct (list_eq_dec bool_dec (firstn k ws) (firstn k w)) as [Eq|Ne]; [rewrite Eq; reflexivity|].
  specialize (Hcl ws L1 Ne). specialize (L3 w Hw). lia. Qed.

(** * hard-decision (full confidence) reception with flips and erasures *)
Lemma tx_image_dist_self L : 1 <= L -> forall mask c fl, length c = length mask -> length fl = length mask ->
  dist L (tx_image L mask c fl) c = 2 * L * nflips mask fl.
Proof. intros HL. induction mask as [|m mask IH]; intros [|b c] [|f fl] Hc Hf; try discriminate; [cbn; lia|].
  cbn [tx_image dist nflips]. rewrite IH by (cbn in Hc, Hf; lia). unfold sdist.
  destruct m, b, f; cbn [xorb andb];
    repeat match goal with |- context [?x =? 0] => destruct (Z.eqb_spec x 0) end; lia. Qed.

Lemma tx_image_dist_other L : 1 <= L -> forall mask c fl c', length c = length mask -> length fl = length mask ->
  length c' = length mask ->
  2 * L * (mweight mask (xor_bits c c') - nflips mask fl) <= dist L (tx_image L mask c fl) c'.
Proof. intros HL. induction mask as [|m mask IH]; intros [|b c] [|f fl] [|b' c'] Hc Hf Hc'; try discriminate; [cbn; lia|].
  specialize (IH c fl c' ltac:(cbn in Hc; lia) ltac:(cbn in Hf; lia) ltac:(cbn in Hc'; lia)).
  unfold xor_bits in *. cbn [tx_image dist nflips combine map fst snd mweight]. unfold sdist.
  destruct m, b, f, b'; cbn [xorb andb];
    repeat match goal with |- context [?x =? 0] => destruct (Z.eqb_spec x 0) end; lia. Qed.

Lemma tx_image_length L : forall mask c fl, length c = length mask -> length fl = length mask ->
  length (tx_image L mask c fl) = length mask.
Proof. induction mask as [|m mask IH]; intros [|b c] [|f fl] Hc Hf; try discriminate; [reflexivity|].
  cbn [tx_image length]. rewrite IH by (cbn in Hc, Hf; lia). reflexivity. Qed.

Lemma tx_image_int8 L : 1 <= L <= 31 -> forall mask c fl, Forall int8 (tx_image L mask c fl).
Proof. intros HL. induction mask as [|m mask IH]; intros [|b c] [|f fl]; cbn [tx_image]; try constructor; [|apply IH].
  unfold int8. destruct m; [destruct (xorb b f)|]; lia. Qed.

(** correction of up to (dfree - 1) / 2 sign flips, for the first k <= OUT decoded bits *)
Lemma corrects_gen tb W IN OUT k mask sc out0 w fl :
  (2 <= W <= 6)%nat -> Nat.even IN = true -> (IN / 2 <= 244)%nat -> (OUT <= IN / 2)%nat -> (k <= OUT)%nat ->
  wf_scratch sc -> length out0 = OUT ->
  length mask = IN -> length w = (IN / 2)%nat -> length fl = IN ->
  2 * nflips mask fl < dfree mask k ->
  let r := tx_image (soft_limit W) mask (conv w) fl in
  firstn k (fst (fst (decode_gen tb W IN OUT sc out0 r))) = map b2n (firstn k w).
Proof. intros HW Hev HIN HOUT Hk Hsc Hout0 Hmask Hw Hfl He r.
  destruct (limit_spec W HW) as (_ & HL & _).
  assert (HIN2 : IN = (2 * (IN / 2))%nat).
  { apply Nat.even_spec in Hev. destruct Hev as [q ->]. rewrite Nat.mul_comm, Nat.div_mul by lia. lia. }
  assert (Lc : length (conv w) = length mask) by (rewrite conv_length; lia).
  assert (Lf : length fl = length mask) by lia.
  apply closer_returned; try assumption.
  - subst r. rewrite tx_image_length by assumption. exact Hmask.
  - apply tx_image_int8. exact HL.
  - intros w' Hw' Hne. subst r.
    rewrite tx_image_dist_self by (try assumption; lia).
    assert (Lc' : length (conv w') = length mask) by (rewrite conv_length; lia).
    pose proof (tx_image_dist_other (soft_limit W) ltac:(lia) mask (conv w) fl (conv w') Lc Lf Lc') as D.
    rewrite <- conv_xor in D by lia.
    assert (Ex : existsb (fun x => x) (firstn k (xor_bits w w')) = true).
    { destruct (existsb (fun x => x) (firstn k (xor_bits w w'))) eqn:X; [reflexivity|exfalso].
      apply Hne. symmetry. apply firstn_differ; [lia | exact X]. }
    pose proof (dfree_lb mask k (xor_bits w w') ltac:(rewrite xor_bits_length by lia; lia) Ex) as F.
    nia. Qed.

(** * clean code words *)
Lemma clean_dist_other L : 1 <= L -> forall mask r c c', clean L r c -> mask_sub mask r -> length c' = length c ->
  dist L r c + 2 * mweight mask (xor_bits c c') <= dist L r c'.
Proof. intros HL. induction mask as [|m mask IH]; intros r c c' Hcl Hms Hc'.
- inversion Hms; subst. inversion Hcl; subst. destruct c'; [|discriminate]. cbn. lia.
- inversion Hms as [|? x ? r' Hm Hms']; subst. inversion Hcl as [|? b ? c0 Hx Hcl']; subst.
  destruct c' as [|b' c']; [discriminate|].
  specialize (IH r' c0 c' Hcl' Hms' ltac:(cbn in Hc'; lia)).
  unfold xor_bits in *. cbn [dist combine map fst snd mweight]. unfold sdist.
  destruct (Z.eqb_spec x 0) as [->|Nx].
  + destruct m; [exfalso; apply Hm; reflexivity|]. cbn [andb]. lia.
  + destruct Hx as [Hx|Hx]; [contradiction|].
    destruct m, b, b'; cbn [xorb andb]; lia. Qed.

Lemma clean_dist_nonneg L : 1 <= L -> forall r c, clean L r c -> 0 <= dist L r c.
Proof. intros HL r c H. induction H as [|x b r c Hx H IH]; cbn [dist]; [lia|]. unfold sdist.
  destruct (x =? 0); lia. Qed.

Lemma clean_dist_zero L : 1 <= L -> forall r c, clean L r c -> (forall x, In x r -> x = 0 \/ Z.abs x = L) -> dist L r c = 0.
Proof. intros HL r c H. induction H as [|x b r c Hx H IH]; intros Hall; cbn [dist]; [reflexivity|].
  rewrite IH by (intros y Hy; apply Hall; right; exact Hy).
  specialize (Hall x (or_introl eq_refl)). unfold sdist.
  destruct (Z.eqb_spec x 0); [lia|]. destruct Hx as [|Hx]; [contradiction|]. destruct b; lia. Qed.

Lemma clean_int8 L r c : 1 <= L <= 31 -> clean L r c -> Forall int8 r.
Proof. intros HL H. induction H as [|x b r c Hx H IH]; constructor; [|exact IH].
  unfold int8. destruct Hx as [->|Hx]; [lia|]. destruct b; lia. Qed.

Lemma Forall2_len {A B} (P : A -> B -> Prop) l l' : Forall2 P l l' -> length l = length l'.
Proof. intros H. induction H; cbn [length]; [reflexivity | f_equal; assumption]. Qed.

Lemma clean_unique_gen tb W IN OUT mask sc out0 r w :
  (2 <= W <= 6)%nat -> Nat.even IN = true -> (IN / 2 <= 244)%nat -> (OUT <= IN / 2)%nat ->
  wf_scratch sc -> length out0 = OUT -> length w = (IN / 2)%nat ->
  clean (soft_limit W) r (conv w) -> mask_sub mask r -> unique_ok mask OUT = true ->
  fst (fst (decode_gen tb W IN OUT sc out0 r)) = map b2n (firstn OUT w) /\
  ((forall x, In x r -> x = 0 \/ Z.abs x = soft_limit W) -> snd (fst (decode_gen tb W IN OUT sc out0 r)) = 0).
Proof. intros HW Hev HIN HOUT Hsc Hout0 Hw Hcl Hms Hu.
  destruct (limit_spec W HW) as (_ & HL & _).
  assert (HIN2 : IN = (2 * (IN / 2))%nat).
  { apply Nat.even_spec in Hev. destruct Hev as [q ->]. rewrite Nat.mul_comm, Nat.div_mul by lia. lia. }
  assert (Lr : length r = IN).
  { pose proof (Forall2_len _ _ _ Hcl) as E. rewrite conv_length in E. lia. }
  assert (Lm : length mask = IN) by (pose proof (Forall2_len _ _ _ Hms); lia).
  assert (Hr : Forall int8 r) by (apply (clean_int8 _ _ _ HL Hcl)).
  unfold unique_ok in Hu. apply Z.ltb_lt in Hu.
  split.
  - pose proof (closer_returned tb W IN OUT OUT sc out0 r w HW Hev HIN HOUT (Nat.le_refl _) Hsc Hout0 Lr Hr Hw) as C.
    assert (Lo : length (fst (fst (decode_gen tb W IN OUT sc out0 r))) = OUT).
    { destruct (decode_is_dp tb W IN OUT sc out0 r HW ltac:(rewrite history_size_val; exact HIN) HOUT Hsc Hout0) as [E _].
      rewrite E. unfold dp_result. cbn [fst]. rewrite map_length, firstn_length.
      rewrite traceR_length, rev_length, forward_hist_length, costs_of_length. cbn [length]. lia. }
    rewrite <- C.
    + rewrite firstn_all2 by lia. reflexivity.
    + intros w' Hw' Hne.
      pose proof (clean_dist_other (soft_limit W) ltac:(lia) mask r (conv w) (conv w') Hcl Hms
                    ltac:(rewrite !conv_length; lia)) as D.
      rewrite <- conv_xor in D by lia.
      assert (Ex : existsb (fun x => x) (firstn OUT (xor_bits w w')) = true).
      { destruct (existsb (fun x => x) (firstn OUT (xor_bits w w'))) eqn:X; [reflexivity|exfalso].
        apply Hne. symmetry. apply firstn_differ; [lia | exact X]. }
      pose proof (dfree_lb mask OUT (xor_bits w w') ltac:(rewrite xor_bits_length by lia; lia) Ex) as F.
      lia.
  - intros Hall.
    destruct (fst (decode_gen tb W IN OUT sc out0 r)) as [out cost] eqn:E.
    destruct (viterbi_ml_gen tb W IN OUT sc out0 r out cost HW Hev HIN HOUT Hsc Hout0 Lr Hr E) as [(ws & L1 & L2 & L3 & L4 & _) _].
    cbn [snd]. rewrite L4.
    pose proof (clean_dist_zero (soft_limit W) ltac:(lia) r (conv w) Hcl Hall) as Z0.
    specialize (L3 w Hw). rewrite Z0 in L3.
    assert (0 <= dist (soft_limit W) r (conv ws)).
    { (* distances are sums of absolute values *)
      clear. generalize (conv ws). induction r as [|x r IH]; intros [|b c]; cbn [dist]; try lia.
      specialize (IH c). unfold sdist. destruct (x =? 0); lia. }
    replace (dist (soft_limit W) r (conv ws)) with 0 by lia.
    apply Z.div_small. lia. Qed.
