(** SlidingDFT / NSlidingDFT: the recurrence, and (w^N = 1, rho = 1) the closed form = DFT bin of the window. *)
From Coq Require Import Arith List Lia Ring Ring_theory Bool.
From M17 Require Import ImplDSP SpecDSP LemmasDSP_Sum.
Import ListNotations.

(** ** powers in a commutative ring *)
Section Pow.
Variable K : Type.
Variables (k0 k1 : K) (kadd kmul ksub : K -> K -> K) (kopp : K -> K).
Hypothesis Kth : ring_theory k0 k1 kadd kmul ksub kopp (@eq K).
Add Ring Kring : Kth.
Notation pow := (gpow k1 kmul).
Infix "*" := kmul.

Lemma gpow_S w k : pow w (S k) = w * pow w k.
Proof. reflexivity. Qed.

Lemma gpow_add w a b : pow w (a + b)%nat = pow w a * pow w b.
Proof. induction a; cbn [gpow Nat.add]; [ring|]. rewrite IHa. ring. Qed.

Lemma gpow_one k : pow k1 k = k1.
Proof. induction k; cbn [gpow]; [reflexivity|]. rewrite IHk. ring. Qed.

Lemma gpow_mul w a b : pow (pow w a) b = pow w (a * b)%nat.
Proof.
  induction b; cbn [gpow].
  - rewrite Nat.mul_0_r. reflexivity.
  - rewrite IHb, <- gpow_add. f_equal. lia.
Qed.

Lemma inverse_unique a b c : a * c = k1 -> b * c = k1 -> a = b.
Proof.
  intros Ha Hb. transitivity (a * (b * c)); [rewrite Hb; ring|].
  transitivity ((a * c) * b); [ring|]. rewrite Ha. ring.
Qed.

(** if w^N = 1 then (w^(N-1))^j = w^(N-j) for j <= N: both are the inverse of w^j *)
Lemma gpow_inv w N j : pow w N = k1 -> j <= N -> pow (pow w (N - 1)) j = pow w (N - j).
Proof.
  intros HN Hj. apply inverse_unique with (c := pow w j).
  - rewrite gpow_mul, <- gpow_add.
    destruct j; [rewrite Nat.mul_0_r; reflexivity|].
    replace ((N - 1) * S j + S j)%nat with (N * S j)%nat by nia.
    rewrite <- gpow_mul, HN. apply gpow_one.
  - rewrite <- gpow_add. replace (N - j + j)%nat with N by lia. exact HN.
Qed.

(** the sliding sum  S(xs) = Σ_{k<N} w^(k+1) * x_{last-k} *)
Definition slide (w : K) (N : nat) (xs : list K) : K :=
  gsum k0 kadd (fun k => pow w (S k) * ago k0 xs k) N.

Lemma slide_nil w N : slide w N [] = k0.
Proof.
  unfold slide. apply (rsum_zero K k0 k1 kadd kmul ksub kopp Kth). intros. rewrite ago_nil. ring.
Qed.

Lemma slide_push w N xs x : 0 < N -> pow w N = k1 ->
  slide w N (xs ++ [x]) = kmul (kadd (slide w N xs) (ksub x (ago k0 xs (N - 1)))) w.
Proof.
  intros HN Hw. unfold slide. replace N with (S (N - 1)) at 1 2 by lia.
  pose proof (rsum_shift K k0 k1 kadd kmul ksub kopp Kth) as Sh. unfold rsum in Sh. rewrite Sh.
  pose proof (rsum_S K k0 kadd) as SS. unfold rsum in SS. rewrite SS.
  rewrite ago_snoc_0.
  pose proof (rsum_ext K k0 kadd) as Ex. unfold rsum in Ex.
  rewrite (Ex (fun i => pow w (S (S i)) * ago k0 (xs ++ [x]) (S i)) (fun i => w * (pow w (S i) * ago k0 xs i)))
    by (intros; rewrite ago_snoc_S; cbn [gpow]; ring).
  pose proof (rsum_scale K k0 k1 kadd kmul ksub kopp Kth) as Sc. unfold rsum in Sc. rewrite Sc.
  replace (S (N - 1)) with N by lia.
  rewrite Hw. cbn [gpow]. ring.
Qed.
End Pow.

(** ** the complex numbers over a commutative ring form a commutative ring *)
Section Cx.
Variable R : Type.
Variables (r0 r1 : R) (radd rmul rsub : R -> R -> R) (ropp : R -> R).
Hypothesis Rth : ring_theory r0 r1 radd rmul rsub ropp (@eq R).
Add Ring Rring : Rth.
Notation cx := (cx R).
Notation cx0 := (cx0 R r0).
Notation cx1 := (cx1 R r0 r1).
Notation cx_add := (cx_add R radd).
Notation cx_mul := (cx_mul R radd rmul rsub).
Notation cx_of_real := (cx_of_real R r0).
Notation cx_conj := (cx_conj R r0 rsub).
Notation cx_norm := (cx_norm R radd rmul).
Notation cx_pow := (cx_pow R r0 r1 radd rmul rsub).
Notation cx_sum := (cx_sum R r0 radd).
Notation dft_bin := (dft_bin R r0 r1 radd rmul rsub).
Notation cx_sub := (SpecDSP.cx_sub R rsub).
Definition cx_opp (z : cx) : cx := (ropp (fst z), ropp (snd z)).

Ltac cx_ring := intros; repeat match goal with z : cx |- _ => destruct z end;
  unfold SpecDSP.cx_add, SpecDSP.cx_mul, SpecDSP.cx_sub, cx_opp, SpecDSP.cx0, SpecDSP.cx1, SpecDSP.cx_of_real,
         SpecDSP.cx_conj, SpecDSP.cx_norm; cbn [fst snd]; try (f_equal; ring).

Lemma cx_ring_theory : ring_theory cx0 cx1 cx_add cx_mul cx_sub cx_opp (@eq cx).
Proof. constructor; cx_ring. Qed.

Add Ring Cring : cx_ring_theory.
Ltac cring := match goal with |- @eq _ ?a ?b => change (@eq (SpecDSP.cx R) a b) end; ring.

Lemma cx_of_real_0 : cx_of_real r0 = cx0.
Proof. reflexivity. Qed.

Lemma cx_of_real_sub a b : cx_of_real (rsub a b) = cx_sub (cx_of_real a) (cx_of_real b).
Proof. cx_ring. Qed.

Lemma cx_conj_mul z w : cx_conj (cx_mul z w) = cx_mul (cx_conj z) (cx_conj w).
Proof. cx_ring. Qed.

Lemma cx_conj_add z w : cx_conj (cx_add z w) = cx_add (cx_conj z) (cx_conj w).
Proof. cx_ring. Qed.

Lemma cx_conj_real x : cx_conj (cx_of_real x) = cx_of_real x.
Proof. cx_ring. Qed.

Lemma cx_norm_conj z : cx_norm (cx_conj z) = cx_norm z.
Proof. cx_ring; try ring. Qed.

Lemma cx_conj_pow u k : cx_conj (cx_pow u k) = cx_pow (cx_conj u) k.
Proof.
  unfold SpecDSP.cx_pow. induction k; cbn [gpow]; [cx_ring|]. rewrite cx_conj_mul, IHk. reflexivity.
Qed.

Lemma cx_conj_sum f n : cx_conj (cx_sum f n) = cx_sum (fun i => cx_conj (f i)) n.
Proof.
  unfold SpecDSP.cx_sum. induction n; cbn [gsum]; [cx_ring|]. rewrite cx_conj_add, IHn. reflexivity.
Qed.

(** for a real window, the bin at the conjugate twiddle is the conjugate bin *)
Lemma dft_bin_conj u v : dft_bin (cx_conj u) v = cx_conj (dft_bin u v).
Proof.
  unfold SpecDSP.dft_bin. rewrite cx_conj_sum. apply (rsum_ext cx cx0 cx_add). intros i _.
  rewrite cx_conj_mul, cx_conj_real, cx_conj_pow. reflexivity.
Qed.

(** ** the implementation *)
Notation C := (ImplDSP.C R).
Notation cmul := (ImplDSP.cmul R radd rmul rsub).
Notation cadd_real := (ImplDSP.cadd_real R radd).
Notation cscale := (ImplDSP.cscale R rmul).
Notation sdft_step := (sdft_step R r0 radd rmul rsub).
Notation sdft_run := (sdft_run R r0 radd rmul rsub).
Notation run_sdft := (run_sdft R r0 radd rmul rsub).
Notation sdft_init := (sdft_init R r0).
Notation nsdft_step := (nsdft_step R r0 radd rmul rsub).
Notation nsdft_run := (nsdft_run R r0 radd rmul rsub).
Notation run_nsdft := (run_nsdft R r0 radd rmul rsub).
Notation nsdft_init := (nsdft_init R r0).
Notation rb_inv := (rb_inv R r0).
Notation c0 := (ImplDSP.c0 R r0).

Lemma cmul_is_cx_mul z w : cmul z w = cx_mul z w.
Proof. reflexivity. Qed.

Lemma cadd_real_is z x : cadd_real z x = cx_add z (cx_of_real x).
Proof. destruct z. unfold ImplDSP.cadd_real, SpecDSP.cx_add, SpecDSP.cx_of_real. cbn [fst snd]. f_equal. ring. Qed.

Lemma cscale_is z k : cscale z k = cx_mul z (cx_of_real k).
Proof. destruct z. unfold ImplDSP.cscale, SpecDSP.cx_mul, SpecDSP.cx_of_real. cbn [fst snd]. f_equal; ring. Qed.

Lemma cscale_one z : cscale z r1 = z.
Proof. destruct z. unfold ImplDSP.cscale. cbn [fst snd]. f_equal; ring. Qed.

(** x_{n-d} of the input consumed so far, zero before the start, embedded in the complex numbers *)
Definition cago (xs : list R) (d : nat) : cx := cx_of_real (ago r0 xs d).

(** *** the recurrence, for any coefficient and any damping factor *)
(** one call: what is returned and what is stored, in terms of the inputs consumed so far *)
Lemma sdft_step_spec N coeff rho pre st x : rb_inv N pre (sdft_samples st) (sdft_index st) ->
  let r := sdft_step N coeff rho st x in
  rb_inv N (pre ++ [x]) (sdft_samples (fst r)) (sdft_index (fst r)) /\
  snd r = cx_mul (cx_add (sdft_result st) (cx_sub (cx_of_real x) (cago pre (N - 1)))) coeff /\
  sdft_result (fst r) = cx_mul (snd r) (cx_of_real rho).
Proof.
  intros I. unfold ImplDSP.sdft_step. cbv zeta. cbn [fst snd sdft_samples sdft_index sdft_result].
  split; [apply (rb_push R r0 _ _ _ _ x I)|]. split.
  - rewrite cmul_is_cx_mul, cadd_real_is, cx_of_real_sub, (rb_oldest R r0 _ _ _ _ I). reflexivity.
  - apply cscale_is.
Qed.

Lemma sdft_run_length N coeff rho : forall xs st, length (snd (sdft_run N coeff rho st xs)) = length xs.
Proof.
  induction xs; intros; [reflexivity|]. cbn [ImplDSP.sdft_run].
  destruct (sdft_step N coeff rho st a) as [st1 y]. specialize (IHxs st1).
  destruct (sdft_run N coeff rho st1 xs). simpl in *. congruence.
Qed.

(** outputs y_n of a run obey  y_n = (rho * y_{n-1} + x_n - x_{n-N}) * coeff,  y_{-1} = 0, x_{<0} = 0 *)
Lemma sdft_run_recurrence N coeff rho : forall xs pre st,
  rb_inv N pre (sdft_samples st) (sdft_index st) ->
  forall n, n < length xs ->
  nth n (snd (sdft_run N coeff rho st xs)) cx0 =
  cx_mul (cx_add (match n with O => sdft_result st | S m => cx_mul (nth m (snd (sdft_run N coeff rho st xs)) cx0) (cx_of_real rho) end)
                 (cx_sub (cx_of_real (nth n xs r0)) (cago (pre ++ firstn n xs) (N - 1)))) coeff.
Proof.
  induction xs; intros pre st I n Hn; [simpl in Hn; lia|].
  cbn [ImplDSP.sdft_run]. pose proof (sdft_step_spec N coeff rho pre st a I) as S. cbv zeta in S.
  destruct (sdft_step N coeff rho st a) as [st1 y]. cbn [fst snd] in S. destruct S as (I1 & Y & St).
  specialize (IHxs (pre ++ [a]) st1 I1). destruct (sdft_run N coeff rho st1 xs) as [st2 ys]. cbn [snd] in *.
  destruct n.
  - cbn [nth firstn]. rewrite app_nil_r, Y. reflexivity.
  - cbn [nth firstn]. simpl in Hn. rewrite IHxs by lia. rewrite <- app_assoc. cbn [app].
    destruct n; [rewrite St; reflexivity|reflexivity].
Qed.

(** *** closed form for rho = 1 and coeff^N = 1 *)
Notation slide := (slide cx cx0 cx1 cx_add cx_mul).

Lemma ago_map_real xs d : ago cx0 (map cx_of_real xs) d = cago xs d.
Proof.
  unfold cago, LemmasDSP_Sum.ago. rewrite map_length. destruct (Nat.ltb_spec d (length xs)); [|reflexivity].
  apply nth_map_in. lia.
Qed.

Lemma sdft_run_closed N w : 0 < N -> cx_pow w N = cx1 -> forall xs pre st,
  rb_inv N pre (sdft_samples st) (sdft_index st) ->
  sdft_result st = slide w N (map cx_of_real pre) ->
  forall n, n < length xs ->
  nth n (snd (sdft_run N w r1 st xs)) cx0 = slide w N (map cx_of_real (pre ++ firstn (S n) xs)).
Proof.
  intros HN Hw. induction xs; intros pre st I Hr n Hn; [simpl in Hn; lia|].
  cbn [ImplDSP.sdft_run]. pose proof (sdft_step_spec N w r1 pre st a I) as S. cbv zeta in S.
  destruct (sdft_step N w r1 st a) as [st1 y]. cbn [fst snd] in S. destruct S as (I1 & Y & St).
  assert (Ey : y = slide w N (map cx_of_real (pre ++ [a]))).
  { rewrite Y, Hr, map_app. cbn [map].
    rewrite (slide_push cx cx0 cx1 cx_add cx_mul cx_sub cx_opp cx_ring_theory) by assumption.
    rewrite ago_map_real. reflexivity. }
  assert (Hr1 : sdft_result st1 = slide w N (map cx_of_real (pre ++ [a]))).
  { rewrite St, Ey. unfold SpecDSP.cx_of_real. fold cx1. cring. }
  specialize (IHxs (pre ++ [a]) st1 I1 Hr1). destruct (sdft_run N w r1 st1 xs) as [st2 ys]. cbn [snd] in *.
  destruct n.
  - cbn [nth firstn]. exact Ey.
  - cbn [nth]. simpl in Hn. rewrite IHxs by lia. rewrite <- app_assoc. reflexivity.
Qed.

Lemma firstn_S_ago (xs : list R) n d : n < length xs -> d <= n ->
  ago r0 (firstn (S n) xs) d = nth (n - d) xs r0.
Proof.
  intros Hn Hd. unfold LemmasDSP_Sum.ago. rewrite firstn_length_le by lia.
  destruct (Nat.ltb_spec d (S n)); [|lia].
  replace (S n - 1 - d) with (n - d) by lia. apply nth_firstn_lt. lia.
Qed.

Lemma nth_window N xs n j : N - 1 <= n -> n < length xs -> j < N ->
  nth j (window R N xs n) r0 = nth (n + 1 - N + j) xs r0.
Proof. intros. unfold window. rewrite nth_firstn_lt by assumption. apply nth_skipn_add. Qed.

Lemma window_length N xs n : N - 1 <= n -> n < length xs -> length (window R N xs n) = N.
Proof. intros. unfold window. rewrite firstn_length_le; [reflexivity|]. rewrite skipn_length. lia. Qed.

(** the sliding sum over the last N samples is the DFT bin with twiddle w^(N-1) = w^(-1) *)
Lemma slide_is_dft N w xs n : 0 < N -> cx_pow w N = cx1 -> N - 1 <= n -> n < length xs ->
  slide w N (map cx_of_real (firstn (S n) xs)) = dft_bin (cx_pow w (N - 1)) (window R N xs n).
Proof.
  intros HN Hw Hn Hl. unfold LemmasDSP_Sdft.slide, SpecDSP.dft_bin. rewrite window_length by assumption.
  pose proof (rsum_rev cx cx0 cx1 cx_add cx_mul cx_sub cx_opp cx_ring_theory) as Rv. unfold rsum in Rv.
  rewrite Rv. apply (rsum_ext cx cx0 cx_add). intros j Hj.
  rewrite ago_map_real. unfold cago. rewrite firstn_S_ago by lia.
  rewrite nth_window by lia.
  unfold SpecDSP.cx_pow. rewrite (gpow_inv cx cx0 cx1 cx_add cx_mul cx_sub cx_opp cx_ring_theory) by (auto; lia).
  replace (S (N - 1 - j)) with (N - j) by lia. replace (n - (N - 1 - j)) with (n + 1 - N + j) by lia.
  ring.
Qed.

Lemma sdft_is_dft_lemma N w xs n : 0 < N -> cx_pow w N = cx1 -> N - 1 <= n -> n < length xs ->
  nth n (run_sdft N w r1 xs) cx0 = dft_bin (cx_pow w (N - 1)) (window R N xs n).
Proof.
  intros HN Hw Hn Hl. unfold ImplDSP.run_sdft.
  rewrite (sdft_run_closed N w HN Hw xs [] (sdft_init N)); auto.
  - cbn [app]. apply slide_is_dft; assumption.
  - apply rb_inv_init. assumption.
  - cbn [map]. rewrite (slide_nil cx cx0 cx1 cx_add cx_mul cx_sub cx_opp cx_ring_theory). reflexivity.
Qed.

(** with |w| = 1 (w * conj w = 1) this is the conjugate of the textbook bin, hence of equal magnitude *)
Lemma sdft_is_conj_dft_lemma N w xs n : 0 < N -> cx_pow w N = cx1 -> cx_mul w (cx_conj w) = cx1 ->
  N - 1 <= n -> n < length xs ->
  nth n (run_sdft N w r1 xs) cx0 = cx_conj (dft_bin w (window R N xs n)).
Proof.
  intros HN Hw Hu Hn Hl. rewrite sdft_is_dft_lemma by assumption.
  rewrite <- dft_bin_conj. f_equal.
  apply (inverse_unique cx cx0 cx1 cx_add cx_mul cx_sub cx_opp cx_ring_theory) with (c := w).
  - unfold SpecDSP.cx_pow in *.
    assert (E : gpow cx1 cx_mul w N = cx_mul (gpow cx1 cx_mul w (N - 1)) w)
      by (replace N with (S (N - 1)) at 1 by lia; cbn [gpow]; ring).
    rewrite <- E. exact Hw.
  - rewrite <- Hu. ring.
Qed.

Lemma sdft_norm_lemma N w xs n : 0 < N -> cx_pow w N = cx1 -> cx_mul w (cx_conj w) = cx1 ->
  N - 1 <= n -> n < length xs ->
  cx_norm (nth n (run_sdft N w r1 xs) cx0) = cx_norm (dft_bin w (window R N xs n)).
Proof. intros. rewrite sdft_is_conj_dft_lemma by assumption. apply cx_norm_conj. Qed.

(** ** NSlidingDFT: every bin is a SlidingDFT with rho = 1 on the shared window *)
Lemma nsdft_loop (g : nat -> C -> C) : forall k res, k <= length res ->
  let res' := fold_left (fun res i => set_nth i (g i (nth i res c0)) res) (seq 0 k) res in
  length res' = length res /\
  forall i, nth i res' c0 = if i <? k then g i (nth i res c0) else nth i res c0.
Proof.
  induction k; intros res Hk; cbv zeta.
  - split; [reflexivity|]. intros. reflexivity.
  - rewrite seq_S, fold_left_app. cbn [fold_left Nat.add].
    destruct (IHk res) as [L H]; [lia|]. cbv zeta in L, H.
    split; [rewrite set_nth_length; exact L|].
    intros i. rewrite nth_set_nth by lia. rewrite !H.
    destruct (Nat.eqb_spec i k), (Nat.ltb_spec i k), (Nat.ltb_spec i (S k)), (Nat.ltb_spec k k); try lia; try reflexivity.
    subst. reflexivity.
Qed.

Lemma nsdft_run_bin N coeffs i : i < length coeffs -> forall xs st sst,
  length (nsdft_result st) = length coeffs ->
  nsdft_samples st = sdft_samples sst -> nsdft_index st = sdft_index sst ->
  nth i (nsdft_result st) c0 = sdft_result sst ->
  map (fun r => nth i r c0) (snd (nsdft_run N coeffs st xs)) = snd (sdft_run N (nth i coeffs c0) r1 sst xs).
Proof.
  intros Hi. induction xs; intros st sst L Es Ei Er; [reflexivity|].
  cbn [ImplDSP.nsdft_run ImplDSP.sdft_run].
  unfold ImplDSP.nsdft_step, ImplDSP.sdft_step. cbv zeta.
  destruct (nsdft_loop (fun i z => cmul (cadd_real z (rsub a (nth (nsdft_index st) (nsdft_samples st) r0))) (nth i coeffs c0))
              (length coeffs) (nsdft_result st)) as [L' H']; [lia|]. cbv zeta in L', H'.
  match goal with |- context [nsdft_run N coeffs ?s xs] => set (st1 := s) end.
  match goal with |- context [sdft_run N ?c r1 ?s xs] => set (sst1 := s) end.
  specialize (IHxs st1 sst1).
  destruct (nsdft_run N coeffs st1 xs) as [st2 ys]. destruct (sdft_run N (nth i coeffs c0) r1 sst1 xs) as [sst2 zs].
  cbn [snd map] in *. f_equal.
  - rewrite H'. destruct (Nat.ltb_spec i (length coeffs)); [|lia]. rewrite Er, Es, Ei. reflexivity.
  - apply IHxs; unfold st1, sst1; cbn [nsdft_result nsdft_samples nsdft_index sdft_samples sdft_index sdft_result].
    + rewrite L'. exact L.
    + rewrite Es, Ei. reflexivity.
    + rewrite Ei. reflexivity.
    + rewrite H'. destruct (Nat.ltb_spec i (length coeffs)); [|lia]. rewrite cscale_one, Er, Es, Ei. reflexivity.
Qed.

Lemma nsdft_bin_is_sdft_lemma N coeffs i xs : i < length coeffs ->
  map (fun r => nth i r c0) (run_nsdft N coeffs xs) = run_sdft N (nth i coeffs c0) r1 xs.
Proof.
  intros Hi. unfold ImplDSP.run_nsdft, ImplDSP.run_sdft. apply nsdft_run_bin; auto.
  - apply repeat_length.
  - cbn [nsdft_result ImplDSP.nsdft_init sdft_result ImplDSP.sdft_init]. apply nth_repeat_any.
Qed.

(** the recurrence for a freshly constructed SlidingDFT, in terms of the input sequence only *)
Lemma sdft_recurrence_lemma N coeff rho xs n : 0 < N -> n < length xs ->
  nth n (run_sdft N coeff rho xs) cx0 =
  cx_mul (cx_add (match n with O => cx0 | S m => cx_mul (nth m (run_sdft N coeff rho xs) cx0) (cx_of_real rho) end)
                 (cx_sub (cx_of_real (nth n xs r0)) (cx_of_real (if N <=? n then nth (n - N) xs r0 else r0)))) coeff.
Proof.
  intros HN Hn. unfold ImplDSP.run_sdft.
  rewrite (sdft_run_recurrence N coeff rho xs [] (sdft_init N) (rb_inv_init R r0 N HN) n Hn).
  cbn [app sdft_result ImplDSP.sdft_init]. unfold cago, LemmasDSP_Sum.ago.
  rewrite firstn_length_le by lia.
  destruct (Nat.ltb_spec (N - 1) n), (Nat.leb_spec N n); try lia; [|reflexivity].
  rewrite nth_firstn_lt by lia. replace (n - 1 - (N - 1)) with (n - N) by lia. reflexivity.
Qed.

Lemma run_sdft_length N coeff rho xs : length (run_sdft N coeff rho xs) = length xs.
Proof. apply sdft_run_length. Qed.

End Cx.
