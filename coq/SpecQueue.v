(** SpecQueue — the sequential bounded FIFO with shutdown that the property statements describe, written without
    looking at queue.h: a state is the list of items and "has close() been called".  Only the *types* of
    operations and responses are shared with ImplQueue. *)
From Coq Require Import ZArith List Bool Arith.
From M17 Require Import ImplQueue.
Import ListNotations.

Record sq := mksq { s_items : list val; s_closed : bool }.
Definition s_init : sq := mksq [] false.

(** the caller asked to wait without bound (the default argument, duration::max()) *)
Definition forever (o : op) : Prop :=
  match o with OpPut _ n _ | OpGet n _ => n = int64_max | _ => False end.

Section Spec.
Variable cap : nat.

(** [spec_step s o r s']: in state s the sequential queue may answer r to o and move to s'.
    - put succeeds iff not closed and not full; fails with WNotOpen only when closed, with WFull0 only for a zero
      timeout on a full queue, with WTimeout only if the caller did not ask to wait for ever;
    - get returns the oldest item; fails with WClosedEmpty only when closed and drained, with WTimeout only if the
      caller did not ask to wait for ever (the sequential specification cannot see the clock: a timed operation may
      give up; C16's false_only_if says when the implementation does);
    - is_open = not closed; is_closed = closed and drained; size/empty as expected. *)
Definition spec_step (s : sq) (o : op) (r : resp) (s' : sq) : Prop :=
  match o, r with
  | OpPut v _ _, ROk None => s_closed s = false /\ length (s_items s) < cap /\ s' = mksq (s_items s ++ [v]) false
  | OpPut _ _ _, RFail WNotOpen => s_closed s = true /\ s' = s
  | OpPut _ n _, RFail WFull0 => n = 0%Z /\ length (s_items s) = cap /\ s' = s
  | OpPut _ _ _, RFail WTimeout => ~ forever o /\ s' = s
  | OpGet _ _, ROk (Some v) | OpGetUntil _, ROk (Some v) => exists rest, s_items s = v :: rest /\ s' = mksq rest (s_closed s)
  | OpGet _ _, RFail WClosedEmpty | OpGetUntil _, RFail WClosedEmpty => s_closed s = true /\ s_items s = [] /\ s' = s
  | OpGet _ _, RFail WTimeout | OpGetUntil _, RFail WTimeout => ~ forever o /\ s' = s
  | OpClose, RUnit => s' = mksq (s_items s) true
  | OpQuery QIsOpen, RQuery n => n = b2n (negb (s_closed s)) /\ s' = s
  | OpQuery QIsClosed, RQuery n => n = b2n (s_closed s && is_nil (s_items s)) /\ s' = s
  | OpQuery QSize, RQuery n => n = length (s_items s) /\ s' = s
  | OpQuery QEmpty, RQuery n => n = b2n (is_nil (s_items s)) /\ s' = s
  | _, _ => False
  end.

(** a history (newest first, as ImplQueue records it) is legal if its linearization points, in order, are a run of
    the sequential queue from the empty open queue ending in s *)
Fixpoint legal (h : list hevent) (s : sq) : Prop :=
  match h with
  | [] => s = s_init
  | HLin _ o r :: h' => exists s0, legal h' s0 /\ spec_step s0 o r s
  | _ :: h' => legal h' s
  end.

(** deterministic sequential queue for operation sequences that cannot block (used as the oracle of the
    differential test): None = the operation would block *)
Definition spec_apply (s : sq) (o : op) : option (sq * resp) :=
  match o with
  | OpPut v n _ =>
      if Nat.eqb (length (s_items s)) cap then
        (if (n =? 0)%Z then Some (s, RFail WFull0) else if s_closed s then Some (s, RFail WNotOpen) else None)
      else if s_closed s then Some (s, RFail WNotOpen)
      else Some (mksq (s_items s ++ [v]) false, ROk None)
  | OpGet _ _ | OpGetUntil _ =>
      match s_items s with
      | v :: rest => Some (mksq rest (s_closed s), ROk (Some v))
      | [] => if s_closed s then Some (s, RFail WClosedEmpty) else None
      end
  | OpClose => Some (mksq (s_items s) true, RUnit)
  | OpQuery q =>
      Some (s, RQuery (match q with
                       | QIsOpen => b2n (negb (s_closed s)) | QIsClosed => b2n (s_closed s && is_nil (s_items s))
                       | QSize => length (s_items s) | QEmpty => b2n (is_nil (s_items s))
                       end))
  end.
Fixpoint spec_run (s : sq) (ops : list op) : list (option resp) :=
  match ops with
  | [] => []
  | o :: r => match spec_apply s o with Some (s', x) => Some x :: spec_run s' r | None => [None] end
  end.
End Spec.

(** thread-local shape of a history: invocation, then exactly one linearization point, then the response that
    reports the linearization point's result *)
Inductive phase := PhIdle | PhInv (o : op) | PhLin (o : op) (r : resp).
Definition ev_tid (e : hevent) : tid := match e with HInv t _ | HLin t _ _ | HRes t _ _ => t end.
Inductive hwf (t : tid) : list hevent -> phase -> Prop :=
| hwf_nil : hwf t [] PhIdle
| hwf_other e h ph : ev_tid e <> t -> hwf t h ph -> hwf t (e :: h) ph
| hwf_inv h o : hwf t h PhIdle -> hwf t (HInv t o :: h) (PhInv o)
| hwf_lin h o r : hwf t h (PhInv o) -> hwf t (HLin t o r :: h) (PhLin o r)
| hwf_res h o r : hwf t h (PhLin o r) -> hwf t (HRes t o r :: h) PhIdle.

(** committed enqueues / dequeues read off a history (newest first) *)
Fixpoint puts_in (h : list hevent) : list (tid * val) :=
  match h with
  | HLin t o r :: h' =>
      match r, o with
      | ROk None, OpPut v _ _ => (t, v) :: puts_in h'
      | _, _ => puts_in h'
      end
  | _ :: h' => puts_in h'
  | [] => []
  end.
Fixpoint gets_in (h : list hevent) : list val :=
  match h with
  | HLin _ _ (ROk (Some v)) :: h' => v :: gets_in h'
  | _ :: h' => gets_in h'
  | [] => []
  end.
