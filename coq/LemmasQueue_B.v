(** LemmasQueue_B — data invariants: what each program point knows (loc), size_ = length items <= SIZE,
    CLOSED => drained, FIFO ghost equation. *)
From Coq Require Import ZArith List Bool Arith Lia.
From M17 Require Import ImplQueue SpecQueue ConstsQueue LemmasQueue_A.
Import ListNotations.

Lemma st_eqb_eq a b : st_eqb a b = true <-> a = b.
Proof. destruct a, b; cbn; split; congruence. Qed.
Lemma st_eqb_neq a b : st_eqb a b = false <-> a <> b.
Proof. destruct a, b; cbn; split; congruence. Qed.
Lemma is_nil_true {A} (l : list A) : is_nil l = true <-> l = [].
Proof. destruct l; cbn; split; congruence. Qed.
Lemma is_nil_false {A} (l : list A) : is_nil l = false <-> l <> [].
Proof. destruct l; cbn; split; congruence. Qed.
Lemma rm_nil t : rm t [] = []. Proof. reflexivity. Qed.
Lemma rm_opt_nil u : rm_opt u [] = []. Proof. destruct u; reflexivity. Qed.

Lemma release_items c t : items (release c t) = items c. Proof. unfold release; destruct (holds c t); reflexivity. Qed.
Lemma release_size c t : size_ (release c t) = size_ c. Proof. unfold release; destruct (holds c t); reflexivity. Qed.
Lemma release_st c t : st (release c t) = st c. Proof. unfold release; destruct (holds c t); reflexivity. Qed.
Lemma release_wfull c t : wfull (release c t) = wfull c. Proof. unfold release; destruct (holds c t); reflexivity. Qed.
Lemma release_wempty c t : wempty (release c t) = wempty c. Proof. unfold release; destruct (holds c t); reflexivity. Qed.
Lemma release_pcs c t : pcs (release c t) = pcs c. Proof. unfold release; destruct (holds c t); reflexivity. Qed.
Lemma release_now c t : now (release c t) = now c. Proof. unfold release; destruct (holds c t); reflexivity. Qed.
Lemma release_enq c t : enq (release c t) = enq c. Proof. unfold release; destruct (holds c t); reflexivity. Qed.
Lemma release_deq c t : deq (release c t) = deq c. Proof. unfold release; destruct (holds c t); reflexivity. Qed.
Lemma release_hist c t : hist (release c t) = hist c. Proof. unfold release; destruct (holds c t); reflexivity. Qed.
Ltac rel := rewrite ?release_items, ?release_size, ?release_st, ?release_wfull, ?release_wempty, ?release_pcs,
                    ?release_now, ?release_enq, ?release_deq, ?release_hist in *.

Section B.
Variable cap : nat.

(** facts a thread has established under the mutex and that stay true while it holds it *)
Definition loc (c : config) (x : option (op * point)) : Prop :=
  match x with
  | Some (_, PTestZero) | Some (_, PLoopState _) => size_ c = cap
  | Some (_, PWait _) => size_ c = cap /\ st c = OPEN
  | Some (_, PTestState) => size_ c <> cap
  | Some (_, PPush) => size_ c <> cap /\ st c = OPEN
  | Some (_, PSizeInc) => length (items c) = S (size_ c)
  | Some (_, GSizeDec _) => size_ c = S (length (items c))
  | Some (_, GPop) => items c <> []
  | Some (_, GTestClosed) => items c = []
  | Some (_, GWait) => items c = [] /\ st c <> CLOSED
  | Some (_, GDrainWrite _) => items c = [] /\ st c = CLOSING
  | Some (_, CNotifyEmpty) => wfull c = []
  | _ => True
  end.
Definition mid (x : option (op * point)) : bool :=
  match x with Some (_, PSizeInc) | Some (_, GSizeDec _) => true | _ => false end.

Definition inv_B (c : config) : Prop :=
  (forall t, loc c (pcs c t)) /\
  length (items c) <= cap /\
  ((forall t, mid (pcs c t) = false) -> size_ c = length (items c)) /\
  (st c = CLOSED -> items c = []).

Lemma loc_noncs c x : cs x = false -> loc c x.
Proof. destruct x as [[o []]|]; cbn; intros; try discriminate; exact I. Qed.
Lemma mid_cs x : mid x = true -> cs x = true.
Proof. destruct x as [[o []]|]; cbn; congruence. Qed.
Lemma loc_ext c c' x :
  items c' = items c -> size_ c' = size_ c -> st c' = st c -> (wfull c = [] -> wfull c' = []) ->
  loc c x -> loc c' x.
Proof. intros E1 E2 E3 E4. destruct x as [[o []]|]; cbn; rewrite ?E1, ?E2, ?E3; auto. Qed.

Lemma loc_other c c' t u :
  reachable cap c -> u <> t -> loc c (pcs c u) ->
  (cs (pcs c t) = true \/
   (items c' = items c /\ size_ c' = size_ c /\ st c' = st c /\ (wfull c = [] -> wfull c' = []))) ->
  loc c' (pcs c u).
Proof.
  intros R Ne L [C | (E1 & E2 & E3 & E4)].
  - apply loc_noncs. destruct (cs (pcs c u)) eqn:E; auto. exfalso. apply Ne. eapply cs_unique; eauto.
  - eapply loc_ext; eauto.
Qed.

Lemma others_not_mid c t : reachable cap c -> cs (pcs c t) = true -> forall u, u <> t -> mid (pcs c u) = false.
Proof.
  intros R C u Ne. destruct (mid (pcs c u)) eqn:E; auto. exfalso. apply Ne. eapply cs_unique; eauto using mid_cs.
Qed.
End B.

Ltac own_pc c t :=
  match goal with H : pcs c t = Some (?o, ?p) |- _ => constr:((o, p)) end.

Ltac norm_tests :=
  repeat match goal with
         | H : Nat.eqb _ _ = true |- _ => apply Nat.eqb_eq in H
         | H : Nat.eqb _ _ = false |- _ => apply Nat.eqb_neq in H
         | H : st_eqb _ _ = true |- _ => apply st_eqb_eq in H
         | H : st_eqb _ _ = false |- _ => apply st_eqb_neq in H
         | H : is_nil _ = true |- _ => apply is_nil_true in H
         | H : is_nil _ = false |- _ => apply is_nil_false in H
         | H : andb _ _ = true |- _ => apply andb_prop in H; destruct H
         | H : andb _ _ = false |- _ => apply andb_false_iff in H
         end.
Ltac fin := norm_tests; unfold close_state in *;
  repeat match goal with H : items _ = _ :: _ |- _ => rewrite H in * end;
  repeat match goal with |- context [is_nil ?l] => destruct (is_nil l) eqn:? end; norm_tests; cbn [length app] in *; rewrite ?app_length in *; cbn [length] in *;
  try tauto; try congruence; try lia; try (intuition (try congruence; try lia)).

Section B2.
Variable cap : nat.

Lemma inv_B_reach : forall c, reachable cap c -> inv_B cap c.
Proof.
  apply reach_ind.
  - intros n0. repeat split; cbn; auto; lia.
  - intros c t l c' R (L & Hlen & Hsz & Hcl) S.
    pose proof (mutex_inv_reach cap c R) as M.
    pose proof (L t) as Lt.
    assert (Hsz' : cs (pcs c t) = true -> mid (pcs c t) = false -> size_ c = length (items c)).
    { intros C Mi. apply Hsz. intros u. destruct (Nat.eq_dec u t) as [->|Ne]; auto.
      eapply others_not_mid; eauto. }
    inv_step S;
      try (match goal with H : locks _ = false |- _ => rewrite locks_all in H; discriminate end);
      try (match goal with H : pcs c t = Some _ |- _ => rewrite H in Lt, Hsz'; cbn [loc cs mid] in Lt, Hsz' end);
      try specialize (Hsz' eq_refl eq_refl);
    unfold inv_B; brk; unf; rel; try discriminate;
    (split; [ intros uu; destruct (Nat.eq_dec uu t) as [->|Ne];
                   [ rewrite ?upd_same
                   | rewrite ?(upd_other _ _ _ _ Ne); try (eapply loc_other; eauto; fail);
                     try (eapply (loc_other cap c _ t uu R Ne (L uu));
                          first [ left; match goal with H : pcs c t = Some _ |- _ => rewrite H; reflexivity end
                                | right; cbn; repeat split; auto; intros E0; rewrite E0; rewrite ?rm_nil, ?rm_opt_nil; reflexivity ]) ]
                 | ]);
    try (cbn [loc items size_ st wfull]; fin; fail);
    try (destruct o; cbn; exact I);
    try (eapply loc_ext; [ | | | | exact (L t)]; cbn; auto; fail);
    try (repeat split;
         [ fin
         | intros Hm;
           first [ pose proof (Hm t) as Hmt; rewrite upd_same in Hmt; discriminate Hmt
                 | fin; fail
                 | apply Hsz; intros u0; destruct (Nat.eq_dec u0 t) as [->|Ne0];
                   [ match goal with Hpc : pcs c t = _ |- _ => rewrite Hpc; reflexivity end
                   | specialize (Hm u0); rewrite ?(upd_other _ _ _ _ Ne0) in Hm; exact Hm ]
                 | exact (Hsz Hm) ]
         | fin ]; fail).
Qed.
End B2.
