(** C12 — FloatType = float (binary32), the width the modem uses (ConstsLlr.llr_width_modem = 4):
    the finite facts about the 43-row table computed by [make_llr_map F32 4] (each closed by [vm_compute]; the table
    itself is recomputed inside Coq from the constants of the repository), and the clauses of the property for every
    [x : binary32] obtained from LemmasLLR_D. *)
From Coq Require Import ZArith QArith Lia List Bool Floats.SpecFloat.
From Flocq Require Import IEEE754.Binary IEEE754.Bits.
From M17 Require Import ConstsLlr ImplLLR SpecLLR LemmasLLR_A LemmasLLR_B LemmasLLR_C LemmasLLR_D.
Import ListNotations.
Open Scope Z_scope.

Definition tbl32 : list row := make_llr_map F32 llr_width_modem.
Definition Sp32 : positive := (2 ^ 149)%positive.

(** exported: the soft demapper the modem uses, on Flocq's binary32 and on IEEE bit patterns *)
Definition llr4_float (x : binary32) : Z * Z := llr F32 llr_width_modem (B2SF 24 128 x).
Definition llr4_float_bits (b : Z) : Z * Z := llr F32 llr_width_modem (sf_of_bits F32 b).
Definition B2Q32 (x : binary32) : Q := SF2Q (B2SF 24 128 x).

Lemma Hprec32 : 0 < 24. Proof. reflexivity. Qed.
Lemma Hemax32 : 24 < 128. Proof. reflexivity. Qed.
Lemma HSp32 : Zpos Sp32 = 2 ^ (- SpecFloat.emin 24 128). Proof. vm_compute. reflexivity. Qed.

Lemma width_is_4 : llr_width_modem = 4. Proof. reflexivity. Qed.
Lemma tbl32_rows : length tbl32 = 43%nat. Proof. vm_compute. reflexivity. Qed.

(** table_ok: the finite facts *)
Lemma C32_valid : chk_valid 24 128 tbl32 = true. Proof. vm_compute. reflexivity. Qed.
Lemma C32_sorted : chk_sorted 24 128 tbl32 = true. Proof. vm_compute. reflexivity. Qed.
Lemma C32_bounds : chk_bounds 24 128 Sp32 = true. Proof. vm_compute. reflexivity. Qed.
Lemma C32_soft : chk_soft tbl32 llr_width_modem = true. Proof. vm_compute. reflexivity. Qed.
Lemma C32_sign : chk_sign 24 128 tbl32 Sp32 = true. Proof. vm_compute. reflexivity. Qed.
Lemma C32_first : chk_first tbl32 = true. Proof. vm_compute. reflexivity. Qed.
Lemma C32_second_pos : chk_second_pos 24 128 tbl32 = true. Proof. vm_compute. reflexivity. Qed.
Lemma C32_second_neg : chk_second_neg 24 128 tbl32 = true. Proof. vm_compute. reflexivity. Qed.

Lemma valid_B2SF32 : forall x : binary32, SpecFloat.valid_binary 24 128 (B2SF 24 128 x) = true.
Proof. intros [s|s|s pl H|s m e H]; try reflexivity. exact H. Qed.

Definition fle32 (x y : binary32) : Prop := Bcompare 24 128 x y = Some Lt \/ Bcompare 24 128 x y = Some Eq.
Lemma fle32_sf_le : forall x y, fle32 x y -> sf_le (B2SF 24 128 x) (B2SF 24 128 y).
Proof.
  intros x y H. unfold fle32, Bcompare, BinarySingleNaN.Bcompare in H. rewrite !B2SF_B2BSN in H. exact H.
Qed.

Lemma soft_ok_prop : forall L v, soft_ok L v = true ->
  fst v <> 0 /\ - full_scale L <= fst v <= full_scale L /\ snd v <> 0 /\ - full_scale L <= snd v <= full_scale L.
Proof.
  intros L v H. unfold soft_ok in H.
  repeat match goal with H : _ && _ = true |- _ => apply andb_prop in H; destruct H end.
  repeat match goal with
         | H : negb _ = true |- _ => apply negb_true_iff in H; apply Z.eqb_neq in H
         | H : (_ <=? _) = true |- _ => apply Z.leb_le in H
         end.
  lia.
Qed.

Theorem llr32_nonzero_inrange : forall x : binary32,
  let v := llr4_float x in fst v <> 0 /\ -7 <= fst v <= 7 /\ snd v <> 0 /\ -7 <= snd v <= 7.
Proof.
  intro x. apply (soft_ok_prop llr_width_modem).
  exact (final_soft_ok 24 128 Hprec32 Hemax32 tbl32 llr_width_modem Sp32 C32_valid C32_sorted C32_bounds C32_soft (B2SF 24 128 x) (valid_B2SF32 x)).
Qed.

Lemma finite_sf32 : forall x : binary32, is_finite 24 128 x = true -> sf_finite (B2SF 24 128 x) = true.
Proof. intros [s|s|s pl H|s m e H]; simpl; auto. Qed.

Theorem llr32_sign : forall x : binary32, is_finite 24 128 x = true -> far_from_boundaries (B2Q32 x) ->
  soft_dibit (llr4_float x) = nearest_dibit (B2Q32 x).
Proof.
  intros x F G.
  exact (final_sign 24 128 Hprec32 Hemax32 tbl32 Sp32 HSp32 C32_valid C32_sorted C32_bounds C32_sign
                    (B2SF 24 128 x) (valid_B2SF32 x) (finite_sf32 x F) G).
Qed.

Theorem llr32_first_antitone : forall x y : binary32, fle32 x y -> fst (llr4_float y) <= fst (llr4_float x).
Proof.
  intros x y H.
  exact (final_first_antitone 24 128 Hprec32 Hemax32 tbl32 Sp32 C32_valid C32_sorted C32_bounds C32_first
                              (B2SF 24 128 x) (B2SF 24 128 y) (valid_B2SF32 x) (valid_B2SF32 y) (fle32_sf_le x y H)).
Qed.

Definition zero32 : binary32 := B754_zero 24 128 false.

Theorem llr32_second_monotone_in_abs : forall x y : binary32,
  (fle32 zero32 x /\ fle32 x y) \/ (fle32 y x /\ fle32 x zero32) ->
  snd (llr4_float x) <= snd (llr4_float y).
Proof.
  intros x y [[H0 H]|[H H0]].
  - exact (final_second_pos 24 128 Hprec32 Hemax32 tbl32 Sp32 HSp32 C32_valid C32_sorted C32_bounds C32_second_pos
                            (S754_zero false) (B2SF 24 128 x) (B2SF 24 128 y) (valid_B2SF32 x) (valid_B2SF32 y) (or_introl eq_refl)
                            (fle32_sf_le zero32 x H0) (fle32_sf_le x y H)).
  - exact (final_second_neg 24 128 Hprec32 Hemax32 tbl32 Sp32 HSp32 C32_valid C32_sorted C32_bounds C32_second_neg
                            (S754_zero false) (B2SF 24 128 x) (B2SF 24 128 y) (valid_B2SF32 x) (valid_B2SF32 y) (or_introl eq_refl)
                            (fle32_sf_le y x H) (fle32_sf_le x zero32 H0)).
Qed.

(** ideal levels and the clamp bounds as binary32 data (mantissa, exponent; [bounded] by computation) *)
Definition f32 (s : bool) (m : positive) (e : Z) (H : SpecFloat.bounded 24 128 m e = true) : binary32 := B754_finite 24 128 s m e H.
Definition p1_32 : binary32 := f32 false 8388608 (-23) eq_refl.    (* +1.0 *)
Definition m1_32 : binary32 := f32 true 8388608 (-23) eq_refl.     (* -1.0 *)
Definition p3_32 : binary32 := f32 false 12582912 (-22) eq_refl.   (* +3.0 *)
Definition m3_32 : binary32 := f32 true 12582912 (-22) eq_refl.    (* -3.0 *)

Lemma p3_is_max : B2SF 24 128 p3_32 = sf_conv F32 llr_max_value. Proof. vm_compute. reflexivity. Qed.
Lemma m3_is_min : B2SF 24 128 m3_32 = sf_conv F32 llr_min_value. Proof. vm_compute. reflexivity. Qed.

Theorem llr32_levels :
  llr4_float p3_32 = (-7, 7) /\ llr4_float p1_32 = (-7, -7) /\ llr4_float m1_32 = (7, -7) /\ llr4_float m3_32 = (7, 7).
Proof. vm_compute. auto. Qed.

Theorem llr32_beyond : forall x : binary32,
  (fle32 p3_32 x -> llr4_float x = (-7, 7)) /\ (fle32 x m3_32 -> llr4_float x = (7, 7)).
Proof.
  intro x. split; intro H.
  - apply fle32_sf_le in H. rewrite p3_is_max in H.
    transitivity (llr_with tbl32 (Fmt 24 128) (sf_conv (Fmt 24 128) llr_max_value)).
    + exact (final_beyond_max 24 128 Hprec32 Hemax32 tbl32 Sp32 C32_valid C32_sorted C32_bounds (B2SF 24 128 x) (valid_B2SF32 x) H).
    + vm_compute. reflexivity.
  - apply fle32_sf_le in H. rewrite m3_is_min in H.
    transitivity (llr_with tbl32 (Fmt 24 128) (sf_conv (Fmt 24 128) llr_min_value)).
    + exact (final_beyond_min 24 128 Hprec32 Hemax32 tbl32 Sp32 C32_valid C32_sorted C32_bounds (B2SF 24 128 x) (valid_B2SF32 x) H).
    + vm_compute. reflexivity.
Qed.

Theorem llr32_nan_inf :
  (forall x : binary32, is_nan 24 128 x = true -> llr4_float x = (7, 7)) /\
  llr4_float (B754_infinity 24 128 false) = (-7, 7) /\
  llr4_float (B754_infinity 24 128 true) = (7, 7).
Proof.
  split; [|split].
  - intros [s|s|s pl H|s m e H] Hn; try discriminate. vm_compute. reflexivity.
  - vm_compute. reflexivity.
  - vm_compute. reflexivity.
Qed.

(** the bit-pattern entry point agrees with the binary32 one *)
Lemma llr4_float_bits_spec : forall x : binary32, llr4_float x = llr F32 llr_width_modem (B2SF 24 128 x).
Proof. reflexivity. Qed.
