(** Finite sums over a commutative ring, list update facts, the circular-buffer invariant shared by the
    FIR filter and the sliding DFT, and commutation of convolution kernels. *)
From Coq Require Import Arith List Lia Ring Ring_theory Bool.
From M17 Require Import ImplDSP SpecDSP.
Import ListNotations.

(** ** list update *)
Lemma set_nth_length {A} (x : A) : forall l i, length (set_nth i x l) = length l.
Proof. induction l; destruct i; simpl; auto. Qed.

Lemma nth_set_nth_eq {A} (x d : A) : forall l i, i < length l -> nth i (set_nth i x l) d = x.
Proof. induction l; destruct i; simpl; intros; try lia; auto. apply IHl; lia. Qed.

Lemma nth_set_nth_neq {A} (x d : A) : forall l i j, i <> j -> nth j (set_nth i x l) d = nth j l d.
Proof. induction l; destruct i, j; simpl; intros; try lia; auto. Qed.

Lemma nth_set_nth {A} (x d : A) l i j : i < length l ->
  nth j (set_nth i x l) d = if j =? i then x else nth j l d.
Proof.
  intros. destruct (Nat.eqb_spec j i).
  - subst. now apply nth_set_nth_eq.
  - apply nth_set_nth_neq; lia.
Qed.

Lemma nth_map_in {A B} (f : A -> B) d d' : forall l n, n < length l -> nth n (map f l) d = f (nth n l d').
Proof. induction l; destruct n; simpl; intros; try lia; auto. apply IHl; lia. Qed.

Lemma nth_firstn_lt {A} (d : A) : forall N l j, j < N -> nth j (firstn N l) d = nth j l d.
Proof. induction N; intros l j H; [lia|]. destruct l, j; simpl; auto. apply IHN. lia. Qed.

Lemma nth_skipn_add {A} (d : A) : forall k l j, nth j (skipn k l) d = nth (k + j) l d.
Proof. induction k; intros; [reflexivity|]. destruct l; simpl; [destruct j; reflexivity|]. apply IHk. Qed.

Lemma map_const_repeat {A B} (c : B) : forall l : list A, map (fun _ => c) l = repeat c (length l).
Proof. induction l; simpl; congruence. Qed.

Lemma nth_repeat_any {A} (c : A) n i : nth i (repeat c n) c = c.
Proof. revert i; induction n; destruct i; simpl; auto. Qed.

Lemma rev_seq_S a m : rev (seq a (S m)) = (a + m) :: rev (seq a m).
Proof. rewrite seq_S, rev_app_distr. reflexivity. Qed.

(** the d-th most recent element of a sequence (d = 0: the last one), zero before its start *)
Definition ago {R} (r0 : R) (xs : list R) (d : nat) : R :=
  if d <? length xs then nth (length xs - 1 - d) xs r0 else r0.

(** index holding the d-th most recent sample in a circular buffer of size N whose write position is pos *)
Definition back (N pos d : nat) : nat := if d <? pos then pos - 1 - d else N + pos - 1 - d.

Lemma ago_snoc_0 {R} (r0 : R) xs x : ago r0 (xs ++ [x]) 0 = x.
Proof.
  unfold ago. rewrite app_length. simpl.
  destruct (Nat.ltb_spec 0 (length xs + 1)); try lia.
  rewrite app_nth2 by lia. replace (length xs + 1 - 1 - 0 - length xs) with 0 by lia. reflexivity.
Qed.

Lemma ago_snoc_S {R} (r0 : R) xs x d : ago r0 (xs ++ [x]) (S d) = ago r0 xs d.
Proof.
  unfold ago. rewrite app_length. simpl.
  destruct (Nat.ltb_spec (S d) (length xs + 1)), (Nat.ltb_spec d (length xs)); try lia; auto.
  rewrite app_nth1 by lia. f_equal. lia.
Qed.

Lemma ago_nil {R} (r0 : R) d : ago r0 [] d = r0.
Proof. unfold ago. simpl. reflexivity. Qed.

Section RingBuffer.
Variable R : Type.
Variable r0 : R.

(** after the samples xs have been written one by one into a zero-filled circular buffer of size N *)
Definition rb_inv (N : nat) (xs hist : list R) (pos : nat) : Prop :=
  length hist = N /\ pos < N /\ forall d, d < N -> nth (back N pos d) hist r0 = ago r0 xs d.

Lemma rb_inv_init N : 0 < N -> rb_inv N [] (repeat r0 N) 0.
Proof.
  intros. split; [apply repeat_length|]. split; [lia|]. intros.
  rewrite ago_nil. apply nth_repeat_any.
Qed.

Definition adv (N pos : nat) : nat := if S pos =? N then 0 else S pos.

Lemma rb_push N xs hist pos x : rb_inv N xs hist pos -> rb_inv N (xs ++ [x]) (set_nth pos x hist) (adv N pos).
Proof.
  intros (L & P & H). unfold adv. split; [now rewrite set_nth_length|]. split.
  { destruct (Nat.eqb_spec (S pos) N); lia. }
  intros d Hd. destruct d.
  - rewrite ago_snoc_0.
    replace (back N (if S pos =? N then 0 else S pos) 0) with pos.
    + apply nth_set_nth_eq; lia.
    + unfold back. destruct (Nat.eqb_spec (S pos) N); simpl; lia.
  - rewrite ago_snoc_S, <- (H d) by lia.
    replace (back N (if S pos =? N then 0 else S pos) (S d)) with (back N pos d).
    + apply nth_set_nth_neq. unfold back. destruct (Nat.ltb_spec d pos); lia.
    + unfold back. destruct (Nat.eqb_spec (S pos) N).
      * destruct (Nat.ltb_spec d pos), (Nat.ltb_spec (S d) 0); lia.
      * destruct (Nat.ltb_spec d pos), (Nat.ltb_spec (S d) (S pos)); lia.
Qed.

(** the slot about to be overwritten holds the sample written N steps ago *)
Lemma rb_oldest N xs hist pos : rb_inv N xs hist pos -> nth pos hist r0 = ago r0 xs (N - 1).
Proof.
  intros (L & P & H). rewrite <- H by lia. f_equal. unfold back.
  destruct (Nat.ltb_spec (N - 1) pos); lia.
Qed.
End RingBuffer.

Section Sum.
Variable R : Type.
Variables (r0 r1 : R) (radd rmul rsub : R -> R -> R) (ropp : R -> R).
Hypothesis Rth : ring_theory r0 r1 radd rmul rsub ropp (@eq R).
Add Ring Rring : Rth.
Notation "0" := r0.
Notation "1" := r1.
Infix "+" := radd.
Infix "*" := rmul.
Infix "-" := rsub.
Notation rsum := (rsum R r0 radd).
Notation conv_at := (conv_at R r0 radd rmul).

Lemma rsum_S f n : rsum f (S n) = rsum f n + f n.
Proof. reflexivity. Qed.

Lemma rsum_ext f g n : (forall i, i < n -> f i = g i) -> rsum f n = rsum g n.
Proof.
  induction n; intros; [reflexivity|]. rewrite !rsum_S, IHn, H by (auto; intros; apply H; lia). reflexivity.
Qed.

Lemma rsum_zero f n : (forall i, i < n -> f i = 0) -> rsum f n = 0.
Proof.
  induction n; intros; [reflexivity|]. rewrite rsum_S, IHn, H by (auto; intros; apply H; lia). ring.
Qed.

Lemma rsum_add f g n : rsum (fun i => f i + g i) n = rsum f n + rsum g n.
Proof. induction n; [unfold SpecDSP.rsum; simpl; ring|]. rewrite !rsum_S, IHn. ring. Qed.

Lemma rsum_sub f g n : rsum (fun i => f i - g i) n = rsum f n - rsum g n.
Proof. induction n; [unfold SpecDSP.rsum; simpl; ring|]. rewrite !rsum_S, IHn. ring. Qed.

Lemma rsum_scale k f n : rsum (fun i => k * f i) n = k * rsum f n.
Proof. induction n; [unfold SpecDSP.rsum; simpl; ring|]. rewrite !rsum_S, IHn. ring. Qed.

Lemma rsum_swap (f : nat -> nat -> R) n m :
  rsum (fun i => rsum (fun j => f i j) m) n = rsum (fun j => rsum (fun i => f i j) n) m.
Proof.
  induction n.
  - symmetry. apply rsum_zero. reflexivity.
  - rewrite rsum_S, IHn, <- rsum_add. apply rsum_ext. intros. reflexivity.
Qed.

(** first term split off *)
Lemma rsum_shift f n : rsum f (S n) = f 0%nat + rsum (fun i => f (S i)) n.
Proof. induction n; [unfold SpecDSP.rsum; simpl; ring|]. rewrite rsum_S, IHn, rsum_S. ring. Qed.

Lemma rsum_rev f n : rsum f n = rsum (fun j => f (n - 1 - j)%nat) n.
Proof.
  revert f. induction n; intros; [reflexivity|].
  rewrite rsum_S, rsum_shift, (IHn f).
  replace (S n - 1 - 0)%nat with n by lia.
  rewrite (rsum_ext (fun i => f (S n - 1 - S i)%nat) (fun j => f (n - 1 - j)%nat)); [ring|].
  intros. f_equal. lia.
Qed.

(** extending the range by zero terms *)
Lemma rsum_extend f m n : m <= n -> (forall i, m <= i < n -> f i = 0) -> rsum f n = rsum f m.
Proof.
  induction 1; intros; [reflexivity|].
  rewrite rsum_S, IHle, H0 by (try lia; intros; apply H0; lia). ring.
Qed.

(** accumulation loops:  r = a; for i in 0..n-1: r += g i *)
Lemma fold_acc_rsum (g : nat -> R) n a :
  fold_left (fun r i => r + g i) (seq 0 n) a = a + rsum g n.
Proof.
  induction n; [unfold SpecDSP.rsum; simpl; ring|].
  rewrite seq_S, fold_left_app, IHn. cbn [fold_left Nat.add]. rewrite rsum_S. ring.
Qed.

(** ** convolution facts *)
Lemma conv_at_ext taps xs ys n : (forall k, k <= n -> nth k xs 0 = nth k ys 0) ->
  conv_at taps xs n = conv_at taps ys n.
Proof.
  intros. unfold SpecDSP.conv_at. apply rsum_ext. intros.
  destruct (Nat.leb_spec i n); [|reflexivity]. rewrite H by lia. reflexivity.
Qed.

(** two kernels applied one after the other commute *)
Lemma conv_conv_comm A B ws p q n :
  (forall m, m <= n -> nth m p 0 = conv_at A ws m) ->
  (forall m, m <= n -> nth m q 0 = conv_at B ws m) ->
  conv_at B p n = conv_at A q n.
Proof.
  intros Hp Hq. unfold SpecDSP.conv_at at 1 2.
  rewrite (rsum_ext _ (fun j => rsum (fun i =>
     if (j <=? n) && (i <=? n - j) then nth j B 0 * (nth i A 0 * nth (n - j - i) ws 0) else 0) (length A))).
  2:{ intros j _. destruct (Nat.leb_spec j n); simpl.
      - rewrite Hp by lia. unfold SpecDSP.conv_at. rewrite <- rsum_scale. apply rsum_ext. intros i _.
        destruct (i <=? n - j); ring.
      - symmetry. apply rsum_zero. reflexivity. }
  rewrite (rsum_ext (fun i => if i <=? n then _ else _) (fun i => rsum (fun j =>
     if (j <=? n) && (i <=? n - j) then nth j B 0 * (nth i A 0 * nth (n - j - i) ws 0) else 0) (length B))).
  2:{ intros i _. destruct (Nat.leb_spec i n); simpl.
      - rewrite Hq by lia. unfold SpecDSP.conv_at. rewrite <- rsum_scale. apply rsum_ext. intros j _.
        destruct (Nat.leb_spec j (n - i)), (Nat.leb_spec j n), (Nat.leb_spec i (n - j)); simpl; try lia; try ring.
        replace (n - j - i)%nat with (n - i - j)%nat by lia. ring.
      - symmetry. apply rsum_zero. intros j _.
        destruct (Nat.leb_spec j n), (Nat.leb_spec i (n - j)); simpl; try lia; reflexivity. }
  apply rsum_swap.
Qed.

End Sum.
