(** C06: a listening receiver turns a sync-word detection into a frame decode. *)
From Coq Require Import ZArith QArith Bool List Lia ZifyBool.
From M17 Require Import ConstsDemod ImplDemodCtl SpecDemodCtl LemmasDCD LemmasDemodCtl_Base LemmasDemodCtl_WF LemmasDemodCtl_Reach LemmasDemodCtl_Live.
Import ListNotations.
Local Open Scope Z_scope.
Ltac Zify.zify_post_hook ::= Z.div_mod_to_equations.

(** ** a listening receiver turns a sync-word detection into a frame decode *)
Lemma listening_locked s : wf s -> listening s = true -> locked s /\ ((ds s = UNLOCKED /\ PREAMBLE_PHASE <= missing s) \/ ds s = LSF_SYNC).
Proof.
  intros W H. unfold listening in H. repeat (apply andb_prop in H; destruct H as [H ?]).
  split.
  - unfold locked. splits; try assumption. lia.
  - destruct (ds s); try discriminate; [left; split; [reflexivity|lia] | right; reflexivity].
Qed.

Lemma detection_dispatch s3 o :
  ((ds s3 = UNLOCKED /\ PREAMBLE_PHASE <= missing s3 /\ (negb (o_lsf_upd o =? 0) || (o_pkt_upd o <? 0)) = true) \/
   (ds s3 = LSF_SYNC /\ (cprev s3 mod CORR_SPS =? sample_index s3) = true /\ o_pre_trig o = false /\
    (o_bert_neg o || negb (o_lsf_trig o =? 0)) = true)) ->
  ds (fst (dispatch s3 o)) = FRAME /\ dcd_trig (fst (dispatch s3 o)) = dcd_trig s3.
Proof.
  intros [[E [M Dt]]|[E [Ix [Pt Dt]]]]; unfold dispatch; rewrite E.
  - unfold do_unlocked, unlocked_found. replace (missing s3 <? PREAMBLE_PHASE) with false by lia.
    destruct_st s3. st_cbn.
    destruct (negb (o_lsf_upd o =? 0)); destruct (o_pkt_upd o <? 0); try discriminate Dt; st_cbn; split; reflexivity.
  - unfold do_lsf_sync, lsf_found, corr_index. rewrite Ix, Pt.
    destruct_st s3. st_cbn.
    destruct (o_bert_neg o); [st_cbn; split; reflexivity|].
    cbn [orb] in Dt. rewrite Dt. st_cbn. split; reflexivity.
Qed.

Theorem detection_decodes_lemma : forall (s : st) (pf : bool) (o : obs) (os : list obs),
  wf_st s = true -> listening s = true -> detection s o = true ->
  live_good_run pf s (o :: os) -> (2035 <= length os)%nat ->
  exists k, (k <= 1 + 2035)%nat /\ any_decode (events s (firstn k (o :: os))) = true.
Proof.
  intros s pf o os W Li Dt G L. apply wf_st_iff in W.
  destruct (listening_locked s W Li) as [Lk Cs].
  cbn [live_good_run] in G. destruct G as [G1 G2].
  destruct (live_good_unpack _ _ _ G1) as [Ghi [Glo [R _]]].
  destruct (step_locked_view s o Lk Glo R) as [s3 [s4 [e1 [e2 [e3 [P [Pq [ED [EV [Q3 [W1 [I1 [D4 [C4 [V1 V2]]]]]]]]]]]]]]].
  destruct P as [P_init P_eot P_count P_ds P_swt P_dcd P_sc P_miss P_ssi P_cprev P_cpos P_fidx P_cost P_trig P_dec P_si P_ncr].
  assert (DD : ds s4 = FRAME /\ dcd_trig s4 = dcd_trig s3).
  { pose proof (detection_dispatch s3 o) as X. rewrite ED in X. cbn [fst] in X. apply X.
    unfold detection, next_index in Dt. destruct Cs as [[E M]|E]; rewrite E in Dt.
    - left. splits; congruence.
    - right. apply andb_prop in Dt. destruct Dt as [Dt D3]. apply andb_prop in Dt. destruct Dt as [D1 D2].
      apply negb_true_iff in D2. splits; try congruence. all: rewrite P_cprev, P_si; exact D1. }
  destruct DD as [DF DT]. destruct Lk as [_ [H [D T]]].
  assert (T4 : dcd_trig s4 = true) by congruence.
  specialize (V1 T4). destruct V1.
  assert (GF : Goal_frame (fst (step s o))).
  { split; [unfold locked; splits; assumption|congruence]. }
  destruct (live_frame 2035 (far_next s) _ os (M_frame_bound _ _ GF) GF L G2) as [k [Hk [Hl [[]|HD]]]].
  exists (S k). split; [lia|]. cbn [firstn]. rewrite events_cons, any_decode_cons, HD. apply orb_true_r.
Qed.

(** the control model's abstraction of dcd.update() is the hysteresis of the detector model *)
Lemma dcd_poll_abstracts_update_lemma : forall (d : dcd_t) (s : st) (o : obs),
  dcd_trig s = triggered_ d ->
  o_lvl_lo o = xgt (level_ (dcd_update d)) (Fin DCD_LTRIGGER) ->
  o_lvl_hi o = xgt (level_ (dcd_update d)) (Fin DCD_HTRIGGER) ->
  dcd_trig (dcd_poll s o) = triggered_ (dcd_update d).
Proof.
  intros d s o H L Hh. rewrite dcd_update_triggered. unfold dcd_poll. destruct s; cbn in *. subst. rewrite L, Hh. reflexivity.
Qed.

(** the liveness hypothesis as a boolean function, for the satisfiability examples *)
Fixpoint live_good_runb (pf : bool) (s : st) (os : list obs) : bool :=
  match os with [] => true | o :: os' => live_good pf s o && live_good_runb (far_next s) (fst (step s o)) os' end.
Lemma live_good_runb_ok : forall os pf s, live_good_runb pf s os = true -> live_good_run pf s os.
Proof.
  induction os as [|o os IH]; intros pf s H; cbn [live_good_runb live_good_run] in *; [exact I|].
  apply andb_prop in H. destruct H as [H1 H2]. split; [exact H1|apply IH; exact H2].
Qed.
