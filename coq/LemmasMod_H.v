(** C13, part H: the statements of Properties_C13.v, assembled from parts A-G. *)
From Coq Require Import NArith ZArith List Bool Lia Arith.
From M17 Require Import Bits SpecCRC SpecM17 ImplCRC ImplMod ConstsMod
  LemmasMod_A LemmasMod_B LemmasMod_C LemmasMod_D LemmasMod_E LemmasMod_F LemmasMod_G.
Import ListNotations.
Local Open Scope N_scope.

(** the codec2 oracle: 8 bytes per call, nothing else assumed *)
Definition codec_ok {cstate : Type} (codec2_encode : cstate -> list Z -> cstate * list N) : Prop :=
  forall cs a, length (snd (codec2_encode cs a)) = 8%nat /\ all_bytes (snd (codec2_encode cs a)).

(** ** bitstream *)
Lemma bitstream_gen_lemma (zero_init : bool) (uninit : list bool) (cstate : Type) (codec2_encode : cstate -> list Z -> cstate * list N) :
  codec_ok codec2_encode ->
  forall (audio0 : list Z) (cs0 : cstate) (can : N) (src dest : list N) (samples : list Z),
  valid_callsign src -> valid_callsign dest -> can < 16 -> length audio0 = 320%nat ->
  run_mod_bitstream_gen uninit cstate codec2_encode zero_init audio0 cs0 can src dest samples =
  spec_bitstream dest src can (expected_payloads cstate codec2_encode (initial_audio zero_init audio0) cs0 samples)
  ++ repeat 0 10.
Proof. intros Hc audio0 cs0 can src dest samples Hs Hd Hcan Ha.
  unfold run_mod_bitstream_gen, run_mod_calls_gen.
  exact (mod_bitstream_ok uninit cstate codec2_encode Hc zero_init audio0 cs0 can src dest samples Hs Hd Hcan Ha). Qed.

Lemma bitstream_lemma (uninit : list bool) (cstate : Type) (codec2_encode : cstate -> list Z -> cstate * list N) :
  codec_ok codec2_encode ->
  forall (audio0 : list Z) (cs0 : cstate) (can : N) (src dest : list N) (samples : list Z),
  valid_callsign src -> valid_callsign dest -> can < 16 -> length audio0 = 320%nat ->
  run_mod_bitstream uninit cstate codec2_encode audio0 cs0 can src dest samples =
  spec_bitstream dest src can (expected_payloads cstate codec2_encode (initial_audio mod_audio_zero_init audio0) cs0 samples)
  ++ repeat 0 10.
Proof. exact (bitstream_gen_lemma mod_audio_zero_init uninit cstate codec2_encode). Qed.

(** zero padding of a partial frame *)
Definition zero_padding_statement (zero_init : bool) : Prop :=
  forall (uninit : list bool) (cstate : Type) (codec2_encode : cstate -> list Z -> cstate * list N),
  codec_ok codec2_encode ->
  forall (audio0 : list Z) (cs0 : cstate) (can : N) (src dest : list N) (samples : list Z),
  valid_callsign src -> valid_callsign dest -> can < 16 -> length audio0 = 320%nat ->
  run_mod_bitstream_gen uninit cstate codec2_encode zero_init audio0 cs0 can src dest samples =
  spec_bitstream dest src can (zero_padded_payloads cstate codec2_encode cs0 samples) ++ repeat 0 10.

Lemma zero_padding_if_initialised : zero_padding_statement true.
Proof. intros uninit cstate codec Hc audio0 cs0 can src dest samples Hs Hd Hcan Ha.
  rewrite (bitstream_gen_lemma true uninit cstate codec Hc audio0 cs0 can src dest samples Hs Hd Hcan Ha). reflexivity. Qed.

Lemma zero_padding_when_irrelevant (zero_init : bool) (uninit : list bool) (cstate : Type) (codec2_encode : cstate -> list Z -> cstate * list N) :
  codec_ok codec2_encode ->
  forall (audio0 : list Z) (cs0 : cstate) (can : N) (src dest : list N) (samples : list Z),
  valid_callsign src -> valid_callsign dest -> can < 16 -> length audio0 = 320%nat ->
  (320 <= length samples)%nat \/ samples = [] \/ audio0 = repeat 0%Z 320 ->
  run_mod_bitstream_gen uninit cstate codec2_encode zero_init audio0 cs0 can src dest samples =
  spec_bitstream dest src can (zero_padded_payloads cstate codec2_encode cs0 samples) ++ repeat 0 10.
Proof. intros Hc audio0 cs0 can src dest samples Hs Hd Hcan Ha H.
  rewrite (bitstream_gen_lemma zero_init uninit cstate codec2_encode Hc audio0 cs0 can src dest samples Hs Hd Hcan Ha).
  do 2 f_equal. destruct H as [H | [H | H]].
  - apply payloads_pad_irrelevant. left. exact H.
  - apply payloads_pad_irrelevant. right. exact H.
  - subst audio0. destruct zero_init; reflexivity. Qed.

(** witness: one sample, a buffer that held something else, a codec whose output depends on sample 1 *)
Definition p_codec (cs : unit) (a : list Z) : unit * list N := (tt, repeat (if Z.eqb (nth 1 a 0%Z) 0 then 0 else 1) 8).
Lemma p_codec_ok : codec_ok p_codec.
Proof. intros cs a. unfold p_codec. cbn [snd]. split; [apply repeat_length|].
  apply Forall_forall. intros x Hx. apply repeat_spec in Hx. subst. destruct (Z.eqb _ _); reflexivity. Qed.

Fixpoint nlist_eqb (a b : list N) : bool :=
  match a, b with
  | [], [] => true
  | x :: a', y :: b' => N.eqb x y && nlist_eqb a' b'
  | _, _ => false
  end.
Lemma nlist_eqb_refl a : nlist_eqb a a = true.
Proof. induction a; [reflexivity|]. cbn. rewrite N.eqb_refl, IHa. reflexivity. Qed.

Lemma padding_witness :
  nlist_eqb (run_mod_bitstream_gen [] unit p_codec false (repeat 5%Z 320) tt 0 [65] [] [7%Z])
            (spec_bitstream [] [65] 0 (zero_padded_payloads unit p_codec tt [7%Z]) ++ repeat 0 10) = false.
Proof. vm_compute. reflexivity. Qed.

Lemma zero_padding_not_if_uninitialised : ~ zero_padding_statement false.
Proof. intros S.
  pose proof (S [] unit p_codec p_codec_ok (repeat 5%Z 320) tt 0 [65] [] [7%Z] (proj1 w_valid) (proj2 w_valid) ltac:(reflexivity) ltac:(reflexivity)) as E.
  pose proof padding_witness as W. rewrite E, nlist_eqb_refl in W. discriminate. Qed.

Lemma zero_padding_as_built :
  if mod_audio_zero_init then zero_padding_statement true else ~ zero_padding_statement false.
Proof. destruct mod_audio_zero_init; [exact zero_padding_if_initialised | exact zero_padding_not_if_uninitialised]. Qed.

(** ** baseband *)
Definition continuity_statement (per : bool) : Prop :=
  forall (uninit : list bool) (cstate : Type) (codec2_encode : cstate -> list Z -> cstate * list N),
  codec_ok codec2_encode ->
  forall (invert : bool) (audio0 : list Z) (cs0 : cstate) (can : N) (src dest : list N) (samples : list Z),
  valid_callsign src -> valid_callsign dest -> can < 16 -> length audio0 = 320%nat ->
  run_mod_baseband_gen uninit cstate codec2_encode per invert audio0 cs0 can src dest samples =
  spec_baseband rrc_taps_num rrc_den_log2 10 (if invert then (-7168)%Z else 7168%Z)
    (spec_symbols dest src can (expected_payloads cstate codec2_encode (initial_audio mod_audio_zero_init audio0) cs0 samples)
     ++ repeat 0%Z 40).

Lemma continuity_if_shared : continuity_statement false.
Proof. intros uninit cstate codec Hc invert audio0 cs0 can src dest samples Hs Hd Hcan Ha.
  exact (baseband_continuous_shared uninit cstate codec Hc audio0 cs0 can src dest samples Hs Hd Hcan Ha false invert eq_refl). Qed.

Lemma continuity_not_if_per_instantiation : ~ continuity_statement true.
Proof. intros S.
  pose proof (S [] unit w_codec w_codec_ok false (repeat 0%Z 320) tt 0 [65] [] [] (proj1 w_valid) (proj2 w_valid) ltac:(reflexivity) ltac:(reflexivity)) as E.
  exact (witness_ne E). Qed.

Lemma continuity_as_built :
  if mod_filter_per_instantiation then ~ continuity_statement true else continuity_statement false.
Proof. destruct mod_filter_per_instantiation; [exact continuity_not_if_per_instantiation | exact continuity_if_shared]. Qed.

Lemma through_last_frame_lemma (uninit : list bool) (cstate : Type) (codec2_encode : cstate -> list Z -> cstate * list N) :
  codec_ok codec2_encode ->
  forall (invert : bool) (audio0 : list Z) (cs0 : cstate) (can : N) (src dest : list N) (samples : list Z),
  valid_callsign src -> valid_callsign dest -> can < 16 -> length audio0 = 320%nat ->
  let payloads := expected_payloads cstate codec2_encode (initial_audio mod_audio_zero_init audio0) cs0 samples in
  let y := run_mod_baseband uninit cstate codec2_encode invert audio0 cs0 can src dest samples in
  let ideal := spec_baseband rrc_taps_num rrc_den_log2 10 (if invert then (-7168)%Z else 7168%Z)
                 (spec_symbols dest src can payloads ++ repeat 0%Z 40) in
  let n := (10 * (192 * (2 + length payloads)))%nat in
  firstn n y = firstn n ideal /\ length y = length ideal /\ length y = (n + 480)%nat.
Proof. intros Hc invert audio0 cs0 can src dest samples Hs Hd Hcan Ha.
  exact (baseband_through_last_frame uninit cstate codec2_encode Hc audio0 cs0 can src dest samples Hs Hd Hcan Ha
           mod_filter_per_instantiation invert). Qed.

(** ** frames *)
Lemma bert_lemma (uninit : list bool) (S : Type) (gen : S -> S * bool) (p : S) :
  make_bert_frame uninit S gen p =
    (fst (gen_bits S gen 197 p), firstn 368 (spec_puncture P2 (spec_conv (snd (gen_bits S gen 197 p))))) /\
  bert_iteration uninit S gen p =
    (fst (gen_bits S gen 197 p), [OutFrame SpecM17.sync_bert (spec_bert_frame (snd (gen_bits S gen 197 p)))]).
Proof. split; [apply make_bert_frame_ok | apply bert_iteration_ok]. Qed.

(** constants the specification fixes, as regenerated from the source *)
Lemma constants_lemma :
  ConstsMod.sync_lsf = SpecM17.sync_lsf /\ ConstsMod.sync_stream = SpecM17.sync_stream /\
  ConstsMod.sync_bert = SpecM17.sync_bert /\ eot_sync = eot_marker /\
  repeat preamble_byte preamble_len = preamble /\
  lsf_polys = [(25, 23); (25, 23)] /\ stream_polys = [(25, 23); (25, 23)] /\ bert_polys = [(25, 23); (25, 23); (25, 23)] /\
  make_p1 = P1 /\ p2_matrix = P2 /\ p3_matrix = P3 /\
  il_f1 = 45 /\ il_f2 = 92 /\ il_k = 368%nat /\ rnd_dc = dc_bytes /\ golay_poly = golay_generator /\
  baseband_scale = 7168%Z /\ samples_per_symbol = 10%nat /\ symbol_table = [1; 3; -1; -3]%Z /\ eot_zero_bytes = 10%nat.
Proof. repeat split; reflexivity. Qed.
