(** C13, part C: the callsign copy + LinkSetupFrame::encode_callsign is the base-40 address of the
    specification; send_lsf builds the specification's LSF (DST, SRC, TYPE with CAN, META = 0, CRC) and its
    frame; make_lich_segment / make_data_frame / send_audio_frame build the specification's stream frame. *)
From Coq Require Import NArith ZArith List Bool Lia Arith NArithRing.
From M17 Require Import Bits SpecCRC SpecM17 ImplCRC ImplMod ConstsMod ConstsCrc LemmasCRC_A LemmasCRC_C LemmasMod_A LemmasMod_B.
Import ListNotations.
Local Open Scope N_scope.

(** ** callsigns *)
Lemma char_code_alphabet : forallb (fun c => (char_code c =? char_digit c) && (c <? 256)) alphabet = true.
Proof. vm_compute. reflexivity. Qed.

Lemma char_code_in_alphabet c : in_alphabet c = true -> char_code c = char_digit c.
Proof. intros H. unfold in_alphabet in H. destruct (char_value c) as [v|] eqn:E; [|discriminate].
  assert (I : In c alphabet).
  { unfold char_value in E. revert E. generalize 0 as i. generalize alphabet as l.
    induction l as [|x l IH]; intros i E; [discriminate|]. cbn in E.
    destruct (N.eqb_spec x c) as [->|N]; [left; reflexivity | right; exact (IH _ E)]. }
  pose proof (proj1 (forallb_forall _ _) char_code_alphabet c I) as S.
  apply andb_prop in S. apply N.eqb_eq. exact (proj1 S). Qed.

Lemma char_code_lt c : char_code c < 40.
Proof. unfold char_code.
  destruct (N.leb_spec 65 c), (N.leb_spec c 90); cbn [andb]; try lia;
  destruct (N.leb_spec 48 c), (N.leb_spec c 57); cbn [andb]; try lia;
  destruct (N.eqb_spec c 45); try lia; destruct (N.eqb_spec c 47); try lia; destruct (N.eqb_spec c 46); lia. Qed.

(** value of a character array, first character least significant, without the uint64 wrap *)
Definition V (l : list N) : N := fold_right (fun c acc => char_code c + 40 * acc) 0 l.

Lemma V_lt l : V l < 40 ^ N.of_nat (length l).
Proof. induction l as [|c l IH]; [cbn; lia|].
  cbn [V fold_right length]. fold (V l). rewrite Nat2N.inj_succ, N.pow_succ_r'. pose proof (char_code_lt c). lia. Qed.

Lemma V_app a b : V (a ++ b) = V a + 40 ^ N.of_nat (length a) * V b.
Proof. induction a as [|c a IH]; [cbn [app V fold_right length N.of_nat]; fold (V b); rewrite N.pow_0_r; ring|].
  cbn [app V fold_right length]. fold (V (a ++ b)). fold (V a). rewrite IH, Nat2N.inj_succ, N.pow_succ_r'. ring. Qed.

Lemma V_zeros n : V (repeat 0 n) = 0.
Proof. induction n; [reflexivity|]. cbn [repeat V fold_right]. fold (V (repeat 0 n)). rewrite IHn. reflexivity. Qed.

Lemma V_base40 s : forallb in_alphabet s = true -> V s = base40 s.
Proof. induction s as [|c s IH]; intros H; [reflexivity|]. cbn [forallb] in H. apply andb_prop in H. destruct H as [Hc Hs].
  cbn [V base40 fold_right]. fold (V s). fold (base40 s). rewrite IH by exact Hs. rewrite char_code_in_alphabet by exact Hc. reflexivity. Qed.

(** the uint64 arithmetic never wraps for arrays of at most 10 characters *)
Lemma fold_mod_V l : (length l <= 10)%nat ->
  fold_right (fun c e => ((e * 40) mod 2 ^ 64 + char_code c) mod 2 ^ 64) 0 l = V l.
Proof. induction l as [|c l IH]; intros H; [reflexivity|].
  cbn [fold_right V length] in *. fold (V l). rewrite IH by lia.
  pose proof (V_lt l) as B. pose proof (char_code_lt c) as C.
  assert (P : 40 ^ N.of_nat (length l) <= 40 ^ 9) by (apply N.pow_le_mono_r; lia).
  change (40 ^ 9) with 262144000000000 in P. change (2 ^ 64) with 18446744073709551616.
  rewrite (N.mod_small (V l * 40)) by lia. rewrite N.mod_small by lia. lia. Qed.

Lemma firstn_repeat_le {A} (x : A) k : forall n, (k <= n)%nat -> firstn k (repeat x n) = repeat x k.
Proof. induction k as [|k IH]; intros [|n] H; try reflexivity; [lia|]. cbn. rewrite IH by lia. reflexivity. Qed.

Lemma call_array_app s : (length s <= 10)%nat -> call_array s = s ++ repeat 0 (10 - length s).
Proof. intros H. unfold call_array. rewrite firstn_app, firstn_all2 by lia. f_equal.
  apply firstn_repeat_le. lia. Qed.

Lemma encode_callsign_ok s : valid_callsign s -> encode_callsign (call_array s) = spec_address s.
Proof. intros [Hl Ha]. unfold encode_callsign, spec_address.
  rewrite <- fold_left_rev_right, rev_involutive.
  rewrite fold_mod_V by (unfold call_array; rewrite firstn_length; lia).
  rewrite call_array_app by lia. rewrite V_app, V_zeros, N.mul_0_r, N.add_0_r, V_base40 by exact Ha.
  reflexivity. Qed.

Lemma be_bytes_length n v : length (be_bytes n v) = n.
Proof. unfold be_bytes. rewrite map_length, seq_length. reflexivity. Qed.

Lemma land_255_byte x : N.land x 255 < 256.
Proof. change 255 with (N.ones 8). rewrite N.land_ones. apply N.mod_lt. discriminate. Qed.

Lemma be_bytes_all_bytes n v : all_bytes (be_bytes n v).
Proof. unfold be_bytes, all_bytes. apply Forall_forall. intros x Hx. apply in_map_iff in Hx.
  destruct Hx as [i [<- _]]. apply land_255_byte. Qed.

(** ** the LSF bytes *)
Definition ok_can (can : N) : bool :=
  match be_bytes 2 (lsf_type_stream_voice can) with
  | [hi; lo] => (u8 (N.shiftr can can_hi_shift) =? hi) &&
                (u8 (N.lor type_lo_audio (N.shiftl (N.land can can_lo_mask) can_lo_shift)) =? lo)
  | _ => false
  end.
Lemma sweep_can : below 4 ok_can = true.
Proof. vm_compute. reflexivity. Qed.

Lemma lsf_consts_ok : lsf_len = 30%nat /\ lsf_broadcast = broadcast_address /\ lsf_type_hi_index = 12%nat /\
  lsf_type_lo_index = 13%nat /\ lsf_crc_span = 28%nat /\ lsf_crc_hi_index = 28%nat /\ lsf_crc_lo_index = 29%nat /\
  lsf_crc_poly = LemmasCRC_A.P /\ lsf_crc_init = LemmasCRC_A.I /\ ConstsMod.sync_lsf = SpecM17.sync_lsf /\
  lsf_encoded_len = 488%nat /\ lsf_punctured_len = 368%nat.
Proof. repeat split; reflexivity. Qed.

Lemma list6 {A} (l : list A) : length l = 6%nat -> exists a b c d e f, l = [a; b; c; d; e; f].
Proof. intros H. destruct l as [|a [|b [|c [|d [|e [|f [|g l]]]]]]]; try discriminate. repeat eexists. Qed.

Opaque crc_bytes_of m17_crc u8.

Lemma lsf_bytes_shape (D S : list N) (can : N) : length D = 6%nat -> length S = 6%nat -> can < 16 ->
  let result := D ++ S ++ skipn (length D + length S) (repeat 0 lsf_len) in
  let result := set_nth lsf_type_lo_index (u8 (N.lor type_lo_audio (N.shiftl (N.land can can_lo_mask) can_lo_shift)))
                  (set_nth lsf_type_hi_index (u8 (N.shiftr can can_hi_shift)) result) in
  let checksum := crc_bytes_of lsf_crc_poly lsf_crc_init (firstn lsf_crc_span result) in
  set_nth lsf_crc_lo_index (nth 1 checksum 0) (set_nth lsf_crc_hi_index (nth 0 checksum 0) result)
  = let body := D ++ S ++ be_bytes 2 (lsf_type_stream_voice can) ++ repeat 0 14 in body ++ crc_hi_lo (m17_crc body).
Proof. intros HD HS Hc.
  destruct (list6 D HD) as [d0 [d1 [d2 [d3 [d4 [d5 ->]]]]]]. destruct (list6 S HS) as [s0 [s1 [s2 [s3 [s4 [s5 ->]]]]]].
  assert (L : can < 2 ^ N.of_nat 4) by exact Hc.
  pose proof (below_spec 4 ok_can sweep_can can L) as K. unfold ok_can in K.
  destruct (be_bytes 2 (lsf_type_stream_voice can)) as [|hi [|lo [|? ?]]]; try discriminate K.
  apply andb_prop in K. destruct K as [K1 K2]. apply N.eqb_eq in K1, K2. rewrite K1, K2.
  destruct lsf_consts_ok as [-> [_ [-> [-> [-> [-> [-> [-> [-> _]]]]]]]]].
  cbv zeta. cbn [app length Nat.add repeat skipn set_nth firstn].
  rewrite get_bytes_hi_lo. unfold crc_hi_lo. cbn [nth]. reflexivity. Qed.

Lemma lsf_bytes_ok can src dest : valid_callsign src -> valid_callsign dest -> can < 16 ->
  lsf_bytes can src dest AUDIO = spec_lsf dest src can.
Proof. intros Hs Hd Hc. unfold lsf_bytes, spec_lsf, spec_lsf_body.
  rewrite (encode_callsign_ok src Hs).
  assert (E : match dest with [] => lsf_broadcast | _ :: _ => encode_callsign (call_array dest) end = spec_dst_address dest).
  { destruct dest as [|c r]; [reflexivity|]. unfold spec_dst_address. apply encode_callsign_ok. exact Hd. }
  rewrite E. apply lsf_bytes_shape; [|apply be_bytes_length|exact Hc].
  destruct dest; [reflexivity | apply be_bytes_length]. Qed.

Lemma crc_hi_lo_bytes c : c < 65536 -> all_bytes (crc_hi_lo c).
Proof. intros H. unfold crc_hi_lo, all_bytes. repeat constructor; unfold is_byte.
  - rewrite N.shiftr_div_pow2. apply N.div_lt_upper_bound; [discriminate|]. change (2 ^ 8 * 256) with 65536. exact H.
  - apply land_255_byte. Qed.

Lemma spec_lsf_length dst src can : length (spec_lsf dst src can) = 30%nat.
Proof. unfold spec_lsf, spec_lsf_body. rewrite !app_length, !be_bytes_length, repeat_length.
  assert (length (spec_dst_address dst) = 6%nat) as -> by (destruct dst; [reflexivity | apply be_bytes_length]).
  reflexivity. Qed.

Lemma spec_lsf_bytes dst src can : all_bytes (spec_lsf dst src can).
Proof. unfold spec_lsf, spec_lsf_body, all_bytes. rewrite !Forall_app. repeat split.
  - destruct dst; [repeat constructor; reflexivity | apply be_bytes_all_bytes].
  - apply be_bytes_all_bytes.
  - apply be_bytes_all_bytes.
  - apply Forall_forall. intros x Hx. apply repeat_spec in Hx. subst. reflexivity.
  - apply crc_hi_lo_bytes. Transparent m17_crc. unfold m17_crc, crc_direct. Opaque m17_crc.
    apply LemmasCRC_B.direct_bits_lt. reflexivity. Qed.

(** ** frame level *)
Lemma conv_from_length bits : forall d, length (conv_from d bits) = (2 * length bits)%nat.
Proof. induction bits as [|x r IH]; intros d; [reflexivity|].
  cbn [conv_from]. destruct d as [[[d1 d2] d3] d4]. cbn [conv_step]. rewrite app_length, IH. cbn [length]. lia. Qed.

Lemma spec_conv_length bits : length (spec_conv bits) = (2 * (length bits + 4))%nat.
Proof. unfold spec_conv. rewrite conv_from_length, app_length, repeat_length. reflexivity. Qed.

Lemma P_lengths : (0 < length P1)%nat /\ (0 < length P2)%nat /\ (0 < length P3)%nat.
Proof. repeat split; vm_compute; lia. Qed.

Lemma lsf_encode_ok result : all_bytes result -> lsf_encode result = spec_conv (bytes_bits result).
Proof. intros H. unfold lsf_encode.
  destruct tx_sites_ok as [-> [_ [_ [-> [_ [_ [-> ->]]]]]]]. cbn [nth]. apply conv_data_flush. exact H. Qed.

Lemma spec_puncture_length_P1 bits : length bits = 488%nat -> length (spec_puncture P1 bits) = 368%nat.
Proof. intros H. unfold spec_puncture. rewrite puncture_from_length, H. exact (proj1 kept_values). Qed.
Lemma spec_puncture_length_P2 bits : length bits = 296%nat -> length (spec_puncture P2 bits) = 272%nat.
Proof. intros H. unfold spec_puncture. rewrite puncture_from_length, H. exact (proj1 (proj2 kept_values)). Qed.

Lemma lsf_frame_ok uninit result : length result = 30%nat -> all_bytes result ->
  lsf_frame uninit result = spec_lsf_frame result.
Proof. intros Hl Hb. unfold lsf_frame, spec_lsf_frame. rewrite lsf_encode_ok by exact Hb.
  destruct matrices_ok as [_ [_ [_ [-> _]]]].
  assert (L : length (spec_conv (bytes_bits result)) = 488%nat) by (rewrite spec_conv_length, bytes_bits_length, Hl; reflexivity).
  change lsf_encoded_len with 488%nat. change lsf_punctured_len with 368%nat.
  rewrite (puncture_exact 488 368 _ uninit P1 (proj1 P_lengths) L (proj1 kept_values)).
  apply finish_ok. apply spec_puncture_length_P1. exact L. Qed.

(** FN field: the uint16 argument of make_data_frame is the 15-bit frame number with the EOS flag on top *)
Definition ok_fn (fn : N) : bool :=
  match fn_field (fn mod 32768) (N.testbit fn 15) with
  | [hi; lo] => (u8 (N.land (N.shiftr fn 8) 0xFF) =? hi) && (u8 (N.land fn 0xFF) =? lo) && (hi <? 256) && (lo <? 256)
  | _ => false
  end.
Lemma sweep_fn : below 16 ok_fn = true.
Proof. vm_compute. reflexivity. Qed.

Opaque fn_field.
Lemma fn_bytes_ok fn : fn < 65536 ->
  [u8 (N.land (N.shiftr fn 8) 0xFF); u8 (N.land fn 0xFF)] = fn_field (fn mod 32768) (N.testbit fn 15) /\
  all_bytes (fn_field (fn mod 32768) (N.testbit fn 15)) /\ length (fn_field (fn mod 32768) (N.testbit fn 15)) = 2%nat.
Proof. intros H. assert (L : fn < 2 ^ N.of_nat 16) by exact H.
  pose proof (below_spec 16 ok_fn sweep_fn fn L) as K. unfold ok_fn in K.
  destruct (fn_field (fn mod 32768) (N.testbit fn 15)) as [|hi [|lo [|? ?]]]; try discriminate K.
  apply andb_prop in K. destruct K as [K K4]. apply andb_prop in K. destruct K as [K K3].
  apply andb_prop in K. destruct K as [K1 K2]. apply N.eqb_eq in K1, K2. apply N.ltb_lt in K3, K4.
  rewrite K1, K2. repeat split. repeat constructor; assumption. Qed.

Lemma make_data_frame_ok uninit fn payload : fn < 65536 -> length payload = 16%nat -> all_bytes payload ->
  make_data_frame uninit fn payload = spec_stream_payload (fn mod 32768) payload (N.testbit fn 15).
Proof. intros Hf Hl Hb. unfold make_data_frame, spec_stream_payload.
  destruct (fn_bytes_ok fn Hf) as [E [B L]]. rewrite E.
  destruct tx_sites_ok as [_ [-> [_ [_ [-> [_ [-> ->]]]]]]]. cbn [nth].
  assert (A : all_bytes (fn_field (fn mod 32768) (N.testbit fn 15) ++ payload)) by (apply Forall_app; split; assumption).
  pose proof (conv_data_flush _ A) as C.
  destruct (conv_bytes POLYS 4 8 0 (fn_field (fn mod 32768) (N.testbit fn 15) ++ payload)) as [memory e1].
  destruct (conv_flush POLYS 4 4 memory) as [m2 e2]. rewrite C.
  destruct matrices_ok as [_ [_ [_ [_ [-> _]]]]].
  change stream_encoded_len with 296%nat. change data_frame_len with 272%nat.
  apply (puncture_exact 296 272); [exact (proj1 (proj2 P_lengths)) | | exact (proj1 (proj2 kept_values))].
  rewrite spec_conv_length, bytes_bits_length, app_length, L, Hl. reflexivity. Qed.

Lemma spec_stream_payload_length fn payload eos : length payload = 16%nat ->
  length (spec_stream_payload fn payload eos) = 272%nat.
Proof. intros H. unfold spec_stream_payload. apply spec_puncture_length_P2.
  rewrite spec_conv_length, bytes_bits_length, app_length, H.
  Transparent fn_field. unfold fn_field. Opaque fn_field. rewrite be_bytes_length. reflexivity. Qed.

(** LICH of chunk n *)
Lemma list30 {A} (l : list A) : length l = 30%nat ->
  exists a0 a1 a2 a3 a4 a5 a6 a7 a8 a9 b0 b1 b2 b3 b4 b5 b6 b7 b8 b9 c0 c1 c2 c3 c4 c5 c6 c7 c8 c9,
  l = [a0; a1; a2; a3; a4; a5; a6; a7; a8; a9; b0; b1; b2; b3; b4; b5; b6; b7; b8; b9; c0; c1; c2; c3; c4; c5; c6; c7; c8; c9].
Proof. intros H.
  do 30 (destruct l as [|? l]; [discriminate H|]). destruct l; [|discriminate H]. repeat eexists. Qed.

Lemma lich_consts_ok : lich_stride = 5%nat /\ lich_segments = 6%nat /\ lich_segment_bytes = 5%nat /\ lich_bits = 96%nat.
Proof. repeat split; reflexivity. Qed.

Lemma lich_segment_ok (uninit : list bool) lsf n : length lsf = 30%nat -> all_bytes lsf -> (n < 6)%nat ->
  make_lich_segment (firstn lich_stride (skipn (n * lich_stride) lsf)) (N.of_nat n) = spec_lich lsf (N.of_nat n) /\
  length (spec_lich lsf (N.of_nat n)) = 96%nat.
Proof. intros Hl Hb Hn. unfold spec_lich, lich_chunk. rewrite Nat2N.id.
  destruct (list30 lsf Hl) as [a0 [a1 [a2 [a3 [a4 [a5 [a6 [a7 [a8 [a9 [b0 [b1 [b2 [b3 [b4 [b5 [b6 [b7 [b8 [b9
    [c0 [c1 [c2 [c3 [c4 [c5 [c6 [c7 [c8 [c9 ->]]]]]]]]]]]]]]]]]]]]]]]]]]]]]].
  unfold all_bytes in Hb. repeat match goal with H : Forall _ (_ :: _) |- _ => inversion H; subst; clear H end.
  unfold is_byte in *. change lich_stride with 5%nat.
  assert (N8 : N.of_nat n < 8) by lia.
  destruct n as [|[|[|[|[|[|n]]]]]]; try lia; cbn [Nat.mul Nat.add skipn firstn];
  (split; [apply (make_lich_segment_ok uninit); assumption | apply lich_spec_length]).
Qed.
