(** The M17 randomizer (decorrelator) as the specification states it: the frame's 368 bits are
    xor-ed with a fixed 46-byte sequence; on soft bits an xor with 1 is a sign change.
    Written from the specification text, independent of the code. *)
From Coq Require Import NArith ZArith List Bool.
From M17 Require Import Bits.
Import ListNotations.

(** the randomizing sequence of the specification (46 bytes) *)
Definition dc_spec : list N := [
  0xD6; 0xB5; 0xE2; 0x30; 0x82; 0xFF; 0x84; 0x62;
  0xBA; 0x4E; 0x96; 0x90; 0xD8; 0x98; 0xDD; 0x5D;
  0x0C; 0xC8; 0x52; 0x43; 0x91; 0x1D; 0xF8; 0x6E;
  0x68; 0x2F; 0x35; 0xDA; 0x14; 0xEA; 0xCD; 0x76;
  0x19; 0x8D; 0xD5; 0x80; 0xD1; 0x33; 0x87; 0x13;
  0x57; 0x18; 0x2D; 0x29; 0x78; 0xC3]%N.

(** its 368 bits, most significant bit of each byte first (transmission order) *)
Definition dc_bits : list bool := bytes_bits dc_spec.

(** randomizing a frame of bits / of packed bytes / of soft bits *)
Definition rand_bits_spec (l : list bool) : list bool := xor_bits l dc_bits.
Definition rand_bytes_spec (l : list N) : list N := xor_bytes l dc_spec.
Definition rand_soft_spec (l : list Z) : list Z :=
  map (fun p : Z * bool => if snd p then (- fst p)%Z else fst p) (combine l dc_bits).

(** hard decision of a soft bit: positive means 1 (the convention of the Viterbi decoder's input) *)
Definition hard (s : Z) : bool := (0 <? s)%Z.
Definition hardN (s : Z) : N := b2n (hard s).   (* the same as a 0/1 value of a bit array *)

(** an int8_t value *)
Definition int8 (z : Z) : Prop := (-128 <= z <= 127)%Z.
