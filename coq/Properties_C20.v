(** C20 - what m17-demod -l reports and writes, proved for the application-level handlers (model ImplApp.v, shared
    with C07; constants regenerated from apps/m17-demod.cpp).  The pipeline itself (processes, pipes, the analogue
    path through M17Demodulator) is RUN by tools/props/c20.py, not proved.
    This file holds only the property theorems (each closed by [exact]) and their Print Assumptions.
    The callsign round trip used here is proved locally (LemmasC20.v) for the faithful decode_callsign model of
    ImplApp.v; the full callsign property (C17) lives in its own development. *)
From Coq Require Import NArith ZArith Arith Bool String Lia List.
From M17 Require Import Checked ConstsApp ImplApp LemmasApp SpecApp LemmasC20.
(* for the end-to-end composition (section 5): transmitter model (C13), frame decoder model (C01); qualified names only *)
From M17 Require SpecCRC SpecM17 ImplMod ImplViterbi ImplFrameDecoder FrameDecoderInst LemmasFD_Inst LemmasRT_A LemmasE2E.
Import ListNotations.
Local Open Scope nat_scope.

(** 1. LSF report: for every valid source, every valid destination or broadcast, every CAN 0..15, every META and CRC
       bytes, the LSF callback for the specification's LSF bytes prints EXACTLY the line
         "\nSRC: <src>, DEST: <dst|BROADCAST>, STR:V/V CAN:<nn>, NONCE: <28 hex>, CRC: <4 hex>\n"
       and nothing else (in particular no "LSF for reserved packet type"), returns true, writes nothing to stdout,
       and leaves the packet buffer empty. *)
Theorem c20_lsf_report_matches :
  forall (cstate : Type) (st : app cstate) (noise_blanker : bool)
         (dst : option (list N)) (src : list N) (can : N) (meta crc : list N),
    valid_call src -> (match dst with Some cs => valid_call cs | None => True end) -> (can < 16)%N ->
    length meta = 14 -> all_bytes meta -> length crc = 2 -> all_bytes crc ->
    dump_lsf cstate {| o_display_lsf := true; o_noise_blanker := noise_blanker |} st (spec_lsf dst src can meta crc)
    = Ok ({| a_packet := []; a_counter := 0%N; a_hex := false; a_prbs := a_prbs st; a_codec := a_codec st |},
          {| r_ret := true; r_err := spec_lsf_line dst src can meta crc; r_out := []; r_c2 := [] |}).
Proof. exact lsf_report_lemma. Qed.
Print Assumptions c20_lsf_report_matches.

(** 2. audio: for every callback history (any buffers of the decoder's sizes, any costs, either flag setting, noise
       blanker branch or codec2 branch) the bytes written to stdout are exactly 640 per STREAM callback and none otherwise.
       codec2_decode is arbitrary except for storing exactly 160 samples. *)
Theorem c20_audio_whole_frames :
  forall (cstate : Type) (codec2_decode : cstate -> list N -> cstate * list Z),
    (forall c bits, length (snd (codec2_decode c bits)) = da_buf_samples) ->
  forall (o : opts) (cbs : list callback) (st : app cstate), Forall wf_callback cbs -> app_inv cstate st ->
    exists st' outs, run_app cstate codec2_decode o st cbs = Ok (st', outs) /\
                     total_stdout outs = 640 * stream_callbacks cbs.
Proof. exact audio_whole_frames_lemma. Qed.
Print Assumptions c20_audio_whole_frames.

(** 3. end of stream: a STREAM callback whose first payload byte has bit 7 set (frame-number bit 15, the EOS flag) and
       whose Viterbi cost is below the limit (70) returns false and, with -l, prints "\nEOS\n"; every other STREAM
       callback returns true and prints nothing; either way 640 bytes of audio are written. *)
Theorem c20_eos_flagged :
  forall (cstate : Type) (codec2_decode : cstate -> list N -> cstate * list Z),
    (forall c bits, length (snd (codec2_decode c bits)) = da_buf_samples) ->
  forall (o : opts) (st : app cstate) (audio : list N) (cost : Z) (a0 : N),
    length audio = audio_bytes -> app_inv cstate st -> nth_error audio da_eos_idx = Some a0 ->
    exists st' out, handle_frame cstate codec2_decode o st (CbStream audio cost) = Ok (st', out) /\
      length (r_out out) = 640 /\
      (((cost < da_eos_cost)%Z /\ N.land a0 da_eos_mask <> 0%N) ->
         r_ret out = false /\ r_err out = (if o_display_lsf o then [10%N] ++ str "EOS" ++ [10%N] else [])) /\
      (~ ((cost < da_eos_cost)%Z /\ N.land a0 da_eos_mask <> 0%N) -> r_ret out = true /\ r_err out = []).
Proof. exact eos_flagged_lemma. Qed.
Print Assumptions c20_eos_flagged.

(** the literals the two theorems above are stated over, as read from the current source: EOS = byte 0 bit 7 (FN bit 15),
    cost limit 70, noise-blanker limit 80, 2 x 320 bytes per frame from a 160-sample buffer, codec2 blocks at +2 and +10 *)
Theorem c20_audio_constants : da_eos_idx = 0 /\ da_eos_mask = 128%N /\ da_eos_cost = 70%Z /\ da_blank_cost = 80%Z /\
  da_write_bytes = 320 /\ da_writes_per_frame = 2 /\ da_buf_samples = 160 /\ da_off1 = 2 /\ da_off2 = 10.
Proof. exact eos_constants. Qed.
Print Assumptions c20_audio_constants.

(** non-vacuity *)
Definition ex_src : list N := str "W1AW".
Definition ex_dst : option (list N) := Some (str "N0CALL-9").
Example c20_valid_calls : valid_call ex_src /\ valid_call (str "N0CALL-9") /\ valid_call (str "AB1CDE/.Z").
Proof. repeat split; try (cbn; lia); repeat constructor; (eexists; vm_compute; reflexivity). Qed.
Example c20_lsf_instance :
  spec_lsf ex_dst ex_src 7 (repeat 0%N 14) [0xAB; 0xCD]%N
  = [0x05; 0x80; 0xDE; 0xC7; 0xD1; 0x06;  0; 0; 0; 0x16; 0x80; 0xB7;  0x03; 0x85;  0;0;0;0;0;0;0;0;0;0;0;0;0;0;  0xAB; 0xCD]%N
  /\ spec_lsf_line ex_dst ex_src 7 (repeat 0%N 14) [0xAB; 0xCD]%N
     = [10%N] ++ str "SRC: W1AW, DEST: N0CALL-9, STR:V/V CAN:07, NONCE: 0000000000000000000000000000, CRC: abcd" ++ [10%N]
  /\ is_infix (str "LSF for") (spec_lsf_line ex_dst ex_src 7 (repeat 0%N 14) [0xAB; 0xCD]%N) = false.
Proof. vm_compute. repeat split. Qed.
Example c20_broadcast_instance :
  spec_lsf_line None ex_src 15 (repeat 255%N 14) [0; 1]%N
  = [10%N] ++ str "SRC: W1AW, DEST: BROADCAST, STR:V/V CAN:15, NONCE: ffffffffffffffffffffffffffff, CRC: 0001" ++ [10%N].
Proof. vm_compute. reflexivity. Qed.

(** 5. END TO END at the level of the three models (composition of C13 c13_mod_lsf_is_spec, C01 c01_rt_lsf_m17mod and
       theorem 1 above):  m17-mod -S src [-D dst] -C can | m17-demod -l  reports the link given to the transmitter.
       For every valid source, every valid destination or none (= broadcast; [dest_arg None = []] is m17-mod without -D),
       every CAN 0..15, every content of the transmitter's uninitialised puncture arrays, every frame-decoder state
       with well-shaped buffers (any mode, any leftovers), every soft-bit magnitude vector 1..7 on the transmitted
       signs (clean channel, any confidence), either callback return value, every application state and either
       noise-blanker setting:
         - send_lsf emits one frame f under the LSF sync word and returns the 30 bytes that BOTH specifications
           describe (SpecM17.spec_lsf, transmitter side = SpecApp.spec_lsf with zero META and the CRC of the 28 bytes);
         - the frame decoder, fed f, enters stream mode, reports OK and issues exactly one callback: LSF, those 30 bytes;
         - handle_frame, run on every callback of that call as m17-demod does (switch on frame.type), writes to stderr
           exactly "\nSRC: <src>, DEST: <dst|BROADCAST>, STR:V/V CAN:<nn>, NONCE: 0000000000000000000000000000, CRC: <crc>\n",
           returns true, writes nothing to stdout and calls codec2 not at all.
       Not covered (run by tools/props/c20.py, not proved): the analogue path between the two models (baseband
       filter, M17Demodulator acquisition/tracking, which produce the soft bits), processes and pipes. *)
Theorem c20_link_report_end_to_end :
  forall (cstate : Type) (codec2_decode : cstate -> list N -> cstate * list Z)
         (st : app cstate) (noise_blanker : bool) (dst : option (list N)) (src : list N) (can : N)
         (uninit : list bool) (s : FrameDecoderInst.fd_state) (m : list Z) (r : bool),
    valid_call src -> (match dst with Some cs => valid_call cs | None => True end) -> (can < 16)%N ->
    LemmasFD_Inst.fd_hid_ok s -> length m = 368 -> Forall (fun x => 1 <= x <= 7)%Z m ->
    let tx := ImplMod.send_lsf uninit can src (LemmasE2E.dest_arg dst) ImplMod.AUDIO in
    let crc := SpecCRC.crc_hi_lo (SpecCRC.m17_crc (SpecM17.spec_lsf_body (LemmasE2E.dest_arg dst) src can)) in
    exists (f : list bool) (c : Z),
      snd tx = [ImplMod.OutFrame SpecM17.sync_lsf f] /\
      fst tx = spec_lsf dst src can (repeat 0%N 14) crc /\
      LemmasFD_Inst.fd_observe (FrameDecoderInst.fd_step s ImplFrameDecoder.SLsf (LemmasRT_A.soft m f) r)
        = (ImplFrameDecoder.MStream, ImplFrameDecoder.ROk, Some c, [ImplFrameDecoder.mkcb ImplFrameDecoder.FLsf (fst tx) c]) /\
      (Forall (fun x => x = 7%Z) m -> c = 0%Z) /\
      run_app cstate codec2_decode {| o_display_lsf := true; o_noise_blanker := noise_blanker |} st
        (map LemmasE2E.app_callback
             (ImplFrameDecoder.cbs_of ImplViterbi.scratch
                (FrameDecoderInst.fd_step s ImplFrameDecoder.SLsf (LemmasRT_A.soft m f) r)))
      = Ok ({| a_packet := []; a_counter := 0%N; a_hex := false; a_prbs := a_prbs st; a_codec := a_codec st |},
            [{| r_ret := true; r_err := spec_lsf_line dst src can (repeat 0%N 14) crc; r_out := []; r_c2 := [] |}]).
Proof. exact LemmasE2E.link_report_end_to_end. Qed.
Print Assumptions c20_link_report_end_to_end.

(** the same as one function from the transmitter's arguments to the receiver's output (LemmasE2E.lsf_pipeline:
    send_lsf, soft bits, frame decoder step, handle_frame on every callback) *)
Theorem c20_link_report_pipeline :
  forall (cstate : Type) (codec2_decode : cstate -> list N -> cstate * list Z)
         (st : app cstate) (noise_blanker : bool) (dst : option (list N)) (src : list N) (can : N)
         (uninit : list bool) (s : FrameDecoderInst.fd_state) (m : list Z) (r : bool),
    valid_call src -> (match dst with Some cs => valid_call cs | None => True end) -> (can < 16)%N ->
    LemmasFD_Inst.fd_hid_ok s -> length m = 368 -> Forall (fun x => 1 <= x <= 7)%Z m ->
    LemmasE2E.lsf_pipeline cstate codec2_decode noise_blanker st uninit s m r dst src can
    = Ok ({| a_packet := []; a_counter := 0%N; a_hex := false; a_prbs := a_prbs st; a_codec := a_codec st |},
          [{| r_ret := true;
              r_err := spec_lsf_line dst src can (repeat 0%N 14)
                         (SpecCRC.crc_hi_lo (SpecCRC.m17_crc (SpecM17.spec_lsf_body (LemmasE2E.dest_arg dst) src can)));
              r_out := []; r_c2 := [] |}]).
Proof. exact LemmasE2E.link_report_pipeline. Qed.
Print Assumptions c20_link_report_pipeline.

(** agreement of the two independent formulations of the LSF: the transmitter-side specification (SpecM17, used by
    C13 and C01: shifts/masks, fold_right base 40, alphabet as a code list) and the receiver-side one (SpecApp above:
    divisions, structural recursion, alphabet as a string); the digit of EVERY character code, the base-40 number of
    EVERY list, the six address bytes of EVERY number, and the 30 bytes for valid calls *)
Theorem c20_lsf_specs_agree :
  (forall c : N, SpecM17.char_digit c = value_of c) /\
  (forall cs : list N, SpecM17.base40 cs = call_number cs) /\
  (forall v : N, SpecM17.be_bytes 6 v = be6 v) /\
  (forall cs : list N, valid_call cs -> SpecM17.valid_callsign cs) /\
  (forall cs : list N, SpecM17.valid_callsign cs -> cs <> [] -> ~ In 32%N cs -> valid_call cs) /\
  (forall (dst : option (list N)) (src : list N) (can : N),
     (match dst with Some cs => valid_call cs | None => True end) -> (can < 16)%N ->
     SpecM17.spec_lsf (LemmasE2E.dest_arg dst) src can
     = spec_lsf dst src can (repeat 0%N 14)
         (SpecCRC.crc_hi_lo (SpecCRC.m17_crc (SpecM17.spec_lsf_body (LemmasE2E.dest_arg dst) src can)))).
Proof. exact (conj LemmasE2E.char_digit_agree (conj LemmasE2E.base40_agree (conj LemmasE2E.be_bytes6_agree
         (conj LemmasE2E.valid_call_callsign (conj LemmasE2E.valid_callsign_call LemmasE2E.spec_lsf_agree))))). Qed.
Print Assumptions c20_lsf_specs_agree.

(** non-vacuity of 5: the whole chain computed on concrete arguments (fresh decoder, full-confidence soft bits) *)
Example c20_end_to_end_instance :
  LemmasE2E.lsf_pipeline_example ex_dst ex_src 7
  = Ok (app_init unit tt,
        [{| r_ret := true;
            r_err := [10%N] ++ str "SRC: W1AW, DEST: N0CALL-9, STR:V/V CAN:07, NONCE: 0000000000000000000000000000, CRC: 9594" ++ [10%N];
            r_out := []; r_c2 := [] |}])
  /\ LemmasFD_Inst.fd_hid_ok FrameDecoderInst.fd_init /\ Forall (fun x => 1 <= x <= 7)%Z (repeat 7%Z 368).
Proof. split; [vm_compute; reflexivity|]. split; [exact LemmasFD_Inst.fd_init_ok|].
  apply Forall_forall. intros x Hx. apply repeat_spec in Hx. subst x. lia. Qed.
Example c20_end_to_end_broadcast :
  LemmasE2E.lsf_pipeline_example None ex_src 0
  = Ok (app_init unit tt,
        [{| r_ret := true;
            r_err := [10%N] ++ str "SRC: W1AW, DEST: BROADCAST, STR:V/V CAN:00, NONCE: 0000000000000000000000000000, CRC: 91e6" ++ [10%N];
            r_out := []; r_c2 := [] |}]).
Proof. vm_compute. reflexivity. Qed.
