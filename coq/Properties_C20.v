(** C20 - what m17-demod -l reports and writes, proved for the application-level handlers (model ImplApp.v, shared
    with C07; constants regenerated from apps/m17-demod.cpp).  The pipeline itself (processes, pipes, the analogue
    path through M17Demodulator) is RUN by tools/props/c20.py, not proved.
    This file holds only the property theorems (each closed by [exact]) and their Print Assumptions.
    The callsign round trip used here is proved locally (LemmasC20.v) for the faithful decode_callsign model of
    ImplApp.v; the full callsign property (C17) lives in its own development. *)
From Coq Require Import NArith ZArith Arith Bool String Lia List.
From M17 Require Import Checked ConstsApp ImplApp LemmasApp SpecApp LemmasC20.
Import ListNotations.
Local Open Scope nat_scope.

(** 1. LSF report: for every valid source, every valid destination or broadcast, every CAN 0..15, every META and CRC
       bytes, the LSF callback for the specification's LSF bytes prints EXACTLY the line
         "\nSRC: <src>, DEST: <dst|BROADCAST>, STR:V/V CAN:<nn>, NONCE: <28 hex>, CRC: <4 hex>\n"
       and nothing else (in particular no "LSF for reserved packet type"), returns true, writes nothing to stdout,
       and leaves the packet buffer empty. *)
Theorem c20_lsf_report_matches :
  forall (cstate : Type) (st : app cstate) (noise_blanker : bool)
         (dst : option (list N)) (src : list N) (can : N) (meta crc : list N),
    valid_call src -> (match dst with Some cs => valid_call cs | None => True end) -> (can < 16)%N ->
    length meta = 14 -> all_bytes meta -> length crc = 2 -> all_bytes crc ->
    dump_lsf cstate {| o_display_lsf := true; o_noise_blanker := noise_blanker |} st (spec_lsf dst src can meta crc)
    = Ok ({| a_packet := []; a_counter := 0%N; a_hex := false; a_prbs := a_prbs st; a_codec := a_codec st |},
          {| r_ret := true; r_err := spec_lsf_line dst src can meta crc; r_out := []; r_c2 := [] |}).
Proof. exact lsf_report_lemma. Qed.
Print Assumptions c20_lsf_report_matches.

(** 2. audio: for every callback history (any buffers of the decoder's sizes, any costs, either flag setting, noise
       blanker branch or codec2 branch) the bytes written to stdout are exactly 640 per STREAM callback and none otherwise.
       codec2_decode is arbitrary except for storing exactly 160 samples. *)
Theorem c20_audio_whole_frames :
  forall (cstate : Type) (codec2_decode : cstate -> list N -> cstate * list Z),
    (forall c bits, length (snd (codec2_decode c bits)) = da_buf_samples) ->
  forall (o : opts) (cbs : list callback) (st : app cstate), Forall wf_callback cbs -> app_inv cstate st ->
    exists st' outs, run_app cstate codec2_decode o st cbs = Ok (st', outs) /\
                     total_stdout outs = 640 * stream_callbacks cbs.
Proof. exact audio_whole_frames_lemma. Qed.
Print Assumptions c20_audio_whole_frames.

(** 3. end of stream: a STREAM callback whose first payload byte has bit 7 set (frame-number bit 15, the EOS flag) and
       whose Viterbi cost is below the limit (70) returns false and, with -l, prints "\nEOS\n"; every other STREAM
       callback returns true and prints nothing; either way 640 bytes of audio are written. *)
Theorem c20_eos_flagged :
  forall (cstate : Type) (codec2_decode : cstate -> list N -> cstate * list Z),
    (forall c bits, length (snd (codec2_decode c bits)) = da_buf_samples) ->
  forall (o : opts) (st : app cstate) (audio : list N) (cost : Z) (a0 : N),
    length audio = audio_bytes -> app_inv cstate st -> nth_error audio da_eos_idx = Some a0 ->
    exists st' out, handle_frame cstate codec2_decode o st (CbStream audio cost) = Ok (st', out) /\
      length (r_out out) = 640 /\
      (((cost < da_eos_cost)%Z /\ N.land a0 da_eos_mask <> 0%N) ->
         r_ret out = false /\ r_err out = (if o_display_lsf o then [10%N] ++ str "EOS" ++ [10%N] else [])) /\
      (~ ((cost < da_eos_cost)%Z /\ N.land a0 da_eos_mask <> 0%N) -> r_ret out = true /\ r_err out = []).
Proof. exact eos_flagged_lemma. Qed.
Print Assumptions c20_eos_flagged.

(** the literals the two theorems above are stated over, as read from the current source: EOS = byte 0 bit 7 (FN bit 15),
    cost limit 70, noise-blanker limit 80, 2 x 320 bytes per frame from a 160-sample buffer, codec2 blocks at +2 and +10 *)
Theorem c20_audio_constants : da_eos_idx = 0 /\ da_eos_mask = 128%N /\ da_eos_cost = 70%Z /\ da_blank_cost = 80%Z /\
  da_write_bytes = 320 /\ da_writes_per_frame = 2 /\ da_buf_samples = 160 /\ da_off1 = 2 /\ da_off2 = 10.
Proof. exact eos_constants. Qed.
Print Assumptions c20_audio_constants.

(** non-vacuity *)
Definition ex_src : list N := str "W1AW".
Definition ex_dst : option (list N) := Some (str "N0CALL-9").
Example c20_valid_calls : valid_call ex_src /\ valid_call (str "N0CALL-9") /\ valid_call (str "AB1CDE/.Z").
Proof. repeat split; try (cbn; lia); repeat constructor; (eexists; vm_compute; reflexivity). Qed.
Example c20_lsf_instance :
  spec_lsf ex_dst ex_src 7 (repeat 0%N 14) [0xAB; 0xCD]%N
  = [0x05; 0x80; 0xDE; 0xC7; 0xD1; 0x06;  0; 0; 0; 0x16; 0x80; 0xB7;  0x03; 0x85;  0;0;0;0;0;0;0;0;0;0;0;0;0;0;  0xAB; 0xCD]%N
  /\ spec_lsf_line ex_dst ex_src 7 (repeat 0%N 14) [0xAB; 0xCD]%N
     = [10%N] ++ str "SRC: W1AW, DEST: N0CALL-9, STR:V/V CAN:07, NONCE: 0000000000000000000000000000, CRC: abcd" ++ [10%N]
  /\ is_infix (str "LSF for") (spec_lsf_line ex_dst ex_src 7 (repeat 0%N 14) [0xAB; 0xCD]%N) = false.
Proof. vm_compute. repeat split. Qed.
Example c20_broadcast_instance :
  spec_lsf_line None ex_src 15 (repeat 255%N 14) [0; 1]%N
  = [10%N] ++ str "SRC: W1AW, DEST: BROADCAST, STR:V/V CAN:15, NONCE: ffffffffffffffffffffffffffff, CRC: 0001" ++ [10%N].
Proof. vm_compute. reflexivity. Qed.
