(** Extraction of the callsign models for the correspondence check: ExtrOcamlBasic only. *)
Require Extraction.
Require Import ExtrOcamlBasic.
From Coq Require Import NArith List.
From M17 Require Import ImplCallsign SpecCallsign ConstsCallsign.
Definition c17_impl_encode := encode_callsign.
Definition c17_impl_encode_gen := encode_callsign_gen.
Definition c17_impl_decode := decode_callsign.
Definition c17_spec_encode := spec_encode.
Definition c17_spec_decode := spec_decode.
Definition c17_spec_valid (s : list N) : bool :=
  andb (andb (Nat.leb 1 (length s)) (Nat.leb (length s) 9)) (forallb valid_charb s).
Extraction "c17_model.ml" c17_impl_encode c17_impl_encode_gen c17_impl_decode c17_spec_encode c17_spec_decode c17_spec_valid pad10.
