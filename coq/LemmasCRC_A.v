(** CRC: the C++ engine (non-augmented register + 16-bit augmentation in get())
    computes the specification's direct CRC.  One 2^16 sweep. *)
From Coq Require Import NArith List Bool Lia.
From M17 Require Import Bits ImplCRC SpecCRC ConstsCrc.
Import ListNotations.
Local Open Scope N_scope.

Definition P : N := ConstsCrc.crc_poly.
Definition I : N := ConstsCrc.crc_init.

(* one bit of crc(byte, reg) with the message bit abstracted *)
Definition nd_bit (reg : N) (b : bool) : N :=
  let msb := N.land reg MSB in
  let reg1 := N.lor (N.land (N.shiftl reg 1) MASK) (b2n b) in
  if N.eqb msb 0 then reg1 else N.lxor reg1 P.

Lemma crc_step_nd byte reg i : crc_step P byte reg i = nd_bit reg (N.testbit byte (N.of_nat (7 - i))).
Proof. unfold crc_step, nd_bit, LSB. rewrite testbit_b2n_land_shiftr. reflexivity. Qed.

Definition okA (r : N) : bool :=
  (get P (nd_bit r false) =? direct_bit m17_poly (get P r) false) &&
  (get P (nd_bit r true) =? direct_bit m17_poly (get P r) true) &&
  (nd_bit r false <? 65536) && (nd_bit r true <? 65536).

Lemma sweepA : below 16 okA = true.
Proof. vm_compute. reflexivity. Qed.

Lemma reset_ok : get P (reset_reg P I) = m17_init /\ reset_reg P I < 65536.
Proof. vm_compute. split; reflexivity. Qed.

Lemma sites_ok : forallb (fun s => (fst s =? m17_poly) && (snd s =? m17_init)) ConstsCrc.crc_sites = true.
Proof. vm_compute. reflexivity. Qed.

Lemma loop_bounds_ok : ConstsCrc.crc_reset_steps = 16%nat /\ ConstsCrc.crc_byte_steps = 8%nat /\
  ConstsCrc.crc_get_steps = 16%nat /\ ConstsCrc.crc_MASK = MASK /\ ConstsCrc.crc_LSB = LSB /\ ConstsCrc.crc_MSB = MSB.
Proof. repeat split; reflexivity. Qed.

Opaque get nd_bit direct_bit.

Lemma step_commutes r b : r < 65536 ->
  get P (nd_bit r b) = direct_bit m17_poly (get P r) b /\ nd_bit r b < 65536.
Proof. intros H. pose proof (below_spec 16 okA sweepA r H) as S. unfold okA in S.
  apply andb_prop in S. destruct S as [S S4]. apply andb_prop in S. destruct S as [S S3].
  apply andb_prop in S. destruct S as [S1 S2].
  destruct b.
  - split; [apply N.eqb_eq; exact S2 | apply N.ltb_lt; exact S4].
  - split; [apply N.eqb_eq; exact S1 | apply N.ltb_lt; exact S3].
Qed.

Lemma bits_commute bits : forall r, r < 65536 ->
  get P (fold_left nd_bit bits r) = direct_bits m17_poly (get P r) bits /\ fold_left nd_bit bits r < 65536.
Proof. exact (sim_fold nd_bit (direct_bit m17_poly) (get P) (fun r => r < 65536) step_commutes bits). Qed.

Lemma fold_crc_step byte r : fold_left (crc_step P byte) (seq 0 8) r = fold_left nd_bit (byte_bits byte) r.
Proof. unfold byte_bits. cbn [seq map fold_left]. rewrite !crc_step_nd. reflexivity. Qed.

Lemma land_mask_small x : x < 65536 -> N.land x MASK = x.
Proof. intros H. unfold MASK. change 65535 with (N.ones 16). rewrite N.land_ones. apply N.mod_small. exact H. Qed.

Lemma crc_byte_nd r byte : r < 65536 -> crc_byte P r byte = fold_left nd_bit (byte_bits byte) r.
Proof. intros H. unfold crc_byte. rewrite fold_crc_step. apply land_mask_small.
  apply (bits_commute (byte_bits byte) r H). Qed.

Lemma feed_commutes bytes : forall r, r < 65536 ->
  get P (fold_left (crc_byte P) bytes r) = direct_bits m17_poly (get P r) (bytes_bits bytes)
  /\ fold_left (crc_byte P) bytes r < 65536.
Proof. induction bytes as [|x bytes IH]; intros r H; [split; [reflexivity|exact H]|].
  cbn [fold_left]. unfold bytes_bits. cbn [flat_map]. unfold direct_bits. rewrite fold_left_app.
  rewrite crc_byte_nd by exact H.
  destruct (bits_commute (byte_bits x) r H) as [E L].
  fold (direct_bits m17_poly (get P r) (byte_bits x)). rewrite <- E.
  apply IH. exact L. Qed.

(** the C++ CRC of any byte string is the M17 CRC of the specification *)
Lemma crc_impl_is_m17_lemma bytes : crc_of P I bytes = m17_crc bytes.
Proof. unfold crc_of, feed, m17_crc, crc_direct. destruct reset_ok as [R L].
  destruct (feed_commutes bytes _ L) as [E _]. rewrite E, R. reflexivity. Qed.

Lemma feed_lt bytes : feed P I bytes < 65536.
Proof. destruct reset_ok as [_ L]. apply (feed_commutes bytes _ L). Qed.

