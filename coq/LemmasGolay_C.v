(** Golay, the syndrome table: the model's sort is a sort; the 2048 keys are distinct (so the sorted table is
    unique); the table is partitioned for every probe; sweep over the 2048 syndromes: the lookup ends on a
    row of the table whose key is the probe, and the row's correction has the probe's syndrome. *)
From Coq Require Import NArith List Bool Lia Sorted Permutation PeanoNat.
From M17 Require Import Bits ConstsGolay ImplGolay SpecGolay LemmasGolay_A.
Import ListNotations.
Local Open Scope N_scope.

(** ** the insertion sort is a sort *)
Lemma insert_perm x l : Permutation (x :: l) (insert x l).
Proof. induction l as [|y l IH]; [apply Permutation_refl|]. cbn [insert].
  destruct (x <=? y); [apply Permutation_refl|].
  eapply perm_trans; [apply perm_swap|]. apply perm_skip. exact IH. Qed.

Lemma sort_perm l : Permutation l (sort l).
Proof. induction l as [|x l IH]; [apply perm_nil|]. cbn [sort fold_right].
  eapply perm_trans; [apply perm_skip; exact IH|]. apply insert_perm. Qed.

Lemma insert_sorted x l : StronglySorted N.le l -> StronglySorted N.le (insert x l).
Proof. induction l as [|y l IH]; intros S.
- cbn. constructor; constructor.
- cbn [insert]. apply StronglySorted_inv in S. destruct S as [S F].
  destruct (N.leb_spec x y) as [L|L].
  + constructor; [constructor; assumption|]. constructor; [exact L|].
    eapply Forall_impl; [|exact F]. intros a Ha. cbv beta in *. lia.
  + constructor; [apply IH; exact S|].
    apply (Permutation_Forall (insert_perm x l)). constructor; [lia | exact F].
Qed.

Lemma sort_sorted l : StronglySorted N.le (sort l).
Proof. induction l as [|x l IH]; [constructor|]. apply insert_sorted. exact IH. Qed.

(** ** a strictly sorted list is determined by its set of elements *)
Lemma sorted_lt_unique : forall l l' : list N, StronglySorted N.lt l -> StronglySorted N.lt l' ->
  (forall x, In x l <-> In x l') -> l = l'.
Proof. induction l as [|a l IH]; intros [|b l'] S S' E.
- reflexivity.
- exfalso. apply (proj2 (E b)). left. reflexivity.
- exfalso. apply (proj1 (E a)). left. reflexivity.
- apply StronglySorted_inv in S. destruct S as [S F]. apply StronglySorted_inv in S'. destruct S' as [S' F'].
  rewrite Forall_forall in F, F'.
  assert (a = b).
  { destruct (proj1 (E a) (or_introl eq_refl)) as [->|Ia]; [reflexivity|].
    destruct (proj2 (E b) (or_introl eq_refl)) as [->|Ib]; [reflexivity|].
    specialize (F b Ib). specialize (F' a Ia). lia. }
  subst b. f_equal. apply IH; [exact S | exact S' |]. intros x. split; intros I.
  + destruct (proj1 (E x) (or_intror I)) as [->|J]; [|exact J]. specialize (F x I). lia.
  + destruct (proj2 (E x) (or_intror I)) as [->|J]; [|exact J]. specialize (F' x I). lia.
Qed.

Lemma sorted_le_nodup_lt : forall l : list N, StronglySorted N.le l -> NoDup l -> StronglySorted N.lt l.
Proof. induction l as [|a l IH]; intros S D; [constructor|].
  apply StronglySorted_inv in S. destruct S as [S F]. inversion D as [|? ? Na D']; subst.
  constructor; [apply IH; assumption|]. rewrite Forall_forall in *. intros x I. specialize (F x I).
  assert (x <> a) by (intros ->; contradiction). lia. Qed.

Lemma sorted_lt_nodup : forall l : list N, StronglySorted N.lt l -> NoDup l.
Proof. induction l as [|a l IH]; intros S; [constructor|].
  apply StronglySorted_inv in S. destruct S as [S F]. constructor; [|apply IH; exact S].
  intros I. rewrite Forall_forall in F. specialize (F a I). lia. Qed.

(** boolean check of strict sortedness *)
Fixpoint strictly_sorted (l : list N) : bool :=
  match l with
  | a :: (b :: _) as t => (a <? b) && strictly_sorted t
  | _ => true
  end.

Lemma strictly_sorted_spec : forall l, strictly_sorted l = true -> StronglySorted N.lt l.
Proof. induction l as [|a [|b t] IH]; intros H.
- constructor.
- constructor; constructor.
- cbn [strictly_sorted] in H. apply andb_prop in H. destruct H as [L H]. apply N.ltb_lt in L.
  specialize (IH H). constructor; [exact IH|].
  apply StronglySorted_inv in IH. destruct IH as [_ F]. constructor; [exact L|].
  eapply Forall_impl; [|exact F]. intros x Hx. cbv beta in *. lia. Qed.

(** ** facts about the concrete table, by evaluation *)
Definition entry_key (e : entry) : N := N.shiftr (fst e) 8.
Definition sorted_keys : list N := sort lut_unsorted.

Lemma lut_stores_fill : length lut_stores = LUT_SIZE /\ LUT_SIZE = 2048%nat.
Proof. split; vm_compute; reflexivity. Qed.
Lemma lut_unsorted_is_stores : lut_unsorted = lut_stores.
Proof. vm_compute. reflexivity. Qed.
Lemma sorted_keys_strict : strictly_sorted sorted_keys = true.
Proof. vm_compute. reflexivity. Qed.
Lemma lut_syndromes_strict : strictly_sorted (map entry_key LUT) = true.
Proof. vm_compute. reflexivity. Qed.
Lemma lut_length : length LUT = 2048%nat.
Proof. vm_compute. reflexivity. Qed.

(** one probe [t << 12], t < 2^11 *)
Definition corr_with (lut : list entry) (s : N) : N :=
  match nth_error lut (lower_bound lut s) with Some e => correction_of e | None => 0 end.

Definition row_ok (lut : list entry) (t : N) : bool :=
  let val := N.shiftl t 12 in
  let i := lower_bound lut val in
  Nat.eqb i (partition_point lut val) &&
  match nth_error lut i with
  | Some e =>
      (N.shiftr (fst e) 8 =? val) &&
      (let c := correction_of e in
       (c <? 2 ^ 24) && negb (N.testbit c 0) && (syndrome (N.shiftr c 1) =? val) && (popcount c <=? 3))
  | None => false
  end.

Lemma sw_rows : below 11 (row_ok LUT) = true.
Proof. vm_compute. reflexivity. Qed.

Local Opaque LUT lut_unsorted lut_stores sort syndrome popcount parity correction_of lower_bound partition_point.

(** ** the model's table is THE sorted table of the enumerated keys *)
Lemma sorted_keys_sorted : StronglySorted N.lt sorted_keys.
Proof. apply strictly_sorted_spec. exact sorted_keys_strict. Qed.

Lemma lut_keys_distinct : NoDup lut_stores.
Proof. apply (Permutation_NoDup (l := sorted_keys)).
  - apply Permutation_sym. unfold sorted_keys. rewrite lut_unsorted_is_stores. apply sort_perm.
  - apply sorted_lt_nodup. exact sorted_keys_sorted. Qed.

(** whatever (correct) algorithm sorts the keys, the result is the model's list *)
Lemma sorted_unique l : Permutation lut_stores l -> StronglySorted N.le l -> l = sorted_keys.
Proof. intros P S. apply sorted_lt_unique.
  - apply sorted_le_nodup_lt; [exact S|]. apply (Permutation_NoDup P). exact lut_keys_distinct.
  - exact sorted_keys_sorted.
  - intros x. assert (Q : Permutation l sorted_keys).
    { eapply perm_trans; [apply Permutation_sym; exact P|]. unfold sorted_keys.
      rewrite lut_unsorted_is_stores. apply sort_perm. }
    split; intros I; [apply (Permutation_in _ Q I) | apply (Permutation_in _ (Permutation_sym Q) I)]. Qed.

Lemma sorted_unique_stmt l : Permutation lut_stores l -> StronglySorted N.le l -> l = sort lut_unsorted.
Proof. intros P S. change (sort lut_unsorted) with sorted_keys. exact (sorted_unique l P S). Qed.

Lemma LUT_is_sorted_keys : LUT = map makeSyndromeMapEntry sorted_keys.
Proof. reflexivity. Qed.

(** the table is strictly increasing in (a >> 8): the precondition of std::lower_bound for every probe, and
    the 2048 syndromes are pairwise different *)
Lemma lut_syndromes_sorted : StronglySorted N.lt (map entry_key LUT).
Proof. apply strictly_sorted_spec. exact lut_syndromes_strict. Qed.

(** ** lifting the row sweep *)
Record row_facts (s : N) : Prop := {
  rf_index : (lower_bound LUT s < 2048)%nat;
  rf_pp : lower_bound LUT s = partition_point LUT s;
  rf_entry : exists e, nth_error LUT (lower_bound LUT s) = Some e /\ N.shiftr (fst e) 8 = s /\ correction_of e = corr_with LUT s;
  rf_lt : corr_with LUT s < 2 ^ 24;
  rf_bit0 : N.testbit (corr_with LUT s) 0 = false;
  rf_syn : syndrome (N.shiftr (corr_with LUT s) 1) = s;
  rf_w : popcount (corr_with LUT s) <= 3
}.

Lemma row_facts_ok t : t < 2 ^ 11 -> row_facts (N.shiftl t 12).
Proof. intros H. pose proof (below_spec 11 _ sw_rows t H) as R. unfold row_ok in R. cbv zeta in R.
  apply andb_prop in R. destruct R as [R0 R].
  assert (L : nth_error LUT (lower_bound LUT (N.shiftl t 12)) <> None).
  { intros E. rewrite E in R. discriminate R. }
  apply nth_error_Some in L. rewrite lut_length in L.
  destruct (nth_error LUT (lower_bound LUT (N.shiftl t 12))) as [e|] eqn:E; [|discriminate R].
  apply andb_prop in R. destruct R as [R1 R]. apply andb_prop in R. destruct R as [R R5].
  apply andb_prop in R. destruct R as [R R4]. apply andb_prop in R. destruct R as [R2 R3].
  assert (C : corr_with LUT (N.shiftl t 12) = correction_of e) by (unfold corr_with; rewrite E; reflexivity).
  constructor; rewrite ?C.
  - exact L.
  - apply Nat.eqb_eq. exact R0.
  - exists e. split; [exact E|]. split; [apply N.eqb_eq; exact R1 | reflexivity].
  - apply N.ltb_lt. exact R2.
  - apply negb_true_iff. exact R3.
  - apply N.eqb_eq. exact R4.
  - apply N.leb_le. exact R5.
Qed.

Lemma row_facts_word w : w < 2 ^ 23 -> row_facts (syndrome w).
Proof. intros H. destruct (syndrome_range w H) as [E L]. rewrite E. apply row_facts_ok. exact L. Qed.

(** ** decode, unfolded on the 24-bit domain *)
Definition decode_body (r c : N) : dres :=
  if (popcount c <? 3) || negb (parity (N.lxor r c)) then DOk (N.lxor r c) else DFail.

Lemma decode_char r : r < 2 ^ 24 ->
  decode r = decode_body r (corr_with LUT (syndrome (N.shiftr r 1))).
Proof. intros H.
  assert (W : N.shiftr r 1 < 2 ^ 23) by (apply (shiftr_lt r 23 1); exact H).
  destruct (row_facts_word _ W) as [_ _ (e & E1 & E2 & E3) _ _ _ _].
  unfold decode, decode_with. cbv zeta.
  change golay_dec_in_shift with 1. change golay_dec_eq_shift with 8. change golay_dec_accept_weight with 3.
  rewrite E1, E2, N.eqb_refl, E3. reflexivity. Qed.
