(** C01 round trip, part A: the framer's soft-bit convention [soft], and the first two receive stages
    (soft de-randomizer, de-interleaver) undo the specification encoder's last two stages on the signs
    while carrying the magnitudes along.  Generic list facts; nothing is enumerated over contents. *)
From Coq Require Import NArith ZArith List Bool Lia Arith.
From M17 Require Import Bits ImplRandom ImplInterleave SpecInterleave SpecRandom SpecM17
  LemmasInterleave LemmasRandom.
Import ListNotations.
Local Open Scope Z_scope.

(** bit 1 -> +m_i, bit 0 -> -m_i : the LLR convention of the framer (positive = 1) *)
Definition soft1 (p : Z * bool) : Z := if snd p then fst p else - fst p.
Definition soft (m : list Z) (b : list bool) : list Z := map soft1 (combine m b).

(** the magnitudes the framer can emit *)
Definition mags_ok (m : list Z) : Prop := Forall (fun x => 1 <= x <= 7) m.
Definition full_conf (m : list Z) : Prop := Forall (fun x => x = 7) m.

Lemma soft_nil_l b : soft [] b = []. Proof. reflexivity. Qed.
Lemma soft_nil_r m : soft m [] = []. Proof. unfold soft. destruct m; reflexivity. Qed.
Lemma soft_cons x m b l : soft (x :: m) (b :: l) = (if b then x else - x) :: soft m l. Proof. reflexivity. Qed.

Lemma soft_length m b : length (soft m b) = Nat.min (length m) (length b).
Proof. unfold soft. rewrite map_length, combine_length. reflexivity. Qed.

Lemma nth_soft : forall m b i, (i < length m)%nat -> (i < length b)%nat ->
  nth i (soft m b) 0 = if nth i b false then nth i m 0 else - nth i m 0.
Proof. induction m as [|x m IH]; intros [|y b] i Hm Hb; cbn [length] in *; try lia.
  destruct i as [|i]; [reflexivity|]. rewrite soft_cons. cbn [nth]. apply IH; lia. Qed.

Lemma soft_skipn : forall n m b, skipn n (soft m b) = soft (skipn n m) (skipn n b).
Proof. induction n as [|n IH]; intros m b; [reflexivity|].
  destruct m as [|x m]; [rewrite soft_nil_l; reflexivity|].
  destruct b as [|y b]; [rewrite soft_nil_r; cbn [skipn]; rewrite soft_nil_r; reflexivity|].
  rewrite soft_cons. cbn [skipn]. apply IH. Qed.

Lemma soft_firstn : forall n m b, firstn n (soft m b) = soft (firstn n m) (firstn n b).
Proof. induction n as [|n IH]; intros m b; [reflexivity|].
  destruct m as [|x m]; [reflexivity|].
  destruct b as [|y b]; [rewrite soft_nil_r; cbn [firstn]; rewrite soft_nil_r; reflexivity|].
  rewrite soft_cons. cbn [firstn]. rewrite soft_cons. f_equal. apply IH. Qed.

(** only as many bits as there are magnitudes matter *)
Lemma soft_firstn_r : forall m b, soft m (firstn (length m) b) = soft m b.
Proof. induction m as [|x m IH]; intros b; [reflexivity|].
  destruct b as [|y b]; [reflexivity|]. cbn [length firstn]. rewrite !soft_cons, IH. reflexivity. Qed.

(** hard decisions of a soft vector with positive magnitudes are the bits *)
Lemma hard_soft : forall m b, Forall (fun x => 1 <= x) m -> (length b <= length m)%nat ->
  map (fun x => Z.ltb 0 x) (soft m b) = b.
Proof. induction m as [|x m IH]; intros [|y b] F L; cbn [length] in L; try lia; try reflexivity.
  rewrite soft_cons. cbn [map]. inversion F as [|? ? Hx Fm]; subst. rewrite IH by (assumption || lia).
    f_equal. destruct y; [apply Z.ltb_lt | apply Z.ltb_ge]; lia. Qed.

Lemma list_as_map_nth {A} (d : A) : forall l, l = map (fun j => nth j l d) (seq 0 (length l)).
Proof. induction l as [|x l IH]; [reflexivity|]. cbn [length seq map nth]. f_equal.
  rewrite <- seq_shift, map_map. exact IH. Qed.

(* ------------------------------------------------------------------ (A) de-randomizer *)
Lemma dc_bytes_is_spec : dc_bytes = dc_spec. Proof. reflexivity. Qed.

Lemma derand_generic : forall m x d, length m = length x -> length x = length d ->
  Forall (fun v => 1 <= v <= 127) m ->
  zip_with (fun v s => wrap8 (v * s)) (soft m (xor_bits x d)) (map (fun b : bool => if b then -1 else 1) d) = soft m x.
Proof. induction m as [|v m IH]; intros [|y x] [|e d] L1 L2 F; cbn [length] in *; try lia; [reflexivity|].
  inversion F as [|? ? Hv Fm]; subst.
  unfold xor_bits. cbn [combine map fst snd]. fold (xor_bits x d). rewrite !soft_cons.
  unfold zip_with. cbn [combine map fst snd]. fold (zip_with (fun v s => wrap8 (v * s)) (soft m (xor_bits x d)) (map (fun b : bool => if b then -1 else 1) d)).
  rewrite IH by (assumption || lia). f_equal.
  unfold wrap8. destruct y, e; cbn [xorb].
  all: match goal with |- (?z + 128) mod 256 - 128 = ?w =>
         replace z with w by lia; rewrite Z.mod_small by lia; lia end. Qed.

Lemma rt_derandomize m x : length m = 368%nat -> length x = 368%nat -> Forall (fun v => 1 <= v <= 127) m ->
  derandomize_soft (soft m (spec_randomize x)) = soft m x.
Proof. intros Lm Lx F. unfold derandomize_soft, spec_randomize. rewrite dc_soft_is_spec, dc_bytes_is_spec.
  fold dc_bits. apply derand_generic; [lia | rewrite dc_bits_length; exact Lx | exact F]. Qed.

(* ------------------------------------------------------------------ (B) de-interleaver *)
(** the specification's inverse table inverts the decoder's index(): computed over the 368 positions *)
Lemma pi_inverse_sweep :
  forallb (fun j => Nat.eqb (nth (il_index j) pi_inverse_table 0%nat) j) (seq 0 368) = true.
Proof. vm_cast_no_check (eq_refl true). Qed.

Lemma pi_inverse_at j : (j < 368)%nat -> nth (il_index j) pi_inverse_table 0%nat = j.
Proof. intros H. pose proof (proj1 (forallb_forall _ _) pi_inverse_sweep j) as S.
  apply Nat.eqb_eq. apply S. apply in_seq. lia. Qed.

Lemma pi_inverse_table_length : length pi_inverse_table = 368%nat.
Proof. unfold pi_inverse_table. rewrite map_length, seq_length. reflexivity. Qed.

Lemma il_index_lt j : (il_index j < 368)%nat.
Proof. exact (il_index_bound j). Qed.

Lemma spec_interleave_length y : length (spec_interleave y) = 368%nat.
Proof. unfold spec_interleave. rewrite map_length. exact pi_inverse_table_length. Qed.

Lemma nth_spec_interleave y j : (j < 368)%nat -> nth (il_index j) (spec_interleave y) false = nth j y false.
Proof. intros H. unfold spec_interleave.
  rewrite (nth_indep _ false (nth 0%nat y false)) by (rewrite map_length, pi_inverse_table_length; apply il_index_lt).
  rewrite (map_nth (fun i => nth i y false) pi_inverse_table 0%nat). rewrite pi_inverse_at by exact H. reflexivity. Qed.

Lemma rt_deinterleave m y : length m = 368%nat -> length y = 368%nat ->
  deinterleave 0 (soft m (spec_interleave y)) = soft (deinterleave 0 m) y.
Proof. intros Lm Ly. rewrite !deinterleave_map_lemma.
  pose proof (list_as_map_nth false y) as E. rewrite Ly in E.
  transitivity (soft (map (fun i => nth (il_index i) m 0) (seq 0 368)) (map (fun j => nth j y false) (seq 0 368)));
    [| f_equal; symmetry; exact E]. clear E.
  unfold soft at 2. rewrite combine_map, map_map.
  assert (C : forall n, combine (seq 0 n) (seq 0 n) = map (fun j => (j, j)) (seq 0 n)).
  { intros n. generalize 0%nat. induction n as [|n IH]; intros s; [reflexivity|]. cbn [seq combine map]. rewrite IH. reflexivity. }
  rewrite C, map_map. apply map_ext_in. intros j Hj. apply in_seq in Hj. cbn [fst snd]. unfold soft1. cbn [fst snd].
  rewrite nth_soft by (rewrite ?spec_interleave_length, ?Lm; apply il_index_lt).
  rewrite nth_spec_interleave by lia. reflexivity. Qed.

(** the de-interleaved magnitude vector is a rearrangement: same bounds *)
Lemma deinterleave_Forall (P : Z -> Prop) m : length m = 368%nat -> Forall P m -> Forall P (deinterleave 0 m).
Proof. intros Lm F. rewrite deinterleave_map_lemma. apply Forall_forall. intros x Hx.
  apply in_map_iff in Hx. destruct Hx as (j & <- & _).
  apply (proj1 (Forall_forall P m) F). apply nth_In. rewrite Lm. apply il_index_lt. Qed.

Lemma spec_randomize_length x : length x = 368%nat -> length (spec_randomize x) = 368%nat.
Proof. intros L. unfold spec_randomize, xor_bits. rewrite map_length, combine_length, L.
  rewrite dc_bytes_is_spec. fold dc_bits. rewrite dc_bits_length. reflexivity. Qed.

(** both stages: the decoder's front end applied to a specification frame *)
Lemma rt_front m y : length m = 368%nat -> length y = 368%nat -> Forall (fun v => 1 <= v <= 7) m ->
  deinterleave 0 (derandomize_soft (soft m (spec_finish y))) = soft (deinterleave 0 m) y /\
  length (deinterleave 0 m) = 368%nat /\ Forall (fun v => 1 <= v <= 7) (deinterleave 0 m) /\
  (Forall (fun v => v = 7) m -> Forall (fun v => v = 7) (deinterleave 0 m)).
Proof. intros Lm Ly F. unfold spec_finish.
  rewrite rt_derandomize; [| exact Lm | apply spec_interleave_length |
    eapply Forall_impl; [|exact F]; cbv beta; intros; lia].
  rewrite rt_deinterleave by assumption. split; [reflexivity|]. split; [apply deinterleave_length_lemma|].
  split; [apply deinterleave_Forall; assumption|]. intros F7. apply deinterleave_Forall; assumption. Qed.
