(** C03 — demodulator tracking in steady reception (PARTIAL).
    Theorems about the CONTROL LOGIC of M17Demodulator::operator() as modelled in ImplDemodCtl.v (step function over the
    discrete members, one observation record per input sample).  They hold for EVERY observation sequence satisfying
    the stated hypotheses; that the floating-point blocks (matched filter, correlator thresholds, Kalman clock,
    deviation/offset estimators) deliver such observations for the channel envelope is NOT proved — it is tested
    end to end by tools/props/c03.py.  The model is tied to the code by per-sample trace inclusion (same check). *)
From Coq Require Import ZArith Bool List.
From M17 Require Import ConstsDemod ImplDemodCtl SpecDemodCtl LemmasDemodCtl_Base LemmasDemodCtl_WF LemmasDemodCtl_Track.
From M17 Require Import SpecDSP ConstsTaps LemmasDSP_Taps LemmasEye.
Import ListNotations.
Local Open Scope Z_scope.

(** 1. No frame is dropped, duplicated or shifted by the control logic.
    From a frame boundary ([boundary]: STREAM_SYNC, sync_count = 0, framer empty, the last payload symbol just sampled,
    carrier flags on, missing_sync_count <= 1), along ANY observation sequence [os] such that ([track_good_run]), sample by sample,
      - the carrier detector's level stays above ltrigger at every poll,
      - inside the search window (sync_count >= MIN_SYNC_COUNT) no EOT marker is reported and, when the window closes
        (sync_count would exceed MAX_SYNC_COUNT), EITHER lsf_sync reports the stream sync word (updated() < 0) on that sample
        OR the previous Viterbi cost is below STREAM_COST_LIMIT (coasting),
      - each free-running clock update moves sample_index by at most one position (mod 10) and not on two consecutive samples,
      - the frame decoder stays in stream reception (state STREAM or LSF),
    the per-sample event lists are accepted by the framing monitor [mon_run] — i.e. in every period the decoder is invoked
    exactly once, with sync type STREAM, exactly when the 184th symbol has been pushed into the framer, the first of these
    symbols having been sampled exactly (8+1)*10 samples after the last payload symbol of the previous frame and every later
    one 9..11 samples after its predecessor (so the 184 symbols are those of the period's payload: nothing skipped, nothing
    taken twice, no shift by a symbol) — the next symbol is never overdue ([mon_bounded]); demodState is never UNLOCKED,
    missing_sync_count stays in 0..1, dcd_ stays true, and every later state with demodState = STREAM_SYNC and sync_count = 0
    is again a frame boundary (so the statement re-applies period after period, for transmissions of any length). *)
Theorem c03_tracking_one_decode_per_frame : forall (s : st) (os : list obs),
  boundary s = true -> track_good_run false s os ->
  (exists m', mon_run mon0 (events s os) = Some m' /\ mon_bounded m') /\
  Forall (fun s' => ds s' <> UNLOCKED /\ 0 <= missing s' <= 1 /\ dcd_ s' = true /\
                    (ds s' = STREAM_SYNC -> sync_count s' = 0 -> boundary s' = true)) (states s os).
Proof. exact tracking_lemma. Qed.
Print Assumptions c03_tracking_one_decode_per_frame.

(** 2. The EOT path.  (a) Inside the search window an EOT marker sends the demodulator into one more frame with the
    (process-wide) eot flag set; (b) with the flag set, a window that closes without sync word while the Viterbi cost of the
    last frame is at or above STREAM_COST_LIMIT ends the stream: demodState = UNLOCKED and dcd.unlock() is called.
    (If that cost is BELOW the limit the coasting branch is taken instead: see docs/notes/C03.md — this is the behaviour of
    the code, and the reason for finding `deaf-coasting-on-garbage` of C06.) *)
Theorem c03_eot_ends_stream :
  (forall (s : st) (o : obs),
     init_left s = 0 -> dcd_ s = true -> dcd_trig s = true -> o_lvl_lo o = true ->
     ds s = STREAM_SYNC -> MIN_SYNC_COUNT <= sync_count s + 1 -> o_eot_trig o = true ->
     let s' := fst (step s o) in
     ds s' = FRAME /\ eot_flag s' = true /\ swt s' = SW_STREAM /\ missing s' = 0 /\ dcd_ s' = true) /\
  (forall (s : st) (o : obs),
     init_left s = 0 -> dcd_ s = true ->
     ds s = STREAM_SYNC -> sync_count s = MAX_SYNC_COUNT -> eot_flag s = true ->
     o_eot_trig o = false -> 0 <= o_lsf_upd o -> STREAM_COST_LIMIT <= cost s ->
     ds (fst (step s o)) = UNLOCKED /\ In EvDcdUnlock (snd (step s o)) /\ eot_flag (fst (step s o)) = false).
Proof. split; [exact eot_detect_lemma | exact eot_end_lemma]. Qed.
Print Assumptions c03_eot_ends_stream.

(** 3. The range invariant of the discrete state (sample_index, sync_sample_index in 0..9; correlator position in 0..79; framer index
    even and below 368; counters non-negative) holds after every sample of every run from the freshly constructed demodulator,
    PROVIDED the float-derived indices (sync-word timing indices, clock-recovery sample index) are in 0..9.  (This proviso is the
    "float indices conditional" part of C07.) *)
Theorem c03_wf_invariant : forall (os : list obs),
  Forall (fun o => obs_in_range o = true) os ->
  wf_st (final st_init os) = true /\ Forall (fun s' => wf_st s' = true) (states st_init os).
Proof. intros os H. apply wf_invariant_lemma; [reflexivity | exact H]. Qed.
Print Assumptions c03_wf_invariant.

(** 4. Structural consistency read from the source on every run: the soft-decision width of the demapper call in do_frame()
    (llr<FloatType, N>) equals the width the frame decoder's Viterbi decoder is instantiated with (its cost normalisation and
    the cost limits of the coasting logic assume it), the framer collects exactly one frame decoder input (368 soft bits = 184 symbols),
    the symbol polarity is +1, and the free-running clock hand-over happens half a symbol away from the sampling instant. *)
Theorem c03_structural_constants :
  LLR_WIDTH = VITERBI_LLR_WIDTH /\ FRAMER_BITS = 368 /\ PAYLOAD_SYMBOLS = 184 /\ POLARITY = 1 /\
  FAR_POINT * 2 = SAMPLES_PER_SYMBOL /\ CORR_SPS = SAMPLES_PER_SYMBOL /\ CORR_BUFFER = SYNC_SYMBOLS * SAMPLES_PER_SYMBOL.
Proof. exact structural_constants_lemma. Qed.
Print Assumptions c03_structural_constants.

(** Non-vacuity: concrete observation sequences satisfying the hypotheses of theorem 1. *)

(** a frame boundary, sampling index 3, previous cost 10 *)
Definition ex_boundary : st :=
  mkst 0 false 17 STREAM_SYNC SW_STREAM 3 true false false 0 0 3 4 3 0 10 3 5 true D_STREAM.
(** nothing detected, carrier present, clock holds the index, decoder in STREAM with cost 10 *)
Definition ex_quiet : obs := mkobs 0 0 0 0 0 0 false 0 false false 3 3 D_STREAM 10 true true.
(** the stream sync word reported (updated() = -1, timing index 3) *)
Definition ex_found : obs := mkobs 0 0 3 (-1) 0 0 false 0 false false 3 3 D_STREAM 10 true true.
(** a free-running clock update that moves the index from 3 to 4 *)
Definition ex_clk4 : obs := mkobs 0 0 0 0 0 0 false 0 false false 4 4 D_STREAM 10 true true.
Definition ex_quiet4 : obs := mkobs 0 0 0 0 0 0 false 0 false false 4 4 D_STREAM 10 true true.

(** three periods in which the sync word is never seen but the cost (10) is below the limit: coasting *)
Definition ex_run_coast : list obs := repeat ex_quiet (3 * 1920).
(** a period with the sync word found at sample 80, then a period in which the clock moves the index by +1 at the first far
    point (sample 95 of that period: index 3 + 5), the sync word again found 80 samples after the boundary *)
Definition ex_run_found : list obs :=
  repeat ex_quiet 79 ++ [ex_found] ++ repeat ex_quiet (1920 - 80) ++
  repeat ex_quiet 79 ++ [ex_found] ++ repeat ex_quiet 14 ++ [ex_clk4] ++ repeat ex_quiet4 (1921 - 95).

Definition count_decodes (evs : list (list event)) : nat := length (flat_map decodes evs).

(** 5. eye opening (uses the RRC table theorem of C19): for each transmit x receive tap-table pair of the repository, in exact
       arithmetic, the matched-filter output at the ideal sampling instant - main cascade tap times the current symbol plus the
       symbol-spaced side taps times ANY past and future symbols in {-3..3} - deviates from (main tap x symbol) by less than
       6 % of the main tap: after exact gain normalisation the sample is within 0.06 of the transmitted level. *)
Theorem c03_eye_open :
  forall (s : Z) (a : nat -> Z), (forall i, Z.abs (a i) <= 3) ->
  100 * Z.abs (eye_sample samples_per_symbol (74 + 74) casc_mod_double s a - nth (74 + 74) casc_mod_double 0 * s) < 6 * nth (74 + 74) casc_mod_double 0 /\
  100 * Z.abs (eye_sample samples_per_symbol (74 + 74) casc_mod_float s a - nth (74 + 74) casc_mod_float 0 * s) < 6 * nth (74 + 74) casc_mod_float 0 /\
  100 * Z.abs (eye_sample samples_per_symbol (39 + 74) casc_modulator_double s a - nth (39 + 74) casc_modulator_double 0 * s) < 6 * nth (39 + 74) casc_modulator_double 0 /\
  100 * Z.abs (eye_sample samples_per_symbol (39 + 74) casc_modulator_float s a - nth (39 + 74) casc_modulator_float 0 * s) < 6 * nth (39 + 74) casc_modulator_float 0.
Proof. exact eye_open_repo. Qed.
Print Assumptions c03_eye_open.

(** ... hence, for a transmitted level s in {+3,+1,-1,-3}, the normalised sample lies on s's side of every decision boundary
       (0, +-2) with a margin of 0.94 - the soft demapper (C12) then yields the Gray dibit of s, and by the clean round trip (C01)
       the frame decodes bit-exact.  (Stated for any cascade satisfying the Nyquist bound; C19 proves it for the four pairs.) *)
Theorem c03_eye_decision : forall (sps p : nat) (c : list Z), nyquist_holds sps p c ->
  forall (s : Z) (a : nat -> Z), In s [3; 1; -1; -3] -> (forall i, Z.abs (a i) <= 3) ->
  let y := eye_sample sps p c s a in let m := nth p c 0 in
  (s = 3 -> 100 * y > 294 * m) /\ (s = 1 -> 6 * m < 100 * y < 106 * m) /\
  (s = -1 -> - 106 * m < 100 * y < - 6 * m) /\ (s = -3 -> 100 * y < - 294 * m).
Proof. exact eye_decision_gen. Qed.
Print Assumptions c03_eye_decision.

Example c03_hypotheses_satisfiable_coasting :
  boundary ex_boundary = true /\ track_good_run false ex_boundary ex_run_coast /\
  count_decodes (events ex_boundary ex_run_coast) = 3%nat /\ boundary (final ex_boundary ex_run_coast) = true.
Proof.
  split; [reflexivity|]. split; [apply track_good_runb_ok; vm_compute; reflexivity|].
  split; vm_compute; reflexivity.
Qed.
Example c03_hypotheses_satisfiable_sync_found :
  track_good_run false ex_boundary ex_run_found /\
  count_decodes (events ex_boundary ex_run_found) = 2%nat /\ boundary (final ex_boundary ex_run_found) = true /\
  sample_index (final ex_boundary ex_run_found) = 4.
Proof.
  split; [apply track_good_runb_ok; vm_compute; reflexivity|]. repeat split; vm_compute; reflexivity.
Qed.
(** the hypothesis matters: if the window closes without sync word while the previous cost is high, the run is not covered
    (and the state machine indeed counts a missing sync) *)
Example c03_not_covered_when_cost_high :
  track_good_runb false (set_cost 200 ex_boundary) (repeat ex_quiet 87) = false /\
  missing (final (set_cost 200 ex_boundary) (repeat ex_quiet 87)) = 1.
Proof. split; vm_compute; reflexivity. Qed.
