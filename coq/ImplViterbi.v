(** ImplViterbi — Gallina mirror of include/m17cxx/Viterbi.h (makeNextState, makePrevState, makeCost,
    Viterbi::calculate_path_metric, Viterbi::decode) with Convolution.h (convolve_bit, update_memory) and
    Util.h (to_int, llr_limit), for the trellis the frame decoder instantiates (ConstsViterbi: K, k, n,
    polynomials regenerated from the source on every run).  Parametric in the LLR width [W] (LLR_), in IN and OUT.

    Conventions: states / array indices are [nat]; soft bits, costs and metrics are [Z] (no wrap-around is written
    here: [c02_no_wrap] proves every int16/int32 intermediate stays in range for int8 inputs and IN/2 <= 244, so the
    C++ arithmetic is the arithmetic of Z); a std::bitset<16> of decisions is an [N]; std::array buffers are lists.
    Everything the C++ object keeps between calls (history_, prevMetrics, currMetrics) and the caller's output buffer
    are explicit inputs, so that "the result does not depend on leftovers" is a statement about this model.

    The three comparisons that break ties ([m0 > m2], [m1 > m3], [prevMetrics[i] < min_cost]) are written through
    [gt_tb]/[lt_tb] with a [tiebreak] parameter; [source_tiebreak] (all false) is literally the source's strict
    [>]/[<].  The optimality theorems are proved for every tiebreak, the exported [decode] is the source's.

    No proofs in this file. *)
From Coq Require Import NArith ZArith List Bool Arith.
From M17 Require Import ConstsViterbi.
Import ListNotations.
Local Open Scope Z_scope.

(** * array helpers *)
Fixpoint upd {A} (l : list A) (i : nat) (x : A) : list A :=
  match l, i with
  | [], _ => []
  | _ :: t, O => x :: t
  | h :: t, S i' => h :: upd t i' x
  end.

Definition set2 {A} (t : list (list A)) (i j : nat) (x : A) : list (list A) := upd t i (upd (nth i t []) j x).

(** * Convolution.h *)
Fixpoint popcount_pos (p : positive) : N :=
  match p with xH => 1%N | xO q => popcount_pos q | xI q => N.succ (popcount_pos q) end.
Definition popcount (x : N) : N := match x with N0 => 0%N | Npos p => popcount_pos p end.

(* return std::popcount(poly & memory) & 1; *)
Definition convolve_bit (poly memory : N) : N := N.land (popcount (N.land poly memory)) 1.

(* return (memory << k | input) & ((1 << (K + 1)) - 1);   (values stay far below 2^32) *)
Definition update_memory (K k : nat) (memory input : N) : N :=
  N.land (N.lor (N.shiftl memory (N.of_nat k)) input) (N.shiftl 1 (N.of_nat (K + 1)) - 1)%N.

(** * Util.h *)
(* llr_limit<N>() = (1 << (N - 1)) - 1 *)
Definition llr_limit (n : nat) : Z := Z.shiftl 1 (Z.of_nat (n - 1)) - 1.

Definition wrap8 (x : Z) : Z := (x + 128) mod 256 - 128.      (* conversion to int8_t *)
Definition u32 (x : Z) : Z := x mod 4294967296.                (* uint32_t arithmetic *)

(* template <typename T = int8_t, size_t n> constexpr T to_int(uint8_t v) *)
Definition to_int8 (n : nat) (v : N) : Z :=
  let max_local_input := Z.shiftl 1 (Z.of_nat (n - 1)) in
  let negative_offset := 255 - (max_local_input - 1) in
  let r := if (N.land v (N.shiftl 1 (N.of_nat (n - 1))) =? 0)%N then 0 else wrap8 negative_offset in
  wrap8 (r + Z.of_N (N.land v (Z.to_N (max_local_input - 1)))).

(** * the compile-time tables *)
Definition NumStates : nat := 2 ^ vit_K.
Definition HalfStates : nat := NumStates / 2.
Definition InputValues : nat := 2 ^ vit_k.

(* result[i][j] = static_cast<uint8_t>(update_memory<K,k>(i, j) & ((1 << K) - 1)) *)
Definition makeNextState : list (list nat) :=
  map (fun i => map (fun j =>
         N.to_nat (N.land (N.land (update_memory vit_K vit_k (N.of_nat i) (N.of_nat j))
                                  (N.shiftl 1 (N.of_nat vit_K) - 1)%N) 255))
       (seq 0 InputValues)) (seq 0 NumStates).

(* for i: k = i >= HalfStates; for j: l = update_memory(i, j) & (NumStates - 1); result[l][k] = i; *)
Definition makePrevState : list (list nat) :=
  fold_left (fun res i =>
      let k := if (HalfStates <=? i)%nat then 1%nat else 0%nat in
      fold_left (fun res j =>
          let l := N.to_nat (N.land (update_memory vit_K vit_k (N.of_nat i) (N.of_nat j)) (N.of_nat (NumStates - 1))) in
          set2 res l k (i mod 256)%nat)
        (seq 0 InputValues) res)
    (seq 0 NumStates) (repeat (repeat 0%nat 2) NumStates).

(* bit = convolve_bit(polynomials[j], i << 1);
   result[i][j] = to_int<int8_t, LLR>(((bit << 1) - 1) * ((1 << (LLR - 1)) - 1));     (uint32 arithmetic, uint8 argument) *)
Definition cost_entry (W : nat) (poly : N) (i : nat) : Z :=
  let bit := Z.of_N (convolve_bit poly (N.shiftl (N.of_nat i) 1)) in
  let v := u32 (u32 (Z.shiftl bit 1 - 1) * u32 (Z.shiftl 1 (Z.of_nat (W - 1)) - 1)) in
  to_int8 W (Z.to_N (v mod 256)).

Definition makeCost (W : nat) : list (list Z) :=
  map (fun i => map (fun j => cost_entry W (nth j vit_polys 0%N) i) (seq 0 vit_n)) (seq 0 NumStates).

(** * the object state that survives a call, and tie-breaking *)
Record scratch := { sc_hist : list N;      (* history_ : vit_history_size bitsets *)
                    sc_prev : list Z;      (* prevMetrics *)
                    sc_curr : list Z }.    (* currMetrics *)

Record tiebreak := { tb_d0 : bool; tb_d1 : bool; tb_scan : bool; tb_start : nat }.
(* strict comparisons everywhere; the end-state scan starts from the state the source names (regenerated: vit_scan_start) *)
Definition source_tiebreak : tiebreak := {| tb_d0 := false; tb_d1 := false; tb_scan := false; tb_start := ConstsViterbi.vit_scan_start |}.
Definition gt_tb (t : bool) (a b : Z) : bool := if t then a >=? b else a >? b.
Definition lt_tb (t : bool) (a b : Z) : bool := if t then a <=? b else a <? b.

(* std::bitset::set(i, d) and operator[] *)
Definition set_bit (h : N) (i : nat) (d : bool) : N :=
  if d then N.setbit h (N.of_nat i) else N.clearbit h (N.of_nat i).
Definition get_bit (h : N) (i : nat) : bool := N.testbit h (N.of_nat i).

(** * calculate_path_metric *)
Definition bf_m0 (prev cost0 cost1 : list Z) (j : nat) : Z := nth j prev 0 + nth j cost0 0.                 (* p0 + c0 *)
Definition bf_m1 (prev cost0 cost1 : list Z) (j : nat) : Z := nth j prev 0 + nth j cost1 0.                 (* p0 + c1 *)
Definition bf_m2 (prev cost0 cost1 : list Z) (j : nat) : Z := nth (j + NumStates / 2) prev 0 + nth j cost1 0.  (* p1 + c1 *)
Definition bf_m3 (prev cost0 cost1 : list Z) (j : nat) : Z := nth (j + NumStates / 2) prev 0 + nth j cost0 0.  (* p1 + c0 *)

Definition calculate_path_metric (tb : tiebreak) (nextState : list (list nat)) (prev cost0 cost1 : list Z)
    (hc : N * list Z) (j : nat) : N * list Z :=
  let i0 := nth 0 (nth j nextState []) 0%nat in
  let i1 := nth 1 (nth j nextState []) 0%nat in
  let m0 := bf_m0 prev cost0 cost1 j in
  let m1 := bf_m1 prev cost0 cost1 j in
  let m2 := bf_m2 prev cost0 cost1 j in
  let m3 := bf_m3 prev cost0 cost1 j in
  let d0 := gt_tb (tb_d0 tb) m0 m2 in
  let d1 := gt_tb (tb_d1 tb) m1 m3 in
  let hist := set_bit (set_bit (fst hc) i0 d0) i1 d1 in
  let curr := upd (upd (snd hc) i0 (if d0 then m2 else m0)) i1 (if d1 then m3 else m1) in
  (hist, curr).

(** * one iteration of the loop over the input pairs *)
(* cost0.fill(0); cost1.fill(0); if (s0) {cost0[j] = |cost_[j][0] - s0|; cost1[j] = |cost_[j][0] + s0|;}
   if (s1) {cost0[j] += |cost_[j][1] - s1|; cost1[j] += |cost_[j][1] + s1|;} *)
Definition branch_cost0 (cost : list (list Z)) (s0 s1 : Z) (j : nat) : Z :=
  let c := 0 in
  let c := if s0 =? 0 then c else Z.abs (nth 0 (nth j cost []) 0 - s0) in
  if s1 =? 0 then c else c + Z.abs (nth 1 (nth j cost []) 0 - s1).
Definition branch_cost1 (cost : list (list Z)) (s0 s1 : Z) (j : nat) : Z :=
  let c := 0 in
  let c := if s0 =? 0 then c else Z.abs (nth 0 (nth j cost []) 0 + s0) in
  if s1 =? 0 then c else c + Z.abs (nth 1 (nth j cost []) 0 + s1).

Definition vit_step (tb : tiebreak) (cost : list (list Z)) (nextState : list (list nat))
    (st : scratch) (hindex : nat) (s0 s1 : Z) : scratch :=
  let cost0 := map (branch_cost0 cost s0 s1) (seq 0 HalfStates) in
  let cost1 := map (branch_cost1 cost s0 s1) (seq 0 HalfStates) in
  let hc := fold_left (calculate_path_metric tb nextState (sc_prev st) cost0 cost1) (seq 0 HalfStates)
                      (nth hindex (sc_hist st) 0%N, sc_curr st) in
  (* history_[hindex] updated in place; std::swap(currMetrics, prevMetrics) *)
  {| sc_hist := upd (sc_hist st) hindex (fst hc); sc_prev := snd hc; sc_curr := sc_prev st |}.

Definition MAX_METRIC : Z := (2 ^ (Z.of_nat vit_metric_bits - 1) - 1) / vit_max_metric_div.

(* prevMetrics.fill(MAX_METRIC); prevMetrics[0] = 0; *)
Definition vit_init (sc : scratch) : scratch :=
  {| sc_hist := sc_hist sc; sc_prev := upd (repeat MAX_METRIC NumStates) 0 0; sc_curr := sc_curr sc |}.

(** the members the constructor computes once (cost_, nextState_, prevState_) and llr_limit<LLR_>() *)
Record tables := { t_cost : list (list Z); t_next : list (list nat); t_prev : list (list nat); t_limit : Z }.
Definition make_tables (W : nat) : tables :=
  {| t_cost := makeCost W; t_next := makeNextState; t_prev := makePrevState; t_limit := llr_limit W |}.

(* the state after the first [n] iterations of  for (i = 0; i != IN; i += 2, hindex += 1) *)
Definition vit_forward_t (T : tables) (tb : tiebreak) (sc : scratch) (r : list Z) (n : nat) : scratch :=
  fold_left (fun st t => vit_step tb (t_cost T) (t_next T) st t (nth (2 * t) r 0) (nth (2 * t + 1) r 0)) (seq 0 n) (vit_init sc).
Definition vit_forward (tb : tiebreak) (W : nat) (sc : scratch) (r : list Z) (n : nat) : scratch :=
  vit_forward_t (make_tables W) tb sc r n.

(* min_element = s0; min_cost = prevMetrics[s0] (s0 = tb_start, 0 in the source); for i: if (prevMetrics[i] < min_cost) {min_cost = ..; min_element = i;} *)
Definition scan_min (tb : tiebreak) (prev : list Z) : nat * Z :=
  fold_left (fun (acc : nat * Z) i => if lt_tb (tb_scan tb) (nth i prev 0) (snd acc) then (i, nth i prev 0) else acc)
            (seq 0 NumStates) ((tb_start tb mod NumStates)%nat, nth (tb_start tb mod NumStates) prev 0).

(* size_t cost = std::round(min_cost / float(llr_limit)): nearest integer (0 <= min_cost < 2^24 is exact in float, and
   as the limit is odd a tie at .5 cannot occur); modelled as integer arithmetic, not as IEEE operations *)
Definition round_div (m L : Z) : Z := (2 * m + L) / (2 * L).

(* while (oit != rend(out) && hit != hrend) { v = hit[0][next_element]; ++hit; if (index-- <= OUT) { oit[0] = next_element & 1; ++oit; }
                                              next_element = prevState_[next_element][v]; }
   [orem] = number of output slots oit has not passed (oit points at out[orem-1]), [t] likewise for hit *)
Fixpoint chainback (fuel : nat) (hist : list N) (prevState : list (list nat)) (OUT : nat)
    (orem t index next : nat) (out : list N) : list N :=
  match fuel with
  | O => out
  | S f =>
    if (orem =? 0)%nat || (t =? 0)%nat then out else
    let v := get_bit (nth (t - 1) hist 0%N) next in
    let w := (index <=? OUT)%nat in
    let out' := if w then upd out (orem - 1) (N.of_nat (next mod 2)) else out in
    let orem' := if w then (orem - 1)%nat else orem in
    chainback f hist prevState OUT orem' (t - 1) (index - 1)
              (nth (if v then 1 else 0)%nat (nth next prevState []) 0%nat) out'
  end.

(** * decode<IN, OUT>(in, out): returns ((out, cost), object state afterwards) *)
Definition decode_t (T : tables) (tb : tiebreak) (IN OUT : nat) (sc : scratch) (out0 : list N) (r : list Z)
    : (list N * Z) * scratch :=
  let st := vit_forward_t T tb sc r (IN / 2) in
  let me := scan_min tb (sc_prev st) in
  let cost := round_div (snd me) (t_limit T) in
  let out := chainback (IN / 2) (sc_hist st) (t_prev T) OUT OUT (IN / 2) (IN / 2) (fst me) out0 in
  ((out, cost), st).

Definition decode_gen (tb : tiebreak) (W IN OUT : nat) (sc : scratch) (out0 : list N) (r : list Z)
    : (list N * Z) * scratch :=
  decode_t (make_tables W) tb IN OUT sc out0 r.

Definition decode := decode_gen source_tiebreak.

(** a freshly constructed object (all members value-initialised) and output buffer *)
Definition scratch0 : scratch :=
  {| sc_hist := repeat 0%N vit_history_size; sc_prev := repeat 0 NumStates; sc_curr := repeat 0 NumStates |}.

(** Exported for the frame-decoder model: the decoder as a function of the width, the geometry and the soft bits.
    [c02_decode_is_viterbi_decode]: this is what [decode] returns from ANY object state and output buffer. *)
Definition viterbi_decode (W IN OUT : nat) (r : list Z) : list N * Z :=
  fst (decode W IN OUT scratch0 (repeat 0%N OUT) r).

(** shape of the C++ objects (array sizes fixed by their types) *)
Definition wf_scratch (sc : scratch) : Prop :=
  length (sc_hist sc) = vit_history_size /\ length (sc_prev sc) = NumStates /\ length (sc_curr sc) = NumStates.

(** minimum path metric, for the no-overflow statement and the oracle *)
Definition min_metric (W IN : nat) (r : list Z) : Z :=
  snd (scan_min source_tiebreak (sc_prev (vit_forward source_tiebreak W scratch0 r (IN / 2)))).
