(** C12 — generic lemmas (no table, no format fixed):
    - [ord]: an order embedding of the valid non-NaN values of an IEEE format into Z (value / 2^emin, infinities beyond),
      with [SFcompare_ord]: on valid non-NaN arguments SFcompare is the comparison of the [ord]s (axiom-free counterpart
      of Flocq's Bcompare_correct);
    - [lower_bound_spec]: libstdc++'s bisection returns the partition point of a partitioned range;
    - [zidx]: partition point of a strictly increasing key list, monotone in the argument. *)
From Coq Require Import ZArith Lia List Bool Floats.SpecFloat.
From M17 Require Import ImplLLR.
Import ListNotations.
Open Scope Z_scope.

(** * digits *)
Lemma digits2_pos_size : forall m, digits2_pos m = Pos.size m.
Proof. induction m; simpl; congruence. Qed.

Lemma digits2_bounds : forall m, 2 ^ (Zpos (digits2_pos m) - 1) <= Zpos m < 2 ^ Zpos (digits2_pos m).
Proof.
  intro m. rewrite digits2_pos_size.
  pose proof (Pos.size_gt m) as Hgt. pose proof (Pos.size_le m) as Hle.
  assert (E : Zpos (2 ^ Pos.size m) = 2 ^ Zpos (Pos.size m)) by (rewrite Pos2Z.inj_pow; reflexivity).
  split.
  - assert (2 ^ Zpos (Pos.size m) <= 2 * Zpos m) by (rewrite <- E; lia).
    replace (Zpos (Pos.size m)) with (Z.succ (Zpos (Pos.size m) - 1)) in H by lia.
    rewrite Z.pow_succ_r in H by lia. lia.
  - rewrite <- E. lia.
Qed.

Section Ord.
  Variables prec emax : Z.
  Hypothesis Hprec : 0 < prec.
  Hypothesis Hemax : prec < emax.
  Let emin := SpecFloat.emin prec emax.

  Definition ord (x : spec_float) : Z :=
    match x with
    | S754_zero _ => 0
    | S754_nan => 0
    | S754_infinity s => cond_Zopp s (2 ^ (emax - emin))
    | S754_finite s m e => cond_Zopp s (Zpos m * 2 ^ (e - emin))
    end.

  Definition is_nan_sf (x : spec_float) : bool := match x with S754_nan => true | _ => false end.

  Lemma bounded_facts : forall m e, bounded prec emax m e = true ->
    emin <= e /\ e <= emax - prec /\ Zpos m < 2 ^ prec /\ (emin < e -> 2 ^ (prec - 1) <= Zpos m).
  Proof.
    intros m e H. unfold bounded, canonical_mantissa, fexp in H.
    apply andb_prop in H. destruct H as [H1 H2].
    apply Zeq_bool_eq in H1. apply Zle_bool_imp_le in H2.
    fold emin in H1. pose proof (digits2_bounds m) as [D1 D2].
    set (d := Zpos (digits2_pos m)) in *.
    assert (d <= prec) by lia.
    repeat split; try lia.
    - apply Z.lt_le_trans with (1 := D2). apply Z.pow_le_mono_r; lia.
    - intro He. assert (d = prec) by lia. subst d. rewrite <- H0. exact D1.
  Qed.

  Lemma pow_pos_emin : forall e, emin <= e -> 0 < 2 ^ (e - emin).
  Proof. intros. apply Z.pow_pos_nonneg; lia. Qed.

  Lemma finite_lt : forall m1 e1 m2 e2,
    bounded prec emax m1 e1 = true -> bounded prec emax m2 e2 = true -> e1 < e2 ->
    Zpos m1 * 2 ^ (e1 - emin) < Zpos m2 * 2 ^ (e2 - emin).
  Proof.
    intros m1 e1 m2 e2 B1 B2 He.
    destruct (bounded_facts _ _ B1) as (A1 & A2 & A3 & _).
    destruct (bounded_facts _ _ B2) as (C1 & C2 & _ & C4).
    specialize (C4 ltac:(lia)).
    pose proof (pow_pos_emin e1 A1) as P1.
    assert (E : 2 ^ prec = 2 ^ (prec - 1) * 2) by (rewrite Z.mul_comm, <- Z.pow_succ_r by lia; f_equal; lia).
    assert (L : 2 * 2 ^ (e1 - emin) <= 2 ^ (e2 - emin)).
    { rewrite <- Z.pow_succ_r by lia. apply Z.pow_le_mono_r; lia. }
    assert (0 < 2 ^ (prec - 1)) by (apply Z.pow_pos_nonneg; lia).
    apply Z.lt_le_trans with (2 ^ prec * 2 ^ (e1 - emin)).
    - apply Z.mul_lt_mono_pos_r; assumption.
    - rewrite E. rewrite <- Z.mul_assoc.
      apply Z.le_trans with (2 ^ (prec - 1) * 2 ^ (e2 - emin)).
      + apply Z.mul_le_mono_nonneg_l; lia.
      + apply Z.mul_le_mono_nonneg_r; [ | exact C4 ]. apply Z.pow_nonneg; lia.
  Qed.

  Lemma finite_below_inf : forall m e, bounded prec emax m e = true -> Zpos m * 2 ^ (e - emin) < 2 ^ (emax - emin).
  Proof.
    intros m e B. destruct (bounded_facts _ _ B) as (A1 & A2 & A3 & _).
    pose proof (pow_pos_emin e A1).
    apply Z.lt_le_trans with (2 ^ prec * 2 ^ (e - emin)).
    - apply Z.mul_lt_mono_pos_r; assumption.
    - rewrite <- Z.pow_add_r by lia. apply Z.pow_le_mono_r; lia.
  Qed.

  Lemma finite_pos : forall m e, bounded prec emax m e = true -> 0 < Zpos m * 2 ^ (e - emin).
  Proof.
    intros m e B. destruct (bounded_facts _ _ B) as (A1 & _).
    pose proof (pow_pos_emin e A1). lia.
  Qed.

  Lemma inf_pos : 0 < 2 ^ (emax - emin).
  Proof. apply Z.pow_pos_nonneg; unfold emin, SpecFloat.emin; lia. Qed.

  Lemma compare_opp_opp : forall a b, (- a ?= - b) = CompOpp (a ?= b).
  Proof. intros. rewrite Z.compare_opp. apply Z.compare_antisym. Qed.

  Theorem SFcompare_ord : forall x y,
    valid_binary prec emax x = true -> valid_binary prec emax y = true ->
    is_nan_sf x = false -> is_nan_sf y = false ->
    SFcompare x y = Some (ord x ?= ord y).
  Proof.
    intros x y Vx Vy Nx Ny.
    pose proof inf_pos as IP.
    assert (T : forall c a b, (c = Lt -> a < b) -> (c = Gt -> b < a) -> (c = Eq -> a = b) -> Some c = Some (a ?= b)).
    { intros c a b H1 H2 H3. f_equal. symmetry. destruct c;
        [apply Z.compare_eq_iff | apply Z.compare_lt_iff | apply Z.compare_gt_iff]; auto. }
    destruct x as [sx|sx| |sx mx ex]; destruct y as [sy|sy| |sy my ey]; try discriminate;
      cbn [SFcompare ord valid_binary is_nan_sf] in *.
    - (* zero, zero *) reflexivity.
    - (* zero, inf *) apply T; destruct sy; cbn [cond_Zopp]; intros; try discriminate; lia.
    - (* zero, finite *) pose proof (finite_pos _ _ Vy). apply T; destruct sy; cbn [cond_Zopp]; intros; try discriminate; lia.
    - (* inf, zero *) apply T; destruct sx; cbn [cond_Zopp]; intros; try discriminate; lia.
    - (* inf, inf *) apply T; destruct sx, sy; cbn [cond_Zopp]; intros; try discriminate; lia.
    - (* inf, finite *) pose proof (finite_below_inf _ _ Vy). pose proof (finite_pos _ _ Vy).
      apply T; destruct sx, sy; cbn [cond_Zopp]; intros; try discriminate; lia.
    - (* finite, zero *) pose proof (finite_pos _ _ Vx). apply T; destruct sx; cbn [cond_Zopp]; intros; try discriminate; lia.
    - (* finite, inf *) pose proof (finite_below_inf _ _ Vx). pose proof (finite_pos _ _ Vx).
      apply T; destruct sx, sy; cbn [cond_Zopp]; intros; try discriminate; lia.
    - (* finite, finite *)
      pose proof (finite_pos _ _ Vx). pose proof (finite_pos _ _ Vy).
      assert (K : (Zpos mx * 2 ^ (ex - emin) ?= Zpos my * 2 ^ (ey - emin)) =
                  match ex ?= ey with Lt => Lt | Gt => Gt | Eq => Pos.compare mx my end).
      { destruct (Z.compare_spec ex ey) as [E|L|G].
        - subst ey. destruct (bounded_facts _ _ Vx) as (A1 & _). pose proof (pow_pos_emin ex A1).
          rewrite <- (Zmult_compare_compat_r (Zpos mx) (Zpos my) _ (Z.lt_gt _ _ H1)). reflexivity.
        - apply Z.compare_lt_iff. apply finite_lt; assumption.
        - apply Z.compare_gt_iff. apply finite_lt; assumption. }
      f_equal. destruct sx, sy; cbn [cond_Zopp].
      + rewrite compare_opp_opp, K. destruct (ex ?= ey); reflexivity.
      + symmetry. apply Z.compare_lt_iff. lia.
      + symmetry. apply Z.compare_gt_iff. lia.
      + rewrite K. destruct (ex ?= ey); reflexivity.
  Qed.

  Corollary SFltb_ord : forall x y,
    valid_binary prec emax x = true -> valid_binary prec emax y = true ->
    is_nan_sf x = false -> is_nan_sf y = false ->
    SFltb x y = (ord x <? ord y).
  Proof.
    intros. unfold SFltb. rewrite SFcompare_ord by assumption. unfold Z.ltb. destruct (ord x ?= ord y); reflexivity.
  Qed.

  (** IEEE "x <= y" (ordered, hence neither is NaN) *)
  Definition sf_le (x y : spec_float) : Prop := SFcompare x y = Some Lt \/ SFcompare x y = Some Eq.

  Lemma sf_le_ord : forall x y,
    valid_binary prec emax x = true -> valid_binary prec emax y = true -> sf_le x y ->
    is_nan_sf x = false /\ is_nan_sf y = false /\ ord x <= ord y.
  Proof.
    intros x y Vx Vy H.
    assert (Nx : is_nan_sf x = false) by (destruct x; try reflexivity; destruct H; discriminate).
    assert (Ny : is_nan_sf y = false) by (destruct y; try reflexivity; destruct x; destruct H; discriminate).
    split; [exact Nx|]. split; [exact Ny|].
    unfold sf_le in H. rewrite (SFcompare_ord x y Vx Vy Nx Ny) in H.
    destruct (Z.compare_spec (ord x) (ord y)); destruct H as [H|H]; try discriminate H; lia.
  Qed.

  Lemma SFltb_nan_l : forall y, SFltb S754_nan y = false.
  Proof. reflexivity. Qed.
  Lemma SFltb_nan_r : forall x, SFltb x S754_nan = false.
  Proof. destruct x; reflexivity. Qed.
End Ord.

(** * std::lower_bound on a partitioned range *)
Section LowerBoundSpec.
  Variable A : Type.
  Variable comp : A -> bool.
  Variable dflt : A.
  Variable tbl : list A.

  Lemma div2_lt : forall n, (0 < n)%nat -> (Nat.div2 n < n)%nat.
  Proof. intros. apply Nat.lt_div2. assumption. Qed.

  Lemma lower_bound_aux_spec : forall fuel first len p,
    (len < fuel)%nat ->
    (first <= p <= first + len)%nat ->
    (forall i, (first <= i < first + len)%nat -> comp (nth i tbl dflt) = (i <? p)%nat) ->
    lower_bound_aux A comp dflt fuel tbl first len = p.
  Proof.
    induction fuel as [|f IH]; intros first len p Hf Hp Hc; [lia|].
    simpl. destruct len as [|l].
    - lia.
    - set (len := S l) in *.
      assert (Hh : (Nat.div2 len < len)%nat) by (apply Nat.lt_div2; unfold len; lia).
      set (half := Nat.div2 len) in *.
      rewrite (Hc (first + half)%nat) by lia.
      destruct (Nat.ltb_spec (first + half) p).
      + apply IH; [lia | lia | intros i Hi; apply Hc; lia].
      + apply IH; [lia | lia | intros i Hi; apply Hc; lia].
  Qed.

  Theorem lower_bound_spec : forall p,
    (p <= length tbl)%nat ->
    (forall i, (i < length tbl)%nat -> comp (nth i tbl dflt) = (i <? p)%nat) ->
    lower_bound A comp dflt tbl = p.
  Proof.
    intros p Hp Hc. unfold lower_bound. apply lower_bound_aux_spec; [lia | lia | intros i Hi; apply Hc; lia].
  Qed.
End LowerBoundSpec.

(** * partition point of a strictly increasing list of integer keys *)
Fixpoint zidx (keys : list Z) (z : Z) : nat :=
  match keys with
  | [] => O
  | k :: ks => if k <? z then S (zidx ks z) else O
  end.

Fixpoint sortedb (keys : list Z) : bool :=
  match keys with
  | [] => true
  | k :: ks => match ks with [] => true | k' :: _ => (k <? k') && sortedb ks end
  end.

Lemma zidx_le_length : forall keys z, (zidx keys z <= length keys)%nat.
Proof. induction keys as [|k ks IH]; intro z; simpl; [lia|]. destruct (k <? z); [specialize (IH z)|]; lia. Qed.

Lemma zidx_mono : forall keys z1 z2, z1 <= z2 -> (zidx keys z1 <= zidx keys z2)%nat.
Proof.
  induction keys as [|k ks IH]; intros z1 z2 H; simpl; [lia|].
  destruct (Z.ltb_spec k z1); destruct (Z.ltb_spec k z2); try lia. specialize (IH z1 z2 H). lia.
Qed.

Lemma zidx_below : forall keys z i, (i < zidx keys z)%nat -> nth i keys 0 < z.
Proof.
  induction keys as [|k ks IH]; intros z i H; simpl in *; [lia|].
  destruct (Z.ltb_spec k z); [|lia]. destruct i; [assumption|]. apply IH. lia.
Qed.

Lemma zidx_at : forall keys z, (zidx keys z < length keys)%nat -> z <= nth (zidx keys z) keys 0.
Proof.
  induction keys as [|k ks IH]; intros z H; simpl in *; [lia|].
  destruct (Z.ltb_spec k z); [|assumption]. apply IH. lia.
Qed.

Lemma sortedb_head_lt : forall k ks i, sortedb (k :: ks) = true -> (i < length ks)%nat -> k < nth i ks 0.
Proof.
  intros k ks; revert k. induction ks as [|k' ks IH]; intros k i Hs Hi; simpl in *; [lia|].
  apply andb_prop in Hs. destruct Hs as [S1 S2]. apply Z.ltb_lt in S1.
  destruct i; [assumption|]. apply Z.lt_trans with k'; [assumption|]. apply IH; [exact S2 | lia].
Qed.

Lemma sortedb_tail : forall k ks, sortedb (k :: ks) = true -> sortedb ks = true.
Proof. intros k ks Hs. destruct ks as [|k' ks']; [reflexivity|]. simpl in Hs. apply andb_prop in Hs. apply Hs. Qed.

Lemma zidx_partition : forall keys z i, sortedb keys = true -> (i < length keys)%nat ->
  (nth i keys 0 <? z) = (i <? zidx keys z)%nat.
Proof.
  induction keys as [|k ks IH]; intros z i Hs Hi; simpl in *; [lia|].
  destruct (Z.ltb_spec k z) as [L|G].
  - destruct i; [apply Z.ltb_lt in L; rewrite L; reflexivity|].
    rewrite IH; [reflexivity | exact (sortedb_tail _ _ Hs) | lia].
  - destruct i.
    + apply Z.ltb_ge in G. rewrite G. reflexivity.
    + pose proof (sortedb_head_lt k ks i Hs ltac:(lia)).
      replace (S i <? 0)%nat with false by reflexivity. apply Z.ltb_ge. lia.
Qed.
