(** C14 lemmas, part 9: schedules.  Whether an item is enabled and which mode follows depends on the mode alone
    ([mode_next]); every schedule whose items are all enabled and which ends IDLE is a sequence of complete
    key-ups followed by idle iterations ([session_items]); from every reachable state the machine returns to
    IDLE once PTT is released and at most three more loop iterations run. *)
From Coq Require Import NArith ZArith List Bool Lia Arith.
From M17 Require Import Bits ConstsModulator ImplModulator SpecModulator LemmasMdl_SM.
Import ListNotations.

Opaque send_audio send_link_setup send_preamble.

Definition mode_next (m : mode) (it : item) : option mode :=
  match it, m with
  | Ev _, INACTIVE => Some INACTIVE
  | Ev _, IDLE => Some IDLE
  | Ev _, PREAMBLE => Some LINK_SETUP
  | Ev _, LINK_SETUP => Some ACTIVE
  | Ev _, ACTIVE => Some ACTIVE
  | Ev _, END_OF_STREAM => Some IDLE
  | PttOn, IDLE => Some PREAMBLE
  | PttOn, ACTIVE => Some ACTIVE
  | PttOff, ACTIVE => Some END_OF_STREAM
  | _, _ => None
  end.

Fixpoint mode_run (m : mode) (sched : list item) : option mode :=
  match sched with
  | [] => Some m
  | it :: r => match mode_next m it with Some m' => mode_run m' r | None => None end
  end.

Section Shape.
Variable junk : nat -> N.
Variable cstate : Type.
Variable codec2_encode : cstate -> list Z -> cstate * list N.
Variables dest source : list N.
Notation runm := (run junk cstate codec2_encode dest source).
Notation stepi := (step_item junk cstate codec2_encode dest source).

Lemma step_mode s it :
  match mode_next (st_mode s) it with
  | Some m' => enabled s it = true /\ st_mode (fst (stepi s it)) = m'
  | None => enabled s it = false
  end.
Proof. destruct s as [m i fn seg audio lich c]. destruct it as [e| |]; destruct m; cbn [mode_next st_mode enabled]; try reflexivity;
  (split; [reflexivity|]); cbn [step_item set_mode st_mode fst]; try reflexivity; unfold mstep; cbn [st_mode st_index st_fn st_seg st_audio st_lich st_codec]; try reflexivity.
  all: repeat match goal with
       | |- context [if ?b then _ else _] => destruct b
       | |- context [send_audio ?a ?b ?c ?d ?e ?f ?g] => destruct (send_audio a b c d e f g)
       | |- context [send_link_setup ?a ?b ?c] => destruct (send_link_setup a b c)
       end; reflexivity. Qed.

(** [run] succeeds exactly when the mode automaton does, and ends in the mode it predicts *)
Lemma run_modes sched : forall s,
  match mode_run (st_mode s) sched with
  | Some m => exists s' out, runm s sched = Some (s', out) /\ st_mode s' = m
  | None => runm s sched = None
  end.
Proof. induction sched as [|it r IH]; intros s.
- cbn [mode_run run]. exists s, []. split; reflexivity.
- cbn [mode_run run]. pose proof (step_mode s it) as M. destruct (mode_next (st_mode s) it) as [m'|].
  + destruct M as [E M]. rewrite E. destruct (stepi s it) as [s1 o1]. cbn [fst] in M. specialize (IH s1). rewrite M in IH.
    destruct (mode_run m' r) as [m|].
    * destruct IH as [s' [out [R Q]]]. rewrite R. exists s', (o1 ++ out). split; [reflexivity | exact Q].
    * rewrite IH. reflexivity.
  + rewrite M. reflexivity. Qed.
End Shape.

(** ** shape of the schedules that end IDLE *)
Lemma mode_run_app a : forall m b, mode_run m (a ++ b) = match mode_run m a with Some m1 => mode_run m1 b | None => None end.
Proof. induction a as [|it a IH]; intros m b; [reflexivity|]. cbn [app mode_run]. destruct (mode_next m it); [apply IH | reflexivity]. Qed.

Lemma idle_prefix sched : exists es rest, sched = map Ev es ++ rest /\ match rest with Ev _ :: _ => False | _ => True end.
Proof. induction sched as [|it r [es [rest [E H]]]].
- exists [], []. split; [reflexivity | exact I].
- destruct it as [e| |].
  + exists (e :: es), rest. split; [cbn [map app]; rewrite E; reflexivity | exact H].
  + exists [], (PttOn :: r). split; [reflexivity | exact I].
  + exists [], (PttOff :: r). split; [reflexivity | exact I]. Qed.

Lemma mode_run_idle_evs es : mode_run IDLE (map Ev es) = Some IDLE.
Proof. induction es as [|e es IH]; [reflexivity|]. cbn [map mode_run mode_next]. exact IH. Qed.

Lemma active_prefix l : (Forall active_item l /\ mode_run ACTIVE l = Some ACTIVE)
                        \/ exists a r, l = a ++ PttOff :: r /\ Forall active_item a /\ mode_run ACTIVE a = Some ACTIVE.
Proof. induction l as [|it l IH].
- left. split; [constructor | reflexivity].
- destruct it as [e| |].
  + destruct IH as [[F M]|[a [r [E [F M]]]]].
    * left. split; [constructor; [exact I | exact F] | exact M].
    * right. exists (Ev e :: a), r. rewrite E. repeat split; [constructor; [exact I | exact F] | exact M].
  + destruct IH as [[F M]|[a [r [E [F M]]]]].
    * left. split; [constructor; [exact I | exact F] | exact M].
    * right. exists (PttOn :: a), r. rewrite E. repeat split; [constructor; [exact I | exact F] | exact M].
  + right. exists [], l. repeat split. constructor. Qed.

Lemma sessions_shape n : forall sched, (length sched <= n)%nat -> mode_run IDLE sched = Some IDLE ->
  exists kus trailing, Forall keyup_ok kus /\ sched = session_items kus trailing.
Proof. induction n as [|n IH]; intros sched Ln R.
- destruct sched; [|cbn in Ln; lia]. exists [], []. split; [constructor | reflexivity].
- destruct (idle_prefix sched) as [es [rest [E H]]]. subst sched.
  rewrite mode_run_app, mode_run_idle_evs in R.
  destruct rest as [|it r].
  + exists [], es. split; [constructor | rewrite app_nil_r; reflexivity].
  + destruct it as [e| |]; [destruct H| |discriminate R].
    cbn [mode_run mode_next] in R.
    destruct r as [|[e1| |] r]; try discriminate R. cbn [mode_run mode_next] in R.
    destruct r as [|[e2| |] r]; try discriminate R. cbn [mode_run mode_next] in R.
    destruct (active_prefix r) as [[F M]|[a [r2 [E [F M]]]]]; [rewrite M in R; discriminate R|].
    subst r. rewrite mode_run_app, M in R. cbn [mode_run mode_next] in R.
    destruct r2 as [|[e3| |] r3]; try discriminate R. cbn [mode_run mode_next] in R.
    destruct (IH r3) as [kus [trailing [K E]]]; [|exact R|].
    { rewrite app_length in Ln. cbn [length] in Ln. rewrite app_length in Ln. cbn [length] in Ln. lia. }
    exists (MkKeyup es e1 e2 a e3 :: kus), trailing. split; [constructor; [exact F | exact K]|].
    unfold session_items in *. cbn [flat_map]. unfold keyup_items at 1. cbn [ku_idle ku_pre ku_lsf ku_active ku_eos].
    rewrite E. repeat rewrite <- app_assoc. cbn [app]. repeat rewrite <- app_assoc. reflexivity. Qed.

(** ** return to IDLE *)
Definition completion (m : mode) (e1 e2 e3 : event) : list item :=
  match m with
  | INACTIVE | IDLE => []
  | PREAMBLE => [Ev e1; Ev e2; PttOff; Ev e3]
  | LINK_SETUP => [Ev e2; PttOff; Ev e3]
  | ACTIVE => [PttOff; Ev e3]
  | END_OF_STREAM => [Ev e3]
  end.

Lemma never_inactive sched : forall m m', m <> INACTIVE -> mode_run m sched = Some m' -> m' <> INACTIVE.
Proof. induction sched as [|it r IH]; intros m m' H R.
- cbn in R. injection R as <-. exact H.
- cbn [mode_run] in R. destruct (mode_next m it) as [m1|] eqn:E; [|discriminate].
  apply (IH m1 m'); [|exact R]. destruct it, m; cbn in E; try discriminate; injection E as <-; try discriminate; congruence. Qed.

Lemma completion_idle m e1 e2 e3 : m <> INACTIVE -> mode_run m (completion m e1 e2 e3) = Some IDLE.
Proof. destruct m; intros H; try reflexivity. congruence. Qed.
