(** Gallina mirror of include/m17cxx/M17Randomizer.h, statement by statement.
    detail::DC is regenerated from the source on every run (ConstsRandomizer.DC).
    Soft bits are Z with the int8_t conversion written out ([wrap8]); bit arrays are
    int8_t arrays holding 0/1 (list N), packed frames are uint8_t arrays (list N).
    No proofs here. *)
From Coq Require Import NArith ZArith List.
From M17 Require Import ImplUtilBits ConstsRandomizer.
Import ListNotations.

(** for (i = 0; i != N; ++i) r[i] = f(a[i], b[i]) on two arrays of the same size *)
Definition zip_with {A B C : Type} (f : A -> B -> C) (a : list A) (b : list B) : list C :=
  map (fun p => f (fst p) (snd p)) (combine a b).

(** conversion of an int to int8_t (modular, C++20) *)
Definition wrap8 (z : Z) : Z := ((z + 128) mod 256 - 128)%Z.

(** M17Randomizer(): i = 0; for (b : DC) for (j = 0; j != 8; ++j) dc_[i++] = (b >> (7 - j)) & 1 ? -1 : 1; *)
Definition dc_soft_of (dc : list N) : list Z :=
  flat_map (fun b => map (fun j => if N.eqb (N.land (N.shiftr b (N.of_nat (7 - j))) 1) 0 then 1%Z else (-1)%Z) (seq 0 8)) dc.

(** the table dc_ the constructor builds (368 entries of +1/-1) *)
Definition dc_soft : list Z := dc_soft_of DC.

(** void operator()(std::array<int8_t, N>& frame): frame[i] *= dc_[i];
    the product is computed in int and converted back to int8_t: -128 * -1 = 128 -> -128 *)
Definition derandomize_soft (frame : list Z) : list Z :=
  zip_with (fun x d => wrap8 (x * d)) frame dc_soft.

(** void randomize(std::array<int8_t, N>& frame): frame[i] ^= (dc_[i] == -1);   on any int8_t content *)
Definition randomize_int8 (frame : list Z) : list Z :=
  zip_with (fun x d => wrap8 (Z.lxor x (if Z.eqb d (-1) then 1 else 0))) frame dc_soft.

(** the same statement on the non-negative int8_t values (0/1 bit arrays) the transmitter passes *)
Definition randomize_bits (frame : list N) : list N :=
  zip_with (fun x d => N.lxor x (if Z.eqb d (-1) then 1%N else 0%N)) frame dc_soft.

(** M17ByteRandomizer: for (j = 8; j != 0; --j) { uint8_t mask = 1 << (j - 1);
      frame[i] = (frame[i] & ~mask) | ((frame[i] & mask) ^ (DC[i] & mask)); } *)
Definition byte_rand_step (dc : N) (x : N) (j : nat) : N :=
  let mask := to_u8 (N.shiftl 1 (N.of_nat (j - 1))) in
  to_u8 (N.lor (N.ldiff x mask) (N.lxor (N.land x mask) (N.land dc mask))).

Definition byte_rand (dc x : N) : N := fold_left (byte_rand_step dc) (rev (seq 1 8)) x.

(** void operator()(std::array<uint8_t, N>& frame): for (i = 0; i != N; ++i) <the j loop on frame[i], DC[i]> *)
Definition randomize_bytes (frame : list N) : list N :=
  zip_with (fun x dc => byte_rand dc x) frame DC.
