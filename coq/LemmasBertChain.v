(** C18, last clause: BERT frames built from the PRBS9 generator, passed through the frame decoder, re-lock the
    validator with zero errors.  Composition of c01_rt_bert (frame decoder round trip), c01_bert_bytes (bit packing)
    and c18_bert_slices_relock (validator).  The bit extraction of m17-demod's decode_bert (24 bytes MSB first, then
    the top 5 bits of byte 24) is mirrored here as [bert_fed_bits]; the checked model of the same loop is ImplApp.v (C07/C20). *)
From Coq Require Import NArith ZArith List Bool Lia.
From M17 Require Import Bits ImplFrameDecoder ImplViterbi FrameDecoderInst LemmasFD_Inst SpecM17 LemmasRT_A LemmasRT_D LemmasRT_E LemmasRT_H
  ImplPRBS SpecPRBS LemmasPRBS_A LemmasPRBS_C LemmasPRBS_D.
Import ListNotations.

(** decode_bert: for j < 24: 8 x validate(b & 0x80), b <<= 1;  then 5 bits of bert[24] *)
Definition bert_fed_bits (bert : list N) : list bool :=
  bytes_bits (firstn 24 bert) ++ firstn 5 (byte_bits (nth 24 bert 0%N)).

Lemma bert_fed_bits_eq (bert : list N) : length bert = 25%nat -> bert_fed_bits bert = firstn 197 (bytes_bits bert).
Proof. intros L. do 25 (destruct bert as [|? bert]; [discriminate|]). destruct bert; [|discriminate].
  unfold bert_fed_bits. cbn [firstn nth]. unfold bytes_bits. cbn [flat_map]. rewrite !app_nil_r.
  repeat rewrite <- app_assoc.
  repeat (rewrite firstn_app; rewrite byte_bits_length; cbn [Nat.sub];
          match goal with |- context[firstn ?k (byte_bits ?x)] =>
            first [ rewrite (firstn_all2 (byte_bits x)) by (rewrite byte_bits_length; lia) | idtac ] end).
  reflexivity. Qed.

(** the frame decoder run over consecutive BERT frames, collecting the bytes of each BERT callback *)
Fixpoint bert_chain (s : fd_state) (frames : list (list Z)) : list (list N) :=
  match frames with
  | [] => []
  | f :: fs =>
    let o := fd_step s SBert f true in
    match cbs_of scratch o with
    | [cb] => cb_bytes cb :: bert_chain (fd_st_of o) fs
    | _ => []
    end
  end.

(** frame j carries the j-th 197-bit slice of the generator's sequence (phase g), at any soft magnitudes 1..7 *)
Fixpoint bert_frames (g : N) (ms : list (list Z)) (start : nat) : list (list Z) :=
  match ms with
  | [] => []
  | m :: ms' => soft m (spec_bert_frame (bert_slice g 197 start)) :: bert_frames g ms' (S start)
  end.

Definition mags_ok (m : list Z) : Prop := length m = 368%nat /\ Forall (fun x => (1 <= x <= 7)%Z) m.

Lemma bert_fed_of_packed (b : list bool) : length b = 197%nat -> bert_fed_bits (to_bytes b) = b.
Proof. intros L. destruct (bert_bytes_ok b L) as [L25 E].
  rewrite bert_fed_bits_eq by exact L25. rewrite E. rewrite firstn_app, L, Nat.sub_diag.
  change (firstn 0 (repeat false 3)) with (@nil bool). rewrite app_nil_r. apply firstn_all2. lia. Qed.

Lemma bert_chain_bits g : forall ms start s, fd_hid_ok s -> Forall mags_ok ms ->
  flat_map bert_fed_bits (bert_chain s (bert_frames g ms start)) = flat_map (bert_slice g 197) (seq start (length ms)).
Proof. induction ms as [|m ms IH]; intros start s Hs Hm; [reflexivity|].
  inversion Hm as [|? ? [Lm Fm] Hms]; subst.
  cbn [bert_frames bert_chain length seq flat_map].
  assert (Lb : length (bert_slice g 197 start) = 197%nat) by (unfold bert_slice; apply gen_bits_length).
  destruct (rt_bert s m (bert_slice g 197 start) true Hs Lm Fm Lb) as (c & _ & Hs' & O & _).
  set (o := fd_step s SBert (soft m (spec_bert_frame (bert_slice g 197 start))) true) in *.
  assert (Ocb : cbs_of scratch o = [mkcb FBert (to_bytes (bert_slice g 197 start)) c]).
  { clearbody o. unfold fd_observe, ImplFrameDecoder.observe in O. exact (f_equal snd O). }
  rewrite Ocb. cbn [cb_bytes flat_map]. rewrite bert_fed_of_packed by exact Lb.
  f_equal. apply IH; assumption. Qed.

(** BERT frames built from the generator and passed through the frame decoder re-lock the validator with zero errors *)
Theorem bert_frames_relock (g : N) (ms : list (list Z)) (s : fd_state) (v : prbs) :
  fd_hid_ok s -> Forall mags_ok ms -> (1 <= length ms)%nat ->
  synced v = false -> (state v < 512)%N -> (sync_count v <= 9)%N -> counters_wf v -> (g < 512)%N ->
  let fed := flat_map bert_fed_bits (bert_chain s (bert_frames g ms 0)) in
  let v' := ImplPRBS.run v fed in
  synced v' = true /\ err_count v' = err_count v /\ state v' = gen_state g (197 * length ms) /\
  exists t, (1 <= t <= 27)%nat /\ (forall n, (n < t)%nat -> synced (ImplPRBS.run v (firstn n fed)) = false).
Proof. intros Hs Hm Hk Hv Hst Hsc Hw Hg fed v'.
  assert (E : fed = bert_slices g 197 (length ms)) by (subst fed; rewrite bert_chain_bits by assumption; reflexivity).
  destruct (bert_slices_relock_lemma v g (length ms) Hv Hst Hsc Hw Hg Hk) as (t & Ht & Hpre & Hpost).
  cbv zeta in Hpost. destruct Hpost as (S1 & S2 & S3 & _).
  subst v'. clearbody fed. subst fed. split; [exact S1|]. split; [exact S3|]. split; [exact S2|].
  exists t. split; [exact Ht|]. intros n Hn. apply Hpre. exact Hn. Qed.
