(** C01 round trip, part G: the frames of the repository's own transmitter m17-mod.  By C13 they are the
    specification's frames, so the round-trip lemmas apply to them. *)
From Coq Require Import NArith ZArith List Bool Lia.
From M17 Require Import Bits ImplCRC SpecCRC ConstsCrc LemmasCRC_A LemmasCRC_B LemmasCRC_C SpecM17 ImplMod ConstsMod
  LemmasMod_C LemmasMod_D ImplViterbi ImplFrameDecoder FrameDecoderInst LemmasFD_Inst
  LemmasRT_A LemmasRT_E LemmasRT_H.
Import ListNotations.
Local Open Scope N_scope.

Lemma spec_lsf_crc_ok dst src can : crc30 (spec_lsf dst src can) = 0.
Proof. unfold crc30, spec_lsf. rewrite <- get_bytes_hi_lo. apply residue_zero_impl. Qed.

Lemma rt_lsf_m17mod (uninit : list bool) (can : N) (src dest : list N) (s : fd_state) (m : list Z) (r : bool) :
  valid_callsign src -> valid_callsign dest -> can < 16 ->
  fd_hid_ok s -> length m = 368%nat -> mags_ok m ->
  exists (L : list N) (f : list bool),
    send_lsf uninit can src dest AUDIO = (L, [OutFrame SpecM17.sync_lsf f]) /\
    exists c : Z, (full_conf m -> c = 0%Z) /\
      fd_observe (fd_step s SLsf (soft m f) r) = (MStream, ROk, Some c, [mkcb FLsf L c]) /\
      fd_lsf (fd_st_of (fd_step s SLsf (soft m f) r)) = L.
Proof. intros Hs Hd Hc Hh Lm F.
  exists (spec_lsf dest src can), (spec_lsf_frame (spec_lsf dest src can)).
  split; [apply send_lsf_ok; assumption|].
  destruct (rt_lsf s m (spec_lsf dest src can) r Hh Lm F (spec_lsf_length dest src can) (spec_lsf_bytes dest src can))
    as (c & C0 & _ & Hz & _).
  exists c. split; [exact C0|]. destruct (Hz (spec_lsf_crc_ok dest src can)) as (O & Ls & _).
  rewrite (spec_lsf_enters_stream dest src can MLsf Hc) in O. split; [exact O | exact Ls]. Qed.

Lemma rt_stream_m17mod (uninit : list bool) (lsf : list N) (n : nat) (fnarg : N) (payload : list N)
    (s : fd_state) (m : list Z) (r : bool) :
  length lsf = 30%nat -> all_bytes lsf -> (n < 6)%nat -> fnarg < 65536 -> length payload = 16%nat -> all_bytes payload ->
  fd_hid_ok s -> fd_mode s = MStream -> length m = 368%nat -> mags_ok m ->
  exists f : list bool,
    send_audio_frame (make_lich_segment (firstn lich_stride (skipn (n * lich_stride) lsf)) (N.of_nat n))
                     (make_data_frame uninit fnarg payload) = [OutFrame SpecM17.sync_stream f] /\
    exists c : Z, (full_conf m -> c = 0%Z) /\
      fd_observe (fd_step s SStream (soft m f) r) =
        (MStream, ROk, Some c, [mkcb FStream (fn_field (fnarg mod 32768) (N.testbit fnarg 15) ++ payload) c]).
Proof. intros Ll Fl Hn Hf Lp Fp Hh Hm Lm F.
  exists (spec_stream_frame lsf (N.of_nat n) (fnarg mod 32768) payload (N.testbit fnarg 15)).
  split; [apply stream_frame_ok; assumption|].
  destruct (rt_stream s m lsf (N.of_nat n) (fnarg mod 32768) payload (N.testbit fnarg 15) r Hh Hm Lm F Ll ltac:(lia) Lp Fp)
    as (c & O & C0 & _).
  exists c. split; assumption. Qed.

Lemma rt_bert_m17mod (uninit : list bool) (St : Type) (gen : St -> St * bool) (p : St)
    (s : fd_state) (m : list Z) (r : bool) :
  fd_hid_ok s -> length m = 368%nat -> mags_ok m ->
  exists (f : list bool),
    snd (bert_iteration uninit St gen p) = [OutFrame SpecM17.sync_bert f] /\
    length (snd (gen_bits St gen 197 p)) = 197%nat /\
    exists c : Z, (full_conf m -> c = 0%Z) /\
      fd_observe (fd_step s SBert (soft m f) r) = (MBert, ROk, Some c, [mkcb FBert (to_bytes (snd (gen_bits St gen 197 p))) c]).
Proof. intros Hh Lm F. exists (spec_bert_frame (snd (gen_bits St gen 197 p))).
  split; [rewrite (bert_iteration_ok uninit St gen p); reflexivity|].
  pose proof (gen_bits_length St gen 197 p) as L. split; [exact L|].
  destruct (rt_bert s m _ r Hh Lm F L) as (c & C0 & _ & O & _). exists c. split; assumption. Qed.
