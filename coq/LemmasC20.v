(** C20: what m17-demod's handlers print and write, related to the specification's view of the link data. *)
From Coq Require Import NArith ZArith Arith Bool String Lia List.
From Coq Require Import ZifyBool ZifyNat ZifyN.
From M17 Require Import Bits Checked LemmasChecked ConstsApp ImplAx25 ImplApp LemmasApp SpecApp.
Import ListNotations.
Ltac Zify.zify_post_hook ::= Z.div_mod_to_equations.

Ltac explode l H :=
  lazymatch type of H with
  | length l = 0 => destruct l; [clear H | discriminate H]
  | length l = S _ => let x := fresh "x" in destruct l as [|x l]; [discriminate H | cbn [length] in H; apply eq_add_S in H; explode l H]
  end.

Lemma list_N_eqb_eq : forall a b, list_N_eqb a b = true -> a = b.
Proof. induction a as [|x a IH]; intros [|y b] H; cbn [list_N_eqb] in H; try discriminate; [reflexivity|].
  apply andb_prop in H. destruct H as [H1 H2]. apply N.eqb_eq in H1. subst. f_equal. apply IH. exact H2. Qed.

Lemma list_N_eqb_refl : forall a, list_N_eqb a a = true.
Proof. induction a as [|x a IH]; [reflexivity|]. cbn [list_N_eqb]. rewrite N.eqb_refl, IH. reflexivity. Qed.

Lemma land_255_small b : (b < 256)%N -> N.land b 255 = b.
Proof. intros H. change 255%N with (N.ones 8). rewrite N.land_ones. apply N.mod_small. exact H. Qed.

(** * formatting sweeps (finite domains, enumerated by binary splitting) *)
Definition hex2_check (b : N) : bool := list_N_eqb (pad_left dl_nonce_width 48 (show_hex (N.land b 255))) (hex2 b).
Lemma hex2_sweep : below 8 hex2_check = true.
Proof. vm_cast_no_check (eq_refl true). Qed.
Lemma hex2_ok b : (b < 256)%N -> pad_left dl_nonce_width 48 (show_hex (N.land b 255)) = hex2 b.
Proof. intros H. apply list_N_eqb_eq. apply (below_spec 8 hex2_check hex2_sweep b). exact H. Qed.

Definition hex4_check (x : N) : bool :=
  list_N_eqb (pad_left dl_crc_width 48 (show_hex (N.land (N.lor (N.shiftl (N.land (x / 256) 255) 8) (N.land (x mod 256) 255)) 65535)))
             (hex2 (x / 256) ++ hex2 (x mod 256)).
Lemma hex4_sweep : below 16 hex4_check = true.
Proof. vm_cast_no_check (eq_refl true). Qed.
Lemma hex4_ok hi lo : (hi < 256)%N -> (lo < 256)%N ->
  pad_left dl_crc_width 48 (show_hex (N.land (N.lor (N.shiftl (N.land hi 255) 8) (N.land lo 255)) 65535)) = hex2 hi ++ hex2 lo.
Proof. intros H1 H2. pose proof (below_spec 16 hex4_check hex4_sweep (hi * 256 + lo)%N) as S.
  assert (E1 : ((hi * 256 + lo) / 256 = hi)%N) by lia. assert (E2 : ((hi * 256 + lo) mod 256 = lo)%N) by lia.
  unfold hex4_check in S. rewrite E1, E2 in S. apply list_N_eqb_eq. apply S. change (2 ^ N.of_nat 16)%N with 65536%N. lia. Qed.

Definition type_check (can : N) : bool :=
  list_N_eqb (dump_type (N.land (N.lor (N.shiftl (N.land (spec_type can / 256) 255) dl_type_shift) (N.land (spec_type can mod 256) 255)) 65535))
             (str ", STR:V/V CAN:" ++ dec2 can)
  && negb (N.eqb (N.land (spec_type can mod 256) dl_pkt_mask) 0).
Lemma type_sweep : below 4 type_check = true.
Proof. vm_cast_no_check (eq_refl true). Qed.
Lemma type_ok can : (can < 16)%N ->
  dump_type (N.land (N.lor (N.shiftl (N.land (spec_type can / 256) 255) dl_type_shift) (N.land (spec_type can mod 256) 255)) 65535)
    = str ", STR:V/V CAN:" ++ dec2 can
  /\ N.eqb (N.land (spec_type can mod 256) dl_pkt_mask) 0 = false.
Proof. intros H. pose proof (below_spec 4 type_check type_sweep can H) as S. unfold type_check in S.
  apply andb_prop in S. destruct S as [S1 S2]. split; [apply list_N_eqb_eq; exact S1 | apply negb_true_iff in S2; exact S2]. Qed.

(** * callsign: decode (encode src) = src *)
Lemma find_first_nth c : forall s p, find_first c s = Some p -> nth_error s p = Some c.
Proof. induction s as [|x r IH]; intros p H; [discriminate|]. cbn [find_first] in H. destruct (N.eqb x c) eqn:E.
- injection H as <-. apply N.eqb_eq in E. subst. reflexivity.
- destruct (find_first c r) as [q|] eqn:F; [|discriminate]. injection H as <-. cbn [nth_error]. apply IH. reflexivity.
Qed.

Lemma maps_agree : skipn 1 (str callsign_map) = skipn 1 (str alphabet).
Proof. reflexivity. Qed.

Lemma alphabet_length : length (str alphabet) = 40.
Proof. reflexivity. Qed.

Lemma valid_char_facts c : valid_char c ->
  exists v, char_value c = Some (S v) /\ S v < 40 /\ nth_error (str callsign_map ++ [0%N]) (S v) = Some c /\ c <> 0%N.
Proof. intros [v Hv]. exists v. split; [exact Hv|]. unfold char_value in Hv.
  pose proof (find_first_lt _ _ _ Hv) as L. rewrite alphabet_length in L. split; [exact L|].
  pose proof (find_first_nth _ _ _ Hv) as Nth.
  assert (A : nth_error (skipn 1 (str alphabet)) v = Some c).
  { change (str alphabet) with (hd 0%N (str alphabet) :: skipn 1 (str alphabet)) in Nth. exact Nth. }
  split.
  - rewrite nth_error_app1 by (change (length (str callsign_map)) with 40; lia).
    change (str callsign_map) with (hd 0%N (str callsign_map) :: skipn 1 (str callsign_map)). cbn [nth_error]. rewrite maps_agree. exact A.
  - intros ->. apply nth_error_In in A. revert A. vm_compute. intuition discriminate.
Qed.

Lemma value_of_valid c v : char_value c = Some v -> value_of c = N.of_nat v.
Proof. intros H. unfold value_of. rewrite H. reflexivity. Qed.

Lemma call_number_bound cs : Forall valid_char cs -> (call_number cs < 40 ^ N.of_nat (length cs))%N.
Proof. induction 1 as [|c r Hc Hr IH]; [cbn; lia|]. cbn [call_number length].
  destruct (valid_char_facts c Hc) as [v [Hv [Lv _]]].
  rewrite Nat2N.inj_succ, N.pow_succ_r'. rewrite (value_of_valid _ _ Hv). lia. Qed.

Lemma pow40_9 : (40 ^ 9 = 262144000000000)%N.
Proof. reflexivity. Qed.

Lemma call_number_lt cs : valid_call cs -> (call_number cs < 262144000000000)%N.
Proof. intros [[_ L] F]. pose proof (call_number_bound cs F) as B. rewrite <- pow40_9.
  eapply N.lt_le_trans; [exact B|]. apply N.pow_le_mono_r; lia. Qed.

Lemma be6_bytes x : Forall (fun b => (b < 256)%N) (be6 x).
Proof. unfold be6. repeat constructor; apply N.mod_lt; discriminate. Qed.

Lemma call_value_be6 x : (x < 281474976710656)%N -> call_value (be6 x) = Ok x.
Proof. intros H. unfold call_value, be6. cbv zeta. cbn [call_bytes seq get_each get nth_error bind fold_left].
  rewrite !land_255_small by (apply N.mod_lt; discriminate). f_equal. lia. Qed.

Lemma replace_nth_app_mid {A} (done : list A) z rest c : replace_nth (done ++ z :: rest) (length done) c = done ++ c :: rest.
Proof. induction done as [|d done IH]; [reflexivity|]. cbn [Datatypes.app length replace_nth]. rewrite IH. reflexivity. Qed.

Lemma callsign_loop_number : forall cs done k fuel, Forall valid_char cs -> length cs <= k -> k < fuel -> length done + k = call_chars - 1 ->
  callsign_loop k fuel (call_number cs) (length done) (done ++ repeat 0%N (S k)) = Ok (done ++ cs ++ repeat 0%N (S k - length cs)).
Proof. induction cs as [|c r IH]; intros done k fuel F L Fu E.
- destruct fuel; [lia|]. cbn [call_number callsign_loop]. cbn [N.eqb]. cbn [Datatypes.app length]. rewrite Nat.sub_0_r. reflexivity.
- inversion F as [|? ? Hc Hr]; subst. destruct (valid_char_facts c Hc) as [v [Hv [Lv [Hm _]]]].
  destruct fuel as [|fuel]; [lia|]. destruct k as [|k]; [cbn [length] in L; lia|].
  cbn [call_number callsign_loop]. rewrite (value_of_valid _ _ Hv).
  assert (NZ : (N.of_nat (S v) + 40 * call_number r =? 0)%N = false) by (apply N.eqb_neq; lia). rewrite NZ.
  assert (M : ((N.of_nat (S v) + 40 * call_number r) mod callsign_base = N.of_nat (S v))%N) by (unfold callsign_base; lia).
  assert (D : ((N.of_nat (S v) + 40 * call_number r) / callsign_base = call_number r)%N) by (unfold callsign_base; lia).
  rewrite M, D, Nat2N.id. unfold get. rewrite Hm. cbn [bind].
  rewrite set_ok by (rewrite app_length, repeat_length; lia). cbn [bind].
  change (repeat 0%N (S (S k))) with (0%N :: repeat 0%N (S k)). rewrite replace_nth_app_mid. cbn [pred].
  replace (S (length done)) with (length (done ++ [c])) by (rewrite app_length; cbn; lia).
  replace (done ++ c :: repeat 0%N (S k)) with ((done ++ [c]) ++ repeat 0%N (S k)) by (rewrite <- app_assoc; reflexivity).
  rewrite IH; [| exact Hr | cbn [length] in L; lia | lia | rewrite app_length; cbn [length]; lia].
  rewrite <- app_assoc. cbn [Datatypes.app length]. reflexivity.
Qed.

Lemma print_call_padded cs j : Forall valid_char cs -> print_call (cs ++ repeat 0%N j) = cs.
Proof. intros F. unfold print_call. rewrite filter_app.
  assert (Z : filter (fun x => negb (x =? 0)%N) (repeat 0%N j) = []) by (induction j; [reflexivity|cbn; exact IHj]).
  rewrite Z, app_nil_r. induction F as [|c r Hc Hr IH]; [reflexivity|]. cbn [filter].
  destruct (valid_char_facts c Hc) as [_ [_ [_ [_ NZ]]]]. apply N.eqb_neq in NZ. rewrite NZ. cbn [negb]. rewrite IH. reflexivity. Qed.

Lemma decode_callsign_roundtrip cs : valid_call cs ->
  exists r, decode_callsign (be6 (call_number cs)) = Ok r /\ print_call r = cs.
Proof. intros V. pose proof (call_number_lt cs V) as B. destruct V as [[L1 L9] F].
  unfold decode_callsign.
  destruct (list_N_eqb (be6 (call_number cs)) broadcast_address) eqn:Q.
  - exfalso. apply list_N_eqb_eq in Q. pose proof (call_value_be6 (call_number cs)) as C. rewrite Q in C.
    assert (X : call_value broadcast_address = Ok 281474976710655%N) by reflexivity. rewrite X in C.
    assert (Y : Ok 281474976710655%N = Ok (call_number cs)) by (apply C; lia). injection Y as Y. lia.
  - rewrite call_value_be6 by lia. cbn [bind].
    pose proof (callsign_loop_number cs [] (call_chars - 1) 64 F) as R. cbn [length Datatypes.app] in R.
    change (S (call_chars - 1)) with call_chars in R. rewrite R; [| unfold call_chars; lia | unfold call_chars; lia | reflexivity].
    eexists; split; [reflexivity|]. apply print_call_padded. exact F.
Qed.

Lemma decode_callsign_broadcast : exists r, decode_callsign broadcast = Ok r /\ print_call r = str "BROADCAST".
Proof. eexists; split; reflexivity. Qed.

Lemma decode_spec_address a : (match a with Some cs => valid_call cs | None => True end) ->
  exists r, decode_callsign (spec_address a) = Ok r /\ print_call r = dest_name a.
Proof. destruct a as [cs|]; intros V; [apply decode_callsign_roundtrip; exact V | apply decode_callsign_broadcast]. Qed.

Lemma spec_address_length a : length (spec_address a) = 6.
Proof. destruct a; reflexivity. Qed.

(** * positions of the fields in a 30-byte LSF laid out as  d(6) ++ s(6) ++ [t1; t2] ++ meta(14) ++ crc(2) *)
Lemma layout_facts (d s meta crc : list N) (t1 t2 : N) :
  length d = 6 -> length s = 6 -> length meta = 14 -> length crc = 2 ->
  let lsf := d ++ s ++ [t1; t2] ++ meta ++ crc in
  range "dump_lsf: std::copy(lsf.begin() + 6, lsf.begin() + 12, ...)" lsf dl_src_lo dl_src_hi = Ok s /\
  range "dump_lsf: std::copy(lsf.begin(), lsf.begin() + 6, ...)" lsf 0 dl_dst_hi = Ok d /\
  get "dump_lsf: lsf[12]" lsf dl_type_hi_idx = Ok t1 /\
  get "dump_lsf: lsf[13]" lsf dl_type_lo_idx = Ok t2 /\
  get_each "dump_lsf: lsf[i] (NONCE)" lsf (seq dl_nonce_lo (dl_nonce_hi - dl_nonce_lo)) = Ok meta /\
  (exists c1 c2, crc = [c1; c2] /\ get "dump_lsf: lsf[28]" lsf dl_crc_hi_idx = Ok c1 /\ get "dump_lsf: lsf[29]" lsf dl_crc_lo_idx = Ok c2) /\
  get "dump_lsf: lsf[13] (type bit 0)" lsf dl_pkt_idx = Ok t2 /\
  get "dump_lsf: lsf[13] (packet type)" lsf dl_ptype_idx = Ok t2.
Proof. intros Ld Ls Lm Lc lsf. subst lsf. explode d Ld. explode s Ls. explode meta Lm. explode crc Lc.
  repeat split; try reflexivity. eexists; eexists; repeat split; reflexivity. Qed.

Section Report.
Variable cstate : Type.

Lemma lsf_report_lemma (st : app cstate) nb dst src can meta crc :
  valid_call src -> (match dst with Some cs => valid_call cs | None => True end) -> (can < 16)%N ->
  length meta = 14 -> all_bytes meta -> length crc = 2 -> all_bytes crc ->
  dump_lsf cstate {| o_display_lsf := true; o_noise_blanker := nb |} st (spec_lsf dst src can meta crc)
  = Ok ({| a_packet := []; a_counter := 0; a_hex := false; a_prbs := a_prbs st; a_codec := a_codec st |},
        {| r_ret := true; r_err := spec_lsf_line dst src can meta crc; r_out := []; r_c2 := [] |}).
Proof. intros Vs Vd Hc Lm Bm Lc Bc.
  destruct (decode_callsign_roundtrip src Vs) as [rs [Hrs Prs]].
  destruct (decode_spec_address dst Vd) as [rd [Hrd Prd]].
  destruct (type_ok can Hc) as [Ty Bit].
  destruct (layout_facts (spec_address dst) (be6 (call_number src)) meta crc (spec_type can / 256) (spec_type can mod 256)
              (spec_address_length dst) eq_refl Lm Lc) as [F1 [F2 [F3 [F4 [F5 [[c1 [c2 [Ec [F6 F7]]]] [F8 F9]]]]]]].
  unfold dump_lsf, dump_lsf_text, spec_lsf. cbn [o_display_lsf].
  rewrite F1. cbn [bind]. rewrite Hrs. cbn [bind]. rewrite F2. cbn [bind]. rewrite Hrd. cbn [bind].
  rewrite F3, F4. cbn [bind]. rewrite F5. cbn [bind]. rewrite F6, F7. cbn [bind].
  rewrite F8. cbn [bind]. rewrite Bit. cbn [bind fst snd].
  rewrite Ty, Prs, Prd.
  subst crc. inversion Bc as [|? ? B1 Bc']; subst. inversion Bc' as [|? ? B2 _]; subst.
  rewrite hex4_ok by assumption.
  assert (Nn : flat_map (fun b => pad_left dl_nonce_width 48 (show_hex (N.land b 255))) meta = flat_map hex2 meta).
  { clear -Bm. induction Bm as [|b r Hb Hr IH]; [reflexivity|]. cbn [flat_map]. rewrite hex2_ok by exact Hb. rewrite IH. reflexivity. }
  rewrite Nn. unfold spec_lsf_line. cbn [flat_map]. rewrite !app_nil_r. rewrite <- !app_assoc. reflexivity.
Qed.

(** * end of stream *)
Variable codec2_decode : cstate -> list N -> cstate * list Z.

Lemma eos_lemma o (st st' : app cstate) audio cost out a0 :
  nth_error audio da_eos_idx = Some a0 ->
  demodulate_audio cstate codec2_decode o st audio cost = Ok (st', out) ->
  let eos := (cost <? da_eos_cost)%Z && negb (N.eqb (N.land a0 da_eos_mask) 0) in
  r_ret out = negb eos /\
  r_err out = (if eos && o_display_lsf o then [10%N] ++ str "EOS" ++ [10%N] else []).
Proof. intros Ha H. unfold demodulate_audio in H. unfold get in H. rewrite Ha in H. cbn [bind] in H.
  destruct (o_noise_blanker o && (da_blank_cost <? cost)%Z).
  - repeat (apply bind_inv in H; destruct H as [? [_ H]]). injection H as _ <-. cbn [r_ret r_err]. split; reflexivity.
  - repeat (apply bind_inv in H; destruct H as [? [_ H]]). injection H as _ <-. cbn [r_ret r_err]. split; reflexivity.
Qed.
End Report.

Section Audio.
Variable cstate : Type.
Variable codec2_decode : cstate -> list N -> cstate * list Z.
Hypothesis codec2_160 : forall c bits, length (snd (codec2_decode c bits)) = da_buf_samples.

Definition stream_callbacks (cbs : list callback) : nat := length (filter is_stream cbs).

Lemma stdout_total_640 cbs : fold_right (fun cb n => stdout_bytes_of cb + n) 0 cbs = 640 * stream_callbacks cbs.
Proof. unfold stream_callbacks. induction cbs as [|cb r IH]; [reflexivity|]. cbn [fold_right filter]. rewrite IH.
  unfold stdout_bytes_of. destruct (is_stream cb); cbn [length]; [change (da_writes_per_frame * da_write_bytes) with 640|]; lia. Qed.

Lemma audio_whole_frames_lemma o cbs (st : app cstate) : Forall wf_callback cbs -> app_inv cstate st ->
  exists st' outs, run_app cstate codec2_decode o st cbs = Ok (st', outs) /\ total_stdout outs = 640 * stream_callbacks cbs.
Proof. intros W I. destruct (run_app_ok cstate codec2_decode codec2_160 o cbs st W I) as [st' [outs [H [_ T]]]].
  exists st', outs. split; [exact H|]. rewrite T. apply stdout_total_640. Qed.

Lemma eos_flagged_lemma o (st : app cstate) audio cost a0 : length audio = audio_bytes -> app_inv cstate st ->
  nth_error audio da_eos_idx = Some a0 ->
  exists st' out, handle_frame cstate codec2_decode o st (CbStream audio cost) = Ok (st', out) /\
    length (r_out out) = 640 /\
    (((cost < da_eos_cost)%Z /\ N.land a0 da_eos_mask <> 0%N) ->
       r_ret out = false /\ r_err out = (if o_display_lsf o then [10%N] ++ str "EOS" ++ [10%N] else [])) /\
    (~ ((cost < da_eos_cost)%Z /\ N.land a0 da_eos_mask <> 0%N) -> r_ret out = true /\ r_err out = []).
Proof. intros L I Ha. cbn [handle_frame].
  destruct (demodulate_audio_ok cstate codec2_decode codec2_160 o st audio cost L I) as [st' [out [H [_ Lo]]]].
  exists st', out. split; [exact H|]. split; [exact Lo|].
  destruct (eos_lemma cstate codec2_decode o st st' audio cost out a0 Ha H) as [R E]. cbv zeta in R, E.
  split.
  - intros [C B]. apply Z.ltb_lt in C. apply N.eqb_neq in B. rewrite C, B in R, E. cbn [andb negb] in R, E. split; [exact R|exact E].
  - intros NN. assert (F : (cost <? da_eos_cost)%Z && negb (N.eqb (N.land a0 da_eos_mask) 0) = false).
    { destruct (cost <? da_eos_cost)%Z eqn:C; [|reflexivity]. destruct (N.eqb (N.land a0 da_eos_mask) 0) eqn:B; [reflexivity|].
      exfalso. apply NN. apply Z.ltb_lt in C. apply N.eqb_neq in B. split; assumption. }
    rewrite F in R, E. cbn [andb negb] in R, E. split; [exact R|exact E].
Qed.
End Audio.

(** the literals of the EOS test and of the audio writes are the ones the property names: first payload byte, bit 7
    (frame-number bit 15), cost limit 70; two writes of 320 bytes (2 x 160 int16 samples = one 40 ms frame) *)
Lemma eos_constants : da_eos_idx = 0 /\ da_eos_mask = 128%N /\ da_eos_cost = 70%Z /\ da_blank_cost = 80%Z /\
  da_write_bytes = 320 /\ da_writes_per_frame = 2 /\ da_buf_samples = 160 /\ da_off1 = 2 /\ da_off2 = 10.
Proof. repeat split; reflexivity. Qed.
