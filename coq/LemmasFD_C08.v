(** C08: the state machine's payload decoder is the specification decoder (ML decode of the erasure-marked frame),
    and the transitions of the documented state machine. *)
From Coq Require Import NArith ZArith List Bool Lia.
From M17 Require Import Bits ImplCRC ConstsCrc ImplFrameDecoder SpecFrames FrameDecoderInst ImplViterbi SpecConv
  SpecPuncture LemmasPuncture LemmasFD_Refine LemmasFD_Inst LemmasVit_ML LemmasVit_Free Properties_C02.
Import ListNotations.

(** number of soft values handed to the de-puncturing of each geometry *)
Definition g_rx (g : geometry) : nat := match g with GLsf => 368 | GStream => 272 | GPacket => 368 | GBert => 368 end.

Lemma spread_Forall {A} (P : A -> Prop) (e : A) : P e -> forall m l, Forall P l -> Forall P (spread e m l).
Proof. intros Pe. induction m as [|b m IH]; intros l Hl; [constructor|].
  destruct b; cbn [spread].
  - destruct l as [|x l].
    + constructor; [exact Pe | apply IH; constructor].
    + inversion Hl as [|? ? Hx Hl']; subst. constructor; [exact Hx | apply IH; exact Hl'].
  - constructor; [exact Pe | apply IH; exact Hl]. Qed.

Lemma bit_of_b2n (l : list bool) : map bit_of (map b2n l) = l.
Proof. induction l as [|b l IH]; [reflexivity|]. cbn [map]. rewrite IH. destruct b; reflexivity. Qed.

Lemma g_even g : Nat.even (g_in g) = true. Proof. destruct g; reflexivity. Qed.

Lemma sm_decoder_is_ml (g : geometry) (inp : list Z) :
  length inp = g_rx g -> Forall (fun x => (-128 <= x <= 127)%Z) inp ->
  let r := fd_depuncture g inp (repeat 0%Z (g_in g)) in
  let L := soft_limit W_dec in
  exists w : list bool, length w = (g_in g / 2)%nat /\ fst (sm_dec g inp) = firstn (g_out g) w /\
    (forall w', length w' = (g_in g / 2)%nat -> (dist L r (conv w) <= dist L r (conv w'))%Z) /\
    snd (sm_dec g inp) = ((2 * dist L r (conv w) + L) / (2 * L))%Z.
Proof. intros Li Hi r L.
  assert (Lr : length r = g_in g) by (apply fd_depuncture_len; apply repeat_length).
  assert (Hr : Forall (fun x => (-128 <= x <= 127)%Z) r).
  { subst r. unfold fd_depuncture.
    rewrite (depuncture_spec (fd_matrix g) (g_in g) inp _ (fd_matrix_nonempty g) (repeat_length _ _)). cbn [fst].
    apply spread_Forall; [lia | exact Hi]. }
  unfold sm_dec, spec_dec. fold r. unfold fd_viterbi.
  destruct (g_in_ok g) as [HIN HOUT].
  destruct (ImplViterbi.decode W_dec (g_in g) (g_out g) scratch0 (map b2n (repeat false (g_out g))) r) as [[o c] s1] eqn:E.
  assert (E' : fst (ImplViterbi.decode W_dec (g_in g) (g_out g) scratch0 (map b2n (repeat false (g_out g))) r) = (o, c)) by (rewrite E; reflexivity).
  destruct (viterbi_ml_gen source_tiebreak W_dec (g_in g) (g_out g) scratch0 (map b2n (repeat false (g_out g))) r o c
              W_dec_ok (g_even g) HIN HOUT scratch0_ok ltac:(rewrite map_length, repeat_length; reflexivity) Lr Hr E')
    as ((w & Lw & Ew & Hmin & Hc & _) & _).
  exists w. cbn [fst snd]. split; [exact Lw|]. split; [rewrite <- Ew; apply bit_of_b2n|]. split; [exact Hmin | exact Hc]. Qed.

Notation sm_step_fd := LemmasFD_Inst.sm_step_fd.

Lemma type_dispatch (m : mode) (bits : list bool) :
  update_state m bits =
    if nth 111 bits false then (if nth 109 bits false then MStream else m)
    else if andb (negb (nth 109 bits false)) (nth 110 bits false) then MBasic else MFull.
Proof. unfold update_state, bit_at. destruct (nth 111 bits false); [reflexivity|].
  destruct (nth 109 bits false), (nth 110 bits false); reflexivity. Qed.

Lemma sm_transitions (s : sm_state) (fr : list Z) (r : bool) :
  (In (sm_mode s) [MBasic; MFull; MBert] -> sm_observe (sm_step_fd s SStream fr r) = (MLsf, RFail, None, [])) /\
  (In (sm_mode s) [MLsf; MStream; MBert] -> sm_observe (sm_step_fd s SPacket fr r) = (MLsf, RFail, None, [])) /\
  (exists cb, sm_observe (sm_step_fd s SBert fr r) = (MBert, ROk, Some (cb_cost cb), [cb]) /\ cb_type cb = FBert) /\
  (forall m, sm_observe (sm_step_fd s SLsf fr r) = sm_observe (sm_step_fd (mksm m (sm_seg s) (sm_lsf s)) SLsf fr r)) /\
  (sm_mode s = MStream -> exists cb, sm_observe (sm_step_fd s SStream fr r) = (MStream, ROk, Some (cb_cost cb), [cb]) /\ cb_type cb = FStream) /\
  (In (sm_mode s) [MBasic; MFull] -> exists cb, snd (sm_observe (sm_step_fd s SPacket fr r)) = [cb] /\
       cb_type cb = (match sm_mode s with MBasic => FBasic | _ => FFull end) /\
       (if negb (N.eqb (N.land (nth 25 (cb_bytes cb) 0%N) 128) 0)
        then fst (fst (sm_observe (sm_step_fd s SPacket fr r))) = (MLsf, if r then ROk else RFail)
        else fst (fst (sm_observe (sm_step_fd s SPacket fr r))) = (sm_mode s, RPacketIncomplete))).
Proof.
  unfold LemmasFD_Inst.sm_step_fd, sm_step. set (f := sm_prep fr). clearbody f.
  split; [|split; [|split; [|split; [|split]]]].
  - intros [<-|[<-|[<-|[]]]]; reflexivity.
  - intros [<-|[<-|[<-|[]]]]; reflexivity.
  - unfold sm_payload. destruct (sm_dec GBert f) as [bits cost]. exists (mkcb FBert (pack_bits bits) cost). split; reflexivity.
  - intros m. reflexivity.
  - intros H. rewrite H. unfold sm_payload. destruct (sm_dec GStream (skipn 96 f)) as [bits cost]. exists (mkcb FStream (pack_bits bits) cost).
    unfold sm_observe. cbn [fst snd cb_cost cb_type]. rewrite H. split; reflexivity.
  - intros [H|[H|[]]]; rewrite <- H; unfold sm_payload; destruct (sm_dec GPacket f) as [bits cost].
    + exists (mkcb FBasic (pack_bits bits) cost). cbn [cb_bytes cb_type].
      destruct (negb (N.eqb (N.land (nth 25 (pack_bits bits) 0%N) 128) 0)); unfold sm_observe; cbn [fst snd sm_mode];
        rewrite <- ?H; (split; [reflexivity | split; reflexivity]).
    + exists (mkcb FFull (pack_bits bits) cost). cbn [cb_bytes cb_type].
      destruct (negb (N.eqb (N.land (nth 25 (pack_bits bits) 0%N) 128) 0)); unfold sm_observe; cbn [fst snd sm_mode];
        rewrite <- ?H; (split; [reflexivity | split; reflexivity]).
Qed.
