(** Decomposition of one step of the control model into  pre-dispatch (count, correlator, clock handling at
    index 0) ; dispatch ; post-dispatch (carrier poll), and the field-preservation facts used by the C03/C06 proofs. *)
From Coq Require Import ZArith Bool List Lia ZifyBool.
From M17 Require Import ConstsDemod ImplDemodCtl SpecDemodCtl.
Import ListNotations.
Local Open Scope Z_scope.
Ltac Zify.zify_post_hook ::= Z.div_mod_to_equations.

Ltac st_cbn :=
  cbn [init_left eot_flag count ds swt sample_index dcd_ ncr ncu sync_count missing ssi cpos cprev fidx cost cr_idx cr_cnt
       dcd_trig dec_state
       set_init_left set_eot_flag set_count set_ds set_swt set_sample_index set_dcd_ set_ncr set_ncu set_sync_count set_missing
       set_ssi set_cpos set_cprev set_fidx set_cost set_cr_idx set_cr_cnt set_dcd_trig set_dec_state fst snd] in *.

Ltac unfold_consts :=
  unfold MIN_SYNC_COUNT, MAX_SYNC_COUNT, STREAM_COST_LIMIT, PACKET_COST_LIMIT, MAX_MISSING_SYNC, POLL_DCD, POLL_NODCD,
         CORR_SPS, CORR_BUFFER, FAR_POINT, FRAMER_BITS, SAMPLES_PER_SYMBOL, PREAMBLE_PHASE, LSF_SYNC_TIMEOUT, LONG_PREAMBLE,
         INITIALIZING, SYNC_SYMBOLS, PAYLOAD_SYMBOLS in *.

Ltac destruct_st s :=
  destruct s as [s_init s_eot s_count s_ds s_swt s_si s_dcd s_ncr s_ncu s_sc s_miss s_ssi s_cpos s_cprev s_fidx s_cost s_cridx s_crcnt s_trig s_dec].

Definition pre_dispatch (s : st) (o : obs) : st * list event :=
  clock_at_zero (corr_sample (set_count (s.(count) + 1) s)) o.

Definition post_dispatch (s : st) (o : obs) : st * list event :=
  if s.(count) mod POLL_DCD =? 0 then
    let (s5, e3) := update_dcd s in (dcd_poll (set_count 0 s5) o, e3 ++ [EvDcdUpdate])
  else (s, []).

Lemma step_locked_eq s o :
  s.(init_left) = 0 -> s.(dcd_) = true ->
  step s o = let (s3, e1) := pre_dispatch s o in
             let (s4, e2) := dispatch s3 o in
             let (s5, e3) := post_dispatch s4 o in (s5, e1 ++ e2 ++ e3).
Proof.
  intros Hi Hd. unfold step, pre_dispatch, post_dispatch.
  st_cbn. rewrite Hi, Hd. cbn [Z.ltb Z.compare negb].
  destruct (clock_at_zero (corr_sample (set_count (count s + 1) s)) o) as [s3 e1].
  destruct (dispatch s3 o) as [s4 e2].
  destruct (count s4 mod POLL_DCD =? 0).
  - destruct (update_dcd s4) as [s5 e3]. reflexivity.
  - rewrite app_nil_r. reflexivity.
Qed.

(** events that matter to the framing monitor *)
Definition quiet (ev : list event) : Prop := has_sym ev = false /\ decodes ev = [].

Lemma has_sym_app a b : has_sym (a ++ b) = has_sym a || has_sym b.
Proof. unfold has_sym. apply existsb_app. Qed.
Lemma decodes_app a b : decodes (a ++ b) = decodes a ++ decodes b.
Proof. unfold decodes. apply flat_map_app. Qed.
Lemma quiet_app a b : quiet a -> quiet b -> quiet (a ++ b).
Proof. intros [A1 A2] [B1 B2]. split; [rewrite has_sym_app, A1, B1; reflexivity | rewrite decodes_app, A2, B2; reflexivity]. Qed.
Lemma has_sym_quiet_l a b : quiet a -> has_sym (a ++ b) = has_sym b.
Proof. intros [A _]. rewrite has_sym_app, A. reflexivity. Qed.
Lemma decodes_quiet_l a b : quiet a -> decodes (a ++ b) = decodes b.
Proof. intros [_ A]. rewrite decodes_app, A. reflexivity. Qed.
Lemma has_sym_quiet_r a b : quiet b -> has_sym (a ++ b) = has_sym a.
Proof. intros [B _]. rewrite has_sym_app, B, orb_false_r. reflexivity. Qed.
Lemma decodes_quiet_r a b : quiet b -> decodes (a ++ b) = decodes a.
Proof. intros [_ B]. rewrite decodes_app, B, app_nil_r. reflexivity. Qed.

(** what pre_dispatch does to the fields that dispatch reads *)
Record pre_spec (s s3 : st) : Prop := {
  ps_init : init_left s3 = init_left s;
  ps_eot : eot_flag s3 = eot_flag s;
  ps_count : count s3 = count s + 1;
  ps_ds : ds s3 = ds s;
  ps_swt : swt s3 = swt s;
  ps_dcd : dcd_ s3 = dcd_ s;
  ps_sc : sync_count s3 = sync_count s;
  ps_miss : missing s3 = missing s;
  ps_ssi : ssi s3 = ssi s;
  ps_cprev : cprev s3 = cpos s;
  ps_cpos : cpos s3 = (if cpos s + 1 =? CORR_BUFFER then 0 else cpos s + 1);
  ps_fidx : fidx s3 = fidx s;
  ps_cost : cost s3 = cost s;
  ps_trig : dcd_trig s3 = dcd_trig s;
  ps_dec : dec_state s3 = dec_state s;
  ps_si : sample_index s3 = (if (cpos s mod CORR_SPS =? 0) && ncr s then ssi s else sample_index s);
  ps_ncr : ncr s3 = (if cpos s mod CORR_SPS =? 0 then false else ncr s)
}.

Lemma pre_dispatch_spec s o : pre_spec s (fst (pre_dispatch s o)) /\ quiet (snd (pre_dispatch s o)).
Proof.
  unfold pre_dispatch, clock_at_zero, corr_sample, corr_index. destruct_st s. st_cbn.
  destruct (s_cpos mod CORR_SPS =? 0) eqn:E; [destruct s_ncr; [|destruct s_ncu]|]; st_cbn;
    (split; [constructor; st_cbn; rewrite ?E; reflexivity | split; reflexivity]).
Qed.

(** what post_dispatch does when the carrier detector keeps reporting the carrier *)
Record post_spec (s s5 : st) : Prop := {
  po_init : init_left s5 = init_left s;
  po_eot : eot_flag s5 = eot_flag s;
  po_ds : ds s5 = ds s;
  po_swt : swt s5 = swt s;
  po_si : sample_index s5 = sample_index s;
  po_dcd : dcd_ s5 = true;
  po_trig : dcd_trig s5 = true;
  po_ncr : ncr s5 = ncr s;
  po_ncu : ncu s5 = ncu s;
  po_sc : sync_count s5 = sync_count s;
  po_miss : missing s5 = missing s;
  po_ssi : ssi s5 = ssi s;
  po_cpos : cpos s5 = cpos s;
  po_cprev : cprev s5 = cprev s;
  po_fidx : fidx s5 = fidx s;
  po_cost : cost s5 = cost s;
  po_dec : dec_state s5 = dec_state s;
  po_count : 0 <= count s -> 0 <= count s5
}.

Lemma post_dispatch_locked s o :
  dcd_ s = true -> dcd_trig s = true -> o_lvl_lo o = true ->
  post_spec s (fst (post_dispatch s o)) /\ quiet (snd (post_dispatch s o)).
Proof.
  intros Hd Ht Hl. unfold post_dispatch, update_dcd, dcd_poll. destruct_st s. st_cbn. subst.
  cbn [negb andb]. destruct (s_count mod POLL_DCD =? 0); st_cbn.
  - rewrite Hl. split; [constructor; st_cbn; try reflexivity; intros; lia | split; reflexivity].
  - split; [constructor; st_cbn; try reflexivity; intros; lia | split; reflexivity].
Qed.

Lemma events_cons s o os : events s (o :: os) = snd (step s o) :: events (fst (step s o)) os.
Proof.
  unfold events. cbn [run]. destruct (step s o) as [s1 ev]. cbn [fst snd].
  destruct (run s1 os) as [s2 evs]. reflexivity.
Qed.
Lemma final_cons s o os : final s (o :: os) = final (fst (step s o)) os.
Proof.
  unfold final. cbn [run]. destruct (step s o) as [s1 ev]. cbn [fst snd].
  destruct (run s1 os) as [s2 evs]. reflexivity.
Qed.
Lemma events_nil s : events s [] = []. Proof. reflexivity. Qed.
Lemma final_nil s : final s [] = s. Proof. reflexivity. Qed.
