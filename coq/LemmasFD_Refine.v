(** Frame decoder refines the documented state machine (C08): for every state, frame, sync type and
    callback result, the observation (mode, return code, cost, callbacks) of the implementation equals
    that of SpecFrames.sm_step on the abstraction (mode, LICH bitmap, LSF buffer). *)
From Coq Require Import NArith ZArith List Bool Lia.
From M17 Require Import Bits ImplCRC ConstsCrc ImplFrameDecoder SpecFrames LemmasFD_Hidden.
Import ListNotations.

Section Refine.
Variable VS : Type.
Variable vs0 : VS.
Variable derandomize deinterleave : list Z -> list Z.
Variable depuncture : geometry -> list Z -> list Z -> list Z.
Variable viterbi : geometry -> VS -> list Z -> list bool -> (list bool * Z) * VS.
Variable golay_decode : N -> option N.
Variable vs_ok : VS -> Prop.
Hypothesis vs0_ok : vs_ok vs0.
Hypothesis depuncture_indep : forall g inp prev prev',
  length prev = g_in g -> length prev' = g_in g -> depuncture g inp prev = depuncture g inp prev'.
Hypothesis depuncture_len : forall g inp prev, length prev = g_in g -> length (depuncture g inp prev) = g_in g.
Hypothesis viterbi_indep : forall g vs vs' inp prev prev', vs_ok vs -> vs_ok vs' ->
  length inp = g_in g -> length prev = g_out g -> length prev' = g_out g ->
  fst (viterbi g vs inp prev) = fst (viterbi g vs' inp prev').
Hypothesis viterbi_len : forall g vs inp prev, vs_ok vs ->
  length inp = g_in g -> length prev = g_out g ->
  length (fst (fst (viterbi g vs inp prev))) = g_out g /\ vs_ok (snd (viterbi g vs inp prev)).

Notation dstate := (dstate VS).
Notation step := (step VS derandomize deinterleave depuncture viterbi golay_decode).

(* the specification decoder of a geometry: the pipeline run on clean buffers *)
Definition spec_dec (g : geometry) (inp : list Z) : list bool * Z :=
  fst (viterbi g vs0 (depuncture g inp (repeat 0%Z (g_in g))) (repeat false (g_out g))).
Definition spec_lich (fr : list Z) : option (list N) :=
  let '(lich, ok) := unpack_lich golay_decode fr in if ok then Some lich else None.
Definition spec_prep (f : list Z) : list Z := deinterleave (derandomize f).
Definition spec_crc_ok (l : list N) : bool := N.eqb (crc30 l) 0.

Notation sm_step := (sm_step spec_prep spec_dec spec_lich spec_crc_ok).

Definition abs (s : dstate) : sm_state := mksm (d_mode VS s) (d_seg VS s) (d_lsf VS s).
Definition clean : hidden VS := mkhid VS (repeat 0%Z 488) (repeat false 240) (repeat 0%N 26) vs0.
Definition cleaned (s : dstate) : dstate := mkst VS (d_mode VS s) (d_seg VS s) (d_lsf VS s) clean.

Lemma clean_ok : hid_ok VS vs_ok clean.
Proof. unfold hid_ok, clean. cbn [h_dbuf h_obuf h_ubuf h_vs]. rewrite !repeat_length. repeat split. exact vs0_ok. Qed.

Lemma firstn_repeat {A} (x : A) n m : (n <= m)%nat -> firstn n (repeat x m) = repeat x n.
Proof. revert m. induction n as [|n IH]; intros m H; [reflexivity|].
  destruct m as [|m]; [lia|]. cbn [repeat firstn]. f_equal. apply IH. lia. Qed.

Lemma decode_payload_clean g inp :
  let r := decode_payload VS depuncture viterbi g clean inp in
  fst (fst (fst r)) = to_bytes (fst (spec_dec g inp)) /\ snd (fst (fst r)) = fst (spec_dec g inp) /\
  snd (fst r) = snd (spec_dec g inp).
Proof. unfold decode_payload, spec_dec, clean. cbn [h_dbuf h_obuf h_vs h_ubuf].
  rewrite (firstn_repeat 0%Z) by (destruct g; cbn; lia).
  rewrite (firstn_repeat false) by (destruct g; cbn; lia).
  destruct (viterbi g vs0 _ _) as [[bits cost] vs']. cbn [fst snd]. repeat split. Qed.

(* on clean buffers the implementation step is literally the state-machine step *)
Lemma step_clean s sw fr r :
  observe VS (step (cleaned s) sw fr r) = sm_observe (sm_step (abs s) sw fr r) /\
  abs (st_of VS (step (cleaned s) sw fr r)) = fst (fst (fst (sm_step (abs s) sw fr r))).
Proof.
  unfold ImplFrameDecoder.step, SpecFrames.sm_step, cleaned, abs, with_mode. cbn [d_mode d_seg d_lsf d_hid sm_mode sm_seg sm_lsf].
  fold (spec_prep fr). set (f := spec_prep fr). clearbody f.
  destruct sw.
  - unfold decode_lsf, sm_lsf_frame. cbn [d_mode d_seg d_lsf d_hid sm_mode sm_seg sm_lsf].
    destruct (decode_payload_clean GLsf f) as (A & B & C). cbv zeta in A, B, C.
    destruct (decode_payload VS depuncture viterbi GLsf clean f) as [[[bytes bits] cost] h1]. cbn [fst snd] in A, B, C.
    destruct (spec_dec GLsf f) as [sbits scost]. cbn [fst snd] in A, B, C. subst bytes bits cost.
    unfold spec_crc_ok, to_bytes, type_mode. destruct (N.eqb (crc30 (pack_bits sbits)) 0);
      unfold observe, sm_observe, st_of, res_of, cost_of, cbs_of; cbn [fst snd d_mode d_seg d_lsf sm_mode]; split; reflexivity.
  - destruct (d_mode VS s).
    + unfold decode_lich, sm_lich_frame, spec_lich. cbn [d_mode d_seg d_lsf d_hid sm_mode sm_seg sm_lsf].
      destruct (unpack_lich golay_decode f) as [lich ok]. destruct ok; cbn [negb].
      * unfold MAX_LICH_FRAGMENT, spec_crc_ok.
        destruct (N.ltb 5 _); [|destruct (negb _); [|destruct (N.eqb (crc30 _) 0)]];
          unfold observe, sm_observe, st_of, res_of, cost_of, cbs_of; cbn [fst snd d_mode d_seg d_lsf sm_mode]; split; reflexivity.
      * unfold observe, sm_observe, st_of, res_of, cost_of, cbs_of; cbn [fst snd d_mode d_seg d_lsf sm_mode]; split; reflexivity.
    + unfold decode_stream, sm_payload. cbn [d_mode d_seg d_lsf d_hid].
      destruct (decode_payload_clean GStream (skipn 96 f)) as (A & B & C). cbv zeta in A, B, C.
      destruct (decode_payload VS depuncture viterbi GStream clean (skipn 96 f)) as [[[bytes bits] cost] h1]. cbn [fst snd] in A, B, C.
      destruct (spec_dec GStream (skipn 96 f)) as [sbits scost]. cbn [fst snd] in A, B, C. subst bytes bits cost.
      unfold observe, sm_observe, st_of, res_of, cost_of, cbs_of, to_bytes; cbn [fst snd d_mode d_seg d_lsf sm_mode]; split; reflexivity.
    + unfold observe, sm_observe, st_of, res_of, cost_of, cbs_of; cbn [fst snd d_mode d_seg d_lsf sm_mode]; split; reflexivity.
    + unfold observe, sm_observe, st_of, res_of, cost_of, cbs_of; cbn [fst snd d_mode d_seg d_lsf sm_mode]; split; reflexivity.
    + unfold observe, sm_observe, st_of, res_of, cost_of, cbs_of; cbn [fst snd d_mode d_seg d_lsf sm_mode]; split; reflexivity.
  - destruct (d_mode VS s);
      try (unfold observe, sm_observe, st_of, res_of, cost_of, cbs_of; cbn [fst snd d_mode d_seg d_lsf sm_mode]; split; reflexivity).
    + unfold decode_packet, sm_payload. cbn [d_mode d_seg d_lsf d_hid].
      destruct (decode_payload_clean GPacket f) as (A & B & C). cbv zeta in A, B, C.
      destruct (decode_payload VS depuncture viterbi GPacket clean f) as [[[bytes bits] cost] h1]. cbn [fst snd] in A, B, C.
      destruct (spec_dec GPacket f) as [sbits scost]. cbn [fst snd] in A, B, C. subst bytes bits cost.
      unfold to_bytes. destruct (negb (N.eqb (N.land (nth 25 (pack_bits sbits) 0%N) 128) 0));
        unfold observe, sm_observe, st_of, res_of, cost_of, cbs_of; cbn [fst snd d_mode d_seg d_lsf sm_mode]; split; reflexivity.
    + unfold decode_packet, sm_payload. cbn [d_mode d_seg d_lsf d_hid].
      destruct (decode_payload_clean GPacket f) as (A & B & C). cbv zeta in A, B, C.
      destruct (decode_payload VS depuncture viterbi GPacket clean f) as [[[bytes bits] cost] h1]. cbn [fst snd] in A, B, C.
      destruct (spec_dec GPacket f) as [sbits scost]. cbn [fst snd] in A, B, C. subst bytes bits cost.
      unfold to_bytes. destruct (negb (N.eqb (N.land (nth 25 (pack_bits sbits) 0%N) 128) 0));
        unfold observe, sm_observe, st_of, res_of, cost_of, cbs_of; cbn [fst snd d_mode d_seg d_lsf sm_mode]; split; reflexivity.
  - unfold decode_bert, sm_payload. cbn [d_mode d_seg d_lsf d_hid].
    destruct (decode_payload_clean GBert f) as (A & B & C). cbv zeta in A, B, C.
    destruct (decode_payload VS depuncture viterbi GBert clean f) as [[[bytes bits] cost] h1]. cbn [fst snd] in A, B, C.
    destruct (spec_dec GBert f) as [sbits scost]. cbn [fst snd] in A, B, C. subst bytes bits cost.
    unfold observe, sm_observe, st_of, res_of, cost_of, cbs_of, to_bytes; cbn [fst snd d_mode d_seg d_lsf sm_mode]; split; reflexivity.
Qed.

Lemma cleaned_visible s : same_visible VS s (cleaned s).
Proof. unfold same_visible, cleaned; cbn. repeat split. Qed.

(** one call, any hidden buffer contents *)
Theorem step_refines_sm s sw fr r : hid_ok VS vs_ok (d_hid VS s) ->
  observe VS (step s sw fr r) = sm_observe (sm_step (abs s) sw fr r) /\
  abs (st_of VS (step s sw fr r)) = fst (fst (fst (sm_step (abs s) sw fr r))) /\
  hid_ok VS vs_ok (d_hid VS (st_of VS (step s sw fr r))).
Proof. intros H.
  destruct (step_hidden_indep VS derandomize deinterleave depuncture viterbi golay_decode vs_ok
              depuncture_indep depuncture_len viterbi_indep viterbi_len
              s (cleaned s) sw fr r (cleaned_visible s) H clean_ok) as (O & (M & S & L) & H1 & _).
  destruct (step_clean s sw fr r) as (O2 & A2).
  split; [rewrite O; exact O2|]. split; [|exact H1].
  rewrite <- A2. unfold abs. rewrite M, S, L. reflexivity. Qed.

(** every history from every state: the observation sequence is the state machine's *)
Theorem run_refines_sm h : forall s, hid_ok VS vs_ok (d_hid VS s) ->
  fst (run VS derandomize deinterleave depuncture viterbi golay_decode s h) = sm_run spec_prep spec_dec spec_lich spec_crc_ok (abs s) h.
Proof. induction h as [|[[sw fr] r] h IH]; intros s H; [reflexivity|].
  cbn [run sm_run]. destruct (step_refines_sm s sw fr r H) as (O & A & H1).
  specialize (IH _ H1).
  destruct (run _ _ _ _ _ _ (st_of VS (step s sw fr r)) h) as [obs1 s1]. cbn [fst] in *.
  rewrite O, IH, A. reflexivity. Qed.

End Refine.
