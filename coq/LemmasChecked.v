(** Success conditions of the checked accessors (Checked.v). *)
From Coq Require Import NArith ZArith Bool String Ascii Lia Arith List.
From M17 Require Import Checked.
Import ListNotations.

Lemma is_ok_Ok {A} (a : A) : is_ok (Ok a).
Proof. exists a. reflexivity. Qed.

Lemma is_ok_bind {A B} (m : res A) (f : A -> res B) :
  is_ok m -> (forall a, m = Ok a -> is_ok (f a)) -> is_ok (bind m f).
Proof. intros [a Ha] H. rewrite Ha. cbn [bind]. apply H. exact Ha. Qed.

Lemma is_ok_not_oob {A} (r : res A) : is_ok r -> (forall s, r <> Oob s) /\ (forall s, r <> Throw s) /\ r <> Diverge.
Proof. intros [a ->]. repeat split; intros; discriminate. Qed.

Lemma is_okb_true {A} (r : res A) : is_okb r = true -> is_ok r.
Proof. destruct r; try discriminate. intros _. eexists; reflexivity. Qed.

Section Access.
Context {A : Type}.

Lemma get_ok site (l : list A) i : i < length l -> exists x, get site l i = Ok x.
Proof. intros H. unfold get. destruct (nth_error l i) eqn:E; [eexists; reflexivity|].
  apply nth_error_None in E. lia. Qed.

Lemma get_is_ok site (l : list A) i : i < length l -> is_ok (get site l i).
Proof. exact (get_ok site l i). Qed.

Lemma get_oob site (l : list A) i : length l <= i -> get site l i = Oob site.
Proof. intros H. unfold get. apply nth_error_None in H. rewrite H. reflexivity. Qed.

Lemma replace_nth_length (l : list A) : forall i v, length (replace_nth l i v) = length l.
Proof. induction l as [|h t IH]; intros [|i] v; cbn [replace_nth length]; try reflexivity. rewrite IH. reflexivity. Qed.

Lemma set_ok site (l : list A) i v : i < length l -> set site l i v = Ok (replace_nth l i v).
Proof. intros H. unfold set. apply Nat.ltb_lt in H. rewrite H. reflexivity. Qed.

Lemma set_inv site (l : list A) i v r : set site l i v = Ok r -> i < length l /\ r = replace_nth l i v.
Proof. unfold set. destruct (i <? length l) eqn:E; [|discriminate]. intros [= <-]. apply Nat.ltb_lt in E. split; [exact E|reflexivity]. Qed.

Lemma set_length site (l : list A) i v r : set site l i v = Ok r -> length r = length l.
Proof. intros H. apply set_inv in H. destruct H as [_ ->]. apply replace_nth_length. Qed.

Lemma get_each_ok site (l : list A) idxs :
  Forall (fun i => i < length l) idxs -> exists xs, get_each site l idxs = Ok xs /\ length xs = length idxs.
Proof. induction idxs as [|i r IH]; intros H.
- exists []. split; reflexivity.
- inversion H as [|? ? Hi Hr]; subst. destruct (get_ok site l i Hi) as [x Hx]. destruct (IH Hr) as [xs [Hxs Hl]].
  exists (x :: xs). cbn [get_each]. rewrite Hx. cbn [bind]. rewrite Hxs. cbn [bind]. split; [reflexivity|]. cbn [length]. rewrite Hl. reflexivity.
Qed.

Lemma Forall_seq_lt a n m : a + n <= m -> Forall (fun i => i < m) (seq a n).
Proof. intros H. apply Forall_forall. intros i Hi. apply in_seq in Hi. lia. Qed.

Lemma get_each_seq_ok site (l : list A) a n :
  a + n <= length l -> exists xs, get_each site l (seq a n) = Ok xs /\ length xs = n.
Proof. intros H. destruct (get_each_ok site l (seq a n) (Forall_seq_lt a n _ H)) as [xs [E L]].
  exists xs. split; [exact E|]. rewrite L. apply seq_length. Qed.

Lemma range_ok site (l : list A) a b : a <= b -> b <= length l -> range site l a b = Ok (firstn (b - a) (skipn a l)).
Proof. intros H1 H2. unfold range. apply Nat.leb_le in H1. apply Nat.leb_le in H2. rewrite H1, H2. reflexivity. Qed.

Lemma range_inv site (l : list A) a b r : range site l a b = Ok r -> a <= b /\ b <= length l /\ r = firstn (b - a) (skipn a l).
Proof. unfold range. destruct (a <=? b) eqn:E1; [|discriminate]. destruct (b <=? length l) eqn:E2; [|discriminate].
  cbn [andb]. intros [= <-]. apply Nat.leb_le in E1. apply Nat.leb_le in E2. auto. Qed.

Lemma range_length site (l : list A) a b r : range site l a b = Ok r -> length r = b - a.
Proof. intros H. apply range_inv in H. destruct H as [H1 [H2 ->]]. rewrite firstn_length, skipn_length. lia. Qed.

Lemma write_at_ok site (src : list A) : forall dst at_, at_ + length src <= length dst ->
  exists d, write_at site dst at_ src = Ok d /\ length d = length dst.
Proof. induction src as [|x r IH]; intros dst at_ H.
- exists dst. split; reflexivity.
- cbn [length] in H. cbn [write_at]. rewrite set_ok by lia. cbn [bind].
  destruct (IH (replace_nth dst at_ x) (S at_)) as [d [Hd Hl]]; [rewrite replace_nth_length; lia|].
  exists d. split; [exact Hd|]. rewrite Hl. apply replace_nth_length.
Qed.
End Access.

Lemma str_at_ok site (s : list N) i : i <= length s -> exists c, str_at site s i = Ok c.
Proof. intros H. unfold str_at. destruct (i =? length s) eqn:E; [eexists; reflexivity|].
  apply Nat.eqb_neq in E. apply get_ok. lia. Qed.

Lemma str_at_is_ok site (s : list N) i : i <= length s -> is_ok (str_at site s i).
Proof. exact (str_at_ok site s i). Qed.

Lemma substr_ok site (s : list N) pos len : pos <= length s -> substr site s pos len = Ok (firstn len (skipn pos s)).
Proof. intros H. unfold substr. apply Nat.leb_le in H. rewrite H. reflexivity. Qed.

Lemma substr_full_length (s : list N) pos len : pos + len <= length s -> length (firstn len (skipn pos s)) = len.
Proof. intros H. rewrite firstn_length, skipn_length. lia. Qed.

Lemma erase_from_ok site (s : list N) pos : pos <= length s -> erase_from site s pos = Ok (firstn pos s).
Proof. intros H. unfold erase_from. apply Nat.leb_le in H. rewrite H. reflexivity. Qed.

Lemma find_first_lt c (s : list N) : forall p, find_first c s = Some p -> p < length s.
Proof. induction s as [|x r IH]; intros p H; [discriminate|]. cbn [find_first] in H.
  destruct (N.eqb x c).
  - injection H as <-. cbn [length]. lia.
  - destruct (find_first c r) as [q|] eqn:E; [|discriminate]. cbn [option_map] in H. injection H as <-.
    cbn [length]. specialize (IH q eq_refl). lia.
Qed.

Lemma le16_length s : length (le16 s) = 2.
Proof. reflexivity. Qed.

Lemma flat_map_le16_length (l : list Z) : length (flat_map le16 l) = 2 * length l.
Proof. induction l as [|x r IH]; [reflexivity|]. cbn [flat_map]. rewrite app_length, IH, le16_length. cbn [length]. lia. Qed.

Lemma pad_left_length_ge w c l : length l <= w -> length (pad_left w c l) = w.
Proof. intros H. unfold pad_left. rewrite app_length, repeat_length. lia. Qed.
