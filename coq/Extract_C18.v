(** Extraction of the PRBS models for the correspondence check: ExtrOcamlBasic only. *)
Require Extraction.
Require Import ExtrOcamlBasic.
From Coq Require Import NArith List.
From M17 Require Import ImplPRBS SpecPRBS ConstsPrbs.
Definition c18_new := prbs_new zero_history.
Definition c18_reset := prbs_reset.
Definition c18_generate := prbs_generate.
Definition c18_validate := prbs_validate.
Definition c18_synced := synced.
Definition c18_errors := err_count.
Definition c18_bits := bit_count.
Definition c18_spec_prbs := m17_prbs.
Extraction "c18_model.ml" c18_new c18_reset c18_generate c18_validate c18_synced c18_errors c18_bits c18_spec_prbs.
