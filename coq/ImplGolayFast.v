(** A faster, equivalent form of the Golay decoder model for bulk evaluation (extracted driver, sweeps of
    models that contain the decoder): the table search is replaced by a lookup in a binary trie keyed by the
    syndrome.  LemmasGolay_F proves [decode_fast r = decode r] for every 24-bit input.  No proofs here. *)
From Coq Require Import NArith List Bool FMapPositive.
From M17 Require Import ConstsGolay ImplGolay.
Import ListNotations.
Local Open Scope N_scope.

Definition key_pos (s : N) : positive := N.succ_pos s.

Definition lut_index_of (lut : list entry) : PositiveMap.t entry :=
  fold_right (fun e m => PositiveMap.add (key_pos (N.shiftr (fst e) golay_dec_cmp_shift)) e m)
             (PositiveMap.empty entry) lut.

Definition decode_fast_with (m : PositiveMap.t entry) (input : N) : dres :=
  let syndrm := syndrome (N.shiftr input golay_dec_in_shift) in
  match PositiveMap.find (key_pos syndrm) m with
  | None => DFail
  | Some e =>
    if N.shiftr (fst e) golay_dec_eq_shift =? syndrm then
      let correction := correction_of e in
      let output := N.lxor input correction in
      if (popcount correction <? golay_dec_accept_weight) || negb (parity output) then DOk output else DFail
    else DFail
  end.

Definition LUT_index : PositiveMap.t entry := lut_index_of LUT.
Definition decode_fast (input : N) : dres := decode_fast_with LUT_index input.
Definition golay_decode_fast (input : N) : option N := dres_output (decode_fast input).
