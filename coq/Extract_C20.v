(** Extraction of the C20 specification-side functions (expected LSF bytes and report line): ExtrOcamlBasic only. *)
Require Extraction.
Require Import ExtrOcamlBasic.
From Coq Require Import NArith List.
From M17 Require Import Checked SpecApp.
Definition c20_spec_lsf := spec_lsf.
Definition c20_spec_lsf_line := spec_lsf_line.
Definition c20_char_value := char_value.
Extraction "c20_model.ml" c20_spec_lsf c20_spec_lsf_line c20_char_value.
