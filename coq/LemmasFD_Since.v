(** History-level consequences of the documented state machine (SpecFrames.sm_step), for C08:
    "packet frames are accepted only after a packet-type LSF", "stream frames are payload-decoded once the decoder is in
    stream mode (entered by a voice-stream LSF or a completed LICH reassembly)", "BERT sync always decodes BERT".
    First a generic "since" theorem about any step function, then its two instances for the state machine (abstract
    payload decoder, LICH unpacker and CRC), proved by case analysis on sm_step only. *)
From Coq Require Import NArith ZArith List Bool Lia.
From M17 Require Import Bits ImplFrameDecoder SpecFrames.
Import ListNotations.

Section Since.
Variables (S I O : Type) (step : S -> I -> S * O).

Fixpoint runS (s : S) (h : list I) : list O :=
  match h with [] => [] | x :: t => snd (step s x) :: runS (fst (step s x)) t end.

Variable zone : S -> Prop.            (* "the machine is in the mode where the event may happen" *)
Variable emit arm cont : I -> O -> Prop.

Hypothesis Hemit : forall s x, emit x (snd (step s x)) -> zone s.
Hypothesis Hzone : forall s x, zone (fst (step s x)) -> arm x (snd (step s x)) \/ (zone s /\ cont x (snd (step s x))).

Definition at_ (P : I -> O -> Prop) (h : list I) (os : list O) (i : nat) : Prop :=
  exists x o, nth_error h i = Some x /\ nth_error os i = Some o /\ P x o.

(** an emission at position k is preceded by an arming event at some j < k with only continuation events between them,
    or the machine was in the zone from the start and everything before k was a continuation *)
Theorem since : forall (h : list I) (s : S) (k : nat),
  at_ emit h (runS s h) k ->
  (zone s /\ forall i, i < k -> at_ cont h (runS s h) i) \/
  (exists j, j < k /\ at_ arm h (runS s h) j /\ forall i, j < i < k -> at_ cont h (runS s h) i).
Proof.
  induction h as [|x t IH]; intros s k (y & o & Hy & Ho & He).
  - destruct k; discriminate Hy.
  - destruct k as [|k].
    + cbn [nth_error runS] in Hy, Ho. injection Hy as <-. injection Ho as <-.
      left. split; [exact (Hemit _ _ He) | intros i Hi; lia].
    + cbn [nth_error runS] in Hy, Ho.
      destruct (IH (fst (step s x)) k) as [[Hz Hc]|(j & Hj & Ha & Hc)].
      { exists y, o. split; [exact Hy | split; [exact Ho | exact He]]. }
      * destruct (Hzone _ _ Hz) as [Harm|[Hz0 Hc0]].
        -- right. exists 0. split; [lia|]. split.
           ++ exists x, (snd (step s x)). cbn [nth_error runS]. split; [reflexivity | split; [reflexivity | exact Harm]].
           ++ intros i [Hi1 Hi2]. destruct i as [|i]; [lia|].
              destruct (Hc i ltac:(lia)) as (xi & oi & H1 & H2 & H3). exists xi, oi. cbn [nth_error runS].
              split; [exact H1 | split; [exact H2 | exact H3]].
        -- left. split; [exact Hz0|]. intros i Hi. destruct i as [|i].
           ++ exists x, (snd (step s x)). cbn [nth_error runS]. split; [reflexivity | split; [reflexivity | exact Hc0]].
           ++ destruct (Hc i ltac:(lia)) as (xi & oi & H1 & H2 & H3). exists xi, oi. cbn [nth_error runS].
              split; [exact H1 | split; [exact H2 | exact H3]].
      * right. exists (Datatypes.S j). split; [lia|]. split.
        -- destruct Ha as (xj & oj & H1 & H2 & H3). exists xj, oj. cbn [nth_error runS].
           split; [exact H1 | split; [exact H2 | exact H3]].
        -- intros i [Hi1 Hi2]. destruct i as [|i]; [lia|].
           destruct (Hc i ltac:(lia)) as (xi & oi & H1 & H2 & H3). exists xi, oi. cbn [nth_error runS].
           split; [exact H1 | split; [exact H2 | exact H3]].
Qed.
End Since.

(** ------------------------------------------------------------------ the state machine as a step function *)
Section SMHist.
Variable prep : list Z -> list Z.
Variable dec : geometry -> list Z -> list bool * Z.
Variable lich_of : list Z -> option (list N).
Variable crc_ok : list N -> bool.

Notation sm_step' := (sm_step prep dec lich_of crc_ok).
Notation sm_run' := (sm_run prep dec lich_of crc_ok).

Definition input := (sync * list Z * bool)%type.
Definition obs := (mode * result * option Z * list callback)%type.
Definition o_mode (o : obs) : mode := fst (fst (fst o)).
Definition o_res (o : obs) : result := snd (fst (fst o)).
Definition o_cost (o : obs) : option Z := snd (fst o).
Definition o_cbs (o : obs) : list callback := snd o.
Definition i_sync (x : input) : sync := fst (fst x).

Definition smS (s : sm_state) (x : input) : sm_state * obs :=
  let o := sm_step' s (fst (fst x)) (snd (fst x)) (snd x) in (fst (fst (fst o)), sm_observe o).

Lemma sm_run_runS (h : list input) : forall s, sm_run' s h = runS _ _ _ smS s h.
Proof. induction h as [|[[sw fr] r] t IH]; intros s; [reflexivity|].
  cbn [sm_run runS]. unfold smS at 1 2. cbn [fst snd]. rewrite IH. reflexivity. Qed.

Definition is_packet_mode (m : mode) : bool := match m with MBasic | MFull => true | _ => false end.
Definition is_packet_ty (t : ftype) : bool := match t with FBasic | FFull => true | _ => false end.
Definition has_cb (p : ftype -> bool) (o : obs) : Prop := exists cb, In cb (o_cbs o) /\ p (cb_type cb) = true.

(** the events *)
Definition packet_emit (x : input) (o : obs) : Prop := i_sync x = SPacket /\ has_cb is_packet_ty o.
(* a packet-type LSF frame: LSF sync, CRC-valid, its TYPE field selects a packet mode; exactly one LSF callback *)
Definition packet_arm (x : input) (o : obs) : Prop :=
  i_sync x = SLsf /\ o_res o = ROk /\ is_packet_mode (o_mode o) = true /\
  exists bits c, o_cbs o = [mkcb FLsf (pack_bits bits) c] /\ crc_ok (pack_bits bits) = true /\
                 o_mode o = update_state MLsf bits /\ nth 111 bits false = false.
(* a packet frame without the EOF bit *)
Definition packet_cont (x : input) (o : obs) : Prop :=
  i_sync x = SPacket /\ o_res o = RPacketIncomplete /\ is_packet_mode (o_mode o) = true /\
  exists cb, o_cbs o = [cb] /\ is_packet_ty (cb_type cb) = true /\ N.land (nth 25 (cb_bytes cb) 0%N) 128 = 0%N.

Lemma update_state_packet (bits : list bool) :
  is_packet_mode (update_state MLsf bits) = true -> nth 111 bits false = false.
Proof. unfold update_state, bit_at. destruct (nth 111 bits false); [|reflexivity].
  destruct (nth 109 bits false); discriminate. Qed.

Lemma lich_mode (s : sm_state) (fr : list Z) :
  sm_mode (fst (fst (fst (sm_lich_frame lich_of crc_ok s fr)))) = sm_mode s \/
  sm_mode (fst (fst (fst (sm_lich_frame lich_of crc_ok s fr)))) = MStream.
Proof. unfold sm_lich_frame. destruct (lich_of fr) as [lich|]; [|left; reflexivity].
  destruct (N.ltb 5 _); [left; reflexivity|]. destruct (negb _); [left; reflexivity|].
  destruct (crc_ok _); [right|left]; reflexivity. Qed.

Lemma lich_cbs (s : sm_state) (fr : list Z) cb :
  In cb (snd (sm_lich_frame lich_of crc_ok s fr)) -> cb_type cb = FLich \/ cb_type cb = FLsf.
Proof. unfold sm_lich_frame. destruct (lich_of fr) as [lich|]; [|intros []].
  destruct (N.ltb 5 _); [intros [<-|[]]; left; reflexivity|]. destruct (negb _); [intros [<-|[]]; left; reflexivity|].
  destruct (crc_ok _); [intros [<-|[<-|[]]]; [left|right]; reflexivity | intros [<-|[]]; left; reflexivity]. Qed.

Lemma lsf_cbs (s : sm_state) (fr : list Z) cb :
  In cb (snd (sm_lsf_frame dec crc_ok s fr)) -> cb_type cb = FLsf.
Proof. unfold sm_lsf_frame. destruct (dec GLsf fr) as [bits cost]. destruct (crc_ok _); [intros [<-|[]]; reflexivity | intros []]. Qed.

Lemma packet_emit_zone (s : sm_state) (x : input) :
  packet_emit x (snd (smS s x)) -> is_packet_mode (sm_mode s) = true.
Proof.
  destruct x as [[sw fr] r]. unfold packet_emit, i_sync, smS. cbn [fst snd]. intros [-> (cb & Hin & Hty)].
  unfold sm_step in Hin. destruct (sm_mode s); try reflexivity; unfold sm_observe, o_cbs in Hin; cbn [snd] in Hin; destruct Hin.
Qed.

Lemma packet_zone_step (s : sm_state) (x : input) :
  is_packet_mode (sm_mode (fst (smS s x))) = true ->
  packet_arm x (snd (smS s x)) \/ (is_packet_mode (sm_mode s) = true /\ packet_cont x (snd (smS s x))).
Proof.
  destruct x as [[sw fr] r]. unfold smS, packet_arm, packet_cont, i_sync. cbn [fst snd].
  unfold sm_step. set (f := prep fr). clearbody f. destruct sw.
  - (* LSF sync *) unfold sm_lsf_frame. cbn [sm_seg]. destruct (dec GLsf f) as [bits cost]. destruct (crc_ok (pack_bits bits)) eqn:Hc.
    + unfold sm_observe, o_res, o_mode, o_cbs, type_mode. cbn [fst snd sm_mode]. intros Hm. left.
      split; [reflexivity | split; [reflexivity | split; [exact Hm|]]].
      exists bits, cost. split; [reflexivity | split; [exact Hc | split; [reflexivity | exact (update_state_packet _ Hm)]]].
    + cbn [fst snd sm_mode]. discriminate.
  - (* stream sync *) destruct (sm_mode s) eqn:Hm.
    + intros H. exfalso. destruct (lich_mode s f) as [E|E]; rewrite E, ?Hm in H; discriminate H.
    + unfold sm_payload. destruct (dec GStream (skipn 96 f)) as [bits cost]. cbn [fst snd]. rewrite Hm. discriminate.
    + cbn [fst snd sm_mode]. discriminate.
    + cbn [fst snd sm_mode]. discriminate.
    + cbn [fst snd sm_mode]. discriminate.
  - (* packet sync *) destruct (sm_mode s) eqn:Hm; try (cbn [fst snd sm_mode]; discriminate).
    + unfold sm_payload. destruct (dec GPacket f) as [bits cost]. destruct (negb _) eqn:He; [cbn [fst snd sm_mode]; discriminate|].
      intros _. right. split; [reflexivity|]. unfold sm_observe, o_res, o_mode, o_cbs. cbn [fst snd]. rewrite Hm.
      split; [reflexivity | split; [reflexivity | split; [reflexivity|]]].
      exists (mkcb FBasic (pack_bits bits) cost). cbn [cb_type cb_bytes]. split; [reflexivity | split; [reflexivity|]].
      apply negb_false_iff in He. apply N.eqb_eq in He. exact He.
    + unfold sm_payload. destruct (dec GPacket f) as [bits cost]. destruct (negb _) eqn:He; [cbn [fst snd sm_mode]; discriminate|].
      intros _. right. split; [reflexivity|]. unfold sm_observe, o_res, o_mode, o_cbs. cbn [fst snd]. rewrite Hm.
      split; [reflexivity | split; [reflexivity | split; [reflexivity|]]].
      exists (mkcb FFull (pack_bits bits) cost). cbn [cb_type cb_bytes]. split; [reflexivity | split; [reflexivity|]].
      apply negb_false_iff in He. apply N.eqb_eq in He. exact He.
  - (* BERT sync *) unfold sm_payload. destruct (dec GBert f) as [bits cost]. cbn [fst snd sm_mode]. discriminate.
Qed.

Definition at_sm (P : input -> obs -> Prop) (h : list input) (s : sm_state) (i : nat) : Prop :=
  at_ input obs P h (sm_run' s h) i.

(** packet frames are accepted only after a packet-type LSF *)
Theorem sm_packet_only_after_packet_lsf (h : list input) (s : sm_state) (k : nat) :
  at_sm packet_emit h s k ->
  (is_packet_mode (sm_mode s) = true /\ forall i, i < k -> at_sm packet_cont h s i) \/
  (exists j, j < k /\ at_sm packet_arm h s j /\ forall i, j < i < k -> at_sm packet_cont h s i).
Proof.
  unfold at_sm. rewrite sm_run_runS.
  exact (since _ _ _ smS (fun s => is_packet_mode (sm_mode s) = true) packet_emit packet_arm packet_cont
           packet_emit_zone packet_zone_step h s k).
Qed.

(** a packet callback can only come from a packet-sync frame *)
Lemma packet_cb_needs_packet_sync (s : sm_state) (x : input) :
  has_cb is_packet_ty (snd (smS s x)) -> i_sync x = SPacket.
Proof.
  destruct x as [[sw fr] r]. unfold smS, has_cb, i_sync, o_cbs, sm_observe. cbn [fst snd]. intros (cb & Hin & Hty).
  destruct sw; [| |reflexivity|]; exfalso; unfold sm_step in Hin.
  - apply lsf_cbs in Hin. rewrite Hin in Hty. discriminate.
  - destruct (sm_mode s).
    + apply lich_cbs in Hin. destruct Hin as [E|E]; rewrite E in Hty; discriminate.
    + unfold sm_payload in Hin. destruct (dec GStream _) as [bits cost]. cbn [snd] in Hin. destruct Hin as [<-|[]]. discriminate.
    + destruct Hin.
    + destruct Hin.
    + destruct Hin.
  - unfold sm_payload in Hin. destruct (dec GBert _) as [bits cost]. cbn [snd] in Hin. destruct Hin as [<-|[]]. discriminate.
Qed.

(** ------------------------------------------------------------------ stream payload *)
Definition is_stream_ty (t : ftype) : bool := match t with FStream => true | _ => false end.
Definition stream_emit (x : input) (o : obs) : Prop := has_cb is_stream_ty o.
(* stream mode is entered by a CRC-valid voice-stream LSF frame, or by a completed, CRC-valid LICH reassembly *)
Definition stream_arm (x : input) (o : obs) : Prop :=
  o_res o = ROk /\ o_mode o = MStream /\
  ((i_sync x = SLsf /\ exists bits c, o_cbs o = [mkcb FLsf (pack_bits bits) c] /\ crc_ok (pack_bits bits) = true /\
                                      nth 111 bits false = true /\ nth 109 bits false = true) \/
   (i_sync x = SStream /\ exists lich lsf, o_cbs o = [mkcb FLich lich 0; mkcb FLsf lsf 0] /\ crc_ok lsf = true /\ o_cost o = Some 0%Z)).
(* a stream frame decoded in stream mode *)
Definition stream_cont (x : input) (o : obs) : Prop :=
  i_sync x = SStream /\ o_res o = ROk /\ o_mode o = MStream /\ exists cb, o_cbs o = [cb] /\ cb_type cb = FStream /\ o_cost o = Some (cb_cost cb).

Lemma update_state_stream (bits : list bool) :
  update_state MLsf bits = MStream -> nth 111 bits false = true /\ nth 109 bits false = true.
Proof. unfold update_state, bit_at. destruct (nth 111 bits false).
  - destruct (nth 109 bits false); [split; reflexivity | discriminate].
  - destruct (nth 109 bits false), (nth 110 bits false); discriminate. Qed.

Lemma stream_emit_zone (s : sm_state) (x : input) :
  stream_emit x (snd (smS s x)) -> sm_mode s = MStream.
Proof.
  destruct x as [[sw fr] r]. unfold stream_emit, has_cb, smS, o_cbs, sm_observe. cbn [fst snd]. intros (cb & Hin & Hty).
  unfold sm_step in Hin. destruct sw.
  - apply lsf_cbs in Hin. rewrite Hin in Hty. discriminate.
  - destruct (sm_mode s); try reflexivity; try destruct Hin.
    apply lich_cbs in Hin. destruct Hin as [E|E]; rewrite E in Hty; discriminate.
  - destruct (sm_mode s); try destruct Hin.
    + unfold sm_payload in Hin. destruct (dec GPacket _) as [bits cost]. destruct (negb _); cbn [snd] in Hin; destruct Hin as [<-|[]]; discriminate.
    + unfold sm_payload in Hin. destruct (dec GPacket _) as [bits cost]. destruct (negb _); cbn [snd] in Hin; destruct Hin as [<-|[]]; discriminate.
  - unfold sm_payload in Hin. destruct (dec GBert _) as [bits cost]. cbn [snd] in Hin. destruct Hin as [<-|[]]. discriminate.
Qed.

Lemma stream_zone_step (s : sm_state) (x : input) :
  sm_mode (fst (smS s x)) = MStream ->
  stream_arm x (snd (smS s x)) \/ (sm_mode s = MStream /\ stream_cont x (snd (smS s x))).
Proof.
  destruct x as [[sw fr] r]. unfold smS, stream_arm, stream_cont, i_sync. cbn [fst snd].
  unfold sm_step. set (f := prep fr). clearbody f. destruct sw.
  - unfold sm_lsf_frame. cbn [sm_seg]. destruct (dec GLsf f) as [bits cost]. destruct (crc_ok (pack_bits bits)) eqn:Hc.
    + unfold sm_observe, o_res, o_mode, o_cbs, type_mode. cbn [fst snd sm_mode]. intros Hm. left.
      split; [reflexivity | split; [exact Hm|]]. left. split; [reflexivity|]. exists bits, cost.
      destruct (update_state_stream _ Hm) as [H1 H2]. split; [reflexivity | split; [exact Hc | split; [exact H1 | exact H2]]].
    + cbn [fst snd sm_mode]. discriminate.
  - destruct (sm_mode s) eqn:Hm.
    + (* LICH collection *) unfold sm_lich_frame. destruct (lich_of f) as [lich|]; [|cbn [fst snd]; rewrite Hm; discriminate].
      destruct (N.ltb 5 _); [cbn [fst snd]; rewrite Hm; discriminate|].
      destruct (negb _); [cbn [fst snd sm_mode]; rewrite Hm; discriminate|].
      destruct (crc_ok _) eqn:Hc; [|cbn [fst snd sm_mode]; rewrite Hm; discriminate].
      intros _. left. unfold sm_observe, o_res, o_mode, o_cbs, o_cost. cbn [fst snd sm_mode].
      split; [reflexivity | split; [reflexivity|]]. right. split; [reflexivity|].
      eexists _, _. split; [reflexivity | split; [exact Hc | reflexivity]].
    + unfold sm_payload. destruct (dec GStream (skipn 96 f)) as [bits cost]. intros _. right. split; [reflexivity|].
      unfold sm_observe, o_res, o_mode, o_cbs, o_cost. cbn [fst snd]. rewrite Hm.
      split; [reflexivity | split; [reflexivity | split; [reflexivity|]]].
      exists (mkcb FStream (pack_bits bits) cost). split; [reflexivity | split; reflexivity].
    + cbn [fst snd sm_mode]. discriminate.
    + cbn [fst snd sm_mode]. discriminate.
    + cbn [fst snd sm_mode]. discriminate.
  - destruct (sm_mode s) eqn:Hm; try (cbn [fst snd sm_mode]; discriminate);
      unfold sm_payload; destruct (dec GPacket f) as [bits cost]; destruct (negb _); cbn [fst snd sm_mode]; rewrite ?Hm; discriminate.
  - unfold sm_payload. destruct (dec GBert f) as [bits cost]. cbn [fst snd sm_mode]. discriminate.
Qed.

(** stream payload is decoded only in stream mode, which is entered only by a voice-stream LSF or a completed reassembly *)
Theorem sm_stream_only_after_link_setup (h : list input) (s : sm_state) (k : nat) :
  at_sm stream_emit h s k ->
  (sm_mode s = MStream /\ forall i, i < k -> at_sm stream_cont h s i) \/
  (exists j, j < k /\ at_sm stream_arm h s j /\ forall i, j < i < k -> at_sm stream_cont h s i).
Proof.
  unfold at_sm. rewrite sm_run_runS.
  exact (since _ _ _ smS (fun s => sm_mode s = MStream) stream_emit stream_arm stream_cont
           stream_emit_zone stream_zone_step h s k).
Qed.

(** every LSF callback carries CRC-valid bytes (also a C05 statement; here for every history of the state machine) *)
Lemma lsf_cb_crc_step (s : sm_state) (x : input) cb :
  In cb (o_cbs (snd (smS s x))) -> cb_type cb = FLsf -> crc_ok (cb_bytes cb) = true.
Proof.
  destruct x as [[sw fr] r]. unfold smS, o_cbs, sm_observe. cbn [fst snd]. unfold sm_step. set (f := prep fr). clearbody f.
  intros Hin Hty. destruct sw.
  - unfold sm_lsf_frame in Hin. destruct (dec GLsf f) as [bits cost]. destruct (crc_ok (pack_bits bits)) eqn:Hc; [|destruct Hin].
    destruct Hin as [<-|[]]. exact Hc.
  - destruct (sm_mode s); try destruct Hin.
    + unfold sm_lich_frame in Hin. destruct (lich_of f) as [lich|]; [|destruct Hin].
      destruct (N.ltb 5 _); [destruct Hin as [<-|[]]; discriminate|].
      destruct (negb _); [destruct Hin as [<-|[]]; discriminate|].
      destruct (crc_ok _) eqn:Hc; [|destruct Hin as [<-|[]]; discriminate].
      destruct Hin as [<-|[<-|[]]]; [discriminate | exact Hc].
    + unfold sm_payload in Hin. destruct (dec GStream _) as [bits cost]. cbn [snd] in Hin. destruct Hin as [<-|[]]. discriminate.
  - destruct (sm_mode s); try destruct Hin;
      unfold sm_payload in Hin; destruct (dec GPacket f) as [bits cost]; destruct (negb _); cbn [snd] in Hin; destruct Hin as [<-|[]]; discriminate.
  - unfold sm_payload in Hin. destruct (dec GBert f) as [bits cost]. cbn [snd] in Hin. destruct Hin as [<-|[]]. discriminate.
Qed.

Lemma runS_nth (h : list input) : forall s k o, nth_error (runS _ _ _ smS s h) k = Some o ->
  exists s' x, nth_error h k = Some x /\ o = snd (smS s' x).
Proof. induction h as [|x t IH]; intros s k o H; [destruct k; discriminate|].
  destruct k as [|k]; cbn [nth_error runS] in H.
  - injection H as <-. exists s, x. split; reflexivity.
  - destruct (IH _ _ _ H) as (s' & y & H1 & H2). exists s', y. split; [exact H1 | exact H2]. Qed.

Theorem sm_lsf_callbacks_crc_valid (h : list input) (s : sm_state) (k : nat) o cb :
  nth_error (sm_run' s h) k = Some o -> In cb (o_cbs o) -> cb_type cb = FLsf -> crc_ok (cb_bytes cb) = true.
Proof. rewrite sm_run_runS. intros H Hin Hty. destruct (runS_nth _ _ _ _ H) as (s' & x & _ & ->).
  exact (lsf_cb_crc_step s' x cb Hin Hty). Qed.

(** BERT sync always decodes BERT, a wrong sync type always drops to link setup: positionwise in every history *)
Theorem sm_history_sync_rules (h : list input) (s : sm_state) (k : nat) x o :
  nth_error h k = Some x -> nth_error (sm_run' s h) k = Some o ->
  (i_sync x = SBert -> o_mode o = MBert /\ o_res o = ROk /\ exists cb, o_cbs o = [cb] /\ cb_type cb = FBert /\ o_cost o = Some (cb_cost cb)) /\
  (i_sync x = SLsf -> (o_res o = ROk /\ exists cb, o_cbs o = [cb] /\ cb_type cb = FLsf) \/ (o_res o = RFail /\ o_mode o = MLsf /\ o_cbs o = [])) /\
  (o_cost o = None -> o_mode o = MLsf /\ o_res o = RFail /\ o_cbs o = [] /\ (i_sync x = SStream \/ i_sync x = SPacket)).
Proof.
  rewrite sm_run_runS. revert s k. induction h as [|y t IH]; intros s k Hx Ho; [destruct k; discriminate|].
  destruct k as [|k]; cbn [nth_error runS] in Hx, Ho; [|exact (IH _ _ Hx Ho)].
  injection Hx as ->. injection Ho as <-. clear IH.
  destruct x as [[sw fr] r]. unfold smS, i_sync, o_mode, o_res, o_cbs, o_cost, sm_observe. cbn [fst snd].
  unfold sm_step. set (f := prep fr). clearbody f.
  split; [|split].
  - intros ->. unfold sm_payload. destruct (dec GBert f) as [bits cost]. cbn [fst snd sm_mode].
    split; [reflexivity | split; [reflexivity|]]. eexists. split; [reflexivity | split; reflexivity].
  - intros ->. unfold sm_lsf_frame. destruct (dec GLsf f) as [bits cost]. destruct (crc_ok _); cbn [fst snd sm_mode].
    + left. split; [reflexivity|]. eexists. split; reflexivity.
    + right. split; [reflexivity | split; reflexivity].
  - destruct sw.
    + unfold sm_lsf_frame. destruct (dec GLsf f) as [bits cost]. destruct (crc_ok _); cbn [fst snd]; discriminate.
    + destruct (sm_mode s).
      * unfold sm_lich_frame. destruct (lich_of f); [|cbn [fst snd]; discriminate].
        destruct (N.ltb 5 _); [cbn [fst snd]; discriminate|]. destruct (negb _); [cbn [fst snd]; discriminate|].
        destruct (crc_ok _); cbn [fst snd]; discriminate.
      * unfold sm_payload. destruct (dec GStream _) as [bits cost]. cbn [fst snd]. discriminate.
      * cbn [fst snd sm_mode]. intros _. split; [reflexivity | split; [reflexivity | split; [reflexivity | left; reflexivity]]].
      * cbn [fst snd sm_mode]. intros _. split; [reflexivity | split; [reflexivity | split; [reflexivity | left; reflexivity]]].
      * cbn [fst snd sm_mode]. intros _. split; [reflexivity | split; [reflexivity | split; [reflexivity | left; reflexivity]]].
    + destruct (sm_mode s);
        try (cbn [fst snd sm_mode]; intros _; split; [reflexivity | split; [reflexivity | split; [reflexivity | right; reflexivity]]]);
        unfold sm_payload; destruct (dec GPacket f) as [bits cost]; destruct (negb _); cbn [fst snd]; discriminate.
    + unfold sm_payload. destruct (dec GBert f) as [bits cost]. cbn [fst snd]. discriminate.
Qed.

End SMHist.

(** boolean form of [packet_emit], for computed instances *)
Definition packet_emit_b (x : input) (o : obs) : bool :=
  match i_sync x with SPacket => existsb (fun cb => is_packet_ty (cb_type cb)) (o_cbs o) | _ => false end.

Lemma packet_emit_b_ok (x : input) (o : obs) : packet_emit_b x o = true -> packet_emit x o.
Proof. unfold packet_emit_b, packet_emit, has_cb. destruct (i_sync x); try discriminate. intros H.
  split; [reflexivity|]. apply existsb_exists in H. destruct H as (cb & Hin & Hty). exists cb. split; assumption. Qed.

Lemma at_of_bool (P : input -> obs -> Prop) (Pb : input -> obs -> bool) (HP : forall x o, Pb x o = true -> P x o)
  (h : list input) (os : list obs) (i : nat) :
  match nth_error h i, nth_error os i with Some x, Some o => Pb x o | _, _ => false end = true -> at_ input obs P h os i.
Proof. unfold at_. destruct (nth_error h i) as [x|]; [|discriminate]. destruct (nth_error os i) as [o|]; [|discriminate].
  intros H. exists x, o. split; [reflexivity | split; [reflexivity | exact (HP x o H)]]. Qed.
