(** * ModelOutQueue — the modulator thread, its bounded output queue and a consumer of arbitrary speed

    The modulator thread is sequential: the bytes it hands to bitstream_queue_->put(c) are, in order, the
    concatenation of the outputs of its loop iterations ([ImplModulator.run]); a put that blocks only delays
    the thread.  So the producer is abstracted to the list [todo] of bytes still to be put.  The queue is a
    FIFO of capacity [cap] (96 for bitstream_queue_t).  An interleaving is a list of [actor]s: at each point
    the scheduler runs the producer (one put) or the consumer (one get); an actor that cannot proceed
    (producer: queue full and put blocks, or nothing left to put; consumer: queue empty) leaves the state
    unchanged.

    What `put(c)` with the default timeout does on a FULL, open queue is the parameter [policy]:
      [Blocks]       it waits until there is room (queue.h after commit 5bc9c51; property C16's
                     `forever_never_times_out`, proved on the queue model of C15/C16);
      [ReturnsFalse] it returns false at once (queue.h before that commit): M17Modulator ignores the result,
                     so the byte is dropped.
    No proofs in this file. *)
From Coq Require Import NArith List Bool.
Import ListNotations.

Inductive full_policy := Blocks | ReturnsFalse.
Inductive actor := Producer | Consumer.

(** (bytes still to be put, queue content oldest first, bytes the consumer has received) *)
Definition qstate : Type := (list N * list N * list N)%type.

Definition qstep (policy : full_policy) (cap : nat) (st : qstate) (a : actor) : qstate :=
  let '(todo, fifo, got) := st in
  match a with
  | Producer =>
      match todo with
      | [] => st
      | b :: rest =>
          if Nat.ltb (length fifo) cap then (rest, fifo ++ [b], got)
          else match policy with Blocks => st | ReturnsFalse => (rest, fifo, got) end
      end
  | Consumer =>
      match fifo with
      | [] => st
      | b :: q => (todo, q, got ++ [b])
      end
  end.

Definition qrun (policy : full_policy) (cap : nat) (bytes : list N) (trace : list actor) : qstate :=
  fold_left (qstep policy cap) trace (bytes, [], []).

Definition drained (st : qstate) : Prop := fst (fst st) = [] /\ snd (fst st) = [].
Definition delivered (st : qstate) : list N := snd st.

(** is the actor able to make progress? *)
Definition can_run (policy : full_policy) (cap : nat) (st : qstate) (a : actor) : bool :=
  let '(todo, fifo, got) := st in
  match a with
  | Producer => match todo with [] => false | _ => match policy with Blocks => Nat.ltb (length fifo) cap | ReturnsFalse => true end end
  | Consumer => match fifo with [] => false | _ => true end
  end.

(** work left: every productive step decreases it *)
Definition work (st : qstate) : nat := 2 * length (fst (fst st)) + length (snd (fst st)).
