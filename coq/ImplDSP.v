(** Gallina mirror of include/m17cxx/FirFilter.h, IirFilter.h and SlidingDFT.h, statement by statement,
    in EXACT arithmetic over an arbitrary carrier [R] with operations [radd rmul rsub] (the C++ FloatType
    with its rounding removed).  No proofs here.  The theorems (LemmasDSP_*.v) assume that the operations
    form a commutative ring; the extraction instantiates them with Z (dyadic-scaled samples) and Qc.

    std::array<T,N> is a [list] of length N; [a[i] = x] is [set_nth i x a]; [a[i]] / [a.at(i)] is [nth i a r0]
    (in range by the proved invariants).  The template parameter N of the filters is [length taps] /
    [length b] (the arrays passed to the constructors have exactly N elements). *)
From Coq Require Import Arith List.
Import ListNotations.

Fixpoint set_nth {A : Type} (i : nat) (x : A) (l : list A) : list A :=
  match l, i with
  | [], _ => []
  | _ :: t, O => x :: t
  | h :: t, S j => h :: set_nth j x t
  end.

Section DSP.
Variable R : Type.
Variables (r0 : R) (radd rmul rsub : R -> R -> R).

(** ** FirFilter.h : BaseFirFilter<FloatType, N> *)
Record fir_state : Type := { fir_history : list R; fir_pos : nat }.

(* constructor: history_.fill(0.0); pos_ = 0 *)
Definition fir_init (N : nat) : fir_state := {| fir_history := repeat r0 N; fir_pos := 0 |}.

(* reset(): history_.fill(0.0); pos_ = 0; *)
Definition fir_reset (st : fir_state) : fir_state :=
  {| fir_history := map (fun _ => r0) (fir_history st); fir_pos := 0 |}.

(* index = (index != 0 ? index - 1 : N - 1); *)
Definition fir_dec (N index : nat) : nat := if negb (index =? 0) then index - 1 else N - 1.

(* body of the accumulation loop, iteration i, state (index, result) *)
Definition fir_acc (taps history : list R) (s : nat * R) (i : nat) : nat * R :=
  let index := fir_dec (length taps) (fst s) in
  (index, radd (snd s) (rmul (nth index history r0) (nth i taps r0))).

(* FloatType operator()(FloatType input) *)
Definition fir_step (taps : list R) (st : fir_state) (input : R) : fir_state * R :=
  let N := length taps in
  (* history_[pos_++] = input; *)
  let history := set_nth (fir_pos st) input (fir_history st) in
  let pos1 := S (fir_pos st) in
  (* if (pos_ == N) pos_ = 0; *)
  let pos := if pos1 =? N then 0 else pos1 in
  (* result = 0.0; index = pos_; for (i = 0; i != N; ++i) {...} *)
  let s := fold_left (fir_acc taps history) (seq 0 N) (pos, r0) in
  ({| fir_history := history; fir_pos := pos |}, snd s).

(* feeding a whole sequence, from a given state *)
Fixpoint fir_run (taps : list R) (st : fir_state) (xs : list R) : fir_state * list R :=
  match xs with
  | [] => (st, [])
  | x :: t => let (st1, y) := fir_step taps st x in
              let (st2, ys) := fir_run taps st1 t in (st2, y :: ys)
  end.

(* a freshly constructed filter *)
Definition run_fir (taps xs : list R) : list R := snd (fir_run taps (fir_init (length taps)) xs).

(** ** IirFilter.h : BaseIirFilter<FloatType, N>(b, a)  — numerator_ = b, denominator_ = a *)
Definition iir_init (N : nat) : list R := repeat r0 N.

Definition iir_step (b a : list R) (history : list R) (input : R) : list R * R :=
  let N := length b in
  (* for (size_t i = N - 1; i != 0; i--) history_[i] = history_[i - 1]; *)
  let h1 := fold_left (fun h i => set_nth i (nth (i - 1) h r0) h) (rev (seq 1 (N - 1))) history in
  (* history_[0] = input; *)
  let h2 := set_nth 0 input h1 in
  (* for (size_t i = 1; i != N; i++) history_[0] -= denominator_[i] * history_[i]; *)
  let h3 := fold_left (fun h i => set_nth 0 (rsub (nth 0 h r0) (rmul (nth i a r0) (nth i h r0))) h) (seq 1 (N - 1)) h2 in
  (* result = 0; for (size_t i = 0; i != N; i++) result += numerator_[i] * history_[i]; *)
  let result := fold_left (fun r i => radd r (rmul (nth i b r0) (nth i h3 r0))) (seq 0 N) r0 in
  (h3, result).

Fixpoint iir_run (b a : list R) (history : list R) (xs : list R) : list R * list R :=
  match xs with
  | [] => (history, [])
  | x :: t => let (h1, y) := iir_step b a history x in
              let (h2, ys) := iir_run b a h1 t in (h2, y :: ys)
  end.

Definition run_iir (b a xs : list R) : list R := snd (iir_run b a (iir_init (length b)) xs).

(** ** SlidingDFT.h — std::complex<FloatType> as a pair (re, im) *)
Definition C : Type := (R * R)%type.
Definition c0 : C := (r0, r0).
(* complex + real (operator+(complex<T>, T)): only the real part changes *)
Definition cadd_real (z : C) (x : R) : C := (radd (fst z) x, snd z).
(* complex * complex: (ac - bd, ad + bc) *)
Definition cmul (z w : C) : C :=
  (rsub (rmul (fst z) (fst w)) (rmul (snd z) (snd w)), radd (rmul (fst z) (snd w)) (rmul (snd z) (fst w))).
(* complex * real (operator*(complex<T>, T)) *)
Definition cscale (z : C) (k : R) : C := (rmul (fst z) k, rmul (snd z) k).

Record sdft_state : Type := { sdft_samples : list R; sdft_result : C; sdft_index : nat }.

(* constructor: samples_.fill(0); result_{0,0}; index_ = 0 *)
Definition sdft_init (N : nat) : sdft_state := {| sdft_samples := repeat r0 N; sdft_result := c0; sdft_index := 0 |}.

(* SlidingDFT::operator()(sample): coeff = coeff_ (= exp(-j 2 pi f/SampleRate) in the C++), rho = FloatType(0.999999999999999) *)
Definition sdft_step (N : nat) (coeff : C) (rho : R) (st : sdft_state) (sample : R) : sdft_state * C :=
  (* auto index = index_; index_ += 1; if (index_ == N) index_ = 0; *)
  let index := sdft_index st in
  let index1 := S index in
  let index' := if index1 =? N then 0 else index1 in
  (* delta = sample - samples_[index]; *)
  let delta := rsub sample (nth index (sdft_samples st) r0) in
  (* result = (result_ + delta) * coeff_; *)
  let result := cmul (cadd_real (sdft_result st) delta) coeff in
  (* result_ = result * rho; samples_[index] = sample; return result; *)
  ({| sdft_samples := set_nth index sample (sdft_samples st); sdft_result := cscale result rho; sdft_index := index' |}, result).

Fixpoint sdft_run (N : nat) (coeff : C) (rho : R) (st : sdft_state) (xs : list R) : sdft_state * list C :=
  match xs with
  | [] => (st, [])
  | x :: t => let (st1, y) := sdft_step N coeff rho st x in
              let (st2, ys) := sdft_run N coeff rho st1 t in (st2, y :: ys)
  end.

Definition run_sdft (N : nat) (coeff : C) (rho : R) (xs : list R) : list C := snd (sdft_run N coeff rho (sdft_init N) xs).

(** NSlidingDFT<FloatType, SampleRate, N, K>: K bins sharing one window, no damping, returns result_ *)
Record nsdft_state : Type := { nsdft_samples : list R; nsdft_result : list C; nsdft_index : nat }.

Definition nsdft_init (N K : nat) : nsdft_state := {| nsdft_samples := repeat r0 N; nsdft_result := repeat c0 K; nsdft_index := 0 |}.

Definition nsdft_step (N : nat) (coeffs : list C) (st : nsdft_state) (sample : R) : nsdft_state * list C :=
  let K := length coeffs in
  let index := nsdft_index st in
  let index1 := S index in
  let index' := if index1 =? N then 0 else index1 in
  let delta := rsub sample (nth index (nsdft_samples st) r0) in
  (* for (i = 0; i != K; ++i) result_[i] = (result_[i] + delta) * coeff_[i]; *)
  let result := fold_left (fun res i => set_nth i (cmul (cadd_real (nth i res c0) delta) (nth i coeffs c0)) res) (seq 0 K) (nsdft_result st) in
  ({| nsdft_samples := set_nth index sample (nsdft_samples st); nsdft_result := result; nsdft_index := index' |}, result).

Fixpoint nsdft_run (N : nat) (coeffs : list C) (st : nsdft_state) (xs : list R) : nsdft_state * list (list C) :=
  match xs with
  | [] => (st, [])
  | x :: t => let (st1, y) := nsdft_step N coeffs st x in
              let (st2, ys) := nsdft_run N coeffs st1 t in (st2, y :: ys)
  end.

Definition run_nsdft (N : nat) (coeffs : list C) (xs : list R) : list (list C) :=
  snd (nsdft_run N coeffs (nsdft_init N (length coeffs)) xs).

End DSP.

Arguments fir_history {R}.
Arguments fir_pos {R}.
Arguments sdft_samples {R}.
Arguments sdft_result {R}.
Arguments sdft_index {R}.
Arguments nsdft_samples {R}.
Arguments nsdft_result {R}.
Arguments nsdft_index {R}.
