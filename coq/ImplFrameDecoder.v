(** Gallina mirror of include/m17cxx/M17FrameDecoder.h (M17FrameDecoder::operator() and the
    functions it dispatches to), function by function.

    The payload pipeline stages (soft de-randomizer, de-interleaver, de-puncturing, Viterbi,
    Golay) are parameters of a Section here; FrameDecoderInst.v instantiates them with the
    mirrors of the real code (ImplRandom, ImplInterleave, ImplPuncture, ImplViterbi, ImplGolay).
    The buffers the C++ object reuses between calls are explicit, hidden components of the
    state: the de-puncture union (488 x int8), the decode union (240 x uint8), the output union
    (26 bytes) and the Viterbi scratch.  Each stage receives the previous content of the buffer it
    writes into, so that "the outcome never depends on leftovers" is a theorem, not an artefact. *)
From Coq Require Import NArith ZArith List Bool.
From M17 Require Import Bits ImplCRC ConstsCrc.
Import ListNotations.
Local Open Scope N_scope.

Inductive mode := MLsf | MStream | MBasic | MFull | MBert.
Inductive sync := SLsf | SStream | SPacket | SBert.
Inductive result := RFail | ROk | REos | RIncomplete | RPacketIncomplete.
Inductive ftype := FLsf | FLich | FStream | FBasic | FFull | FBert.
Inductive geometry := GLsf | GStream | GPacket | GBert.

(** (IN, OUT) of the four Viterbi geometries = sizes of the union members *)
Definition g_in (g : geometry) : nat := match g with GLsf => 488 | GStream => 296 | GPacket => 420 | GBert => 402 end.
Definition g_out (g : geometry) : nat := match g with GLsf => 240 | GStream => 144 | GPacket => 206 | GBert => 197 end.

Record callback := mkcb { cb_type : ftype; cb_bytes : list N; cb_cost : Z }.

(** [overwrite new old]: writing [new] at the start of a longer buffer (a union member) *)
Definition overwrite {A} (new old : list A) : list A := new ++ skipn (length new) old.

(** to_byte_array(in, out&): MSB first, a trailing partial byte left-aligned; every byte of out is written *)
Definition to_bytes (bits : list bool) : list N := pack_bits bits.

Definition crc30 (l : list N) : N := crc_of ConstsCrc.crc_poly ConstsCrc.crc_init l.

Definition bit_at (l : list bool) (i : nat) : bool := nth i l false.

(** update_state(lsf_output): TYPE bit 0 is bit 111 of the 240, data-type/packet-type bits are 109,110 *)
Definition update_state (m : mode) (bits : list bool) : mode :=
  if bit_at bits 111 then (if bit_at bits 109 then MStream else m)
  else match (2 * b2n (bit_at bits 109) + b2n (bit_at bits 110)) with
       | 1 => MBasic
       | 2 => MFull
       | _ => MFull
       end.

Definition upd {A} (i : nat) (f : A -> A) (l : list A) : list A :=
  firstn i l ++ match skipn i l with [] => [] | x :: t => f x :: t end.

Section Decoder.
Variable VS : Type.                                     (* Viterbi scratch: history_, prev/currMetrics *)
Variable derandomize : list Z -> list Z.               (* M17Randomizer<368>::operator() *)
Variable deinterleave : list Z -> list Z.              (* PolynomialInterleaver::deinterleave(buffer_t&) *)
Variable depuncture : geometry -> list Z -> list Z -> list Z.   (* depuncture(in, out, P): in, previous out -> out *)
Variable viterbi : geometry -> VS -> list Z -> list bool -> (list bool * Z) * VS.
                                                        (* decode(in, out): scratch, in, previous out -> (out, cost), scratch *)
Variable golay_decode : N -> option N.                  (* Golay24::decode: Some output | None *)

Record hidden := mkhid { h_dbuf : list Z; h_obuf : list bool; h_ubuf : list N; h_vs : VS }.
Record dstate := mkst { d_mode : mode; d_seg : N; d_lsf : list N; d_hid : hidden }.

(* the outcome of one call of operator(): new state, return value, the viterbi_cost out-parameter
   (None = not assigned by this call), the callbacks made, in order *)
Definition outcome := (dstate * result * option Z * list callback)%type.

(** depuncture + Viterbi + to_byte_array on one union geometry; returns bytes, bits, cost, new hidden buffers *)
Definition decode_payload (g : geometry) (h : hidden) (inp : list Z) : list N * list bool * Z * hidden :=
  let dep := depuncture g inp (firstn (g_in g) (h_dbuf h)) in
  let '((bits, cost), vs') := viterbi g (h_vs h) dep (firstn (g_out g) (h_obuf h)) in
  let bytes := to_bytes bits in
  (bytes, bits, cost,
   mkhid (overwrite dep (h_dbuf h)) (overwrite bits (h_obuf h)) (h_ubuf h) vs').

Definition set_ubuf (h : hidden) (bytes : list N) : hidden :=
  mkhid (h_dbuf h) (h_obuf h) (overwrite bytes (h_ubuf h)) (h_vs h).

(** decode_lsf *)
Definition decode_lsf (s : dstate) (fr : list Z) : outcome :=
  let '(bytes, bits, cost, h') := decode_payload GLsf (d_hid s) fr in
  if crc30 bytes =? 0 then
    (mkst (update_state (d_mode s) bits) (d_seg s) bytes h', ROk, Some cost, [mkcb FLsf bytes cost])
  else
    (mkst (d_mode s) 0 (repeat 0 30) h', RFail, Some cost, []).

(** unpack_lich: four 24-bit code words from the first 96 soft bits; (lich buffer, index, ok) after each word *)
Definition codeword (fr : list Z) (i : nat) : N :=
  bits_N (map (fun x => Z.ltb 0 x) (firstn 24 (skipn (24 * i) fr))).

Definition unpack_step (fr : list Z) (acc : list N * nat * bool) (i : nat) : list N * nat * bool :=
  let '(lich, index, ok) := acc in
  if negb ok then acc else
  match golay_decode (codeword fr i) with
  | None => (lich, index, false)
  | Some decoded24 =>
    let decoded := N.shiftr decoded24 12 in
    if Nat.odd i then
      let lich1 := upd index (fun b => N.land (N.lor b (N.shiftr decoded 8)) 0xFF) lich in
      let lich2 := upd (index + 1) (fun _ => N.land decoded 0xFF) lich1 in
      (lich2, (index + 2)%nat, true)
    else
      let lich1 := upd index (fun b => N.land (N.lor b (N.shiftr decoded 4)) 0xFF) lich in
      let lich2 := upd (index + 1) (fun _ => N.land (N.shiftl (N.land decoded 0x0F) 4) 0xFF) lich1 in
      (lich2, (index + 1)%nat, true)
  end.

Definition unpack_lich (fr : list Z) : list N * bool :=
  let '(lich, _, ok) := fold_left (unpack_step fr) (seq 0 4) (repeat 0 6, 0%nat, true) in (lich, ok).

Definition MAX_LICH_FRAGMENT : N := 5.

(** decode_lich *)
Definition decode_lich (s : dstate) (fr : list Z) : outcome :=
  let '(lich, ok) := unpack_lich fr in
  let h1 := set_ubuf (d_hid s) lich in
  if negb ok then (mkst (d_mode s) (d_seg s) (d_lsf s) h1, RFail, Some 128%Z, []) else
  let cb1 := mkcb FLich lich 0 in
  let fragment_number := N.land (N.shiftr (nth 5 lich 0) 5) 7 in
  if MAX_LICH_FRAGMENT <? fragment_number then
    (mkst (d_mode s) (d_seg s) (d_lsf s) h1, RIncomplete, Some (-1)%Z, [cb1])
  else
    let off := (N.to_nat fragment_number * 5)%nat in
    let lsf' := firstn off (d_lsf s) ++ firstn 5 lich ++ skipn (off + 5) (d_lsf s) in
    let seg' := N.land (N.lor (d_seg s) (N.shiftl 1 fragment_number)) 0xFF in
    if negb (N.land seg' 0x3F =? 0x3F) then
      (mkst (d_mode s) seg' lsf' h1, RIncomplete, Some (-1)%Z, [cb1])
    else if crc30 lsf' =? 0 then
      (mkst MStream 0 lsf' h1, ROk, Some 0%Z, [cb1; mkcb FLsf lsf' 0])
    else
      (mkst (d_mode s) seg' lsf' h1, RIncomplete, Some 128%Z, [cb1]).

(** decode_stream: the 272 payload soft bits after the 96 LICH bits *)
Definition decode_stream (s : dstate) (fr : list Z) : outcome :=
  let '(bytes, _, cost, h') := decode_payload GStream (d_hid s) (skipn 96 fr) in
  (mkst (d_mode s) (d_seg s) (d_lsf s) (set_ubuf h' bytes), ROk, Some cost, [mkcb FStream bytes cost]).

(** decode_bert *)
Definition decode_bert (s : dstate) (fr : list Z) : outcome :=
  let '(bytes, _, cost, h') := decode_payload GBert (d_hid s) fr in
  (mkst (d_mode s) (d_seg s) (d_lsf s) (set_ubuf h' bytes), ROk, Some cost, [mkcb FBert bytes cost]).

(** decode_packet; [cbret] is what the callback returns for this frame *)
Definition decode_packet (s : dstate) (fr : list Z) (ty : ftype) (cbret : bool) : outcome :=
  let '(bytes, _, cost, h') := decode_payload GPacket (d_hid s) fr in
  let cb := mkcb ty bytes cost in
  if negb (N.land (nth 25 bytes 0) 0x80 =? 0) then
    (mkst MLsf (d_seg s) (d_lsf s) (set_ubuf h' bytes), if cbret then ROk else RFail, Some cost, [cb])
  else
    (mkst (d_mode s) (d_seg s) (d_lsf s) (set_ubuf h' bytes), RPacketIncomplete, Some cost, [cb]).

Definition with_mode (s : dstate) (m : mode) : dstate := mkst m (d_seg s) (d_lsf s) (d_hid s).

(** operator()(frame_type, buffer, viterbi_cost) *)
Definition step (s : dstate) (sw : sync) (frame : list Z) (cbret : bool) : outcome :=
  let fr := deinterleave (derandomize frame) in
  match sw with
  | SLsf => decode_lsf (with_mode s MLsf) fr
  | SStream =>
    match d_mode s with
    | MLsf => decode_lich s fr
    | MStream => decode_stream s fr
    | _ => (with_mode s MLsf, RFail, None, [])
    end
  | SPacket =>
    match d_mode s with
    | MBasic => decode_packet s fr FBasic cbret
    | MFull => decode_packet s fr FFull cbret
    | _ => (with_mode s MLsf, RFail, None, [])
    end
  | SBert => decode_bert (with_mode s MBert) fr
  end.

(** reset(): state_ = LSF; frame_number = 0; lich_segments = 0; output_buffer.lsf.fill(0)
    (the last two since fix eacdcde "reset() forgets the LICH fragments"); the other buffers are NOT cleared *)
Definition reset (s : dstate) : dstate := mkst MLsf 0 (repeat 0 30) (d_hid s).

Definition st_of (o : outcome) : dstate := fst (fst (fst o)).
Definition res_of (o : outcome) : result := snd (fst (fst o)).
Definition cost_of (o : outcome) : option Z := snd (fst o).
Definition cbs_of (o : outcome) : list callback := snd o.

(** a history: (sync, frame, callback return value) per call; observations per call *)
Definition observation := (mode * result * option Z * list callback)%type.
Definition observe (o : outcome) : observation := (d_mode (st_of o), res_of o, cost_of o, cbs_of o).

Fixpoint run (s : dstate) (h : list (sync * list Z * bool)) : list observation * dstate :=
  match h with
  | [] => ([], s)
  | (sw, fr, r) :: t =>
    let o := step s sw fr r in
    let '(obs, s') := run (st_of o) t in (observe o :: obs, s')
  end.

End Decoder.
