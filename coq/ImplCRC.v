(** Gallina mirror of include/m17cxx/CRC16.h, statement by statement, on N with the
    C++ masks written out.  Parametric in Poly/Init like the template. *)
From Coq Require Import NArith List.
From M17 Require Import Bits.
Import ListNotations.
Local Open Scope N_scope.

Section CRC.
Variables (Poly Init : N).
Definition MASK : N := 0xFFFF.
Definition LSB : N := 1.
Definition MSB : N := 0x8000.

(* body of the loop in reset() *)
Definition reset_step (reg : N) : N :=
  let bit := N.land reg LSB in
  let reg1 := if N.eqb bit 0 then reg else N.lxor reg Poly in
  let reg2 := N.shiftr reg1 1 in
  if N.eqb bit 0 then reg2 else N.lor reg2 MSB.

Definition reset_reg : N := N.land (Nat.iter 16 reset_step Init) MASK.

(* body of the loop in crc(byte, reg), iteration i *)
Definition crc_step (byte : N) (reg : N) (i : nat) : N :=
  let msb := N.land reg MSB in
  let reg1 := N.lor (N.land (N.shiftl reg 1) MASK) (N.land (N.shiftr byte (N.of_nat (7 - i))) LSB) in
  if N.eqb msb 0 then reg1 else N.lxor reg1 Poly.

Definition crc_byte (reg byte : N) : N :=
  N.land (fold_left (crc_step byte) (seq 0 8) reg) MASK.

(* body of the loop in get() *)
Definition get_step (reg : N) : N :=
  let msb := N.land reg MSB in
  let reg1 := N.land (N.shiftl reg 1) MASK in
  if N.eqb msb 0 then reg1 else N.lxor reg1 Poly.

Definition get (reg : N) : N := Nat.iter 16 get_step reg.

Definition get_bytes (reg : N) : list N :=
  let crc := get reg in [N.land (N.shiftr crc 8) 0xFF; N.land crc 0xFF].

(* reset(); for (c : bytes) crc_(c); *)
Definition feed (bytes : list N) : N := fold_left crc_byte bytes reset_reg.
Definition crc_of (bytes : list N) : N := get (feed bytes).
Definition crc_bytes_of (bytes : list N) : list N := get_bytes (feed bytes).
End CRC.
