(** C06: the control state machine has no dead state.  Phase lemmas (each with an explicit bound in samples) and their composition. *)
From Coq Require Import ZArith Bool List Lia ZifyBool.
From M17 Require Import ConstsDemod ImplDemodCtl SpecDemodCtl LemmasDemodCtl_Base LemmasDemodCtl_WF LemmasDemodCtl_Reach.
Import ListNotations.
Local Open Scope Z_scope.
Ltac Zify.zify_post_hook ::= Z.div_mod_to_equations.

Ltac splits := repeat match goal with |- _ /\ _ => split end.

Lemma live_good_unpack pf s o : live_good pf s o = true ->
  o_lvl_hi o = true /\ o_lvl_lo o = true /\ in_range o /\ (far_next s = true -> clock_step_ok pf s o = true).
Proof.
  unfold live_good, obs_carrier. intro H. apply andb_prop in H. destruct H as [H F]. apply andb_prop in H. destruct H as [C R].
  apply andb_prop in C. destruct C as [C1 C2].
  split; [exact C1|]. split; [exact C2|]. split; [apply obs_in_range_iff; exact R|].
  intro E. rewrite E in F. exact F.
Qed.

Lemma step_init_eq s o : 0 < init_left s ->
  step s o = (set_count 0 (corr_sample (set_init_left (init_left s - 1) (set_count (count s + 1) s))), []).
Proof. intro H. unfold step. st_cbn. replace (0 <? init_left s) with true by lia. reflexivity. Qed.

Lemma step_nodcd_eq s o : init_left s = 0 -> dcd_ s = false ->
  step s o = if (count s + 1) mod POLL_NODCD =? 0
             then let (s', ev) := update_dcd (set_count (count s + 1) s) in (set_count 0 (dcd_poll s' o), ev ++ [EvDcdUpdate])
             else (set_count (count s + 1) s, []).
Proof. intros H D. unfold step. st_cbn. rewrite H, D. cbn [Z.ltb Z.compare negb]. reflexivity. Qed.

(** what dispatch never touches *)
Lemma dispatch_frame s o :
  let s4 := fst (dispatch s o) in
  init_left s4 = init_left s /\ count s4 = count s /\ dcd_ s4 = dcd_ s /\ cpos s4 = cpos s /\
  (dcd_trig s = false -> dcd_trig s4 = false).
Proof.
  unfold dispatch, do_unlocked, unlocked_found, do_lsf_sync, lsf_found, do_stream_sync, do_packet_sync, do_bert_sync, sync_missed,
         do_sync_wait, do_frame.
  destruct_st s. st_cbn.
  destruct s_ds; st_cbn;
  repeat match goal with
         | |- context [if ?c then _ else _] => destruct c eqn:?; st_cbn
         | |- context [let (_, _) := ?c in _] => destruct c eqn:?; st_cbn
         end; cbn zeta; st_cbn; repeat split; try reflexivity; intro; try assumption; try reflexivity.
Qed.

(** ** phase 1: start-up *)
Definition Inv_init (s : st) : Prop := wf s /\ 0 < init_left s.
Definition Goal_init (s : st) : Prop := wf s /\ init_left s = 0.
Definition M_init (pf : bool) (s : st) : Z := init_left s.

Lemma live_init : forall (n : nat) pf s os,
  init_left s <= Z.of_nat n -> Inv_init s -> (n <= length os)%nat -> live_good_run pf s os -> reach n Goal_init s os.
Proof.
  apply (measure_reach Inv_init Goal_init M_init).
  - intros pf s [W H]. unfold M_init. lia.
  - intros pf s o [W H] G. destruct (live_good_unpack _ _ _ G) as [_ [_ [R _]]].
    pose proof (step_wf s o W R) as W1. rewrite (step_init_eq s o H) in W1 |- *. cbn [fst snd] in *.
    destruct (Z.eq_dec (init_left s) 1) as [E|E].
    + right. left. split; [exact W1|]. destruct_st s. st_cbn. unfold corr_sample. st_cbn. lia.
    + right. right. split; [split; [exact W1|]|]; unfold M_init; destruct_st s; unfold corr_sample; st_cbn; st_cbn; lia.
Qed.

(** ** phase 2: without carrier flag, the poll every POLL_NODCD samples raises it *)
Definition Inv_nodcd (s : st) : Prop := wf s /\ init_left s = 0 /\ dcd_ s = false.
Definition locked (s : st) : Prop := wf s /\ init_left s = 0 /\ dcd_ s = true /\ dcd_trig s = true.
Definition M_nodcd (pf : bool) (s : st) : Z := (if dcd_trig s then 0 else 384) + (384 - count s mod 384).

(** variant that remembers the demodState (the branch without carrier never changes it) and the re-arming done by dcd_on() *)
Definition Inv_nodcd_ds (d : dstate) (s : st) : Prop := Inv_nodcd s /\ ds s = d.
Definition Goal_nodcd_ds (d : dstate) (s : st) : Prop :=
  locked s /\ ds s = d /\ (d = UNLOCKED -> missing s = 0 /\ sync_count s = 0).

Lemma step_nodcd_fields s o : init_left s = 0 -> dcd_ s = false ->
  let s1 := fst (step s o) in
  init_left s1 = 0 /\ ds s1 = ds s /\ decodes (snd (step s o)) = [] /\
  (if (count s + 1) mod 384 =? 0
   then count s1 = 0 /\
        (if dcd_trig s then dcd_ s1 = true /\ dcd_trig s1 = o_lvl_lo o /\ (ds s = UNLOCKED -> missing s1 = 0 /\ sync_count s1 = 0)
         else dcd_ s1 = false /\ dcd_trig s1 = o_lvl_hi o)
   else count s1 = count s + 1 /\ dcd_ s1 = false /\ dcd_trig s1 = dcd_trig s).
Proof.
  intros H D. rewrite (step_nodcd_eq s o H D). unfold_consts.
  destruct ((count s + 1) mod 384 =? 0).
  - unfold update_dcd, dcd_on, dcd_poll. destruct_st s. st_cbn. subst. cbn [negb andb].
    destruct s_trig; st_cbn; [destruct s_ds; st_cbn|]; cbn zeta; st_cbn;
      repeat split; try reflexivity; try discriminate.
  - cbn zeta. cbn [fst snd]. destruct_st s. st_cbn. subst. repeat split; reflexivity.
Qed.

Lemma live_carrier_on d : forall (n : nat) pf s os,
  M_nodcd pf s <= Z.of_nat n -> Inv_nodcd_ds d s -> (n <= length os)%nat -> live_good_run pf s os -> reach n (Goal_nodcd_ds d) s os.
Proof.
  apply (measure_reach (Inv_nodcd_ds d) (Goal_nodcd_ds d) M_nodcd).
  - intros pf s [[W [H D]] E]. unfold M_nodcd. destruct W. destruct (dcd_trig s); lia.
  - intros pf s o [[W [H D]] E] G. destruct (live_good_unpack _ _ _ G) as [Ghi [Glo [R _]]].
    pose proof (step_wf s o W R) as W1.
    pose proof (step_nodcd_fields s o H D) as F. cbn zeta in F. destruct F as [F1 [F2 [F3 F4]]].
    right. unfold M_nodcd, Inv_nodcd_ds, Inv_nodcd, Goal_nodcd_ds, locked.
    destruct W as [Wi Wc _ _ _ _ _ _].
    destruct ((count s + 1) mod 384 =? 0) eqn:E1.
    + destruct F4 as [F4 F5]. destruct (dcd_trig s) eqn:ET.
      * destruct F5 as [F5 [F6 F7]]. left. rewrite Glo in F6. splits; try assumption; try congruence.
        all: intro; subst d; apply F7; assumption.
      * destruct F5 as [F5 F6]. right. rewrite Ghi in F6. rewrite F6, F4. splits; try assumption; try congruence. lia.
    + destruct F4 as [F4 [F5 F6]]. right. rewrite F6, F4. splits; try assumption; try congruence. destruct (dcd_trig s); lia.
Qed.

(** ** phase 3: after dcd.unlock() the next poll drops the carrier flag and sets UNLOCKED *)
Definition Inv_rel (s : st) : Prop := wf s /\ init_left s = 0 /\ dcd_ s = true /\ dcd_trig s = false.
Definition Goal_rel (s : st) : Prop := Inv_nodcd_ds UNLOCKED s.
Definition M_rel (pf : bool) (s : st) : Z := 960 - count s mod 960.

Lemma step_rel_fields s o : init_left s = 0 -> dcd_ s = true -> dcd_trig s = false ->
  let s1 := fst (step s o) in
  init_left s1 = 0 /\
  (decodes (snd (step s o)) <> [] \/
   (if (count s + 1) mod 960 =? 0 then dcd_ s1 = false /\ ds s1 = UNLOCKED
    else count s1 = count s + 1 /\ dcd_ s1 = true /\ dcd_trig s1 = false)).
Proof.
  intros H D T. rewrite (step_locked_eq s o H D).
  destruct (pre_dispatch_spec s o) as [P Pq].
  destruct (pre_dispatch s o) as [s3 e1]. cbn [fst snd] in P, Pq.
  destruct P as [P_init P_eot P_count P_ds P_swt P_dcd P_sc P_miss P_ssi P_cprev P_cpos P_fidx P_cost P_trig P_dec P_si P_ncr].
  pose proof (dispatch_frame s3 o) as F. cbn zeta in F.
  destruct (dispatch s3 o) as [s4 e2]. cbn [fst snd] in F. destruct F as [F1 [F2 [F3 [F4 F5]]]].
  rewrite P_trig in F5. specialize (F5 T).
  assert (C4 : count s4 = count s + 1) by congruence.
  assert (D4 : dcd_ s4 = true) by congruence.
  assert (I4 : init_left s4 = 0) by congruence.
  unfold post_dispatch, update_dcd, dcd_poll, dcd_off. unfold_consts. rewrite C4, F5, D4. cbn [negb andb].
  destruct ((count s + 1) mod 960 =? 0).
  - cbn zeta. cbn [fst snd]. destruct_st s4. st_cbn. split; [exact I4|]. right. split; reflexivity.
  - cbn zeta. cbn [fst snd]. split; [exact I4|].
    destruct (decodes e2) eqn:Ed.
    + right. splits; assumption.
    + left. rewrite !decodes_app, Ed, (proj2 Pq). discriminate.
Qed.

Lemma live_release : forall (n : nat) pf s os,
  M_rel pf s <= Z.of_nat n -> Inv_rel s -> (n <= length os)%nat -> live_good_run pf s os -> reach n Goal_rel s os.
Proof.
  apply (measure_reach Inv_rel Goal_rel M_rel).
  - intros pf s [W [H [D T]]]. unfold M_rel. destruct W. lia.
  - intros pf s o [W [H [D T]]] G. destruct (live_good_unpack _ _ _ G) as [Ghi [Glo [R _]]].
    pose proof (step_wf s o W R) as W1.
    pose proof (step_rel_fields s o H D T) as F. cbn zeta in F. destruct F as [F1 [F2|F2]]; [left; exact F2|].
    right. unfold M_rel, Inv_rel, Goal_rel, Inv_nodcd_ds, Inv_nodcd. destruct W as [Wi Wc _ _ _ _ _ _].
    destruct ((count s + 1) mod 960 =? 0) eqn:E1.
    + left. destruct F2. splits; assumption.
    + right. destruct F2 as [F2 [F3 F4]]. rewrite F2. splits; try assumption. lia.
Qed.

(** ** phase 4: with carrier flag and detector both on *)

(** one step from a locked state under carrier: [wf], [init_left], the two carrier flags are kept as long as dispatch does not
    call dcd.unlock(); all other fields are those dispatch produced *)
Lemma step_locked_view s o : locked s -> o_lvl_lo o = true -> in_range o ->
  exists s3 s4 e1 e2 e3,
    pre_spec s s3 /\ quiet e1 /\ dispatch s3 o = (s4, e2) /\ snd (step s o) = e1 ++ e2 ++ e3 /\ quiet e3 /\
    wf (fst (step s o)) /\ init_left (fst (step s o)) = 0 /\ dcd_ s4 = true /\ count s4 = count s + 1 /\
    (dcd_trig s4 = true -> post_spec s4 (fst (step s o))) /\
    (dcd_trig s4 = false ->
       (fst (step s o) = s4) \/ (dcd_ (fst (step s o)) = false /\ ds (fst (step s o)) = UNLOCKED)).
Proof.
  intros [W [H [D T]]] Glo R.
  pose proof (step_wf s o W R) as W1.
  rewrite (step_locked_eq s o H D) in W1 |- *.
  destruct (pre_dispatch_spec s o) as [P Pq].
  destruct (pre_dispatch s o) as [s3 e1]. cbn [fst snd] in P, Pq.
  pose proof (dispatch_frame s3 o) as F. cbn zeta in F.
  destruct (dispatch s3 o) as [s4 e2] eqn:ED. cbn [fst snd] in F. destruct F as [F1 [F2 [F3 [F4 F5]]]].
  destruct P as [P_init P_eot P_count P_ds P_swt P_dcd P_sc P_miss P_ssi P_cprev P_cpos P_fidx P_cost P_trig P_dec P_si P_ncr].
  assert (D4 : dcd_ s4 = true) by congruence.
  assert (I4 : init_left s4 = 0) by congruence.
  exists s3, s4, e1, e2, (snd (post_dispatch s4 o)).
  destruct (post_dispatch s4 o) as [s5 e3] eqn:EP. cbn [fst snd] in *.
  split; [constructor; assumption|]. split; [exact Pq|]. split; [exact ED|]. split; [reflexivity|].
  assert (Q3 : quiet e3 /\ init_left s5 = 0 /\
               (dcd_trig s4 = true -> post_spec s4 s5) /\
               (dcd_trig s4 = false -> s5 = s4 \/ (dcd_ s5 = false /\ ds s5 = UNLOCKED))).
  { destruct (dcd_trig s4) eqn:T4.
    - destruct (post_dispatch_locked s4 o D4 T4 Glo) as [Q Qq]. rewrite EP in Q, Qq. cbn [fst snd] in Q, Qq.
      split; [exact Qq|]. split; [destruct Q; congruence|]. split; [intro; exact Q|intro; discriminate].
    - unfold post_dispatch, update_dcd, dcd_off, dcd_poll in EP. rewrite D4, T4 in EP. cbn [negb andb] in EP.
      destruct (count s4 mod POLL_DCD =? 0); inversion EP; subst; clear EP.
      + split; [split; reflexivity|]. split; [destruct_st s4; st_cbn; exact I4|]. split; [intro; discriminate|].
        intros _. right. destruct_st s4. st_cbn. split; reflexivity.
      + split; [split; reflexivity|]. split; [exact I4|]. split; [intro; discriminate|]. intros _. left. reflexivity. }
  destruct Q3 as [Q1 [Q2 [Q3 Q4]]].
  split; [exact Q1|]. split; [exact W1|]. split; [exact Q2|]. split; [exact D4|]. split; [congruence|]. split; assumption.
Qed.

(** *** 4a: the unlocked search starts with a bounded preamble phase *)
Lemma do_unlocked_phase1 s3 o : ds s3 = UNLOCKED -> missing s3 < PREAMBLE_PHASE ->
  quiet (snd (dispatch s3 o)) /\ dcd_trig (fst (dispatch s3 o)) = dcd_trig s3 /\
  (ds (fst (dispatch s3 o)) = LSF_SYNC \/
   (ds (fst (dispatch s3 o)) = UNLOCKED /\ missing (fst (dispatch s3 o)) = missing s3 + 1)).
Proof.
  intros E M. unfold dispatch. rewrite E. unfold do_unlocked. replace (missing s3 <? PREAMBLE_PHASE) with true by lia.
  destruct_st s3. st_cbn. subst s_ds. destruct (negb (o_pre_upd o =? 0)); st_cbn; (split; [split; reflexivity|]); (split; [reflexivity|]).
  - left. reflexivity.
  - right. split; reflexivity.
Qed.

Definition Inv_search (s : st) : Prop := locked s /\ ds s = UNLOCKED /\ missing s < PREAMBLE_PHASE.
Definition M_search (pf : bool) (s : st) : Z := PREAMBLE_PHASE - missing s.

Lemma listening_intro s : locked s -> (ds s = LSF_SYNC \/ (ds s = UNLOCKED /\ PREAMBLE_PHASE <= missing s)) -> listening s = true.
Proof.
  intros [W [H [D T]]] E. unfold listening. rewrite H, D, T. cbn [Z.eqb andb].
  destruct E as [E|[E M]]; rewrite E; [reflexivity|lia].
Qed.

Lemma live_unlocked_search : forall (n : nat) pf s os,
  M_search pf s <= Z.of_nat n -> Inv_search s -> (n <= length os)%nat -> live_good_run pf s os ->
  reach n (fun s' => listening s' = true) s os.
Proof.
  apply (measure_reach Inv_search (fun s' => listening s' = true) M_search).
  - intros pf s [L [E M]]. unfold M_search. lia.
  - intros pf s o [L [E M]] G. destruct (live_good_unpack _ _ _ G) as [Ghi [Glo [R _]]].
    destruct (step_locked_view s o L Glo R) as [s3 [s4 [e1 [e2 [e3 [P [Pq [ED [EV [Q3 [W1 [I1 [D4 [C4 [V1 V2]]]]]]]]]]]]]]].
    destruct P as [P_init P_eot P_count P_ds P_swt P_dcd P_sc P_miss P_ssi P_cprev P_cpos P_fidx P_cost P_trig P_dec P_si P_ncr].
    destruct L as [W [H [D T]]].
    assert (E3 : ds s3 = UNLOCKED) by congruence. assert (M3 : missing s3 < PREAMBLE_PHASE) by congruence.
    pose proof (do_unlocked_phase1 s3 o E3 M3) as U. rewrite ED in U. cbn [fst snd] in U. destruct U as [U1 [U2 U3]].
    assert (T4 : dcd_trig s4 = true) by congruence.
    specialize (V1 T4). destruct V1.
    right.
    assert (L1 : locked (fst (step s o))) by (unfold locked; splits; assumption).
    destruct U3 as [U3|[U3 U4]].
    + left. apply listening_intro; [exact L1|]. left. congruence.
    + destruct (Z.eq_dec (missing s + 1) PREAMBLE_PHASE) as [Eq|Ne].
      * left. apply listening_intro; [exact L1|]. right. split; [congruence|]. rewrite po_miss, U4, P_miss. lia.
      * right. unfold Inv_search, M_search. splits; try assumption; try congruence.
        all: rewrite po_miss, U4, P_miss; lia.
Qed.

(** *** 4c: SYNC_WAIT hands over to FRAME *)
Lemma do_sync_wait_spec s3 o : ds s3 = SYNC_WAIT ->
  quiet (snd (dispatch s3 o)) /\ dcd_trig (fst (dispatch s3 o)) = dcd_trig s3 /\
  (if sync_count s3 <? MAX_SYNC_COUNT
   then ds (fst (dispatch s3 o)) = SYNC_WAIT /\ sync_count (fst (dispatch s3 o)) = sync_count s3 + 1
   else ds (fst (dispatch s3 o)) = FRAME).
Proof.
  intros E. unfold dispatch. rewrite E. unfold do_sync_wait.
  destruct_st s3. st_cbn. subst s_ds. destruct (s_sc <? MAX_SYNC_COUNT); st_cbn; (split; [split; reflexivity|]); (split; [reflexivity|]).
  - split; reflexivity.
  - reflexivity.
Qed.

Definition Inv_wait (s : st) : Prop := locked s /\ ds s = SYNC_WAIT.
Definition Goal_frame (s : st) : Prop := locked s /\ ds s = FRAME.
Definition M_wait (pf : bool) (s : st) : Z := Z.max 0 (MAX_SYNC_COUNT - sync_count s) + 1.

Lemma live_sync_wait : forall (n : nat) pf s os,
  M_wait pf s <= Z.of_nat n -> Inv_wait s -> (n <= length os)%nat -> live_good_run pf s os -> reach n Goal_frame s os.
Proof.
  apply (measure_reach Inv_wait Goal_frame M_wait).
  - intros pf s [L E]. unfold M_wait. lia.
  - intros pf s o [L E] G. destruct (live_good_unpack _ _ _ G) as [Ghi [Glo [R _]]].
    destruct (step_locked_view s o L Glo R) as [s3 [s4 [e1 [e2 [e3 [P [Pq [ED [EV [Q3 [W1 [I1 [D4 [C4 [V1 V2]]]]]]]]]]]]]]].
    destruct P as [P_init P_eot P_count P_ds P_swt P_dcd P_sc P_miss P_ssi P_cprev P_cpos P_fidx P_cost P_trig P_dec P_si P_ncr].
    destruct L as [W [H [D T]]].
    assert (E3 : ds s3 = SYNC_WAIT) by congruence.
    pose proof (do_sync_wait_spec s3 o E3) as U. rewrite ED in U. cbn [fst snd] in U. destruct U as [U1 [U2 U3]].
    assert (T4 : dcd_trig s4 = true) by congruence.
    specialize (V1 T4). destruct V1.
    right.
    assert (L1 : locked (fst (step s o))) by (unfold locked; splits; assumption).
    rewrite P_sc in U3. unfold MAX_SYNC_COUNT in *.
    destruct (sync_count s <? 86) eqn:E1.
    + right. destruct U3 as [U3 U4]. unfold Inv_wait, M_wait. unfold MAX_SYNC_COUNT. splits; try assumption; try congruence.
      rewrite po_sc, U4. lia.
    + left. split; [exact L1|congruence].
Qed.

(** *** 4d: STREAM_SYNC / PACKET_SYNC / BERT_SYNC resolve when the window closes *)
Definition is_sync (d : dstate) : Prop := d = STREAM_SYNC \/ d = PACKET_SYNC \/ d = BERT_SYNC.

Lemma do_sync_spec s3 o : is_sync (ds s3) ->
  let s4 := fst (dispatch s3 o) in
  decodes (snd (dispatch s3 o)) = [] /\
  ((ds s4 = ds s3 /\ sync_count s4 = sync_count s3 + 1 /\ sync_count s3 + 1 <= MAX_SYNC_COUNT /\ dcd_trig s4 = dcd_trig s3) \/
   ((ds s4 = SYNC_WAIT \/ ds s4 = FRAME) /\ dcd_trig s4 = dcd_trig s3) \/
   (ds s4 = UNLOCKED /\ dcd_trig s4 = false)).
Proof.
  intros E. unfold dispatch, do_stream_sync, do_packet_sync, do_bert_sync, sync_missed.
  destruct_st s3. st_cbn. unfold_consts.
  destruct E as [E|[E|E]]; subst s_ds; st_cbn;
  repeat match goal with
         | |- context [if ?c then _ else _] => destruct c eqn:?; st_cbn
         | |- context [let (_, _) := ?c in _] => destruct c eqn:?; st_cbn
         end; cbn zeta; st_cbn; (split; [reflexivity|]);
  first [ left; splits; first [reflexivity | lia]
        | right; left; split; [first [left; reflexivity | right; reflexivity] | reflexivity]
        | right; right; split; reflexivity ].
Qed.

Definition Inv_sync (s : st) : Prop := locked s /\ is_sync (ds s).
Definition Goal_sync (s : st) : Prop :=
  Inv_wait s \/ Goal_frame s \/ Inv_rel s \/ Inv_nodcd_ds UNLOCKED s.
Definition M_sync (pf : bool) (s : st) : Z := Z.max 0 (MAX_SYNC_COUNT + 1 - sync_count s) + 1.

Lemma live_sync : forall (n : nat) pf s os,
  M_sync pf s <= Z.of_nat n -> Inv_sync s -> (n <= length os)%nat -> live_good_run pf s os -> reach n Goal_sync s os.
Proof.
  apply (measure_reach Inv_sync Goal_sync M_sync).
  - intros pf s [L E]. unfold M_sync. lia.
  - intros pf s o [L E] G. destruct (live_good_unpack _ _ _ G) as [Ghi [Glo [R _]]].
    destruct (step_locked_view s o L Glo R) as [s3 [s4 [e1 [e2 [e3 [P [Pq [ED [EV [Q3 [W1 [I1 [D4 [C4 [V1 V2]]]]]]]]]]]]]]].
    destruct P as [P_init P_eot P_count P_ds P_swt P_dcd P_sc P_miss P_ssi P_cprev P_cpos P_fidx P_cost P_trig P_dec P_si P_ncr].
    destruct L as [W [H [D T]]].
    assert (E3 : is_sync (ds s3)) by (rewrite P_ds; exact E).
    pose proof (do_sync_spec s3 o E3) as U. cbn zeta in U. rewrite ED in U. cbn [fst snd] in U. destruct U as [U1 U2].
    right. unfold Goal_sync, Inv_wait, Goal_frame, Inv_rel, Inv_nodcd_ds, Inv_nodcd, Inv_sync, locked, M_sync. unfold MAX_SYNC_COUNT in *.
    destruct U2 as [[U2 [U3 [U4 U5]]]|[[U2 U5]|[U2 U5]]].
    + assert (T4 : dcd_trig s4 = true) by congruence. specialize (V1 T4). destruct V1.
      right. splits; try assumption; try congruence.
      all: try (rewrite po_ds, U2, P_ds; exact E).
      all: try (rewrite po_sc, U3, P_sc; lia).
    + assert (T4 : dcd_trig s4 = true) by congruence. specialize (V1 T4). destruct V1.
      left. destruct U2 as [U2|U2]; [left|right; left]; splits; try assumption; congruence.
    + specialize (V2 U5). left. destruct V2 as [V2|[V2 V3]].
      * right. right. left. rewrite V2 in *. splits; assumption.
      * right. right. right. splits; assumption.
Qed.

(** *** 4b: FRAME always completes its 184 symbols *)
Lemma do_frame_spec s3 o : ds s3 = FRAME ->
  let s4 := fst (dispatch s3 o) in let ev := snd (dispatch s3 o) in
  let idx := cprev s3 mod 10 in
  dcd_trig s4 = dcd_trig s3 /\ ncr s4 = ncr s3 /\
  (if Z.abs (sample_index s3 - idx) =? 5
   then ds s4 = FRAME /\ sample_index s4 = u8 (o_cr_free o) /\ fidx s4 = fidx s3 /\ decodes ev = []
   else if idx =? sample_index s3
        then (if fidx s3 + 2 =? 368 then decodes ev <> []
              else ds s4 = FRAME /\ sample_index s4 = sample_index s3 /\ fidx s4 = fidx s3 + 2 /\ decodes ev = [])
        else ds s4 = FRAME /\ sample_index s4 = sample_index s3 /\ fidx s4 = fidx s3 /\ decodes ev = []).
Proof.
  intros E. unfold dispatch. rewrite E. unfold do_frame, is_far_point, corr_index. unfold_consts.
  destruct_st s3. st_cbn. subst s_ds.
  destruct (Z.abs (s_si - s_cprev mod 10) =? 5); st_cbn.
  - cbn zeta. st_cbn. splits; reflexivity.
  - destruct (s_cprev mod 10 =? s_si); cbn [negb]; st_cbn.
    + destruct (s_fidx + 2 =? 368); cbn zeta; st_cbn; splits; try reflexivity. discriminate.
    + cbn zeta. st_cbn. splits; reflexivity.
Qed.

Definition sigma (w : Z) (pf : bool) : Z := w + 1 + Z.b2z (5 <? w) + Z.b2z ((w =? 5) && negb pf).
Definition Inv_frame (s : st) : Prop := locked s /\ ds s = FRAME.
Definition M_frame (pf : bool) (s : st) : Z :=
  (183 - fidx s / 2) * 11 + sigma ((sample_index s - cpos s) mod 10) pf + 11 * Z.b2z (ncr s).

Lemma live_frame : forall (n : nat) pf s os,
  M_frame pf s <= Z.of_nat n -> Inv_frame s -> (n <= length os)%nat -> live_good_run pf s os -> reach n (fun _ => False) s os.
Proof.
  apply (measure_reach Inv_frame (fun _ => False) M_frame).
  - intros pf s [[W [H [D T]]] E]. unfold M_frame, sigma. destruct W as [_ _ W3 _ W5 _ _ [W8 W9]].
    destruct (ncr s), pf; cbn [Z.b2z negb andb]; lia.
  - intros pf s o [L E] G. destruct (live_good_unpack _ _ _ G) as [Ghi [Glo [R Gfar]]].
    destruct (step_locked_view s o L Glo R) as [s3 [s4 [e1 [e2 [e3 [P [Pq [ED [EV [Q3 [W1 [I1 [D4 [C4 [V1 V2]]]]]]]]]]]]]]].
    destruct P as [P_init P_eot P_count P_ds P_swt P_dcd P_sc P_miss P_ssi P_cprev P_cpos P_fidx P_cost P_trig P_dec P_si P_ncr].
    destruct L as [W [H [D T]]].
    assert (E3 : ds s3 = FRAME) by congruence.
    pose proof (do_frame_spec s3 o E3) as U. cbn zeta in U. rewrite ED in U. cbn [fst snd] in U. destruct U as [U1 [U2 U3]].
    assert (T4 : dcd_trig s4 = true) by congruence.
    specialize (V1 T4). destruct V1.
    assert (Dec : decodes (snd (step s o)) = decodes e2).
    { rewrite EV, decodes_app, (proj2 Pq), decodes_app, (proj2 Q3), app_nil_r. reflexivity. }
    rewrite Dec.
    assert (L1 : locked (fst (step s o))) by (unfold locked; splits; assumption).
    unfold Inv_frame, M_frame, sigma.
    rewrite po_si, po_cpos, po_fidx, po_ncr, po_ds.
    pose proof (dispatch_frame s3 o) as F. cbn zeta in F. rewrite ED in F. cbn [fst] in F. destruct F as [_ [_ [_ [F4 _]]]].
    rewrite F4, U2, P_cpos, P_ncr.
    rewrite P_cprev, P_si, P_fidx in U3.
    destruct R as [_ _ _ Rcr].
    unfold far_next, next_index, clock_step_ok in *. rewrite E in *. unfold_consts.
    destruct W as [_ _ W3 W4 W5 _ _ [W8 W9]].
    assert (U8 : u8 (o_cr_free o) = o_cr_free o) by (apply u8_small; exact Rcr).
    rewrite U8 in U3.
    assert (Nx : exists c', (if cpos s + 1 =? 80 then 0 else cpos s + 1) = c' /\ c' mod 10 = (cpos s + 1) mod 10 /\ 0 <= c' < 80)
      by (destruct (cpos s + 1 =? 80) eqn:E80; eexists; split; try reflexivity; lia).
    destruct Nx as [c' [Ec [Nmod Nrange]]]. rewrite Ec.
    destruct (cpos s mod 10 =? 0) eqn:E0; destruct (ncr s) eqn:En; cbn [andb] in U3.
    + (* clock reset in this sample: the bonus term pays for whatever happens to the sampling index *)
      destruct (Z.abs (ssi s - cpos s mod 10) =? 5).
      * destruct U3 as [A1 [A2 [A3 A4]]]. right. right. split; [split; [exact L1|exact A1]|].
        rewrite A2, A3. cbn [Z.b2z]. destruct pf, (Z.abs (sample_index s - cpos s mod 10) =? 5); cbn [negb andb Z.b2z]; lia.
      * destruct (cpos s mod 10 =? ssi s).
        -- destruct (fidx s + 2 =? 368); [left; exact U3|].
           destruct U3 as [A1 [A2 [A3 A4]]]. right. right. split; [split; [exact L1|exact A1]|].
           rewrite A2, A3. cbn [Z.b2z]. destruct pf, (Z.abs (sample_index s - cpos s mod 10) =? 5); cbn [negb andb Z.b2z]; lia.
        -- destruct U3 as [A1 [A2 [A3 A4]]]. right. right. split; [split; [exact L1|exact A1]|].
           rewrite A2, A3. cbn [Z.b2z]. destruct pf, (Z.abs (sample_index s - cpos s mod 10) =? 5); cbn [negb andb Z.b2z]; lia.
    + destruct (Z.abs (sample_index s - cpos s mod 10) =? 5) eqn:Ef.
      * specialize (Gfar eq_refl). destruct U3 as [A1 [A2 [A3 A4]]]. right. right. split; [split; [exact L1|exact A1]|].
        rewrite A2, A3. cbn [Z.b2z]. destruct pf; cbn [negb andb Z.b2z]; lia.
      * destruct (cpos s mod 10 =? sample_index s) eqn:Es.
        -- destruct (fidx s + 2 =? 368); [left; exact U3|].
           destruct U3 as [A1 [A2 [A3 A4]]]. right. right. split; [split; [exact L1|exact A1]|].
           rewrite A2, A3. cbn [Z.b2z]. destruct pf; cbn [negb andb Z.b2z]; lia.
        -- destruct U3 as [A1 [A2 [A3 A4]]]. right. right. split; [split; [exact L1|exact A1]|].
           rewrite A2, A3. cbn [Z.b2z]. destruct pf; cbn [negb andb Z.b2z]; lia.
    + destruct (Z.abs (sample_index s - cpos s mod 10) =? 5) eqn:Ef.
      * specialize (Gfar eq_refl). destruct U3 as [A1 [A2 [A3 A4]]]. right. right. split; [split; [exact L1|exact A1]|].
        rewrite A2, A3. cbn [Z.b2z]. destruct pf; cbn [negb andb Z.b2z]; lia.
      * destruct (cpos s mod 10 =? sample_index s) eqn:Es.
        -- destruct (fidx s + 2 =? 368); [left; exact U3|].
           destruct U3 as [A1 [A2 [A3 A4]]]. right. right. split; [split; [exact L1|exact A1]|].
           rewrite A2, A3. cbn [Z.b2z]. destruct pf; cbn [negb andb Z.b2z]; lia.
        -- destruct U3 as [A1 [A2 [A3 A4]]]. right. right. split; [split; [exact L1|exact A1]|].
           rewrite A2, A3. cbn [Z.b2z]. destruct pf; cbn [negb andb Z.b2z]; lia.
    + destruct (Z.abs (sample_index s - cpos s mod 10) =? 5) eqn:Ef.
      * specialize (Gfar eq_refl). destruct U3 as [A1 [A2 [A3 A4]]]. right. right. split; [split; [exact L1|exact A1]|].
        rewrite A2, A3. cbn [Z.b2z]. destruct pf; cbn [negb andb Z.b2z]; lia.
      * destruct (cpos s mod 10 =? sample_index s) eqn:Es.
        -- destruct (fidx s + 2 =? 368); [left; exact U3|].
           destruct U3 as [A1 [A2 [A3 A4]]]. right. right. split; [split; [exact L1|exact A1]|].
           rewrite A2, A3. cbn [Z.b2z]. destruct pf; cbn [negb andb Z.b2z]; lia.
        -- destruct U3 as [A1 [A2 [A3 A4]]]. right. right. split; [split; [exact L1|exact A1]|].
           rewrite A2, A3. cbn [Z.b2z]. destruct pf; cbn [negb andb Z.b2z]; lia.
Qed.

(** ** composition *)
Definition Listening (s : st) : Prop := listening s = true.

Lemma M_frame_bound pf s : Inv_frame s -> M_frame pf s <= 2035.
Proof.
  intros [[W _] _]. unfold M_frame, sigma. destruct W as [_ _ W3 _ W5 _ _ [W8 W9]].
  destruct (ncr s), pf; cbn [Z.b2z negb andb]; lia.
Qed.

Lemma live_from_frame pf s os : Goal_frame s -> live_good_run pf s os -> (2035 <= length os)%nat -> reach 2035 Listening s os.
Proof.
  intros F G L. apply (reach_impl _ (fun _ => False)); [intros x []|].
  apply (live_frame 2035 pf); try assumption. apply (M_frame_bound pf s F).
Qed.

Lemma live_from_wait pf s os : Inv_wait s -> live_good_run pf s os -> (87 + 2035 <= length os)%nat -> reach (87 + 2035) Listening s os.
Proof.
  intros I G L.
  apply (reach_trans 87 2035 Goal_frame Listening s os pf G).
  - apply (live_sync_wait 87 pf); try assumption; try lia.
    destruct I as [[W _] _]. destruct W. unfold M_wait, MAX_SYNC_COUNT. lia.
  - intros s' pf' os' Q G' L'. apply (live_from_frame pf'); try assumption. lia.
Qed.

Lemma live_from_locked_unlocked pf s os : locked s -> ds s = UNLOCKED -> live_good_run pf s os -> (1920 <= length os)%nat ->
  reach 1920 Listening s os.
Proof.
  intros Lk E G L. destruct (Z_lt_ge_dec (missing s) PREAMBLE_PHASE) as [M|M].
  - apply (live_unlocked_search 1920 pf); try assumption.
    + unfold M_search, PREAMBLE_PHASE. destruct Lk as [W _]. destruct W. lia.
    + unfold Inv_search. splits; assumption.
  - apply reach_now. apply listening_intro; [exact Lk|]. right. split; [exact E|lia].
Qed.

Lemma live_from_nodcd_unlocked pf s os : Inv_nodcd_ds UNLOCKED s -> live_good_run pf s os -> (768 + 1920 <= length os)%nat ->
  reach (768 + 1920) Listening s os.
Proof.
  intros I G L.
  apply (reach_trans 768 1920 (Goal_nodcd_ds UNLOCKED) Listening s os pf G).
  - apply (live_carrier_on UNLOCKED 768 pf); try assumption; try lia.
    destruct I as [[W _] _]. destruct W. unfold M_nodcd. destruct (dcd_trig s); lia.
  - intros s' pf' os' [Lk [E _]] G' L'. apply (live_from_locked_unlocked pf'); try assumption. lia.
Qed.

Lemma live_from_rel pf s os : Inv_rel s -> live_good_run pf s os -> (960 + (768 + 1920) <= length os)%nat ->
  reach (960 + (768 + 1920)) Listening s os.
Proof.
  intros I G L.
  apply (reach_trans 960 (768 + 1920) Goal_rel Listening s os pf G).
  - apply (live_release 960 pf); try assumption; try lia.
    destruct I as [W _]. destruct W. unfold M_rel. lia.
  - intros s' pf' os' Q G' L'. apply (live_from_nodcd_unlocked pf'); try assumption. lia.
Qed.

Lemma live_from_sync pf s os : Inv_sync s -> live_good_run pf s os -> (88 + 3648 <= length os)%nat ->
  reach (88 + 3648) Listening s os.
Proof.
  intros I G L.
  apply (reach_trans 88 3648 Goal_sync Listening s os pf G).
  - apply (live_sync 88 pf); try assumption; try lia.
    destruct I as [[W _] _]. destruct W. unfold M_sync, MAX_SYNC_COUNT. lia.
  - intros s' pf' os' Q G' L'. destruct Q as [Q|[Q|[Q|Q]]].
    + apply (reach_weaken (87 + 2035)); [lia|]. apply (live_from_wait pf'); try assumption. lia.
    + apply (reach_weaken 2035); [lia|]. apply (live_from_frame pf'); try assumption. lia.
    + apply (reach_weaken (960 + (768 + 1920))); [lia|]. apply (live_from_rel pf'); try assumption. lia.
    + apply (reach_weaken (768 + 1920)); [lia|]. apply (live_from_nodcd_unlocked pf'); try assumption. lia.
Qed.

Lemma live_from_locked pf s os : locked s -> live_good_run pf s os -> (3736 <= length os)%nat -> reach 3736 Listening s os.
Proof.
  intros Lk G L. destruct (ds s) eqn:E.
  - apply (reach_weaken 1920); [lia|]. apply (live_from_locked_unlocked pf); try assumption. lia.
  - apply reach_now. apply listening_intro; [exact Lk|]. left. exact E.
  - apply (live_from_sync pf); try assumption. split; [exact Lk|]. rewrite E. left. reflexivity.
  - apply (live_from_sync pf); try assumption. split; [exact Lk|]. rewrite E. right. left. reflexivity.
  - apply (live_from_sync pf); try assumption. split; [exact Lk|]. rewrite E. right. right. reflexivity.
  - apply (reach_weaken (87 + 2035)); [lia|]. apply (live_from_wait pf); try assumption; try lia. split; assumption.
  - apply (reach_weaken 2035); [lia|]. apply (live_from_frame pf); try assumption; try lia. split; assumption.
Qed.

Lemma live_from_nodcd pf s os : Inv_nodcd s -> live_good_run pf s os -> (768 + 3736 <= length os)%nat ->
  reach (768 + 3736) Listening s os.
Proof.
  intros I G L.
  apply (reach_trans 768 3736 (Goal_nodcd_ds (ds s)) Listening s os pf G).
  - apply (live_carrier_on (ds s) 768 pf); try assumption; try lia.
    + destruct I as [W _]. destruct W. unfold M_nodcd. destruct (dcd_trig s); lia.
    + split; [exact I|reflexivity].
  - intros s' pf' os' [Lk _] G' L'. apply (live_from_locked pf'); try assumption. lia.
Qed.

Lemma live_from_init0 pf s os : wf s -> init_left s = 0 -> live_good_run pf s os -> (4504 <= length os)%nat ->
  reach 4504 Listening s os.
Proof.
  intros W H G L. destruct (dcd_ s) eqn:D.
  - destruct (dcd_trig s) eqn:T.
    + apply (reach_weaken 3736); [lia|]. apply (live_from_locked pf); try assumption; try lia. unfold locked. splits; assumption.
    + apply (reach_weaken (960 + (768 + 1920))); [lia|]. apply (live_from_rel pf); try assumption; try lia. unfold Inv_rel. splits; assumption.
  - apply (live_from_nodcd pf); try assumption. unfold Inv_nodcd. splits; assumption.
Qed.

Theorem ctl_no_dead_state_lemma : forall (s : st) (pf : bool) (os : list obs),
  wf_st s = true -> init_left s <= INITIALIZING -> live_good_run pf s os -> (1920 + 4504 <= length os)%nat ->
  reach (1920 + 4504) Listening s os.
Proof.
  intros s pf os W HI G L. apply wf_st_iff in W. unfold INITIALIZING in HI.
  destruct (Z_lt_ge_dec 0 (init_left s)) as [P|P].
  - apply (reach_trans 1920 4504 Goal_init Listening s os pf G).
    + apply (live_init 1920 pf); try assumption; try lia. split; assumption.
    + intros s' pf' os' [W' H'] G' L'. apply (live_from_init0 pf'); try assumption. lia.
  - apply (reach_weaken 4504); [lia|]. apply (live_from_init0 pf); try assumption; try lia. destruct W. lia.
Qed.

(** every give-up path re-arms the search: after dcd.unlock() (state UNLOCKED, detector flag cleared) the receiver is
    listening again within 960 + 768 + 1920 samples *)
Theorem recycle_rearms_lemma : forall (s : st) (pf : bool) (os : list obs),
  wf_st s = true -> init_left s = 0 -> dcd_ s = true -> dcd_trig s = false ->
  live_good_run pf s os -> (3648 <= length os)%nat -> reach 3648 Listening s os.
Proof.
  intros s pf os W H D T G L. apply wf_st_iff in W.
  apply (live_from_rel pf); try assumption. unfold Inv_rel. splits; assumption.
Qed.

