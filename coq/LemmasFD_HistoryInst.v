(** LemmasFD_History.v instantiated for the mirrors of the real pipeline stages, and a computed non-vacuity instance. *)
From Coq Require Import NArith ZArith List Bool.
From M17 Require Import Bits ImplCRC ConstsCrc ImplFrameDecoder ImplViterbi FrameDecoderInst SpecM17
  LemmasFD_LSF LemmasFD_History LemmasFD_Examples.
Import ListNotations.
Local Open Scope N_scope.

Definition fd_prep : list Z -> list Z := prep fd_derandomize fd_deinterleave.
Definition fd_frames_of : list (sync * list Z * bool) -> list (list Z) := frames_of fd_derandomize fd_deinterleave.
Definition fd_frame_frag : list Z -> option (nat * list N) := frame_frag fd_golay.
Definition fd_held_upd : held_t -> list Z -> held_t := held_upd fd_golay.
Definition fd_held_after : held_t -> list (list Z) -> held_t := held_after fd_golay.
Definition fd_waiting (h : held_t) (s : fd_state) : Prop := waiting scratch h s.
Definition fd_fresh (s : fd_state) : Prop := fresh scratch s.

Lemma fd_init_fresh : fd_fresh fd_init.
Proof. repeat split. Qed.

Lemma fd_reset_fresh s : fd_fresh (fd_reset s).
Proof. repeat split. Qed.

Lemma fd_held_upd_cases h fr lich ok : unpack_lich fd_golay fr = (lich, ok) ->
  (ok = false -> fd_held_upd h fr = h) /\
  (ok = true -> 5 < frag_of lich -> fd_held_upd h fr = h) /\
  (ok = true -> frag_of lich <= 5 -> fd_held_upd h fr = held_set h (N.to_nat (frag_of lich)) (firstn 5 lich)).
Proof. exact (held_upd_cases fd_golay h fr lich ok). Qed.

Lemma fd_lich_frame_exact h s fr lich ok : fd_waiting h s -> unpack_lich fd_golay fr = (lich, ok) ->
  let h' := fd_held_upd h fr in
  let o := decode_lich scratch fd_golay s fr in
  match ok, complete h' with
  | false, _ =>
      h' = h /\ res_of scratch o = RFail /\ cbs_of scratch o = [] /\ fd_waiting h' (st_of scratch o)
  | true, Some L =>
      res_of scratch o = ROk /\ d_mode scratch (st_of scratch o) = MStream /\ cost_of scratch o = Some 0%Z /\
      cbs_of scratch o = [mkcb FLich lich 0; mkcb FLsf L 0] /\ d_seg scratch (st_of scratch o) = 0 /\
      d_lsf scratch (st_of scratch o) = L
  | true, None =>
      res_of scratch o = RIncomplete /\ cbs_of scratch o = [mkcb FLich lich 0] /\ fd_waiting h' (st_of scratch o)
  end.
Proof. exact (lich_frame_exact scratch fd_golay h s fr lich ok). Qed.

Definition fd_quiet_ob : observation -> Prop := quiet_ob.

Lemma fd_lich_history_exact hs s fr r lich ok : fd_fresh s -> all_stream hs -> fd_mode (snd (fd_run s hs)) = MLsf ->
  unpack_lich fd_golay (fd_prep fr) = (lich, ok) ->
  let h := fd_held_after held0 (fd_frames_of hs) in
  let h' := fd_held_after held0 (fd_frames_of hs ++ [fd_prep fr]) in
  let o := fd_step (snd (fd_run s hs)) SStream fr r in
  fd_waiting h (snd (fd_run s hs)) /\ Forall fd_quiet_ob (fst (fd_run s hs)) /\
  match ok, complete h' with
  | false, _ =>
      h' = h /\ res_of scratch o = RFail /\ cbs_of scratch o = [] /\ fd_waiting h' (st_of scratch o)
  | true, Some L =>
      res_of scratch o = ROk /\ d_mode scratch (st_of scratch o) = MStream /\ cost_of scratch o = Some 0%Z /\
      cbs_of scratch o = [mkcb FLich lich 0; mkcb FLsf L 0] /\ d_seg scratch (st_of scratch o) = 0 /\
      d_lsf scratch (st_of scratch o) = L
  | true, None =>
      res_of scratch o = RIncomplete /\ cbs_of scratch o = [mkcb FLich lich 0] /\ fd_waiting h' (st_of scratch o)
  end.
Proof. exact (lich_history_exact scratch fd_derandomize fd_deinterleave fd_depuncture fd_viterbi fd_golay hs s fr r lich ok). Qed.

Lemma fd_lich_history_reports_iff hs s fr r : fd_fresh s -> all_stream hs -> fd_mode (snd (fd_run s hs)) = MLsf ->
  let h' := fd_held_after held0 (fd_frames_of hs ++ [fd_prep fr]) in
  let o := fd_step (snd (fd_run s hs)) SStream fr r in
  (res_of scratch o = ROk <-> complete h' <> None) /\
  ((exists cb, In cb (cbs_of scratch o) /\ cb_type cb = FLsf) <-> complete h' <> None).
Proof. exact (lich_history_reports_iff scratch fd_derandomize fd_deinterleave fd_depuncture fd_viterbi fd_golay hs s fr r). Qed.

Lemma fd_reassembly_history hs s fr r L : fd_fresh s -> all_stream hs -> fd_mode (snd (fd_run s hs)) = MLsf ->
  length L = 30%nat -> crc30 L = 0 ->
  (forall k, (k <= 5)%nat -> fd_held_after held0 (fd_frames_of hs ++ [fd_prep fr]) k = Some (slot k L)) ->
  let o := fd_step (snd (fd_run s hs)) SStream fr r in
  res_of scratch o = ROk /\ d_mode scratch (st_of scratch o) = MStream /\ cost_of scratch o = Some 0%Z /\
  cbs_of scratch o = [mkcb FLich (fst (unpack_lich fd_golay (fd_prep fr))) 0; mkcb FLsf L 0] /\
  d_seg scratch (st_of scratch o) = 0 /\ d_lsf scratch (st_of scratch o) = L.
Proof. intros F A M. exact (reassembly_history scratch fd_derandomize fd_deinterleave fd_depuncture fd_viterbi fd_golay hs s fr r F A M L). Qed.

Lemma fd_report_is_held hs s fr r cb : fd_fresh s -> all_stream hs -> fd_mode (snd (fd_run s hs)) = MLsf ->
  In cb (cbs_of scratch (fd_step (snd (fd_run s hs)) SStream fr r)) -> cb_type cb = FLsf ->
  assemble (fd_held_after held0 (fd_frames_of hs ++ [fd_prep fr])) = Some (cb_bytes cb) /\ crc30 (cb_bytes cb) = 0.
Proof. intros F A M. exact (report_is_held scratch fd_derandomize fd_deinterleave fd_depuncture fd_viterbi fd_golay hs s fr r F A M cb). Qed.

(** a quiet history keeps the decoder waiting and tracking, from any waiting state (not only a fresh one) *)
Lemma fd_lich_history_waiting hs h s : fd_waiting h s -> all_stream hs -> fd_mode (snd (fd_run s hs)) = MLsf ->
  fd_waiting (fd_held_after h (fd_frames_of hs)) (snd (fd_run s hs)) /\ Forall fd_quiet_ob (fst (fd_run s hs)).
Proof. intros W A M.
  exact (lich_history_waiting scratch fd_derandomize fd_deinterleave fd_depuncture fd_viterbi fd_golay hs h s W A
           (still_waiting_quiet scratch fd_derandomize fd_deinterleave fd_depuncture fd_viterbi fd_golay hs h s W A M)). Qed.

(* ------------------------------------------------------------------ computed instance *)
(** a second, different LSF B ("XY9Z" -> "AB1CD", CAN 3), a frame with fragment number 6, an undecodable frame *)
Definition exB_lsf : list N := spec_lsf ex_src ex_dst 3.
Definition exB_frag_frame (n : N) : sync * list Z * bool :=
  (SStream, soft7 (spec_stream_frame exB_lsf n n ex_payload false), true).
Definition ex_lich6 : list bool :=
  flat_map (fun w => golay24_bits (bits_N w)) (groups 12 (bytes_bits [1; 2; 3; 4; 5; 192])).
Definition ex_frag6_frame : sync * list Z * bool :=
  (SStream, soft7 (spec_finish (ex_lich6 ++ spec_stream_payload 9 ex_payload false)), true).
Definition ex_garbage_frame : sync * list Z * bool := (SStream, repeat 7%Z 368, true).

(** history A3 A1 B0 garbage A2 #6 B5 A5 A4 A3, then A0 arrives: B5 is overwritten by A5; after A4 all six positions are
    held but position 0 is B's - that mixture fails the CRC and is not reported; the garbage frame and fragment number 6
    touch nothing; A3 is repeated; A0 finally replaces B0 *)
Definition ex_history : list (sync * list Z * bool) :=
  [ex_frag_frame 3; ex_frag_frame 1; exB_frag_frame 0; ex_garbage_frame; ex_frag_frame 2; ex_frag6_frame;
   exB_frag_frame 5; ex_frag_frame 5; ex_frag_frame 4; ex_frag_frame 3].
Definition ex_last : list Z := snd (fst (ex_frag_frame 0)).

Definition is_stream_sync (x : sync * list Z * bool) : bool := match fst (fst x) with SStream => true | _ => false end.
Definition eq_frag (a b : option (nat * list N)) : bool :=
  match a, b with
  | Some (n, c), Some (m, d) => Nat.eqb n m && eq_listN c d
  | None, None => true
  | _, _ => false
  end.

(** every hypothesis of [fd_reassembly_history] holds for this history and L = ex_lsf, the foreign/ignored frames are
    what they are meant to be, and the model does report ex_lsf on the last frame *)
Definition ex_obs : list observation := fst (fd_run fd_init ex_history).
Definition ex_s1 : fd_state := snd (fd_run fd_init ex_history).
Definition ex_held_last : held_t := fd_held_after held0 (fd_frames_of ex_history ++ [fd_prep ex_last]).
Definition ex_held_9 : held_t := fd_held_after held0 (firstn 9 (fd_frames_of ex_history)).
Definition ex_out : outcome scratch := fd_step ex_s1 SStream ex_last true.
Definition quiet_ob_b (ob : observation) : bool :=
  match ob with (MLsf, RIncomplete, _, [_]) | (MLsf, RFail, _, []) => true | _ => false end.

Definition is_waiting_mode (m : mode) : bool := match m with MLsf => true | _ => false end.
Definition held_is (h : held_t) (L : list N) (k : nat) : bool :=
  match h k with Some c => eq_listN c (slot k L) | None => false end.
Definition mixture_is (a : option (list N)) (M0 : list N) : bool :=
  match a with Some M => negb (crc30 M =? 0) && eq_listN M M0 | None => false end.
Definition reports_b (o : outcome scratch) (L : list N) : bool :=
  match res_of scratch o, d_mode scratch (st_of scratch o), cbs_of scratch o with
  | ROk, MStream, [cb1; cb2] =>
      eq_listN (cb_bytes cb2) L && match cb_type cb2 with FLsf => true | _ => false end &&
      (d_seg scratch (st_of scratch o) =? 0)
  | _, _, _ => false
  end.

Definition fd_example_history_ok : bool :=
  forallb is_stream_sync ex_history &&
  is_waiting_mode (fd_mode ex_s1) &&
  Nat.eqb (length ex_lsf) 30 && (crc30 ex_lsf =? 0) &&
  forallb (held_is ex_held_last ex_lsf) (seq 0 6) &&
  (* the frames in between are what they claim to be *)
  eq_frag (fd_frame_frag (fd_prep (snd (fst (exB_frag_frame 0))))) (Some (0%nat, slot 0 exB_lsf)) &&
  eq_frag (fd_frame_frag (fd_prep (snd (fst (exB_frag_frame 5))))) (Some (5%nat, slot 5 exB_lsf)) &&
  negb (eq_listN (slot 0 exB_lsf) (slot 0 ex_lsf)) && negb (eq_listN (slot 5 exB_lsf) (slot 5 ex_lsf)) &&
  (crc30 exB_lsf =? 0) &&
  (* after the ninth frame all six positions are held, but the mixture does not pass the CRC *)
  mixture_is (assemble ex_held_9) (slot 0 exB_lsf ++ skipn 5 ex_lsf) &&
  eq_frag (fd_frame_frag (fd_prep (snd (fst ex_garbage_frame)))) None && negb (snd (unpack_lich fd_golay (fd_prep (snd (fst ex_garbage_frame))))) &&
  eq_frag (fd_frame_frag (fd_prep (snd (fst ex_frag6_frame)))) None && snd (unpack_lich fd_golay (fd_prep (snd (fst ex_frag6_frame)))) &&
  (* the ten earlier calls reported nothing *)
  Nat.eqb (length ex_obs) 10 &&
  forallb quiet_ob_b ex_obs &&
  (* and the conclusion, computed *)
  reports_b ex_out ex_lsf.

(** the hypotheses of [fd_reassembly_history] are jointly satisfiable: the theorem applied to this history *)
Lemma fd_example_history_applies :
  let o := fd_step (snd (fd_run fd_init ex_history)) SStream ex_last true in
  res_of scratch o = ROk /\ d_mode scratch (st_of scratch o) = MStream /\ cost_of scratch o = Some 0%Z /\
  cbs_of scratch o = [mkcb FLich (fst (unpack_lich fd_golay (fd_prep ex_last))) 0; mkcb FLsf ex_lsf 0] /\
  d_seg scratch (st_of scratch o) = 0 /\ d_lsf scratch (st_of scratch o) = ex_lsf.
Proof. apply fd_reassembly_history.
  - exact fd_init_fresh.
  - repeat constructor.
  - vm_compute. reflexivity.
  - vm_compute. reflexivity.
  - vm_compute. reflexivity.
  - intros k Hk. do 6 (destruct k as [|k]; [vm_compute; reflexivity|]). exfalso. apply (Nat.nle_succ_0 k).
    do 5 apply le_S_n in Hk. exact Hk.
Qed.
