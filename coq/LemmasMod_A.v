(** C13, part A: the bitwise convolution loops of m17-mod.cpp compute the specification's
    convolutional code; Golay24::encode24 is the specification's Golay(24,12); the nibble packing of
    make_lich_segment yields the four 12-bit words of the LICH chunk.  Finite sweeps + induction. *)
From Coq Require Import NArith ZArith List Bool Lia.
From M17 Require Import Bits SpecM17 ImplMod ConstsMod.
Import ListNotations.
Local Open Scope N_scope.

(** ** small helpers *)
Fixpoint beq_bits (a b : list bool) : bool :=
  match a, b with
  | [], [] => true
  | x :: a', y :: b' => Bool.eqb x y && beq_bits a' b'
  | _, _ => false
  end.
Lemma beq_bits_eq a : forall b, beq_bits a b = true -> a = b.
Proof. induction a as [|x a IH]; intros [|y b] H; try discriminate; [reflexivity|].
  cbn in H. apply andb_prop in H. destruct H as [H1 H2]. apply eqb_prop in H1. subst. f_equal. apply IH. exact H2. Qed.

Lemma Forall_is_byte_cons x l : all_bytes (x :: l) -> x < 256 /\ all_bytes l.
Proof. intros H. inversion H; subst. split; assumption. Qed.

(** ** the constants of the three TX sites are the specification's *)
Definition POLYS : N * N := (25, 23).    (* 031, 027: 1 + D^3 + D^4 and 1 + D + D^2 + D^4 *)
Lemma tx_sites_ok :
  lsf_polys = [POLYS; POLYS] /\ stream_polys = [POLYS; POLYS] /\ bert_polys = [POLYS; POLYS; POLYS] /\
  lsf_mem_k = 4%nat /\ stream_mem_k = 4%nat /\ bert_mem_k = 4%nat /\ flush_bits = 4%nat /\
  bit_loop_bounds = [8; 8; 8; 5]%nat.
Proof. repeat split; reflexivity. Qed.

(** ** specification encoder with its final register *)
Fixpoint conv_run (d : conv_state) (bits : list bool) : conv_state * list bool :=
  match bits with
  | [] => (d, [])
  | x :: r => let '(d1, o1) := conv_step d x in let '(d2, o2) := conv_run d1 r in (d2, o1 ++ o2)
  end.

Lemma conv_run_from bits : forall d, snd (conv_run d bits) = conv_from d bits.
Proof. induction bits as [|x r IH]; intros d; [reflexivity|].
  cbn [conv_run conv_from]. destruct (conv_step d x) as [d1 o1]. specialize (IH d1).
  destruct (conv_run d1 r) as [d2 o2]. cbn [snd] in *. rewrite IH. reflexivity. Qed.

Lemma conv_run_app a : forall d b,
  conv_run d (a ++ b) = (fst (conv_run (fst (conv_run d a)) b), snd (conv_run d a) ++ snd (conv_run (fst (conv_run d a)) b)).
Proof. induction a as [|x a IH]; intros d b.
- cbn. destruct (conv_run d b); reflexivity.
- cbn [app conv_run]. destruct (conv_step d x) as [d1 o1]. rewrite IH.
  destruct (conv_run d1 a) as [d2 o2]. cbn [fst snd]. destruct (conv_run d2 b) as [d3 o3]. cbn [fst snd].
  rewrite app_assoc. reflexivity. Qed.

(** the C++ `memory` holds the current input in bit 0 and the four previous ones above it *)
Definition abs (m : N) : conv_state := (N.testbit m 0, N.testbit m 1, N.testbit m 2, N.testbit m 3).
Definition st_eqb (a b : conv_state) : bool :=
  let '(a1, a2, a3, a4) := a in let '(b1, b2, b3, b4) := b in
  Bool.eqb a1 b1 && Bool.eqb a2 b2 && Bool.eqb a3 b3 && Bool.eqb a4 b4.
Lemma st_eqb_eq a b : st_eqb a b = true -> a = b.
Proof. destruct a as [[[a1 a2] a3] a4], b as [[[b1 b2] b3] b4]. cbn. intros H.
  repeat (apply andb_prop in H; destruct H as [H ?]).
  repeat match goal with E : Bool.eqb _ _ = true |- _ => apply eqb_prop in E end. subst. reflexivity. Qed.

(** sweep: the inner loop on one byte, from every register content *)
Definition ok_byte (nbits : nat) (x : N) : bool :=
  let m := x / 256 in let b := x mod 256 in
  let (m', out) := conv_byte POLYS 4 nbits m b in
  let (d', sout) := conv_run (abs m) (firstn nbits (byte_bits b)) in
  (m' <? 32) && st_eqb (abs m') d' && beq_bits out sout.

Lemma sweep_byte8 : below 13 (ok_byte 8) = true.
Proof. vm_compute. reflexivity. Qed.
Lemma sweep_byte5 : below 13 (ok_byte 5) = true.
Proof. vm_compute. reflexivity. Qed.

Definition ok_flush (m : N) : bool :=
  let m' := update_memory 4 m 0 in
  let (d', sout) := conv_step (abs m) false in
  (m' <? 32) && st_eqb (abs m') d' &&
  beq_bits [nz (convolve_bit (fst POLYS) m'); nz (convolve_bit (snd POLYS) m')] sout.
Lemma sweep_flush : below 5 ok_flush = true.
Proof. vm_compute. reflexivity. Qed.

Opaque conv_byte conv_run update_memory convolve_bit.

Lemma conv_byte_ok nbits m b : (nbits = 8 \/ nbits = 5)%nat -> m < 32 -> b < 256 ->
  exists m', conv_byte POLYS 4 nbits m b = (m', snd (conv_run (abs m) (firstn nbits (byte_bits b)))) /\
             m' < 32 /\ abs m' = fst (conv_run (abs m) (firstn nbits (byte_bits b))).
Proof. intros Hn Hm Hb.
  assert (Hx : m * 256 + b < 2 ^ N.of_nat 13) by (change (2 ^ N.of_nat 13) with 8192; lia).
  assert (S : ok_byte nbits (m * 256 + b) = true).
  { destruct Hn as [-> | ->]; [exact (below_spec 13 _ sweep_byte8 _ Hx) | exact (below_spec 13 _ sweep_byte5 _ Hx)]. }
  unfold ok_byte in S.
  replace ((m * 256 + b) / 256) with m in S by (apply N.div_unique with b; lia).
  replace ((m * 256 + b) mod 256) with b in S by (apply N.mod_unique with m; lia).
  destruct (conv_byte POLYS 4 nbits m b) as [m' out].
  destruct (conv_run (abs m) (firstn nbits (byte_bits b))) as [d' sout].
  apply andb_prop in S. destruct S as [S S3]. apply andb_prop in S. destruct S as [S1 S2].
  exists m'. cbn [fst snd]. apply beq_bits_eq in S3. apply st_eqb_eq in S2. apply N.ltb_lt in S1.
  subst. split; [reflexivity | split; [exact S1 | reflexivity]]. Qed.

Lemma firstn8_byte_bits b : firstn 8 (byte_bits b) = byte_bits b.
Proof. reflexivity. Qed.

(** the data loop over a list of bytes *)
Lemma conv_bytes_ok bytes : forall m, m < 32 -> all_bytes bytes ->
  exists m', conv_bytes POLYS 4 8 m bytes = (m', snd (conv_run (abs m) (bytes_bits bytes))) /\
             m' < 32 /\ abs m' = fst (conv_run (abs m) (bytes_bits bytes)).
Proof. induction bytes as [|b r IH]; intros m Hm Hall.
- exists m. cbn. Transparent conv_run. cbn. Opaque conv_run. repeat split; [exact Hm].
- apply Forall_is_byte_cons in Hall. destruct Hall as [Hb Hr].
  destruct (conv_byte_ok 8 m b (or_introl eq_refl) Hm Hb) as [m1 [E1 [L1 A1]]].
  rewrite firstn8_byte_bits in *.
  destruct (IH m1 L1 Hr) as [m2 [E2 [L2 A2]]].
  exists m2. cbn [conv_bytes]. rewrite E1, E2.
  change (bytes_bits (b :: r)) with (byte_bits b ++ bytes_bits r). rewrite conv_run_app.
  rewrite <- A1. cbn [fst snd]. repeat split; [exact L2 | exact A2]. Qed.

Lemma conv_flush_ok n : forall m, m < 32 ->
  exists m', conv_flush POLYS 4 n m = (m', snd (conv_run (abs m) (repeat false n))) /\ m' < 32.
Proof. induction n as [|n IH]; intros m Hm.
- exists m. split; [reflexivity | exact Hm].
- assert (Hx : m < 2 ^ N.of_nat 5) by exact Hm.
  pose proof (below_spec 5 _ sweep_flush m Hx) as S. unfold ok_flush in S.
  Transparent conv_run. cbn [repeat conv_run]. Opaque conv_run.
  destruct (conv_step (abs m) false) as [d' sout].
  apply andb_prop in S. destruct S as [S S3]. apply andb_prop in S. destruct S as [S1 S2].
  apply beq_bits_eq in S3. apply st_eqb_eq in S2. apply N.ltb_lt in S1.
  destruct (IH _ S1) as [m2 [E2 L2]]. exists m2. split; [|exact L2].
  unfold conv_flush in *. cbn [iter_out]. rewrite E2. rewrite S2.
  destruct (conv_run d' (repeat false n)) as [d2 o2]. cbn [snd]. rewrite S3. reflexivity. Qed.

(** data loop + flush loop = the specification's encoder with four flush bits *)
Lemma conv_data_flush bytes : all_bytes bytes ->
  (let (memory, e1) := conv_bytes POLYS 4 8 0 bytes in
   let (_, e2) := conv_flush POLYS 4 4 memory in e1 ++ e2) = spec_conv (bytes_bits bytes).
Proof. intros Hall.
  destruct (conv_bytes_ok bytes 0 ltac:(reflexivity) Hall) as [m1 [E1 [L1 A1]]]. rewrite E1.
  destruct (conv_flush_ok 4 m1 L1) as [m2 [E2 _]]. rewrite E2.
  unfold spec_conv. rewrite <- conv_run_from, conv_run_app.
  change (abs 0) with conv_zero in *. rewrite <- A1. reflexivity. Qed.

(** the BERT variant: 24 whole bytes, 5 bits of the last byte, flush *)
Lemma conv_bert bytes last : all_bytes bytes -> last < 256 ->
  (let (m1, e1) := conv_bytes POLYS 4 8 0 bytes in
   let (m2, e2) := conv_byte POLYS 4 5 m1 last in
   let (_, e3) := conv_flush POLYS 4 4 m2 in e1 ++ e2 ++ e3)
  = spec_conv (bytes_bits bytes ++ firstn 5 (byte_bits last)).
Proof. intros Hall Hl.
  destruct (conv_bytes_ok bytes 0 ltac:(reflexivity) Hall) as [m1 [E1 [L1 A1]]]. rewrite E1.
  destruct (conv_byte_ok 5 m1 last (or_intror eq_refl) L1 Hl) as [m2 [E2 [L2 A2]]]. rewrite E2.
  destruct (conv_flush_ok 4 m2 L2) as [m3 [E3 _]]. rewrite E3.
  unfold spec_conv. rewrite <- conv_run_from, !conv_run_app.
  change (abs 0) with conv_zero in *. cbn [fst snd]. rewrite <- A1, <- A2. rewrite <- app_assoc. reflexivity. Qed.

(** ** Golay *)
Lemma golay_consts_ok : golay_poly = golay_generator /\ golay_steps = 12%nat /\ golay_data_shift = 11.
Proof. repeat split; reflexivity. Qed.

Definition ok_golay (d : N) : bool := encode24 d =? golay24 d.
Lemma sweep_golay : below 12 ok_golay = true.
Proof. vm_compute. reflexivity. Qed.

Opaque encode24 golay24.
Lemma encode24_is_golay24 d : d < 4096 -> encode24 d = golay24 d.
Proof. intros H. pose proof (below_spec 12 ok_golay sweep_golay d H) as S. unfold ok_golay in S.
  apply N.eqb_eq in S. exact S. Qed.

(** the 24-iteration unpacking loop reads the codeword MSB first *)
Definition ok_unpack (d : N) : bool :=
  beq_bits (lich_unpack (0%nat, 24%nat, 23) (golay24 d)) (golay24_bits d).
Lemma sweep_unpack : below 12 ok_unpack = true.
Proof. vm_compute. reflexivity. Qed.

Opaque lich_unpack golay24_bits.
Lemma lich_loops_ok : forall k, (k < 4)%nat ->
  exists a, nth k lich_bit_loops (0%nat, 0%nat, 0) = (a, (a + 24)%nat, 23).
Proof. intros k Hk. destruct k as [|[|[|[|k]]]]; try lia; [exists 0%nat | exists 24%nat | exists 48%nat | exists 72%nat]; reflexivity. Qed.

Lemma lich_unpack_shift a d : lich_unpack (a, (a + 24)%nat, 23) d = lich_unpack (0%nat, 24%nat, 23) d.
Proof. Transparent lich_unpack. unfold lich_unpack. Opaque lich_unpack. replace (a + 24 - a)%nat with 24%nat by lia. reflexivity. Qed.

Lemma lich_word_ok k d : (k < 4)%nat -> d < 4096 ->
  lich_unpack (nth k lich_bit_loops (0%nat, 0%nat, 0)) (encode24 d) = golay24_bits d.
Proof. intros Hk Hd. destruct (lich_loops_ok k Hk) as [a ->]. rewrite lich_unpack_shift.
  rewrite encode24_is_golay24 by exact Hd.
  pose proof (below_spec 12 ok_unpack sweep_unpack d Hd) as S. unfold ok_unpack in S.
  apply beq_bits_eq in S. exact S. Qed.

(** ** LICH nibble packing: the four 12-bit words of (5 chunk bytes, number << 5) *)
Definition word12 (hi lo : N) (k : nat) : N :=   (* k-th 12-bit group of the 24 bits hi:8 . lo... as the spec reads them *)
  bits_N (firstn 12 (skipn k (byte_bits hi ++ byte_bits lo))).

Definition ok_w0 (x : N) : bool :=
  let a := x / 256 in let b := x mod 256 in
  let t := u16 (N.lor (N.shiftl a lich_hi_shift) (N.land (N.shiftr b lich_nib_shift) lich_nib_mask)) in
  (t =? bits_N (firstn 12 (byte_bits a ++ byte_bits b))) && (t <? 4096).
Definition ok_w1 (x : N) : bool :=
  let a := x / 256 in let b := x mod 256 in
  let t := u16 (N.lor (N.shiftl (N.land a lich_lo_mask) lich_lo_shift) b) in
  (t =? bits_N (skipn 4 (byte_bits a ++ byte_bits b))) && (t <? 4096).
Definition ok_w3 (x : N) : bool :=     (* x = a * 8 + n, n < 8 *)
  let a := x / 8 in let n := x mod 8 in
  let t := u16 (N.lor (N.shiftl (N.land a lich_lo_mask) lich_lo_shift) (N.shiftl n lich_number_shift)) in
  (t =? bits_N (skipn 4 (byte_bits a ++ byte_bits (32 * n)))) && (t <? 4096).
Lemma sweep_w0 : below 16 ok_w0 = true. Proof. vm_compute. reflexivity. Qed.
Lemma sweep_w1 : below 16 ok_w1 = true. Proof. vm_compute. reflexivity. Qed.
Lemma sweep_w3 : below 11 ok_w3 = true. Proof. vm_compute. reflexivity. Qed.

Lemma split_256 a b : a < 256 -> b < 256 -> (a * 256 + b) / 256 = a /\ (a * 256 + b) mod 256 = b /\ a * 256 + b < 2 ^ N.of_nat 16.
Proof. intros Ha Hb. change (2 ^ N.of_nat 16) with 65536. repeat split; [| |lia].
  - symmetry; apply N.div_unique with b; lia.
  - symmetry; apply N.mod_unique with a; lia. Qed.

Lemma w0_ok a b : a < 256 -> b < 256 ->
  let t := u16 (N.lor (N.shiftl a lich_hi_shift) (N.land (N.shiftr b lich_nib_shift) lich_nib_mask)) in
  t = bits_N (firstn 12 (byte_bits a ++ byte_bits b)) /\ t < 4096.
Proof. intros Ha Hb. destruct (split_256 a b Ha Hb) as [E1 [E2 L]].
  pose proof (below_spec 16 ok_w0 sweep_w0 _ L) as S. unfold ok_w0 in S. rewrite E1, E2 in S.
  apply andb_prop in S. destruct S as [S1 S2]. apply N.eqb_eq in S1. apply N.ltb_lt in S2. split; assumption. Qed.

Lemma w1_ok a b : a < 256 -> b < 256 ->
  let t := u16 (N.lor (N.shiftl (N.land a lich_lo_mask) lich_lo_shift) b) in
  t = bits_N (skipn 4 (byte_bits a ++ byte_bits b)) /\ t < 4096.
Proof. intros Ha Hb. destruct (split_256 a b Ha Hb) as [E1 [E2 L]].
  pose proof (below_spec 16 ok_w1 sweep_w1 _ L) as S. unfold ok_w1 in S. rewrite E1, E2 in S.
  apply andb_prop in S. destruct S as [S1 S2]. apply N.eqb_eq in S1. apply N.ltb_lt in S2. split; assumption. Qed.

Lemma w3_ok a n : a < 256 -> n < 8 ->
  let t := u16 (N.lor (N.shiftl (N.land a lich_lo_mask) lich_lo_shift) (N.shiftl n lich_number_shift)) in
  t = bits_N (skipn 4 (byte_bits a ++ byte_bits (32 * n))) /\ t < 4096.
Proof. intros Ha Hn.
  assert (E1 : (a * 8 + n) / 8 = a) by (symmetry; apply N.div_unique with n; lia).
  assert (E2 : (a * 8 + n) mod 8 = n) by (symmetry; apply N.mod_unique with a; lia).
  assert (L : a * 8 + n < 2 ^ N.of_nat 11) by (change (2 ^ N.of_nat 11) with 2048; lia).
  pose proof (below_spec 11 ok_w3 sweep_w3 _ L) as S. unfold ok_w3 in S. rewrite E1, E2 in S.
  apply andb_prop in S. destruct S as [S1 S2]. apply N.eqb_eq in S1. apply N.ltb_lt in S2. split; assumption. Qed.

(** make_lich_segment on five bytes and a 3-bit number is the specification's LICH of that chunk *)
Lemma groups12_of_48 (b0 b1 b2 b3 b4 b5 : list bool) :
  length b0 = 8%nat -> length b1 = 8%nat -> length b2 = 8%nat -> length b3 = 8%nat -> length b4 = 8%nat -> length b5 = 8%nat ->
  groups 12 (b0 ++ b1 ++ b2 ++ b3 ++ b4 ++ b5) =
  [firstn 12 (b0 ++ b1); skipn 4 (b1 ++ b2); firstn 12 (b3 ++ b4); skipn 4 (b4 ++ b5)].
Proof. intros.
  repeat match goal with
  | H : length ?b = 8%nat |- _ =>
      destruct b as [|? [|? [|? [|? [|? [|? [|? [|? [|? ?]]]]]]]]]; try discriminate H; clear H
  end. reflexivity. Qed.

Opaque bits_N.

Lemma make_lich_segment_ok (uninit : list bool) s0 s1 s2 s3 s4 n :
  s0 < 256 -> s1 < 256 -> s2 < 256 -> s3 < 256 -> s4 < 256 -> n < 8 ->
  make_lich_segment [s0; s1; s2; s3; s4] n =
  flat_map (fun w => golay24_bits (bits_N w)) (groups 12 (bytes_bits ([s0; s1; s2; s3; s4] ++ [32 * n]))).
Proof. intros H0 H1 H2 H3 H4 Hn.
  unfold bytes_bits. cbn [app flat_map]. rewrite app_nil_r.
  rewrite groups12_of_48 by apply byte_bits_length.
  cbn [flat_map]. rewrite app_nil_r.
  unfold make_lich_segment. cbn [nth].
  destruct (w0_ok s0 s1 H0 H1) as [E0 L0]. destruct (w1_ok s1 s2 H1 H2) as [E1 L1].
  destruct (w0_ok s3 s4 H3 H4) as [E2 L2]. destruct (w3_ok s4 n H4 Hn) as [E3 L3].
  cbv zeta in E0, E1, E2, E3, L0, L1, L2, L3.
  rewrite (lich_word_ok 0 _ ltac:(lia) L0), (lich_word_ok 1 _ ltac:(lia) L1),
          (lich_word_ok 2 _ ltac:(lia) L2), (lich_word_ok 3 _ ltac:(lia) L3).
  rewrite E0, E1, E2, E3. reflexivity. Qed.

Lemma golay24_bits_length d : length (golay24_bits d) = 24%nat.
Proof. Transparent golay24_bits. unfold golay24_bits, N_bits. Opaque golay24_bits. rewrite map_length, seq_length. reflexivity. Qed.

Lemma lich_spec_length s0 s1 s2 s3 s4 n :
  length (flat_map (fun w => golay24_bits (bits_N w)) (groups 12 (bytes_bits ([s0; s1; s2; s3; s4] ++ [32 * n])))) = 96%nat.
Proof. unfold bytes_bits. cbn [app flat_map]. rewrite app_nil_r.
  rewrite groups12_of_48 by apply byte_bits_length.
  cbn [flat_map]. rewrite !app_length, !golay24_bits_length. reflexivity. Qed.
