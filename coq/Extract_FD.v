(** Extraction of the instantiated frame-decoder model (C01, C05, C08): ExtrOcamlBasic only. *)
Require Extraction.
Require Import ExtrOcamlBasic.
From Coq Require Import NArith ZArith List.
From M17 Require Import ImplFrameDecoder FrameDecoderInst.
Extraction "fd_model.ml" fd_step fd_init fd_mode fd_seg fd_lsf fd_reset.
