(** What the M17 specification says about the link-setup data the receiver reports (C20), written
    independently of the application code: the callsign alphabet and base-40 address encoding, the TYPE
    field of a voice stream, the 30-byte LSF layout, and the line a receiver that reports the link
    faithfully prints for it (the format of m17-demod -l, with the values given to the transmitter). *)
From Coq Require Import NArith Arith Bool String List.
From M17 Require Import Checked.
Import ListNotations.
Local Open Scope N_scope.

(** address alphabet: value = position; value 0 (space) only pads, so a callsign here has no space *)
Definition alphabet : string := " ABCDEFGHIJKLMNOPQRSTUVWXYZ0123456789-/.".
Definition char_value (c : N) : option nat := find_first c (str alphabet).
Definition valid_char (c : N) : Prop := exists v, char_value c = Some (S v).
Definition valid_call (cs : list N) : Prop := (1 <= length cs <= 9)%nat /\ Forall valid_char cs.

Definition value_of (c : N) : N := match char_value c with Some v => N.of_nat v | None => 0 end.
(** first character is the least significant base-40 digit *)
Fixpoint call_number (cs : list N) : N :=
  match cs with
  | [] => 0
  | c :: r => value_of c + 40 * call_number r
  end.

(** 48-bit big-endian *)
Definition be6 (x : N) : list N :=
  let x1 := x / 256 in let x2 := x1 / 256 in let x3 := x2 / 256 in let x4 := x3 / 256 in let x5 := x4 / 256 in
  [x5 mod 256; x4 mod 256; x3 mod 256; x2 mod 256; x1 mod 256; x mod 256].

Definition broadcast : list N := [255; 255; 255; 255; 255; 255].
(** destination: a callsign, or None for a broadcast *)
Definition spec_address (a : option (list N)) : list N :=
  match a with Some cs => be6 (call_number cs) | None => broadcast end.

(** TYPE of a voice stream: bit 0 = stream, bits 1-2 = 2 (voice), encryption none, bits 7-10 = CAN *)
Definition spec_type (can : N) : N := 1 + 2 * 2 + 128 * can.

Definition spec_lsf (dst : option (list N)) (src : list N) (can : N) (meta crc : list N) : list N :=
  spec_address dst ++ be6 (call_number src) ++ [spec_type can / 256; spec_type can mod 256] ++ meta ++ crc.

Definition hexdigit (d : N) : N := if d <? 10 then 48 + d else 97 + (d - 10).
Definition hex2 (b : N) : list N := [hexdigit (b / 16); hexdigit (b mod 16)].
Definition dec2 (n : N) : list N := [48 + n / 10; 48 + n mod 10].

Definition dest_name (a : option (list N)) : list N := match a with Some cs => cs | None => str "BROADCAST" end.

(** the report of a voice-stream LSF *)
Definition spec_lsf_line (dst : option (list N)) (src : list N) (can : N) (meta crc : list N) : list N :=
  [10] ++ str "SRC: " ++ src ++ str ", DEST: " ++ dest_name dst ++ str ", STR:V/V CAN:" ++ dec2 can
  ++ str ", NONCE: " ++ flat_map hex2 meta ++ str ", CRC: " ++ flat_map hex2 crc ++ [10].

Definition all_bytes (l : list N) : Prop := Forall (fun b => b < 256) l.

(** boolean substring test, for the examples *)
Fixpoint is_prefix (p t : list N) : bool :=
  match p, t with
  | [], _ => true
  | x :: p', y :: t' => N.eqb x y && is_prefix p' t'
  | _ :: _, [] => false
  end.
Fixpoint is_infix (p t : list N) : bool :=
  is_prefix p t || match t with [] => false | _ :: t' => is_infix p t' end.
