(** C13, part I: (1) the accumulator form of the ideal response is the sum y[n] = sum_k taps[k] u[n-k];
    (2) every sample the program shapes fits int16_t, so the (int16_t)(double) conversion the model
    renders as truncation never leaves its defined range: for ANY symbol sequence in [-3, 3],
    |7168 * y[n]| <= 7168 * 3 * max_phase sum_{k = phase mod 10} |taps[k]| < 32768. *)
From Coq Require Import NArith ZArith List Bool Lia Arith.
From M17 Require Import Bits SpecCRC SpecM17 ImplCRC ImplMod ConstsMod
  LemmasMod_A LemmasMod_B LemmasMod_C LemmasMod_D LemmasMod_E LemmasMod_F LemmasMod_G LemmasMod_H.
Import ListNotations.
Local Open Scope Z_scope.

Transparent dot ideal_response_from.

(** ** (1) *)
Lemma ideal_from_nth (ts : list Z) u : forall past n, (n < length u)%nat ->
  nth n (ideal_response_from ts past u) 0 = dot ts (rev (firstn (S n) u) ++ past).
Proof. induction u as [|x r IH]; intros past n H; [cbn in H; lia|].
  destruct n as [|n]; [reflexivity|].
  cbn [ideal_response_from nth]. rewrite IH by (cbn in H; lia).
  change (firstn (S (S n)) (x :: r)) with (x :: firstn (S n) r). cbn [rev]. rewrite <- app_assoc. reflexivity. Qed.

Lemma ideal_response_nth (ts u : list Z) n : (n < length u)%nat ->
  nth n (ideal_response ts u) 0 = ideal_sample ts u n.
Proof. intros H. unfold ideal_response, ideal_sample. rewrite ideal_from_nth by exact H. rewrite app_nil_r. reflexivity. Qed.

(** ** (2) *)
Definition pattern (z i : nat) : Z := if Nat.eqb (i mod 10) z then 3 else 0.
Fixpoint wsum (ts : list Z) (f : nat -> Z) (i : nat) : Z :=
  match ts with [] => 0 | t :: r => Z.abs t * f i + wsum r f (S i) end.

Lemma wsum_nonneg ts : forall f i, (forall j, 0 <= f j) -> 0 <= wsum ts f i.
Proof. induction ts as [|t r IH]; intros f i H; [cbn; lia|]. cbn [wsum]. specialize (IH f (S i) H). specialize (H i). nia. Qed.

Lemma dot_le ts : forall l i (f : nat -> Z), (forall j, 0 <= f j) -> (forall j, Z.abs (nth j l 0) <= f (i + j)%nat) ->
  Z.abs (dot ts l) <= wsum ts f i.
Proof. induction ts as [|t r IH]; intros l i f Hf H; [cbn; lia|].
  destruct l as [|x l].
  - cbn [dot]. apply wsum_nonneg. exact Hf.
  - cbn [dot wsum]. specialize (IH l (S i) f Hf).
    assert (H' : forall j, Z.abs (nth j l 0) <= f (S i + j)%nat).
    { intros j. specialize (H (S j)). cbn [nth] in H. replace (S i + j)%nat with (i + S j)%nat by lia. exact H. }
    specialize (IH H'). specialize (H 0%nat). cbn [nth] in H. rewrite Nat.add_0_r in H.
    pose proof (Z.abs_triangle (t * x) (dot r l)). rewrite Z.abs_mul in *. pose proof (Z.abs_nonneg t). nia. Qed.

(** every phase: 7168 * 3 * (sum of |taps| at that phase) stays below 32768 (numerators over 2^64) *)
Lemma phase_bound : forallb (fun z => 7168 * wsum rrc_taps_num (pattern z) 0 <? 32768 * 2 ^ 64) (seq 0 10) = true.
Proof. vm_compute. reflexivity. Qed.

(** the reversed, up-sampled past: z zeros, a symbol, then 9 zeros and a symbol, ... *)
Definition strip (R : list Z) : list Z := flat_map (fun s => repeat 0 9 ++ [s]) R.
Definition shape (z : nat) (s : Z) (R : list Z) : list Z := repeat 0 z ++ s :: strip R.
Definition small (s : Z) : Prop := Z.abs s <= 3.

Lemma nth_repeat0 n i : nth i (repeat 0 n) 0 = 0.
Proof. revert i; induction n as [|n IH]; intros [|i]; cbn; try reflexivity. apply IH. Qed.

Lemma pattern_nonneg z i : 0 <= pattern z i.
Proof. unfold pattern. destruct (Nat.eqb _ _); lia. Qed.

Lemma shape_bound R : forall z s i, (z < 10)%nat -> small s -> Forall small R -> Z.abs (nth i (shape z s R) 0) <= pattern z i.
Proof. induction R as [|s' R IH]; intros z s i Hz Hs HR; unfold shape.
- destruct (Nat.lt_ge_cases i z) as [L|G].
  + rewrite app_nth1 by (rewrite repeat_length; exact L). rewrite nth_repeat0. cbn. apply pattern_nonneg.
  + rewrite app_nth2 by (rewrite repeat_length; exact G). rewrite repeat_length.
    destruct (i - z)%nat as [|j] eqn:E.
    * cbn [nth]. assert (i = z) by lia. subst i. unfold pattern. rewrite Nat.mod_small by exact Hz. rewrite Nat.eqb_refl. exact Hs.
    * cbn [nth strip flat_map]. destruct j; cbn; apply pattern_nonneg.
- inversion HR as [|? ? Hs' HR']; subst.
  destruct (Nat.lt_ge_cases i z) as [L|G].
  + rewrite app_nth1 by (rewrite repeat_length; exact L). rewrite nth_repeat0. cbn. apply pattern_nonneg.
  + rewrite app_nth2 by (rewrite repeat_length; exact G). rewrite repeat_length.
    destruct (i - z)%nat as [|j] eqn:E.
    * cbn [nth]. assert (i = z) by lia. subst i. unfold pattern. rewrite Nat.mod_small by exact Hz. rewrite Nat.eqb_refl. exact Hs.
    * cbn [nth]. change (strip (s' :: R)) with ((repeat 0 9 ++ [s']) ++ strip R). rewrite <- app_assoc. cbn [app].
      fold (shape 9 s' R). etransitivity; [apply (IH 9%nat s' j ltac:(lia) Hs' HR')|].
      unfold pattern. destruct (Nat.eqb_spec (j mod 10) 9) as [M|M]; [|destruct (Nat.eqb _ _); lia].
      assert (Ei : i = (z + 1 + j)%nat) by lia.
      assert (Mi : (i mod 10 = z)%nat).
      { pose proof (Nat.div_mod j 10 ltac:(lia)) as D. symmetry. apply Nat.mod_unique with (S (j / 10)); lia. }
      rewrite Mi, Nat.eqb_refl. lia. Qed.

Definition in_int16 (y : Z) : Prop := -32768 <= y <= 32767.

Lemma trunc_in_range (invert : bool) num z : (z < 10)%nat -> Z.abs num <= wsum rrc_taps_num (pattern z) 0 ->
  in_int16 (trunc invert num).
Proof. intros Hz H.
  pose proof (proj1 (forallb_forall _ _) phase_bound z ltac:(apply in_seq; lia)) as B. cbv beta in B. apply Z.ltb_lt in B.
  Transparent trunc. unfold trunc, trunc_scaled. Opaque trunc.
  change (2 ^ Z.of_N rrc_den_log2) with (2 ^ 64).
  assert (G : Z.abs (gain invert) = 7168) by (destruct invert; reflexivity).
  assert (A : Z.abs (gain invert * num) < 32768 * 2 ^ 64) by (rewrite Z.abs_mul, G; nia).
  assert (Q : Z.abs (Z.quot (gain invert * num) (2 ^ 64)) < 32768).
  { rewrite <- Z.quot_abs by (vm_compute; discriminate). change (Z.abs (2 ^ 64)) with (2 ^ 64).
    apply Z.quot_lt_upper_bound; [apply Z.abs_nonneg | vm_compute; reflexivity | lia]. }
  unfold in_int16. lia. Qed.

Lemma dot_shape_in_range (invert : bool) z s R : (z < 10)%nat -> small s -> Forall small R ->
  in_int16 (trunc invert (dot rrc_taps_num (shape z s R))).
Proof. intros Hz Hs HR. apply (trunc_in_range invert _ z Hz).
  apply dot_le; [apply pattern_nonneg|]. intros j. cbn [Nat.add]. apply shape_bound; assumption. Qed.

(** one symbol = ten output samples *)
Lemma block_outputs s past rest :
  ideal_response_from rrc_taps_num past ((s :: repeat 0 9) ++ rest) =
  map (fun r => dot rrc_taps_num (repeat 0 r ++ s :: past)) (seq 0 10) ++
  ideal_response_from rrc_taps_num (repeat 0 9 ++ s :: past) rest.
Proof. Opaque dot. reflexivity. Qed.

Lemma ideal_bounded (invert : bool) S : forall R, Forall small S -> Forall small R ->
  Forall in_int16 (map (trunc invert) (ideal_response_from rrc_taps_num (strip R) (upsample 10 S))).
Proof. induction S as [|s S IH]; intros R HS HR; [constructor|].
  inversion HS as [|? ? Hs HS']; subst.
  change (upsample 10 (s :: S)) with ((s :: repeat 0 9) ++ upsample 10 S).
  rewrite block_outputs, map_app. apply Forall_app. split.
  - rewrite map_map. apply Forall_forall. intros y Hy. apply in_map_iff in Hy. destruct Hy as [r [<- Hr]].
    apply in_seq in Hr. fold (shape r s R). apply dot_shape_in_range; [lia | exact Hs | exact HR].
  - change (repeat 0 9 ++ s :: strip R) with (strip (s :: R)) .
    + apply IH; [exact HS' | constructor; assumption].
Qed.

Lemma strip_app a b : strip (a ++ b) = strip a ++ strip b.
Proof. unfold strip. apply flat_map_app. Qed.

Lemma rev_upsample L : rev (upsample 10 L) = strip (rev L).
Proof. induction L as [|s L IH]; [reflexivity|].
  change (upsample 10 (s :: L)) with ((s :: repeat 0 9) ++ upsample 10 L).
  rewrite rev_app_distr, IH. cbn [rev]. rewrite strip_app. f_equal. Qed.

(** symbols *)
Lemma dibit_small b1 b0 : small (dibit_symbol b1 b0).
Proof. destruct b1, b0; unfold small; cbn; lia. Qed.

Lemma bits_symbols_small n : forall l, (length l <= n)%nat -> Forall small (bits_symbols l).
Proof. induction n as [|n IH]; intros l H.
- destruct l; [constructor | cbn in H; lia].
- destruct l as [|b1 [|b0 r]]; try constructor; [apply dibit_small|]. apply IH. cbn in H. lia. Qed.

Lemma bytes_symbols_small l : Forall small (bytes_symbols l).
Proof. unfold bytes_symbols. apply (bits_symbols_small (length (bytes_bits l))). lia. Qed.

Lemma eot_block_small : forallb (fun s => Z.abs s <=? 3) (call_symbols OutEot) = true.
Proof. vm_compute. reflexivity. Qed.

Lemma Forall_small_rev l : Forall small l -> Forall small (rev l).
Proof. intros H. apply Forall_forall. intros x Hx. apply in_rev in Hx. exact (proj1 (Forall_forall _ _) H x Hx). Qed.

Section Program.
Variable uninit : list bool.
Variable cstate : Type.
Variable codec2_encode : cstate -> list Z -> cstate * list N.
Hypothesis Hcodec : codec_ok codec2_encode.

Lemma baseband_fits_int16 (per invert : bool) (audio0 : list Z) (cs0 : cstate) (can : N) (src dest : list N) (samples : list Z) :
  valid_callsign src -> valid_callsign dest -> (can < 16)%N -> length audio0 = 320%nat ->
  Forall in_int16 (run_mod_baseband_gen uninit cstate codec2_encode per invert audio0 cs0 can src dest samples).
Proof. intros Hs Hd Hc Ha. unfold run_mod_baseband_gen.
  rewrite (run_mod_calls_shape uninit cstate codec2_encode Hcodec audio0 cs0 can src dest samples Hs Hd Hc Ha).
  set (ps := expected_payloads cstate codec2_encode (initial_audio mod_audio_zero_init audio0) cs0 samples).
  destruct (through_frames_symbols (spec_lsf_frame (spec_lsf dest src can)) (spec_lsf dest src can) ps
              (spec_lsf_frame_length _)) as [E [L F]].
  rewrite (render_pre_eot per invert _ _ (F per)).
  set (pre := through_frames (spec_lsf_frame (spec_lsf dest src can)) (spec_lsf dest src can) ps) in *.
  assert (Spre : Forall small (flat_map call_symbols pre)) by (rewrite E; apply bytes_symbols_small).
  assert (Seot : Forall small (call_symbols OutEot)).
  { apply Forall_forall. intros x Hx. pose proof (proj1 (forallb_forall _ _) eot_block_small x Hx) as B.
    apply Z.leb_le in B. exact B. }
  apply Forall_app. split.
  - rewrite <- ideal_blocks, blocks_symbols. change samples_per_symbol with 10%nat.
    change (@nil Z) with (strip []). apply ideal_bounded; [exact Spre | constructor].
  - rewrite call_us_symbols. destruct (Nat.eqb (call_key per OutEot) (filter_key per frame_symbols)).
    + rewrite blocks_symbols, rev_upsample. apply ideal_bounded; [exact Seot | apply Forall_small_rev; exact Spre].
    + change (@nil Z) with (strip []). apply ideal_bounded; [exact Seot | constructor]. Qed.
End Program.
