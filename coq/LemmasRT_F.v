(** C01 round trip, part F: the LICH of a specification stream frame, received in link-setup mode.
    SpecM17's Golay encoder agrees with the repository's (sweep over the 4096 data words), an error-free word
    decodes to its data (C04 with the zero error pattern), the nibble packing returns the six bytes (C05 lemmas). *)
From Coq Require Import NArith ZArith List Bool Lia Arith.
From M17 Require Import Bits ImplCRC ConstsCrc ImplGolay SpecGolay LemmasGolay_E SpecM17 ImplInterleave
  ImplViterbi ImplFrameDecoder FrameDecoderInst LemmasFD_Hidden LemmasFD_Lich LemmasFD_LSF LemmasFD_Inst
  LemmasRT_A LemmasRT_B LemmasRT_C LemmasRT_D LemmasRT_E.
Import ListNotations.
Local Open Scope N_scope.

(* ------------------------------------------------------------------ Golay: the two encoders agree; clean words decode *)
Lemma sweep_golay : below 12 (fun d => bits_N (golay24_bits d) =? golay_encode24 d) = true.
Proof. vm_cast_no_check (eq_refl true). Qed.

Lemma golay24_is_encode24 d : d < 4096 -> bits_N (golay24_bits d) = golay_encode24 d.
Proof. intros H. apply N.eqb_eq. exact (below_spec 12 _ sweep_golay d H). Qed.

Lemma weight0 : weight 0 <= 3. Proof. vm_compute. discriminate. Qed.

Lemma golay_clean_word d : d < 4096 -> exists o, fd_golay (bits_N (golay24_bits d)) = Some o /\ N.shiftr o 12 = d.
Proof. intros H. rewrite golay24_is_encode24 by exact H.
  destruct (x_decode_corrects d 0 H ltac:(reflexivity) weight0) as (o & D & S).
  rewrite N.lxor_0_r in D. exists o. split; assumption. Qed.

Lemma sweep_bits12 : all_lists 12 (fun q => bits_N q <? 4096) = true.
Proof. vm_cast_no_check (eq_refl true). Qed.
Lemma bits12_lt q : length q = 12%nat -> bits_N q < 4096.
Proof. intros L. apply N.ltb_lt. exact (all_lists_spec 12 _ sweep_bits12 q L). Qed.

(* ------------------------------------------------------------------ the four received code words *)
Lemma firstn_Forall {A} (P : A -> Prop) n : forall l, Forall P l -> Forall P (firstn n l).
Proof. induction n as [|n IH]; intros l F; [constructor|]. destruct l; [constructor|].
  cbn [firstn]. constructor; [exact (Forall_inv F) | apply IH; exact (Forall_inv_tail F)]. Qed.

Lemma codeword_soft m (y : list bool) i : Forall (fun x => (1 <= x)%Z) m ->
  (24 * i + 24 <= length y)%nat -> (length y <= length m)%nat ->
  codeword (soft m y) i = bits_N (firstn 24 (skipn (24 * i) y)).
Proof. intros F L1 L2. unfold codeword. rewrite soft_skipn, soft_firstn. rewrite hard_soft; [reflexivity| |].
  - apply firstn_Forall. apply skipn_Forall. exact F.
  - rewrite !firstn_length, !skipn_length. lia. Qed.

Lemma skipn_app_len {A} (a rest : list A) k : skipn (length a + k) (a ++ rest) = skipn k rest.
Proof. induction a as [|x a IH]; [reflexivity|]. exact IH. Qed.

Lemma four_words (a b c d rest : list bool) :
  length a = 24%nat -> length b = 24%nat -> length c = 24%nat -> length d = 24%nat ->
  let y := a ++ b ++ c ++ d ++ rest in
  firstn 24 (skipn (24 * 0) y) = a /\ firstn 24 (skipn (24 * 1) y) = b /\
  firstn 24 (skipn (24 * 2) y) = c /\ firstn 24 (skipn (24 * 3) y) = d.
Proof. intros La Lb Lc Ld y. subst y.
  assert (T : forall (u v : list bool), length u = 24%nat -> firstn 24 (u ++ v) = u).
  { intros u v L. rewrite <- L. apply firstn_app_exact. }
  assert (S : forall (u v : list bool) k, length u = 24%nat -> skipn (24 + k) (u ++ v) = skipn k v).
  { intros u v k L. rewrite <- L. apply skipn_app_len. }
  split; [apply T; exact La|]. split.
  - change (24 * 1)%nat with (24 + 0)%nat. rewrite S by exact La. apply T; exact Lb.
  - split.
    + change (24 * 2)%nat with (24 + (24 + 0))%nat. rewrite S by exact La. rewrite S by exact Lb. apply T; exact Lc.
    + change (24 * 3)%nat with (24 + (24 + (24 + 0)))%nat. rewrite S by exact La. rewrite S by exact Lb.
      rewrite S by exact Lc. apply T; exact Ld. Qed.

Lemma split48 {A} (l : list A) : length l = 48%nat ->
  l = firstn 12 l ++ firstn 12 (skipn 12 l) ++ firstn 12 (skipn 24 l) ++ skipn 36 l.
Proof. intros L. do 48 (destruct l as [|? l]; [discriminate|]). destruct l; [reflexivity | discriminate]. Qed.

Lemma lich_chunk_bytes lsf n : all_bytes lsf -> n < 6 -> all_bytes (lich_chunk lsf n).
Proof. intros F Hn. unfold lich_chunk. apply Forall_app. split.
  - apply firstn_Forall. apply skipn_Forall. exact F.
  - constructor; [unfold is_byte; lia | constructor]. Qed.

(* ------------------------------------------------------------------ unpack_lich on a clean LICH *)
Lemma rt_unpack_lich (m : list Z) (lsf : list N) (n : N) (rest : list bool) :
  Forall (fun x => (1 <= x)%Z) m -> length lsf = 30%nat -> all_bytes lsf -> n < 6 ->
  (96 + length rest <= length m)%nat ->
  unpack_lich fd_golay (soft m (spec_lich lsf n ++ rest)) = (lich_chunk lsf n, true).
Proof. intros F Ll Fl Hn Lm.
  set (l := bytes_bits (lich_chunk lsf n)).
  assert (L48 : length l = 48%nat) by (subst l; rewrite bytes_bits_length, lich_chunk_length by assumption; reflexivity).
  unfold spec_lich. fold l. rewrite (groups12_48 l L48). cbn [flat_map]. rewrite app_nil_r.
  set (q0 := firstn 12 l). set (q1 := firstn 12 (skipn 12 l)). set (q2 := firstn 12 (skipn 24 l)). set (q3 := skipn 36 l).
  assert (Lq0 : length q0 = 12%nat) by (subst q0; rewrite firstn_length; lia).
  assert (Lq1 : length q1 = 12%nat) by (subst q1; rewrite firstn_length, skipn_length; lia).
  assert (Lq2 : length q2 = 12%nat) by (subst q2; rewrite firstn_length, skipn_length; lia).
  assert (Lq3 : length q3 = 12%nat) by (subst q3; rewrite skipn_length; lia).
  rewrite <- !app_assoc.
  set (y := golay24_bits (bits_N q0) ++ golay24_bits (bits_N q1) ++ golay24_bits (bits_N q2) ++ golay24_bits (bits_N q3) ++ rest).
  assert (Ly : length y = (96 + length rest)%nat).
  { subst y. rewrite !app_length, !golay24_bits_length. lia. }
  destruct (four_words (golay24_bits (bits_N q0)) (golay24_bits (bits_N q1)) (golay24_bits (bits_N q2)) (golay24_bits (bits_N q3)) rest
              (golay24_bits_length _) (golay24_bits_length _) (golay24_bits_length _) (golay24_bits_length _)) as (W0 & W1 & W2 & W3).
  fold y in W0, W1, W2, W3.
  destruct (golay_clean_word (bits_N q0) (bits12_lt q0 Lq0)) as (o0 & G0 & S0).
  destruct (golay_clean_word (bits_N q1) (bits12_lt q1 Lq1)) as (o1 & G1 & S1).
  destruct (golay_clean_word (bits_N q2) (bits12_lt q2 Lq2)) as (o2 & G2 & S2).
  destruct (golay_clean_word (bits_N q3) (bits12_lt q3 Lq3)) as (o3 & G3 & S3).
  rewrite <- W0 in G0. rewrite <- W1 in G1. rewrite <- W2 in G2. rewrite <- W3 in G3.
  rewrite <- (codeword_soft m y 0 F) in G0 by lia. rewrite <- (codeword_soft m y 1 F) in G1 by lia.
  rewrite <- (codeword_soft m y 2 F) in G2 by lia. rewrite <- (codeword_soft m y 3 F) in G3 by lia.
  rewrite (unpack_lich_words fd_golay (soft m y) o0 o1 o2 o3 G0 G1 G2 G3).
  rewrite S0, S1, S2, S3. rewrite (lich_of_words_bits q0 q1 q2 q3 Lq0 Lq1 Lq2 Lq3).
  subst q0 q1 q2 q3. rewrite <- (split48 l L48). subst l.
  pose proof (to_bytes_bytes_bits (lich_chunk lsf n) (lich_chunk_bytes lsf n Fl Hn)) as E. unfold to_bytes in E.
  rewrite E. reflexivity. Qed.

Lemma frag_of_chunk lsf n : length lsf = 30%nat -> n < 6 -> frag_of (lich_chunk lsf n) = n.
Proof. intros L Hn. unfold frag_of, lich_chunk.
  assert (L5 : length (firstn 5 (skipn (5 * N.to_nat n) lsf)) = 5%nat) by (rewrite firstn_length, skipn_length, L; lia).
  rewrite app_nth2 by (rewrite L5; apply Nat.le_refl). rewrite L5. cbn [Nat.sub nth].
  assert (C : n = 0 \/ n = 1 \/ n = 2 \/ n = 3 \/ n = 4 \/ n = 5) by lia.
  destruct C as [->|[->|[->|[->|[->| ->]]]]]; reflexivity. Qed.

Lemma firstn5_chunk lsf n : length lsf = 30%nat -> n < 6 -> firstn 5 (lich_chunk lsf n) = slot (N.to_nat n) lsf.
Proof. intros L Hn. unfold lich_chunk, slot.
  assert (L5 : length (firstn 5 (skipn (5 * N.to_nat n) lsf)) = 5%nat) by (rewrite firstn_length, skipn_length, L; lia).
  rewrite <- L5 at 1. apply firstn_app_exact. Qed.

(* ------------------------------------------------------------------ the LICH of a stream frame in link-setup mode *)
Lemma stream_payload_length fn payload eos : length payload = 16%nat -> length (spec_stream_payload fn payload eos) = 272%nat.
Proof. intros Lp. destruct (fn_field_ok fn eos) as [_ Lf].
  assert (Lb : length (stream_bits fn payload eos) = ImplFrameDecoder.g_out GStream).
  { unfold stream_bits. rewrite bytes_bits_length, app_length, Lf, Lp. reflexivity. }
  exact (punctured_length GStream _ Lb). Qed.

Lemma rt_lich_step (s : fd_state) (m : list Z) (lsf : list N) (n fn : N) (payload : list N) (eos r : bool) :
  fd_mode s = MLsf -> length m = 368%nat -> mags_ok m ->
  length lsf = 30%nat -> n < 6 -> length payload = 16%nat ->
  exists m', length m' = 368%nat /\ mags_ok m' /\
    fd_step s SStream (soft m (spec_stream_frame lsf n fn payload eos)) r =
    ImplFrameDecoder.decode_lich scratch fd_golay s (soft m' (spec_lich lsf n ++ spec_stream_payload fn payload eos)).
Proof. intros Hm Lm F Ll Hn Lp.
  unfold fd_step, ImplFrameDecoder.step. unfold fd_mode in Hm. rewrite Hm. unfold spec_stream_frame.
  pose proof (stream_payload_length fn payload eos Lp) as Lpl.
  assert (Llich : length (spec_lich lsf n) = 96%nat) by (apply spec_lich_length; assumption).
  destruct (fd_front m (spec_lich lsf n ++ spec_stream_payload fn payload eos) Lm
              ltac:(rewrite app_length, Llich, Lpl; reflexivity) F) as (E & Lm' & F' & _).
  rewrite E. exists (deinterleave 0%Z m). split; [exact Lm'|]. split; [exact F' | reflexivity]. Qed.

Lemma rt_lich_unpack (m' : list Z) (lsf : list N) (n fn : N) (payload : list N) (eos : bool) :
  length m' = 368%nat -> mags_ok m' -> length lsf = 30%nat -> all_bytes lsf -> n < 6 -> length payload = 16%nat ->
  unpack_lich fd_golay (soft m' (spec_lich lsf n ++ spec_stream_payload fn payload eos)) = (lich_chunk lsf n, true).
Proof. intros Lm' F' Ll Fl Hn Lp. apply rt_unpack_lich; try assumption.
  - eapply Forall_impl; [|exact F']. cbv beta. intros; lia.
  - rewrite (stream_payload_length fn payload eos Lp), Lm'. apply Nat.le_refl. Qed.

(** decode_lich_spec for a fragment number below 6 and a known LICH, on an arbitrary outcome [o] *)
Lemma lich_outcome (s : fd_state) (fr : list Z) (chunk : list N) (n : N) (sl : list N) :
  unpack_lich fd_golay fr = (chunk, true) -> frag_of chunk = n -> n <= 5 -> firstn 5 chunk = sl ->
  let o := ImplFrameDecoder.decode_lich scratch fd_golay s fr in
  let lsf' := put_slot (N.to_nat n) sl (fd_lsf s) in
  let seg' := seg_after (fd_seg s) n in
  hd_error (cbs_of scratch o) = Some (mkcb FLich chunk 0) /\
  fd_lsf (fd_st_of o) = lsf' /\
  if (N.land seg' 0x3F =? 0x3F) && (crc30 lsf' =? 0)
  then fd_observe o = (MStream, ROk, Some 0%Z, [mkcb FLich chunk 0; mkcb FLsf lsf' 0]) /\ fd_seg (fd_st_of o) = 0
  else fd_mode (fd_st_of o) = fd_mode s /\ res_of scratch o = RIncomplete /\ cbs_of scratch o = [mkcb FLich chunk 0] /\
       fd_seg (fd_st_of o) = seg'.
Proof. intros U En Hn Esl.
  destruct (decode_lich_spec scratch fd_golay s fr chunk U) as [_ H].
  rewrite En in H. specialize (H Hn). rewrite Esl in H. cbv zeta in H |- *.
  unfold fd_lsf, fd_seg, fd_mode, fd_st_of, fd_observe, observe.
  set (o := ImplFrameDecoder.decode_lich scratch fd_golay s fr) in *. clearbody o.
  set (lsf' := put_slot (N.to_nat n) sl (d_lsf scratch s)) in *. clearbody lsf'.
  set (seg' := seg_after (d_seg scratch s) n) in *. clearbody seg'.
  destruct ((N.land seg' 63 =? 63) && (crc30 lsf' =? 0)).
  - destruct H as (A & B & C & D & E1 & G). rewrite G. split; [reflexivity|]. split; [exact C|].
    split; [|exact B]. rewrite A, D, E1. reflexivity.
  - destruct H as (A & B & C & D & G). rewrite G. split; [reflexivity|]. split; [exact C|].
    split; [exact A|]. split; [exact D|]. split; [reflexivity | exact B]. Qed.

Lemma rt_lich (s : fd_state) (m : list Z) (lsf : list N) (n fn : N) (payload : list N) (eos r : bool) :
  fd_hid_ok s -> fd_mode s = MLsf -> length m = 368%nat -> mags_ok m ->
  length lsf = 30%nat -> all_bytes lsf -> n < 6 -> length payload = 16%nat ->
  let o := fd_step s SStream (soft m (spec_stream_frame lsf n fn payload eos)) r in
  let chunk := lich_chunk lsf n in
  let lsf' := put_slot (N.to_nat n) (slot (N.to_nat n) lsf) (fd_lsf s) in
  let seg' := seg_after (fd_seg s) n in
  fd_hid_ok (fd_st_of o) /\ hd_error (cbs_of scratch o) = Some (mkcb FLich chunk 0) /\
  fd_lsf (fd_st_of o) = lsf' /\
  if (N.land seg' 0x3F =? 0x3F) && (crc30 lsf' =? 0)
  then fd_observe o = (MStream, ROk, Some 0%Z, [mkcb FLich chunk 0; mkcb FLsf lsf' 0]) /\ fd_seg (fd_st_of o) = 0
  else fd_mode (fd_st_of o) = MLsf /\ res_of scratch o = RIncomplete /\ cbs_of scratch o = [mkcb FLich chunk 0] /\
       fd_seg (fd_st_of o) = seg'.
Proof. intros Hh Hm Lm F Ll Fl Hn Lp. cbv zeta.
  split; [apply fd_step_keeps_hid_ok; exact Hh|].
  destruct (rt_lich_step s m lsf n fn payload eos r Hm Lm F Ll Hn Lp) as (m' & Lm' & F' & E).
  rewrite E. rewrite <- Hm.
  exact (lich_outcome s _ (lich_chunk lsf n) n (slot (N.to_nat n) lsf)
           (rt_lich_unpack m' lsf n fn payload eos Lm' F' Ll Fl Hn Lp)
           (frag_of_chunk lsf n Ll Hn) ltac:(lia) (firstn5_chunk lsf n Ll Hn)). Qed.
