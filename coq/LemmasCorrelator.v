(** Index invariants of Correlator, SyncWord and the demodulator's sample-index data flow (ImplCorrelator.v). *)
From Coq Require Import NArith ZArith QArith Arith Bool String Lia List.
From M17 Require Import Checked LemmasChecked ConstsApp ConstsCorrelator ImplRxIndex LemmasRxIndex ImplCorrelator.
Import ListNotations.
Local Open Scope nat_scope.

Ltac cc :=
  cbv [corr_symbols corr_sps corr_buffer_size corr_sync_size corr_tmp_size corr_sample_wrap corr_correlate_wrap
       corr_osl_loop corr_apply_loop corr_apply_index_mod sw_word_size sw_samples_size sw_peak_index_mod
       demod_index_mod stride_fuel] in *.

(* the translated comparison [E : (a ?? b) = true/false] as a proposition, whatever the operator in the source is *)
Ltac cmp_prop E :=
  rewrite ?negb_true_iff, ?negb_false_iff in E;
  rewrite ?Nat.eqb_eq, ?Nat.eqb_neq, ?Nat.leb_le, ?Nat.leb_gt, ?Nat.ltb_lt, ?Nat.ltb_ge in E.

Section Proofs.
Variable V : Type.

(** * Correlator *)
Definition corr_inv (c : correlator V) : Prop :=
  length (c_buffer c) = corr_buffer_size /\ length (c_tmp c) = corr_tmp_size /\
  c_pos c < corr_buffer_size /\ c_prev c < corr_buffer_size.

Lemma corr_init_inv buffer tmp : length buffer = corr_buffer_size -> length tmp = corr_tmp_size -> corr_inv (corr_init buffer tmp).
Proof. intros H1 H2. unfold corr_inv, corr_init. cbn [c_buffer c_tmp c_pos c_prev]. cc. lia. Qed.

(* one sample(): inside, and the positions advance cyclically *)
Lemma corr_sample_ok c v : corr_inv c ->
  exists c', corr_sample c v = Ok c' /\ corr_inv c' /\ c_prev c' = c_pos c /\
             c_pos c' = S (c_pos c) mod corr_buffer_size /\ c_tmp c' = c_tmp c.
Proof. intros [L [T [P Q]]]. unfold corr_sample. rewrite set_ok by lia. cbn [bind].
  eexists. split; [reflexivity|]. unfold corr_inv. cbn [c_buffer c_tmp c_pos c_prev]. rewrite replace_nth_length.
  destruct (corr_sample_wrap (S (c_pos c)) corr_buffer_size) eqn:E; unfold corr_sample_wrap in E; cmp_prop E.
  - assert (E' : S (c_pos c) = corr_buffer_size) by lia. rewrite E', Nat.mod_same by (cc; lia). cc. repeat split; lia.
  - rewrite Nat.mod_small by lia. repeat split; lia.
Qed.

Lemma corr_run_ok : forall values c, corr_inv c -> exists c', corr_run c values = Ok c' /\ corr_inv c'.
Proof. induction values as [|v r IH]; intros c I; cbn [corr_run].
- exists c. split; [reflexivity|exact I].
- destruct (corr_sample_ok c v I) as [c1 [H1 [I1 _]]]. rewrite H1. cbn [bind]. apply IH. exact I1.
Qed.

(* correlate: every read is inside, for a sync word of ANY length, from any start below size + stride *)
Lemma correlate_loop_ok (buffer : list V) : length buffer = corr_buffer_size ->
  forall sync pos, pos < corr_buffer_size + corr_sps ->
  exists xs, correlate_loop buffer pos sync = Ok xs /\ map fst xs = sync.
Proof. intros L. induction sync as [|s r IH]; intros pos P; cbn [correlate_loop].
- exists []. split; reflexivity.
- set (pos' := if corr_correlate_wrap pos corr_buffer_size then pos - corr_buffer_size else pos).
  assert (B : pos' < corr_buffer_size).
  { subst pos'. destruct (corr_correlate_wrap pos corr_buffer_size) eqn:E; unfold corr_correlate_wrap in E; cmp_prop E; cc; lia. }
  destruct (get_ok "Correlator::correlate: buffer_[pos]" buffer pos') as [x Hx]; [lia|]. rewrite Hx. cbn [bind].
  destruct (IH (pos' + corr_sps)) as [xs [Hxs M]]; [lia|]. rewrite Hxs. cbn [bind].
  exists ((s, x) :: xs). split; [reflexivity|]. cbn [map fst]. rewrite M. reflexivity.
Qed.

Lemma corr_correlate_ok c sync : corr_inv c -> exists xs, corr_correlate c sync = Ok xs /\ map fst xs = sync.
Proof. intros [L [_ [_ Q]]]. unfold corr_correlate. apply correlate_loop_ok; [exact L|lia]. Qed.

Lemma corr_index_lt (c : correlator V) : corr_index c < corr_sps.
Proof. unfold corr_index. apply Nat.mod_upper_bound. cc. lia. Qed.

(* the strided loops: [fuel_ok fuel i]: the fuel outlasts the loop started at i *)
Definition fuel_ok (fuel i : nat) : Prop := exists f, fuel = S f /\ corr_buffer_size <= i + f * corr_sps.

Lemma fuel_ok_start i : fuel_ok stride_fuel i.
Proof. exists corr_buffer_size. split; [reflexivity|]. cc. lia. Qed.

Lemma fuel_ok_step f i : fuel_ok (S f) i -> i < corr_buffer_size -> fuel_ok f (i + corr_sps).
Proof. intros [f' [E H]] Hi. injection E as ->. destruct f' as [|f'']; [cc; lia|]. exists f''. split; [reflexivity|]. cc. lia. Qed.

Lemma osl_loop1_ok (buffer : list V) : length buffer = corr_buffer_size ->
  forall fuel i, fuel_ok fuel i -> exists xs, osl_loop1 fuel buffer i = Ok xs /\ corr_buffer_size <= i + length xs * corr_sps.
Proof. intros L. induction fuel as [|f IH]; intros i F.
- destruct F as [f' [E _]]. discriminate.
- cbn [osl_loop1]. destruct (corr_osl_loop i corr_buffer_size) eqn:Hi; unfold corr_osl_loop in Hi; cmp_prop Hi.
  + destruct (get_ok "Correlator::outer_symbol_levels: buffer_[i] (min / max loop)" buffer i) as [x Hx]; [lia|]. rewrite Hx. cbn [bind].
    destruct (IH (i + corr_sps) (fuel_ok_step f i F Hi)) as [xs [Hxs B]]. rewrite Hxs. cbn [bind].
    exists (x :: xs). split; [reflexivity|]. cbn [length]. cc. lia.
  + exists []. split; [reflexivity|]. cbn [length]. lia.
Qed.

Lemma apply_loop_ok (buffer : list V) : length buffer = corr_buffer_size ->
  forall fuel i, fuel_ok fuel i -> exists xs, apply_loop fuel buffer i = Ok xs.
Proof. intros L. induction fuel as [|f IH]; intros i F.
- destruct F as [f' [E _]]. discriminate.
- cbn [apply_loop]. destruct (corr_apply_loop i corr_buffer_size) eqn:Hi; unfold corr_apply_loop in Hi; cmp_prop Hi.
  + destruct (get_ok "Correlator::apply: func(buffer_[i])" buffer i) as [x Hx]; [lia|]. rewrite Hx. cbn [bind].
    destruct (IH (i + corr_sps) (fuel_ok_step f i F Hi)) as [xs Hxs]. rewrite Hxs. cbn [bind]. eexists; reflexivity.
  + eexists; reflexivity.
Qed.

(* second loop: [k] = the tmp slots still free; they suffice for the rest of the walk.  The final index is pinned:
   it is the number of i = start, start + stride, ... below the buffer size *)
Lemma osl_loop2_ok (buffer : list V) : length buffer = corr_buffer_size ->
  forall fuel tmp i index, length tmp = corr_tmp_size -> fuel_ok fuel i ->
    (exists k, index + k = corr_tmp_size /\ corr_buffer_size <= i + k * corr_sps) ->
    exists tmp' index', osl_loop2 fuel buffer tmp i index = Ok (tmp', index') /\ length tmp' = corr_tmp_size /\
      index <= index' <= corr_tmp_size /\ corr_buffer_size <= i + (index' - index) * corr_sps /\
      (index' = index \/ i + (index' - index) * corr_sps < corr_buffer_size + corr_sps).
Proof. intros L. induction fuel as [|f IH]; intros tmp i index T F [k [K1 K2]].
- destruct F as [f' [E _]]. discriminate.
- cbn [osl_loop2]. destruct (corr_osl_loop i corr_buffer_size) eqn:Hi; unfold corr_osl_loop in Hi; cmp_prop Hi.
  + destruct (get_ok "Correlator::outer_symbol_levels: buffer_[i] (sum loop)" buffer i) as [x Hx]; [lia|]. rewrite Hx. cbn [bind].
    destruct k as [|k']; [cc; lia|].
    rewrite set_ok by lia. cbn [bind].
    destruct (IH (replace_nth tmp index x) (i + corr_sps) (S index)) as [tmp' [index' [H [T' [B1 [B2 B3]]]]]].
    * rewrite replace_nth_length. exact T.
    * exact (fuel_ok_step f i F Hi).
    * exists k'. cc. lia.
    * exists tmp', index'. split; [exact H|]. split; [exact T'|]. cc. repeat split; try lia.
  + exists tmp, index. split; [reflexivity|]. split; [exact T|]. replace (index - index) with 0 by lia. cc. repeat split; try lia.
Qed.

(* outer_symbol_levels(sample_index): safe exactly for sample_index < buffer size; the number of tmp entries written is
   the number of strided positions below the buffer size, at most (and for sample_index < stride exactly) SYMBOLS *)
Lemma corr_osl_ok c si : corr_inv c -> si < corr_buffer_size ->
  exists c' xs index, corr_outer_symbol_levels c si = Ok (c', xs, index) /\ corr_inv c' /\
    c_buffer c' = c_buffer c /\ c_pos c' = c_pos c /\ c_prev c' = c_prev c /\
    1 <= index <= corr_tmp_size /\ corr_buffer_size <= si + index * corr_sps < corr_buffer_size + corr_sps.
Proof. intros [L [T [P Q]]] Hs. unfold corr_outer_symbol_levels.
  destruct (get_ok "Correlator::outer_symbol_levels: min_level = buffer_[sample_index]" (c_buffer c) si) as [x0 H0]; [lia|]. rewrite H0. cbn [bind].
  destruct (get_ok "Correlator::outer_symbol_levels: max_level = buffer_[sample_index]" (c_buffer c) si) as [x1 H1]; [lia|]. rewrite H1. cbn [bind].
  destruct (osl_loop1_ok (c_buffer c) L stride_fuel si (fuel_ok_start si)) as [xs [Hxs _]]. rewrite Hxs. cbn [bind].
  destruct (osl_loop2_ok (c_buffer c) L stride_fuel (c_tmp c) si 0 T (fuel_ok_start si)) as [tmp' [index' [H2 [T' [B1 [B2 B3]]]]]].
  { exists corr_tmp_size. cc. lia. }
  rewrite H2. cbn [bind fst snd]. eexists; eexists; eexists. split; [reflexivity|].
  unfold corr_inv. cbn [c_buffer c_tmp c_pos c_prev]. rewrite Nat.sub_0_r in *. cc. repeat split; try lia.
Qed.

Lemma corr_osl_lt_sps c si : corr_inv c -> si < corr_sps ->
  exists c' xs, corr_outer_symbol_levels c si = Ok (c', xs, corr_symbols) /\ corr_inv c' /\
    c_buffer c' = c_buffer c /\ c_pos c' = c_pos c /\ c_prev c' = c_prev c.
Proof. intros I Hs. destruct (corr_osl_ok c si I) as [c' [xs [index [H [I' [E1 [E2 [E3 [B1 B2]]]]]]]]]; [cc; lia|].
  assert (index = corr_symbols) by (cc; lia). subst index. exists c', xs. auto. Qed.

Lemma corr_osl_oob c si : corr_inv c -> corr_buffer_size <= si ->
  corr_outer_symbol_levels c si = Oob "Correlator::outer_symbol_levels: min_level = buffer_[sample_index]".
Proof. intros [L _] Hs. unfold corr_outer_symbol_levels. rewrite get_oob by lia. reflexivity. Qed.

(* apply(func, index): safe for every uint8_t (indeed every) index: nothing is read once i >= size *)
Lemma corr_apply_ok c index : corr_inv c -> exists xs, corr_apply c index = Ok xs.
Proof. intros [L _]. unfold corr_apply. apply apply_loop_ok; [exact L|apply fuel_ok_start]. Qed.

(** * SyncWord *)
Variable zero : V.
Variable abs_gt : V -> V -> bool.
Variable is_pos : V -> bool.

Definition sw_inv (s : syncword V) : Prop := length (sw_samples s) = sw_samples_size /\ sw_timing s < sw_samples_size.

Lemma sw_init_inv word samples : length samples = sw_samples_size -> sw_inv (sw_init word samples).
Proof. intros H. unfold sw_inv, sw_init. cbn [sw_samples sw_timing]. cc. lia. Qed.

(* the uint8_t counter does not wrap while it walks samples_, and timing_index_ is 0 or a position already passed *)
Lemma peak_fold : forall (l : list V) p t i, i + length l <= sw_peak_index_mod -> (t = 0 \/ t < i) ->
  exists p' t' i', fold_left (peak_step abs_gt) l (p, t, i) = (p', t', i') /\ (t' = 0 \/ t' < i + length l).
Proof. induction l as [|f r IH]; intros p t i B H; cbn [fold_left length] in *.
- exists p, t, i. split; [reflexivity|lia].
- destruct (Nat.eq_dec (length r) 0) as [Z|NZ].
  + apply length_zero_iff_nil in Z. subst r. cbn [fold_left length]. unfold peak_step.
    destruct (abs_gt f p); eexists; eexists; eexists; (split; [reflexivity|lia]).
  + unfold peak_step at 2. rewrite (Nat.mod_small (i + 1)) by (cc; lia).
    destruct (abs_gt f p).
    * destruct (IH f i (i + 1)) as [p' [t' [i' [E H']]]]; [lia|lia|]. exists p', t', i'. split; [exact E|lia].
    * destruct (IH p t (i + 1)) as [p' [t' [i' [E H']]]]; [lia|lia|]. exists p', t', i'. split; [exact E|lia].
Qed.

Lemma sw_find_peak_inv s value : sw_inv s -> sw_inv (sw_find_peak abs_gt is_pos s value) /\ sw_trig (sw_find_peak abs_gt is_pos s value) = false.
Proof. intros [L T]. unfold sw_find_peak.
  destruct (peak_fold (sw_samples s) value 0 0) as [p' [t' [i' [E H]]]]; [cc; lia|lia|]. rewrite E.
  unfold sw_inv. cbn [sw_samples sw_timing sw_trig]. cc. repeat split; lia. Qed.

Lemma sw_find_peak_word s value : sw_word (sw_find_peak abs_gt is_pos s value) = sw_word s.
Proof. unfold sw_find_peak. destruct (fold_left (peak_step abs_gt) (sw_samples s) (value, 0, 0)) as [[p t] i]. reflexivity. Qed.

(* operator(): the store samples_[correlator.index()] is inside iff the index is below the array size *)
Lemma sw_step_ok s nonzero value cindex : sw_inv s -> cindex < sw_samples_size ->
  exists s' t, sw_step zero abs_gt is_pos s nonzero value cindex = Ok (s', t) /\ sw_inv s' /\ t = sw_timing s' /\ sw_word s' = sw_word s.
Proof. intros [L T] C. unfold sw_step. destruct nonzero.
- rewrite set_ok by (destruct (sw_trig s); rewrite ?map_length; lia). cbn [bind].
  eexists; eexists. split; [reflexivity|]. unfold sw_inv. cbn [sw_samples sw_timing sw_word]. rewrite replace_nth_length.
  destruct (sw_trig s); rewrite ?map_length; auto.
- destruct (sw_trig s).
  + eexists; eexists. split; [reflexivity|]. destruct (sw_find_peak_inv s value (conj L T)) as [I _]. split; [exact I|]. split; [reflexivity|apply sw_find_peak_word].
  + exists s, (sw_timing s). split; [reflexivity|]. split; [split; assumption|]. split; reflexivity.
Qed.

Lemma sw_step_oob s value cindex : sw_inv s -> sw_samples_size <= cindex ->
  sw_step zero abs_gt is_pos s true value cindex = Oob "SyncWord::operator(): samples_[correlator.index()] = value".
Proof. intros [L T] C. unfold sw_step, set. destruct (sw_trig s); rewrite ?map_length;
  (destruct (Nat.ltb_spec cindex (length (sw_samples s))); [lia|reflexivity]). Qed.

Lemma sw_call_ok s c nonzero value : sw_inv s -> corr_inv c ->
  exists s' t, sw_call zero abs_gt is_pos s c nonzero value = Ok (s', t) /\ sw_inv s' /\ t = sw_timing s' /\ sw_word s' = sw_word s.
Proof. intros I C. unfold sw_call, sw_triggered. destruct (corr_correlate_ok c (sw_word s) C) as [xs [H _]]. rewrite H. cbn [bind].
  apply sw_step_ok; [exact I|]. pose proof (corr_index_lt c). cc. lia. Qed.

Lemma sw_take_updated_inv s : sw_inv s -> sw_inv (fst (sw_take_updated s)).
Proof. intros I. exact I. Qed.

Lemma sw_run_ok : forall calls s c, sw_inv s -> corr_inv c ->
  exists s' c' ts, sw_run zero abs_gt is_pos s c calls = Ok (s', c', ts) /\ sw_inv s' /\ corr_inv c' /\
                   Forall (fun t => t <= corr_sps - 1) ts.
Proof. induction calls as [|[[v nz] value] r IH]; intros s c I C; cbn [sw_run].
- exists s, c, []. split; [reflexivity|]. auto.
- destruct (corr_sample_ok c v C) as [c1 [H1 [C1 _]]]. rewrite H1. cbn [bind].
  destruct (sw_call_ok s c1 nz value I C1) as [s1 [t [H2 [I1 [Et _]]]]]. rewrite H2. cbn [bind fst snd].
  destruct (IH s1 c1 I1 C1) as [s' [c' [ts [H3 [I' [C' F]]]]]]. rewrite H3. cbn [bind fst snd].
  exists s', c', (t :: ts). split; [reflexivity|]. split; [exact I'|]. split; [exact C'|].
  constructor; [|exact F]. destruct I1 as [_ T1]. subst t. cc. lia.
Qed.

(** * M17Demodulator: sources of the sample indices *)
Definition d_inv (d : demod V) : Prop :=
  corr_inv (d_corr d) /\ sw_inv (d_preamble d) /\ sw_inv (d_lsf d) /\ sw_inv (d_packet d) /\ sw_inv (d_eot d) /\
  d_sample_index d < corr_sps /\ d_sync_sample_index d < corr_sps /\ (0 <= d_clock_index d <= samples_per_symbol - 1)%Z.

Definition use_lt (u : duse) : Prop := match u with UOsl i | UCompare i | UClockArg i => i < corr_sps end.
Definition est_ok (q : Q) : Prop := (0 <= q)%Q /\ (q <= 10)%Q.

Lemma demod_init_inv buffer tmp s1 s2 s3 s4 :
  length buffer = corr_buffer_size -> length tmp = corr_tmp_size ->
  length s1 = sw_samples_size -> length s2 = sw_samples_size -> length s3 = sw_samples_size -> length s4 = sw_samples_size ->
  d_inv (demod_init buffer tmp s1 s2 s3 s4).
Proof. intros. unfold d_inv, demod_init. cbn [d_corr d_preamble d_lsf d_packet d_eot d_sample_index d_sync_sample_index d_clock_index].
  refine (conj (corr_init_inv _ _ _ _) (conj (sw_init_inv _ _ _) (conj (sw_init_inv _ _ _) (conj (sw_init_inv _ _ _) (conj (sw_init_inv _ _ _) _)))));
  try assumption. cbv [corr_sps samples_per_symbol]. lia. Qed.

Lemma get_sw_inv d w : d_inv d -> sw_inv (get_sw d w).
Proof. intros [_ [A [B [C _]]]]. destruct w; assumption. Qed.

Lemma d_inv_set_sw d w s : d_inv d -> sw_inv s -> d_inv (set_sw d w s).
Proof. intros [A [B [C [D [E F]]]]] S. unfold d_inv, set_sw.
  cbn [d_corr d_preamble d_lsf d_packet d_eot d_sample_index d_sync_sample_index d_clock_index].
  destruct w; refine (conj A (conj _ (conj _ (conj _ (conj E F))))); assumption. Qed.

Lemma d_inv_set_corr d c : d_inv d -> corr_inv c -> d_inv (set_corr d c).
Proof. intros [A B] S. split; [exact S|exact B]. Qed.

Lemma d_inv_set_indices d si ssi ci : d_inv d -> si < corr_sps -> ssi < corr_sps -> (0 <= ci <= samples_per_symbol - 1)%Z ->
  d_inv (set_indices d si ssi ci).
Proof. intros [A [B [C [D [E F]]]]] H1 H2 H3. unfold d_inv, set_indices.
  cbn [d_corr d_preamble d_lsf d_packet d_eot d_sample_index d_sync_sample_index d_clock_index].
  refine (conj A (conj B (conj C (conj D (conj E (conj H1 (conj H2 H3))))))). Qed.

Lemma to_uint8_small n : n < corr_sps -> to_uint8 n = n.
Proof. intros H. unfold to_uint8. apply Nat.mod_small. cc. lia. Qed.

Lemma update_values_ok d index : d_inv d -> index < corr_sps ->
  exists d', update_values d index = Ok (d', [UOsl (d_sample_index d)]) /\ d_inv d'.
Proof. intros I Hi. pose proof I as [C [_ [_ [_ [_ [S [SS CI]]]]]]]. unfold update_values.
  destruct (corr_osl_lt_sps (d_corr d) (d_sample_index d) C S) as [c' [xs [H [C' _]]]]. rewrite H. cbn [bind fst snd].
  eexists. split; [reflexivity|]. rewrite to_uint8_small by exact Hi.
  apply d_inv_set_indices; [apply d_inv_set_corr; assumption|exact S|exact Hi|exact CI]. Qed.

Lemma sync_block_ok d w u nonzero value asg : d_inv d ->
  exists d' uses, sync_block zero abs_gt is_pos d w u nonzero value asg = Ok (d', uses) /\ d_inv d' /\ Forall use_lt uses.
Proof. intros I. pose proof I as [C [_ [_ [_ [_ [S [SS CI]]]]]]]. unfold sync_block.
  destruct (sw_call_ok (get_sw d w) (d_corr d) nonzero value (get_sw_inv d w I) C) as [s' [t [H [I' [Et _]]]]].
  rewrite H. cbn [bind fst snd].
  assert (Ht : t < corr_sps). { destruct I' as [_ T]. subst t. cc. lia. }
  assert (I1 : d_inv (set_sw d w (fst (sw_take_updated s')))) by (apply d_inv_set_sw; [exact I|exact I']).
  destruct (ucond_holds u (snd (sw_take_updated s'))).
  - rewrite (to_uint8_small t Ht).
    set (d1 := set_sw d w (fst (sw_take_updated s'))) in *.
    assert (I2 : d_inv (if asg then set_indices d1 t (d_sync_sample_index d1) (d_clock_index d1) else d1)).
    { destruct asg; [|exact I1]. destruct I1 as [? [? [? [? [? [? [? ?]]]]]]].
      apply d_inv_set_indices; [|exact Ht|assumption|assumption]. unfold d_inv; tauto. }
    destruct (update_values_ok _ t I2 Ht) as [d' [H2 I3]]. rewrite H2.
    eexists; eexists. split; [reflexivity|]. split; [exact I3|]. constructor; [|constructor].
    destruct I2 as [_ [_ [_ [_ [_ [S2 _]]]]]]. exact S2.
  - eexists; eexists. split; [reflexivity|]. split; [exact I1|constructor].
Qed.

Lemma int8_conv_est site e : est_ok e -> exists ci, int8_conv site (sample_index_of e) = Ok ci /\ (0 <= ci <= samples_per_symbol - 1)%Z.
Proof. intros [H1 H2]. destruct (sample_index_in_range_lemma e H1 H2) as [s [E B]]. rewrite E. exists s. split; [reflexivity|].
  cbv [samples_per_symbol]. lia. Qed.

Lemma demod_step_ok d e : d_inv d -> event_estimate_ok est_ok e ->
  exists d' uses, demod_step zero abs_gt is_pos d e = Ok (d', uses) /\ d_inv d' /\ Forall use_lt uses.
Proof. intros I Hq. pose proof I as [C [I1 [I2 [I3 [I4 [S [SS CI]]]]]]]. destruct e as [v| |q|w u nz value|w u nz value| |upd|q]; cbn [demod_step event_estimate_ok] in *.
- destruct (corr_sample_ok (d_corr d) v C) as [c' [H [C' _]]]. rewrite H. cbn [bind].
  eexists; eexists. split; [reflexivity|]. split; [apply d_inv_set_corr; assumption|constructor].
- unfold to_int8. replace ((-128 <=? Z.of_nat (d_sync_sample_index d))%Z && (Z.of_nat (d_sync_sample_index d) <=? 127)%Z) with true
    by (symmetry; apply andb_true_iff; split; apply Z.leb_le; cc; lia).
  cbn [int8_conv bind]. eexists; eexists. split; [reflexivity|].
  split; [apply d_inv_set_indices; try assumption; cbv [samples_per_symbol]; cc; lia|]. constructor; [exact SS|constructor].
- destruct (int8_conv_est "ClockRecovery::update(uint8_t): int8_t(round(sample_estimate_))" q Hq) as [ci [H B]]. rewrite H. cbn [bind].
  eexists; eexists. split; [reflexivity|]. split; [apply d_inv_set_indices; assumption|]. constructor; [exact SS|constructor].
- apply sync_block_ok. exact I.
- apply sync_block_ok. exact I.
- unfold sw_triggered. destruct (corr_correlate_ok (d_corr d) (sw_word (d_eot d)) C) as [xs [H _]]. rewrite H. cbn [bind].
  eexists; eexists. split; [reflexivity|]. split; [exact I|constructor].
- destruct (corr_index (d_corr d) =? d_sample_index d).
  + unfold sw_triggered.
    destruct (corr_correlate_ok (d_corr d) (sw_word (d_preamble d)) C) as [x1 [H1 _]]. rewrite H1. cbn [bind].
    destruct (corr_correlate_ok (d_corr d) (sw_word (d_lsf d)) C) as [x2 [H2 _]]. rewrite H2. cbn [bind].
    destruct (corr_correlate_ok (d_corr d) (sw_word (d_packet d)) C) as [x3 [H3 _]]. rewrite H3. cbn [bind].
    destruct upd.
    * destruct (update_values_ok d (d_sample_index d) I S) as [d' [H4 I']]. rewrite H4. cbn [bind fst snd].
      eexists; eexists. split; [reflexivity|]. split; [exact I'|]. repeat (apply Forall_cons; [exact S|]); apply Forall_nil.
    * eexists; eexists. split; [reflexivity|]. split; [exact I|]. repeat (apply Forall_cons; [exact S|]); apply Forall_nil.
  + eexists; eexists. split; [reflexivity|]. split; [exact I|]. repeat (apply Forall_cons; [exact S|]); apply Forall_nil.
- destruct (Z.abs (Z.of_nat (d_sample_index d) - Z.of_nat (corr_index (d_corr d))) =? samples_per_symbol / 2)%Z.
  + destruct (int8_conv_est "ClockRecovery::update(): int8_t(round(csw))" q Hq) as [ci [H B]]. rewrite H. cbn [bind].
    eexists; eexists. split; [reflexivity|]. split; [|repeat (apply Forall_cons; [exact S|]); apply Forall_nil].
    apply d_inv_set_indices; try assumption. cbv [samples_per_symbol] in B. cc.
    rewrite Z.mod_small by lia. lia.
  + eexists; eexists. split; [reflexivity|]. split; [exact I|]. repeat (apply Forall_cons; [exact S|]); apply Forall_nil.
Qed.

Lemma demod_run_ok : forall events d, d_inv d -> Forall (event_estimate_ok est_ok) events ->
  exists d' uses, demod_run zero abs_gt is_pos d events = Ok (d', uses) /\ d_inv d' /\ Forall use_lt uses.
Proof. induction events as [|e r IH]; intros d I F; cbn [demod_run].
- exists d, []. split; [reflexivity|]. split; [exact I|constructor].
- inversion F as [|? ? He Hr]; subst. destruct (demod_step_ok d e I He) as [d1 [u1 [H1 [I1 U1]]]]. rewrite H1. cbn [bind fst snd].
  destruct (IH d1 I1 Hr) as [d' [u2 [H2 [I' U2]]]]. rewrite H2. cbn [bind fst snd].
  exists d', (u1 ++ u2). split; [reflexivity|]. split; [exact I'|]. apply Forall_app. split; assumption.
Qed.
End Proofs.

(** * Statements in the form used by Properties_C07.v *)
Lemma corr_run_pos (V : Type) : forall values (c : correlator V), corr_inv V c ->
  exists c', corr_run c values = Ok c' /\ corr_inv V c' /\ c_pos c' = (c_pos c + length values) mod corr_buffer_size.
Proof. induction values as [|v r IH]; intros c I; cbn [corr_run length].
- exists c. split; [reflexivity|]. split; [exact I|]. destruct I as [_ [_ [P _]]]. rewrite Nat.add_0_r, Nat.mod_small by exact P. reflexivity.
- destruct (corr_sample_ok V c v I) as [c1 [H1 [I1 [_ [P1 _]]]]]. rewrite H1. cbn [bind].
  destruct (IH c1 I1) as [c' [H [I' P']]]. exists c'. split; [exact H|]. split; [exact I'|].
  rewrite P', P1, Nat.add_mod_idemp_l by (cc; lia). f_equal. lia.
Qed.

Lemma correlator_positions_lemma (V : Type) (buffer tmp values : list V) :
  length buffer = corr_buffer_size -> length tmp = corr_tmp_size ->
  exists c', corr_run (corr_init buffer tmp) values = Ok c' /\
    (length (c_buffer c') = corr_buffer_size /\ length (c_tmp c') = corr_tmp_size /\
     c_pos c' < corr_buffer_size /\ c_prev c' < corr_buffer_size) /\
    c_pos c' = length values mod corr_buffer_size /\ corr_index c' <= corr_sps - 1.
Proof. intros L T. destruct (corr_run_pos V values (corr_init buffer tmp) (corr_init_inv V buffer tmp L T)) as [c' [H [I P]]].
  exists c'. split; [exact H|]. split; [exact I|]. split; [exact P|]. pose proof (corr_index_lt V c'). lia. Qed.

Lemma correlator_osl_range_lemma (V : Type) (c : correlator V) (si : nat) :
  (length (c_buffer c) = corr_buffer_size /\ length (c_tmp c) = corr_tmp_size /\ c_pos c < corr_buffer_size /\ c_prev c < corr_buffer_size) ->
  (si < corr_buffer_size ->
     exists c' xs index, corr_outer_symbol_levels c si = Ok (c', xs, index) /\
       (length (c_buffer c') = corr_buffer_size /\ length (c_tmp c') = corr_tmp_size /\ c_pos c' < corr_buffer_size /\ c_prev c' < corr_buffer_size) /\
       1 <= index <= corr_tmp_size /\ corr_buffer_size <= si + index * corr_sps < corr_buffer_size + corr_sps) /\
  (si < corr_sps -> exists c' xs, corr_outer_symbol_levels c si = Ok (c', xs, corr_symbols)) /\
  (corr_buffer_size <= si -> corr_outer_symbol_levels c si = Oob "Correlator::outer_symbol_levels: min_level = buffer_[sample_index]").
Proof. intros I. split; [|split].
- intros H. destruct (corr_osl_ok V c si I H) as [c' [xs [index [E [I' [_ [_ [_ [B1 B2]]]]]]]]]. exists c', xs, index. auto.
- intros H. destruct (corr_osl_lt_sps V c si I H) as [c' [xs [E _]]]. exists c', xs. exact E.
- apply corr_osl_oob. exact I.
Qed.

Lemma syncword_lemma (V : Type) (zero : V) (abs_gt : V -> V -> bool) (is_pos : V -> bool)
  (word : list Z) (samples buffer tmp : list V) (calls : list (V * bool * V)) :
  length samples = sw_samples_size -> length buffer = corr_buffer_size -> length tmp = corr_tmp_size ->
  exists s' c' ts, sw_run zero abs_gt is_pos (sw_init word samples) (corr_init buffer tmp) calls = Ok (s', c', ts) /\
    length (sw_samples s') = sw_samples_size /\ sw_timing s' <= corr_sps - 1 /\ Forall (fun t => t <= corr_sps - 1) ts.
Proof. intros S L T.
  destruct (sw_run_ok V zero abs_gt is_pos calls (sw_init word samples) (corr_init buffer tmp) (sw_init_inv V word samples S) (corr_init_inv V buffer tmp L T))
    as [s' [c' [ts [H [[I1 I2] [_ F]]]]]].
  exists s', c', ts. split; [exact H|]. split; [exact I1|]. split; [cc; lia|exact F]. Qed.

Lemma syncword_store_range_lemma (V : Type) (zero : V) (abs_gt : V -> V -> bool) (is_pos : V -> bool)
  (s : syncword V) (nonzero : bool) (value : V) (cindex : nat) :
  length (sw_samples s) = sw_samples_size -> sw_timing s < sw_samples_size ->
  (cindex < sw_samples_size -> exists s' t, sw_step zero abs_gt is_pos s nonzero value cindex = Ok (s', t) /\
      length (sw_samples s') = sw_samples_size /\ t = sw_timing s' /\ t <= corr_sps - 1) /\
  (sw_samples_size <= cindex -> sw_step zero abs_gt is_pos s true value cindex = Oob "SyncWord::operator(): samples_[correlator.index()] = value").
Proof. intros L T. split.
- intros C. destruct (sw_step_ok V zero abs_gt is_pos s nonzero value cindex (conj L T) C) as [s' [t [H [[I1 I2] [Et _]]]]].
  exists s', t. split; [exact H|]. split; [exact I1|]. split; [exact Et|]. subst t. cc. lia.
- apply sw_step_oob. split; assumption.
Qed.

Lemma sample_index_sources_in_range (V : Type) (zero : V) (abs_gt : V -> V -> bool) (is_pos : V -> bool)
  (buffer tmp s1 s2 s3 s4 : list V) (events : list (devent V)) :
  length buffer = corr_buffer_size -> length tmp = corr_tmp_size ->
  length s1 = sw_samples_size -> length s2 = sw_samples_size -> length s3 = sw_samples_size -> length s4 = sw_samples_size ->
  Forall (event_estimate_ok (fun e => (0 <= e)%Q /\ (e <= 10)%Q)) events ->
  exists d' uses, demod_run zero abs_gt is_pos (demod_init buffer tmp s1 s2 s3 s4) events = Ok (d', uses) /\
    Forall (fun u => match u with UOsl i | UCompare i | UClockArg i => i < corr_sps end) uses /\
    d_sample_index d' < corr_sps /\ d_sync_sample_index d' < corr_sps /\ (0 <= d_clock_index d' <= samples_per_symbol - 1)%Z.
Proof. intros L T S1 S2 S3 S4 F.
  destruct (demod_run_ok V zero abs_gt is_pos events _ (demod_init_inv V buffer tmp s1 s2 s3 s4 L T S1 S2 S3 S4) F) as [d' [uses [H [I U]]]].
  exists d', uses. split; [exact H|]. split; [exact U|]. destruct I as [_ [_ [_ [_ [_ I]]]]]. exact I. Qed.
