(** Golay, the sweep over the 1+24+276+2024+10626 = 12951 error patterns of weight <= 4 in 24 bits:
    decode applied to the bare pattern (i.e. to the codeword 0 hit by that pattern). *)
From Coq Require Import NArith List Bool Lia.
From M17 Require Import Bits ConstsGolay ImplGolay LemmasGolay_A.
Import ListNotations.
Local Open Scope N_scope.

Definition pattern_ok (lut : list entry) (e : N) : bool :=
  match decode_with lut e with
  | DOk o => (popcount e <=? 3) && (N.shiftr o 12 =? 0)
  | DFail => popcount e =? 4
  | DEnd => false
  end.

Lemma sw_patterns : below_w 24 4 (pattern_ok LUT) = true.
Proof. vm_compute. reflexivity. Qed.

Local Opaque LUT decode_with popcount.

Lemma pattern_facts e : e < 2 ^ 24 -> popcount e <= 4 ->
  match decode e with
  | DOk o => popcount e <= 3 /\ N.shiftr o 12 = 0
  | DFail => popcount e = 4
  | DEnd => False
  end.
Proof. intros H W. pose proof (below_w_spec 24 4 _ sw_patterns e H W) as S.
  unfold pattern_ok in S. unfold decode. destruct (decode_with LUT e) as [| |o].
  - discriminate S.
  - apply N.eqb_eq. exact S.
  - apply andb_prop in S. destruct S as [S1 S2]. split; [apply N.leb_le; exact S1 | apply N.eqb_eq; exact S2].
Qed.
