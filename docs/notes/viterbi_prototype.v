
Require Import ZArith List Lia Bool Arith. Import ListNotations.
Ltac Zify.zify_post_hook ::= Z.div_mod_to_equations.
Local Open Scope Z_scope.

(* 16-state shift-register trellis *)
Definition NS := 16%nat.
Definition nx (s:nat) (b:bool) : nat := ((2*s + (if b then 1 else 0)) mod 16)%nat.
Definition pv (s':nat) (d:bool) : nat := (s'/2 + (if d then 8 else 0))%nat.
Definition inb (s':nat) : bool := Nat.odd s'.

Lemma nx_lt s b : (nx s b < 16)%nat. Proof. unfold nx. apply Nat.mod_upper_bound. lia. Qed.
Lemma pv_lt s d : (s < 16)%nat -> (pv s d < 16)%nat.
Proof. unfold pv. intros. destruct d; pose proof (Nat.div_mod_eq s 2); lia. Qed.
Lemma nx_pv s d : (s < 16)%nat -> nx (pv s d) (inb s) = s.
Proof. intros H. unfold nx, pv, inb.
  do 16 (destruct s as [|s]; [destruct d; reflexivity|]). lia. Qed.
Lemma pv_nx s b : (s < 16)%nat -> exists d, pv (nx s b) d = s /\ inb (nx s b) = b.
Proof. intros H. exists (Nat.leb 8 s). unfold nx, pv, inb.
  do 16 (destruct s as [|s]; [destruct b; split; reflexivity|]). lia. Qed.

Definition cost := nat -> bool -> Z.   (* branch cost from state s with input b *)

Definition relax1 (old:list Z) (c:cost) (s':nat) : Z * bool :=
  let b := inb s' in
  let a0 := nth (pv s' false) old 0 + c (pv s' false) b in
  let a1 := nth (pv s' true) old 0 + c (pv s' true) b in
  if a0 >? a1 then (a1, true) else (a0, false).
Definition relax (old:list Z) (c:cost) : list (Z*bool) := map (relax1 old c) (seq 0 16).

Fixpoint forward (m:list Z) (cs:list cost) : list Z * list (list bool) :=
  match cs with
  | [] => (m, [])
  | c::cs' => let r := relax m c in
              let '(m', h) := forward (map fst r) cs' in (m', map snd r :: h)
  end.

(* paths *)
Fixpoint run (s:nat) (bits:list bool) : nat := match bits with [] => s | b::bs => run (nx s b) bs end.
Fixpoint pcost (s:nat) (bits:list bool) (cs:list cost) : Z :=
  match bits, cs with b::bs, c::cs' => c s b + pcost (nx s b) bs cs' | _, _ => 0 end.

Lemma relax_len m c : length (relax m c) = 16%nat. Proof. unfold relax. rewrite map_length, seq_length. reflexivity. Qed.
Lemma relax_nth m c s : (s<16)%nat -> nth s (map fst (relax m c)) 0 = fst (relax1 m c s).
Proof. intros. unfold relax. rewrite map_map.
  rewrite nth_indep with (d':= fst (relax1 m c 0%nat)) by (rewrite map_length, seq_length; lia).
  rewrite (map_nth (fun x => fst (relax1 m c x)) (seq 0 16) 0%nat s). rewrite seq_nth by lia. reflexivity. Qed.

(* lower bound: every path costs at least the metric of its end state *)
Lemma relax_lb m c s b : (s<16)%nat -> nth (nx s b) (map fst (relax m c)) 0 <= nth s m 0 + c s b.
Proof. intros H. rewrite relax_nth by apply nx_lt.
  destruct (pv_nx s b H) as [d [Hd Hb]]. unfold relax1. rewrite Hb.
  set (a0 := nth (pv (nx s b) false) m 0 + c (pv (nx s b) false) b).
  set (a1 := nth (pv (nx s b) true) m 0 + c (pv (nx s b) true) b).
  assert (Hs: nth s m 0 + c s b = if d then a1 else a0) by (subst a0 a1; destruct d; rewrite Hd; reflexivity).
  rewrite Hs. destruct (Z.gtb_spec a0 a1); destruct d; cbn [fst]; lia. Qed.

Theorem forward_lb : forall cs m s bits, length bits = length cs -> (s<16)%nat ->
  nth (run s bits) (fst (forward m cs)) 0 <= nth s m 0 + pcost s bits cs.
Proof. induction cs as [|c cs IH]; intros m s bits Hl Hs.
- destruct bits; [|discriminate]. cbn. lia.
- destruct bits as [|b bs]; [discriminate|]. cbn [forward run pcost].
  destruct (forward (map fst (relax m c)) cs) as [m2 h] eqn:E. cbn [fst].
  specialize (IH (map fst (relax m c)) (nx s b) bs). rewrite E in IH. cbn [fst] in IH.
  assert (length bs = length cs) by (cbn in Hl; lia).
  specialize (IH H (nx_lt s b)). pose proof (relax_lb m c s b Hs). lia. Qed.

Fixpoint traceR (hr:list (list bool)) (s:nat) (acc:list bool) : nat * list bool :=
  match hr with
  | [] => (s, acc)
  | d::hr' => traceR hr' (pv s (nth s d false)) (inb s :: acc)
  end.

Lemma traceR_snoc a d0 : forall s acc,
  traceR (a ++ [d0]) s acc =
  let '(s1, bits) := traceR a s acc in (pv s1 (nth s1 d0 false), inb s1 :: bits).
Proof. induction a as [|d a IH]; intros s acc; cbn [app traceR].
- reflexivity.
- apply IH. Qed.

Lemma relax_att m c s : (s<16)%nat ->
  let d := nth s (map snd (relax m c)) false in
  nth s (map fst (relax m c)) 0 = nth (pv s d) m 0 + c (pv s d) (inb s).
Proof. intros H d. subst d. rewrite relax_nth by assumption.
  unfold relax. rewrite map_map.
  rewrite nth_indep with (d':= snd (relax1 m c 0%nat)) by (rewrite map_length, seq_length; lia).
  rewrite (map_nth (fun x => snd (relax1 m c x)) (seq 0 16) 0%nat s). rewrite seq_nth by lia. cbn [Nat.add].
  unfold relax1. match goal with |- context[if ?x >? ?y then _ else _] => destruct (Z.gtb_spec x y) end; cbn [fst snd]; reflexivity. Qed.

Lemma pcost_cons s b bs c cs : pcost s (b::bs) (c::cs) = c s b + pcost (nx s b) bs cs. Proof. reflexivity. Qed.
Lemma run_cons s b bs : run s (b::bs) = run (nx s b) bs. Proof. reflexivity. Qed.
Opaque relax.
Theorem forward_att : forall cs m s, (s<16)%nat ->
  forall m2 h, forward m cs = (m2, h) ->
  forall s0 bits, traceR (rev h) s [] = (s0, bits) ->
  (s0<16)%nat /\ length bits = length cs /\ run s0 bits = s /\ nth s m2 0 = nth s0 m 0 + pcost s0 bits cs.
Proof. induction cs as [|c cs IH]; intros m s Hs m2 h Hf s0 bits Ht.
- cbn in Hf. inversion Hf; subst. cbn in Ht. inversion Ht; subst. cbn [length run pcost]. repeat split; auto. lia.
- cbn [forward] in Hf. destruct (forward (map fst (relax m c)) cs) as [m3 h3] eqn:E. injection Hf as Hm2 Hh. subst m2 h.
  cbn [rev] in Ht. rewrite traceR_snoc in Ht.
  destruct (traceR (rev h3) s []) as [s1 bits1] eqn:T. injection Ht as Hs0 Hb0. subst s0 bits.
  destruct (IH _ s Hs _ _ E _ _ T) as (H1 & Hl & Hr & Hm).
  pose proof (relax_att m c s1 H1) as A. cbn zeta in A.
  set (d := nth s1 (map snd (relax m c)) false) in *. clearbody d.
  repeat split.
  + apply pv_lt; assumption.
  + cbn. lia.
  + rewrite run_cons, nx_pv by assumption. exact Hr.
  + rewrite pcost_cons, nx_pv by assumption. lia.
Qed.

(* final: argmin over end states *)
Theorem viterbi_opt cs m s_best m2 h s0 bits :
  forward m cs = (m2, h) -> (s_best < 16)%nat ->
  (forall s, (s<16)%nat -> nth s_best m2 0 <= nth s m2 0) ->
  traceR (rev h) s_best [] = (s0, bits) ->
  forall s0' bits', (s0' < 16)%nat -> length bits' = length cs ->
    nth s0 m 0 + pcost s0 bits cs <= nth s0' m 0 + pcost s0' bits' cs.
Proof. intros Hf Hb Hmin Ht s0' bits' Hs' Hl.
  destruct (forward_att cs m s_best Hb m2 h Hf s0 bits Ht) as (_ & _ & _ & Hm).
  pose proof (forward_lb cs m s0' bits' Hl Hs') as L. rewrite Hf in L. cbn [fst] in L.
  assert (run s0' bits' < 16)%nat. { clear -Hs'. revert s0' Hs'. induction bits'; intros; cbn; auto. apply IHbits'. apply nx_lt. }
  specialize (Hmin _ H). lia. Qed.
Print Assumptions viterbi_opt.
