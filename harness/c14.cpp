// C14 harness: drives the real mobilinkd::M17Modulator through its public interface with real threads
// (modulator thread inside the class, a consumer thread draining the output queue, optionally a feeder thread).
// One command per line on stdin, one result line per command on stdout.
//
//   det <src> <dst|-> <delay_us> <op> <op> ...      scripted schedule whose event order is known by construction
//        on | off | idle            ptt_on() | ptt_off() | wait_until_idle()
//        src:<call> | dst:<call|->  source(call) | dest(call) between key-ups (the modulator is idle)
//        s:<v1,v2,...>              put these samples on the audio queue (blocking put), then wait until it is empty
//        ws:<n>                     wait until int(state()) == n
//        wb:<n>                     wait until the consumer has received >= n bytes in total
//        sleep:<ms>  tmo:<sec>      sleep | set the limit for the waits above (default 10 s)
//   rand <src> <dst|-> <delay_us> <seed> <keyups> <maxsamples> <pace_us> <extra_on> [<consumer_stall_ms> [<minsamples>]]
//                                   a feeder thread puts random samples continuously; PTT is toggled at random
//                                   sample counts; the order of events is NOT observable
//   -> state=<n> threw=<0|1> fed=<n> nbytes=<n> [error=<what>] bytes=<hex>
//   c2reset                         new Codec2 (mode 3200) reference instance           -> ok
//   c2 <320 samples csv>            encode one 40 ms frame the way the application does -> c2=<16 bytes hex>
// delay_us = pause of the consumer after every byte (0 = none; 1000 is slower than the modulator produces); a trailing 'u'
// (e.g. 1000u) makes the consumer drain with get_until(now + 20 ms) instead of get(20 ms).
#include "M17Modulator.h"
#include "common.h"
#include <atomic>
#include <chrono>
#include <mutex>
#include <random>
#include <thread>

using namespace mobilinkd;
using namespace std::chrono_literals;
using clk = std::chrono::steady_clock;

static std::atomic<unsigned long> g_command{0};
static std::atomic<bool> g_printed{false};      // the current command has printed its result line

struct Rig {
    std::shared_ptr<M17Modulator::audio_queue_t> audio = std::make_shared<M17Modulator::audio_queue_t>();
    std::shared_ptr<M17Modulator::bitstream_queue_t> bits = std::make_shared<M17Modulator::bitstream_queue_t>();
    M17Modulator mod;
    std::future<void> fut;
    std::vector<uint8_t> out;
    std::mutex out_m;
    std::atomic<long> nrecv{0};
    std::atomic<bool> stop_consumer{false};
    std::thread consumer;
    std::string error;
    double limit_s = 10.0;

    Rig(const std::string& src, const std::string& dst, int delay_us, int stall_ms = 0, bool until = false) : mod(src, dst)
    {
        fut = mod.run(audio, bits);
        consumer = std::thread([this, delay_us, stall_ms, until] {
            // optional initial stall: the consumer starts draining only stall_ms after the first byte was queued
            if (stall_ms > 0) { while (bits->empty() && !stop_consumer) std::this_thread::sleep_for(1ms);
                                std::this_thread::sleep_for(std::chrono::milliseconds(stall_ms)); }
            while (true) {
                uint8_t b;
                // the consumer drains with get(timeout) or, when asked, with get_until(deadline): both are the queue's public interface
                if (until ? bits->get_until(b, clk::now() + 20ms) : bits->get(b, 20ms)) {
                    { std::lock_guard<std::mutex> g(out_m); out.push_back(b); }
                    ++nrecv;
                    if (delay_us > 0) std::this_thread::sleep_for(std::chrono::microseconds(delay_us));
                } else if (stop_consumer) break;
            }
        });
    }
    template <typename F> bool wait(F cond, const char* what, double extra_s = 0)
    {
        auto end = clk::now() + std::chrono::duration_cast<clk::duration>(std::chrono::duration<double>(limit_s + extra_s));
        while (!cond()) {
            if (clk::now() > end) { if (error.empty()) error = what; return false; }
            std::this_thread::sleep_for(50us);
        }
        return true;
    }
    void finish(long fed)
    {
        // let the consumer drain what has been put, then stop everything
        wait([&] { return bits->empty(); }, "drain");
        std::this_thread::sleep_for(30ms);
        int st = int(mod.state());
        audio->close();
        bool threw = false;
        if (fut.wait_for(20s) == std::future_status::ready) { try { fut.get(); } catch (...) { threw = true; } }
        else if (error.empty()) error = "modulator-thread-did-not-stop";
        stop_consumer = true;
        consumer.join();
        std::lock_guard<std::mutex> g(out_m);
        std::printf("state=%d threw=%d fed=%ld nbytes=%zu%s%s bytes=%s\n", st, threw ? 1 : 0, fed, out.size(),
                    error.empty() ? "" : " error=", error.c_str(), vh::to_hex(out).c_str());
        std::fflush(stdout);
        g_printed = true;
        if (error == "modulator-thread-did-not-stop") std::_Exit(3);
    }
};

static std::vector<int> csv_ints(const std::string& s)
{
    std::vector<int> v;
    size_t i = 0;
    while (i < s.size()) {
        size_t j = s.find(',', i);
        if (j == std::string::npos) j = s.size();
        if (j > i) v.push_back(std::atoi(s.substr(i, j - i).c_str()));
        i = j + 1;
    }
    return v;
}

static void run_det(const std::vector<std::string>& t)
{
    std::string src = t[1], dst = t[2] == "-" ? "" : t[2];
    Rig rig(src, dst, std::atoi(t[3].c_str()), 0, !t[3].empty() && t[3].back() == 'u');
    long fed = 0;
    for (size_t k = 4; k < t.size() && rig.error.empty(); ++k) {
        const std::string& op = t[k];
        if (op == "on") rig.mod.ptt_on();
        else if (op == "off") rig.mod.ptt_off();
        else if (op == "idle") rig.mod.wait_until_idle();
        else if (op.rfind("src:", 0) == 0) rig.mod.source(op.substr(4));
        else if (op.rfind("dst:", 0) == 0) rig.mod.dest(op.substr(4) == "-" ? std::string() : op.substr(4));
        else if (op.rfind("s:", 0) == 0) {
            for (int v : csv_ints(op.substr(2))) { rig.audio->put(int16_t(v)); ++fed; }
            rig.wait([&] { return rig.audio->empty(); }, "audio-not-consumed");
        } else if (op.rfind("ws:", 0) == 0) {
            int want = std::atoi(op.c_str() + 3);
            rig.wait([&] { return int(rig.mod.state()) == want; }, "state-not-reached");
        } else if (op.rfind("wb:", 0) == 0) {
            long want = std::atol(op.c_str() + 3);
            rig.wait([&] { return rig.nrecv >= want; }, "bytes-not-received", want * 0.002);
        } else if (op.rfind("sleep:", 0) == 0) std::this_thread::sleep_for(std::chrono::milliseconds(std::atoi(op.c_str() + 6)));
        else if (op.rfind("tmo:", 0) == 0) rig.limit_s = std::atof(op.c_str() + 4);
    }
    rig.finish(fed);
}

static void run_rand(const std::vector<std::string>& t)
{
    std::string src = t[1], dst = t[2] == "-" ? "" : t[2];
    int delay_us = std::atoi(t[3].c_str());
    unsigned seed = unsigned(std::atol(t[4].c_str()));
    int keyups = std::atoi(t[5].c_str());
    long maxsamples = std::atol(t[6].c_str());
    int pace_us = std::atoi(t[7].c_str());
    bool extra_on = t[8] != "0";
    int stall_ms = t.size() > 9 ? std::atoi(t[9].c_str()) : 0;
    long minsamples = t.size() > 10 ? std::atol(t[10].c_str()) : 0;     // key-ups last at least this many samples
    if (minsamples > maxsamples) minsamples = maxsamples;
    Rig rig(src, dst, delay_us, stall_ms, !t[3].empty() && t[3].back() == 'u');
    rig.limit_s = minsamples > 1000000 ? 900.0 : 60.0 + stall_ms / 1000.0;
    std::atomic<long> fed{0};
    std::atomic<bool> stop_feeder{false};
    std::thread feeder([&] {
        std::mt19937 rng(seed);
        while (!stop_feeder) {
            int16_t s = int16_t(int(rng() % 40001) - 20000);
            if (rig.audio->put(s, 20ms)) {
                long n = ++fed;
                if (pace_us > 0 && n % 160 == 0) std::this_thread::sleep_for(std::chrono::microseconds(pace_us));
            }
        }
    });
    std::mt19937 r2(seed ^ 0x9e3779b9u);
    for (int k = 0; k != keyups && rig.error.empty(); ++k) {
        long start = fed, idle_n = long(r2() % 500);
        rig.wait([&] { return fed - start >= idle_n; }, "feeder-stalled");
        rig.mod.ptt_on();
        if (extra_on && (r2() & 1)) {
            // a second ptt_on() is only legal (returns at once) once the modulator is ACTIVE
            if (rig.wait([&] { return rig.mod.state() == M17Modulator::State::ACTIVE; }, "never-active")) rig.mod.ptt_on();
        }
        start = fed;
        long n = minsamples + long(r2() % (maxsamples - minsamples + 1));
        rig.wait([&] { return fed - start >= n; }, "feeder-stalled");
        rig.mod.ptt_off();
        if (r2() & 1) rig.mod.wait_until_idle();   // otherwise the next ptt_on() does the waiting
    }
    rig.mod.wait_until_idle();
    stop_feeder = true;
    feeder.join();
    rig.finish(fed);
}

// a schedule whose modulator is stuck (blocked in put() for ever, never idle) must end the command, not hang the check
static void arm_watchdog(double seconds)
{
    unsigned long mine = ++g_command;
    g_printed = false;
    std::thread([mine, seconds] {
        auto end = clk::now() + std::chrono::duration_cast<clk::duration>(std::chrono::duration<double>(seconds));
        while (clk::now() < end) { if (g_command != mine) return; std::this_thread::sleep_for(100ms); }
        if (g_command != mine) return;
        if (!g_printed) std::printf("state=-1 threw=0 fed=0 nbytes=0 error=watchdog-schedule-did-not-finish bytes=-\n");
        std::fflush(stdout);
        std::_Exit(3);
    }).detach();
}

int main()
{
    struct CODEC2* c2 = nullptr;
    std::string line;
    while (std::getline(std::cin, line)) {
        auto t = vh::split(line);
        if (t.empty()) continue;
        // generous: scripted schedules finish in seconds; the thorough tier's 32772-frame key-up and 6 s stall get their own limits
        double limit = 150.0;
        if (t[0] == "rand" && t.size() > 10 && std::atol(t[10].c_str()) > 1000000) limit = 1500.0;
        if (t[0] == "rand" && t.size() > 9) limit += std::atoi(t[9].c_str()) / 1000.0;
        arm_watchdog(limit);
        if (t[0] == "det" && t.size() >= 4) run_det(t);
        else if (t[0] == "rand" && t.size() >= 9) run_rand(t);
        else if (t[0] == "c2reset") {
            if (c2) ::codec2_destroy(c2);
            c2 = ::codec2_create(CODEC2_MODE_3200);
            std::printf("ok\n");
        } else if (t[0] == "c2" && t.size() >= 2 && c2) {
            auto v = csv_ints(t[1]);
            std::array<int16_t, 320> audio{};
            for (size_t i = 0; i != audio.size() && i != v.size(); ++i) audio[i] = int16_t(v[i]);
            std::array<uint8_t, 16> res{};
            ::codec2_encode(c2, &res[0], &audio[0]);
            ::codec2_encode(c2, &res[8], &audio[160]);
            std::printf("c2=%s\n", vh::to_hex(res).c_str());
        } else std::printf("?\n");
        std::fflush(stdout);
    }
    return 0;
}
