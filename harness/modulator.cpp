// Drives the real mobilinkd::M17Modulator through its public interface with real threads.
// usage: modulator <src> <dst|-> <keyups> <frames_per_keyup> <consumer_delay_us> <seed>
// prints one line per key-up:  keyup=<k> bytes=<hex of every byte read from the output queue>
// and a final line:            final state=<n> dropped=<0|1>
#include "M17Modulator.h"
#include "common.h"
#include <atomic>
#include <chrono>
#include <random>
#include <thread>

using namespace mobilinkd;
using namespace std::chrono_literals;

int main(int argc, char** argv)
{
    if (argc < 7) return 2;
    std::string src = argv[1], dst = argv[2];
    if (dst == "-") dst = "";
    int keyups = std::atoi(argv[3]), frames = std::atoi(argv[4]), delay_us = std::atoi(argv[5]);
    unsigned seed = unsigned(std::atol(argv[6]));

    auto audio = std::make_shared<M17Modulator::audio_queue_t>();
    auto bits = std::make_shared<M17Modulator::bitstream_queue_t>();
    M17Modulator mod(src, dst);
    auto fut = mod.run(audio, bits);

    std::vector<uint8_t> out;
    std::mutex out_m;
    std::atomic<bool> stop_consumer{false}, feeding{false}, stop_feeder{false};
    std::atomic<long> fed{0};
    std::thread consumer([&] {
        while (true) {
            uint8_t b;
            if (bits->get(b, 20ms)) {
                { std::lock_guard<std::mutex> g(out_m); out.push_back(b); }
                if (delay_us > 0) std::this_thread::sleep_for(std::chrono::microseconds(delay_us));
            } else if (stop_consumer) break;
        }
    });
    std::thread feeder([&] {
        std::mt19937 rng(seed);
        while (!stop_feeder) {
            if (feeding) { int16_t s = int16_t(int(rng() % 20001) - 10000); if (audio->put(s, 50ms)) ++fed; }
            else std::this_thread::sleep_for(200us);
        }
    });
    for (int k = 0; k != keyups; ++k) {
        { std::lock_guard<std::mutex> g(out_m); out.clear(); }
        long start = fed;
        mod.ptt_on();
        feeding = true;
        // PREAMBLE and LINK_SETUP each consume one sample; then frames*320 samples make `frames` full frames
        while (fed - start < 2 + long(frames) * 320 + 7) std::this_thread::sleep_for(100us);
        mod.ptt_off();
        mod.wait_until_idle();
        feeding = false;
        // let the consumer drain
        for (int i = 0; i != 200 && !bits->empty(); ++i) std::this_thread::sleep_for(5ms);
        std::this_thread::sleep_for(60ms);
        std::lock_guard<std::mutex> g(out_m);
        std::printf("keyup=%d bytes=%s\n", k, vh::to_hex(out).c_str());
    }
    stop_feeder = true; feeder.join();
    int st = int(mod.state());
    audio->close();
    bool threw = false;
    try { fut.get(); } catch (...) { threw = true; }
    stop_consumer = true; consumer.join();
    std::printf("final state=%d threw=%d\n", st, threw ? 1 : 0);
    return 0;
}
