// C17 harness: drives LinkSetupFrame::encode_callsign / decode_callsign through their public signatures.
//   enc <strict 0|1> <10 chars hex>     -> ok <6 bytes hex> | exc
//   dec <6 bytes hex>                   -> <10 chars hex>
//   rt  <1..10 chars hex>               -> <6 bytes hex> <10 chars hex>      (array zero-filled, string copied, encode, decode)
//   rtx <prefix hex|-> <alphabet hex>   -> for every c of the alphabet: rt(prefix + c), joined by ','
#include "LinkSetupFrame.h"
#include "common.h"
#include <algorithm>

using LSF = mobilinkd::LinkSetupFrame;

static LSF::call_t to_call(const std::vector<uint8_t>& s)
{
    LSF::call_t c;
    c.fill(0);
    std::copy(s.begin(), s.begin() + std::min(s.size(), c.size()), c.begin());
    return c;
}

static std::string rt(const std::vector<uint8_t>& s)
{
    auto e = LSF::encode_callsign(to_call(s));
    auto d = LSF::decode_callsign(e);
    return vh::to_hex(e) + " " + vh::to_hex(d);
}

int main()
{
    std::string line;
    while (std::getline(std::cin, line)) {
        auto t = vh::split(line);
        if (t.size() == 3 && t[0] == "enc") {
            auto s = vh::from_hex(t[2]);
            try {
                auto e = LSF::encode_callsign(to_call(s), t[1] == "1");
                std::printf("ok %s\n", vh::to_hex(e).c_str());
            } catch (const std::invalid_argument&) {
                std::printf("exc\n");
            }
        } else if (t.size() == 2 && t[0] == "dec") {
            auto a = vh::from_hex(t[1]);
            LSF::encoded_call_t e{};
            std::copy(a.begin(), a.begin() + std::min(a.size(), e.size()), e.begin());
            auto d = LSF::decode_callsign(e);
            std::printf("%s\n", vh::to_hex(d).c_str());
        } else if (t.size() == 2 && t[0] == "rt") {
            std::printf("%s\n", rt(vh::from_hex(t[1])).c_str());
        } else if (t.size() == 3 && t[0] == "rtx") {
            auto p = vh::from_hex(t[1]);
            auto al = vh::from_hex(t[2]);
            std::string out;
            for (auto c : al) {
                auto s = p; s.push_back(c);
                if (!out.empty()) out += ",";
                out += rt(s);
            }
            std::printf("%s\n", out.c_str());
        } else std::printf("?\n");
    }
    return 0;
}
