// C10 harness: drives mobilinkd::PolynomialInterleaver, M17Randomizer, M17ByteRandomizer through their public
// member functions only.  The interleaver is instantiated at the template arguments of every site the translator
// found in the repository (-DC10_SITES="X(0,45,92,368) X(1,45,92,368) ..."; 0 = header defaults, 1 = decoder, ...),
// the decoder's own members are additionally reached through decltype.
#include "M17FrameDecoder.h"
#include "PolynomialInterleaver.h"
#include "M17Randomizer.h"
#include "common.h"
#include <array>
#include <cstring>

bool display_lsf = false;

#ifndef C10_SITES
#define C10_SITES X(0,45,92,368) X(1,45,92,368)
#endif

using decoder_interleaver_t = decltype(mobilinkd::M17FrameDecoder::interleaver_);
using decoder_randomizer_t = decltype(mobilinkd::M17FrameDecoder::derandomize_);

template <typename T, size_t N> static bool load(std::array<T, N>& a, const std::vector<uint8_t>& v)
{
    if (v.size() != N) return false;
    for (size_t i = 0; i != N; ++i) a[i] = T(v[i]);
    return true;
}

// variant: i8 (interleave buffer_t), di8, b (interleave bytes_t), db
template <size_t F1, size_t F2, size_t K>
static std::string run_il(const std::string& variant, const std::vector<uint8_t>& data)
{
    using IL = mobilinkd::PolynomialInterleaver<F1, F2, K>;
    static IL il;   // one object per site, reused: its scratch buffer_ keeps the previous call's content
    if (variant == "i8" || variant == "di8") {
        typename IL::buffer_t a;
        if (!load(a, data)) return "size";
        if (variant == "i8") il.interleave(a); else il.deinterleave(a);
        return vh::to_hex(a);
    }
    if constexpr (K % 8 == 0) {
        typename IL::bytes_t a;
        if (!load(a, data)) return "size";
        if (variant == "b") il.interleave(a); else if (variant == "db") il.deinterleave(a); else return "?";
        return vh::to_hex(a);
    }
    return "n/a";
}

// round trips and cross-variant compositions at one site, against the decoder's own interleaver
template <size_t F1, size_t F2, size_t K>
static std::string run_rt(const std::string& variant, const std::vector<uint8_t>& data)
{
    using IL = mobilinkd::PolynomialInterleaver<F1, F2, K>;
    static IL il;
    std::string out;
    if (variant == "i8") {
        typename IL::buffer_t a, b;
        if (!load(a, data)) return "size";
        b = a;
        il.interleave(a); il.deinterleave(a);          // D(I(x))
        il.deinterleave(b); il.interleave(b);          // I(D(x))
        out = vh::to_hex(a) + " " + vh::to_hex(b);
        if constexpr (K == 368) {                      // transmitted by this site, received by the decoder's member type
            typename IL::buffer_t c; load(c, data);
            il.interleave(c);
            decoder_interleaver_t dil; typename decoder_interleaver_t::buffer_t r;
            std::copy(c.begin(), c.end(), r.begin());
            dil.deinterleave(r);
            out += " " + vh::to_hex(r);
        } else out += " n/a";
        return out;
    }
    if constexpr (K % 8 == 0) {
        if (variant == "b") {
            typename IL::bytes_t a, b;
            if (!load(a, data)) return "size";
            b = a;
            il.interleave(a); il.deinterleave(a);
            il.deinterleave(b); il.interleave(b);
            out = vh::to_hex(a) + " " + vh::to_hex(b);
            if constexpr (K == 368) {                  // packed variant on transmit, soft variant of the decoder on receive
                typename IL::bytes_t c; load(c, data);
                il.interleave(c);
                decoder_interleaver_t dil; typename decoder_interleaver_t::buffer_t r;
                for (size_t i = 0; i != 368; ++i) r[i] = mobilinkd::get_bit_index(c, i) ? 1 : -1;
                dil.deinterleave(r);
                std::array<uint8_t, 46> packed; packed.fill(0);
                for (size_t i = 0; i != 368; ++i) mobilinkd::assign_bit_index(packed, i, r[i] > 0);
                out += " " + vh::to_hex(packed);
            } else out += " n/a";
            return out;
        }
    }
    return "n/a";
}

static std::string dispatch_il(bool rt, int site, const std::string& variant, const std::vector<uint8_t>& data)
{
#define X(k, f1, f2, kk) if (site == k) return rt ? run_rt<f1, f2, kk>(variant, data) : run_il<f1, f2, kk>(variant, data);
    C10_SITES
#undef X
    return "nosite";
}

int main()
{
    std::string line;
    static decoder_randomizer_t soft;                 // M17Randomizer<368> exactly as the decoder declares it
    static mobilinkd::M17Randomizer<368> txr;         // as m17-mod.cpp declares it
    static mobilinkd::M17ByteRandomizer<46> byter;    // as M17Modulator declares it
    while (std::getline(std::cin, line)) {
        auto t = vh::split(line);
        if (t.size() == 1 && t[0] == "sites") {
            std::string s;
#define X(k, f1, f2, kk) s += (s.empty() ? "" : " ") + std::to_string(f1) + "," + std::to_string(f2) + "," + std::to_string(kk);
            C10_SITES
#undef X
            std::printf("%s\n", s.c_str());
        } else if (t.size() == 4 && (t[0] == "il" || t[0] == "rt")) {
            std::printf("%s\n", dispatch_il(t[0] == "rt", std::stoi(t[1]), t[2], vh::from_hex(t[3])).c_str());
        } else if (t.size() == 3 && t[0] == "rnd") {
            auto v = vh::from_hex(t[2]);
            if (t[1] == "soft") { std::array<int8_t, 368> a; if (!load(a, v)) { std::printf("size\n"); continue; } soft(a); std::printf("%s\n", vh::to_hex(a).c_str()); }
            else if (t[1] == "bits" || t[1] == "nbits") { std::array<int8_t, 368> a; if (!load(a, v)) { std::printf("size\n"); continue; } txr.randomize(a); std::printf("%s\n", vh::to_hex(a).c_str()); }
            else if (t[1] == "bytes") { std::array<uint8_t, 46> a; if (!load(a, v)) { std::printf("size\n"); continue; } byter(a); std::printf("%s\n", vh::to_hex(a).c_str()); }
            else std::printf("?\n");
        } else if (t.size() == 3 && t[0] == "rnd2") {   // applied twice
            auto v = vh::from_hex(t[2]);
            if (t[1] == "soft") { std::array<int8_t, 368> a; load(a, v); soft(a); soft(a); std::printf("%s\n", vh::to_hex(a).c_str()); }
            else if (t[1] == "bits") { std::array<int8_t, 368> a; load(a, v); txr.randomize(a); txr.randomize(a); std::printf("%s\n", vh::to_hex(a).c_str()); }
            else if (t[1] == "bytes") { std::array<uint8_t, 46> a; load(a, v); byter(a); byter(a); std::printf("%s\n", vh::to_hex(a).c_str()); }
            else std::printf("?\n");
        } else if (t.size() == 4 && t[0] == "rndx") {   // transmit variant (bits|bytes) at amplitude amp, receive with the soft variant
            int amp = std::stoi(t[2]);
            auto v = vh::from_hex(t[3]);
            std::array<uint8_t, 46> in; if (!load(in, v)) { std::printf("size\n"); continue; }
            std::array<int8_t, 368> rx;
            if (t[1] == "bits") {
                std::array<int8_t, 368> bits;
                for (size_t i = 0; i != 368; ++i) bits[i] = mobilinkd::get_bit_index(in, i);
                txr.randomize(bits);
                for (size_t i = 0; i != 368; ++i) rx[i] = int8_t(bits[i] ? amp : -amp);
            } else {
                auto b = in; byter(b);
                for (size_t i = 0; i != 368; ++i) rx[i] = int8_t(mobilinkd::get_bit_index(b, i) ? amp : -amp);
            }
            soft(rx);
            std::array<uint8_t, 46> out; out.fill(0);
            for (size_t i = 0; i != 368; ++i) mobilinkd::assign_bit_index(out, i, rx[i] > 0);
            std::printf("%s\n", vh::to_hex(out).c_str());
        } else if (t.size() == 1 && t[0] == "dc") {
            std::printf("%s\n", vh::to_hex(soft.dc_).c_str());
        } else std::printf("?\n");
    }
    return 0;
}
