// Drives the real mobilinkd::M17FrameDecoder through its public interface.
// Protocol (one command per line on stdin, one result line per command on stdout):
//   new                          -> "ok"            fresh decoder
//   frame <L|S|P|B> <hex736> <r> -> res=<R> cost=<c> state=<S> cbs=<n>[ <type>:<bytes>:<cost>]...
//        hex736 = 368 int8 soft bits as two hex digits each; r = value the callback returns (0/1)
//   peek                         -> seg=<lich_segments hex> lsf=<30 bytes hex>   (internal members, information only)
#include "M17FrameDecoder.h"
#include "common.h"
#include <memory>

bool display_lsf = false;
using namespace mobilinkd;
using FD = M17FrameDecoder;

static const char* res_name(FD::DecodeResult r)
{
    switch (r) {
    case FD::DecodeResult::FAIL: return "FAIL";
    case FD::DecodeResult::OK: return "OK";
    case FD::DecodeResult::EOS: return "EOS";
    case FD::DecodeResult::INCOMPLETE: return "INCOMPLETE";
    case FD::DecodeResult::PACKET_INCOMPLETE: return "PACKET_INCOMPLETE";
    }
    return "?";
}
static const char* state_name(FD::State s)
{
    switch (s) {
    case FD::State::LSF: return "LSF";
    case FD::State::STREAM: return "STREAM";
    case FD::State::BASIC_PACKET: return "BASIC_PACKET";
    case FD::State::FULL_PACKET: return "FULL_PACKET";
    case FD::State::BERT: return "BERT";
    }
    return "?";
}

int main()
{
    std::string cbs;
    int ncb = 0;
    bool cbret = true;
    auto cb = [&](const FD::output_buffer_t& b, int cost) -> bool {
        ++ncb;
        std::string t, bytes;
        switch (b.type) {
        case FD::FrameType::LSF: t = "LSF"; bytes = vh::to_hex(b.lsf); break;
        case FD::FrameType::LICH: t = "LICH"; bytes = vh::to_hex(b.lich); break;
        case FD::FrameType::STREAM: t = "STREAM"; bytes = vh::to_hex(b.stream); break;
        case FD::FrameType::BASIC_PACKET: t = "BASIC_PACKET"; bytes = vh::to_hex(b.packet); break;
        case FD::FrameType::FULL_PACKET: t = "FULL_PACKET"; bytes = vh::to_hex(b.packet); break;
        case FD::FrameType::BERT: t = "BERT"; bytes = vh::to_hex(b.bert); break;
        }
        cbs += " " + t + ":" + bytes + ":" + std::to_string(cost);
        return cbret;
    };
    auto dec = std::make_unique<FD>(cb);
    std::string line;
    while (std::getline(std::cin, line)) {
        auto t = vh::split(line);
        if (t.empty()) continue;
        if (t[0] == "new") {
            dec = std::make_unique<FD>(cb);
            std::printf("ok\n");
        } else if (t[0] == "frame" && t.size() >= 4) {
            FD::SyncWordType sw = FD::SyncWordType::LSF;
            switch (t[1][0]) { case 'L': sw = FD::SyncWordType::LSF; break; case 'S': sw = FD::SyncWordType::STREAM; break;
                               case 'P': sw = FD::SyncWordType::PACKET; break; case 'B': sw = FD::SyncWordType::BERT; break; }
            auto raw = vh::from_hex(t[2]);
            FD::input_buffer_t buf{};
            for (size_t i = 0; i != buf.size() && i != raw.size(); ++i) buf[i] = int8_t(raw[i]);
            cbret = t[3] != "0";
            cbs.clear(); ncb = 0;
            size_t cost = 0;
            auto r = (*dec)(sw, buf, cost);
            std::printf("res=%s cost=%ld state=%s cbs=%d%s\n", res_name(r), long(cost), state_name(dec->state()), ncb, cbs.c_str());
        } else if (t[0] == "peek") {
            std::printf("seg=%02x lsf=%s\n", dec->lich_segments, vh::to_hex(dec->output_buffer.lsf).c_str());
        } else std::printf("?\n");
        std::fflush(stdout);
    }
    return 0;
}
