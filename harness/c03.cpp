// End-to-end rig for C03/C06: an independent channel simulator in front of the REAL mobilinkd::M17Demodulator<float>.
//
//   c03_harness run <casefile>      one case = one process (operator()'s and do_stream_sync's function-local statics are process-wide)
//   c03_harness render <casefile>   write the rendered samples (raw float32) instead of demodulating: used to calibrate the channel
//   c03_harness dcd                 DataCarrierDetect::update() differential: one case per line on stdin
//
// Case file (one directive per line):
//   seed <u64>                      seed of the noise generator (derived from VERIF_SEED by the caller)
//   trace <0|1>                     print one "S" line per sample (discrete public members + observations) and one "D" line per dcd.update()
//   seg zeros <n>
//   seg const <n> <value>
//   seg noise <n> <sigma> <g|u>     Gaussian (sigma) or uniform in [-sigma*sqrt(3), sigma*sqrt(3)] (same power)
//   seg tone <n> <freq_hz> <amplitude>
//   seg file <path>                 int16 LE baseband file (m17-mod output), each sample / 41067.0 as m17-demod does (calibration only)
//   seg tx <main:0|1> <tau> <ppm> <gain> <dc> <sigma> <maxsamples|-1> <symbols>
//        symbols: one character per symbol, A=+3 B=+1 C=-1 D=-3.  The segment is the baseband
//        x[n] = gain*A0 * sum_k a_k p(t_n - k*T - D) + dc + sigma*N(0,1),  t_n = n*(1+ppm*1e-6) + tau   (n = 0,1,... receiver samples)
//        with p the CLOSED-FORM root-raised-cosine pulse (alpha = 0.5, T = 10 samples, unit energy, truncated at +-8 T, D = 8 T)
//        and A0 = 7168*sqrt(10)/41067: the scale at which `m17-mod | m17-demod` presents a transmission to the demodulator
//        (m17-mod: impulse train through taps = sqrt(10) * unit-energy RRC, times 7168, to int16; m17-demod: sample / 41067.0).
//
// Output (stdout): "M <n>" first sample index of each main tx segment; "F <n> <type> <hex> <cost> <idev> <offset>" for every frame callback;
// "L <n> <0|1>" when locked() changes; "Q <n> <state>" when demodState changes; "Z <dcd.level_> <isfinite> <dcd.triggered_>" and "E <n>" at the end; with trace also "I"/"S"/"D" lines.
#include "M17Demodulator.h"
#include "common.h"

#include <cmath>
#include <cinttypes>
#include <cstring>
#include <fstream>
#include <memory>

bool display_lsf = false;
using namespace mobilinkd;
using Demod = M17Demodulator<float>;
using FD = M17FrameDecoder;

namespace {

struct Rng {   // xoshiro256** seeded by splitmix64: the harness's own generator
    uint64_t s[4];
    static uint64_t sm(uint64_t& x) { uint64_t z = (x += 0x9E3779B97F4A7C15ull); z = (z ^ (z >> 30)) * 0xBF58476D1CE4E5B9ull; z = (z ^ (z >> 27)) * 0x94D049BB133111EBull; return z ^ (z >> 31); }
    explicit Rng(uint64_t seed) { for (auto& v : s) v = sm(seed); }
    static uint64_t rotl(uint64_t x, int k) { return (x << k) | (x >> (64 - k)); }
    uint64_t next() { uint64_t r = rotl(s[1] * 5, 7) * 9, t = s[1] << 17; s[2] ^= s[0]; s[3] ^= s[1]; s[1] ^= s[2]; s[0] ^= s[3]; s[2] ^= t; s[3] = rotl(s[3], 45); return r; }
    double uni() { return (next() >> 11) * (1.0 / 9007199254740992.0); }          // [0,1)
    bool have = false; double spare = 0;
    double gauss() {
        if (have) { have = false; return spare; }
        double u1 = 1.0 - uni(), u2 = uni();
        double r = std::sqrt(-2.0 * std::log(u1)), a = 2.0 * M_PI * u2;
        spare = r * std::sin(a); have = true;
        return r * std::cos(a);
    }
};

constexpr double T = 10.0;        // samples per symbol
constexpr double ALPHA = 0.5;
constexpr double SPAN = 8.0 * T;  // truncation of the pulse, also its delay
const double A0 = 7168.0 * std::sqrt(10.0) / 41067.0;

// unit-energy root-raised-cosine pulse, closed form
double rrc(double t)
{
    const double a = ALPHA;
    if (std::fabs(t) >= SPAN) return 0.0;
    if (std::fabs(t) < 1e-9) return (1.0 / std::sqrt(T)) * (1.0 + a * (4.0 / M_PI - 1.0));
    if (std::fabs(std::fabs(t) - T / (4.0 * a)) < 1e-9)
        return (a / std::sqrt(2.0 * T)) * ((1.0 + 2.0 / M_PI) * std::sin(M_PI / (4.0 * a)) + (1.0 - 2.0 / M_PI) * std::cos(M_PI / (4.0 * a)));
    const double x = t / T;
    return (1.0 / std::sqrt(T)) * (std::sin(M_PI * x * (1.0 - a)) + 4.0 * a * x * std::cos(M_PI * x * (1.0 + a))) / (M_PI * x * (1.0 - 16.0 * a * a * x * x));
}

const char* type_name(FD::FrameType t)
{
    switch (t) {
    case FD::FrameType::LSF: return "LSF"; case FD::FrameType::LICH: return "LICH"; case FD::FrameType::STREAM: return "STREAM";
    case FD::FrameType::BASIC_PACKET: return "BASIC_PACKET"; case FD::FrameType::FULL_PACKET: return "FULL_PACKET"; case FD::FrameType::BERT: return "BERT";
    }
    return "?";
}

struct Runner {
    std::unique_ptr<Demod> d;
    bool trace = false;
    long n = 0;          // index of the sample being processed
    int cbs = 0;         // callbacks during the current sample
    bool last_dcd = false;
    int last_state = 0;
    std::string outbuf;

    void emit(const char* s) { outbuf += s; if (outbuf.size() > (1u << 20)) flush(); }
    void flush() { fwrite(outbuf.data(), 1, outbuf.size(), stdout); outbuf.clear(); }

    Runner()
    {
        d = std::make_unique<Demod>([this](const FD::output_buffer_t& b, int cost) -> bool {
            ++cbs;
            std::string bytes;
            switch (b.type) {
            case FD::FrameType::LSF: bytes = vh::to_hex(b.lsf); break;
            case FD::FrameType::LICH: bytes = vh::to_hex(b.lich); break;
            case FD::FrameType::STREAM: bytes = vh::to_hex(b.stream); break;
            case FD::FrameType::BASIC_PACKET: case FD::FrameType::FULL_PACKET: bytes = vh::to_hex(b.packet); break;
            case FD::FrameType::BERT: bytes = vh::to_hex(b.bert); break;
            }
            char buf[64];
            snprintf(buf, sizeof buf, "F %ld %s ", n, type_name(b.type));
            emit(buf); emit(bytes.c_str());
            // the deviation/offset estimates in force for this frame (public member `dev`): lets the oracle tell a mis-converged
            // estimator from a control-logic or decoding failure
            snprintf(buf, sizeof buf, " %d %.6g %.6g\n", cost, double(d->dev.idev()), double(d->dev.offset()));
            emit(buf);
            return true;
        });
    }

    void state_fields(char* p, size_t len)
    {
        auto& m = *d;
        snprintf(p, len, "%d %d %u %d %d %d %d %d %u %zu %zu %zu %zu %zu %d %zu %d %d",
                 int(m.demodState), int(m.sync_word_type), unsigned(m.sample_index), int(m.dcd_), int(m.need_clock_reset_), int(m.need_clock_update_),
                 m.sync_count, m.missing_sync_count, unsigned(m.sync_sample_index), m.count_, m.correlator.buffer_pos_, m.correlator.prev_buffer_pos_,
                 m.framer.index_, m.viterbi_cost, int(m.clock_recovery.sample_index_), m.clock_recovery.count_, int(m.dcd.triggered_), int(m.decoder.state()));
    }

    void start()
    {
        if (trace) { char b[256]; state_fields(b, sizeof b); emit("I "); emit(b); emit("\n"); }
        last_dcd = d->locked(); last_state = int(d->demodState);
    }

    bool render = false;   // "render" mode: write the samples as raw float32 instead of demodulating (calibration of the channel)
    void feed(float x)
    {
        if (render) { outbuf.append(reinterpret_cast<const char*>(&x), sizeof x); if (outbuf.size() > (1u << 20)) flush(); ++n; return; }
        auto& m = *d;
        cbs = 0;
        if (!trace) {
            m(x);
        } else {
            // copies taken BEFORE the call: the sync-word objects (their operator() is stateful) and the carrier detector
            auto pre0 = m.preamble_sync; auto lsf0 = m.lsf_sync; auto pkt0 = m.packet_sync;
            auto dcd0 = m.dcd;
            float level_before = m.dcd.level_; bool trig_before = m.dcd.triggered_;
            m(x);
            // the float-valued predicates, re-evaluated on the copies against the correlator as the call left it
            int preI = int(pre0(m.correlator)); int preU = pre0.updated();
            int lsfI = int(lsf0(m.correlator)); int lsfU = lsf0.updated();
            int pktI = int(pkt0(m.correlator)); int pktU = pkt0.updated();
            float pt = m.preamble_sync.triggered(m.correlator);
            float lt = m.lsf_sync.triggered(m.correlator);
            float bt = m.packet_sync.triggered(m.correlator);
            float et = m.eot_sync.triggered(m.correlator);
            int preT = pt > 0.1; int lsfT = (std::abs(lt) > 0.1) ? (lt > 0 ? 1 : -1) : 0; int bertN = bt < 0;
            int eotT = et > Demod::EOT_TRIGGER_LEVEL;
            int hi = m.dcd.level_ > m.dcd.htrigger_, lo = m.dcd.level_ > m.dcd.ltrigger_;
            char b[256], line[512];
            state_fields(b, sizeof b);
            snprintf(line, sizeof line, "S %s %d %d %d %d %d %d %d %d %d %d %d %d %d\n", b, preI, preU, lsfI, lsfU, pktI, pktU, preT, lsfT, bertN, eotT, hi, lo, cbs);
            emit(line);
            if (m.count_ == 0 && n >= 1920) {   // a polling point: dcd.update() ran during this call
                dcd0(x);
                snprintf(line, sizeof line, "D %a %a %a %d %a %d\n", double(level_before), double(dcd0.level_1), double(dcd0.level_2), int(trig_before),
                         double(m.dcd.level_), int(m.dcd.triggered_));
                emit(line);
            }
        }
        if (m.locked() != last_dcd) { last_dcd = m.locked(); char b[64]; snprintf(b, sizeof b, "L %ld %d\n", n, int(last_dcd)); emit(b); }
        if (int(m.demodState) != last_state) { last_state = int(m.demodState); char b[64]; snprintf(b, sizeof b, "Q %ld %d\n", n, last_state); emit(b); }
        ++n;
    }
};

int run_case(const char* path, bool render)
{
    std::ifstream in(path);
    if (!in) { fprintf(stderr, "cannot open %s\n", path); return 2; }
    Runner r;
    r.render = render;
    uint64_t seed = 1;
    std::unique_ptr<Rng> rng;
    bool started = false;
    std::string line;
    auto ensure = [&]() { if (!started) { rng = std::make_unique<Rng>(seed); r.start(); started = true; } };
    while (std::getline(in, line)) {
        auto t = vh::split(line);
        if (t.empty() || t[0][0] == '#') continue;
        if (t[0] == "seed") { seed = std::stoull(t[1]); continue; }
        if (t[0] == "trace") { r.trace = t[1] != "0"; continue; }
        if (t[0] != "seg" || t.size() < 3) { fprintf(stderr, "bad directive: %s\n", line.substr(0, 60).c_str()); return 2; }
        ensure();
        const std::string& kind = t[1];
        if (kind == "zeros") { long n = std::stol(t[2]); for (long i = 0; i < n; ++i) r.feed(0.0f); }
        else if (kind == "const") { long n = std::stol(t[2]); float v = std::stof(t[3]); for (long i = 0; i < n; ++i) r.feed(v); }
        else if (kind == "noise") {
            long n = std::stol(t[2]); double s = std::stod(t[3]); bool uni = t.size() > 4 && t[4] == "u";
            for (long i = 0; i < n; ++i) r.feed(float(uni ? s * std::sqrt(3.0) * (2.0 * rng->uni() - 1.0) : s * rng->gauss()));
        }
        else if (kind == "tone") {
            long n = std::stol(t[2]); double f = std::stod(t[3]), a = std::stod(t[4]);
            for (long i = 0; i < n; ++i) r.feed(float(a * std::sin(2.0 * M_PI * f * double(i) / 48000.0)));
        }
        else if (kind == "file") {   // int16 little-endian baseband as m17-mod writes it, scaled as m17-demod does (calibration only)
            std::ifstream f(t[2], std::ios::binary);
            int16_t v;
            while (f.read(reinterpret_cast<char*>(&v), 2)) r.feed(float(v / 41067.0));
        }
        else if (kind == "tx" && t.size() >= 10) {
            bool main_tx = t[2] != "0";
            double tau = std::stod(t[3]), ppm = std::stod(t[4]), gain = std::stod(t[5]), dc = std::stod(t[6]), sigma = std::stod(t[7]);
            long maxn = std::stol(t[8]);
            const std::string& sym = t[9];
            const long K = long(sym.size());
            std::vector<double> a(K);
            for (long k = 0; k < K; ++k) {
                switch (sym[k]) { case 'A': a[k] = 3; break; case 'B': a[k] = 1; break; case 'C': a[k] = -1; break; case 'D': a[k] = -3; break;
                                  default: fprintf(stderr, "bad symbol\n"); return 2; }
            }
            const double rate = 1.0 + ppm * 1e-6;
            const double total = T * double(K) + 2.0 * SPAN;        // transmitter samples spanned by the pulses
            long N = long(std::floor((total - tau) / rate));
            if (maxn >= 0 && maxn < N) N = maxn;
            if (main_tx && !render) { char b[64]; snprintf(b, sizeof b, "M %ld\n", r.n); r.emit(b); }
            const double G = gain * A0;
            for (long i = 0; i < N; ++i) {
                const double tn = double(i) * rate + tau - SPAN;      // time relative to the centre of symbol 0
                long k0 = long(std::ceil((tn - SPAN) / T)), k1 = long(std::floor((tn + SPAN) / T));
                if (k0 < 0) k0 = 0;
                if (k1 > K - 1) k1 = K - 1;
                double acc = 0;
                for (long k = k0; k <= k1; ++k) acc += a[k] * rrc(tn - T * double(k));
                double x = G * acc + dc;
                if (sigma > 0) x += sigma * rng->gauss();
                r.feed(float(x));
            }
        }
        else { fprintf(stderr, "bad segment: %s\n", line.substr(0, 60).c_str()); return 2; }
    }
    ensure();
    if (!render) {
        char b[128];
        // the carrier detector's public level at the end of the run (finite?) and its flag
        snprintf(b, sizeof b, "Z %a %d %d\n", double(r.d->dcd.level_), int(std::isfinite(r.d->dcd.level_)), int(r.d->dcd.triggered_)); r.emit(b);
        snprintf(b, sizeof b, "E %ld\n", r.n); r.emit(b);
    }
    r.flush();
    return 0;
}

float parse_f(const std::string& s) { return std::strtof(s.c_str(), nullptr); }

// DataCarrierDetect::update() on given member values: "<level_> <level_1> <level_2> <triggered_>" -> "<level_> <triggered_>"
int run_dcd()
{
    std::string line;
    while (std::getline(std::cin, line)) {
        auto t = vh::split(line);
        if (t.size() < 4) { std::printf("?\n"); continue; }
        Demod::callback_t cb = [](const FD::output_buffer_t&, int) { return true; };
        static Demod proto(cb);                  // only its carrier detector (constructed with the demodulator's parameters) is used
        auto dcd = proto.dcd;
        dcd.level_ = parse_f(t[0]); dcd.level_1 = parse_f(t[1]); dcd.level_2 = parse_f(t[2]); dcd.triggered_ = t[3] != "0";
        bool unlock = t.size() > 4 && t[4] == "u";
        if (unlock) dcd.unlock(); else dcd.update();
        std::printf("%a %d %a %a %d\n", double(dcd.level()), int(dcd.dcd()), double(dcd.level_1), double(dcd.level_2), int(std::isfinite(dcd.level())));
    }
    return 0;
}

} // namespace

int main(int argc, char** argv)
{
    if (argc >= 3 && std::string(argv[1]) == "run") return run_case(argv[2], false);
    if (argc >= 3 && std::string(argv[1]) == "render") return run_case(argv[2], true);
    if (argc >= 2 && std::string(argv[1]) == "dcd") return run_dcd();
    fprintf(stderr, "usage: c03_harness run <casefile> | dcd\n");
    return 2;
}
