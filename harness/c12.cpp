// C12 harness: the soft demapper of Util.h, observed through llr<FloatType,LLR>(sample) and (for the table tie)
// through detail::make_llr_map<FloatType,LLR>().  Parsing/printing plus the executable property oracle.
//
//   table <f|d> <L>              -> rows=<n> <thr bits hex>:<i>:<j> ...      (compile-time table; "rt!=ct" appended if a
//                                                                            run-time evaluation of the same function differs)
//   llr <f|d> <L> <bits hex>     -> <i> <j>
//   sweep <f|d> <L> <lo> <hi>    -> checked=<n> bad=<k> {fail=<count>:<first bits>:<what>:<i>:<j>:<detail>}   (one per kind of failure)
//        property oracle on every bit pattern lo <= b < hi (hex); adjacent pairs (b, b+1) are compared for the
//        monotonicity clauses, so consecutive shards overlap by one pattern and nothing falls between shards.
#include "Util.h"
#include "common.h"
#include <cmath>
#include <cstring>
#include <cinttypes>
#include <type_traits>

using namespace mobilinkd;

template <typename F> struct bits_of;
template <> struct bits_of<float> { using type = uint32_t; static constexpr int W = 8; };
template <> struct bits_of<double> { using type = uint64_t; static constexpr int W = 16; };

template <typename F> static F from_bits(uint64_t b)
{
    typename bits_of<F>::type u = typename bits_of<F>::type(b);
    F f; std::memcpy(&f, &u, sizeof f); return f;
}
template <typename F> static uint64_t to_bits(F f)
{
    typename bits_of<F>::type u; std::memcpy(&u, &f, sizeof f); return u;
}

template <typename F, size_t L> static void table()
{
    static constexpr auto ct = detail::make_llr_map<F, L>();      // what llr() uses
    volatile int opaque = 0;
    auto rt = detail::make_llr_map<F, L>();                       // same function at run time
    (void)opaque;
    std::printf("rows=%zu", ct.size());
    bool same = true;
    for (size_t n = 0; n != ct.size(); ++n) {
        std::printf(" %0*" PRIx64 ":%d:%d", bits_of<F>::W, to_bits<F>(std::get<0>(ct[n])),
                    int(std::get<0>(std::get<1>(ct[n]))), int(std::get<1>(std::get<1>(ct[n]))));
        if (to_bits<F>(std::get<0>(ct[n])) != to_bits<F>(std::get<0>(rt[n])) || std::get<1>(ct[n]) != std::get<1>(rt[n])) same = false;
    }
    std::printf("%s\n", same ? "" : " rt!=ct");
}

template <typename F, size_t L> static void one(uint64_t b)
{
    auto r = llr<F, L>(from_bits<F>(b));
    std::printf("%d %d\n", int(std::get<0>(r)), int(std::get<1>(r)));
}

// ---------------------------------------------------------------- property oracle (independent arithmetic, long double)
// Gray map of the M17 specification: +3 -> 01, +1 -> 00, -1 -> 10, -3 -> 11 (first bit, second bit).
static void spec_dibit(long double v, int& b1, int& b0)
{
    static const int level[4] = {3, 1, -1, -3};
    static const int first[4] = {0, 0, 1, 1};
    static const int second[4] = {1, 0, 0, 1};
    // beyond +-4 the nearest level is the outer one; clamping keeps the differences below exact in long double
    if (v > 4) v = 4;
    if (v < -4) v = -4;
    int best = 0;
    long double bd = fabsl(v - level[0]);
    for (int n = 1; n != 4; ++n) { long double d = fabsl(v - level[n]); if (d < bd) { bd = d; best = n; } }
    b1 = first[best]; b0 = second[best];
}

template <typename F, size_t L>
static const char* check_point(F x, int a, int c, char* detail)
{
    constexpr int limit = (1 << (L - 1)) - 1;
    detail[0] = 0;
    if (a == 0 || c == 0) return "zero-soft-bit";
    if (a > limit || a < -limit || c > limit || c < -limit) return "out-of-range";
    if (std::isnan(x)) {
        // a defined saturated value, the same for every NaN
        auto q = llr<F, L>(std::numeric_limits<F>::quiet_NaN());
        if (std::get<0>(q) != a || std::get<1>(q) != c) return "nan-not-uniform";
        if (std::abs(a) != limit || std::abs(c) != limit) return "nan-not-saturated";
        return nullptr;
    }
    long double v = x;
    if (std::isinf(x)) {
        int ea = x > 0 ? -limit : limit, ec = limit;
        if (a != ea || c != ec) { std::sprintf(detail, "expected=%d,%d", ea, ec); return "inf-not-saturated-level"; }
        return nullptr;
    }
    bool guard = fabsl(v) > 1e-6L && fabsl(v - 2) > 1e-6L && fabsl(v + 2) > 1e-6L;
    if (guard) {
        int b1, b0; spec_dibit(v, b1, b0);
        if ((a > 0) != (b1 == 1) || (c > 0) != (b0 == 1)) { std::sprintf(detail, "expected-dibit=%d%d", b1, b0); return "wrong-sign"; }
    }
    if (fabsl(v) >= 3 && (std::abs(a) != limit || std::abs(c) != limit)) return "not-saturated-beyond-3";
    if ((v == 1 || v == -1 || v == 3 || v == -3) && (std::abs(a) != limit || std::abs(c) != limit)) return "not-full-confidence-at-level";
    return nullptr;
}

template <typename F, size_t L> static void sweep(uint64_t lo, uint64_t hi)
{
    using U = typename bits_of<F>::type;
    constexpr U SIGN = U(1) << (sizeof(U) * 8 - 1);
    uint64_t checked = 0, bad = 0;
    char detail[80];
    bool have_prev = false; int pa = 0, pc = 0; F px = 0;
    // first failing pattern and count per kind of failure (so that one kind cannot hide another)
    struct kind_t { const char* what; uint64_t n; char first[160]; };
    std::vector<kind_t> kinds;
    auto report = [&](uint64_t b, const char* what, int a, int c, const char* d) {
        ++bad;
        for (auto& k : kinds) if (!std::strcmp(k.what, what)) { ++k.n; return; }
        kind_t k{what, 1, ""};
        std::snprintf(k.first, sizeof k.first, "%0*" PRIx64 ":%s:%d:%d:%s", bits_of<F>::W, b, what, a, c, d[0] ? d : "-");
        kinds.push_back(k);
    };
    for (uint64_t b = lo; b < hi; ++b) {
        F x = from_bits<F>(b);
        auto r = llr<F, L>(x);
        int a = std::get<0>(r), c = std::get<1>(r);
        ++checked;
        if (const char* w = check_point<F, L>(x, a, c, detail)) report(b, w, a, c, detail);
        // adjacent representable values: within one sign, bits b-1 -> b increases |x|
        bool nan = std::isnan(x);
        if (have_prev && !nan && ((U(b) & SIGN) == (U(b - 1) & SIGN)) && !std::isnan(px)) {
            bool neg = (U(b) & SIGN) != 0;       // |x| grew; x grew iff positive
            if (c < pc) { std::sprintf(detail, "prev=%d,%d", pa, pc); report(b, "second-decreases-with-magnitude", a, c, detail); }
            if (!neg && a > pa) { std::sprintf(detail, "prev=%d,%d", pa, pc); report(b, "first-increases-with-sample", a, c, detail); }
            if (neg && a < pa) { std::sprintf(detail, "prev=%d,%d", pa, pc); report(b, "first-increases-with-sample", a, c, detail); }
        }
        if ((U(b) & ~SIGN) == 0) {
            // the two zeros are the same sample; the smallest negative denormal is below them
            auto z = llr<F, L>(from_bits<F>(U(b) ^ SIGN));
            if (std::get<0>(z) != a || std::get<1>(z) != c) report(b, "zeros-differ", a, c, "");
        }
        have_prev = true; pa = a; pc = c; px = x;
    }
    std::printf("checked=%" PRIu64 " bad=%" PRIu64, checked, bad);
    for (auto& k : kinds) std::printf(" fail=%" PRIu64 ":%s", k.n, k.first);
    std::printf("\n");
}

template <typename F> static bool dispatch(const std::vector<std::string>& t)
{
    size_t L = std::stoul(t[2]);
    auto u = [&](size_t n) { return std::stoull(t[n], nullptr, 16); };
    if (t[0] == "table" && t.size() == 3) {
        if (L == 2) table<F, 2>(); else if (L == 3) table<F, 3>(); else if (L == 4) table<F, 4>(); else return false;
        return true;
    }
    if (t[0] == "llr" && t.size() == 4) {
        if (L == 2) one<F, 2>(u(3)); else if (L == 3) one<F, 3>(u(3)); else if (L == 4) one<F, 4>(u(3)); else return false;
        return true;
    }
    if (t[0] == "sweep" && t.size() == 5) {
        if (L == 2) sweep<F, 2>(u(3), u(4)); else if (L == 3) sweep<F, 3>(u(3), u(4)); else if (L == 4) sweep<F, 4>(u(3), u(4)); else return false;
        return true;
    }
    return false;
}

int main()
{
    std::string line;
    while (std::getline(std::cin, line)) {
        auto t = vh::split(line);
        bool ok = false;
        if (t.size() >= 3) {
            if (t[1] == "f") ok = dispatch<float>(t);
            else if (t[1] == "d") ok = dispatch<double>(t);
        }
        if (!ok) std::printf("?\n");
        std::fflush(stdout);
    }
    return 0;
}
