// C18 harness: drives mobilinkd::PRBS9 through generate()/validate()/reset()/sync()/errors()/bits() only.
// One case per line: a generator object G and a validator object V, both newly constructed, then the ops
//   G<n>            n x G.generate(), printed as a bit string
//   S<n>            n x G.generate(), not printed (choose the phase)
//   Q               G.reset()
//   R               V.reset()
//   V<bits>         V.validate(b) for each literal bit
//   T<n>[:i,j,...]  n bits from G.generate(), those at the listed indices inverted, each into V.validate()
// After every validate(): <result><sync>:<errors>:<bits>,     (built with -DNDEBUG: errors()/bits() do not assert)
#include "Util.h"
#include "common.h"
#include <set>

static void obs(std::string& out, bool r, mobilinkd::PRBS9& v)
{
    char buf[48];
    std::snprintf(buf, sizeof buf, "%d%d:%u:%u,", int(r), int(v.sync()), unsigned(v.errors()), unsigned(v.bits()));
    out += buf;
}

int main()
{
    std::string line;
    while (std::getline(std::cin, line)) {
        mobilinkd::PRBS9 G, V;
        std::string out;
        for (auto& op : vh::split(line)) {
            char c = op[0];
            std::string arg = op.substr(1);
            if (c == 'G') { out += "g"; for (long i = 0, n = std::stol(arg); i != n; ++i) out += G.generate() ? '1' : '0'; out += ' '; }
            else if (c == 'S') { for (long i = 0, n = std::stol(arg); i != n; ++i) G.generate(); }
            else if (c == 'Q') { G.reset(); }
            else if (c == 'R') { V.reset(); }
            else if (c == 'V') { for (char b : arg) { bool r = V.validate(b == '1'); obs(out, r, V); } out += ' '; }
            else if (c == 'T') {
                std::set<long> flips;
                auto colon = arg.find(':');
                long n = std::stol(arg.substr(0, colon));
                if (colon != std::string::npos) {
                    std::stringstream ss(arg.substr(colon + 1)); std::string tok;
                    while (std::getline(ss, tok, ',')) if (!tok.empty()) flips.insert(std::stol(tok));
                }
                for (long i = 0; i != n; ++i) {
                    bool b = G.generate();
                    if (flips.count(i)) b = !b;
                    bool r = V.validate(b);
                    obs(out, r, V);
                }
                out += ' ';
            } else out += "? ";
        }
        std::printf("%s\n", out.c_str());
    }
    return 0;
}
