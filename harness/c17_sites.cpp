// C17 call sites of the callsign codec in M17Modulator: the constructor and the source()/dest() setters encode through the
// private wrapper M17Modulator::encode_callsign.  One command per line:
//   ctor <srchex> <dsthex|->        -> src=<6 bytes> dst=<6 bytes>      (members after construction)
//   set  <srchex> <dsthex|->        -> src=<6 bytes> dst=<6 bytes>      (constructed with "A"/"", then source()/dest())
// everything M17Modulator.h includes comes first, so that only the class itself is compiled with its members public
#include "queue.h"
#include "FirFilter.h"
#include "LinkSetupFrame.h"
#include "CRC16.h"
#include "Convolution.h"
#include "PolynomialInterleaver.h"
#include "M17Randomizer.h"
#include "Util.h"
#include "Golay24.h"
#include "Trellis.h"
#include <codec2/codec2.h>
#include <array>
#include <atomic>
#include <chrono>
#include <cstdint>
#include <future>
#include <iostream>
#include <memory>
#include <sstream>
#include <iostream>
#include <string>
#define private public
#include "M17Modulator.h"
#undef private
#include "common.h"

int main()
{
    std::string line;
    while (std::getline(std::cin, line)) {
        auto t = vh::split(line);
        if (t.size() != 3) { std::printf("?\n"); continue; }
        auto sb = vh::from_hex(t[1]);
        std::string src(sb.begin(), sb.end()), dst;
        if (t[2] != "-") { auto db = vh::from_hex(t[2]); dst.assign(db.begin(), db.end()); }
        mobilinkd::LinkSetupFrame::encoded_call_t s{}, d{};
        if (t[0] == "ctor") { mobilinkd::M17Modulator m(src, dst); s = m.source_; d = m.dest_; }
        else { mobilinkd::M17Modulator m("A", ""); m.source(src); m.dest(dst); s = m.source_; d = m.dest_; }
        std::printf("src=%s dst=%s\n", vh::to_hex(s).c_str(), vh::to_hex(d).c_str());
        std::fflush(stdout);
    }
    return 0;
}
