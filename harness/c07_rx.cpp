// C07 harness (b): the real M17Demodulator<float> (Blaze shim) with m17-demod's own handle_frame and
// diagnostic callback (apps/m17-demod.cpp included with main renamed), fed one sample stream under the
// sanitizers.  After EVERY sample the public members are checked against their documented ranges:
//   demod.sample_index <= 9, demod.framer.index_ < 368, demod.clock_recovery.sample_index_ in [0, 9],
//   demod.correlator.buffer_pos_ < 80, demod.correlator.prev_buffer_pos_ < 80, demod.sync_sample_index <= 9 and the timing_index_ of the
//   four sync words <= 9 (the invariants of coq/ImplCorrelator.v's models, proved in Properties_C07.v 8a-8f).
// usage: c07_rx <file of int16 LE samples> <divisor> <invert 0|1>      x = sample / divisor  (|x| <= 1 required)
// One stream per process (the demodulator keeps function-local statics).
#include <codec2/codec2.h>
#define main m17_demod_main
#include "m17-demod.cpp"
#undef main

#include <cmath>
#include <cstdio>
#include <sstream>

int main(int argc, char** argv)
{
    using namespace mobilinkd;
    if (argc < 4) return 2;
    FILE* f = fopen(argv[1], "rb");
    if (!f) return 2;
    const double divisor = std::stod(argv[2]);
    const bool invert = argv[3][0] == '1';
    display_lsf = true;
    noise_blanker = argc > 4 && argv[4][0] == '1';
    codec2 = ::codec2_create(CODEC2_MODE_3200);

    std::ostringstream err;
    struct counting_buf : std::streambuf {
        size_t n = 0;
        int overflow(int c) override { ++n; return c; }
        std::streamsize xsputn(const char*, std::streamsize k) override { n += size_t(k); return k; }
    } outbuf;
    auto* olderr = std::cerr.rdbuf(err.rdbuf());
    auto* oldout = std::cout.rdbuf(&outbuf);
    struct restore { std::streambuf* e; std::streambuf* o; ~restore() { std::cerr.rdbuf(e); std::cout.rdbuf(o); } } restore_{olderr, oldout};

    size_t cbs[6] = {0, 0, 0, 0, 0, 0};
    M17Demodulator<float> demod([&](const M17FrameDecoder::output_buffer_t& b, int cost) {
        ++cbs[size_t(b.type) % 6];
        return handle_frame(b, cost);
    });
    demod.diagnostics(diagnostic_callback<float>);

    size_t n = 0;
    unsigned max_si = 0, max_fi = 0;
    int16_t s;
    while (fread(&s, 2, 1, f) == 1) {
        int v = s;
        if (invert) v = -v;
        float x = float(v / divisor);
        if (!(std::fabs(x) <= 1.0f)) { std::printf("input sample %zu out of range\n", n); return 2; }
        demod(x);
        ++n;
        if (demod.sample_index > 9 || demod.framer.index_ >= 368 || demod.clock_recovery.sample_index_ < 0
            || demod.clock_recovery.sample_index_ > 9 || demod.correlator.buffer_pos_ >= 80
            || demod.correlator.prev_buffer_pos_ >= demod.correlator.buffer_.size() || demod.correlator.buffer_pos_ >= demod.correlator.buffer_.size()
            || demod.sync_sample_index > 9 || demod.preamble_sync.timing_index_ > 9 || demod.lsf_sync.timing_index_ > 9
            || demod.packet_sync.timing_index_ > 9 || demod.eot_sync.timing_index_ > 9) {
            std::printf("RANGE sample=%zu sample_index=%u framer.index_=%zu clock.sample_index_=%d correlator.buffer_pos_=%zu prev_buffer_pos_=%zu "
                        "sync_sample_index=%u timing_index_=%zu,%zu,%zu,%zu\n", n,
                        unsigned(demod.sample_index), demod.framer.index_, int(demod.clock_recovery.sample_index_), demod.correlator.buffer_pos_,
                        demod.correlator.prev_buffer_pos_, unsigned(demod.sync_sample_index), demod.preamble_sync.timing_index_,
                        demod.lsf_sync.timing_index_, demod.packet_sync.timing_index_, demod.eot_sync.timing_index_);
            return 3;
        }
        if (demod.sample_index > max_si) max_si = demod.sample_index;
        if (demod.framer.index_ > max_fi) max_fi = unsigned(demod.framer.index_);
        if (err.tellp() > 1 << 20) err.str("");
    }
    std::printf("ok samples=%zu lsf=%zu lich=%zu stream=%zu basic=%zu full=%zu bert=%zu audio_bytes=%zu max_sample_index=%u max_framer_index=%u\n",
                n, cbs[0], cbs[1], cbs[2], cbs[3], cbs[4], cbs[5], outbuf.n, max_si, max_fi);
    return 0;
}
