// C02 harness: drives mobilinkd::Viterbi<Trellis<4,2>, W>::decode<IN,OUT> on the trellis object of the frame decoder
// (polynomials as M17FrameDecoder constructs them), for W = 2..6 and a fixed list of (IN, OUT) geometries.
// It observes the decoder only through decode(in, out) -> cost (plus the three public tables for the table dump).
// Next to each result it prints the outcome of an INDEPENDENT reference computation written from the M17 specification
// (shift-register encoder, soft distance, plain dynamic programme / brute force), used by the property oracle.
//
// protocol (one line in, one line out):
//   q W IN1 OUT1 csv1 [IN2 OUT2 csv2 ...]   decode the vectors one after the other on ONE object; per vector
//                                            "out=<bits> cost=<n> min=<m> omin=<m'> fresh=<same|DIFF>" joined by " | "
//   x W IN OUT                               all vectors of {-L,0,+L}^IN: "n=<count> h=<hash per block of 729>,.. viol=<k> first=<csv|->"
//   t W                                      table dump
//   r W                                      size_t(std::round(m / float(llr_limit<W>()))) against (2m+L)/(2L) for all 0 <= m <= 80000
#include "M17FrameDecoder.h"
#include "common.h"
#include <array>
#include <climits>
#include <cstdlib>

bool display_lsf = false;

using namespace mobilinkd;

static M17FrameDecoder& frame_decoder()
{
    static M17FrameDecoder fd([](const M17FrameDecoder::output_buffer_t&, int) { return true; });
    return fd;
}
using trellis_t = decltype(M17FrameDecoder::trellis_);
template <size_t W> using viterbi_t = Viterbi<trellis_t, W>;

// ---------------------------------------------------------------- reference (specification side)
// encoder state: the last four input bits, d1 newest.  G1 = 1 + D^3 + D^4, G2 = 1 + D + D^2 + D^4.
struct Ref {
    static inline void outputs(unsigned st, unsigned b, unsigned& g1, unsigned& g2)
    {
        unsigned d1 = st & 1, d2 = (st >> 1) & 1, d3 = (st >> 2) & 1, d4 = (st >> 3) & 1;
        g1 = b ^ d3 ^ d4;
        g2 = b ^ d1 ^ d2 ^ d4;
    }
    static inline long sdist(long L, long r, unsigned c) { return r == 0 ? 0 : std::labs(L * (2 * long(c) - 1) - r); }
    // minimum of dist(r, conv(w)) over all w of length n whose first `fixed` bits equal pre[0..fixed)
    static long dp_min(long L, const std::vector<int>& r, const uint8_t* pre, size_t fixed)
    {
        const long INF = LONG_MAX / 4;
        size_t n = r.size() / 2;
        long m[16], m2[16];
        for (int s = 0; s != 16; ++s) m[s] = INF;
        m[0] = 0;
        for (size_t t = 0; t != n; ++t) {
            for (int s = 0; s != 16; ++s) m2[s] = INF;
            for (unsigned s = 0; s != 16; ++s) {
                if (m[s] >= INF) continue;
                for (unsigned b = 0; b != 2; ++b) {
                    if (t < fixed && b != (pre[t] & 1u)) continue;
                    unsigned g1, g2; outputs(s, b, g1, g2);
                    long c = m[s] + sdist(L, r[2 * t], g1) + sdist(L, r[2 * t + 1], g2);
                    unsigned s2 = ((s << 1) | b) & 15;
                    if (c < m2[s2]) m2[s2] = c;
                }
            }
            for (int s = 0; s != 16; ++s) m[s] = m2[s];
        }
        long best = INF;
        for (int s = 0; s != 16; ++s) if (m[s] < best) best = m[s];
        return best;
    }
    static long brute_min(long L, const std::vector<int>& r)
    {
        size_t n = r.size() / 2;
        long best = LONG_MAX;
        for (unsigned long w = 0; w != (1ul << n); ++w) {
            unsigned st = 0; long d = 0;
            for (size_t t = 0; t != n; ++t) {
                unsigned b = (w >> t) & 1, g1, g2; outputs(st, b, g1, g2);
                d += sdist(L, r[2 * t], g1) + sdist(L, r[2 * t + 1], g2);
                st = ((st << 1) | b) & 15;
            }
            if (d < best) best = d;
        }
        return best;
    }
};

// ---------------------------------------------------------------- calling decode<IN,OUT>
#define GEOMS(X) \
    X(488, 240) X(296, 144) X(420, 206) X(402, 197) \
    X(2, 1) X(4, 2) X(6, 3) X(8, 4) X(10, 5) X(12, 6) X(16, 8) X(24, 12) \
    X(10, 1) X(12, 2) X(16, 4) X(24, 8) X(4, 1) X(8, 2) \
    X(4, 0) X(4, 3) X(0, 0)

struct Result { std::vector<uint8_t> out; size_t cost; bool ok; };

template <size_t W>
static Result call(viterbi_t<W>& v, size_t IN, size_t OUT, const std::vector<int>& in)
{
#define X(I, O) \
    if (IN == I && OUT == O) { \
        std::array<int8_t, I> a; for (size_t i = 0; i != I; ++i) a[i] = int8_t(in[i]); \
        std::array<uint8_t, O> o; o.fill(0xAA); \
        size_t c = v.template decode<I, O>(a, o); \
        return Result{std::vector<uint8_t>(o.begin(), o.end()), c, true}; \
    }
    GEOMS(X)
#undef X
    return Result{{}, 0, false};
}

static std::vector<int> csv(const std::string& s)
{
    std::vector<int> v;
    if (s == "-") return v;
    size_t i = 0;
    while (i < s.size()) {
        size_t j = s.find(',', i);
        if (j == std::string::npos) j = s.size();
        v.push_back(std::atoi(s.substr(i, j - i).c_str()));
        i = j + 1;
    }
    return v;
}

static std::string bits(const std::vector<uint8_t>& o)
{
    if (o.empty()) return "-";
    std::string s;
    for (auto b : o) {
        if (b == 0) s.push_back('0'); else if (b == 1) s.push_back('1');
        else { char buf[8]; std::snprintf(buf, sizeof buf, "<%02x>", b); s += buf; }
    }
    return s;
}

template <size_t W>
static void do_q(const std::vector<std::string>& t)
{
    const long L = (1 << (W - 1)) - 1;
    viterbi_t<W> v(frame_decoder().trellis_);
    std::string line;
    for (size_t k = 2; k + 2 < t.size(); k += 3) {
        size_t IN = std::stoul(t[k]), OUT = std::stoul(t[k + 1]);
        auto in = csv(t[k + 2]);
        if (in.size() != IN) { line += "?len"; break; }
        Result r = call<W>(v, IN, OUT, in);
        if (!r.ok) { line += "?geom"; break; }
        viterbi_t<W> f(frame_decoder().trellis_);
        Result rf = call<W>(f, IN, OUT, in);
        bool same = rf.out == r.out && rf.cost == r.cost;
        long mn = Ref::dp_min(L, in, nullptr, 0);
        if (IN <= 16 && IN > 0 && Ref::brute_min(L, in) != mn) mn = -1;     // the reference disagrees with itself: machinery error
        size_t fixed = OUT <= IN / 2 ? OUT : 0;
        bool bitsok = true;
        for (size_t i = 0; i != fixed; ++i) if (r.out[i] > 1) bitsok = false;
        long omin = (bitsok && OUT <= IN / 2) ? Ref::dp_min(L, in, r.out.data(), fixed) : -2;
        char buf[160];
        std::snprintf(buf, sizeof buf, " cost=%zu min=%ld omin=%ld fresh=%s", r.cost, mn, omin, same ? "same" : "DIFF");
        if (!line.empty()) line += " | ";
        line += "out=" + bits(r.out) + buf;
    }
    std::puts(line.c_str());
}

template <size_t W>
static void do_x(size_t IN, size_t OUT)
{
    const long L = (1 << (W - 1)) - 1;
    viterbi_t<W> v(frame_decoder().trellis_);
    std::vector<int> in(IN, -int(L));
    unsigned long count = 0, viol = 0;
    std::string first = "-", hashes;
    uint64_t h = 0xcbf29ce484222325ull;
    auto flush = [&]() { char b[24]; std::snprintf(b, sizeof b, "%016llx", (unsigned long long) h); if (!hashes.empty()) hashes += ","; hashes += b; h = 0xcbf29ce484222325ull; };
    // odometer over {-L,0,+L}^IN, position 0 fastest
    for (;;) {
        Result r = call<W>(v, IN, OUT, in);
        for (auto b : r.out) { h ^= b; h *= 1099511628211ull; }
        h ^= uint64_t(r.cost) + 0x100; h *= 1099511628211ull;
        ++count;
        if (count % 729 == 0) flush();
        // oracle
        long mn = Ref::dp_min(L, in, nullptr, 0);
        bool bad = false;
        if (OUT <= IN / 2) {
            bool bitsok = true;
            for (auto b : r.out) if (b > 1) bitsok = false;
            long omin = bitsok ? Ref::dp_min(L, in, r.out.data(), OUT) : -2;
            if (omin != mn) bad = true;
        }
        if (long(r.cost) != (2 * mn + L) / (2 * L)) bad = true;
        if (bad) {
            if (!viol) { first.clear(); for (size_t i = 0; i != IN; ++i) { if (i) first += ","; first += std::to_string(in[i]); } }
            ++viol;
        }
        size_t i = 0;
        while (i != IN) {
            if (in[i] == -L) { in[i] = 0; break; }
            if (in[i] == 0) { in[i] = int(L); break; }
            in[i] = -int(L); ++i;
        }
        if (i == IN) break;
    }
    if (count % 729 != 0) flush();
    std::printf("n=%lu h=%s viol=%lu first=%s\n", count, hashes.c_str(), viol, first.c_str());
}

template <size_t W>
static void do_t()
{
    viterbi_t<W> v(frame_decoder().trellis_);
    std::string s = "next=";
    for (auto& row : v.nextState_) for (auto x : row) s += std::to_string(int(x)) + ",";
    s += " prev=";
    for (auto& row : v.prevState_) for (auto x : row) s += std::to_string(int(x)) + ",";
    s += " cost=";
    for (auto& row : v.cost_) for (auto x : row) s += std::to_string(int(x)) + ",";
    s += " L=" + std::to_string(detail::llr_limit<W>());
    std::puts(s.c_str());
}

template <size_t W>
static void do_r()
{
    const long L = detail::llr_limit<W>();
    unsigned long bad = 0; long first = -1;
    for (int32_t m = 0; m <= 80000; ++m) {
        size_t c = std::round(m / float(detail::llr_limit<W>()));
        if (long(c) != (2 * long(m) + L) / (2 * L)) { if (!bad++) first = m; }
    }
    std::printf("rounding L=%ld checked=80001 bad=%lu first=%ld\n", L, bad, first);
}

#define WIDTHS(X) X(2) X(3) X(4) X(5) X(6)

int main()
{
    std::string line;
    while (std::getline(std::cin, line)) {
        auto t = vh::split(line);
        if (t.size() < 2) { std::puts("?"); continue; }
        size_t W = std::stoul(t[1]);
        bool done = false;
#define X(w) if (W == w) { \
            if (t[0] == "q") { do_q<w>(t); done = true; } \
            else if (t[0] == "x" && t.size() == 4) { \
                size_t IN = std::stoul(t[2]), OUT = std::stoul(t[3]); \
                viterbi_t<w> probe(frame_decoder().trellis_); \
                if (call<w>(probe, IN, OUT, std::vector<int>(IN, 0)).ok) { do_x<w>(IN, OUT); done = true; } } \
            else if (t[0] == "t") { do_t<w>(); done = true; } \
            else if (t[0] == "r") { do_r<w>(); done = true; } }
        WIDTHS(X)
#undef X
        if (!done) std::puts("?");
    }
    return 0;
}
