// C07/C20 harness (a) and (c): the real frame handlers of apps/m17-demod.cpp (included with main renamed),
// LinkSetupFrame::decode_callsign, ax25_frame, M17Framer, M17FrameDecoder, ClockRecovery, Correlator and SyncWord, driven with the
// cases read from stdin.  Meant to be built with -fsanitize=address,undefined,float-cast-overflow
// -fno-sanitize-recover=all -D_GLIBCXX_ASSERTIONS.  Every case runs in a forked child so that an abort is an
// observation ("DIED") and not the end of the run; the child's sanitizer report is appended after a TAB.
// Parsing / printing only.
#include <codec2/codec2.h>
#include <string>
#include <vector>

// codec2_decode as called by the application is routed through this wrapper: it records the 8 bytes the
// application hands over (touching them in instrumented code, libcodec2 itself is not instrumented).
static std::vector<std::string> g_c2;
static inline void verif_codec2_decode(struct CODEC2* c, short* out, const unsigned char* bits)
{
    static const char* d = "0123456789abcdef";
    std::string s;
    for (int i = 0; i != 8; ++i) { volatile unsigned char b = bits[i]; s.push_back(d[b >> 4]); s.push_back(d[b & 15]); }
    g_c2.push_back(s);
    for (int i = 0; i != 160; ++i) { volatile short t = out[i] = 0; (void)t; }   // the 160 samples it will write
    codec2_decode(c, out, bits);
}
#define codec2_decode verif_codec2_decode
#define main m17_demod_main
#include "m17-demod.cpp"
#undef main
#undef codec2_decode

#include "common.h"
#include <cstring>
#include <sstream>
#include <sys/wait.h>
#include <unistd.h>

using namespace mobilinkd;
using FD = M17FrameDecoder;

static std::string hex_of(const std::string& s) { return vh::to_hex(reinterpret_cast<const uint8_t*>(s.data()), s.size()); }

static std::vector<std::string> split_on(const std::string& s, char c)
{
    std::vector<std::string> v;
    std::string cur;
    for (char x : s) { if (x == c) { v.push_back(cur); cur.clear(); } else cur.push_back(x); }
    v.push_back(cur);
    return v;
}

static void emit(const std::string& s) { fwrite(s.data(), 1, s.size(), stdout); fflush(stdout); }

// ---- one callback through the real handle_frame; prints "r=.. e=.. o=.. c2=.."
static std::string one_callback(const std::string& tok)
{
    auto f = split_on(tok, ':');
    FD::output_buffer_t ob;
    std::memset(&ob, 0xA5, sizeof(ob));
    int cost = 0;
    bool direct_full = false;
    auto fill = [](auto& arr, const std::string& h) { auto b = vh::from_hex(h); for (size_t i = 0; i != arr.size() && i != b.size(); ++i) arr[i] = b[i]; };
    switch (f[0][0]) {
    case 'L': ob.type = FD::FrameType::LSF; fill(ob.lsf, f[1]); cost = std::stoi(f[2]); break;
    case 'I': ob.type = FD::FrameType::LICH; cost = std::stoi(f[1]); break;
    case 'S': ob.type = FD::FrameType::STREAM; fill(ob.stream, f[1]); cost = std::stoi(f[2]); break;
    case 'P': ob.type = FD::FrameType::BASIC_PACKET; fill(ob.packet, f[1]); cost = std::stoi(f[2]); break;
    case 'F': ob.type = FD::FrameType::FULL_PACKET; fill(ob.packet, f[1]); cost = std::stoi(f[2]); break;
    case 'B': ob.type = FD::FrameType::BERT; fill(ob.bert, f[1]); cost = std::stoi(f[2]); break;
    case 'X': direct_full = true; fill(ob.packet, f[1]); break;
    }
    std::ostringstream err, out;
    auto* olderr = std::cerr.rdbuf(err.rdbuf());
    auto* oldout = std::cout.rdbuf(out.rdbuf());
    g_c2.clear();
    bool r = direct_full ? decode_full_packet(ob.packet) : handle_frame(ob, cost);
    std::cerr.rdbuf(olderr);
    std::cout.rdbuf(oldout);
    std::string o = out.str();
    bool zero = !o.empty() && g_c2.empty();
    for (char c : o) if (c) zero = false;
    std::string c2 = "-";
    if (!g_c2.empty()) { c2.clear(); for (size_t i = 0; i != g_c2.size(); ++i) { if (i) c2 += ","; c2 += g_c2[i]; } }
    return "r=" + std::to_string(int(r)) + " e=" + hex_of(err.str()) + " o=" + std::to_string(o.size()) + (zero ? "z" : "") + " c2=" + c2;
}

static const char* res_name(FD::DecodeResult r)
{
    switch (r) {
    case FD::DecodeResult::FAIL: return "FAIL";
    case FD::DecodeResult::OK: return "OK";
    case FD::DecodeResult::EOS: return "EOS";
    case FD::DecodeResult::INCOMPLETE: return "INCOMPLETE";
    case FD::DecodeResult::PACKET_INCOMPLETE: return "PACKET_INCOMPLETE";
    }
    return "?";
}

static FD::SyncWordType sync_of(char c)
{
    switch (c) { case 'S': return FD::SyncWordType::STREAM; case 'P': return FD::SyncWordType::PACKET; case 'B': return FD::SyncWordType::BERT; default: return FD::SyncWordType::LSF; }
}

static FD::input_buffer_t frame_of(const std::string& h)
{
    auto raw = vh::from_hex(h);
    FD::input_buffer_t buf{};
    for (size_t i = 0; i != buf.size() && i != raw.size(); ++i) buf[i] = int8_t(raw[i]);
    return buf;
}


// ---- a scripted stand-in for the Correlator, to drive the real SyncWord<> template: limit() = 1 and magnitudes +-0.5 make
// triggered() return the scripted (integral) value itself, or 0 for 0; index() is the scripted correlator index
struct ScriptedCorrelator
{
    static constexpr size_t SYMBOLS = Correlator<float>::SYMBOLS;
    static constexpr size_t SAMPLES_PER_SYMBOL = Correlator<float>::SAMPLES_PER_SYMBOL;
    using value_type = float;
    float value = 0;
    size_t idx = 0;
    float limit() const { return 1.f; }
    float correlate(std::array<int8_t, SYMBOLS>) { return value; }
    size_t index() const { return idx; }
};

template <typename A> static std::string join_ints(const A& a, double div = 1)
{
    std::string r;
    for (size_t i = 0; i != a.size(); ++i) { if (i) r += "."; r += std::to_string((long long)(a[i] / div)); }
    return r;
}

// ---- the work of one case, in the child
static void run_case(const std::vector<std::string>& t)
{
    if (t[0] == "app" && t.size() == 3) {
        display_lsf = t[1][0] == '1';
        noise_blanker = t[1][1] == '1';
        auto cbs = split_on(t[2], ';');
        for (size_t i = 0; i != cbs.size(); ++i) { auto s = one_callback(cbs[i]); emit((i ? " | " : "") + s); }
    } else if (t[0] == "ax25" && t.size() == 2) {
        auto b = vh::from_hex(t[1]);
        std::string s(b.begin(), b.end());
        ax25_frame frame(s);
        std::ostringstream os;
        mobilinkd::write(os, frame);
        char buf[96];
        auto pid = frame.pid();
        std::string p = "-";
        if (pid) { char q[8]; snprintf(q, 8, "%02x", unsigned(*pid)); p = q; }
        snprintf(buf, sizeof buf, "ok t=%d fcs=%04x pid=%s hex=%d text=", int(frame.type()), unsigned(frame.fcs()), p.c_str(),
                 int((os.flags() & std::ios_base::basefield) == std::ios_base::hex));
        emit(buf + hex_of(os.str()));
    } else if (t[0] == "call" && t.size() == 2) {
        auto b = vh::from_hex(t[1]);
        LinkSetupFrame::encoded_call_t e{};
        for (size_t i = 0; i != e.size() && i != b.size(); ++i) e[i] = b[i];
        auto c = LinkSetupFrame::decode_callsign(e);
        emit("ok " + vh::to_hex(reinterpret_cast<const uint8_t*>(c.data()), c.size()));
    } else if (t[0] == "framer" && t.size() == 2) {
        auto raw = vh::from_hex(t[1]);
        M17Framer<368> fr;
        size_t frames = 0;
        for (size_t i = 0; i + 1 < raw.size(); i += 2) {
            int8_t* p = nullptr;
            auto n = fr(std::make_tuple(int8_t(raw[i]), int8_t(raw[i + 1])), &p);
            if (n) { ++frames; volatile int8_t x = p[n - 1]; (void)x; }
        }
        emit("idx=" + std::to_string(fr.index_) + " frames=" + std::to_string(frames));
    } else if (t[0] == "lichframe" && t.size() == 3) {
        // a STREAM-sync frame offered to a fresh decoder (state LSF): exercises unpack_lich + decode_lich's copy
        auto lsf = vh::from_hex(t[2]);
        auto dec = std::make_unique<FD>([](const FD::output_buffer_t&, int) { return true; });
        for (size_t i = 0; i != dec->output_buffer.lsf.size() && i != lsf.size(); ++i) dec->output_buffer.lsf[i] = lsf[i];
        std::memset(&dec->depuncture_buffer, 0x5A, sizeof dec->depuncture_buffer);
        std::memset(&dec->decode_buffer, 0x5A, sizeof dec->decode_buffer);
        auto buf = frame_of(t[1]);
        size_t cost = 0;
        (*dec)(FD::SyncWordType::STREAM, buf, cost);
        bool clean = true;
        auto chk = [&](const void* p, size_t n) { for (size_t i = 0; i != n; ++i) if (static_cast<const uint8_t*>(p)[i] != 0x5A) clean = false; };
        chk(&dec->depuncture_buffer, sizeof dec->depuncture_buffer);
        chk(&dec->decode_buffer, sizeof dec->decode_buffer);
        emit("lsf=" + vh::to_hex(dec->output_buffer.lsf) + (clean ? "" : " WROTE-OUTSIDE-LSF"));
    } else if (t[0] == "unpackframe" && t.size() == 2) {
        std::string lich = "fail";
        auto dec = std::make_unique<FD>([&](const FD::output_buffer_t& b, int) { if (b.type == FD::FrameType::LICH) lich = "lich=" + vh::to_hex(b.lich); return true; });
        auto buf = frame_of(t[1]);
        size_t cost = 0;
        (*dec)(FD::SyncWordType::STREAM, buf, cost);
        emit(lich);
    } else if ((t[0] == "clk" || t[0] == "clk0") && t.size() == 3) {
        float e = float(std::stod(t[1]) / std::stod(t[2]));
        ClockRecovery<float, 10> cr;
        if (t[0] == "clk") {
            cr.kf_.x[0] = e; cr.kf_.x[1] = 0;
            cr.kf_.P = {{0., 0.}, {0., 0.}};
            cr.count_ = 0;
            cr.update(uint8_t(std::lround(e) % 10));
        } else {
            cr.sample_estimate_ = e; cr.clock_estimate_ = 0; cr.count_ = 0;
            cr.update();
        }
        emit("si=" + std::to_string(int(cr.sample_index_)));
    } else if (t[0] == "corr" && t.size() == 2) {
        // the real Correlator<float>: s<v> = sample(v), c = correlate(weights), o<i> = outer_symbol_levels(i), a<i> = apply(.., i);
        // integral values, so every float operation below is exact.  buffer_ / tmp have no initialiser: prefilled here.
        auto c = std::make_unique<Correlator<float>>();
        for (size_t k = 0; k != c->buffer_.size(); ++k) c->buffer_[k] = -float(k + 1);
        c->tmp.fill(-7000);
        const Correlator<float>::sync_t w{1, 2, 4, 8, 16, 32, 64, -128};
        bool first = true;
        for (auto& op : split_on(t[1], ',')) {
            std::string o;
            long v = op.size() > 1 ? std::stol(op.substr(1)) : 0;
            if (op[0] == 's') { c->sample(float(v)); o = "p=" + std::to_string(c->buffer_pos_) + "." + std::to_string(c->prev_buffer_pos_) + "." + std::to_string(c->index()); }
            else if (op[0] == 'c') o = "c=" + std::to_string((long long)c->correlate(w));
            else if (op[0] == 'o') { c->outer_symbol_levels(size_t(v)); o = "o=" + join_ints(c->tmp, 1000); }
            else if (op[0] == 'a') { std::vector<float> seen; c->apply([&](float x) { seen.push_back(x); }, uint8_t(v)); o = "a=" + join_ints(seen); }
            emit((first ? "" : " ") + o); first = false;
        }
    } else if (t[0] == "sw" && t.size() == 2) {
        // the real SyncWord<> on the scripted correlator: <value>:<index> = operator(), u = updated()
        ScriptedCorrelator sc;
        SyncWord<ScriptedCorrelator> sw({1, 1, 1, 1, 1, 1, 1, 1}, 0.5f, -0.5f);
        sw.samples_.fill(9);
        bool first = true;
        for (auto& op : split_on(t[1], ',')) {
            std::string o;
            if (op == "u") o = "u=" + std::to_string(int(sw.updated()));
            else {
                auto f = split_on(op, ':');
                sc.value = float(std::stol(f[0])); sc.idx = size_t(std::stoul(f[1]));
                size_t r = sw(sc);
                o = "t=" + std::to_string(r) + "." + std::to_string(int(sw.is_triggered())) + "/" + join_ints(sw.samples_);
            }
            emit((first ? "" : " ") + o); first = false;
        }
    } else if (t[0] == "dec" && t.size() == 3) {
        // frames through the real decoder with the application's handle_frame as its callback
        display_lsf = t[1][0] == '1';
        noise_blanker = t[1][1] == '1';
        std::ostringstream err, out;
        auto* olderr = std::cerr.rdbuf(err.rdbuf());
        auto* oldout = std::cout.rdbuf(out.rdbuf());
        int ncb = 0; bool eof_seen = false, proto_ok = true;
        auto dec = std::make_unique<FD>([&](const FD::output_buffer_t& b, int cost) {
            ++ncb;
            bool pkt = b.type == FD::FrameType::BASIC_PACKET || b.type == FD::FrameType::FULL_PACKET;
            if (b.type == FD::FrameType::LSF) eof_seen = false;
            if (pkt) { if (eof_seen) proto_ok = false; if (b.packet[25] & 0x80) eof_seen = true; }
            return handle_frame(b, cost);
        });
        auto frames = split_on(t[2], ';');
        for (size_t i = 0; i != frames.size(); ++i) {
            auto f = split_on(frames[i], ':');
            auto buf = frame_of(f[1]);
            size_t cost = 0;
            ncb = 0;
            bool lichpath = f[0][0] == 'S' && dec->state() == FD::State::LSF;
            std::vector<uint8_t> snap;
            if (lichpath) { snap.resize(sizeof dec->depuncture_buffer); std::memcpy(snap.data(), &dec->depuncture_buffer, snap.size()); }
            auto r = (*dec)(sync_of(f[0][0]), buf, cost);
            bool clean = !lichpath || std::memcmp(snap.data(), &dec->depuncture_buffer, snap.size()) == 0;
            emit(std::string(i ? " | " : "") + res_name(r) + " cbs=" + std::to_string(ncb) + " pk=" + std::to_string(current_packet.size())
                 + (clean ? "" : " WROTE-OUTSIDE-LSF") + (proto_ok ? "" : " PACKET-AFTER-EOF"));
        }
        std::cerr.rdbuf(olderr);
        std::cout.rdbuf(oldout);
    } else emit("?");
}

int main()
{
    codec2 = ::codec2_create(CODEC2_MODE_3200);
    if (!codec2 || codec2_bits_per_frame(codec2) != 64 || codec2_samples_per_frame(codec2) != 160) {
        std::printf("codec2 mode 3200 is not 64 bits / 160 samples per frame\n");
        return 2;
    }
    std::string line;
    while (std::getline(std::cin, line)) {
        auto t = vh::split(line);
        if (t.empty()) continue;
        fflush(stdout);
        int pfd[2];
        if (pipe(pfd) != 0) return 3;
        pid_t pid = fork();
        if (pid == 0) {
            close(pfd[0]);
            dup2(pfd[1], 2);
            close(pfd[1]);
            try {
                run_case(t);
            } catch (std::exception& e) {
                // nothing in the application catches exceptions from the handlers: std::terminate
                fprintf(stderr, "uncaught exception: %s\n", e.what());
                fflush(stdout);
                abort();
            }
            fflush(stdout);
            _exit(0);
        }
        close(pfd[1]);
        std::string report;
        char buf[4096];
        ssize_t n;
        while ((n = read(pfd[0], buf, sizeof buf)) > 0) report.append(buf, size_t(n));
        close(pfd[0]);
        int status = 0;
        waitpid(pid, &status, 0);
        bool died = !(WIFEXITED(status) && WEXITSTATUS(status) == 0);
        if (died) {
            for (auto& c : report) if (c == '\n' || c == '\t' || c == '\r') c = ' ';
            if (report.size() > 1500) report.resize(1500);
            std::printf(" | DIED\t#status=%d %s\n", status, report.c_str());
        } else {
            std::printf("\n");
        }
        fflush(stdout);
    }
    return 0;
}
