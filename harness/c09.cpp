// C09 harness: drives mobilinkd::CRC16 exactly as the frame decoder does (reset(); operator(); get()).
#include "M17FrameDecoder.h"
#include "common.h"
#include <array>

bool display_lsf = false;
// the engine type exactly as the frame decoder instantiates it
using crc_t = decltype(mobilinkd::M17FrameDecoder::crc_);

static uint16_t crc_of(const std::vector<uint8_t>& m)
{
    crc_t c;
    c.reset();
    for (auto b : m) c(b);
    return c.get();
}

// exhaustive error classes on one frame; prints undetected counts and the first undetected pattern
static void classes(const std::vector<uint8_t>& m)
{
    const size_t nbits = m.size() * 8;
    const uint16_t base = crc_of(m);
    auto flip = [](std::vector<uint8_t>& v, size_t bit) { v[bit >> 3] ^= uint8_t(0x80 >> (bit & 7)); };
    unsigned long single = 0, dbl = 0, burst = 0, nsingle = 0, ndbl = 0, nburst = 0;
    std::string first = "-";
    for (size_t i = 0; i != nbits; ++i) {
        auto v = m; flip(v, i); ++nsingle;
        if (crc_of(v) == base) { if (!single++ && first == "-") first = "single@" + std::to_string(i); }
    }
    for (size_t i = 0; i != nbits; ++i)
        for (size_t j = i + 1; j != nbits; ++j) {
            auto v = m; flip(v, i); flip(v, j); ++ndbl;
            if (crc_of(v) == base) { if (!dbl++ && first == "-") first = "double@" + std::to_string(i) + "," + std::to_string(j); }
        }
    // bursts: first error bit at i, pattern w over the following 15 bits (clipped at the end of the frame)
    for (size_t i = 0; i != nbits; ++i) {
        size_t span = std::min<size_t>(15, nbits - 1 - i);
        for (unsigned w = 0; w != (1u << span); ++w) {
            auto v = m; flip(v, i);
            for (size_t k = 0; k != span; ++k) if (w & (1u << k)) flip(v, i + 1 + k);
            ++nburst;
            if (crc_of(v) == base) { if (!burst++ && first == "-") first = "burst@" + std::to_string(i) + ":" + std::to_string(w); }
        }
    }
    std::printf("single=%lu/%lu double=%lu/%lu burst=%lu/%lu first=%s\n", single, nsingle, dbl, ndbl, burst, nburst, first.c_str());
}

int main()
{
    std::string line;
    while (std::getline(std::cin, line)) {
        auto t = vh::split(line);
        if (t.size() == 2 && t[0] == "crc") {
            auto m = vh::from_hex(t[1]);
            crc_t c; c.reset(); for (auto b : m) c(b);
            auto g = c.get(); auto gb = c.get_bytes();
            auto m2 = m; m2.push_back(gb[0]); m2.push_back(gb[1]);
            std::printf("get=%04x bytes=%s res=%04x\n", g, vh::to_hex(gb).c_str(), crc_of(m2));
        } else if (t.size() == 3 && t[0] == "err") {
            auto m = vh::from_hex(t[1]); auto e = vh::from_hex(t[2]);
            auto x = m; for (size_t i = 0; i != x.size() && i != e.size(); ++i) x[i] ^= e[i];
            std::printf("a=%04x b=%04x\n", crc_of(m), crc_of(x));
        } else if (t.size() == 2 && t[0] == "classes") {
            classes(vh::from_hex(t[1]));
        } else if (!t.empty() && t[0] == "seq") {
            // one engine object, operations in order: R reset, G get, B get_bytes, xx feed byte
            crc_t c;
            std::string out = "seq";
            char buf[32];
            for (size_t i = 1; i != t.size(); ++i) {
                if (t[i] == "R") c.reset();
                else if (t[i] == "G") { std::snprintf(buf, sizeof buf, " g=%04x", c.get()); out += buf; }
                else if (t[i] == "B") { auto gb = c.get_bytes(); out += " b=" + vh::to_hex(gb); }
                else c(uint8_t(std::stoul(t[i], nullptr, 16)));
            }
            std::printf("%s\n", out.c_str());
        } else if (t.size() == 2 && t[0] == "sweep") {
            // crc(byte, reg) for every 16-bit register value; print a digest-friendly dump
            uint8_t byte = uint8_t(std::stoul(t[1], nullptr, 16));
            std::string all; all.reserve(270000);
            char buf[8];
            crc_t c;
            for (unsigned r = 0; r != 65536; ++r) { std::snprintf(buf, sizeof buf, "%04x", c.crc(byte, uint16_t(r))); all += buf; }
            std::printf("SWEEP %s\n", all.c_str());
        } else if (t.size() == 2 && t[0] == "all3") {
            // CRC of every 3-byte message [b0, b1, BYTE]: reaches every register value at a byte boundary
            uint8_t byte = uint8_t(std::stoul(t[1], nullptr, 16));
            std::string all; all.reserve(270000);
            char buf[8];
            for (unsigned m = 0; m != 65536; ++m) {
                std::vector<uint8_t> msg{uint8_t(m >> 8), uint8_t(m & 255), byte};
                std::snprintf(buf, sizeof buf, "%04x", crc_of(msg)); all += buf;
            }
            std::printf("ALL3 %s\n", all.c_str());
        } else std::printf("?\n");
    }
    return 0;
}
