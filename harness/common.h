// Helpers shared by the C++ correspondence harnesses (parsing/printing only).
#pragma once
#include <cstdint>
#include <cstdio>
#include <iostream>
#include <sstream>
#include <string>
#include <vector>

namespace vh {
inline std::vector<uint8_t> from_hex(const std::string& s_)
{
    std::string s = (s_ == "-") ? std::string() : s_;
    std::vector<uint8_t> out;
    for (size_t i = 0; i + 1 < s.size(); i += 2)
        out.push_back(uint8_t(std::stoul(s.substr(i, 2), nullptr, 16)));
    return out;
}
inline std::string to_hex(const uint8_t* p, size_t n)
{
    if (n == 0) return "-";
    static const char* d = "0123456789abcdef";
    std::string s;
    for (size_t i = 0; i != n; ++i) { s.push_back(d[p[i] >> 4]); s.push_back(d[p[i] & 15]); }
    return s;
}
template <typename C> std::string to_hex(const C& c) { return to_hex(reinterpret_cast<const uint8_t*>(c.data()), c.size()); }
inline std::vector<std::string> split(const std::string& line)
{
    std::istringstream is(line);
    std::vector<std::string> v;
    std::string t;
    while (is >> t) v.push_back(t);
    return v;
}
}
