// C04 harness: drives mobilinkd::Golay24 through its API (encode24, decode, syndrome, parity, encode23 and the
// public constexpr table LUT).  Parsing/printing only, plus the exhaustive property oracle ("oracle"), which
// evaluates the statements of the property on the real code over the whole finite domain.
#include "Golay24.h"
#include "common.h"
#include <algorithm>
#include <bit>
#include <cinttypes>

namespace G = mobilinkd::Golay24;

static std::string show_decode(uint32_t r)
{
    uint32_t out = 0;
    bool ok = G::decode(r, out);
    char buf[64];
    if (ok) std::snprintf(buf, sizeof buf, "ok=1 out=%06x", out);
    else std::snprintf(buf, sizeof buf, "ok=0");
    return buf;
}

// all 24-bit patterns of weight <= 4, by weight
template <typename F> static void for_patterns(int maxw, F f)
{
    f(0u, 0);
    for (int i = 0; i < 24; ++i) {
        f(1u << i, 1);
    }
    if (maxw >= 2) for (int i = 0; i < 24; ++i) for (int j = i + 1; j < 24; ++j) f((1u << i) | (1u << j), 2);
    if (maxw >= 3) for (int i = 0; i < 24; ++i) for (int j = i + 1; j < 24; ++j) for (int k = j + 1; k < 24; ++k)
        f((1u << i) | (1u << j) | (1u << k), 3);
    if (maxw >= 4) for (int i = 0; i < 24; ++i) for (int j = i + 1; j < 24; ++j) for (int k = j + 1; k < 24; ++k)
        for (int l = k + 1; l < 24; ++l) f((1u << i) | (1u << j) | (1u << k) | (1u << l), 4);
}

struct Tally {
    unsigned long n = 0, bad = 0;
    std::string first = "-";
    void hit(const char* fmt, uint32_t a, uint32_t b, uint32_t c)
    {
        if (!bad++) { char buf[96]; std::snprintf(buf, sizeof buf, fmt, a, b, c); first = buf; }
    }
};

static void oracle()
{
    Tally sysm, par, lin, minw, corr, wrong, rej4, sound, lend;
    unsigned long accepted = 0;
    unsigned long rejected_by_weight[4] = {0, 0, 0, 0};
    std::vector<uint32_t> cw(4096);
    for (uint32_t d = 0; d != 4096; ++d) {
        uint32_t c = G::encode24(uint16_t(d));
        cw[d] = c;
        ++sysm.n; if ((c >> 12) != d || c >= (1u << 24)) sysm.hit("d=%03x:enc=%06x:%x", d, c, 0);
        ++par.n; if (std::popcount(c) & 1) par.hit("d=%03x:enc=%06x:%x", d, c, 0);
        ++minw.n; if (d != 0 && std::popcount(c) < 8) minw.hit("d=%03x:enc=%06x:w=%u", d, c, unsigned(std::popcount(c)));
    }
    for (uint32_t a = 0; a != 4096; ++a)
        for (int i = 0; i != 12; ++i) {
            uint32_t b = 1u << i; ++lin.n;
            if (cw[a ^ b] != (cw[a] ^ cw[b])) lin.hit("a=%03x:b=%03x:%x", a, b, 0);
        }
    // corrects / rejects4: every data word x every pattern of weight <= 4
    for (uint32_t d = 0; d != 4096; ++d) {
        const uint32_t c = cw[d];
        for_patterns(4, [&](uint32_t e, int w) {
            uint32_t out = 0;
            bool ok = G::decode(c ^ e, out);
            if (w <= 3) {
                ++corr.n;
                if (!ok) { corr.hit("d=%03x:e=%06x:r=%06x", d, e, c ^ e); ++rejected_by_weight[w]; }
                else if ((out >> 12) != d) wrong.hit("d=%03x:e=%06x:out=%06x", d, e, out);
            } else {
                ++rej4.n;
                if (ok) rej4.hit("d=%03x:e=%06x:out=%06x", d, e, out);
            }
        });
    }
    wrong.n = corr.n;
    // soundness: every 24-bit word
    for (uint32_t r = 0; r != (1u << 24); ++r) {
        uint32_t out = 0;
        ++sound.n;
        if (G::decode(r, out)) {
            ++accepted;
            uint32_t d = (out >> 12) & 0xFFF;
            if (out >= (1u << 24) || std::popcount(r ^ cw[d]) > 3) sound.hit("r=%06x:out=%06x:dist=%u", r, out, unsigned(std::popcount(r ^ cw[d])));
        }
    }
    // the search of decode(), repeated on the public table for every 24-bit word (the iterator inside decode() is not
    // observable through the API, and ASan does not instrument the inline constexpr LUT): never end(), key == syndrome
    for (uint32_t r = 0; r != (1u << 24); ++r) {
        auto s = G::syndrome(r >> 1);
        auto it = std::lower_bound(G::LUT.begin(), G::LUT.end(), s,
            [](const G::SyndromeMapEntry& sme, uint32_t val) { return (sme.a >> 8) < val; });
        ++lend.n;
        if (it == G::LUT.end()) lend.hit("r=%06x:syndrome=%06x:idx=%u", r, s, unsigned(it - G::LUT.begin()));
        else if ((it->a >> 8) != s) lend.hit("r=%06x:syndrome=%06x:idx=%u", r, s, unsigned(it - G::LUT.begin()));
    }
    auto p = [](const char* name, const Tally& t) { std::printf("%s=%lu/%lu first=%s\n", name, t.bad, t.n, t.first.c_str()); };
    p("systematic", sysm); p("evenparity", par); p("linear", lin); p("minweight8", minw);
    p("correctable-rejected", corr); p("wrong-data", wrong); p("fourbit-accepted", rej4); p("unsound-accept", sound);
    p("lookup-misses-row", lend);
    std::printf("accepted=%lu\n", accepted);
    std::printf("rejected-correctable-by-weight=0:%lu,1:%lu,2:%lu,3:%lu\n", rejected_by_weight[0], rejected_by_weight[1],
                rejected_by_weight[2], rejected_by_weight[3]);
}

// decode every 24-bit word (used under the sanitizers: `it->a` must stay inside the table)
static void sweep_all()
{
    unsigned long ok = 0; uint64_t h = 7;
    for (uint32_t r = 0; r != (1u << 24); ++r) { uint32_t out = 0; if (G::decode(r, out)) { ++ok; h = (h * 31 + out) % 1000000007ull; } }
    std::printf("sweep ok=%lu h=%" PRIu64 "\n", ok, h);
}

int main(int argc, char** argv)
{
    std::string mode = argc > 1 ? argv[1] : "cases";
    if (mode == "lut") {
        size_t i = 0;
        for (auto& e : G::LUT) { std::printf("row=%zu a=%08x b=%04x\n", i++, unsigned(e.a), unsigned(e.b)); }
        return 0;
    }
    if (mode == "oracle") { oracle(); return 0; }
    if (mode == "sweep") { sweep_all(); return 0; }
    std::string line;
    while (std::getline(std::cin, line)) {
        auto t = vh::split(line);
        if (t.size() == 2 && t[0] == "enc") {
            std::printf("enc24=%06x\n", G::encode24(uint16_t(std::stoul(t[1], nullptr, 16))));
        } else if (t.size() == 2 && t[0] == "enc23") {
            std::printf("enc23=%06x\n", G::encode23(uint16_t(std::stoul(t[1], nullptr, 16))));
        } else if (t.size() == 2 && t[0] == "syn") {
            uint32_t x = uint32_t(std::stoul(t[1], nullptr, 16));
            std::printf("syn=%08x par=%d\n", G::syndrome(x), int(G::parity(x)));
        } else if (t.size() == 2 && t[0] == "dec") {
            std::puts(show_decode(uint32_t(std::stoul(t[1], nullptr, 16))).c_str());
        } else if (t.size() == 2 && t[0] == "idx") {
            // the search of decode(), repeated on the public table (the real one is not observable through the API)
            uint32_t input = uint32_t(std::stoul(t[1], nullptr, 16));
            auto s = G::syndrome(input >> 1);
            auto it = std::lower_bound(G::LUT.begin(), G::LUT.end(), s,
                [](const G::SyndromeMapEntry& sme, uint32_t val) { return (sme.a >> 8) < val; });
            std::printf("idx=%zu\n", size_t(it - G::LUT.begin()));
        } else if (t.size() == 2 && t[0] == "blk") {
            uint32_t hi = uint32_t(std::stoul(t[1], nullptr, 16));
            uint64_t h = 7; unsigned nok = 0;
            for (uint32_t lo = 0; lo != 256; ++lo) {
                uint32_t out = 0; uint64_t v = 0;
                if (G::decode((hi << 8) | lo, out)) { ++nok; v = uint64_t(out) + 1; }
                h = (h * 31 + v) % 1000000007ull;
            }
            std::printf("blk=%04x h=%" PRIu64 " ok=%u\n", hi, h, nok);
        } else std::printf("?\n");
    }
    return 0;
}
