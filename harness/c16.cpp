// C16 harness: real-time probes of blocking and shutdown of mobilinkd::queue<int,SIZE>, through its public API only.
// All probes run concurrently on their own queues along one time line (ms after start):
//   0   every probe thread starts its (possibly blocking) operation
//   80  releases of the 200 ms-timeout probes (counterpart operation / close)
//   300 "still blocked" is sampled for the default-timeout probes, then they are released (counterpart / close)
//   end results are printed 300 ms after the last action (up to 4 s later while some probe has not returned) and the
//       process exits; threads still blocked - possible only for a defective queue - are reported as ret=none.
// Releasing actions are timed from the moment the probe thread really started.  A heartbeat thread reports the longest
// stall of a 1 ms sleeper, so that the caller can tell a disturbed round (machine overloaded) from a slow queue.
// Output: one line per probe:  name ret=<0|1|none> t=<ms from its start to its return> rel=<ms of the releasing
// action, -1 if none> blocked=<sampled just before the release: 1 blocked, 0 already returned, -1 not sampled> extra...
#include "queue.h"
#include <algorithm>
#include <atomic>
#include <chrono>
#include <cstdio>
#include <functional>
#include <memory>
#include <string>
#include <thread>
#include <vector>
#include <unistd.h>

using namespace std::chrono;
using Q1 = mobilinkd::queue<int, 1>;
using Q3 = mobilinkd::queue<int, 3>;
static steady_clock::time_point T0;
static double now_ms() { return duration<double, std::milli>(steady_clock::now() - T0).count(); }

struct Probe {
    std::string name;
    std::atomic<int> ret{-1};          // -1 not returned, 0 false, 1 true
    std::atomic<double> t_start{0}, t_done{-1}, t_rel{-1};
    std::atomic<int> blocked{-1};
    std::string extra;                  // written by the probe thread before ret is set
};
static std::vector<std::unique_ptr<Probe>> probes;
struct Action { double at; std::function<void()> f; };
static std::vector<Action> actions;

static Probe* add(const std::string& name) { probes.emplace_back(new Probe); probes.back()->name = name; return probes.back().get(); }
static void launch(Probe* p, std::function<bool()> op)
{
    std::thread([p, op] { p->t_start = std::max(now_ms(), 0.001); bool r = op(); p->t_done = now_ms(); p->ret = r ? 1 : 0; }).detach();
}
static void wait_started(Probe* p, double at)
{   // the releasing action comes `at` ms after the probe thread really started (robust against a late thread start)
    while (p->t_start.load() == 0 || now_ms() < p->t_start.load() + at) std::this_thread::sleep_for(milliseconds(1));
}
static void release_at(double at, Probe* p, std::function<void()> f)
{
    actions.push_back({at, [p, f, at] { wait_started(p, at); p->blocked = (p->ret.load() == -1) ? 1 : 0; p->t_rel = now_ms(); f(); }});
}
// heartbeat: the longest time a 1 ms sleeper was not scheduled (a stall of the whole machine makes timing margins meaningless)
static std::atomic<double> g_maxgap{0};
static std::atomic<bool> g_stop{false};

enum Tmo { D, T200, Z };
static const char* tmo_name[] = {"default", "200ms", "zero"};
template <class QQ> static bool do_put(QQ& q, int v, Tmo t)
{ return t == D ? q.put(v) : t == T200 ? q.put(v, milliseconds(200)) : q.put(v, seconds(0)); }
template <class QQ> static bool do_get(QQ& q, int& v, Tmo t)
{ return t == D ? q.get(v) : t == T200 ? q.get(v, milliseconds(200)) : q.get(v, milliseconds(0)); }

int main()
{
    T0 = steady_clock::now();
    std::thread([] { double last = now_ms(); while (!g_stop.load()) { std::this_thread::sleep_for(milliseconds(1)); double n = now_ms();
        if (n - last > g_maxgap.load()) g_maxgap = n - last; last = n; } }).detach();
    std::vector<std::shared_ptr<Q1>> keep;
    // ---- A: put on a full queue / get on an empty queue x timeout x releasing action
    for (int kind = 0; kind < 2; ++kind)
        for (Tmo t : {D, T200, Z})
            for (int rel = 0; rel < 3; ++rel) {          // 0 none, 1 counterpart, 2 close
                if (t == Z && rel != 0) continue;
                auto q = std::make_shared<Q1>(); keep.push_back(q);
                if (kind == 0) q->put(7, seconds(0));      // make it full
                Probe* p = add(std::string(kind == 0 ? "put_full" : "get_empty") + "/" + tmo_name[t] + "/" +
                               (rel == 0 ? "none" : rel == 1 ? "peer" : "close"));
                launch(p, [q, kind, t] { int v = 0; return kind == 0 ? do_put(*q, 8, t) : do_get(*q, v, t); });
                double at = (t == T200) ? 80 : 300;
                if (rel == 1) release_at(at, p, [q, kind] { int v; if (kind == 0) q->get(v, milliseconds(0)); else q->put(9, seconds(0)); });
                else if (rel == 2) release_at(at, p, [q] { q->close(); });
                else if (t == D) release_at(600, p, [q] { q->close(); });   // not judged: lets the thread end; blocked is sampled at 600
            }
    // ---- A2: the deadline overload: a getter blocked in get_until(now + 3 s) on an empty queue must return false as soon as close() comes
    //          (and true with the item as soon as a put comes)
    for (int rel = 1; rel <= 2; ++rel) {
        auto q = std::make_shared<Q1>(); keep.push_back(q);
        Probe* p = add(std::string("until_empty/") + (rel == 1 ? "peer" : "close"));
        launch(p, [q] { int v = 0; return q->get_until(v, steady_clock::now() + milliseconds(3000)); });
        if (rel == 1) release_at(300, p, [q] { q->put(9, seconds(0)); });
        else release_at(300, p, [q] { q->close(); });
    }
    // ---- B: close wakes every blocked caller (3 consumers on an empty queue, 3 producers on a full one)
    {
        auto qe = std::make_shared<Q1>(), qf = std::make_shared<Q1>(); keep.push_back(qe); keep.push_back(qf);
        qf->put(1, seconds(0));
        std::vector<Probe*> ps;
        for (int i = 0; i < 3; ++i) { Probe* p = add("wake_all/get/" + std::to_string(i)); ps.push_back(p); launch(p, [qe] { int v; return qe->get(v); }); }
        for (int i = 0; i < 3; ++i) { Probe* p = add("wake_all/put/" + std::to_string(i)); ps.push_back(p); launch(p, [qf, i] { return qf->put(10 + i); }); }
        actions.push_back({300, [ps, qe, qf] {
            for (Probe* p : ps) wait_started(p, 300);
            for (Probe* p : ps) { p->blocked = (p->ret.load() == -1) ? 1 : 0; }
            double t = now_ms(); qe->close(); qf->close(); for (Probe* p : ps) p->t_rel = t; }});
    }
    // ---- B2: close() racing with a put while two consumers are blocked: put; close back to back (queue non-empty at close).
    //          Both consumers must return (one with the item, one with false once the queue is drained).
    {
        auto qr = std::make_shared<Q3>(); static std::vector<std::shared_ptr<Q3>> keep3; keep3.push_back(qr);
        std::vector<Probe*> ps;
        for (int i = 0; i < 2; ++i) { Probe* p = add("close_race/get/" + std::to_string(i)); ps.push_back(p); launch(p, [qr] { int v; return qr->get(v); }); }
        actions.push_back({300, [ps, qr] {
            for (Probe* p : ps) wait_started(p, 300);
            for (Probe* p : ps) { p->blocked = (p->ret.load() == -1) ? 1 : 0; }
            double t = now_ms(); qr->put(1, seconds(0)); qr->close(); for (Probe* p : ps) p->t_rel = t; }});
    }
    // ---- B3: get(); close() back to back while a producer is blocked on a full queue, many trials.  Either the producer's item went in
    //          before close() (queue non-empty at close: CLOSING until drained) or its put() fails; a queue that reports is_closed()
    //          while it still holds an item has accepted a put after close().
    {
        Probe* p = add("close_race_put/trials");
        launch(p, [p] {
            int bad = 0, accepted = 0, refused = 0, lost = 0;
            for (int k = 0; k < 40; ++k) {
                Q1 q; q.put(1, seconds(0));
                std::atomic<int> r{-1};
                std::thread prod([&] { r = q.put(2) ? 1 : 0; });
                std::this_thread::sleep_for(milliseconds(2 + (k % 3)));
                int v = 0; q.get(v, milliseconds(0)); q.close();
                prod.join();
                if (q.is_closed() && q.size() > 0) ++bad;
                if (r == 1) { ++accepted; int w = 0; if (!q.get(w, milliseconds(200)) || w != 2) ++lost; } else ++refused;
            }
            char buf[160]; std::snprintf(buf, sizeof buf, " trials=40 bad=%d accepted=%d refused=%d lost=%d", bad, accepted, refused, lost);
            p->extra = buf;
            return bad == 0 && lost == 0;
        });
    }
    // ---- C: close at fill level k of a capacity-3 queue, then drain
    for (int k : {0, 1, 3}) {
        Probe* p = add("drain/fill" + std::to_string(k));
        launch(p, [p, k] {
            Q3 q; char buf[256]; std::string s;
            for (int i = 0; i < k; ++i) q.put(100 + i);
            q.close();
            std::snprintf(buf, sizeof buf, " open_after_close=%d closed_after_close=%d", int(q.is_open()), int(q.is_closed())); s += buf;
            double a = now_ms(); bool pr = q.put(55); double b = now_ms();
            std::snprintf(buf, sizeof buf, " put_after_close=%d put_ms=%.1f", int(pr), b - a); s += buf;
            std::string vals; bool all = true;
            for (int i = 0; i < k; ++i) { int v = -1; bool ok = q.get(v, milliseconds(300)); all = all && ok; vals += (i ? "," : "") + std::to_string(ok ? v : -1); }
            std::snprintf(buf, sizeof buf, " drained=%s size_after=%zu open_after_drain=%d closed_after_drain=%d", vals.empty() ? "-" : vals.c_str(), q.size(), int(q.is_open()), int(q.is_closed())); s += buf;
            a = now_ms(); int v = -1; bool g = q.get(v, milliseconds(300)); b = now_ms();
            std::snprintf(buf, sizeof buf, " get300_after_drain=%d get300_ms=%.1f", int(g), b - a); s += buf;
            p->extra = s;
            // last: a default get on the drained closed queue must fail at once (a defective queue may block here for ever)
            a = now_ms(); bool g2 = q.get(v); b = now_ms();
            std::snprintf(buf, sizeof buf, " getdefault_after_drain=%d getdefault_ms=%.1f", int(g2), b - a); p->extra = s + buf;
            return all;
        });
    }
    // ---- C2: the same drain through the deadline overload get_until(): close at fill level k, drain with get_until, then the queue must be CLOSED
    for (int k : {1, 3}) {
        Probe* p = add("drain_until/fill" + std::to_string(k));
        launch(p, [p, k] {
            Q3 q; char buf[256]; std::string s;
            for (int i = 0; i < k; ++i) q.put(100 + i);
            q.close();
            std::string vals; bool all = true;
            for (int i = 0; i < k; ++i) { int v = -1; bool ok = q.get_until(v, steady_clock::now() + milliseconds(300)); all = all && ok; vals += (i ? "," : "") + std::to_string(ok ? v : -1); }
            std::snprintf(buf, sizeof buf, " drained=%s size_after=%zu open_after_drain=%d closed_after_drain=%d", vals.c_str(), q.size(), int(q.is_open()), int(q.is_closed())); s += buf;
            double a = now_ms(); int v = -1; bool g = q.get_until(v, steady_clock::now() + milliseconds(300)); double b = now_ms();
            std::snprintf(buf, sizeof buf, " until300_after_drain=%d until300_ms=%.1f", int(g), b - a); s += buf;
            p->extra = s;
            return all;
        });
    }
    // ---- time line
    std::stable_sort(actions.begin(), actions.end(), [](const Action& a, const Action& b) { return a.at < b.at; });
    for (auto& a : actions) { while (now_ms() < a.at) std::this_thread::sleep_for(milliseconds(1)); a.f(); }
    // end: 300 ms after the last action, extended (up to 4 s) while some probe has not returned yet
    double end = now_ms() + 300;
    auto all_done = [] { for (auto& p : probes) if (p->ret.load() == -1) return false; return true; };
    while (now_ms() < end || (!all_done() && now_ms() < end + 4000)) std::this_thread::sleep_for(milliseconds(5));
    g_stop = true;
    std::printf("#heartbeat maxgap_ms=%.1f total_ms=%.1f\n", g_maxgap.load(), now_ms());
    for (auto& p : probes) {
        int r = p->ret.load();
        double td = p->t_done.load(), ts = p->t_start.load(), tr = p->t_rel.load();
        std::printf("%s ret=%s t=%.1f rel=%.1f blocked=%d%s\n", p->name.c_str(), r < 0 ? "none" : r ? "1" : "0",
                    r < 0 ? -1.0 : td - ts, tr < 0 ? -1.0 : tr - ts, p->blocked.load(), p->extra.c_str());
    }
    std::fflush(stdout);
    _exit(0);
}
