// Minimal stand-in for the parts of Blaze that KalmanFilter.h uses (Blaze itself is absent from
// this sandbox): fixed-size dense vectors/matrices with eager evaluation.  Verification harness only.
#pragma once
#include <array>
#include <cmath>
#include <cstddef>
#include <initializer_list>

namespace blaze {

template <typename T, size_t N>
struct StaticVector
{
    std::array<T, N> v{};
    StaticVector() = default;
    StaticVector(std::initializer_list<T> l) { size_t i = 0; for (auto x : l) { if (i < N) v[i++] = x; } }
    T& operator[](size_t i) { return v[i]; }
    const T& operator[](size_t i) const { return v[i]; }
    StaticVector& operator+=(const StaticVector& o) { for (size_t i = 0; i != N; ++i) v[i] += o.v[i]; return *this; }
    static constexpr size_t size() { return N; }
};

template <typename T, size_t R, size_t C>
struct StaticMatrix
{
    std::array<std::array<T, C>, R> m{};
    StaticMatrix() = default;
    StaticMatrix(std::initializer_list<std::initializer_list<T>> l)
    {
        size_t i = 0;
        for (auto& row : l) { size_t j = 0; for (auto x : row) { if (i < R && j < C) m[i][j] = x; ++j; } ++i; }
    }
    T& operator()(size_t i, size_t j) { return m[i][j]; }
    const T& operator()(size_t i, size_t j) const { return m[i][j]; }
};

template <typename T, size_t R, size_t C>
StaticMatrix<T, C, R> trans(const StaticMatrix<T, R, C>& a)
{
    StaticMatrix<T, C, R> r;
    for (size_t i = 0; i != R; ++i) for (size_t j = 0; j != C; ++j) r(j, i) = a(i, j);
    return r;
}

template <typename T, size_t R, size_t K, size_t C>
StaticMatrix<T, R, C> operator*(const StaticMatrix<T, R, K>& a, const StaticMatrix<T, K, C>& b)
{
    StaticMatrix<T, R, C> r;
    for (size_t i = 0; i != R; ++i) for (size_t j = 0; j != C; ++j) { T s = 0; for (size_t k = 0; k != K; ++k) s += a(i, k) * b(k, j); r(i, j) = s; }
    return r;
}

template <typename T, size_t R, size_t C>
StaticVector<T, R> operator*(const StaticMatrix<T, R, C>& a, const StaticVector<T, C>& x)
{
    StaticVector<T, R> r;
    for (size_t i = 0; i != R; ++i) { T s = 0; for (size_t k = 0; k != C; ++k) s += a(i, k) * x[k]; r[i] = s; }
    return r;
}

template <typename T, size_t R, size_t C>
StaticMatrix<T, R, C> operator+(const StaticMatrix<T, R, C>& a, const StaticMatrix<T, R, C>& b)
{
    StaticMatrix<T, R, C> r;
    for (size_t i = 0; i != R; ++i) for (size_t j = 0; j != C; ++j) r(i, j) = a(i, j) + b(i, j);
    return r;
}

template <typename T, size_t R, size_t C>
StaticMatrix<T, R, C> operator-(const StaticMatrix<T, R, C>& a, const StaticMatrix<T, R, C>& b)
{
    StaticMatrix<T, R, C> r;
    for (size_t i = 0; i != R; ++i) for (size_t j = 0; j != C; ++j) r(i, j) = a(i, j) - b(i, j);
    return r;
}

template <typename T, size_t R, size_t C, typename S>
StaticMatrix<T, R, C> operator*(const StaticMatrix<T, R, C>& a, S s)
{
    StaticMatrix<T, R, C> r;
    for (size_t i = 0; i != R; ++i) for (size_t j = 0; j != C; ++j) r(i, j) = T(a(i, j) * s);
    return r;
}

// scalar - vector (element-wise), as Blaze evaluates `z - H * x`
template <typename T, size_t N, typename S>
StaticVector<T, N> operator-(S s, const StaticVector<T, N>& x)
{
    StaticVector<T, N> r;
    for (size_t i = 0; i != N; ++i) r[i] = T(s) - x[i];
    return r;
}

// blaze::isnan(vector): true if any element is NaN (found by ADL from FreqDevEstimator.h)
template <typename T, size_t N>
bool isnan(const StaticVector<T, N>& x)
{
    for (size_t i = 0; i != N; ++i) if (std::isnan(x[i])) return true;
    return false;
}

} // namespace blaze
