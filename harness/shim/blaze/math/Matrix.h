#pragma once
#include "../Math.h"
