// C15/C16 harness for mobilinkd::queue<int,SIZE> (include/m17cxx/queue.h), observed through its public API
// (plus the add-only M17CXX_VERIF hook when the header has it).
//   c15_harness seq                       : stdin lines "<cap> <op>..." -> one line of results per case
//   c15_harness stress cap P C closer N seed : real threads; prints the recorded events in global order
// seq ops: p<v> put default timeout | z<v> put zero timeout | m<v> put 50 ms timeout (only used when it cannot block)
//          g get default | u get_until(now) | c close | o is_open | l is_closed | s size | e empty
#include "queue.h"
#include "common.h"
#include <atomic>
#include <chrono>
#include <cstdlib>
#include <cstring>
#include <thread>
#include <unistd.h>

using namespace std::chrono;
static const long long I64MAX = 9223372036854775807LL;

// ---------------------------------------------------------------- event recorder
struct Ev { int tid; int kind; long long a, b, c, d; };   // kind: 0 INV, 1..7 hook events, 8 RESP
static std::vector<Ev> g_ev;
static std::atomic<size_t> g_n{0};
static thread_local int t_id = 0;
static inline void rec(int kind, long long a = 0, long long b = 0, long long c = 0, long long d = 0)
{
#ifdef C15_NO_REC   // ThreadSanitizer build: the recorder's atomic counter would order all operations and hide races
    (void)kind; (void)a; (void)b; (void)c; (void)d; return;
#endif
    size_t i = g_n.fetch_add(1, std::memory_order_acq_rel);
    if (i < g_ev.size()) g_ev[i] = Ev{t_id, kind, a, b, c, d};
}
extern "C" void verif_trace(int ev, const void*, long arg) { rec(ev, arg); }

// ---------------------------------------------------------------- sequential differential
template <size_t CAP> static std::string run_seq(const std::vector<std::string>& ops)
{
    mobilinkd::queue<int, CAP> q;
    std::string out;
    for (size_t i = 1; i < ops.size(); ++i) {
        const std::string& o = ops[i];
        int v = o.size() > 1 ? std::atoi(o.c_str() + 1) : 0;
        if (!out.empty()) out += ' ';
        switch (o[0]) {
        case 'p': out += q.put(v) ? "1" : "0"; break;
        case 'z': out += q.put(v, seconds(0)) ? "1" : "0"; break;
        case 'm': out += q.put(v, milliseconds(50)) ? "1" : "0"; break;
        case 'g': { int x = -1; bool ok = q.get(x); out += ok ? "v" + std::to_string(x) : std::string("-"); break; }
        case 'u': { int x = -1; bool ok = q.get_until(x, steady_clock::now()); out += ok ? "v" + std::to_string(x) : std::string("-"); break; }
        case 'c': q.close(); out += "."; break;
        case 'o': out += std::to_string(int(q.is_open())); break;
        case 'l': out += std::to_string(int(q.is_closed())); break;
        case 's': out += std::to_string(q.size()); break;
        case 'e': out += std::to_string(int(q.empty())); break;
        default: out += "?";
        }
    }
    return out;
}

// ---------------------------------------------------------------- stress
struct Rng { uint64_t s; uint64_t next() { s += 0x9E3779B97F4A7C15ULL; uint64_t z = s; z = (z ^ (z >> 30)) * 0xBF58476D1CE4E5B9ULL;
    z = (z ^ (z >> 27)) * 0x94D049BB133111EBULL; return z ^ (z >> 31); } unsigned below(unsigned n) { return unsigned(next() % n); } };
static void jitter(Rng& r)
{
    switch (r.below(8)) {
    case 0: std::this_thread::yield(); break;
    case 1: std::this_thread::sleep_for(microseconds(r.below(300))); break;
    case 2: { volatile unsigned x = 0; for (unsigned i = 0, n = r.below(2000); i < n; ++i) x = x + i; break; }
    default: break;
    }
}
static steady_clock::time_point g_t0;
template <size_t CAP> static long long query_k(mobilinkd::queue<int, CAP>& q, int k)
{
    rec(0, 4, k);
    long long v = 0;
    switch (k) { case 0: v = q.is_open(); break; case 1: v = q.is_closed(); break; case 2: v = (long long)q.size(); break; default: v = q.empty(); }
    rec(8, 4, v, k);
    return v;
}
template <size_t CAP> static void query(mobilinkd::queue<int, CAP>& q, Rng& r) { query_k(q, r.below(4)); }
template <size_t CAP> static int stress(int P, int C, int closer, int N, uint64_t seed)
{
    mobilinkd::queue<int, CAP> q;
    g_ev.assign(size_t(P) * N * 40 + size_t(C) * 4000 + 100000, Ev{});
    g_t0 = steady_clock::now();
    std::atomic<int> producers_left{P};
    std::atomic<bool> done{false};
    std::vector<std::thread> th;
    std::thread dog([&] { for (int i = 0; i < 200 && !done.load(); ++i) std::this_thread::sleep_for(milliseconds(50));   // 10 s watchdog
        if (!done.load()) { std::printf("HANG events=%zu\n", g_n.load()); std::fflush(stdout); _exit(3); } });
    for (int p = 0; p < P; ++p)
        th.emplace_back([&, p] {
            t_id = 1 + p; Rng r{seed * 1000003ULL + 17 * (p + 1)};
            for (int i = 0; i < N; ++i) {
                int v = (p + 1) * 1000 + i;
                for (;;) {
                    jitter(r);
                    if (r.below(6) == 0) query(q, r);
                    bool ok; int kind = r.below(4);
                    if (kind == 0) { rec(0, 1, v, 0, 1000000000LL); ok = q.put(v, seconds(0)); }
                    else if (kind == 1) { long long ms = 1 + r.below(3); rec(0, 1, v, ms, 1000000LL); ok = q.put(v, milliseconds(ms)); }
                    else { rec(0, 1, v, I64MAX, 1000000000LL); ok = q.put(v); }
                    rec(8, 1, ok, v);
                    if (ok || !query_k(q, 0)) break;      // a refused put is retried while the queue is open
                }
                if (r.below(4) == 0 && !query_k(q, 0)) break;
            }
            producers_left.fetch_sub(1);
        });
    for (int c = 0; c < C; ++c)
        th.emplace_back([&, c] {
            t_id = 10 + c; Rng r{seed * 7919ULL + 31 * (c + 1)};
            for (;;) {
                jitter(r);
                if (r.below(6) == 0) query(q, r);
                int v = -1; bool ok; int kind = r.below(4);
                if (kind == 0) { long long ms = 1 + r.below(3); rec(0, 2, ms, 1000000LL); ok = q.get(v, milliseconds(ms)); }
                else if (kind == 1) { long long ns = duration_cast<nanoseconds>(steady_clock::now() - g_t0).count() + 1000000LL * (1 + r.below(3));
                    rec(0, 3, ns); ok = q.get_until(v, g_t0 + nanoseconds(ns)); }
                else { rec(0, 2, I64MAX, 1000000000LL); ok = q.get(v); }
                rec(8, 2, ok, v);
                if (!ok && query_k(q, 1)) break;
            }
        });
    if (closer)
        th.emplace_back([&] {
            t_id = 20; Rng r{seed ^ 0xC105EULL};
            std::this_thread::sleep_for(microseconds(r.below(unsigned(200 + 60 * N * P))));
            rec(0, 5); q.close(); rec(8, 5, 0);
        });
    for (size_t i = 0; i < size_t(P); ++i) th[i].join();
    if (closer) th.back().join();
    { t_id = 21; rec(0, 5); q.close(); rec(8, 5, 0); }     // main closes (again) once the producers are done
    for (size_t i = P; i < size_t(P + C); ++i) th[i].join();
    t_id = 21; query_k(q, 1); query_k(q, 2);
    done.store(true); dog.join();
    size_t n = std::min(g_n.load(), g_ev.size());
    if (g_n.load() > g_ev.size()) { std::printf("OVERFLOW\n"); return 4; }
    static const char* names[] = {"INV", "LOCK", "WENTER", "WEXIT", "PUSH", "POP", "STATE", "RET", "RESP"};
    for (size_t i = 0; i < n; ++i) { const Ev& e = g_ev[i]; std::printf("%d %s %lld %lld %lld %lld\n", e.tid, names[e.kind], e.a, e.b, e.c, e.d); }
    return 0;
}

int main(int argc, char** argv)
{
    std::string mode = argc > 1 ? argv[1] : "seq";
    if (mode == "seq") {
        std::string line;
        while (std::getline(std::cin, line)) {
            auto t = vh::split(line);
            if (t.empty()) { std::puts("?"); continue; }
            int cap = std::atoi(t[0].c_str());
            std::string r = cap == 1 ? run_seq<1>(t) : cap == 2 ? run_seq<2>(t) : cap == 3 ? run_seq<3>(t) : std::string("?");
            std::puts(r.empty() ? "(none)" : r.c_str());
        }
        return 0;
    }
    if (mode == "wakeups") {
        // Lost-wakeup scenarios (deterministic in structure, repeated): every blocked caller must be released when the
        // queue changes so that it can proceed.  (a) K consumers blocked on an empty queue, K puts back to back;
        // (b) K producers blocked on a full queue, K gets back to back.  A caller still blocked 2 s later is reported.
        using namespace std::chrono;
        int trials = argc > 2 ? std::atoi(argv[2]) : 20;
        for (int trial = 0; trial != trials; ++trial) {
            for (int K = 2; K <= 3; ++K) {
                {   // (a)
                    mobilinkd::queue<int, 3> q;
                    std::atomic<int> done{0}, got{0};
                    std::vector<std::thread> cs;
                    for (int i = 0; i != K; ++i) cs.emplace_back([&] { int v; if (q.get(v)) ++got; ++done; });
                    std::this_thread::sleep_for(milliseconds(30));
                    for (int i = 0; i != K; ++i) q.put(100 + i);
                    auto end = steady_clock::now() + seconds(2);
                    while (done.load() != K && steady_clock::now() < end) std::this_thread::sleep_for(milliseconds(1));
                    int d = done.load(); size_t left = q.size();
                    q.close();
                    for (auto& t : cs) t.join();
                    if (d != K) { std::printf("LOST-WAKEUP kind=consumers blocked=%d returned=%d items_left_in_queue=%zu trial=%d\n", K, d, left, trial); return 0; }
                }
                {   // (b)
                    mobilinkd::queue<int, 2> q;
                    q.put(1); q.put(2);
                    std::atomic<int> done{0};
                    std::vector<std::thread> ps;
                    for (int i = 0; i != K; ++i) ps.emplace_back([&, i] { q.put(10 + i); ++done; });
                    std::this_thread::sleep_for(milliseconds(30));
                    int v;
                    for (int i = 0; i != K; ++i) q.get(v, milliseconds(500));
                    auto end = steady_clock::now() + seconds(2);
                    while (done.load() != K && steady_clock::now() < end) std::this_thread::sleep_for(milliseconds(1));
                    int d = done.load(); size_t sz = q.size();
                    q.close();
                    for (auto& t : ps) t.join();
                    if (d != K) { std::printf("LOST-WAKEUP kind=producers blocked=%d returned=%d queue_size=%zu capacity=2 trial=%d\n", K, d, sz, trial); return 0; }
                }
            }
        }
        std::printf("wakeups ok trials=%d\n", trials);
        return 0;
    }
    if (mode == "stress" && argc >= 8) {
        int cap = std::atoi(argv[2]), P = std::atoi(argv[3]), C = std::atoi(argv[4]), closer = std::atoi(argv[5]), N = std::atoi(argv[6]);
        uint64_t seed = std::strtoull(argv[7], nullptr, 10);
        return cap == 1 ? stress<1>(P, C, closer, N, seed) : cap == 2 ? stress<2>(P, C, closer, N, seed) : stress<3>(P, C, closer, N, seed);
    }
    std::fprintf(stderr, "usage: c15_harness seq | stress cap P C closer N seed\n");
    return 2;
}
