// C19 harness: drives the real BaseFirFilter / BaseIirFilter / SlidingDFT / NSlidingDFT (float and double) and
// the real tap arrays, same line protocol as ocaml/c19_driver.ml.  Parsing/printing plus, per case, the
// DEFINING SUM of the property evaluated independently in long double (convolution, difference equation,
// direct DFT of the window) so that a deviation names a concrete sample index.
//
// All numbers are printed as C99 hex floats (exact).
#define main m17_mod_main              // apps/m17-mod.cpp is included for its rrc_taps / evm_b / evm_a
#include "m17-mod.cpp"
#undef main
#include "M17Demodulator.h"
#include "M17Modulator.h"
#include "FirFilter.h"
#include "IirFilter.h"
#include "SlidingDFT.h"
#include "DataCarrierDetect.h"
#include "Correlator.h"
#include "common.h"

#include <cmath>
#include <complex>
#include <cstring>
#include <functional>
#include <memory>

bool display_lsf = false;

using ld = long double;
static const ld PI2 = 2.0L * 3.14159265358979323846264338327950288L;

template <typename T> static void put(T v) { std::printf("%a", double(v)); }
static void putld(ld v) { std::printf("%La", v); }

static std::vector<long> ints(const std::vector<std::string>& t, size_t from)
{
    std::vector<long> v;
    for (size_t i = from; i < t.size(); ++i) v.push_back(std::stol(t[i]));
    return v;
}
static std::vector<long> csv(const std::string& s)
{
    std::vector<long> v; std::stringstream ss(s); std::string x;
    while (std::getline(ss, x, ',')) v.push_back(std::stol(x));
    return v;
}

// ------------------------------------------------------------------------------------------------ FIR
// tolerance of the property statement: float N*2^-20*max|x|*sum|taps|, double 2^-45*max|x|*sum|taps|
template <typename T> static ld fir_eps(size_t N) { return sizeof(T) == 4 ? ld(N) * std::ldexp(1.0L, -20) : std::ldexp(1.0L, -45); }

template <typename T, size_t N>
static void run_fir(const std::array<T, N>& taps, long reset, size_t emit, int q, const std::vector<long>& ks)
{
    mobilinkd::BaseFirFilter<T, N> f(taps);
    std::vector<T> x(ks.size());
    ld maxx = 0, sumt = 0;
    for (size_t i = 0; i != ks.size(); ++i) { x[i] = T(std::ldexp(double(ks[i]), -q)); maxx = std::max(maxx, std::fabs(ld(x[i]))); }
    for (auto t : taps) sumt += std::fabs(ld(t));
    const ld tol = fir_eps<T>(N) * maxx * sumt;
    std::vector<T> y(x.size());
    long bad = -1; ld maxerr = 0, badexp = 0; size_t at = 0;
    size_t start = 0;                                   // first sample after the last reset()
    for (size_t n = 0; n != x.size(); ++n) {
        if (reset >= 0 && size_t(reset) == n) { f.reset(); start = n; }
        y[n] = f(x[n]);
        // defining sum: sum_{i<N, n-i>=start} taps_i * x_{n-i}
        ld s = 0;
        for (size_t i = 0; i != N && i + start <= n; ++i) s += ld(taps[i]) * ld(x[n - i]);
        ld err = std::fabs(ld(y[n]) - s);
        if (err > maxerr) { maxerr = err; at = n; }
        if (bad < 0 && !(err <= tol)) { bad = long(n); badexp = s; }
    }
    std::printf("n=%zu N=%zu bad=%ld maxerr=", x.size(), N, bad); putld(maxerr);
    std::printf(" at=%zu tol=", at); putld(tol);
    if (bad >= 0) { std::printf(" exp="); putld(badexp); std::printf(" act="); put(y[bad]); }
    std::printf(" y=");
    for (size_t n = 0; n != std::min(emit, y.size()); ++n) { if (n) std::putchar(','); put(y[n]); }
    std::printf("\n");
}

template <typename T, size_t N>
static void fir_custom(const std::vector<long>& m, int qt, long reset, size_t emit, int q, const std::vector<long>& ks)
{
    std::array<T, N> taps;
    for (size_t i = 0; i != N; ++i) taps[i] = T(std::ldexp(double(m[i]), -qt));
    run_fir<T, N>(taps, reset, emit, q, ks);
}

template <typename T>
static bool fir_case(const std::string& tbl, long reset, size_t emit, int q, const std::vector<long>& ks)
{
    if (tbl == "rxd") { if constexpr (std::is_same_v<T, double>) { run_fir<double, 150>(mobilinkd::detail::Taps<double>::rrc_taps, reset, emit, q, ks); return true; } return false; }
    if (tbl == "rxf") { if constexpr (std::is_same_v<T, float>) { run_fir<float, 150>(mobilinkd::detail::Taps<float>::rrc_taps, reset, emit, q, ks); return true; } return false; }
    if (tbl == "mod") { if constexpr (std::is_same_v<T, double>) { run_fir<double, std::tuple_size<decltype(::rrc_taps)>::value>(::rrc_taps, reset, emit, q, ks); return true; } return false; }
    if (tbl.rfind("c:", 0) == 0) {       // c:<qt>:<m0,m1,...>
        auto p = tbl.find(':', 2);
        int qt = std::stoi(tbl.substr(2, p - 2));
        auto m = csv(tbl.substr(p + 1));
        switch (m.size()) {
        case 1: fir_custom<T, 1>(m, qt, reset, emit, q, ks); return true;
        case 2: fir_custom<T, 2>(m, qt, reset, emit, q, ks); return true;
        case 3: fir_custom<T, 3>(m, qt, reset, emit, q, ks); return true;
        case 4: fir_custom<T, 4>(m, qt, reset, emit, q, ks); return true;
        case 7: fir_custom<T, 7>(m, qt, reset, emit, q, ks); return true;
        case 16: fir_custom<T, 16>(m, qt, reset, emit, q, ks); return true;
        case 33: fir_custom<T, 33>(m, qt, reset, emit, q, ks); return true;
        }
    }
    return false;
}

// ------------------------------------------------------------------------------------------------ IIR
// reference: the difference equation y_n = sum b_i x_{n-i} - sum_{i>=1} a_i y_{n-i} run in long double.
// scale S = max_n|w_n| * max(1, sum|b_i|)  (w = direct-form-II state, computed in long double: rounding enters at the
// state and reaches the output through b/a); tolerance float N*2^-20*S, double N*2^-49*S
template <typename T, size_t N>
static void run_iir(const std::array<T, N>& b, const std::array<T, N>& a, size_t emit, int q, const std::vector<long>& ks)
{
    mobilinkd::BaseIirFilter<T, N> f(b, a);
    std::vector<ld> X(ks.size()), Y(ks.size()), W(ks.size());
    ld sumb = 0, maxw = 0;
    for (auto t : b) sumb += std::fabs(ld(t));
    std::vector<T> y(ks.size());
    long bad = -1; ld maxerr = 0, badexp = 0; size_t at = 0;
    const ld eps = sizeof(T) == 4 ? ld(N) * std::ldexp(1.0L, -20) : ld(N) * std::ldexp(1.0L, -49);
    // pass 1: reference and scale
    for (size_t n = 0; n != ks.size(); ++n) {
        X[n] = ld(T(std::ldexp(double(ks[n]), -q)));
        ld s = 0, w = X[n];
        for (size_t i = 0; i != N && i <= n; ++i) s += ld(b[i]) * X[n - i];
        for (size_t i = 1; i != N && i <= n; ++i) { s -= ld(a[i]) * Y[n - i]; w -= ld(a[i]) * W[n - i]; }
        Y[n] = s; W[n] = w;
        maxw = std::max(maxw, std::fabs(w));
    }
    const ld tol = eps * maxw * std::max(ld(1), sumb);
    for (size_t n = 0; n != ks.size(); ++n) {
        y[n] = f(T(X[n]));
        ld err = std::fabs(ld(y[n]) - Y[n]);
        if (err > maxerr) { maxerr = err; at = n; }
        if (bad < 0 && !(err <= tol)) { bad = long(n); badexp = Y[n]; }
    }
    std::printf("n=%zu N=%zu bad=%ld maxerr=", ks.size(), N, bad); putld(maxerr);
    std::printf(" at=%zu tol=", at); putld(tol);
    if (bad >= 0) { std::printf(" exp="); putld(badexp); std::printf(" act="); put(y[bad]); }
    std::printf(" y=");
    for (size_t n = 0; n != std::min(emit, y.size()); ++n) { if (n) std::putchar(','); put(y[n]); }
    std::printf("\n");
}

template <typename T, size_t N>
static void iir_custom(const std::vector<long>& bm, const std::vector<long>& am, int qc, size_t emit, int q, const std::vector<long>& ks)
{
    std::array<T, N> b, a;
    for (size_t i = 0; i != N; ++i) { b[i] = T(std::ldexp(double(bm[i]), -qc)); a[i] = T(std::ldexp(double(am[i]), -qc)); }
    run_iir<T, N>(b, a, emit, q, ks);
}

template <typename T>
static bool iir_case(const std::string& coef, size_t emit, int q, const std::vector<long>& ks)
{
    if (coef == "corrd") { if constexpr (std::is_same_v<T, double>) { run_iir<double, 3>(mobilinkd::Correlator<double>::b, mobilinkd::Correlator<double>::a, emit, q, ks); return true; } return false; }
    if (coef == "corrf") { if constexpr (std::is_same_v<T, float>) { run_iir<float, 3>(mobilinkd::Correlator<float>::b, mobilinkd::Correlator<float>::a, emit, q, ks); return true; } return false; }
    if (coef == "evm") { if constexpr (std::is_same_v<T, double>) { run_iir<double, 3>(::evm_b, ::evm_a, emit, q, ks); return true; } return false; }
    if (coef.rfind("c:", 0) == 0) {      // c:<qc>:<b0,..>:<a0,..>
        auto p1 = coef.find(':', 2), p2 = coef.find(':', p1 + 1);
        int qc = std::stoi(coef.substr(2, p1 - 2));
        auto bm = csv(coef.substr(p1 + 1, p2 - p1 - 1)), am = csv(coef.substr(p2 + 1));
        if (bm.size() != am.size()) return false;
        switch (bm.size()) {
        case 1: iir_custom<T, 1>(bm, am, qc, emit, q, ks); return true;
        case 2: iir_custom<T, 2>(bm, am, qc, emit, q, ks); return true;
        case 3: iir_custom<T, 3>(bm, am, qc, emit, q, ks); return true;
        case 5: iir_custom<T, 5>(bm, am, qc, emit, q, ks); return true;
        }
    }
    return false;
}

// ------------------------------------------------------------------------------------------------ sliding DFT
// oracle: direct DFT of the last N samples (zero padded before the start) at f/SampleRate, long double twiddles.
// compared quantity: |result| against |X|; tolerance (u + gap) * N * (4 + n) * max|x| with u = 2^-24 (float), 2^-53 (double)
// and gap = |1 - rho| (the damping factor as rounded to T, passed in from the regenerated constants; 0 for NSlidingDFT):
// the recurrence is only marginally stable; the rounded coefficient c has |c^N - 1| <= ~N*u, so that a term
// (c^N - 1) * (sum over ALL older samples) leaks into the window sum; and the damping multiplies the accumulator by rho
// while the sample leaving the window is subtracted undamped.  All three effects grow linearly with the run length n.
template <typename T> static ld dft_eps() { return sizeof(T) == 4 ? std::ldexp(1.0L, -24) : std::ldexp(1.0L, -53); }

struct DftOut { long bad = -1; ld maxerr = 0, tolbad = 0, exp = 0, act = 0, gap = 0; size_t at = 0; };

template <typename T>
static void dft_check(DftOut& o, const std::vector<T>& x, size_t n, size_t N, ld frac, std::complex<T> r, ld maxx)
{
    ld re = 0, im = 0;
    for (size_t j = 0; j != N; ++j) {
        // window element j is x_{n-N+1+j}
        if (n + 1 + j < N) continue;
        ld v = ld(x[n + 1 + j - N]);
        ld ang = -PI2 * frac * ld(j);
        re += v * std::cos(ang); im += v * std::sin(ang);
    }
    ld mag = std::sqrt(re * re + im * im);
    ld act = std::sqrt(ld(r.real()) * ld(r.real()) + ld(r.imag()) * ld(r.imag()));
    ld err = std::fabs(act - mag);
    ld tol = (dft_eps<T>() + o.gap) * ld(N) * (4 + ld(n)) * maxx;
    if (err > o.maxerr) { o.maxerr = err; o.at = n; }
    if (o.bad < 0 && !(err <= tol)) { o.bad = long(n); o.exp = mag; o.act = act; o.tolbad = tol; }
}

static void dft_report(const char* tag, size_t n, size_t N, const DftOut& o)
{
    std::printf("%s n=%zu N=%zu bad=%ld maxerr=", tag, n, N, o.bad); putld(o.maxerr); std::printf(" at=%zu", o.at);
    if (o.bad >= 0) { std::printf(" tol="); putld(o.tolbad); std::printf(" exp="); putld(o.exp); std::printf(" act="); putld(o.act); }
}

// check every `stride`-th output (and all of the first 4N) against the direct DFT
static bool checked_index(size_t n, size_t N, size_t total) { return n < 4 * N || n % 97 == 0 || n + 2 * N >= total; }

template <typename T, size_t SR, size_t F, size_t ACC>
static void run_sdft(size_t emit, int q, ld gap, const std::vector<long>& ks)
{
    constexpr size_t N = SR / ACC;
    // the coefficient, observed through the API: the response of a fresh instance to a unit sample is 1*coeff
    std::complex<T> coeff = mobilinkd::SlidingDFT<T, SR, F, ACC>()(T(1));
    mobilinkd::SlidingDFT<T, SR, F, ACC> dft;
    std::vector<T> x(ks.size()); ld maxx = 0;
    for (size_t i = 0; i != ks.size(); ++i) { x[i] = T(std::ldexp(double(ks[i]), -q)); maxx = std::max(maxx, std::fabs(ld(x[i]))); }
    std::vector<std::complex<T>> y(x.size());
    DftOut o; o.gap = gap;
    for (size_t n = 0; n != x.size(); ++n) {
        y[n] = dft(x[n]);
        if (n + 1 >= N && checked_index(n, N, x.size())) dft_check<T>(o, x, n, N, ld(F) / ld(SR), y[n], maxx);
    }
    dft_report("sdft", x.size(), N, o);
    std::printf(" coeff="); put(coeff.real()); std::putchar(':'); put(coeff.imag());
    std::printf(" y=");
    for (size_t n = 0; n != std::min(emit, y.size()); ++n) { if (n) std::putchar(','); put(y[n].real()); std::putchar(':'); put(y[n].imag()); }
    std::printf("\n");
}

template <typename T, typename NDFT, size_t K>
static void run_nsdft_with(std::function<std::unique_ptr<NDFT>()> make, size_t N, size_t SR, const std::array<size_t, K>& freqs,
                           size_t emit, int q, const std::vector<long>& ks)
{
    auto probe = make();
    auto c = (*probe)(T(1));              // coefficients through the API
    auto dft = make();
    std::vector<T> x(ks.size()); ld maxx = 0;
    for (size_t i = 0; i != ks.size(); ++i) { x[i] = T(std::ldexp(double(ks[i]), -q)); maxx = std::max(maxx, std::fabs(ld(x[i]))); }
    std::vector<typename NDFT::result_type> y(x.size());
    DftOut o; size_t badbin = 0;
    for (size_t n = 0; n != x.size(); ++n) {
        y[n] = (*dft)(x[n]);
        if (n + 1 >= N && checked_index(n, N, x.size()))
            for (size_t k = 0; k != K; ++k) { long before = o.bad; dft_check<T>(o, x, n, N, ld(freqs[k]) / ld(SR), y[n][k], maxx); if (before < 0 && o.bad >= 0) badbin = k; }
    }
    dft_report("nsdft", x.size(), N, o);
    std::printf(" bin=%zu coeff=", badbin);
    for (size_t k = 0; k != K; ++k) { if (k) std::putchar(';'); put(c[k].real()); std::putchar(':'); put(c[k].imag()); }
    std::printf(" y=");
    for (size_t n = 0; n != std::min(emit, y.size()); ++n) {
        if (n) std::putchar(',');
        for (size_t k = 0; k != K; ++k) { if (k) std::putchar(';'); put(y[n][k].real()); std::putchar(':'); put(y[n][k].imag()); }
    }
    std::printf("\n");
}

template <typename T>
static bool sdft_case(const std::string& cfg, size_t emit, int q, ld gap, const std::vector<long>& ks)
{
    if (cfg == "s48") { run_sdft<T, 48000, 3000, 1000>(emit, q, gap, ks); return true; }   // N = 48, bin 3
    if (cfg == "s24") { run_sdft<T, 48000, 6000, 2000>(emit, q, gap, ks); return true; }   // N = 24, bin 3
    if (cfg == "s8") { run_sdft<T, 8, 2, 1>(emit, q, gap, ks); return true; }              // N = 8, bin 2
    if (cfg == "s5") { run_sdft<T, 5, 1, 1>(emit, q, gap, ks); return true; }              // N = 5, bin 1
    if (cfg.rfind("dcd:", 0) == 0) {      // dcd:<N>:<SampleRate>:<f1>,<f2>  (numbers for the ORACLE, from the regenerated constants)
        // the data-carrier-detect DFT exactly as M17Demodulator<T> constructs it
        using Demod = mobilinkd::M17Demodulator<T>;
        using DCD = decltype(Demod::dcd);
        using NDFT = typename DCD::NDFT;
        auto make = []() {
            Demod d([](mobilinkd::M17FrameDecoder::output_buffer_t const&, int) { return true; });
            return std::make_unique<NDFT>(d.dcd.dft_);          // copy of the configured DFT (state still fresh)
        };
        auto p1 = cfg.find(':', 4), p2 = cfg.find(':', p1 + 1);
        size_t N = std::stoul(cfg.substr(4, p1 - 4)), SR = std::stoul(cfg.substr(p1 + 1, p2 - p1 - 1));
        auto f = csv(cfg.substr(p2 + 1));
        if (f.size() != 2) return false;
        std::array<size_t, 2> fr{size_t(f[0]), size_t(f[1])};
        run_nsdft_with<T, NDFT, 2>(make, N, SR, fr, emit, q, ks);
        return true;
    }
    if (cfg == "n16") {
        using NDFT = mobilinkd::NSlidingDFT<T, 16, 16, 3>;
        std::array<size_t, 3> fr{1, 4, 7};
        run_nsdft_with<T, NDFT, 3>([fr]() { return std::make_unique<NDFT>(fr); }, 16, 16, fr, emit, q, ks);
        return true;
    }
    return false;
}

// ------------------------------------------------------------------------------------------------ tables
template <typename A> static void dump(const char* name, const A& a)
{
    std::printf("%s=", name);
    for (size_t i = 0; i != a.size(); ++i) { if (i) std::putchar(','); put(a[i]); }
}

int main()
{
    std::string line;
    while (std::getline(std::cin, line)) {
        auto t = vh::split(line);
        bool ok = false;
        try {
            if (t.size() >= 7 && t[0] == "fir") {           // fir T tbl q reset emit k...
                long reset = std::stol(t[4]); size_t emit = std::stoul(t[5]); int q = std::stoi(t[3]);
                auto ks = ints(t, 6);
                ok = t[1] == "f" ? fir_case<float>(t[2], reset, emit, q, ks) : fir_case<double>(t[2], reset, emit, q, ks);
            } else if (t.size() >= 6 && t[0] == "iir") {    // iir T coef q emit k...
                size_t emit = std::stoul(t[4]); int q = std::stoi(t[3]);
                auto ks = ints(t, 5);
                ok = t[1] == "f" ? iir_case<float>(t[2], emit, q, ks) : iir_case<double>(t[2], emit, q, ks);
            } else if (t.size() >= 7 && t[0] == "sdft") {   // sdft T cfg q emit gap k...
                size_t emit = std::stoul(t[4]); int q = std::stoi(t[3]);
                ld gap = std::strtold(t[5].c_str(), nullptr);
                auto ks = ints(t, 6);
                ok = t[1] == "f" ? sdft_case<float>(t[2], emit, q, gap, ks) : sdft_case<double>(t[2], emit, q, gap, ks);
            } else if (t.size() == 2 && t[0] == "rho") {     // rho T: the per-step damping of SlidingDFT<T>, measured on a long window
                // N = 4800, DC bin: an impulse, then N-2 zeros; nothing has left the window, so |y[k]| = rho^(k+1)
                auto measure = [](auto tag) {
                    using T = decltype(tag);
                    mobilinkd::SlidingDFT<T, 48000, 0, 10> dft;   // frequency 0: coeff_ = exp(0) = 1 exactly, so only the damping acts
                    std::complex<T> y = dft(T(1));
                    size_t k = 0;
                    for (; k + 2 < 4800; ++k) y = dft(T(0));
                    ld mag = std::hypot(ld(y.real()), ld(y.imag()));
                    std::printf("rho steps=%zu mag=", k + 1); put(T(0)); std::printf(" magld=%.21Lg", mag);
                };
                if (t[1] == "f") measure(float(0)); else measure(double(0));
                ok = true;
                std::printf("\n");
            } else if (t.size() == 1 && t[0] == "tables") {
                // the arrays themselves
                dump("rxd", mobilinkd::detail::Taps<double>::rrc_taps); std::putchar(' ');
                dump("rxf", mobilinkd::detail::Taps<float>::rrc_taps); std::putchar(' ');
                dump("mod", ::rrc_taps); std::putchar(' ');
                dump("corrd_b", mobilinkd::Correlator<double>::b); std::putchar(' ');
                dump("corrd_a", mobilinkd::Correlator<double>::a); std::putchar(' ');
                dump("corrf_b", mobilinkd::Correlator<float>::b); std::putchar(' ');
                dump("corrf_a", mobilinkd::Correlator<float>::a); std::putchar(' ');
                dump("evm_b", ::evm_b); std::putchar(' ');
                dump("evm_a", ::evm_a);
                std::printf("\n");
                ok = true;
            } else if (t.size() == 2 && t[0] == "mtr") {
                // M17Modulator's 79-tap table is a function-local static: observe it through symbols_to_baseband
                // (one symbol of amplitude A at position 0; output n is int16(A * tap_n * 25))
                mobilinkd::M17Modulator::symbols_t s; s.fill(0); s[0] = int8_t(std::stoi(t[1]));
                auto bb = mobilinkd::M17Modulator::symbols_to_baseband(s);
                std::printf("bb=");
                for (size_t i = 0; i != 120; ++i) { if (i) std::putchar(','); std::printf("%d", int(bb[i])); }
                std::printf("\n");
                ok = true;
            }
        } catch (const std::exception& e) {
            std::printf("exception %s\n", e.what());
            ok = true;
        }
        if (!ok) std::printf("?\n");
        std::fflush(stdout);
    }
    return 0;
}
