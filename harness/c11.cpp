// C11 harness: calls mobilinkd::puncture, puncture_bytes, depuncture, depunctured with mobilinkd::P1/P2/P3 at the array
// sizes the modem uses.  The output array is pre-filled with the content given in the case (it is a caller-owned,
// reused buffer in the decoder).  Parsing/printing only.
#include "M17FrameDecoder.h"
#include "Trellis.h"
#include "Util.h"
#include "common.h"
#include <array>

bool display_lsf = false;

template <typename T, size_t N> static bool load(std::array<T, N>& a, const std::vector<uint8_t>& v)
{
    if (v.size() != N) return false;
    for (size_t i = 0; i != N; ++i) a[i] = T(v[i]);
    return true;
}

// the decoder's own buffer types
using DB = mobilinkd::M17FrameDecoder::depunctured_buffer_t;

template <typename TIN, size_t IN, size_t OUT, typename PM>
static std::string do_puncture(const PM& pm, const std::vector<uint8_t>& prev, const std::vector<uint8_t>& data)
{
    std::array<TIN, IN> in; std::array<int8_t, OUT> out;
    if (!load(in, data) || !load(out, prev)) return "size";
    size_t n = mobilinkd::puncture(in, out, pm);
    return vh::to_hex(out) + " " + std::to_string(n);
}

template <size_t IN, size_t OUT, typename PM>
static std::string do_puncture_bytes(const PM& pm, const std::vector<uint8_t>& prev, const std::vector<uint8_t>& data)
{
    std::array<uint8_t, IN> in; std::array<uint8_t, OUT> out;
    if (!load(in, data) || !load(out, prev)) return "size";
    size_t n = mobilinkd::puncture_bytes(in, out, pm);
    return vh::to_hex(out) + " " + std::to_string(n);
}

template <size_t IN, typename OUTARR, typename PM>
static std::string do_depuncture(const PM& pm, const std::vector<uint8_t>& prev, const std::vector<uint8_t>& data)
{
    std::array<int8_t, IN> in; OUTARR out;
    if (!load(in, data) || !load(out, prev)) return "size";
    size_t n = mobilinkd::depuncture(in, out, pm);
    return vh::to_hex(out) + " " + std::to_string(n);
}

template <size_t M, size_t IN, typename PM>
static std::string do_depunctured(const PM& pm, const std::vector<uint8_t>& data)
{
    std::array<int8_t, IN> in;
    if (!load(in, data)) return "size";
    auto r = mobilinkd::depunctured<M>(pm, in);
    return vh::to_hex(r);
}

// depuncture(puncture(x)) with both output arrays pre-filled
template <size_t IN, size_t OUT, typename PM>
static std::string do_roundtrip(const PM& pm, const std::vector<uint8_t>& prev1, const std::vector<uint8_t>& prev2, const std::vector<uint8_t>& data)
{
    std::array<int8_t, IN> in, back; std::array<int8_t, OUT> mid;
    if (!load(in, data) || !load(mid, prev1) || !load(back, prev2)) return "size";
    size_t n1 = mobilinkd::puncture(in, mid, pm);
    size_t n2 = mobilinkd::depuncture(mid, back, pm);
    return vh::to_hex(back) + " " + std::to_string(n1) + " " + std::to_string(n2);
}

int main()
{
    using namespace mobilinkd;
    std::string line;
    while (std::getline(std::cin, line)) {
        auto t = vh::split(line);
        std::string r = "?";
        if (t.size() == 1 && t[0] == "mat") {
            r = vh::to_hex(P1) + " " + vh::to_hex(P2) + " " + vh::to_hex(P3);
        } else if (t.size() == 4 && (t[0] == "p" || t[0] == "pu")) {
            auto prev = vh::from_hex(t[2]), data = vh::from_hex(t[3]);
            bool u = t[0] == "pu";   // uint8_t input as m17-mod.cpp passes it
            if (t[1] == "lsf") r = u ? do_puncture<uint8_t, 488, 368>(P1, prev, data) : do_puncture<int8_t, 488, 368>(P1, prev, data);
            else if (t[1] == "stream") r = u ? do_puncture<uint8_t, 296, 272>(P2, prev, data) : do_puncture<int8_t, 296, 272>(P2, prev, data);
            else if (t[1] == "bert") r = u ? do_puncture<uint8_t, 402, 368>(P2, prev, data) : do_puncture<int8_t, 402, 368>(P2, prev, data);
            else if (t[1] == "packet") r = u ? do_puncture<uint8_t, 420, 368>(P3, prev, data) : do_puncture<int8_t, 420, 368>(P3, prev, data);
        } else if (t.size() == 4 && t[0] == "pb") {
            auto prev = vh::from_hex(t[2]), data = vh::from_hex(t[3]);
            if (t[1] == "lsfb") r = do_puncture_bytes<61, 46>(P1, prev, data);
            else if (t[1] == "streamb") r = do_puncture_bytes<37, 34>(P2, prev, data);
        } else if (t.size() == 4 && t[0] == "d") {
            auto prev = vh::from_hex(t[2]), data = vh::from_hex(t[3]);
            if (t[1] == "lsf") r = do_depuncture<368, decltype(DB::lsf)>(P1, prev, data);
            else if (t[1] == "stream") r = do_depuncture<272, decltype(DB::stream)>(P2, prev, data);
            else if (t[1] == "bert") r = do_depuncture<368, decltype(DB::bert)>(P2, prev, data);
            else if (t[1] == "packet") r = do_depuncture<368, decltype(DB::packet)>(P3, prev, data);
        } else if (t.size() == 3 && t[0] == "dd") {
            auto data = vh::from_hex(t[2]);
            if (t[1] == "lsf") r = do_depunctured<488, 368>(P1, data);
            // depunctured<M> requires M % P == 0 (static_assert): of the modem's geometries only the LSF one qualifies;
            // two more multiples exercise the template with P2 and P3
            else if (t[1] == "s300") r = do_depunctured<300, 275>(P2, data);
            else if (t[1] == "p424") r = do_depunctured<424, 371>(P3, data);
        } else if (t.size() == 5 && t[0] == "rt") {
            auto p1 = vh::from_hex(t[2]), p2 = vh::from_hex(t[3]), data = vh::from_hex(t[4]);
            if (t[1] == "lsf") r = do_roundtrip<488, 368>(P1, p1, p2, data);
            else if (t[1] == "stream") r = do_roundtrip<296, 272>(P2, p1, p2, data);
            else if (t[1] == "bert") r = do_roundtrip<402, 368>(P2, p1, p2, data);
            else if (t[1] == "packet") r = do_roundtrip<420, 368>(P3, p1, p2, data);
        }
        std::printf("%s\n", r.c_str());
    }
    return 0;
}
