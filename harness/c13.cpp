// C13 harness: drives the REAL functions of apps/m17-mod.cpp in-process (main renamed, std::cout captured)
// and calls libcodec2 the way m17-mod's encode() does.  Parsing/printing only.
//
//   lsf <can> <srchex|-> <desthex|->        -> lsf=<30 bytes> out=<bytes send_lsf wrote in bitstream mode>
//   data <fn> <payload16hex>                -> bits=<272 bits packed, 34 bytes>
//   lich <segment5hex> <n>                  -> bits=<96 bits packed, 12 bytes>
//   frame <lsf30hex> <n> <fn> <payload16hex>-> out=<bytes send_audio_frame wrote in bitstream mode>
//   bert <25 bytes hex: 197 generator bits> -> out=<bytes of one iteration of main()'s BERT loop> used=<generate() calls>
//   codec <audio int16le hex|-> [pad]       -> codec=<8-byte encodings of the 160-sample calls m17-mod makes>
//   codecz <n>                              -> the same for n zero samples
//   dirty <can> <srchex> <audio hex> ...    -> out=<bitstream of transmit() run on a stack filled with 0x55>  (audio < 320 samples)
#define main m17_mod_main
#include M17_MOD_SOURCE
#undef main

#include "common.h"
#include <sstream>

namespace {

struct Capture
{
    std::ostringstream out, err;
    std::streambuf* old_out;
    std::streambuf* old_err;
    Capture() : old_out(std::cout.rdbuf(out.rdbuf())), old_err(std::cerr.rdbuf(err.rdbuf())) {}
    ~Capture() { std::cout.rdbuf(old_out); std::cerr.rdbuf(old_err); }
    std::string bytes() const { return out.str(); }
};

std::string hex_of(const std::string& s) { return vh::to_hex(reinterpret_cast<const uint8_t*>(s.data()), s.size()); }

std::string str_of(const std::vector<uint8_t>& v) { return std::string(v.begin(), v.end()); }

template <size_t N>
std::string pack_bits(const std::array<int8_t, N>& a)
{
    std::vector<uint8_t> out((N + 7) / 8, 0);
    for (size_t i = 0; i != N; ++i) if (a[i]) out[i >> 3] |= uint8_t(0x80 >> (i & 7));
    return vh::to_hex(out.data(), out.size());
}
template <size_t N>
std::string pack_bits(const std::array<uint8_t, N>& a)
{
    std::vector<uint8_t> out((N + 7) / 8, 0);
    for (size_t i = 0; i != N; ++i) if (a[i]) out[i >> 3] |= uint8_t(0x80 >> (i & 7));
    return vh::to_hex(out.data(), out.size());
}

std::vector<int16_t> samples_of(const std::string& hex)
{
    auto b = vh::from_hex(hex);
    std::vector<int16_t> s(b.size() / 2);
    for (size_t i = 0; i != s.size(); ++i) s[i] = int16_t(uint16_t(b[2 * i]) | (uint16_t(b[2 * i + 1]) << 8));
    return s;
}

// a generator with the interface make_bert_frame<PRBS> needs, replaying given bits
struct Replay
{
    std::vector<bool> bits;
    size_t used = 0;
    bool generate() { bool b = used < bits.size() ? bits[used] : false; ++used; return b; }
};

__attribute__((noinline)) void dirty_stack()
{
    volatile uint8_t junk[1 << 18];
    for (size_t i = 0; i != sizeof(junk); ++i) junk[i] = 0x55;
}

__attribute__((noinline)) std::string run_transmit(queue_t& queue, const lsf_t& lsf)
{
    Capture cap;
    transmit(queue, lsf);
    return cap.bytes();
}

} // namespace

int main()
{
    std::string line;
    while (std::getline(std::cin, line)) {
        auto t = vh::split(line);
        if (t.size() == 4 && t[0] == "lsf") {
            ::can = int8_t(std::stoi(t[1]));
            ::bitstream = true;
            std::string src = str_of(vh::from_hex(t[2])), dest = str_of(vh::from_hex(t[3]));
            lsf_t lsf;
            std::string out;
            { Capture cap; lsf = send_lsf(src, dest); out = cap.bytes(); }
            std::printf("lsf=%s out=%s\n", vh::to_hex(lsf).c_str(), hex_of(out).c_str());
        } else if (t.size() == 3 && t[0] == "data") {
            codec_frame_t payload{};
            auto p = vh::from_hex(t[2]);
            std::copy_n(p.begin(), std::min(p.size(), payload.size()), payload.begin());
            auto d = make_data_frame(uint16_t(std::stoul(t[1])), payload);
            std::printf("bits=%s\n", pack_bits(d).c_str());
        } else if (t.size() == 3 && t[0] == "lich") {
            std::array<uint8_t, 5> seg{};
            auto p = vh::from_hex(t[1]);
            std::copy_n(p.begin(), std::min(p.size(), seg.size()), seg.begin());
            auto l = make_lich_segment(seg, uint8_t(std::stoul(t[2])));
            std::printf("bits=%s\n", pack_bits(l).c_str());
        } else if (t.size() == 5 && t[0] == "frame") {
            ::bitstream = true;
            auto l = vh::from_hex(t[1]);
            size_t n = std::stoul(t[2]);
            std::array<uint8_t, 5> seg{};
            for (size_t i = 0; i != 5 && n * 5 + i < l.size(); ++i) seg[i] = l[n * 5 + i];
            codec_frame_t payload{};
            auto p = vh::from_hex(t[4]);
            std::copy_n(p.begin(), std::min(p.size(), payload.size()), payload.begin());
            std::string out;
            {
                Capture cap;
                auto lich = make_lich_segment(seg, uint8_t(n));
                auto data = make_data_frame(uint16_t(std::stoul(t[3])), payload);
                send_audio_frame(lich, data);
                out = cap.bytes();
            }
            std::printf("out=%s\n", hex_of(out).c_str());
        } else if (t.size() == 2 && t[0] == "bert") {
            ::bitstream = true;
            auto b = vh::from_hex(t[1]);
            Replay prbs;
            for (size_t i = 0; i != 197; ++i) prbs.bits.push_back(i / 8 < b.size() && (b[i / 8] & (0x80 >> (i & 7))));
            std::string out;
            {
                Capture cap;
                // the body of the BERT loop of main()
                mobilinkd::M17Randomizer<368> randomizer;
                mobilinkd::PolynomialInterleaver<45, 92, 368> interleaver;
                auto frame = make_bert_frame(prbs);
                interleaver.interleave(frame);
                randomizer.randomize(frame);
                output_frame(BERT_SYNC_WORD, frame);
                out = cap.bytes();
            }
            std::printf("out=%s used=%zu\n", hex_of(out).c_str(), prbs.used);
        } else if ((t.size() == 2 || t.size() == 3) && (t[0] == "codec" || t[0] == "codecz")) {
            // what transmit()/encode() hand to codec2: full frames, the padded partial frame, the zero frame;
            // the codec state is carried through all calls.  `codec <audio> [pad]`: the first frame's buffer
            // initially holds `pad` (default 0); `codecz <n>`: n zero samples.
            std::vector<int16_t> s;
            if (t[0] == "codecz") s.assign(std::stoul(t[1]), 0); else s = samples_of(t[1]);
            int16_t pad = (t[0] == "codec" && t.size() == 3) ? int16_t(std::stoi(t[2])) : 0;
            struct CODEC2* c2 = ::codec2_create(CODEC2_MODE_3200);
            std::string all;
            auto enc = [&](const audio_frame_t& a) { auto r = encode(c2, a); all += vh::to_hex(r); };
            audio_frame_t audio; audio.fill(pad);
            size_t index = 0;
            for (auto x : s) { audio[index++] = x; if (index == audio.size()) { index = 0; enc(audio); audio.fill(0); } }
            if (index > 0) enc(audio);
            audio.fill(0);
            enc(audio);
            ::codec2_destroy(c2);
            std::printf("codec=%s\n", all.c_str());
        } else if (t.size() >= 4 && t[0] == "dirty") {
            ::can = int8_t(std::stoi(t[1]));
            ::bitstream = true;
            std::string src = str_of(vh::from_hex(t[2]));
            auto s = samples_of(t[3]);
            lsf_t lsf;
            { Capture cap; lsf = send_lsf(src, ""); }
            queue_t queue;
            for (size_t i = 0; i != s.size() && i != 319; ++i) queue.put(s[i], std::chrono::seconds(1));
            queue.close();
            running = true;
            dirty_stack();
            std::string out = run_transmit(queue, lsf);
            std::printf("out=%s\n", hex_of(out).c_str());
        } else std::printf("?\n");
        std::fflush(stdout);
    }
    return 0;
}
