#!/bin/sh
# tools/mk.sh [targets...]: regenerate coq/_CoqProject + Makefile and build (full .vo) under a timeout
cd "$(dirname "$0")/.."
python3 - <<'PY'
import sys; sys.path.insert(0,'tools')
import vlib
class M: PROPERTY='mk'
vlib.Ctx(M,'quick',0,'/repo').make_project()
PY
cd coq && timeout ${MK_TIMEOUT:-900} make -k -j${MK_JOBS:-8} "$@" 2>&1 | grep -v "^COQDEP\|^COQC"
