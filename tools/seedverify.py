#!/usr/bin/env python3
"""Independently confirm a seeded bug before it is kept under /verif/seeded/<id>/:
   usage: tools/seedverify.py <dir with patch.diff, demo.cpp|demo.sh, meta.json> [...]
   (a) the patch applies to /repo HEAD, (b) the patched tree builds and the repository's suite still passes,
   (c) the demonstration exits 0 on the clean tree and non-zero on the patched tree.
   Scratch copies live under a temp dir outside /repo and /verif and are removed."""
import json
import re
import shutil
import subprocess
import sys
import tempfile
from pathlib import Path

VERIF = Path(__file__).resolve().parent.parent


def sh(cmd, **kw):
    p = subprocess.run(cmd, shell=isinstance(cmd, str), stdout=subprocess.PIPE, stderr=subprocess.STDOUT, text=True, errors="replace", **kw)
    return p.returncode, p.stdout


def run_demo(d, tree, work):
    work.mkdir(parents=True, exist_ok=True)
    if (d / "demo.sh").exists():
        shutil.copy(d / "demo.sh", work / "demo.sh")
        for extra in d.iterdir():
            if extra.name not in ("patch.diff", "meta.json", "demo.sh"):
                if extra.is_file():
                    shutil.copy(extra, work / extra.name)
        return sh(["timeout", "900", "bash", "demo.sh", str(tree)], cwd=work)
    src = (d / "demo.cpp").read_text()
    src = re.sub(r"\\\n\s*(?://|\*)?\s*", " ", src)     # join continued comment lines
    for extra in d.iterdir():
        if extra.is_file() and extra.name not in ("patch.diff", "meta.json"):
            shutil.copy(extra, work / extra.name)
    m = re.search(r"(?:Compile|compile|Build)[^\n]*?:\s*((?:g\+\+|clang\+\+)[^\n]*)", src)
    if not m:
        m = re.search(r"^\s*(?://|\*)\s*((?:g\+\+|clang\+\+)[^\n]*)", src, re.M)
    if not m:
        return 99, "no compile command found in demo.cpp"
    cmd = m.group(1).replace("<tree>", str(tree)).replace("$TREE", str(tree)).replace("${TREE}", str(tree)).replace("TREE", str(tree))
    cmd = cmd.replace("<worktree>", str(tree))
    runpart = None
    if "&&" in cmd:
        cmd, runpart = [x.strip() for x in cmd.split("&&", 1)]
    rc, out = sh("timeout 900 " + cmd, cwd=work)
    if rc != 0:
        return 98, "demo did not compile: " + out[-500:]
    exe = re.search(r"-o\s+(\S+)", cmd)
    exe = exe.group(1) if exe else "a.out"
    rm = re.search(r"Run[^\n]*?:\s*(\./[^\n(]*)", src)
    runcmd = (runpart if runpart else (rm.group(1).strip() if rm else "./" + exe)).replace("TREE", str(tree)).replace("<tree>", str(tree))
    return sh("timeout 900 " + runcmd, cwd=work)


def main():
    ok_all = True
    for arg in sys.argv[1:]:
        d = Path(arg).resolve()
        tmp = Path(tempfile.mkdtemp(prefix="m17-seedverify-"))
        try:
            clean, bad = tmp / "clean", tmp / "changed"
            for t in (clean, bad):
                t.mkdir()
                sh(f"git -C /repo archive HEAD | tar -x -C {t}")
            rc, out = sh(["git", "apply", "--directory", str(bad), "--unsafe-paths", str(d / "patch.diff")], cwd="/")
            if rc != 0:
                rc, out = sh(["patch", "-p1", "-d", str(bad), "-i", str(d / "patch.diff")])
            if rc != 0:
                print(f"{d.name}: PATCH-FAILED {out[-200:]}")
                ok_all = False
                continue
            rc_t, out_t = sh([str(VERIF / "tools" / "baseline.sh"), str(bad)])
            rc_c, out_c = run_demo(d, clean, tmp / "w-clean")
            rc_b, out_b = run_demo(d, bad, tmp / "w-changed")
            good = rc_t == 0 and rc_c == 0 and rc_b not in (0, 98, 99)
            ok_all &= good
            print(f"{d.name}: tests={'pass' if rc_t == 0 else 'FAIL'} demo clean={rc_c} changed={rc_b} -> {'CONFIRMED' if good else 'NOT-CONFIRMED'}")
            if not good:
                print("   clean:", out_c[-300:].replace("\n", " | "))
                print("   changed:", out_b[-300:].replace("\n", " | "))
        finally:
            shutil.rmtree(tmp, ignore_errors=True)
    sys.exit(0 if ok_all else 1)


if __name__ == "__main__":
    main()
