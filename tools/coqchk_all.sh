#!/bin/sh
# Independent re-check of every property file (and everything it depends on) with coqchk; prints the axioms each relies on.
# Not a registered check (takes hours: coqchk re-evaluates every sweep without the VM).  usage: tools/coqchk_all.sh [outdir]
cd "$(dirname "$0")/../coq" || exit 2
OUT="${1:-../build/coqchk}"
mkdir -p "$OUT"
ls Properties_C*.v | sed 's/\.v$//' | xargs -P "${COQCHK_JOBS:-10}" -I{} sh -c \
  'timeout 14400 coqchk -o -silent -Q . M17 M17.{} > "'"$OUT"'/{}.log" 2>&1; echo "{} rc=$?"'
for f in "$OUT"/Properties_C*.log; do
  echo "== $(basename "$f" .log)"; sed -n "/Theory: Set is predicative/,\$p" "$f" | grep -v "^ *$" | head -40
done
