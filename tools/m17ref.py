"""M17 reference encoder written from the protocol specification (DESIGN.md Appendix A).

Used ONLY to *generate* inputs (frames, streams) for the correspondence checks and the
end-to-end rigs; expected values always come from the extracted Coq models or from the
property oracle, never from this file.  Independent of the repository's code.
"""

ALPHABET = " ABCDEFGHIJKLMNOPQRSTUVWXYZ0123456789-/."

SYNC_LSF = bytes([0x55, 0xF7])
SYNC_STREAM = bytes([0xFF, 0x5D])
SYNC_PACKET = bytes([0x75, 0xFF])
SYNC_BERT = bytes([0xDF, 0x55])
EOT_MARKER = bytes([0x55, 0x5D])
PREAMBLE = bytes([0x77] * 48)

DC = bytes.fromhex(
    "d6b5e23082ff8462ba4e9690d898dd5d0cc85243911df86e682f35da14eacd76198dd580d133871357182d2978c3")

P1 = [1, 1, 0, 1] * 15 + [1]          # 61 entries
P2 = [1] * 11 + [0]
P3 = [1] * 7 + [0]


def bits_of_bytes(b):
    return [(x >> (7 - i)) & 1 for x in b for i in range(8)]


def bytes_of_bits(bits):
    bits = list(bits) + [0] * ((-len(bits)) % 8)
    return bytes(sum(bits[i + j] << (7 - j) for j in range(8)) for i in range(0, len(bits), 8))


def crc16(data, poly=0x5935, init=0xFFFF):
    reg = init
    for byte in data:
        for i in range(8):
            top = ((reg >> 15) & 1) ^ ((byte >> (7 - i)) & 1)
            reg = (reg << 1) & 0xFFFF
            if top:
                reg ^= poly
    return reg


def encode_callsign(s):
    if s == "" or s is None:
        return bytes([0xFF] * 6)
    v = 0
    for ch in reversed(s):
        v = v * 40 + ALPHABET.index(ch)
    return v.to_bytes(6, "big")


def conv_encode(bits, flush=4):
    """rate 1/2, K=5, G1 = 1 + D^3 + D^4, G2 = 1 + D + D^2 + D^4; `flush` zero bits appended"""
    d = [0, 0, 0, 0]  # d[0] = most recent
    out = []
    for x in list(bits) + [0] * flush:
        out.append(x ^ d[2] ^ d[3])
        out.append(x ^ d[0] ^ d[1] ^ d[3])
        d = [x] + d[:3]
    return out


def puncture(bits, p, out_len=None):
    out = [b for i, b in enumerate(bits) if p[i % len(p)]]
    return out if out_len is None else out[:out_len]


def interleave(bits):
    out = [0] * 368
    for i, b in enumerate(bits):
        out[(45 * i + 92 * i * i) % 368] = b
    return out


def randomize(bits):
    dc = bits_of_bytes(DC)
    return [b ^ d for b, d in zip(bits, dc)]


GOLAY_POLY = 0xC75


def golay_encode24(data12):
    """(23,12) cyclic code with generator 0xC75, systematic, extended by overall even parity; data in the top 12 bits"""
    # remainder of data * x^11 modulo g(x) (degree 11)
    reg = data12 << 11
    for i in range(22, 10, -1):
        if reg & (1 << i):
            reg ^= GOLAY_POLY << (i - 11)
    cw23 = (data12 << 11) | (reg & 0x7FF)
    par = bin(cw23).count("1") & 1
    return (cw23 << 1) | par


def make_lsf(dst, src, typ=None, can=0, meta=bytes(14), stream=True, voice=True):
    if typ is None:
        typ = (1 if stream else 0) | ((2 if voice else 1) << 1) | ((can & 15) << 7)
    body = encode_callsign(dst) + encode_callsign(src) + typ.to_bytes(2, "big") + bytes(meta)
    assert len(body) == 28
    return body + crc16(body).to_bytes(2, "big")


def frame_lsf(lsf30):
    return randomize(interleave(puncture(conv_encode(bits_of_bytes(lsf30)), P1, 368)))


def lich_chunk_bits(lsf30, n):
    chunk = lsf30[5 * n:5 * n + 5] + bytes([(n & 7) << 5])
    bits = bits_of_bytes(chunk)
    out = []
    for k in range(4):
        d = int("".join(map(str, bits[12 * k:12 * k + 12])), 2)
        cw = golay_encode24(d)
        out += [(cw >> (23 - i)) & 1 for i in range(24)]
    return out


def frame_stream(lsf30, lich_n, fn, payload16, eos=False):
    head = ((fn & 0x7FFF) | (0x8000 if eos else 0)).to_bytes(2, "big")
    coded = puncture(conv_encode(bits_of_bytes(head + bytes(payload16))), P2, 272)
    return randomize(interleave(lich_chunk_bits(lsf30, lich_n) + coded))


def frame_stream_raw(lich96, data144bits):
    return randomize(interleave(list(lich96) + puncture(conv_encode(data144bits), P2, 272)))


def frame_packet(data25, eof, counter):
    bits = bits_of_bytes(bytes(data25))[:200] + [1 if eof else 0] + [(counter >> (4 - i)) & 1 for i in range(5)]
    return randomize(interleave(puncture(conv_encode(bits), P3, 368)))


def frame_bert(bits197):
    return randomize(interleave(puncture(conv_encode(list(bits197)), P2, 368)))


def prbs9(n, state=1):
    out = []
    for _ in range(n):
        b = ((state >> 8) ^ (state >> 4)) & 1
        state = ((state << 1) | b) & 0x1FF
        out.append(b)
    return out, state


def soft(bits, mags=7):
    """bit 1 -> +m, bit 0 -> -m (the framer's LLR convention)"""
    if isinstance(mags, int):
        mags = [mags] * len(bits)
    return [m if b else -m for b, m in zip(bits, mags)]


def soft_hex(vals):
    return bytes((v + 256) % 256 for v in vals).hex()


def bitstream(dst, src, can, payloads):
    """the byte stream of a whole stream-mode transmission (what `m17-mod -b` should emit, before zero padding)"""
    lsf = make_lsf(dst, src, can=can)
    out = bytearray(PREAMBLE)
    out += SYNC_LSF + bytes_of_bits(frame_lsf(lsf))
    for fn, p in enumerate(payloads):
        last = fn == len(payloads) - 1
        out += SYNC_STREAM + bytes_of_bits(frame_stream(lsf, fn % 6, fn, p, eos=last))
    out += EOT_MARKER
    return bytes(out), lsf


SYMBOL = {(0, 1): 3, (0, 0): 1, (1, 0): -1, (1, 1): -3}


def symbols_of_bytes(b):
    bits = bits_of_bytes(b)
    return [SYMBOL[(bits[i], bits[i + 1])] for i in range(0, len(bits), 2)]
