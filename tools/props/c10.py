"""C10 — interleaver and randomizer: correspondence (C++ vs extracted ImplInterleave/ImplRandom at every instantiation
site) and property oracle on the real code (position map = pi of the specification for every position and variant,
round trips, transmit-variant/receive-variant compositions, randomizer = xor with the specification's sequence,
applied twice = identity, variants agree)."""
from vlib import COQ, VERIF, AnchorError

PROPERTY = "C10"
CONSTS = ["interleave", "randomizer"]
COQ_TARGETS = ["Properties_C10.vo", "Extract_C10.vo"]
PROPERTIES_FILE = "Properties_C10.v"
LEVEL = "proof"
RULE = ("per distinct PolynomialInterleaver<F1,F2,K> instantiation found in the repository: one-hot frames at every one of the K "
        "positions through interleave/deinterleave x {int8 array, packed bytes} (exhaustive over positions), two index-coded frames, "
        "random frames, frames of extreme soft values (127, -127, -128, 0); randomizer x {soft, bit, byte}: one-hot at every position, "
        "random, extreme values; round trips and transmit/receive compositions on the C++ alone.  A case is non-trivial if the frame "
        "is not all-zero; distinct by (operation, site, content).")
ASSUMPTIONS = ["model = hand-written ImplInterleave.v/ImplRandom.v/ImplUtilBits.v; tie = differential run on the cases of this run + regenerated template arguments and DC table",
               "interleaver/randomizer observed through interleave()/deinterleave()/operator()/randomize() only; sites other than the decoder's are "
               "exercised by instantiating the repository's template at the arguments the translator read at that site"]


def build_model(ctx):
    ctx.model = ctx.build_ocaml("c10_driver", [COQ / "c10_model.mli", COQ / "c10_model.ml", VERIF / "ocaml" / "c10_driver.ml"])


# ------------------------------------------------------------------ helpers
def hx(vals):
    return bytes(v & 255 for v in vals).hex() if vals else "-"


def unhex(s):
    return list(bytes.fromhex(s)) if s and s != "-" else []


def s8(b):
    return b - 256 if b >= 128 else b


def bits_of(bs):
    return [(b >> (7 - j)) & 1 for b in bs for j in range(8)]


def pack(bits):
    out = []
    for i in range(0, len(bits), 8):
        v = 0
        for j, b in enumerate(bits[i:i + 8]):
            v |= (b & 1) << (7 - j)
        out.append(v)
    return out


def get_sites(ctx):
    from consts import interleave
    try:
        return interleave.sites(ctx.repo)
    except AnchorError:
        # the instantiation sites could not be read from the current source: the reference translation's list (same fallback as
        # vlib.Ctx.step_consts); every site is compiled into the harness with these arguments and compared with the model
        import re as _re
        from vlib import REF
        ref = (REF / "ConstsInterleave.v").read_text() if (REF / "ConstsInterleave.v").exists() else ""
        d = _re.search(r"il_default\w*\s*:[^=]*:=\s*\((\d+),\s*(\d+),\s*(\d+)\)", ref)
        m = _re.search(r"il_sites[^=]*:=\s*\[(.*?)\]", ref)
        trip = [tuple(int(x) for x in t) for t in _re.findall(r"\((\d+),\s*(\d+),\s*(\d+)\)", m.group(1))] if m else []
        if not trip:
            return [("default", 45, 92, 368), ("decoder", 45, 92, 368)]
        names = ["decoder", "modulator"] + [f"mod{i}" for i in range(len(trip))]
        dflt = tuple(int(x) for x in d.groups()) if d else trip[0]
        return [("default",) + dflt] + [(n,) + t for n, t in zip(names, trip)]


def py_pi(i):
    return (45 * i + 92 * i * i) % 368


# ------------------------------------------------------------------ case generation
def gen_il_cases(ctx, sites):
    """cases for the differential run; returns (cases, meta) with meta[i] = dict describing case i"""
    r = ctx.rng.fork("c10-il")
    thorough = ctx.tier == "thorough"
    cases, meta = [], []
    seen = {}
    for k, (name, f1, f2, kk) in enumerate(sites):
        seen.setdefault((f1, f2, kk), []).append((k, name))

    def add(k, variant, data, kind):
        cases.append(f"il {k} {variant} {hx(data)}")
        meta.append({"site": k, "variant": variant, "data": list(data), "kind": kind})
        ctx.count(f"il-{variant}-{kind}")

    for (f1, f2, kk), users in seen.items():
        k = users[0][0]
        byte_ok = kk % 8 == 0 and kk >= 8
        nrand = 40 if thorough else 12
        for p in range(kk):
            v = [0] * kk
            v[p] = 1
            add(k, "i8", v, "onehot"); add(k, "di8", v, "onehot")
            if byte_ok:
                add(k, "b", pack(v), "onehot"); add(k, "db", pack(v), "onehot")
        if thorough:  # one-cold frames too (everything marked but one position)
            for p in range(kk):
                v = [0x7F] * kk
                v[p] = 0x80
                add(k, "i8", v, "onecold"); add(k, "di8", v, "onecold")
                if byte_ok:
                    w = [1] * kk; w[p] = 0
                    add(k, "b", pack(w), "onecold"); add(k, "db", pack(w), "onecold")
        for coded in ([i & 0xFF for i in range(kk)], [i >> 8 for i in range(kk)]):
            add(k, "i8", coded, "indexcoded"); add(k, "di8", coded, "indexcoded")
        for _ in range(nrand):
            v = list(r.bytes(kk))
            add(k, "i8", v, "random"); add(k, "di8", v, "random")
            if byte_ok:
                b = list(r.bytes(kk // 8))
                add(k, "b", b, "random"); add(k, "db", b, "random")
        ext = [127, 0x81, 0x80, 0]  # 127, -127, -128, 0
        for fill in ext:
            add(k, "i8", [fill] * kk, "extreme"); add(k, "di8", [fill] * kk, "extreme")
        for _ in range(nrand):
            v = [r.choice(ext) for _ in range(kk)]
            add(k, "i8", v, "extreme"); add(k, "di8", v, "extreme")
        if byte_ok:
            for fill in (0, 0xFF, 0x55, 0xAA):
                add(k, "b", [fill] * (kk // 8), "fill"); add(k, "db", [fill] * (kk // 8), "fill")
    return cases, meta, seen


def gen_rnd_cases(ctx):
    r = ctx.rng.fork("c10-rnd")
    thorough = ctx.tier == "thorough"
    cases, meta = [], []

    def add(variant, data, kind):
        cases.append(f"rnd {variant} {hx(data)}")
        meta.append({"variant": variant, "data": list(data), "kind": kind})
        ctx.count(f"rnd-{variant}-{kind}")

    cases.append("dc"); meta.append({"variant": "dc", "data": [], "kind": "table"})
    for p in range(368):
        for val in (1, 0xFF, 0x7F, 0x80):  # +1, -1, +127, -128 at one position, zero elsewhere
            v = [0] * 368; v[p] = val
            add("soft", v, "onehot")
        v = [0] * 368; v[p] = 1
        add("bits", v, "onehot"); add("nbits", v, "onehot"); add("bytes", pack(v), "onehot")
    ext = [127, 0x81, 0x80, 0, 1, 0xFF, 7, 0xF9]
    for fill in ext:
        add("soft", [fill] * 368, "extreme"); add("bits", [fill] * 368, "extreme")
    for _ in range(60 if thorough else 20):
        add("soft", [r.choice(ext) for _ in range(368)], "extreme")
        add("soft", list(r.bytes(368)), "random")
        add("bits", [r.below(2) for _ in range(368)], "random01")
        add("bits", list(r.bytes(368)), "random-int8")
        add("nbits", [r.below(128) for _ in range(368)], "random-nonneg")
        add("bytes", list(r.bytes(46)), "random")
    for fill in (0, 0xFF, 0x55, 0xAA):
        add("bytes", [fill] * 46, "fill")
    return cases, meta


def meta_from_line(line):
    """reconstruct the description of a differential case from its text (used by --replay)"""
    t = line.split()
    if t[:1] == ["il"] and len(t) == 4:
        d = unhex(t[3])
        return {"site": int(t[1]), "variant": t[2], "data": d, "kind": "onehot" if sum(1 for x in d if x) == 1 and t[2] in ("i8", "di8") else "replay"}
    if t[:1] == ["rnd"] and len(t) == 3:
        return {"variant": t[1], "data": unhex(t[2]), "kind": "replay"}
    if t[:1] == ["dc"]:
        return {"variant": "dc", "data": [], "kind": "table"}
    return None


def ometa_from_line(line):
    t = line.split()
    if t[:1] == ["rt"] and len(t) == 4:
        return ("rt", int(t[1]), t[2], unhex(t[3]))
    if t[:1] == ["rnd2"] and len(t) == 3:
        return ("rnd2", t[1], unhex(t[2]))
    if t[:1] == ["rndx"] and len(t) == 4:
        return ("rndx", t[1], int(t[2]), unhex(t[3]))
    return None


def replay_lines(ctx):
    """the case line(s) recorded in a replay file written by an earlier run, or None"""
    if not ctx.replay_in:
        return None
    import json
    d = json.load(open(ctx.replay_in))
    rep = d.get("replay", {})
    lines = [rep[k] for k in ("case", "case_b") if isinstance(rep.get(k), str)]
    ctx.log(f"replaying {len(lines)} recorded case(s) from {ctx.replay_in}")
    return lines


# ------------------------------------------------------------------ run
def run(ctx):
    sites = get_sites(ctx)
    macro = " ".join(f"X({k},{f1},{f2},{kk})" for k, (_, f1, f2, kk) in enumerate(sites))
    exe = ctx.build_cpp("c10_harness", "c10.cpp", extra=[f"-DC10_SITES={macro}"])
    model = getattr(ctx, "model", None)
    il_cases, il_meta, seen = gen_il_cases(ctx, sites)
    rnd_cases, rnd_meta = gen_rnd_cases(ctx)
    cases = ["sites"] + il_cases + rnd_cases
    meta = [{"kind": "sites"}] + il_meta + rnd_meta
    rl = replay_lines(ctx)
    if rl is not None:   # --replay: exactly the recorded input, on model and implementation
        keep = [(l, meta_from_line(l)) for l in rl if meta_from_line(l)]
        cases = ["sites"] + [l for l, _ in keep]
        meta = [{"kind": "sites"}] + [m for _, m in keep]
    text = "\n".join(cases) + "\n"
    (ctx.workdir / "cases.txt").write_text(text)
    ctx.coverage["interleaver_sites"] = [{"site": n, "args": [f1, f2, kk]} for n, f1, f2, kk in sites]
    impl_out = model_out = spec_out = ""
    if exe:
        rc, impl_out = ctx.run_exe(exe, input_text=text)
        if rc != 0:
            ctx.tie_broken("c10-harness-run", f"harness exited {rc}: {impl_out[-300:]}")
    if model:
        rc, model_out = ctx.run_exe(model, ["impl"], input_text=text)
        if rc != 0:
            ctx.tie_broken("c10-model-run", f"model exited {rc}: {model_out[-300:]}")
        rc, spec_out = ctx.run_exe(model, ["spec"])
    for c, m in zip(cases, meta):
        ctx.case(c, nontrivial=any(m.get("data", [1])))
    # (i) correspondence
    if exe and model:
        ctx.diff_lines("c10-impl-vs-model", cases, impl_out, model_out)
    if not exe:
        return
    a = impl_out.strip("\n").split("\n")
    # specification values from the extracted Spec (fall back to the formula / nothing if the model is unavailable)
    pi = [py_pi(i) for i in range(368)]
    dc = None
    for l in spec_out.split("\n"):
        t = l.split()
        if t[:1] == ["pi"]:
            spi = [int(x) for x in t[1:]]
            if spi != pi:
                ctx.tie_broken("c10-spec-pi", "extracted SpecInterleave.pi_table differs from the formula evaluated by the oracle")
            pi = spi
        elif t[:1] == ["dc"]:
            dc = unhex(t[1])
    if dc is None:
        dc = unhex("d6b5e23082ff8462ba4e9690d898dd5d0cc85243911df86e682f35da14eacd76198dd580d1338713" "57182d2978c3")
    dcbits = bits_of(dc)
    site_names = {}
    for (f1, f2, kk), users in seen.items():
        site_names[users[0][0]] = ", ".join(n for _, n in users)
    if len(cases) > 1:
        ctx.sample({"case": cases[1][:80] + "...", "impl": a[1][:80] + "..." if len(a) > 1 else None})

    # (ii) property oracle on the C++ outputs
    reported = set()
    cur = {"case": None}

    def viol(key, text, replay):
        if key not in reported:
            reported.add(key)
            if cur["case"]:
                replay = dict(replay, case=cur["case"])
            ctx.violation(key, text, replay)

    # every site must be the specification's interleaver
    for k, (name, f1, f2, kk) in enumerate(sites):
        if kk != 368:
            viol("interleave-size", f"PolynomialInterleaver at site {name} has K={kk}, the M17 frame has 368 bits",
                 {"site": name, "template_arguments": [f1, f2, kk]})
    for i, (c, m) in enumerate(zip(cases, meta)):
        if i >= len(a):
            break
        out = a[i]
        cur["case"] = c
        if rl is not None:
            ctx.log(f"replay: {c[:90]}... -> implementation {out[:90]}...")
        if m.get("kind") == "sites" or m.get("variant") == "dc":
            if m.get("variant") == "dc":
                got = [s8(b) for b in unhex(out)]
                exp = [-1 if b else 1 for b in dcbits]
                if got != exp:
                    j = next((j for j in range(min(len(got), len(exp))) if got[j] != exp[j]), min(len(got), len(exp)))
                    viol("randomizer-not-spec-sequence", "M17Randomizer::dc_ is not the specification's sequence (1 -> -1, 0 -> +1)",
                         {"position": j, "expected": exp[j] if j < len(exp) else None, "actual": got[j] if j < len(got) else None})
            continue
        data = m["data"]
        if c.startswith("il "):
            k = m["site"]
            _, f1, f2, kk = sites[k]
            if kk != 368:
                continue
            v = m["variant"]
            y = unhex(out) if out not in ("n/a", "size", "?", "nosite") else None
            if y is None:
                viol("interleave-no-output", "harness produced no output", {"case": c[:100], "output": out})
                continue
            if v in ("b", "db"):
                x = bits_of(data); y = bits_of(y)
            else:
                x = data
            if v in ("i8", "b"):
                exp = [0] * 368
                for j in range(368):
                    exp[pi[j]] = x[j]
            else:
                exp = [x[pi[j]] for j in range(368)]
            if y != exp:
                j = next(j for j in range(368) if j >= len(y) or y[j] != exp[j])
                what = "interleave" if v in ("i8", "b") else "deinterleave"
                src = (x.index(1) if m["kind"] == "onehot" else None)
                viol(f"{what}-position",
                     f"{what} ({'packed bytes' if v in ('b', 'db') else 'int8 array'}) at site [{site_names.get(k, k)}] <{f1},{f2},{kk}> does not move elements by pi(i) = (45 i + 92 i^2) mod 368",
                     {"site": site_names.get(k, k), "template_arguments": [f1, f2, kk], "variant": v, "input": c.split()[3],
                      "marked_input_position": src, "first_wrong_output_position": j,
                      "expected": exp[j], "actual": y[j] if j < len(y) else None,
                      "expected_output": hx(exp) if v in ("i8", "di8") else hx(pack(exp)), "actual_output": out})
        elif c.startswith("rnd "):
            v = m["variant"]
            y = unhex(out)
            if v == "soft":
                exp = []
                ok = len(y) == 368
                for j in range(368):
                    xs = s8(data[j])
                    e = -xs if dcbits[j] else xs
                    if xs == -128:
                        e = -128  # the documented exception (c10_soft_rand_m128): the sign of -128 cannot be flipped in int8_t
                    exp.append(e & 255)
                if not ok or y != exp:
                    j = next((j for j in range(368) if j >= len(y) or y[j] != exp[j]), 0)
                    viol("randomizer-not-spec-sequence", "soft randomizer is not a sign change exactly where the specification's sequence has a 1",
                         {"variant": "soft", "input": hx(data), "position": j, "sequence_bit": dcbits[j], "input_value": s8(data[j]),
                          "expected": s8(exp[j]), "actual": s8(y[j]) if j < len(y) else None})
            elif v in ("bits", "nbits"):
                exp = [(data[j] ^ dcbits[j]) & 255 for j in range(368)]
                if y != exp:
                    j = next((j for j in range(368) if j >= len(y) or y[j] != exp[j]), 0)
                    viol("randomizer-not-spec-sequence", "bit randomizer is not the xor with the specification's sequence",
                         {"variant": "bits", "input": hx(data), "position": j, "sequence_bit": dcbits[j], "expected": exp[j], "actual": y[j] if j < len(y) else None})
            elif v == "bytes":
                exp = [data[j] ^ dc[j] for j in range(46)]
                if y != exp:
                    j = next((j for j in range(46) if j >= len(y) or y[j] != exp[j]), 0)
                    viol("randomizer-not-spec-sequence", "byte randomizer is not the xor with the specification's sequence",
                         {"variant": "bytes", "input": hx(data), "byte": j, "sequence_byte": dc[j], "expected": exp[j], "actual": y[j] if j < len(y) else None})

    # (iii) compositions evaluated on the C++ alone: round trips, twice = identity, transmit variant undone by the receive variant
    r = ctx.rng.fork("c10-oracle")
    n = 200 if ctx.tier == "thorough" else 40
    ocases, ometa = [], []
    for (f1, f2, kk), users in seen.items():
        k = users[0][0]
        frames8 = [[(i * 7 + 3) & 0xFF for i in range(kk)], [0x80] * kk, [0x7F] * kk] + [list(r.bytes(kk)) for _ in range(n)]
        for p in range(0, kk, 1 if ctx.tier == "thorough" else 8):
            v = [0] * kk; v[p] = 0x80
            frames8.append(v)
        for v in frames8:
            ocases.append(f"rt {k} i8 {hx(v)}"); ometa.append(("rt", k, "i8", v))
        if kk % 8 == 0:
            for v in [[0xFF] * (kk // 8), list(range(kk // 8))] + [list(r.bytes(kk // 8)) for _ in range(n)]:
                ocases.append(f"rt {k} b {hx(v)}"); ometa.append(("rt", k, "b", v))
    ext = [127, 0x81, 0x80, 0, 1, 0xFF]
    for _ in range(n):
        for v, d in (("soft", list(r.bytes(368))), ("soft", [r.choice(ext) for _ in range(368)]), ("bits", list(r.bytes(368))),
                     ("bits", [r.below(2) for _ in range(368)]), ("bytes", list(r.bytes(46)))):
            ocases.append(f"rnd2 {v} {hx(d)}"); ometa.append(("rnd2", v, d))
        d = list(r.bytes(46))
        for tx in ("bits", "bytes"):
            for amp in (1, 7, 127):
                ocases.append(f"rndx {tx} {amp} {hx(d)}"); ometa.append(("rndx", tx, amp, d))
    for d in ([0x80] * 368, [0x7F] * 368, [0x81] * 368):
        ocases.append(f"rnd2 soft {hx(d)}"); ometa.append(("rnd2", "soft", d))
    if rl is not None:
        keep = [(l, ometa_from_line(l)) for l in rl if ometa_from_line(l)]
        ocases = [l for l, _ in keep]; ometa = [m for _, m in keep]
    cur["case"] = None
    if not ocases:
        return
    otext = "\n".join(ocases) + "\n"
    (ctx.workdir / "oracle_cases.txt").write_text(otext)
    rc, oout = ctx.run_exe(exe, input_text=otext)
    o = oout.strip("\n").split("\n")
    if rc != 0 or len(o) != len(ocases):
        ctx.tie_broken("c10-harness-oracle-run", f"harness exited {rc}, {len(o)} lines for {len(ocases)} cases")
    for c, m, out in zip(ocases, ometa, o):
        ctx.evaluations += 1
        cur["case"] = c
        if rl is not None:
            ctx.log(f"replay: {c[:90]}... -> implementation {out[:90]}...")
        if m[0] == "rt":
            _, k, v, d = m
            _, f1, f2, kk = sites[k]
            t = out.split()
            if len(t) != 3:
                viol("interleave-no-output", "harness produced no output", {"case": c[:100], "output": out})
                continue
            x = hx(d)
            names = ["deinterleave(interleave(x))", "interleave(deinterleave(x))",
                     "decoder.deinterleave(site.interleave(x))" if v == "i8" else "hard(decoder.deinterleave(soft(site.interleave_bytes(x))))"]
            for nm, got in zip(names, t):
                if got == "n/a":
                    continue
                if got != x:
                    key = "interleave-roundtrip" if "decoder" not in nm else "interleave-tx-rx-mismatch"
                    viol(key, f"{nm} is not x at site [{site_names.get(k, k)}] <{f1},{f2},{kk}> ({'int8 array' if v == 'i8' else 'packed bytes'})",
                         {"site": site_names.get(k, k), "template_arguments": [f1, f2, kk], "variant": v, "x": x, "expected": x, "actual": got})
        elif m[0] == "rnd2":
            _, v, d = m
            if out != hx(d):
                viol("randomizer-not-involutive", f"{v} randomizer applied twice does not return the frame",
                     {"variant": v, "x": hx(d), "expected": hx(d), "actual": out})
        elif m[0] == "rndx":
            _, tx, amp, d = m
            if out != hx(d):
                viol("randomizer-variants-disagree", f"frame randomized by the transmitter's {tx} variant is not restored by the receiver's soft variant",
                     {"transmit_variant": tx, "soft_amplitude": amp, "x": hx(d), "expected": hx(d), "actual": out})
    ctx.sample({"oracle_case": ocases[0][:80] + "...", "impl": o[0][:80] + "..." if o else None})
    ctx.coverage["oracle_compositions"] = len(ocases)
