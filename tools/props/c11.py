"""C11 — puncture / depuncture: correspondence (C++ vs extracted ImplPuncture, output array pre-filled) and property oracle
on the real code (kept positions exactly, in order, one frame's worth; depuncture output = spread of the received values
and independent of the prior buffer content; depuncture after puncture = identity on kept positions, 0 elsewhere;
packed-byte variant agrees with the array variant; P1/P2/P3 are the specification's matrices)."""
from vlib import COQ, VERIF, AnchorError

PROPERTY = "C11"
CONSTS = ["puncture"]
COQ_TARGETS = ["Properties_C11.vo", "Extract_C11.vo"]
PROPERTIES_FILE = "Properties_C11.v"
LEVEL = "proof"
RULE = ("geometries (P1,488,368) (P2,296,272) (P2,402,368) (P3,420,368) and the packed ones (P1,61B,46B) (P2,37B,34B): a frame with a single "
        "marked element at every input position (exhaustive over positions) and random / extreme contents, each with the output array "
        "pre-filled with 0x00, 0x55 or random bytes, through puncture (int8 and uint8 input), puncture_bytes, depuncture, depunctured<M>; "
        "depuncture(puncture(x)) on the C++ alone.  A case is non-trivial if the input is not all-zero; distinct by (operation, geometry, "
        "prior content, input).")
ASSUMPTIONS = ["model = hand-written ImplPuncture.v/ImplUtilBits.v; tie = differential run on the cases of this run + regenerated P2/P3 literals, make_p1 loop constants and call-site geometries",
               "functions observed through their out array and returned count only; depunctured<M> is exercised at M = 488 (the only modem geometry its static_assert admits), 300 and 424"]

GEOM = {"lsf": (1, 488, 368), "stream": (2, 296, 272), "bert": (2, 402, 368), "packet": (3, 420, 368)}
GEOMB = {"lsfb": (1, 61, 46), "streamb": (2, 37, 34)}
GEOMD = {"lsf": (1, 488, 368), "s300": (2, 300, 275), "p424": (3, 424, 371)}


def build_model(ctx):
    ctx.model = ctx.build_ocaml("c11_driver", [COQ / "c11_model.mli", COQ / "c11_model.ml", VERIF / "ocaml" / "c11_driver.ml"])


def hx(vals):
    return bytes(v & 255 for v in vals).hex() if vals else "-"


def unhex(s):
    return list(bytes.fromhex(s)) if s and s != "-" else []


def bits_of(bs):
    return [(b >> (7 - j)) & 1 for b in bs for j in range(8)]


def fills(r, n, which):
    if which == 0:
        return [0] * n
    if which == 1:
        return [0x55] * n
    return list(r.bytes(n))


FILL_NAMES = ["zero", "0x55", "random"]


def gen_cases(ctx):
    r = ctx.rng.fork("c11")
    thorough = ctx.tier == "thorough"
    cases, meta = [], []

    def add(op, g, prev, data, kind, fill):
        if op == "dd":
            cases.append(f"dd {g} {hx(data)}")
        else:
            cases.append(f"{op} {g} {hx(prev)} {hx(data)}")
        meta.append({"op": op, "geom": g, "prev": prev, "data": data, "kind": kind, "fill": fill})
        ctx.count(f"{op}-{g}-{kind}")
        if op != "dd":
            ctx.count(f"prefill-{FILL_NAMES[fill]}")

    cases.append("mat"); meta.append({"op": "mat"})
    nrand = 30 if thorough else 8
    ext = [127, 0x81, 0x80, 0, 1, 0xFF]
    for g, (k, n_in, n_out) in GEOM.items():
        # transmit side: puncture(in[n_in], out[n_out]); tagged positions exhaustively
        for pos in range(n_in):
            v = [0] * n_in; v[pos] = 1
            for f in (range(3) if thorough else [pos % 3]):
                add("p", g, fills(r, n_out, f), v, "onehot", f)
            add("pu", g, fills(r, n_out, (pos + 1) % 3), [0 if i != pos else 0xC8 for i in range(n_in)], "onehot", (pos + 1) % 3)
        for _ in range(nrand):
            v = list(r.bytes(n_in))
            for f in range(3):
                add("p", g, fills(r, n_out, f), v, "random", f)
            v = [r.below(2) for _ in range(n_in)]
            add("pu", g, fills(r, n_out, 2), v, "random01", 2)
        add("p", g, fills(r, n_out, 1), [i & 0xFF for i in range(n_in)], "indexcoded", 1)
        add("p", g, fills(r, n_out, 1), [i >> 8 for i in range(n_in)], "indexcoded", 1)
        # receive side: depuncture(in[n_out], out[n_in])
        for pos in range(n_out):
            for val in ((1, 0x80) if thorough else (1,)):
                v = [0] * n_out; v[pos] = val
                for f in (range(3) if thorough else [pos % 3, (pos + 1) % 3]):
                    add("d", g, fills(r, n_in, f), v, "onehot", f)
        for _ in range(nrand):
            v = list(r.bytes(n_out))
            for f in range(3):
                add("d", g, fills(r, n_in, f), v, "random", f)
            v = [r.choice(ext) for _ in range(n_out)]
            for f in range(3):
                add("d", g, fills(r, n_in, f), v, "extreme", f)
        for fillv in ext:
            for f in range(3):
                add("d", g, fills(r, n_in, f), [fillv] * n_out, "extreme", f)
        add("d", g, fills(r, n_in, 1), [(i % 255) + 1 for i in range(n_out)], "indexcoded", 1)
    for g, (k, n_in, n_out) in GEOMB.items():
        for pos in range(n_in * 8):
            v = [0] * n_in; v[pos >> 3] = 0x80 >> (pos & 7)
            for f in (range(3) if thorough else [pos % 3]):
                add("pb", g, fills(r, n_out, f), v, "onehot", f)
        for _ in range(nrand):
            v = list(r.bytes(n_in))
            for f in range(3):
                add("pb", g, fills(r, n_out, f), v, "random", f)
        for fillv in (0, 0xFF, 0x55, 0xAA):
            add("pb", g, fills(r, n_out, 2), [fillv] * n_in, "fill", 2)
    for g, (k, m, n_in) in GEOMD.items():
        for pos in range(n_in):
            v = [0] * n_in; v[pos] = 0x7F
            add("dd", g, [], v, "onehot", 0)
        for _ in range(nrand):
            add("dd", g, [], list(r.bytes(n_in)), "random", 0)
    return cases, meta


def meta_from_line(line):
    """reconstruct the description of a differential case from its text (used by --replay)"""
    t = line.split()
    if t[:1] == ["mat"]:
        return {"op": "mat"}
    if len(t) == 4 and t[0] in ("p", "pu", "pb", "d"):
        return {"op": t[0], "geom": t[1], "prev": unhex(t[2]), "data": unhex(t[3]), "kind": "replay", "fill": 2}
    if len(t) == 3 and t[0] == "dd":
        return {"op": "dd", "geom": t[1], "prev": [], "data": unhex(t[2]), "kind": "replay", "fill": 0}
    return None


def ometa_from_line(line):
    t = line.split()
    if len(t) == 5 and t[0] == "rt":
        return (t[1], unhex(t[2]), unhex(t[3]), unhex(t[4]))
    return None


def replay_lines(ctx):
    if not ctx.replay_in:
        return None
    import json
    d = json.load(open(ctx.replay_in))
    rep = d.get("replay", {})
    lines = [rep[k] for k in ("case", "case_b") if isinstance(rep.get(k), str)]
    ctx.log(f"replaying {len(lines)} recorded case(s) from {ctx.replay_in}")
    return lines


def expected_sites():
    return {"depuncture": {("P1", 368, 488), ("P2", 272, 296), ("P2", 368, 402), ("P3", 368, 420)},
            "puncture": {("P1", 488, 368), ("P2", 296, 272), ("P2", 402, 368), ("P3", 420, 368)},
            "puncture_bytes": {("P1", 61, 46), ("P2", 37, 34)}}


def run(ctx):
    exe = ctx.build_cpp("c11_harness", "c11.cpp")
    model = getattr(ctx, "model", None)
    cases, meta = gen_cases(ctx)
    rl = replay_lines(ctx)
    if rl is not None:   # --replay: exactly the recorded input, on model and implementation
        keep = [(l, meta_from_line(l)) for l in rl if meta_from_line(l)]
        cases = ["mat"] + [l for l, _ in keep]
        meta = [{"op": "mat"}] + [m for _, m in keep]
    text = "\n".join(cases) + "\n"
    (ctx.workdir / "cases.txt").write_text(text)
    impl_out = model_out = spec_out = ""
    if exe:
        rc, impl_out = ctx.run_exe(exe, input_text=text)
        if rc != 0:
            ctx.tie_broken("c11-harness-run", f"harness exited {rc}: {impl_out[-300:]}")
    if model:
        rc, model_out = ctx.run_exe(model, ["impl"], input_text=text)
        if rc != 0:
            ctx.tie_broken("c11-model-run", f"model exited {rc}: {model_out[-300:]}")
        rc, spec_out = ctx.run_exe(model, ["spec"])
    for c, m in zip(cases, meta):
        ctx.case(c, nontrivial=any(m.get("data", [1])))
    if exe and model:
        ctx.diff_lines("c11-impl-vs-model", cases, impl_out, model_out)
    if not exe:
        return
    a = impl_out.strip("\n").split("\n")
    # specification: matrices and masks from the extracted SpecPuncture (fallback: the specification's text typed here)
    spec_p = {1: ([1, 1, 0, 1] * 15) + [1], 2: [1] * 11 + [0], 3: [1] * 7 + [0]}
    masks = {}
    for l in spec_out.split("\n"):
        t = l.split()
        if t[:1] == ["matrix"]:
            if unhex(t[2]) != spec_p[int(t[1])]:
                ctx.tie_broken("c11-spec-matrix", f"extracted SpecPuncture matrix {t[1]} differs from the specification text held by the oracle")
        elif t[:1] == ["mask"]:
            masks[t[1]] = [int(ch) for ch in t[2]]
    for g, (k, n_in, n_out) in list(GEOM.items()) + [(g, (k, m, n)) for g, (k, m, n) in GEOMD.items()]:
        own = [spec_p[k][i % len(spec_p[k])] for i in range(n_in)]
        if g in masks and masks[g] != own:
            ctx.tie_broken("c11-spec-mask", f"extracted mask for {g} differs from the cyclic repetition computed by the oracle")
        masks[g] = own
    for g, (k, n_in, n_out) in GEOMB.items():
        masks[g] = [spec_p[k][i % len(spec_p[k])] for i in range(n_in * 8)]
    if len(cases) > 1:
        ctx.sample({"case": cases[1][:100] + "...", "impl": a[1][:100] + "..." if len(a) > 1 else None})

    reported = set()
    cur = {"case": None}

    def viol(key, text, replay):
        if key not in reported:
            reported.add(key)
            if cur["case"] and "case" not in replay:
                replay = dict(replay, case=cur["case"])
            ctx.violation(key, text, replay)

    # call-site geometries read by the translator
    try:
        from consts import puncture as cp
        ss = cp.sites(ctx.repo)
        exp = expected_sites()
        for kind, lst in ss.items():
            for name, p, n_in, n_out in lst:
                if (p, n_in, n_out) not in exp[kind]:
                    viol("puncture-site-geometry", f"{kind}() call site {name} uses ({p}, IN={n_in}, OUT={n_out}), not a geometry of the M17 frame formats",
                         {"call": kind, "site": name, "matrix": p, "IN": n_in, "OUT": n_out})
        ctx.coverage["call_sites"] = {k: [list(x) for x in v] for k, v in ss.items()}
    except AnchorError:
        pass

    def spread(mask, data):
        out, j = [], 0
        for b in mask:
            if b and j < len(data):
                out.append(data[j]); j += 1
            else:
                out.append(0)
        return out

    dgroups = {}
    count_mismatch = []   # reported after the scan, and only for geometries without an unwritten-position finding (same defect, one report)
    stale_geoms = set()
    for i, (c, m) in enumerate(zip(cases, meta)):
        if i >= len(a):
            break
        out = a[i].split()
        op = m["op"]
        cur["case"] = c
        if rl is not None:
            ctx.log(f"replay: {c[:90]}... -> implementation {a[i][:90]}...")
        if op == "mat":
            got = [unhex(x) for x in out]
            for k in (1, 2, 3):
                if len(got) != 3 or got[k - 1] != spec_p[k]:
                    viol("puncture-matrix", f"P{k} is not the specification's puncture matrix",
                         {"matrix": f"P{k}", "expected": hx(spec_p[k]), "actual": out[k - 1] if len(out) == 3 else a[i]})
            continue
        g = m["geom"]
        if op in ("p", "pu", "pb"):
            mask = masks[g]
            if op == "pb":
                k, n_in, n_out = GEOMB[g]
                x = bits_of(m["data"]); n_keep = n_out * 8
                y = bits_of(unhex(out[0])) if out and out[0] not in ("size", "?") else None
            else:
                k, n_in, n_out = GEOM[g]
                x = m["data"]; n_keep = n_out
                y = unhex(out[0]) if out and out[0] not in ("size", "?") else None
            exp = [x[j] for j in range(len(x)) if mask[j]][:n_keep]
            if y is None or len(out) != 2:
                viol("puncture-no-output", "harness produced no output", {"case": c[:120], "output": a[i][:120]})
                continue
            if y != exp:
                j = next(j for j in range(n_keep) if j >= len(y) or y[j] != exp[j])
                src = next((q for q, v in enumerate(x) if v), None) if m["kind"] == "onehot" else None
                viol("puncture-wrong-positions", f"{'puncture_bytes' if op == 'pb' else 'puncture'} [{g}] does not output exactly the positions where the cyclic matrix is 1, in order",
                     {"function": "puncture_bytes" if op == "pb" else "puncture", "geometry": g, "input": hx(m["data"]), "out_prefill": hx(m["prev"]),
                      "marked_input_position": src, "first_wrong_output_position": j, "expected": exp[j], "actual": y[j] if j < len(y) else None,
                      "actual_output": out[0]})
            if int(out[1]) != n_keep:
                viol("puncture-count", f"{'puncture_bytes' if op == 'pb' else 'puncture'} [{g}] does not return one frame's worth of bits ({n_keep})",
                     {"geometry": g, "input": hx(m["data"]), "out_prefill": hx(m["prev"]), "expected": n_keep, "actual": int(out[1])})
        elif op == "d":
            k, n_in, n_out = GEOM[g]
            y = unhex(out[0]) if out and out[0] not in ("size", "?") else None
            if y is None or len(out) != 2:
                viol("puncture-no-output", "harness produced no output", {"case": c[:120], "output": a[i][:120]})
                continue
            exp = spread(masks[g], m["data"])
            key = (g, tuple(m["data"]))
            dgroups.setdefault(key, []).append((m["prev"], y, int(out[1]), c))
            if y != exp:
                wrong = [j for j in range(n_in) if j >= len(y) or y[j] != exp[j]]
                # unwritten = still holding the (non-zero) pre-fill; a zero pre-fill cannot be told from a written erasure
                stale = [j for j in wrong if j < len(y) and y[j] == m["prev"][j] and m["prev"][j] != 0]
                if stale and len(stale) == len(wrong):
                    stale_geoms.add(g)
                    viol("depuncture-stale-output", f"depuncture [{g}] leaves output position(s) {stale[:8]} unwritten: they keep the previous content of the buffer",
                         {"geometry": g, "received": hx(m["data"]), "out_prefill": hx(m["prev"]), "stale_positions": stale[:16],
                          "expected_at_first": exp[stale[0]], "actual_at_first": y[stale[0]], "prefill_at_first": m["prev"][stale[0]], "actual_output": out[0],
                          "returned_count": int(out[1]), "expected_count": n_in - min(sum(masks[g]), len(m["data"]))})
                else:
                    j = wrong[0]
                    viol("depuncture-wrong-output", f"depuncture [{g}] is not: received values at the kept positions, 0 elsewhere",
                         {"geometry": g, "received": hx(m["data"]), "out_prefill": hx(m["prev"]), "first_wrong_position": j,
                          "expected": exp[j], "actual": y[j] if j < len(y) else None, "actual_output": out[0]})
            nexp = n_in - min(sum(masks[g]), len(m["data"]))
            if int(out[1]) != nexp:
                count_mismatch.append((g, f"depuncture [{g}] does not return the number of erased positions ({nexp})",
                                       {"geometry": g, "received": hx(m["data"]), "out_prefill": hx(m["prev"]), "expected": nexp, "actual": int(out[1])}))
        elif op == "dd":
            k, mm, n_in = GEOMD[g]
            y = unhex(out[0]) if out and out[0] not in ("size", "?", "n/a") else None
            exp = spread(masks[g], m["data"])
            if y != exp:
                j = next((j for j in range(mm) if y is None or j >= len(y) or y[j] != exp[j]), 0)
                viol("depunctured-wrong-output", f"depunctured<{mm}> [{g}] is not: received values at the kept positions, 0 elsewhere",
                     {"geometry": g, "received": hx(m["data"]), "first_wrong_position": j, "expected": exp[j], "actual": y[j] if y and j < len(y) else None})
    # independence of the prior buffer content, stated directly: same received frame, different pre-fill, same result
    cur["case"] = None
    for (g, data), runs in dgroups.items():
        ctx.evaluations += 1
        base = runs[0]
        for other in runs[1:]:
            if other[1] != base[1] or other[2] != base[2]:
                pos = [j for j in range(len(base[1])) if base[1][j] != other[1][j]]
                viol("depuncture-stale-output", f"depuncture [{g}] output depends on the previous content of the output buffer at position(s) {pos[:8]}",
                     {"geometry": g, "received": hx(list(data)), "out_prefill_a": hx(base[0]), "out_prefill_b": hx(other[0]),
                      "differing_positions": pos[:16], "output_a": hx(base[1]), "output_b": hx(other[1]), "count_a": base[2], "count_b": other[2],
                      "case": base[3], "case_b": other[3]})
                stale_geoms.add(g)
                break
    for g, text_, rep in count_mismatch:
        if g not in stale_geoms:
            viol("depuncture-count", text_, rep)

    # compositions on the C++ alone: depuncture(puncture(x)) = x on kept-and-transmitted positions, 0 elsewhere
    r = ctx.rng.fork("c11-oracle")
    n = 120 if ctx.tier == "thorough" else 25
    ocases, ometa = [], []
    for g, (k, n_in, n_out) in GEOM.items():
        frames = [[(i % 127) + 1 for i in range(n_in)], [0x80] * n_in, [0x7F] * n_in, [0xFF] * n_in]
        frames += [[b or 1 for b in r.bytes(n_in)] for _ in range(n)]
        for pos in range(0, n_in, 1 if ctx.tier == "thorough" else 4):
            v = [0] * n_in; v[pos] = 0x81
            frames.append(v)
        for fi, v in enumerate(frames):
            p1 = fills(r, n_out, fi % 3); p2 = fills(r, n_in, (fi // 3) % 3)
            ocases.append(f"rt {g} {hx(p1)} {hx(p2)} {hx(v)}"); ometa.append((g, p1, p2, v))
    if rl is not None:
        keep = [(l, ometa_from_line(l)) for l in rl if ometa_from_line(l)]
        ocases = [l for l, _ in keep]; ometa = [m for _, m in keep]
    if not ocases:
        return
    otext = "\n".join(ocases) + "\n"
    (ctx.workdir / "oracle_cases.txt").write_text(otext)
    rc, oout = ctx.run_exe(exe, input_text=otext)
    o = oout.strip("\n").split("\n")
    if rc != 0 or len(o) != len(ocases):
        ctx.tie_broken("c11-harness-oracle-run", f"harness exited {rc}, {len(o)} lines for {len(ocases)} cases")
    for c, (g, p1, p2, v), line in zip(ocases, ometa, o):
        ctx.evaluations += 1
        cur["case"] = c
        if rl is not None:
            ctx.log(f"replay: {c[:90]}... -> implementation {line[:90]}...")
        k, n_in, n_out = GEOM[g]
        t = line.split()
        if len(t) != 3:
            viol("puncture-no-output", "harness produced no output", {"case": c[:120], "output": line[:120]})
            continue
        y = unhex(t[0])
        mask = masks[g]
        rank, exp = 0, []
        for j in range(n_in):
            if mask[j] and rank < n_out:
                exp.append(v[j]); rank += 1
            else:
                exp.append(0)
        if y != exp:
            wrong = [j for j in range(n_in) if j >= len(y) or y[j] != exp[j]]
            # an unwritten position is established by the direct depuncture cases above; a composition that fails only at such
            # positions of the same geometry is the same defect and goes under the same key
            stale = [j for j in wrong if j < len(y) and y[j] == p2[j] and exp[j] == 0]
            key = "depuncture-stale-output" if g in stale_geoms and len(stale) == len(wrong) else "depuncture-puncture-not-identity"
            viol(key, f"depuncture(puncture(x)) [{g}] is not x on the kept positions and 0 elsewhere (first wrong position {wrong[0]})",
                 {"geometry": g, "x": hx(v), "puncture_out_prefill": hx(p1), "depuncture_out_prefill": hx(p2), "wrong_positions": wrong[:16],
                  "expected_at_first": exp[wrong[0]], "actual_at_first": y[wrong[0]] if wrong[0] < len(y) else None, "actual_output": t[0]})
    ctx.sample({"oracle_case": ocases[0][:100] + "...", "impl": o[0][:100] + "..." if o else None})
    ctx.coverage["oracle_compositions"] = len(ocases)
    ctx.coverage["depuncture_prefill_groups"] = len(dgroups)
