"""C17 — callsign codec: correspondence (C++ encode/decode_callsign vs extracted ImplCallsign) and the property oracle on
the real code (round trip, value = specification's base-40 value, injectivity, broadcast, NUL termination for any address)."""
import json
import re
from vlib import COQ, VERIF

PROPERTY = "C17"
CONSTS = ["callsign"]
COQ_TARGETS = ["Properties_C17.vo", "Extract_C17.vo"]
PROPERTIES_FILE = "Properties_C17.v"
LEVEL = "proof"
RULE = ("round trip: every callsign of length 1..3 over the 39-character alphabet (60 879; thorough adds all 2 313 441 of length 4), "
        "random callsigns of length 5..9; decode: 40^k-1, 40^k, 40^k+1 for k=0..9, 0, 2^48-2, 2^48-1, random addresses stratified by "
        "number of base-40 digits, by zero digits (printed 'x') and in the reserved range >= 40^9; encode with strict on/off on valid, "
        "lower-case, space, high-bit and ten-character inputs and every single byte value; call site: the LSF built by m17-mod's "
        "send_lsf, and the members M17Modulator's constructor / source() / dest() set, for every (source length 1..9) x (destination "
        "length 0..9) pair carry the specification's addresses.  "
        "A case is non-trivial unless it is the empty callsign / address 0; distinct by content.")
ASSUMPTIONS = ["model = hand-written ImplCallsign.v; tie = differential run on the cases of this run + regenerated constants "
               "(table, ranges, radix, sizes, broadcast constants, loop bound)",
               "little-endian host (the C++ reinterprets the uint64 as bytes; the model is the little-endian reading)",
               "codec observed through the return values of encode_callsign/decode_callsign only"]

ALPHABET = "ABCDEFGHIJKLMNOPQRSTUVWXYZ0123456789-/."
ALHEX = ALPHABET.encode().hex()


def build_model(ctx):
    ctx.model = ctx.build_ocaml("c17_driver", [COQ / "c17_model.mli", COQ / "c17_model.ml", VERIF / "ocaml" / "c17_driver.ml"])


def hx(s):
    b = s if isinstance(s, (bytes, bytearray)) else s.encode("latin-1")
    return b.hex() if b else "-"


def gen_cases(ctx):
    r = ctx.rng.fork("c17")
    thorough = ctx.tier == "thorough"
    cases = []
    # ---- round trip, exhaustive by length (rtx expands the last character over the alphabet)
    cases.append(f"rtx - {ALHEX}")
    for a in ALPHABET:
        cases.append(f"rtx {hx(a)} {ALHEX}")
    for a in ALPHABET:
        for b in ALPHABET:
            cases.append(f"rtx {hx(a + b)} {ALHEX}")
    ctx.count("roundtrip-exhaustive-len1..3", 39 + 39 ** 2 + 39 ** 3)
    if thorough:
        for a in ALPHABET:
            for b in ALPHABET:
                for c in ALPHABET:
                    cases.append(f"rtx {hx(a + b + c)} {ALHEX}")
        ctx.count("roundtrip-exhaustive-len4", 39 ** 4)
    else:
        for _ in range(300):
            cases.append("rtx " + hx("".join(r.choice(ALPHABET) for _ in range(3))) + " " + ALHEX)
        ctx.count("roundtrip-random-len4", 300 * 39)
    for _ in range(50000 if thorough else 4000):
        n = r.range(5, 9)
        cases.append("rt " + hx("".join(r.choice(ALPHABET) for _ in range(n))))
        ctx.count(f"roundtrip-random-len{n}")
    # extremes of the valid set
    for n in range(1, 10):
        cases.append("rt " + hx("." * n))
        cases.append("rt " + hx("A" * n))
    # ---- decode
    addrs = [0]
    for k in range(0, 10):
        for d in (-1, 0, 1):
            v = 40 ** k + d
            if 0 < v < 2 ** 48:
                addrs.append(v)
    addrs += [2 ** 48 - 2, 2 ** 48 - 1]
    for k in range(0, 10):
        lo, hi = 40 ** k, min(40 ** (k + 1), 2 ** 48) - 1
        for _ in range(400 if thorough else 60):
            addrs.append(r.range(lo, hi))
            ctx.count("decode-digits-%d" % (k + 1))
    for _ in range(4000 if thorough else 400):       # zero digits inside
        nd = r.range(2, 9)
        ds = [r.range(0, 39) if not r.chance(1, 3) else 0 for _ in range(nd)]
        ds[-1] = r.range(1, 39)
        addrs.append(sum(d * 40 ** i for i, d in enumerate(ds)))
        ctx.count("decode-zero-digits")
    for _ in range(4000 if thorough else 400):       # reserved range
        addrs.append(r.range(40 ** 9, 2 ** 48 - 1))
        ctx.count("decode-reserved")
    for _ in range(4000 if thorough else 400):       # uniform 48-bit
        addrs.append(r.below(2 ** 48))
        ctx.count("decode-uniform")
    for v in addrs:
        cases.append("dec %012x" % v)
    # ---- encode with the strict flag, malformed input
    malformed = ["wx9o", "Wx9O", "A B", " ", "AB*", "N0CALL!", "ABCDEFGHIJ", "0123456789", "..........", "AB\x80", "\xff\xfe",
                 "A\x00B", "@", "[", "`", ":", ",", "+"]
    for s in malformed + ["WX9O", "IU2KWO", "A", "ABCDEFGHI"]:
        for st in (0, 1):
            cases.append(f"enc {st} {hx(s)}")
            ctx.count("encode-strict" if st else "encode-nonstrict")
    for c in range(256):
        for st in (0, 1):
            cases.append(f"enc {st} {hx(bytes([c]))}")
        cases.append(f"enc 1 {hx(bytes([c]) * 10)}")
    ctx.count("encode-every-byte-value", 768)
    for _ in range(2000 if thorough else 300):
        n = r.range(0, 10)
        s = bytes(r.below(256) if r.chance(1, 4) else ord(r.choice(ALPHABET + "abcxyz ")) for _ in range(n))
        cases.append(f"enc {r.below(2)} {hx(s)}")
        ctx.count("encode-random-mixed")
    return cases


def cstr(h):
    """hex of a 10-char array -> (text bytes before the first NUL, terminated?, clean tail?)"""
    b = bytes.fromhex(h)
    i = b.find(0)
    if i < 0:
        return b, False, False
    return b[:i], True, all(x == 0 for x in b[i:])


def check_decoded(ctx, what, case, h, extra=None):
    """the termination half of the property, on one result of the real decode_callsign"""
    if len(h) != 20:
        ctx.violation("callsign-decode-malformed", "decode_callsign result is not ten characters", {"case": case, "implementation": h})
        return False
    b = bytes.fromhex(h)
    text, term, clean = cstr(h)
    rep = {"case": case, "address": what, "decoded_hex": h, "decoded_text": b.decode("latin-1").replace("\x00", "\\0")}
    if extra:
        rep.update(extra)
    if b[9] != 0 or not term:
        ctx.violation("callsign-unterminated", "decode_callsign result has no terminating NUL (result[9] != 0): ten characters written", rep)
        return False
    if not clean:
        ctx.violation("callsign-garbage-after-nul", "decode_callsign result has characters after the first NUL", rep)
        return False
    return True


def site_probe(ctx):
    """The encode call site of apps/m17-mod.cpp (send_lsf): the address fields of the LSF it builds are the codec's addresses of
    exactly the strings given, for every combination of source and destination length (the scratch buffer is shared)."""
    model = getattr(ctx, "model", None)
    exe = ctx.build_cpp("c13_harness", "c13.cpp", extra=[f'-DM17_MOD_SOURCE="{ctx.repo}/apps/m17-mod.cpp"'],
                        libs=["-lcodec2", "-lboost_program_options"])
    if not exe or not model:
        return
    r = ctx.rng.fork("c17-sites")
    pairs = []
    for ls in range(1, 10):
        for ld in range(0, 10):
            for _ in range(3 if ctx.tier == "thorough" else 1):
                src = "".join(r.choice(ALPHABET) for _ in range(ls))
                dst = "".join(r.choice(ALPHABET) for _ in range(ld))
                pairs.append((src, dst))
    cmds = [f"lsf {r.below(16)} {hx(sr)} {hx(ds) if ds else '-'}" for sr, ds in pairs]
    rc, out = ctx.run_exe(exe, input_text="\n".join(cmds) + "\n", timeout=600)
    got = out.strip("\n").split("\n")
    if rc != 0 or len(got) != len(cmds):
        ctx.tie_broken("c17-site-harness", f"c13 harness exited {rc} / printed {len(got)} lines for {len(cmds)} commands: {out[-200:]}")
        return
    q = []
    for sr, ds in pairs:
        q.append("rt " + hx(sr))
        q.append("rt " + (hx(ds) if ds else "-"))
    rc, mo = ctx.run_exe(model, ["spec"], input_text="\n".join(q) + "\n", timeout=600)
    ml = mo.strip("\n").split("\n")
    if rc != 0 or len(ml) != len(q):
        ctx.tie_broken("c17-site-model", f"model driver exited {rc} / {len(ml)} lines")
        return
    for i, ((sr, ds), line) in enumerate(zip(pairs, got)):
        ctx.case(("site", sr, ds))
        m = re.search(r"lsf=([0-9a-f]{60})", line)
        if not m:
            ctx.tie_broken("c17-site-harness", f"unparsable: {line[:100]}")
            return
        lsf = m.group(1)
        want_src = ml[2 * i].split()[0]
        want_dst = ml[2 * i + 1].split()[0] if ds else "ffffffffffff"
        if lsf[12:24] != want_src or lsf[0:12] != want_dst:
            ctx.violation("callsign-site-m17-mod", "the link setup frame built by m17-mod's send_lsf does not carry the addresses of the "
                          "callsigns it was given", {"source": sr, "destination": ds or "(none: broadcast)", "lsf": lsf,
                                                     "dst_field": lsf[0:12], "dst_expected": want_dst,
                                                     "src_field": lsf[12:24], "src_expected": want_src,
                                                     "harness_command": cmds[i]})
            return
    ctx.coverage["m17_mod_send_lsf_length_pairs"] = len(pairs)
    # M17Modulator: constructor and source()/dest() setters (private wrapper around the codec)
    exe2 = ctx.build_cpp("c17_sites_harness", "c17_sites.cpp", libs=["-lcodec2"])
    if not exe2:
        return
    cmds2 = []
    for k, (sr, ds) in enumerate(pairs):
        cmds2.append(f"{'ctor' if k % 2 == 0 else 'set'} {hx(sr)} {hx(ds) if ds else '-'}")
    rc, out = ctx.run_exe(exe2, input_text="\n".join(cmds2) + "\n", timeout=600)
    got = out.strip("\n").split("\n")
    if rc != 0 or len(got) != len(cmds2):
        ctx.tie_broken("c17-site-harness", f"c17_sites harness exited {rc} / printed {len(got)} lines for {len(cmds2)} commands: {out[-200:]}")
        return
    for i, ((sr, ds), line) in enumerate(zip(pairs, got)):
        ctx.case(("site-modulator", sr, ds))
        m = re.search(r"src=([0-9a-f]{12}) dst=([0-9a-f]{12})", line)
        if not m:
            ctx.tie_broken("c17-site-harness", f"unparsable: {line[:100]}")
            return
        want_src = ml[2 * i].split()[0]
        want_dst = ml[2 * i + 1].split()[0] if ds else "ffffffffffff"
        if m.group(1) != want_src or m.group(2) != want_dst:
            ctx.violation("callsign-site-m17modulator", "M17Modulator (constructor / source() / dest()) does not hold the addresses of the callsigns "
                          "it was given", {"how": cmds2[i].split()[0], "source": sr, "destination": ds or "(none: broadcast)",
                                           "src_member": m.group(1), "src_expected": want_src, "dst_member": m.group(2), "dst_expected": want_dst,
                                           "harness_command": cmds2[i]})
            return
    ctx.coverage["m17modulator_site_length_pairs"] = len(pairs)


def run(ctx):
    exe = ctx.build_cpp("c17_harness", "c17.cpp")
    if ctx.replay_in:
        rp = json.load(open(ctx.replay_in))
        cases = [rp["replay"]["case"]]
    else:
        cases = gen_cases(ctx)
    text = "\n".join(cases) + "\n"
    (ctx.workdir / "cases.txt").write_text(text)
    impl_out = model_out = spec_out = ""
    if exe:
        rc, impl_out = ctx.run_exe(exe, input_text=text, timeout=1800)
        if rc != 0:
            ctx.tie_broken("c17-harness-run", f"harness exited {rc}: {impl_out[-300:]}")
    if getattr(ctx, "model", None):
        rc, model_out = ctx.run_exe(ctx.model, ["impl"], input_text=text, timeout=3000)
        if rc != 0:
            ctx.tie_broken("c17-model-run", f"model driver exited {rc}: {model_out[-300:]}")
        rc2, spec_out = ctx.run_exe(ctx.model, ["spec"], input_text=text, timeout=3000)
    a = impl_out.strip("\n").split("\n") if impl_out.strip() else []
    s = spec_out.strip("\n").split("\n") if spec_out.strip() else []
    # (i) correspondence
    if exe and getattr(ctx, "model", None):
        ctx.diff_lines("callsign-impl-vs-model", cases, impl_out, model_out)
    # (ii) property oracle on the real code
    seen_addr = {}
    viol_before = len(ctx.violations)
    for i, c in enumerate(cases):
        t = c.split()
        if t[0] == "rtx":
            n = len(t[2]) // 2
            for j in range(n):
                ctx.case(c + str(j))
        else:
            ctx.case(c, nontrivial=c not in ("rt -", "dec 000000000000"))
        if i >= len(a) or len(ctx.violations) - viol_before >= 8:
            continue
        if t[0] in ("rt", "rtx"):
            if t[0] == "rt":
                strs = [bytes.fromhex(t[1]) if t[1] != "-" else b""]
            else:
                p = bytes.fromhex(t[1]) if t[1] != "-" else b""
                strs = [p + bytes([x]) for x in bytes.fromhex(t[2])]
            got = a[i].split(",")
            exp = s[i].split(",") if i < len(s) else []
            for j, st in enumerate(strs):
                if j >= len(got):
                    break
                g = got[j].split()
                case1 = "rt " + hx(st)
                if len(g) != 2:
                    continue
                if not check_decoded(ctx, g[0], case1, g[1], {"callsign": st.decode("latin-1")}):
                    break
                if j < len(exp) and exp[j] != "-":          # valid callsign: the specification says what must come out
                    e = exp[j].split()
                    if g[0] != e[0]:
                        ctx.violation("callsign-encode-value", "encode_callsign differs from the specification's base-40 address",
                                      {"case": case1, "callsign": st.decode("latin-1"), "implementation": g[0], "specification": e[0]})
                        break
                    if g[1] != e[1]:
                        ctx.violation("callsign-roundtrip", "decode_callsign(encode_callsign(s)) is not s",
                                      {"case": case1, "callsign": st.decode("latin-1"), "address": g[0], "decoded_hex": g[1],
                                       "expected_hex": e[1]})
                        break
                    if g[0] == "ffffffffffff":
                        ctx.violation("callsign-valid-is-broadcast", "a valid callsign is encoded as the broadcast address",
                                      {"case": case1, "callsign": st.decode("latin-1")})
                        break
                    o = seen_addr.setdefault(g[0], st)
                    if o != st:
                        ctx.violation("callsign-not-injective", "two distinct valid callsigns have the same address",
                                      {"case": case1, "callsign": st.decode("latin-1"), "other": o.decode("latin-1"), "address": g[0]})
                        break
        elif t[0] == "dec":
            h = a[i].strip()
            if not check_decoded(ctx, t[1], c, h):
                continue
            if i < len(s):
                sp = s[i].split()
                textb = cstr(h)[0]
                if sp[0] == "B" and textb != b"BROADCAST":
                    ctx.violation("callsign-broadcast", "the all-ones address does not decode to BROADCAST",
                                  {"case": c, "address": t[1], "decoded_hex": h})
                elif sp[0] == "C":
                    want = (bytes.fromhex(sp[1]) if len(sp) > 1 and sp[1] != "-" else b"").replace(b" ", b"x")
                    if textb != want:
                        ctx.violation("callsign-decode-value", "decode_callsign differs from the specification's text "
                                      "(digit 0 accepted as 'x')", {"case": c, "address": t[1], "decoded_hex": h,
                                                                     "specification": want.decode("latin-1")})
    ctx.coverage["distinct_valid_callsigns_round_tripped"] = len(seen_addr)
    if a:
        for i in (0, len(cases) // 2, len(cases) - 1):
            if i < len(a):
                ctx.sample({"case": cases[i][:100], "impl": a[i][:120]})
        for i, c in enumerate(cases):
            if c in ("dec ee6b28000000", "dec ffffffffffff") and i < len(a):
                ctx.sample({"case": c, "impl": a[i], "text": cstr(a[i])[0].decode("latin-1")})
    if not ctx.replay_in:
        site_probe(ctx)
